(* Proofs/C05Client.v — the CLIENT half of C05's protocol layer, over the client model ATP/Client.v with payload := Z
   (a token standing for a step input).

   Vocabulary (parameters of the section):
     calls     the (run id, input) pairs of the Executes of the session (what each caller was asked to run)
     spec t    the result `CallStep` of input t gives in-process
     tmsg r t  the terminal message the server owes run r for input t: work-done(r, output, data) when spec t = ROk,
               the step-fatal error message of run r otherwise
     okm m     m is a message the (healthy) server side may put on the stream: tmsg r t for one of the calls, or a
               non-fatal error report (the answer to a signal that cannot be delivered)

   invS: every work-start the client has written carries ITS caller's run id and input; as long as everything the
   client reads satisfies okm, every result stored in an entry or returned to a caller of run r is `spec t` for the
   call (r, t): routed by run id, never a different run's result, never a made-up error.  Preserved by every step of a
   client goroutine, by the pipe, and by the arrival of okm messages. *)
From Coq Require Import Lia.
From Verif Require Import Base.Prelude Base.Str ATP.Msg ATP.Client Proofs.ATPClient Proofs.ATPClientInv Proofs.ATPClientFinal
  Proofs.C05Vocab.
Local Open Scope nat_scope.
Local Open Scope string_scope.
Local Open Scope list_scope.

Section C05Client.
Notation state := (state Z).
Notation caller := (caller Z).
Notation event := (event Z).
Notation msg := (msg Z).
Notation loop := (loop Z).
Notation result := (result Z).

Variable calls : list (runid * Z).
Variable spec : Z -> result.
Variable tmsg : runid -> Z -> msg.
Hypothesis calls_named : forall r t, In (r, t) calls -> r <> "".
Hypothesis tmsg_spec : forall r t,
  (exists o d, tmsg r t = WorkDone r "s" o d "" /\ spec t = ROk o d) \/
  (tmsg r t = ErrMsg r true false /\ spec t = RErr ErrStep).

Definition okm (m : msg) : Prop :=
  (exists r, m = ErrMsg r false false) \/ (exists r t, In (r, t) calls /\ m = tmsg r t).
Definition okev (e : event) : Prop := exists m, e = EvMsg m /\ okm m.
Definition good (r : runid) (v : result) : Prop := exists t, In (r, t) calls /\ v = spec t.

(* what a client goroutine may write *)
Definition cwm (m : msg) : Prop := c05_cwm calls m.

Definition cv3 (c : caller) := (c_run c, c_input c, c_pc c).

Record invS (s : state) : Prop := mkInvS {
  s_callers : Forall (fun c => In (c_run c, c_input c) calls) (callers s);
  s_entries : forall r v, In (r, Some v) (entries s) -> good r v;
  s_done : forall i c v, nth_error (callers s) i = Some c -> c_pc c = CDone v -> good (c_run c) v;
  s_from : Forall okev (from_server s);
  s_loop : forall lo, cur s = Some lo ->
             Forall okev (l_buf lo) /\ l_pc lo <> LFatal /\ (forall m, l_pc lo = LHandle m -> okm m);
  s_to : Forall cwm (to_server s);
  s_wr : wr_left s = None }.

(* ---- footprint of a step on (run, input, pc) ---- *)
Lemma deliver_cv3 : forall (l : list caller) r, map cv3 (deliver l r) = map cv3 l.
Proof.
  induction l as [|c t IH]; intros r; cbn; auto.
  destruct (String.eqb (c_run c) r && c_sigfrom c); cbn; [reflexivity|f_equal; auto].
Qed.

Lemma handle_cv3 : forall (s : state) lo m, map cv3 (callers (handle s lo m)) = map cv3 (callers s).
Proof.
  intros s lo m. unfold handle, loop_exit, fan_out, send_result.
  destruct m; cbn; auto.
  - destruct (str_in run (sigchans s)); cbn; auto. apply deliver_cv3.
  - destruct server_fatal; cbn; auto. destruct step_fatal; cbn; auto. destruct (String.eqb run ""%string); cbn; auto.
Qed.

Ltac fin_c3 Hc last :=
  eexists; split; [reflexivity|split; [exact Hc|]]; (split; [|split; [|last]]); reflexivity.

Lemma step_cv3 : forall (s s' : state) l, step s l = Some s' ->
  map cv3 (callers s') = map cv3 (callers s) \/
  exists i c c', l = LCaller i /\ nth_error (callers s) i = Some c /\
                 c_run c' = c_run c /\ c_input c' = c_input c /\ callers s' = upd (callers s) i c'.
Proof.
  intros s s' l H. destruct l; cbn [step] in H.
  - right. unfold step_caller in H. destruct (nth_error (callers s) i) as [c|] eqn:Hc; [|discriminate].
    exists i, c. destruct (c_pc c) eqn:Hpc.
    + destruct (negb (pred_done s c)); [discriminate|].
      destruct (c_hassig c); cbn in H; destruct (amem (c_run c) (entries s));
        try (destruct (c_sigfrom c); cbn in H; destruct (running s)); injection H as <-; fin_c3 Hc ltac:(cbn; reflexivity).
    + destruct (cwrite s _) as [s1|] eqn:Hw; injection H as <-.
      * apply cwrite_fields in Hw. destruct Hw as (E1 & _). fin_c3 Hc ltac:(cbn; rewrite E1; reflexivity).
      * fin_c3 Hc ltac:(cbn; reflexivity).
    + destruct (alookup (c_run c) (entries s)) as [[r|]|]; injection H as <-; fin_c3 Hc ltac:(cbn; reflexivity).
    + destruct (alookup (c_run c) (entries s)) as [[r|]|]; try discriminate; injection H as <-; fin_c3 Hc ltac:(cbn; reflexivity).
    + discriminate.
  - left. unfold step_sig in H. destruct (nth_error (callers s) i) as [c|] eqn:Hc; [|discriminate].
    destruct (c_spc c); try discriminate.
    + destruct (cdone s); injection H as <-; cbn; eapply map_upd_same; eauto.
    + destruct (cancelled s); [injection H as <-; cbn; eapply map_upd_same; eauto|].
      destruct (c_sleft c).
      * destruct (c_sclose c); [|discriminate]. injection H as <-; cbn; eapply map_upd_same; eauto.
      * destruct (cwrite s _) as [s1|] eqn:Hw; injection H as <-; cbn.
        -- apply cwrite_fields in Hw. destruct Hw as (E1 & _). rewrite E1. eapply map_upd_same; eauto.
        -- eapply map_upd_same; eauto.
  - left. unfold step_loop in H. destruct (cur s) as [lo|]; [|discriminate].
    destruct (l_pc lo).
    + destruct (l_buf lo) as [|ev rest].
      * destruct (from_server s) as [|ev q]; [discriminate|]. destruct (is_fault ev).
        -- destruct (Nat.eqb k 0); [|discriminate]. destruct ev; injection H as <-; reflexivity.
        -- destruct (Nat.leb k (List.length q) && all_msgs (firstn k q)); [|discriminate].
           destruct ev; injection H as <-; reflexivity.
      * destruct (Nat.eqb k 0); [|discriminate]. destruct ev; injection H as <-; reflexivity.
    + destruct (Nat.eqb k 0); [|discriminate]. injection H as <-. apply handle_cv3.
    + destruct (Nat.eqb k 0); [|discriminate]. injection H as <-. reflexivity.
    + destruct (negb (Nat.eqb k 0)); [discriminate|]. destruct (has_pending (entries s)); injection H as <-; reflexivity.
    + discriminate.
  - left. unfold step_closer in H. destruct (closer s); try discriminate.
    + destruct (forallb _ _); [|discriminate]. injection H as <-. reflexivity.
    + destruct (cdone s); injection H as <-; reflexivity.
    + destruct (cwrite s _) as [s1|] eqn:Hw; injection H as <-; cbn; [|reflexivity].
      apply cwrite_fields in Hw. destruct Hw as (E1 & _). now rewrite E1.
    + destruct (Nat.eqb (wg s) 0); [|discriminate]. injection H as <-. reflexivity.
    + destruct (Nat.eqb (wg s) 0); [|discriminate]. injection H as <-. reflexivity.
  - left. unfold step_timeout in H. destruct (closer s); try discriminate.
    destruct (Nat.eqb (wg s) 0); [discriminate|]. injection H as <-. reflexivity.
  - left. unfold step_accept in H. destruct (to_server s) as [|m q]; [discriminate|].
    destruct m; injection H as <-; reflexivity.
  - left. unfold step_send in H. destruct (p_dead s || negb (str_in r (p_acc s))); [discriminate|].
    destruct (alookup r (p_plan s)) as [[|ev rest]|]; try discriminate.
    destruct (p_fault s) as [[[|n] f]|]; injection H as <-; reflexivity.
Qed.

Lemma cv3_nth : forall (l1 l : list caller) i c1, map cv3 l1 = map cv3 l -> nth_error l1 i = Some c1 ->
  exists c, nth_error l i = Some c /\ c_run c = c_run c1 /\ c_input c = c_input c1 /\ c_pc c = c_pc c1.
Proof.
  intros l1 l i c1 Ev Hc. destruct (map_eq_nth _ _ cv3 _ _ _ _ Ev Hc) as [c [Hc' E]].
  unfold cv3 in E. exists c. repeat split; congruence.
Qed.

Lemma cv3_forall : forall (P : runid * Z -> Prop) (l1 l : list caller), map cv3 l1 = map cv3 l ->
  Forall (fun c => P (c_run c, c_input c)) l -> Forall (fun c => P (c_run c, c_input c)) l1.
Proof.
  intros P l1. induction l1 as [|x t IH]; intros l E F; destruct l as [|y u]; try discriminate; constructor.
  - cbn in E. injection E as E1 E2 E3 E4. inversion F; subst. rewrite E1, E2. auto.
  - cbn in E. injection E as E1 E2 E3 E4. inversion F; subst. eapply IH; eauto.
Qed.

(* what a step does to the client -> server stream *)
Definition wrote (s : state) (m : msg) : Prop :=
  m = ClientDone \/ exists c, In c (callers s) /\ (m = WorkStart (c_run c) "s" (c_input c) \/ m = Signal (c_run c) "sg" (c_input c)).

Lemma step_to_server : forall (s s' : state) l, step s l = Some s' ->
  to_server s' = to_server s \/ (exists m, to_server s = m :: to_server s') \/
  (exists m, to_server s' = to_server s ++ [m] /\ wrote s m).
Proof.
  intros s s' l H. unfold wrote. destruct l; funfold_step H; fbs H; fbg; cbn;
    first [left; reflexivity
          |right; left; eexists; reflexivity
          |right; right; eexists; split; [reflexivity|];
           first [left; reflexivity
                 |right; eexists; split; [eapply nth_error_In; eassumption|]; first [left; reflexivity|right; reflexivity]]].
Qed.

Lemma wrote_cwm : forall (s : state) m, invS s -> wrote s m -> cwm m.
Proof.
  intros s m IS [->|(c & Hin & [->| ->])]; unfold cwm, c05_cwm; auto.
  - left. exists (c_run c), (c_input c). split; auto.
    pose proof (s_callers _ IS) as F. rewrite Forall_forall in F. apply F. exact Hin.
  - right. left. eauto.
Qed.

Lemma invS_to : forall (s s' : state) l, invS s -> step s l = Some s' -> Forall cwm (to_server s').
Proof.
  intros s s' l IS H. pose proof (s_to _ IS) as F.
  destruct (step_to_server _ _ _ H) as [E|[(m & E)|(m & E & W)]].
  - now rewrite E.
  - rewrite E in F. inversion F; auto.
  - rewrite E. apply Forall_app. split; auto. constructor; [|constructor]. eapply wrote_cwm; eauto.
Qed.

Lemma step_wr : forall (s s' : state) l, step s l = Some s' -> wr_left s = None -> wr_left s' = None.
Proof. intros. eapply step_wr_none; eauto. Qed.

(* ---- steps that touch neither entries nor the server -> client stream ---- *)
Lemma step_frameS : forall (s s' : state) l, step s l = Some s' ->
  ((exists i, l = LSig i) \/ l = LCloser \/ l = LTimeout \/ l = LPeerAccept) ->
  entries s' = entries s /\ from_server s' = from_server s /\ cur s' = cur s.
Proof. intros s s' l H [[i ->]|[ -> |[ -> | -> ]]]; funfold_step H; fbs H; cbn; auto. Qed.

Lemma invS_ext : forall (s s1 : state), invS s -> map cv3 (callers s1) = map cv3 (callers s) ->
  entries s1 = entries s -> from_server s1 = from_server s -> cur s1 = cur s -> Forall cwm (to_server s1) ->
  wr_left s1 = None -> invS s1.
Proof.
  intros s s1 [S1 S2 S3 S4 S5 S6 S7] Ev Ee Ef Ec Ht Hw. constructor; rewrite ?Ee, ?Ef, ?Ec; auto.
  - eapply (cv3_forall (fun p => In p calls)); eauto.
  - intros i c1 v Hc Hpc. destruct (cv3_nth _ _ _ _ Ev Hc) as (c & Hc' & Er & _ & Ep). rewrite <- Er.
    eapply S3; eauto. congruence.
Qed.

(* ---- a caller's own step ---- *)
Lemma invS_upd : forall (s s1 : state) i c c', invS s -> nth_error (callers s) i = Some c ->
  callers s1 = upd (callers s) i c' -> c_run c' = c_run c -> c_input c' = c_input c ->
  (forall v, c_pc c' = CDone v -> good (c_run c) v) ->
  (forall r v, In (r, Some v) (entries s1) -> In (r, Some v) (entries s)) ->
  from_server s1 = from_server s ->
  (cur s1 = cur s \/ cur s1 = Some (mkLoop LDecode [])) ->
  Forall cwm (to_server s1) -> wr_left s1 = None -> invS s1.
Proof.
  intros s s1 i c c' [S1 S2 S3 S4 S5 S6 S7] Hc Ecs Er Ei Hv He Ef Ecur Ht Hw. constructor; auto.
  - rewrite Ecs. apply Forall_upd; auto. rewrite Er, Ei. exact (Forall_nth _ _ _ _ _ S1 Hc).
  - intros j d v Hj Hpc. rewrite Ecs in Hj. apply nth_error_upd_inv in Hj. destruct Hj as [[-> ->]|[Hne Hj]].
    + rewrite Er. auto.
    + eapply S3; eauto.
  - now rewrite Ef.
  - intros lo Hlo. destruct Ecur as [E|E]; rewrite E in Hlo; [auto|]. injection Hlo as <-. cbn.
    split; [constructor|split; [discriminate|intros m Hm; discriminate]].
Qed.

Lemma invS_caller : forall (s : state) i s', invE s -> invS s -> step_caller s i = Some s' -> invS s'.
Proof.
  intros s i s' IE IS H.
  assert (Forall cwm (to_server s')) as Ht by (eapply (invS_to s s' (LCaller i)); eauto).
  assert (wr_left s' = None) as Hw by (eapply (step_wr s s' (LCaller i)); eauto; apply (s_wr _ IS)).
  unfold step_caller in H. destruct (nth_error (callers s) i) as [c|] eqn:Hc; [|discriminate].
  destruct (c_pc c) eqn:Hpc.
  - destruct (negb (pred_done s c)); [discriminate|].
    assert (amem (c_run c) (entries s) = false) as Hnm.
    { destruct (amem (c_run c) (entries s)) eqn:Hm; auto. exfalso.
      destruct (e_owner _ _ IE _ Hm) as (j & d & Hj & Hr & [Hin|[_ Hz]]).
      - assert (j = i) as -> by (eapply (NoDup_map_nth _ _ (@c_run Z)); [apply (e_runs _ _ IE)|eauto|eauto|auto]).
        rewrite Hc in Hj. injection Hj as <-. rewrite Hpc in Hin. discriminate.
      - rewrite (s_wr _ IS) in Hz. discriminate. }
    destruct (c_hassig c); cbn in H; rewrite Hnm in H;
      destruct (c_sigfrom c); cbn in H; destruct (running s) eqn:Hr; injection H as <-;
      (eapply invS_upd with (c := c); [exact IS|exact Hc|reflexivity|reflexivity|reflexivity| | |reflexivity| |exact Ht|exact Hw]; cbn;
       [intros v Hv; discriminate Hv
       |intros r v Hin; apply in_app_or in Hin; destruct Hin as [Hin|[Hin|[]]]; [exact Hin|discriminate Hin]
       |auto]).
  - destruct (cwrite s _) as [s1|] eqn:Hcw.
    + injection H as <-. apply cwrite_fields in Hcw. destruct Hcw as (E1 & E2 & E3 & E4 & _).
      eapply invS_upd with (c := c); [exact IS|exact Hc|cbn; rewrite E1; reflexivity|reflexivity|reflexivity| | |exact E4| |exact Ht|exact Hw]; cbn.
      * intros v Hv. discriminate Hv.
      * intros r v Hin. rewrite E2 in Hin. exact Hin.
      * left. exact E3.
    + apply cwrite_fail in Hcw. rewrite (s_wr _ IS) in Hcw. discriminate.
  - assert (amem (c_run c) (entries s) = true) as Hm by (eapply (e_has _ _ IE); eauto; rewrite Hpc; reflexivity).
    unfold amem in Hm.
    destruct (alookup (c_run c) (entries s)) as [[v|]|] eqn:Hl; [| |discriminate]; injection H as <-.
    + eapply invS_upd with (c := c); [exact IS|exact Hc|reflexivity|reflexivity|reflexivity| | |reflexivity| |exact Ht|exact Hw]; cbn; auto.
      * intros v0 Hv. injection Hv as <-. apply (s_entries _ IS). eapply alookup_In_pair; eauto.
      * intros r v0 Hin. eapply In_adel_incl; eauto.
    + eapply invS_upd with (c := c); [exact IS|exact Hc|reflexivity|reflexivity|reflexivity| | |reflexivity| |exact Ht|exact Hw]; cbn; auto.
      intros v Hv. discriminate Hv.
  - destruct (alookup (c_run c) (entries s)) as [[v|]|] eqn:Hl; try discriminate. injection H as <-.
    eapply invS_upd with (c := c); [exact IS|exact Hc|reflexivity|reflexivity|reflexivity| | |reflexivity| |exact Ht|exact Hw]; cbn; auto.
    + intros v0 Hv. injection Hv as <-. apply (s_entries _ IS). eapply alookup_In_pair; eauto.
    + intros r v0 Hin. eapply In_adel_incl; eauto.
  - discriminate.
Qed.

(* ---- the read loop ---- *)
Lemma Forall_firstn_skipn : forall (A : Type) (P : A -> Prop) k (q : list A), Forall P q -> Forall P (firstn k q) /\ Forall P (skipn k q).
Proof. intros A P k q F. rewrite <- (firstn_skipn k q) in F. apply Forall_app in F. exact F. Qed.

Lemma invS_handle : forall (s : state) lo m, invS s -> cur s = Some lo -> l_pc lo = LHandle m -> invS (handle s lo m).
Proof.
  intros s lo m IS Hcur Hlp. destruct (s_loop _ IS _ Hcur) as (Hb & _ & Hm). specialize (Hm _ Hlp).
  assert (forall s1 : state, map cv3 (callers s1) = map cv3 (callers s) -> from_server s1 = from_server s ->
          to_server s1 = to_server s -> wr_left s1 = wr_left s ->
          (exists pc, cur s1 = Some (mkLoop pc (l_buf lo)) /\ pc <> LFatal /\ forall m', pc <> LHandle m') ->
          (forall r v, In (r, Some v) (entries s1) -> In (r, Some v) (entries s) \/ good r v) -> invS s1) as K.
  { intros s1 Ev Ef Et Ew (pc & Ec & Hp1 & Hp2) He. destruct IS as [S1 S2 S3 S4 S5 S6 S7]. constructor.
    - eapply (cv3_forall (fun p => In p calls)); eauto.
    - intros r v Hin. destruct (He _ _ Hin); auto.
    - intros i c1 v Hc Hpc. destruct (cv3_nth _ _ _ _ Ev Hc) as (c & Hc' & Er & _ & Ep). rewrite <- Er.
      eapply S3; eauto. congruence.
    - now rewrite Ef.
    - intros lo' Hlo. rewrite Ec in Hlo. injection Hlo as <-. cbn. split; [exact Hb|split; [exact Hp1|]].
      intros m' Hm'. exfalso. eapply Hp2; eauto.
    - now rewrite Et.
    - now rewrite Ew. }
  destruct Hm as [[r ->]|(r & t & Hin & ->)].
  - unfold handle. cbn. apply K; cbn; auto. eexists; split; [reflexivity|split; discriminate].
  - assert (r <> "") as Hr by (eapply calls_named; eauto).
    destruct (tmsg_spec r t) as [(o & d & -> & Es)|[-> Es]]; unfold handle, send_result; cbn.
    + apply K; cbn; auto.
      * eexists; split; [reflexivity|split; discriminate].
      * intros r0 v Hi. apply In_aset in Hi. destruct Hi as [Hi|Hi]; [auto|]. injection Hi as -> ->.
        right. exists t. split; auto.
    + destruct (String.eqb_spec r ""); [congruence|]. cbn. apply K; cbn; auto.
      * eexists; split; [reflexivity|split; discriminate].
      * intros r0 v Hi. apply In_aset in Hi. destruct Hi as [Hi|Hi]; [auto|]. injection Hi as -> ->.
        right. exists t. split; auto.
Qed.

Lemma okev_not_fault : forall e, okev e -> is_fault e = false.
Proof. intros e (m & -> & _). reflexivity. Qed.

Lemma invS_after : forall (s s0 s' : state) ev buf, invS s -> callers s0 = callers s -> entries s0 = entries s ->
  to_server s0 = to_server s -> wr_left s0 = wr_left s -> Forall okev (from_server s0) -> okev ev -> Forall okev buf ->
  after_dec ev buf s0 = Some s' -> invS s'.
Proof.
  intros s s0 s' ev buf [S1 S2 S3 S4 S5 S6 S7] E1 E2 E3 E4 Hf (m & -> & Hm) Hb H. injection H as <-.
  constructor; cbn; rewrite ?E1, ?E2, ?E3, ?E4; auto.
  intros lo Hlo. injection Hlo as <-. cbn. split; [exact Hb|split].
  - destruct (needs_handling m); discriminate.
  - intros m' Hm'. destruct (needs_handling m); [|discriminate]. injection Hm' as <-. exact Hm.
Qed.

Lemma invS_loop : forall (s s' : state) k, invS s -> step_loop s k = Some s' -> invS s'.
Proof.
  intros s s' k IS H. unfold step_loop in H. destruct (cur s) as [lo|] eqn:Hcur; [|discriminate].
  destruct (s_loop _ IS _ Hcur) as (Hb & Hnf & Hm).
  destruct (l_pc lo) eqn:Hlp.
  - destruct (l_buf lo) as [|ev rest] eqn:Hbuf.
    + destruct (from_server s) as [|ev q] eqn:Hfs; [discriminate|].
      pose proof (s_from _ IS) as Hf. rewrite Hfs in Hf. inversion Hf as [|? ? Hev Hq]; subst.
      rewrite (okev_not_fault _ Hev) in H.
      destruct (Nat.leb k (List.length q) && all_msgs (firstn k q)); [|discriminate].
      destruct (Forall_firstn_skipn _ okev k q Hq) as [Hq1 Hq2].
      change (after_dec ev (firstn k q) (set_from_server s (skipn k q)) = Some s') in H.
      eapply (invS_after s) with (s0 := set_from_server s (skipn k q));
        [exact IS|reflexivity|reflexivity|reflexivity|reflexivity|cbn; exact Hq2|exact Hev|exact Hq1|exact H].
    + destruct (Nat.eqb k 0); [|discriminate]. inversion Hb as [|? ? Hev Hrest]; subst.
      change (after_dec ev rest s = Some s') in H.
      eapply (invS_after s) with (s0 := s);
        [exact IS|reflexivity|reflexivity|reflexivity|reflexivity|apply (s_from _ IS)|exact Hev|exact Hrest|exact H].
  - destruct (Nat.eqb k 0); [|discriminate]. injection H as <-. apply invS_handle; auto.
  - congruence.
  - destruct (negb (Nat.eqb k 0)); [discriminate|].
    destruct (has_pending (entries s)); injection H as <-; unfold loop_exit; destruct IS as [S1 S2 S3 S4 S5 S6 S7];
      (constructor; cbn; auto; intros lo' Hlo; injection Hlo as <-; cbn;
       split; [exact Hb|split; [discriminate|intros m' Hm'; discriminate]]).
  - discriminate.
Qed.

Theorem invS_step : forall (s s' : state) l, (forall r, l <> LPeerSend r) -> invE s -> invS s -> step s l = Some s' -> invS s'.
Proof.
  intros s s' l Hl IE IS H.
  destruct l as [i|i|k| | | |r]; try (cbn [step] in H; first [eapply invS_caller; eauto; fail|eapply invS_loop; eauto; fail]);
    try (exfalso; eapply Hl; reflexivity);
    (destruct (step_cv3 _ _ _ H) as [Ev|(j & c & c' & Hq & _)]; [|discriminate Hq]);
    (destruct (step_frameS _ _ _ H) as (E1 & E2 & E3); [eauto 8|]);
    (eapply invS_ext; [exact IS|exact Ev|exact E1|exact E2|exact E3|eapply invS_to; eauto|eapply step_wr; eauto; apply (s_wr _ IS)]).
Qed.

(* the arrival of messages the server side may send *)
Definition push (s : state) (evs : list event) : state := set_from_server s (from_server s ++ evs).

Lemma invS_push : forall (s : state) evs, invS s -> Forall okev evs -> invS (push s evs).
Proof.
  intros s evs [S1 S2 S3 S4 S5 S6 S7] F. constructor; cbn; auto. apply Forall_app. auto.
Qed.

Lemma invS_init : forall (se : session Z),
  se_wfail se = None -> (forall c, In c (se_calls se) -> In (cs_run c, cs_input c) calls) -> invS (init se).
Proof.
  intros se Hw Hc. constructor; cbn; auto.
  - apply Forall_forall. intros c Hin. apply in_map_iff in Hin. destruct Hin as (x & <- & Hx). cbn. auto.
  - intros r v [].
  - intros i c v Hi Hp. apply init_nth in Hi. destruct Hi as (x & _ & ->). discriminate Hp.
  - intros lo Hlo. discriminate Hlo.
Qed.

(* the conclusion for a caller *)
Lemma invS_result : forall (s : state) i c v, invS s -> NoDup (map fst calls) ->
  nth_error (callers s) i = Some c -> c_pc c = CDone v -> v = spec (c_input c).
Proof.
  intros s i c v IS N Hc Hp. destruct (s_done _ IS _ _ _ Hc Hp) as (t & Hin & ->).
  pose proof (s_callers _ IS) as F. pose proof (Forall_nth _ _ _ _ _ F Hc) as Hin2. cbn in Hin2.
  f_equal. clear - N Hin Hin2. induction calls as [|[r0 t0] l IH]; [destruct Hin|].
  cbn in N. inversion N as [|? ? Hn N']; subst.
  destruct Hin as [E|Hin], Hin2 as [E2|Hin2].
  - congruence.
  - injection E as -> ->. exfalso. apply Hn. apply (in_map fst) in Hin2. exact Hin2.
  - injection E2 as -> ->. exfalso. apply Hn. apply (in_map fst) in Hin. exact Hin.
  - auto.
Qed.

End C05Client.
