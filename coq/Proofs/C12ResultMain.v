(* Proofs/C12ResultMain.v — the RESULT half of C12 put together: public names, the statements with `wf_schema`,
   the refutation of the statement under the boolean class predicate alone, and satisfiable instances. *)
From Coq Require Import Permutation Lia Bool.
From Verif Require Import Base.Prelude Base.Str Base.Float Base.GoVal
  Schema.Regex Schema.Units Schema.Syntax Schema.Ops Schema.Wf Schema.Perm
  Proofs.C04Inv Proofs.C12Order Proofs.C12Schema Proofs.C12Value Proofs.C12Main
  Proofs.C12ResultBase Proofs.C12ResultUnser Proofs.C12ResultSer Proofs.C12ResultWf.
Open Scope string_scope.

(* ---------- public vocabulary ---------- *)
(* no two keys of one map of the value (any depth) can be read as the same key: by the int mapper under a units
   definition accepted by Ub, the string mapper, reflect's conversion to int64 / string, or the `any` conversion *)
Definition keys_distinct (Ub : option units -> bool) (v : gval) : Prop := @kfree Ub v.
(* ... and the same for every decoded property default *)
Definition defaults_distinct (Ub : option units -> bool) (o : oracles) : Prop := @or_free Ub o.
Definition no_units (u : option units) : bool := match u with None => true | Some _ => false end.
Definition any_units (u : option units) : bool := true.

Section Main.
Variable words : list (string * bool).
Variable pu : units -> string -> option fl.

Lemma c12_unser_result (Ub : option units -> bool) : forall f e e' s s' v v' r r',
  perm_env e e' -> nodup_env e = true -> perm_schema s s' -> perm_val v v' ->
  wf_schema e s = true -> map_key_units Ub e s = true ->
  defaults_distinct Ub (e_or e) -> keys_distinct Ub v ->
  unser words pu f e s v = Ok r -> unser words pu f e' s' v' = Ok r' -> perm_val r r'.
Proof.
  intros f e e' s s' v v' r r' He Hnd Hs Hv Hwf Hwu Hof Hk H1 H2.
  unfold wf_schema in Hwf. apply andb_prop in Hwf. unfold map_key_units in Hwu. apply andb_prop in Hwu.
  exact (unser_result words pu Ub f e e' s s' v v' He Hnd Hs Hv Hwf Hwu Hof Hk r r' H1 H2).
Qed.

Lemma c12_ser_result (Ub : option units -> bool) : forall f e e' s s' v v' r r',
  perm_env e e' -> nodup_env e = true -> perm_schema s s' -> perm_val v v' ->
  wf_schema e s = true -> keys_distinct Ub v ->
  serialize words pu f e s v = Ok r -> serialize words pu f e' s' v' = Ok r' -> perm_val r r'.
Proof.
  intros f e e' s s' v v' r r' He Hnd Hs Hv Hwf Hk H1 H2.
  unfold wf_schema in Hwf. apply andb_prop in Hwf.
  exact (ser_result words pu Ub f e e' s s' v v' He Hnd Hs Hv Hwf Hk r r' H1 H2).
Qed.

(* the verdict half with well-formedness of the first description only *)
Lemma c12_order_verdict_one_side : forall f e e' s s' v v',
  perm_env e e' -> nodup_env e = true -> perm_schema s s' -> perm_val v v' ->
  wf_schema e s = true -> no_key_collision v = true ->
  is_ok (unser words pu f e s v) = is_ok (unser words pu f e' s' v') /\
  is_ok (validate words pu f e s v) = is_ok (validate words pu f e' s' v') /\
  is_ok (serialize words pu f e s v) = is_ok (serialize words pu f e' s' v') /\
  is_ok (compat words pu f e s v) = is_ok (compat words pu f e' s' v').
Proof.
  intros f e e' s s' v v' He Hnd Hs Hv Hwf Hnc.
  exact (c12_order_verdict words pu f e e' s s' v v' He Hnd Hs Hv Hwf (perm_wf_schema e e' s s' He Hnd Hs Hwf) Hnc).
Qed.

(* verdict AND results, both sides at once *)
Lemma c12_order_independent (Ub : option units -> bool) : forall f e e' s s' v v',
  perm_env e e' -> nodup_env e = true -> perm_schema s s' -> perm_val v v' ->
  wf_schema e s = true -> no_key_collision v = true ->
  map_key_units Ub e s = true -> defaults_distinct Ub (e_or e) -> keys_distinct Ub v ->
  (is_ok (unser words pu f e s v) = is_ok (unser words pu f e' s' v') /\
   is_ok (validate words pu f e s v) = is_ok (validate words pu f e' s' v') /\
   is_ok (serialize words pu f e s v) = is_ok (serialize words pu f e' s' v') /\
   is_ok (compat words pu f e s v) = is_ok (compat words pu f e' s' v')) /\
  (forall r r', unser words pu f e s v = Ok r -> unser words pu f e' s' v' = Ok r' -> perm_val r r') /\
  (forall r r', serialize words pu f e s v = Ok r -> serialize words pu f e' s' v' = Ok r' -> perm_val r r').
Proof.
  intros f e e' s s' v v' He Hnd Hs Hv Hwf Hnc Hwu Hof Hk.
  pose proof (perm_wf_schema e e' s s' He Hnd Hs Hwf) as Hwf'.
  split; [exact (c12_order_verdict words pu f e e' s s' v v' He Hnd Hs Hv Hwf Hwf' Hnc)|].
  split; intros r r' H1 H2.
  - exact (c12_unser_result Ub f e e' s s' v v' r r' He Hnd Hs Hv Hwf Hwu Hof Hk H1 H2).
  - exact (c12_ser_result Ub f e e' s s' v v' r r' He Hnd Hs Hv Hwf Hk H1 H2).
Qed.

(* ---------- the statement with the boolean class predicate alone is false ---------- *)
Definition c12r_schema : schema := SMap (SInt None None None) (SString None None None) None None.
Definition c12r_env : env := mkEnv [] [] (mkOracles (fun _ => None) (fun _ => false)).
Definition c12r_v1 : gval := VMap t_str_map false [(vstr "1", vstr "a"); (vstr "01", vstr "b")].
Definition c12r_v2 : gval := VMap t_str_map false [(vstr "01", vstr "b"); (vstr "1", vstr "a")].
Definition c12r_r1 : gval := VMap (TMap (TInt I64) TStr) false [(vi64 1, vstr "b")].
Definition c12r_r2 : gval := VMap (TMap (TInt I64) TStr) false [(vi64 1, vstr "a")].

Lemma c12_result_refuted :
  exists e s v1 v2 r1 r2,
    perm_val v1 v2 /\ no_key_collision v1 = true /\ wf_schema e s = true /\ nodup_env e = true /\
    unser words pu 10 e s v1 = Ok r1 /\ unser words pu 10 e s v2 = Ok r2 /\ ~ perm_val r1 r2.
Proof.
  exists c12r_env, c12r_schema, c12r_v1, c12r_v2, c12r_r1, c12r_r2.
  split; [apply (pv_map _ _ _ [(vstr "1", vstr "a"); (vstr "01", vstr "b")]); [repeat constructor | apply perm_swap]|].
  split; [vm_compute; reflexivity|]. split; [vm_compute; reflexivity|]. split; [vm_compute; reflexivity|].
  split; [vm_compute; reflexivity|]. split; [vm_compute; reflexivity|].
  unfold c12r_r1, c12r_r2. intros H. inversion H; subst.
  match goal with
  | HF : Forall2 _ _ ?kvs', HP : Permutation ?kvs' _ |- _ =>
      apply Permutation_sym in HP; apply Permutation_length_1_inv in HP; subst kvs';
      inversion HF as [|a0 b0 la lb [_ Hv] Hrest]; subst; cbn in Hv; inversion Hv
  end.
Qed.

End Main.

(* ---------- satisfiable instances of keys_distinct ---------- *)
Ltac knc_solve :=
  unfold knc, kc; cbn [fst];
  let H := fresh "H" in
  intros [H|[H|[H|[H|H]]]];
  [ let u := fresh "u" in let z := fresh "z" in let Hu := fresh "Hu" in let H1 := fresh "H1" in let H2 := fresh "H2" in
    destruct H as (u & z & Hu & H1 & H2); destruct u; [discriminate Hu|]; vm_compute in H1, H2; congruence
  | let s := fresh "s" in let H1 := fresh "H1" in let H2 := fresh "H2" in
    destruct H as (s & H1 & H2); vm_compute in H1, H2; congruence
  | let z := fresh "z" in let H1 := fresh "H1" in let H2 := fresh "H2" in
    destruct H as (z & H1 & H2); vm_compute in H1, H2; congruence
  | let s := fresh "s" in let H1 := fresh "H1" in let H2 := fresh "H2" in
    destruct H as (s & H1 & H2); vm_compute in H1, H2; congruence
  | let f := fresh "f" in let r1 := fresh "r1" in let r2 := fresh "r2" in
    let H1 := fresh "H1" in let H2 := fresh "H2" in let H3 := fresh "H3" in
    destruct H as (f & r1 & r2 & H1 & H2 & H3); destruct f; [discriminate H1|];
    vm_compute in H1, H2; inversion H1; inversion H2; subst; destruct H3 as [H3|H3]; vm_compute in H3; discriminate H3 ].

Lemma kfree_leaf_scalar Ub v :
  match v with VSlice _ _ _ | VMap _ _ _ => False | _ => True end -> @kfree Ub v.
Proof. apply kf_leaf. Qed.

(* a string-keyed argument (an object's input) *)
Lemma c12_keys_distinct_ex_obj :
  keys_distinct no_units (VMap t_any_map false [(vstr "a", vbool true); (vstr "b", vstr "x")]).
Proof.
  apply kf_map.
  - cbn [pw]. split; [constructor; [knc_solve | constructor] | split; [constructor | exact I]].
  - repeat (constructor; [split; apply kf_leaf; exact I|]). constructor.
Qed.

(* an int-keyed argument in two orders under an int-keyed map schema *)
Definition c12x_schema : schema := SMap (SInt None None None) (SString None None None) None None.
Definition c12x_v1 : gval := VMap t_any_map false [(vi64 1, vstr "a"); (vi64 2, vstr "b")].
Definition c12x_v2 : gval := VMap t_any_map false [(vi64 2, vstr "b"); (vi64 1, vstr "a")].

Lemma c12_keys_distinct_ex_map : keys_distinct no_units c12x_v1.
Proof.
  apply kf_map.
  - cbn [pw]. split; [constructor; [knc_solve | constructor] | split; [constructor | exact I]].
  - repeat (constructor; [split; apply kf_leaf; exact I|]). constructor.
Qed.

Lemma c12_defaults_distinct_ex Ub : defaults_distinct Ub (e_or c12r_env).
Proof. intros txt d H. discriminate H. Qed.

Lemma c12_result_hypotheses_satisfiable :
  perm_env c12r_env c12r_env /\ nodup_env c12r_env = true /\ perm_schema c12x_schema c12x_schema /\
  perm_val c12x_v1 c12x_v2 /\ wf_schema c12r_env c12x_schema = true /\ map_key_units no_units c12r_env c12x_schema = true /\
  defaults_distinct no_units (e_or c12r_env) /\ keys_distinct no_units c12x_v1 /\
  is_ok (unser [] (fun _ _ => None) 10 c12r_env c12x_schema c12x_v1) = true /\
  is_ok (unser [] (fun _ _ => None) 10 c12r_env c12x_schema c12x_v2) = true /\
  is_ok (serialize [] (fun _ _ => None) 10 c12r_env c12x_schema
           (VMap (TMap (TInt I64) TStr) false [(vi64 1, vstr "a"); (vi64 2, vstr "b")])) = true.
Proof.
  split; [split; [exists []; split; constructor|]; split; [constructor | reflexivity]|].
  split; [vm_compute; reflexivity|].
  split; [apply perm_schema_refl|].
  split; [apply (pv_map _ _ _ [(vi64 1, vstr "a"); (vi64 2, vstr "b")]); [repeat constructor | apply perm_swap]|].
  split; [vm_compute; reflexivity|]. split; [vm_compute; reflexivity|].
  split; [apply c12_defaults_distinct_ex|]. split; [apply c12_keys_distinct_ex_map|].
  repeat split; vm_compute; reflexivity.
Qed.
