(* Proofs/C02Containers.v — lists and maps lift the per-kind equivalences; the recursive
   equivalence unser = Ok n <-> accepts for the whole nested C02 fragment; Validate and Serialize
   enforce the same constraints on native values. *)
From Coq Require Import Lia.
From Verif Require Import Base.Prelude Base.Str Base.Float Base.GoVal
  Schema.Regex Schema.Units Schema.Syntax Schema.Ops Schema.Spec Proofs.C02Scalars.
Open Scope Z_scope.

(* ---------- outcome plumbing ---------- *)
Lemma seg_ok {A} s (o : outcome A) y : seg s o = Ok y <-> o = Ok y.
Proof. destruct o; cbn; split; intro H; try discriminate H; exact H. Qed.

Lemma bind_ok {A B} (o : outcome A) (k : A -> outcome B) r :
  bind o k = Ok r <-> exists a, o = Ok a /\ k a = Ok r.
Proof.
  destruct o as [a| | |]; cbn [bind]; split; intro H; try discriminate H.
  - exists a. split; [reflexivity | exact H].
  - destruct H as (a0 & H1 & H2). inversion H1; subst. exact H2.
  - destruct H as (a0 & H1 & _). discriminate H1.
  - destruct H as (a0 & H1 & _). discriminate H1.
  - destruct H as (a0 & H1 & _). discriminate H1.
Qed.

Lemma bind_unit_ok {A} (o : outcome A) : (_ <- o ;; Ok tt) = Ok tt <-> exists a, o = Ok a.
Proof.
  rewrite bind_ok. split.
  - intros (a & H & _). exists a. exact H.
  - intros (a & H). exists a. split; [exact H | reflexivity].
Qed.

Lemma mapMi_ok {A B} (g : Z -> A -> outcome B) (R : A -> B -> Prop) :
  (forall i x y, g i x = Ok y <-> R x y) -> forall l i ys, mapMi g i l = Ok ys <-> Forall2 R l ys.
Proof.
  intros Hg. induction l as [|x t IH]; intros i ys; cbn [mapMi].
  - split; [intro H; inversion H; constructor | intro H; inversion H; reflexivity].
  - rewrite bind_ok. split.
    + intros (y & Hy & H). rewrite bind_ok in H. destruct H as (ys' & Hys & H). inversion H; subst.
      constructor; [apply (Hg i); exact Hy | apply (IH (i + 1)); exact Hys].
    + intro H. inversion H as [|x' y l' ys' Hxy Hrest]; subst.
      exists y. split; [apply (Hg i); exact Hxy|]. rewrite bind_ok. exists ys'.
      split; [apply (IH (i + 1)); exact Hrest | reflexivity].
Qed.

Lemma mapMi_seg_ok {A B} (h : A -> outcome B) (sg : Z -> string) l i ys :
  mapMi (fun i x => seg (sg i) (h x)) i l = Ok ys <-> Forall2 (fun x y => h x = Ok y) l ys.
Proof. apply mapMi_ok. intros. apply seg_ok. Qed.

Lemma Forall2_unit {A} (P : A -> unit -> Prop) l :
  (exists ys, Forall2 P l ys) <-> Forall (fun x => P x tt) l.
Proof.
  induction l as [|x t IH].
  - split; [constructor | intros _; exists []; constructor].
  - split.
    + intros (ys & H). inversion H as [|x' y l' ys' Hxy Hrest]; subst. destruct y.
      constructor; [exact Hxy | apply IH; exists ys'; exact Hrest].
    + intro H. inversion H as [|x' l' Hx Hrest]; subst. apply IH in Hrest. destruct Hrest as (ys & Hys).
      exists (tt :: ys). constructor; assumption.
Qed.

Lemma Forall_exists_Forall2 {A B} (R : A -> B -> Prop) l :
  Forall (fun x => exists y, R x y) l <-> exists ys, Forall2 R l ys.
Proof.
  induction l as [|x t IH].
  - split; [intros _; exists []; constructor | constructor].
  - split.
    + intro H. inversion H as [|x' l' (y & Hy) Hrest]; subst. apply IH in Hrest. destruct Hrest as (ys & Hys).
      exists (y :: ys). constructor; assumption.
    + intros (ys & H). inversion H as [|x' y l' ys' Hxy Hrest]; subst.
      constructor; [exists y; exact Hxy | apply IH; exists ys'; exact Hrest].
Qed.

Lemma Forall2_len {A B} (R : A -> B -> Prop) l ys : Forall2 R l ys -> List.length l = List.length ys.
Proof. intro H. induction H; cbn [List.length]; [reflexivity | f_equal; assumption]. Qed.

Lemma Forall2_impl_in {A B} (P : A -> Prop) (R1 R2 : A -> B -> Prop) l ys :
  Forall P l -> (forall x y, P x -> R1 x y -> R2 x y) -> Forall2 R1 l ys -> Forall2 R2 l ys.
Proof.
  intros HP Himp H. induction H as [|x y l ys Hxy Hrest IH]; [constructor|].
  inversion HP; subst. constructor; [apply Himp; assumption | apply IH; assumption].
Qed.

Lemma Forall_iff_in {A} (P Q R : A -> Prop) l :
  Forall P l -> (forall x, P x -> (Q x <-> R x)) -> (Forall Q l <-> Forall R l).
Proof.
  intros HP Hi. induction HP as [|x l Hx Hrest IH]; [split; constructor|].
  split; intro H; inversion H; subst; constructor; try (apply (Hi x Hx); assumption); apply IH; assumption.
Qed.

Lemma forM_ok {A} (g : A -> outcome unit) l : forM_ g l = Ok tt <-> Forall (fun x => g x = Ok tt) l.
Proof.
  induction l as [|x t IH]; cbn [forM_].
  - split; [constructor | reflexivity].
  - rewrite bind_ok. split.
    + intros (u & Hu & H). destruct u. constructor; [exact Hu | apply IH; exact H].
    + intro H. inversion H; subst. exists tt. split; [assumption | apply IH; assumption].
Qed.

(* ---------- the map fold ---------- *)
Definition map_step (hk hv : gval -> outcome gval) (sk sv : gval -> string)
  (acc : outcome (list (gval * gval))) (kv : gval * gval) : outcome (list (gval * gval)) :=
  a <- acc ;;
  k' <- seg (sk (fst kv)) (hk (fst kv)) ;;
  v' <- seg (sv (fst kv)) (hv (snd kv)) ;;
  Ok (map_set k' v' a).

Lemma map_step_ok hk hv sk sv acc k v r :
  map_step hk hv sk sv (Ok acc) (k, v) = Ok r <->
  exists k' v', hk k = Ok k' /\ hv v = Ok v' /\ r = map_set k' v' acc.
Proof.
  unfold map_step. cbn [bind fst snd]. rewrite bind_ok. split.
  - intros (k' & Hk & H). rewrite bind_ok in H. destruct H as (v' & Hv & H). inversion H; subst.
    apply seg_ok in Hk. apply seg_ok in Hv. exists k', v'. tauto.
  - intros (k' & v' & Hk & Hv & ->). exists k'. split; [apply seg_ok; exact Hk|].
    rewrite bind_ok. exists v'. split; [apply seg_ok; exact Hv | reflexivity].
Qed.

Lemma map_fold_stuck hk hv sk sv l : forall o, (forall a, o <> Ok a) ->
  forall r, fold_left (map_step hk hv sk sv) l o <> Ok r.
Proof.
  induction l as [|kv t IH]; intros o Ho r; cbn [fold_left].
  - apply Ho.
  - apply IH. intros a. unfold map_step. destruct o as [a0| | |]; cbn [bind]; try discriminate.
    exfalso. apply (Ho a0). reflexivity.
Qed.

Lemma map_fold_iff hk hv sk sv : forall kvs acc r,
  fold_left (map_step hk hv sk sv) kvs (Ok acc) = Ok r <->
  map_built (fun k k' => hk k = Ok k') (fun v v' => hv v = Ok v') kvs acc r.
Proof.
  induction kvs as [|[k v] t IH]; intros acc r; cbn [fold_left].
  - split; [intro H; inversion H; constructor | intro H; inversion H; reflexivity].
  - split.
    + intro H.
      destruct (map_step hk hv sk sv (Ok acc) (k, v)) as [a1| | |] eqn:E;
        try (exfalso; revert H; apply map_fold_stuck; intros a; discriminate).
      apply map_step_ok in E. destruct E as (k' & v' & Hk & Hv & ->).
      apply IH in H. econstructor; eassumption.
    + intro H. inversion H as [|k0 v0 t0 acc0 k' v' r0 Hk Hv Hrest]; subst.
      assert (E : map_step hk hv sk sv (Ok acc) (k, v) = Ok (map_set k' v' acc)).
      { apply map_step_ok. exists k', v'. tauto. }
      rewrite E. apply IH. exact Hrest.
Qed.

Lemma map_built_impl (P : gval -> Prop) (RK RV RK' RV' : gval -> gval -> Prop) kvs acc r :
  Forall (fun kv => P (fst kv) /\ P (snd kv)) kvs ->
  (forall x y, P x -> RK x y -> RK' x y) -> (forall x y, P x -> RV x y -> RV' x y) ->
  map_built RK RV kvs acc r -> map_built RK' RV' kvs acc r.
Proof.
  intros HP HK HV H. induction H as [|k v t acc k' v' r Hk Hv Hrest IH]; [constructor|].
  inversion HP as [|kv l [Pk Pv] Prest]; subst. cbn [fst snd] in *.
  econstructor; [apply HK; eassumption | apply HV; eassumption | apply IH; assumption].
Qed.

Lemma map_fold_total hk hv sk sv : forall kvs acc,
  Forall (fun kv => (exists k', hk (fst kv) = Ok k') /\ (exists v', hv (snd kv) = Ok v')) kvs ->
  exists r, fold_left (map_step hk hv sk sv) kvs (Ok acc) = Ok r.
Proof.
  induction kvs as [|[k v] t IH]; intros acc H; cbn [fold_left].
  - exists acc. reflexivity.
  - inversion H as [|kv l [(k' & Hk) (v' & Hv)] Hrest]; subst. cbn [fst snd] in *.
    assert (E : map_step hk hv sk sv (Ok acc) (k, v) = Ok (map_set k' v' acc)).
    { apply map_step_ok. exists k', v'. tauto. }
    rewrite E. apply IH. exact Hrest.
Qed.

(* ---------- values a Go interface can hold ---------- *)
Lemma go_val_int v : go_val v -> go_int v.
Proof. destruct v as [| t b | t z | t f | t s | t nl l | t nl l | t o | t fs | src | k d]; cbn; auto. Qed.

Lemma go_val_slice t nl l : go_val (VSlice t nl l) -> Forall go_val l.
Proof.
  cbn [go_val]. induction l as [|x r IH]; intro H; constructor.
  - exact (proj1 H).
  - apply IH. exact (proj2 H).
Qed.

Lemma go_val_map t nl kvs : go_val (VMap t nl kvs) -> Forall (fun kv => go_val (fst kv) /\ go_val (snd kv)) kvs.
Proof.
  cbn [go_val]. induction kvs as [|[k x] r IH]; intro H; constructor.
  - cbn [fst snd]. tauto.
  - apply IH. tauto.
Qed.

Section WithTables.
Variable words : list (string * bool).
Variable pu : units -> string -> option fl.

Notation unser := (unser words pu).
Notation validate := (validate words pu).
Notation serialize := (serialize words pu).
Notation accepts := (accepts words pu).

(* ---------- the container lifts ---------- *)
Lemma unser_list_iff f e it mn mx v n :
  unser (S f) e (SList it mn mx) v = Ok n <->
  exists ty nl l ns, v = VSlice ty nl l /\ z_lower mn (llen l) /\ z_upper mx (llen l) /\
    Forall2 (fun x y => unser f e it x = Ok y) l ns /\ n = VSlice (TSlice (rtype it)) false ns.
Proof.
  cbn [Ops.unser]. split.
  - destruct v as [| t b | t z | t x | t s | t nl l | t nl l | t o | t fs | src | k d]; try discriminate.
    destruct (size_ok mn mx (zlen l)) eqn:Hs; [|discriminate].
    rewrite bind_ok. intros (ys & Hys & H). inversion H; subst.
    apply mapMi_seg_ok in Hys. apply size_ok_iff in Hs. destruct Hs as [H1 H2].
    exists t, nl, l, ys. repeat split; assumption.
  - intros (ty & nl & l & ns & -> & H1 & H2 & HF & ->).
    assert (Hs : size_ok mn mx (zlen l) = true) by (apply size_ok_iff; split; assumption).
    rewrite Hs. rewrite bind_ok. exists ns. split; [apply mapMi_seg_ok; exact HF | reflexivity].
Qed.

Lemma unser_map_fold f e ks vs kvs :
  fold_left (fun acc kv =>
               a <- acc ;;
               k' <- seg (mkey_seg (fst kv)) (unser f e ks (fst kv)) ;;
               v' <- seg (mval_seg (fst kv)) (unser f e vs (snd kv)) ;;
               Ok (map_set k' v' a)) kvs (Ok []) =
  fold_left (map_step (unser f e ks) (unser f e vs) mkey_seg mval_seg) kvs (Ok []).
Proof. reflexivity. Qed.

Lemma unser_map_iff f e ks vs mn mx v n :
  unser (S f) e (SMap ks vs mn mx) v = Ok n <->
  exists ty nl kvs r, v = VMap ty nl kvs /\ z_lower mn (llen kvs) /\ z_upper mx (llen kvs) /\
    map_built (fun k k' => unser f e ks k = Ok k') (fun x x' => unser f e vs x = Ok x') kvs [] r /\
    n = VMap (TMap (rtype ks) (rtype vs)) false r.
Proof.
  cbn [Ops.unser]. split.
  - destruct v as [| t b | t z | t x | t s | t nl l | t nl l | t o | t fs | src | k d]; try discriminate.
    destruct (size_ok mn mx (zlen l)) eqn:Hs; [|discriminate].
    rewrite bind_ok. intros (r & Hr & H). inversion H; subst.
    rewrite unser_map_fold in Hr. apply map_fold_iff in Hr.
    apply size_ok_iff in Hs. destruct Hs as [H1 H2].
    exists t, nl, l, r. repeat split; assumption.
  - intros (ty & nl & kvs & r & -> & H1 & H2 & HB & ->).
    assert (Hs : size_ok mn mx (zlen kvs) = true) by (apply size_ok_iff; split; assumption).
    rewrite Hs. rewrite bind_ok. exists r. split; [|reflexivity].
    rewrite unser_map_fold. apply map_fold_iff. exact HB.
Qed.

(* ---------- Unserialize = the declarative semantics, for the whole nested fragment ---------- *)
Theorem unser_iff_accepts : forall s, c02_schema s -> forall f e v n, (sdepth s < f)%nat -> go_val v ->
  (unser f e s v = Ok n <-> accepts e s v n).
Proof.
  induction s as [mn mx u | mn mx u | mn mx pat | | | | vals u | named vals | it IHit mn mx | ks IHk vs IHv mn mx
                  | id un props | types ik field inl | id ns d | objs root];
    intros Hc f e v n Hf Hg; cbn [c02_schema] in Hc; try contradiction;
    (destruct f as [|f]; [lia|]).
  - cbn [Ops.unser Spec.accepts]. apply int_unser_iff. apply go_val_int. exact Hg.
  - cbn [Ops.unser Spec.accepts]. apply float_unser_iff.
  - cbn [Ops.unser Spec.accepts]. apply string_unser_iff.
  - cbn [Ops.unser Spec.accepts]. apply bool_unser_iff. apply go_val_int. exact Hg.
  - cbn [Ops.unser Spec.accepts]. apply pattern_unser_iff.
  - cbn [Ops.unser Spec.accepts]. apply enum_int_unser_iff. apply go_val_int. exact Hg.
  - cbn [Ops.unser Spec.accepts]. apply enum_str_unser_iff.
  - cbn [sdepth] in Hf. rewrite unser_list_iff. cbn [Spec.accepts].
    split; intros (ty & nl & l & ns & -> & H1 & H2 & HF & ->); exists ty, nl, l, ns;
      (split; [reflexivity|]); (split; [exact H1|]); (split; [exact H2|]); (split; [|reflexivity]);
      apply go_val_slice in Hg;
      (eapply Forall2_impl_in; [exact Hg | | exact HF]); intros x y Hx Hxy;
      apply (IHit Hc f e x y); try assumption; lia.
  - cbn [sdepth] in Hf. destruct Hc as [Hck Hcv]. rewrite unser_map_iff. cbn [Spec.accepts].
    split; intros (ty & nl & kvs & r & -> & H1 & H2 & HB & ->); exists ty, nl, kvs, r;
      (split; [reflexivity|]); (split; [exact H1|]); (split; [exact H2|]); (split; [|reflexivity]);
      apply go_val_map in Hg;
      (eapply map_built_impl; [exact Hg | | | exact HB]); intros x y Hx Hxy.
    + apply (IHk Hck f e x y); try assumption; lia.
    + apply (IHv Hcv f e x y); try assumption; lia.
    + apply (IHk Hck f e x y); try assumption; lia.
    + apply (IHv Hcv f e x y); try assumption; lia.
Qed.

(* ---------- what Unserialize accepts is native and satisfies every constraint ---------- *)
Lemma parse_int_in_i64 s z : parse_int s = Some z -> in_i64 z = true.
Proof.
  unfold parse_int. destruct (chars s) as [|c t]; [discriminate|].
  destruct (Ascii.eqb c "-"%char); [| destruct (Ascii.eqb c "+"%char)]; cbv beta iota zeta.
  1,2: destruct t as [|d t']; [discriminate|].
  all: match goal with |- context [if all_digits ?d then _ else _] => destruct (all_digits d) end; [|discriminate].
  all: match goal with |- context [if in_i64 ?r then _ else _] => destruct (in_i64 r) eqn:I end; [|discriminate].
  all: intro H; inversion H; subst; exact I.
Qed.

Lemma acc_none l : fold_left (fun acc tm => accumulate_tok acc (fst tm) (snd tm)) l None = None.
Proof. induction l as [|x r IH]; cbn [fold_left accumulate_tok]; [reflexivity | exact IH]. Qed.

Lemma acc_inv : forall l a w, in_i64 a = true ->
  fold_left (fun acc tm => accumulate_tok acc (fst tm) (snd tm)) l (Some a) = Some w -> in_i64 w = true.
Proof.
  induction l as [|x r IH]; intros a w Ha H; cbn [fold_left] in H.
  - inversion H; subst. exact Ha.
  - destruct (accumulate_tok (Some a) (fst x) (snd x)) as [a'|] eqn:E.
    + apply (IH a' w); [|exact H]. clear H IH. unfold accumulate_tok in E.
      destruct (fst x) as [|c0 tok]; [inversion E; subst; exact Ha|].
      destruct (parse_int (unchars (c0 :: tok))) as [i|]; [|discriminate E]. cbv zeta in E.
      destruct (in_i64 (i * snd x) && in_i64 (a + i * snd x)) eqn:B; [|discriminate E].
      inversion E; subst. apply andb_true_iff in B. tauto.
    + rewrite acc_none in H. discriminate H.
Qed.

Lemma parse_units_int_in_i64 us s z : parse_units_int us s = Some z -> in_i64 z = true.
Proof.
  unfold parse_units_int, parse_units. cbv zeta.
  destruct (chars (trim_space s)) as [|c d]; [discriminate|].
  destruct (re_match_at _ _ _) as [cs|]; [|discriminate].
  destruct (existsb _ _); [discriminate|].
  destruct (fold_left _ _ _) as [w|] eqn:E; [|discriminate].
  intro H; inversion H; subst. eapply acc_inv; [|exact E]. reflexivity.
Qed.

Lemma int_denotes_in_i64 u v z : int_denotes u v z -> in_i64 z = true.
Proof.
  intros H. destruct H; try assumption.
  - destruct b; reflexivity.
  - eapply parse_int_in_i64; eassumption.
  - eapply parse_units_int_in_i64; eassumption.
Qed.

Lemma map_set_len k v acc : (List.length (map_set k v acc) <= S (List.length acc))%nat.
Proof.
  induction acc as [|[k0 v0] a IH]; cbn [map_set]; [cbn; lia|].
  destruct (key_eqb k k0); cbn [List.length]; lia.
Qed.

Lemma map_built_len (RK RV : gval -> gval -> Prop) kvs acc r :
  map_built RK RV kvs acc r -> (List.length r <= List.length acc + List.length kvs)%nat.
Proof.
  intro H. induction H as [|k v t acc k' v' r Hk Hv Hrest IH]; cbn [List.length]; [lia|].
  pose proof (map_set_len k' v' acc). lia.
Qed.

Lemma map_built_forall (P : gval * gval -> Prop) (RK RV : gval -> gval -> Prop) kvs acc r :
  (forall k v k' v', RK k k' -> RV v v' -> P (k', v')) ->
  Forall P acc -> map_built RK RV kvs acc r -> Forall P r.
Proof.
  intros HP Hacc H. induction H as [|k v t acc k' v' r Hk Hv Hrest IH]; [exact Hacc|].
  apply IH. clear IH Hrest.
  induction acc as [|[k0 v0] a IHa]; cbn [map_set].
  - constructor; [eapply HP; eassumption | constructor].
  - inversion Hacc; subst. destruct (key_eqb k' k0).
    + constructor; [eapply HP; eassumption | assumption].
    + constructor; [assumption | apply IHa; assumption].
Qed.

Theorem accepts_native_sat : forall s, c02_schema s -> maps_no_min s -> forall e v n,
  accepts e s v n -> native s n /\ sat s n.
Proof.
  induction s as [mn mx u | mn mx u | mn mx pat | | | | vals u | named vals | it IHit mn mx | ks IHk vs IHv mn mx
                  | id un props | types ik field inl | id ns d | objs root];
    intros Hc Hm e v n H; cbn [c02_schema] in Hc; try contradiction; cbn [Spec.accepts] in H; cbn [native sat].
  - destruct H as (z & -> & Hd & H1 & H2). apply int_denotes_in_i64 in Hd.
    split; [exists z; tauto | exists z; tauto].
  - destruct H as (x & -> & Hd & H1 & H2). split; [exists x; reflexivity | exists x; tauto].
  - destruct H as (t & -> & Hd & H1 & H2 & H3). split; [exists t; reflexivity | exists t; tauto].
  - destruct H as (b & -> & Hd). split; exists b; reflexivity.
  - destruct H as (t & -> & Hd & H1). split; exists t; reflexivity.
  - destruct H as (z & -> & Hd & H1). apply int_denotes_in_i64 in Hd.
    split; [exists z; tauto | exists z; tauto].
  - destruct H as (t & -> & Hd & H1). split; [exists t; reflexivity | exists t; tauto].
  - cbn [maps_no_min] in Hm. destruct H as (ty & nl & l & ns & -> & H1 & H2 & HF & ->).
    assert (A : Forall (fun y => native it y /\ sat it y) ns).
    { clear H1 H2. induction HF as [|x y l ns Hxy Hrest IH]; [constructor|].
      constructor; [eapply IHit; eassumption | exact IH]. }
    assert (L : llen ns = llen l).
    { unfold llen. f_equal. symmetry. eapply Forall2_len. exact HF. }
    split.
    + exists (TSlice (rtype it)), false, ns. split; [reflexivity|]. eapply Forall_impl; [|exact A]. cbn. tauto.
    + exists (TSlice (rtype it)), false, ns. rewrite L. repeat split; try assumption.
      eapply Forall_impl; [|exact A]. cbn. tauto.
  - destruct Hc as [Hck Hcv]. cbn [maps_no_min] in Hm. destruct Hm as (-> & Hmk & Hmv).
    destruct H as (ty & nl & kvs & r & -> & H1 & H2 & HB & ->).
    assert (A : Forall (fun kv => (native ks (fst kv) /\ sat ks (fst kv)) /\ (native vs (snd kv) /\ sat vs (snd kv))) r).
    { eapply (map_built_forall _ (accepts e ks) (accepts e vs)); [| constructor | exact HB].
      intros k v k' v' Hk Hv. cbn [fst snd]. split; [eapply IHk | eapply IHv]; eassumption. }
    pose proof (map_built_len _ _ _ _ _ HB) as Len. cbn [List.length] in Len.
    split.
    + exists (TMap (rtype ks) (rtype vs)), false, r. split; [reflexivity|]. eapply Forall_impl; [|exact A]. cbn. tauto.
    + exists (TMap (rtype ks) (rtype vs)), false, r. split; [reflexivity|]. split; [exact I|]. split.
      * destruct mx as [m|]; cbn [z_upper] in *; [|exact I]. unfold llen in *. lia.
      * eapply Forall_impl; [|exact A]. cbn. tauto.
Qed.

(* ---------- Validate / Serialize on native values ---------- *)
Lemma vi64_inj a b : vi64 a = vi64 b -> a = b.
Proof. intro H; inversion H; reflexivity. Qed.

Theorem validate_iff_sat : forall s, c02_schema s -> forall f e n, (sdepth s < f)%nat -> native s n ->
  (validate f e s n = Ok tt <-> sat s n).
Proof.
  induction s as [mn mx u | mn mx u | mn mx pat | | | | vals u | named vals | it IHit mn mx | ks IHk vs IHv mn mx
                  | id un props | types ik field inl | id ns d | objs root];
    intros Hc f e n Hf Hn; cbn [c02_schema] in Hc; try contradiction;
    (destruct f as [|f]; [lia|]); cbn [native] in Hn; cbn [Ops.validate sat].
  - destruct Hn as (z & -> & Hi). rewrite (int_ser_native _ _ _ Hi).
    destruct (size_ok mn mx z) eqn:Hs; cbn [bind].
    + apply size_ok_iff in Hs. split; [intros _; exists z; tauto | reflexivity].
    + split; [discriminate|]. intros (z' & E & H1 & H2). apply vi64_inj in E. subst.
      assert (size_ok mn mx z' = true) by (apply size_ok_iff; tauto). congruence.
  - destruct Hn as (x & ->). unfold float_ser, float_bounds, vf64. cbn [conv_float64].
    match goal with |- context [if ?c then _ else _] => destruct c eqn:B end; cbn [bind].
    + apply fbounds_iff in B. split; [intros _; exists x; tauto | reflexivity].
    + split; [discriminate|]. intros (x' & E & H). inversion E; subst. apply fbounds_iff in H. congruence.
  - destruct Hn as (t & ->). unfold string_ser, vstr. cbn [conv_string]. rewrite bind_unit_ok. split.
    + intros (a & H). apply string_check_iff in H. exists t. tauto.
    + intros (t' & E & H). inversion E; subst. exists (vstr t'). apply string_check_iff. tauto.
  - destruct Hn as (b & ->). cbn. split; [intros _; exists b; reflexivity | reflexivity].
  - destruct Hn as (t & ->). cbn. split; [intros _; exists t; reflexivity | reflexivity].
  - destruct Hn as (z & -> & Hi). rewrite (enum_int_ser_native _ _ Hi).
    destruct (enum_int_mem vals z) eqn:M; cbn [bind].
    + apply enum_int_mem_iff in M. split; [intros _; exists z; tauto | reflexivity].
    + split; [discriminate|]. intros (z' & E & H). apply vi64_inj in E. subst.
      apply enum_int_mem_iff in H. congruence.
  - destruct Hn as (t & ->). unfold enum_str_ser. cbn [conv_string].
    destruct (enum_str_mem vals t) eqn:M; cbn [bind].
    + apply enum_str_mem_iff in M. split; [intros _; exists t; tauto | reflexivity].
    + split; [discriminate|]. intros (t' & E & H). inversion E; subst. apply enum_str_mem_iff in H. congruence.
  - cbn [sdepth] in Hf. destruct Hn as (ty & nl & ns & -> & Hnat).
    destruct (size_ok mn mx (zlen ns)) eqn:Hs.
    + apply size_ok_iff in Hs. rewrite bind_unit_ok.
      assert (Q : (exists a, mapMi (fun i x => seg (idx_seg i) (validate f e it x)) 0 ns = Ok a) <-> Forall (sat it) ns).
      { split.
        - intros (a & H). apply mapMi_seg_ok in H.
          assert (H' : Forall (fun x => validate f e it x = Ok tt) ns) by (apply (Forall2_unit (fun x y => validate f e it x = Ok y)); exists a; exact H).
          apply (Forall_iff_in (native it) (fun x => validate f e it x = Ok tt) (sat it) ns Hnat); [|exact H'].
          intros x Hx. apply IHit; [exact Hc | lia | exact Hx].
        - intro H.
          assert (H' : Forall (fun x => validate f e it x = Ok tt) ns).
          { apply (Forall_iff_in (native it) (fun x => validate f e it x = Ok tt) (sat it) ns Hnat); [|exact H].
            intros x Hx. apply IHit; [exact Hc | lia | exact Hx]. }
          apply (Forall2_unit (fun x y => validate f e it x = Ok y)) in H'. destruct H' as (ys & Hys).
          exists ys. apply mapMi_seg_ok. exact Hys. }
      rewrite Q. split.
      * intro H. exists ty, nl, ns. destruct Hs. repeat split; assumption.
      * intros (ty' & nl' & ns' & E & _ & _ & H). inversion E; subst. exact H.
    + split; [discriminate|]. intros (ty' & nl' & ns' & E & H1 & H2 & _). inversion E; subst.
      assert (size_ok mn mx (zlen ns') = true) by (apply size_ok_iff; split; assumption). congruence.
  - cbn [sdepth] in Hf. destruct Hc as [Hck Hcv]. destruct Hn as (ty & nl & r & -> & Hnat).
    destruct (size_ok mn mx (zlen r)) eqn:Hs.
    + apply size_ok_iff in Hs. rewrite forM_ok.
      assert (Q : Forall (fun kv => (_ <- seg (mkey_seg (fst kv)) (validate f e ks (fst kv)) ;;
                                     seg (mval_seg (fst kv)) (validate f e vs (snd kv))) = Ok tt) r
                  <-> Forall (fun kv => sat ks (fst kv) /\ sat vs (snd kv)) r).
      { apply (Forall_iff_in (fun kv => native ks (fst kv) /\ native vs (snd kv))); [exact Hnat|].
        intros kv [Nk Nv]. rewrite bind_ok. split.
        - intros (u & Hu & H). destruct u. apply seg_ok in Hu. apply seg_ok in H.
          split; [apply (IHk Hck f e); [lia | exact Nk | exact Hu] | apply (IHv Hcv f e); [lia | exact Nv | exact H]].
        - intros [Sk Sv]. exists tt. split; apply seg_ok; [apply (IHk Hck f e) | apply (IHv Hcv f e)]; try assumption; lia. }
      rewrite Q. split.
      * intro H. exists ty, nl, r. destruct Hs. repeat split; assumption.
      * intros (ty' & nl' & r' & E & _ & _ & H). inversion E; subst. exact H.
    + split; [discriminate|]. intros (ty' & nl' & r' & E & H1 & H2 & _). inversion E; subst.
      assert (size_ok mn mx (zlen r') = true) by (apply size_ok_iff; split; assumption). congruence.
Qed.

Lemma ser_map_fold f e ks vs kvs :
  fold_left (fun acc kv =>
               a <- acc ;;
               k' <- seg (mkey_seg (fst kv)) (serialize f e ks (fst kv)) ;;
               v' <- seg (mval_seg (fst kv)) (serialize f e vs (snd kv)) ;;
               Ok (map_set k' v' a)) kvs (Ok []) =
  fold_left (map_step (serialize f e ks) (serialize f e vs) mkey_seg mval_seg) kvs (Ok []).
Proof. reflexivity. Qed.

Theorem serialize_iff_sat : forall s, c02_schema s -> forall f e n, (sdepth s + 1 < f)%nat -> native s n ->
  ((exists w, serialize f e s n = Ok w) <-> sat s n).
Proof.
  induction s as [mn mx u | mn mx u | mn mx pat | | | | vals u | named vals | it IHit mn mx | ks IHk vs IHv mn mx
                  | id un props | types ik field inl | id ns d | objs root];
    intros Hc f e n Hf Hn; cbn [c02_schema] in Hc; try contradiction;
    (destruct f as [|f]; [lia|]); cbn [native] in Hn; cbn [Ops.serialize sat].
  - destruct Hn as (z & -> & Hi). rewrite (int_ser_native _ _ _ Hi).
    destruct (size_ok mn mx z) eqn:Hs.
    + apply size_ok_iff in Hs. split; [intros _; exists z; tauto | intros _; eexists; reflexivity].
    + split; [intros (w & H); discriminate H|]. intros (z' & E & H1 & H2). apply vi64_inj in E. subst.
      assert (size_ok mn mx z' = true) by (apply size_ok_iff; tauto). congruence.
  - destruct Hn as (x & ->). unfold float_ser, float_bounds, vf64. cbn [conv_float64].
    match goal with |- context [if ?c then _ else _] => destruct c eqn:B end.
    + apply fbounds_iff in B. split; [intros _; exists x; tauto | intros _; eexists; reflexivity].
    + split; [intros (w & H); discriminate H|]. intros (x' & E & H). inversion E; subst. apply fbounds_iff in H. congruence.
  - destruct Hn as (t & ->). unfold string_ser, vstr. cbn [conv_string]. split.
    + intros (w & H). apply string_check_iff in H. exists t. tauto.
    + intros (t' & E & H). inversion E; subst. exists (vstr t'). apply string_check_iff. tauto.
  - destruct Hn as (b & ->). cbn. split; [intros _; exists b; reflexivity | intros _; eexists; reflexivity].
  - destruct Hn as (t & ->). cbn. split; [intros _; exists t; reflexivity | intros _; eexists; reflexivity].
  - destruct Hn as (z & -> & Hi). rewrite (enum_int_ser_native _ _ Hi).
    destruct (enum_int_mem vals z) eqn:M.
    + apply enum_int_mem_iff in M. split; [intros _; exists z; tauto | intros _; eexists; reflexivity].
    + split; [intros (w & H); discriminate H|]. intros (z' & E & H). apply vi64_inj in E. subst.
      apply enum_int_mem_iff in H. congruence.
  - destruct Hn as (t & ->). unfold enum_str_ser. cbn [conv_string].
    destruct (enum_str_mem vals t) eqn:M.
    + apply enum_str_mem_iff in M. split; [intros _; exists t; tauto | intros _; eexists; reflexivity].
    + split; [intros (w & H); discriminate H|]. intros (t' & E & H). inversion E; subst. apply enum_str_mem_iff in H. congruence.
  - cbn [sdepth] in Hf.
    assert (V : validate f e (SList it mn mx) n = Ok tt <-> sat (SList it mn mx) n).
    { apply validate_iff_sat; [exact Hc | cbn [sdepth]; lia | cbn [native]; exact Hn]. }
    cbn [sat] in V. rewrite <- V. destruct Hn as (ty & nl & ns & -> & Hnat). split.
    + intros (w & H). apply bind_ok in H. destruct H as (u & Hu & _). destruct u. exact Hu.
    + intro H. pose proof (proj1 V H) as HS. destruct HS as (ty' & nl' & ns' & E & _ & _ & HS).
      injection E as E1 E2 E3. subst ty' nl' ns'.
      assert (T : Forall (fun x => exists y, serialize f e it x = Ok y) ns).
      { apply (Forall_iff_in (native it) (fun x => exists y, serialize f e it x = Ok y) (sat it) ns Hnat); [|exact HS].
        intros x Hx. apply IHit; [exact Hc | lia | exact Hx]. }
      apply Forall_exists_Forall2 in T. destruct T as (ys & Hys).
      apply (mapMi_seg_ok (serialize f e it) idx_seg ns 0 ys) in Hys.
      exists (VSlice t_any_slice false ys). apply bind_ok. exists tt. split; [exact H|]. cbv beta iota.
      apply bind_ok. exists ys. split; [exact Hys | reflexivity].
  - cbn [sdepth] in Hf.
    assert (V : validate f e (SMap ks vs mn mx) n = Ok tt <-> sat (SMap ks vs mn mx) n).
    { apply validate_iff_sat; [exact Hc | cbn [sdepth]; lia | cbn [native]; exact Hn]. }
    cbn [sat] in V. rewrite <- V. destruct Hc as [Hck Hcv]. destruct Hn as (ty & nl & r & -> & Hnat). split.
    + intros (w & H). apply bind_ok in H. destruct H as (u & Hu & _). destruct u. exact Hu.
    + intro H. pose proof (proj1 V H) as HS. destruct HS as (ty' & nl' & r' & E & _ & _ & HS).
      injection E as E1 E2 E3. subst ty' nl' r'.
      assert (T : Forall (fun kv => (exists k', serialize f e ks (fst kv) = Ok k') /\ (exists v', serialize f e vs (snd kv) = Ok v')) r).
      { apply (Forall_iff_in (fun kv => native ks (fst kv) /\ native vs (snd kv)) _ (fun kv => sat ks (fst kv) /\ sat vs (snd kv)) r Hnat); [|exact HS].
        intros kv [Nk Nv].
        pose proof (IHk Hck f e (fst kv) ltac:(lia) Nk) as A1. pose proof (IHv Hcv f e (snd kv) ltac:(lia) Nv) as A2. tauto. }
      destruct (map_fold_total (serialize f e ks) (serialize f e vs) mkey_seg mval_seg r [] T) as (w & Hw).
      exists (VMap t_any_map false w). apply bind_ok. exists tt. split; [exact H|]. cbv beta iota.
      apply bind_ok. exists w. split; [exact Hw | reflexivity].
Qed.

(* the three paths agree on what Unserialize returns *)
Theorem unser_result_valid : forall s, c02_schema s -> maps_no_min s -> forall f e v n,
  (sdepth s + 1 < f)%nat -> go_val v -> unser f e s v = Ok n ->
  validate f e s n = Ok tt /\ exists w, serialize f e s n = Ok w.
Proof.
  intros s Hc Hm f e v n Hf Hg H.
  apply unser_iff_accepts in H; [| exact Hc | lia | exact Hg].
  apply accepts_native_sat in H; [| exact Hc | exact Hm]. destruct H as [Hn Hs].
  split; [apply validate_iff_sat; [exact Hc | lia | exact Hn | exact Hs] | apply serialize_iff_sat; [exact Hc | exact Hf | exact Hn | exact Hs]].
Qed.

End WithTables.
