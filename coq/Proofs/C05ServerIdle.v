(* Proofs/C05ServerIdle.v — two facts about the server model (ATP/Server.v) for the progress half of C05:

     step_io      what one step does to the input stream `inq`, to the ghost history `hist` and to `stdin_closed`;
     server_idle  a server whose read loop is in its loop (no Close seen, stdin open) and in which NO goroutine can take
                  a step and none waits for the release of a slow handler has nothing left to do: its input is empty,
                  every step / signal goroutine has finished, the report channel is empty, the closure handler forwards
                  nothing.  With Proofs/ServerInv.v TermInv: every accepted work-start has its terminal message on the
                  output. *)
From Coq Require Import Lia.
From Verif Require Import Base.Prelude Base.Str ATP.Msg ATP.Server Proofs.ServerInv Proofs.Server Proofs.ServerRoute.
Local Open Scope string_scope.
Local Open Scope list_scope.
Local Open Scope nat_scope.

Lemma step_io c s l s' : step c s l = Some s' ->
  (exists ev, l = LArrive ev /\ inq s' = inq s ++ [ev] /\ hist s' = hist s /\ stdin_closed s' = stdin_closed s) \/
  (inq s' = inq s /\ hist s' = hist s /\ (stdin_closed s' = stdin_closed s \/ hp s = HClose)) \/
  (exists ev, inq s = ev :: inq s' /\ hist s' = hist s ++ [ev] /\ rl s = RLoop /\
     (stdin_closed s' = stdin_closed s \/ ev = EvMsg ClientDone \/ exists id r, ev = EvMsg (BadPayload id r))) \/
  rl s = RStart.
Proof.
  intros H. des s. flat.
  destruct l as [ev|t| | | |rv|i]; unf_step; flat; destruct crashed0; try discriminate H.
  - inversion H; subst; flat. left. eexists. repeat split; reflexivity.
  - inversion H; subst; flat. right. left. auto.
  - inversion H; subst; flat. right. left. auto.
  - inversion H; subst; flat. right. left. auto.
  - brk;
      first [right; left; repeat split; auto; fail
            |right; right; right; reflexivity
            |right; right; left; eexists; split; [reflexivity|split; [reflexivity|split; [reflexivity|]]];
             first [left; reflexivity|right; left; reflexivity|right; right; do 2 eexists; reflexivity]].
  - brk; right; left; repeat split; auto.
  - worker_cases H. brk; right; left; repeat split; auto.
Qed.

Lemma gone_pending r : forall ws, Forall (fun w => w_pc w = WGone) ws -> sumf (w_pending r) ws = 0.
Proof.
  induction ws as [|w ws IH]; intros F; [reflexivity|]. inversion F as [|? ? Hw Hws]; subst.
  rewrite sumf_cons, IH by assumption. unfold w_pending. rewrite Hw. reflexivity.
Qed.

Lemma server_idle c s : Inv s -> stdin_closed s = false -> (rl s = RLoop \/ exists e, rl s = RReport e KLoop) ->
  hp s <> HClose ->
  step c s LRead = None -> step c s (LHandler true) = None -> (forall i, step c s (LWorker i) = None) ->
  (forall i w st tok, nth_error (workers s) i = Some w -> w_pc w = WCall -> w_kind w = KStep st tok ->
     handler_reached c st tok && c_slow c tok && negb (zmem tok (released s)) = false) ->
  inq s = [] /\ rl s = RLoop /\ wd s = [] /\ Forall (fun w => w_pc w = WGone) (workers s) /\
  (hp s = HSelect \/ hp s = HWait \/ hp s = HReturned).
Proof.
  intros I Hs Hrl Hh QR QH QW NR. des s. destruct I as [I1 I2 I3 I4 I5 I6]. flat. subst.
  unfold step in *. flat.
  unfold step_handler in QH. flat.
  assert (wd0 = [] /\ (hp0 = HSelect \/ hp0 = HWait \/ hp0 = HReturned)) as [-> HH].
  { destruct hp0.
    - destruct wd0; [auto|discriminate QH].
    - exfalso. cbv zeta in QH. match type of QH with (if ?b then _ else _) = None => destruct b; discriminate QH end.
    - congruence.
    - destruct I6 as [_ I6]; [reflexivity|]. auto.
    - destruct I6 as [_ I6]; [reflexivity|]. auto. }
  assert (Forall (fun w => w_pc w = WGone) workers0) as HW.
  { apply Forall_forall. intros w Hin. apply In_nth_error in Hin. destruct Hin as [i Hn].
    specialize (QW i). unfold step_worker, set_wpc in QW. flat. rewrite Hn in QW. specialize (NR i w).
    destruct w as [wk wr wp]. flat. destruct wp; try reflexivity; exfalso.
    - destruct wk as [st tok|st sg ok].
      + rewrite (NR st tok Hn eq_refl eq_refl) in QW. destruct (step_outcome c st tok); discriminate QW.
      + destruct (c_step_known c st && c_sig_known c sg && ok); discriminate QW.
    - destruct out_closed0; discriminate QW.
    - destruct wd_closed0; [discriminate QW|]. cbn in QW. discriminate QW.
    - discriminate QW. }
  unfold step_read, raise in QR. flat.
  destruct Hrl as [->|[e ->]].
  - cbn in QR. destruct inq0 as [|ev q]; [repeat split; auto|]. exfalso. destruct ev; discriminate QR.
  - exfalso. destruct wd_closed0; [discriminate QR|]. cbn in QR. discriminate QR.
Qed.
