(* Proofs/C12Lookup.v — the two remaining places where an operation consults a map OF THE SCHEMA by key
   (object.go: PropertiesValue[k]; oneof.go: TypesValue[discriminator]; scope.go / ref.go:
   ObjectsValue[id]): with unique keys the entry found does not depend on the order of the list. *)
From Coq Require Import Permutation Lia.
From Verif Require Import Base.Prelude Base.Str Base.Float Base.GoVal
  Schema.Regex Schema.Units Schema.Syntax Schema.Ops Schema.Wf Schema.Perm Proofs.C04Inv.
Open Scope string_scope.

Lemma str_in_perm x l l' : Permutation l l' -> str_in x l = str_in x l'.
Proof.
  intros HP. induction HP as [|a m m' HP0 IH0|a b m|m m' m'' H1 IH1 H2 IH2]; cbn; try congruence.
  destruct (String.eqb x b), (String.eqb x a); reflexivity.
Qed.

Lemma nodup_str_perm l l' : Permutation l l' -> nodup_str l = nodup_str l'.
Proof.
  intros HP. induction HP as [|a m m' HP0 IH0|a b m|m m' m'' H1 IH1 H2 IH2]; cbn; try congruence.
  - now rewrite IH0, (str_in_perm a m m' HP0).
  - rewrite (String.eqb_sym b a).
    destruct (String.eqb a b), (str_in a m), (str_in b m), (nodup_str m); reflexivity.
Qed.

Lemma alookup_none_in {A} k (l : list (string * A)) : str_in k (map fst l) = false -> alookup k l = None.
Proof.
  induction l as [|[k' v] t IH]; cbn; [reflexivity|]. intros H.
  apply orb_false_elim in H as [H1 H2]. rewrite H1. now apply IH.
Qed.

(* PropertiesValue[k], ObjectsValue[id]: a keyed lookup in an association list with unique keys *)
Lemma alookup_perm {A} k (l l' : list (string * A)) :
  nodup_str (map fst l) = true -> Permutation l l' -> alookup k l = alookup k l'.
Proof.
  intros Hnd HP. induction HP as [|[a va] m m' HP0 IH0|[a va] [b vb] m|m m' m'' H1 IH1 H2 IH2].
  - reflexivity.
  - cbn in *. apply andb_prop in Hnd as [_ Hnd]. destruct (String.eqb k a); [reflexivity | now apply IH0].
  - cbn in *. apply andb_prop in Hnd as [Hab _]. apply negb_true_iff in Hab. apply orb_false_elim in Hab as [Hab _].
    destruct (String.eqb k b) eqn:Eb, (String.eqb k a) eqn:Ea; try reflexivity.
    apply String.eqb_eq in Eb. apply String.eqb_eq in Ea. subst. now rewrite String.eqb_refl in Hab.
  - rewrite IH1 by exact Hnd. apply IH2.
    rewrite <- (nodup_str_perm (map fst m) (map fst m')); [exact Hnd | now apply Permutation_map].
Qed.

(* TypesValue[discriminator] *)
Lemma find_key_perm (types types' : list (okey * schema)) key :
  nodup_by okey_eqb (map fst types) = true -> Permutation types types' ->
  find (fun ks => okey_eqb (fst ks) key) types = find (fun ks => okey_eqb (fst ks) key) types'.
Proof.
  intros Hnd HP.
  assert (Hsym : forall a b, okey_eqb a b = okey_eqb b a).
  { intros [x|x] [y|y]; cbn; auto using Z.eqb_sym, String.eqb_sym. }
  assert (Htr : forall a b c, okey_eqb a c = true -> okey_eqb b c = true -> okey_eqb a b = true).
  { intros [x|x] [y|y] [z|z]; cbn; try discriminate; intros H1 H2.
    - apply Z.eqb_eq in H1, H2. subst. apply Z.eqb_refl.
    - apply String.eqb_eq in H1, H2. subst. apply String.eqb_refl. }
  assert (Hex : forall l l', Permutation l l' -> forall a : okey, existsb (okey_eqb a) l = existsb (okey_eqb a) l').
  { intros l l' HP0 a. induction HP0 as [|x0 m m' HP1 IH0|x0 y0 m|m m' m'' H1 IH1 H2 IH2]; cbn; try congruence.
    destruct (okey_eqb a x0), (okey_eqb a y0); reflexivity. }
  assert (Hndp : forall l l', Permutation l l' -> nodup_by okey_eqb l = nodup_by okey_eqb l').
  { intros l l' HP0. induction HP0 as [|x0 m m' HP1 IH0|x0 y0 m|m m' m'' H1 IH1 H2 IH2]; cbn; try congruence.
    - now rewrite IH0, (Hex m m' HP1 x0).
    - rewrite (Hsym y0 x0).
      destruct (okey_eqb x0 y0), (existsb (okey_eqb x0) m), (existsb (okey_eqb y0) m), (nodup_by okey_eqb m); reflexivity. }
  induction HP as [|[a va] m m' HP0 IH0|[a va] [b vb] m|m m' m'' H1 IH1 H2 IH2].
  - reflexivity.
  - cbn in *. apply andb_prop in Hnd as [_ Hnd]. destruct (okey_eqb a key); [reflexivity | now apply IH0].
  - cbn in *. apply andb_prop in Hnd as [Hab _]. apply negb_true_iff in Hab. apply orb_false_elim in Hab as [Hab _].
    destruct (okey_eqb b key) eqn:Eb, (okey_eqb a key) eqn:Ea; try reflexivity.
    rewrite (Htr b a key Eb Ea) in Hab. discriminate.
  - rewrite IH1 by exact Hnd. apply IH2.
    rewrite <- (Hndp (map fst m) (map fst m')); [exact Hnd | now apply Permutation_map].
Qed.

(* consequently: "is this key set / declared" (amem) and reference resolution do not depend on the order
   of a scope's object table *)
Lemma resolve_perm_self e e' id :
  e_ext e = e_ext e' -> e_or e = e_or e' ->
  nodup_str (map fst (e_self e)) = true -> Permutation (e_self e) (e_self e') ->
  option_map fst (resolve e id "") = option_map fst (resolve e' id "").
Proof.
  intros _ _ Hnd HP. unfold resolve. cbn [String.eqb].
  rewrite (alookup_perm id _ _ Hnd HP). destruct (alookup id (e_self e')); reflexivity.
Qed.
