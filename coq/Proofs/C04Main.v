(* Proofs/C04Main.v — assembling the two halves (no Panic for any fuel; no OutOfFuel from
   fuel_bound on) into the statements of Properties/C04.v. *)
From Coq Require Import Lia.
From Verif Require Import Base.Prelude Base.Str Base.Float Base.GoVal
  Schema.Regex Schema.Units Schema.Syntax Schema.Ops Schema.Wf Schema.Total
  Proofs.MonoEq Proofs.C04Inv Proofs.C04NoPanic Proofs.C04Term Proofs.C04Refuted.

Definition total_outcome {A} (o : outcome A) : Prop := (forall w, o <> Panic w) /\ o <> OutOfFuel.

Lemma total_of {A} (o : outcome A) : np o -> fin o -> total_outcome o.
Proof. destruct o; cbn; intros H1 H2; split; try (intros; congruence); try tauto. Qed.

Section Main.
Variable words : list (string * bool).
Variable pu : units -> string -> option fl.

Lemma wf_inv e s : wf_schema e s = true -> Inv wf_local e s.
Proof. unfold wf_schema, Inv. intros H. apply andb_prop in H. exact H. Qed.

Lemma hyps_inv K e s :
  wf_schema e s = true -> no_inline_cycle e s = true -> defaults_total words pu K e s = true ->
  Inv (P3 words pu K (nic_fuel e s)) e s.
Proof.
  intros H1 H2 H3. unfold P3.
  apply (inv_and wf_local (fun e0 s0 => nic_local (nic_fuel e s) e0 s0 && dflt_local words pu K e0 s0)).
  split; [now apply wf_inv|].
  apply (inv_and (nic_local (nic_fuel e s)) (dflt_local words pu K)). split.
  - unfold no_inline_cycle, no_inline_cycle_n in H2. unfold Inv. apply andb_prop in H2. exact H2.
  - unfold defaults_total in H3. unfold Inv. apply andb_prop in H3. exact H3.
Qed.

Lemma bound_enough K n v c o f :
  (c <= n)%nat -> (o <= 2)%nat -> (fuel_bound_n K n v <= f)%nat -> (need K n (vdepth v) c o <= f)%nat.
Proof. unfold fuel_bound_n, need, level_cost. intros. nia. Qed.

Section Ops.
Variables (K : nat) (e : env) (s : schema) (v : gval).
Hypothesis Hwf : wf_schema e s = true.
Hypothesis Hnic : no_inline_cycle e s = true.
Hypothesis Hdef : defaults_total words pu K e s = true.

Lemma c04_unser f : (fuel_bound K e s v <= f)%nat -> total_outcome (unser words pu f e s v).
Proof.
  intros Hf. apply total_of.
  - apply (np_all words pu f). now apply wf_inv.
  - pose proof (hyps_inv K e s Hwf Hnic Hdef) as Hinv.
    destruct (i3_nic words pu K _ e s (is_vmap v) Hinv) as (c & Hc & Hle).
    destruct (term_all words pu K (nic_fuel e s) (vdepth v) c) as (Iu & _).
    apply Iu; auto. { exists c. split; [exact Hc | lia]. } apply bound_enough; auto.
Qed.

Lemma c04_validate f : (fuel_bound K e s v <= f)%nat -> total_outcome (validate words pu f e s v).
Proof.
  intros Hf. apply total_of.
  - apply (np_all words pu f). now apply wf_inv.
  - pose proof (hyps_inv K e s Hwf Hnic Hdef) as Hinv.
    destruct (i3_nic words pu K _ e s (is_vmap v) Hinv) as (c & Hc & Hle).
    destruct (term_all words pu K (nic_fuel e s) (vdepth v) c) as (_ & Iv & _).
    apply Iv; auto. { exists c. split; [exact Hc | lia]. } apply bound_enough; auto.
Qed.

Lemma c04_serialize f : (fuel_bound K e s v <= f)%nat -> total_outcome (serialize words pu f e s v).
Proof.
  intros Hf. apply total_of.
  - apply (np_all words pu f). now apply wf_inv.
  - pose proof (hyps_inv K e s Hwf Hnic Hdef) as Hinv.
    destruct (i3_nic words pu K _ e s (is_vmap v) Hinv) as (c & Hc & Hle).
    destruct (term_all words pu K (nic_fuel e s) (vdepth v) c) as (_ & _ & _ & Is & _).
    apply Is; auto. { exists c. split; [exact Hc | lia]. } apply bound_enough; auto.
Qed.

Lemma c04_compat f : (fuel_bound K e s v <= f)%nat -> total_outcome (compat words pu f e s v).
Proof.
  intros Hf. apply total_of.
  - apply (np_all words pu f). now apply wf_inv.
  - pose proof (hyps_inv K e s Hwf Hnic Hdef) as Hinv.
    destruct (i3_nic words pu K _ e s (is_vmap v) Hinv) as (c & Hc & Hle).
    destruct (term_all words pu K (nic_fuel e s) (vdepth v) c) as (_ & _ & _ & _ & Ic).
    apply Ic; auto. { exists c. split; [exact Hc | lia]. } apply bound_enough; auto.
Qed.
End Ops.

Lemma c04_never_panics e s : wf_schema e s = true -> forall f v w,
  unser words pu f e s v <> Panic w /\ validate words pu f e s v <> Panic w /\
  serialize words pu f e s v <> Panic w /\ compat words pu f e s v <> Panic w.
Proof.
  intros Hwf f v w. apply wf_inv in Hwf.
  destruct (np_all words pu f) as (Hu & Hv & _ & Hs & Hc).
  specialize (Hu e s v Hwf). specialize (Hv e s v Hwf). specialize (Hs e s v Hwf). specialize (Hc e s v Hwf).
  repeat split; intros E; [rewrite E in Hu | rewrite E in Hv | rewrite E in Hs | rewrite E in Hc]; assumption.
Qed.

Lemma c04_inline_cycle_refuted :
  exists e s v, wf_schema e s = true /\ (forall n, no_inline_cycle_n n e s = false) /\
                forall f, unser words pu f e s v = OutOfFuel.
Proof.
  exists d11_env, d11_scope, d11_input. split; [exact d11_wf|]. split; [exact d11_cyclic_n|].
  apply d11_diverges.
Qed.

Lemma c04_default_cycle_refuted :
  exists e s v, wf_schema e s = true /\ no_inline_cycle e s = true /\
                (forall K, defaults_total words pu K e s = false) /\
                forall f, unser words pu f e s v = OutOfFuel.
Proof.
  exists d50_env, d50_scope, d50_empty. split; [exact d50_wf|]. split; [exact d50_no_inline_cycle|].
  split; [apply d50_defaults_diverge | apply d50_diverges].
Qed.

End Main.
