(* Proofs/C05Wire.v — ATP/Wire.v: under the lock discipline the stream of a shared encoder is framed in
   every reachable state, for every schedule, any number of writers, messages and pieces; a single
   writer that uses the encoder without the lock breaks it. *)
From Coq Require Import List Arith Bool.
From Verif Require Import ATP.Wire.
Import ListNotations.

Lemma wb_snoc : forall l o e,
  wb o (l ++ [e]) = match wb o l with Some o' => wb1 o' e | None => None end.
Proof.
  induction l as [|a t IH]; intros o e; cbn [app wb].
  - destruct (wb1 o e); reflexivity.
  - destruct (wb1 o a) as [o'|]; [apply IH | reflexivity].
Qed.

Definition holds (p : wpc) : bool := match p with PLocked | PWriting | PWritten => true | _ => false end.

(* the writer that is inside the transport's Write *)
Definition inside (s : wstate) : option nat :=
  match mutex s with
  | Some w => match pcs s w with PWriting => Some w | _ => None end
  | None => None
  end.

Definition WInv (s : wstate) : Prop :=
  (forall w, pcs s w = PIdle \/ (mutex s = Some w /\ holds (pcs s w) = true))
  /\ wb None (stream s) = Some (inside s).

Lemma winv_init : WInv winit.
Proof. split; [intro w; left; reflexivity | reflexivity]. Qed.

Section Locked.
Variable locked : nat -> bool.
Hypothesis all_locked : forall w, locked w = true.

Lemma upd_same : forall f w p, upd f w p w = p.
Proof. intros; unfold upd; rewrite Nat.eqb_refl; reflexivity. Qed.

Lemma upd_other : forall f w p x, x <> w -> upd f w p x = f x.
Proof. intros f w p x H; unfold upd. destruct (Nat.eqb x w) eqn:E; [apply Nat.eqb_eq in E; contradiction | reflexivity]. Qed.

(* who holds the mutex is the writer whose pc says so *)
Lemma holder_is : forall s w, WInv s -> holds (pcs s w) = true -> mutex s = Some w.
Proof.
  intros s w [H1 _] Hh. destruct (H1 w) as [A|[A _]]; [rewrite A in Hh; discriminate | exact A].
Qed.

Lemma others_idle : forall s w x, WInv s -> mutex s = Some w -> x <> w -> pcs s x = PIdle.
Proof.
  intros s w x [H1 _] Hm Hx. destruct (H1 x) as [A|[A _]]; [exact A|].
  congruence.
Qed.

Lemma winv_step : forall s l s', WInv s -> wstep locked s l = Some s' -> WInv s'.
Proof.
  intros s l s' HI Hs. pose proof HI as [H1 H2].
  destruct l as [w|w|w|w|w]; cbn [wstep] in Hs.
  - (* LLock *)
    rewrite (all_locked w) in Hs.
    destruct (pcs s w) eqn:Hp; try discriminate. destruct (mutex s) eqn:Hm; try discriminate.
    inversion Hs; subst s'; clear Hs. split; cbn [pcs mutex stream].
    + intro x. destruct (Nat.eq_dec x w) as [->|Hx].
      * right; rewrite upd_same; split; reflexivity.
      * rewrite upd_other by exact Hx. destruct (H1 x) as [A|[A _]]; [left; exact A | congruence].
    + unfold inside in *; cbn [pcs mutex]. rewrite upd_same. rewrite Hm in H2. exact H2.
  - (* LBegin *)
    destruct (pcs s w) eqn:Hp; try discriminate.
    + rewrite (all_locked w) in Hs; discriminate.
    + inversion Hs; subst s'; clear Hs.
      assert (Hm : mutex s = Some w) by (apply holder_is; [exact HI | rewrite Hp; reflexivity]).
      split; cbn [pcs mutex stream].
      * intro x. destruct (Nat.eq_dec x w) as [->|Hx].
        -- right; rewrite upd_same; split; [exact Hm | reflexivity].
        -- rewrite upd_other by exact Hx. left. eapply others_idle; eauto.
      * rewrite wb_snoc, H2. unfold inside; cbn [pcs mutex]. rewrite Hm, Hp, upd_same. reflexivity.
  - (* LChunk *)
    destruct (pcs s w) eqn:Hp; try discriminate.
    + inversion Hs; subst s'; clear Hs.
      assert (Hm : mutex s = Some w) by (apply holder_is; [exact HI | rewrite Hp; reflexivity]).
      split; cbn [pcs mutex stream]; [exact H1|].
      rewrite wb_snoc, H2. unfold inside; cbn [pcs mutex]. rewrite Hm, Hp. cbn [wb1]. rewrite Nat.eqb_refl. reflexivity.
    + (* PWritingU is unreachable when every writer takes the lock *)
      destruct (H1 w) as [A|[_ A]]; rewrite Hp in A; discriminate.
  - (* LEnd *)
    destruct (pcs s w) eqn:Hp; try discriminate.
    + inversion Hs; subst s'; clear Hs.
      assert (Hm : mutex s = Some w) by (apply holder_is; [exact HI | rewrite Hp; reflexivity]).
      split; cbn [pcs mutex stream].
      * intro x. destruct (Nat.eq_dec x w) as [->|Hx].
        -- right; rewrite upd_same; split; [exact Hm | reflexivity].
        -- rewrite upd_other by exact Hx. left. eapply others_idle; eauto.
      * rewrite wb_snoc, H2. unfold inside; cbn [pcs mutex]. rewrite Hm, Hp, upd_same. cbn [wb1]. rewrite Nat.eqb_refl. reflexivity.
    + destruct (H1 w) as [A|[_ A]]; rewrite Hp in A; discriminate.
  - (* LUnlock *)
    destruct (pcs s w) eqn:Hp; try discriminate.
    inversion Hs; subst s'; clear Hs.
    assert (Hm : mutex s = Some w) by (apply holder_is; [exact HI | rewrite Hp; reflexivity]).
    split; cbn [pcs mutex stream].
    + intro x. left. destruct (Nat.eq_dec x w) as [->|Hx].
      * apply upd_same.
      * rewrite upd_other by exact Hx. eapply others_idle; eauto.
    + rewrite H2. unfold inside; cbn [pcs mutex]. rewrite Hm, Hp. reflexivity.
Qed.

Lemma winv_run_from : forall ls s, WInv s -> WInv (fold_left (wstep_or_stay locked) ls s).
Proof.
  induction ls as [|l t IH]; intros s HI; cbn [fold_left]; [exact HI|].
  apply IH. unfold wstep_or_stay. destruct (wstep locked s l) as [s'|] eqn:E; [eapply winv_step; eauto | exact HI].
Qed.

Lemma winv_run : forall ls, WInv (wrun locked ls).
Proof. intro ls. apply winv_run_from, winv_init. Qed.

(* every schedule: the stream is framed, and a writer is inside a message only while it holds the lock *)
Lemma wire_framed : forall ls, framed (stream (wrun locked ls)).
Proof. intro ls. destruct (winv_run ls) as [_ H]. eexists; exact H. Qed.

Lemma wire_one_writer : forall ls w,
  wb None (stream (wrun locked ls)) = Some (Some w) -> mutex (wrun locked ls) = Some w /\ pcs (wrun locked ls) w = PWriting.
Proof.
  intros ls w H. destruct (winv_run ls) as [_ H2]. rewrite H2 in H. injection H as Hi. unfold inside in Hi.
  destruct (mutex (wrun locked ls)) as [v|] eqn:Hm; [|discriminate].
  destruct (pcs (wrun locked ls) v) eqn:Hp; try discriminate. injection Hi as Hv. subst v. split; [reflexivity | exact Hp].
Qed.
End Locked.

(* ---------- one writer that uses the encoder without the lock: the stream is no longer framed ---------- *)
Definition unlocked1 (w : nat) : bool := negb (Nat.eqb w 1).
Definition interleaving_schedule : list wlabel := [LLock 0; LBegin 0; LChunk 0; LBegin 1; LChunk 1; LChunk 0; LEnd 0; LUnlock 0; LEnd 1].

Lemma wire_unlocked_refuted :
  framedb (stream (wrun unlocked1 interleaving_schedule)) = false /\
  stream (wrun unlocked1 interleaving_schedule)
  = [WBegin 0; WPiece 0; WBegin 1; WPiece 1; WPiece 0; WEnd 0; WEnd 1].
Proof. vm_compute. split; reflexivity. Qed.

(* non-vacuity: three writers, two messages of writer 0, pieces of different counts, a writer waiting for the lock *)
Definition all_locked_cfg (w : nat) : bool := true.
Definition example_schedule : list wlabel :=
  [LLock 0; LLock 1; LBegin 0; LChunk 0; LBegin 1; LChunk 0; LEnd 0; LLock 2; LUnlock 0; LLock 2; LBegin 2; LEnd 2; LUnlock 2;
   LLock 1; LBegin 1; LChunk 1; LEnd 1; LUnlock 1; LLock 0; LBegin 0; LEnd 0; LUnlock 0].
Lemma wire_example :
  stream (wrun all_locked_cfg example_schedule)
  = [WBegin 0; WPiece 0; WPiece 0; WEnd 0; WBegin 2; WEnd 2; WBegin 1; WPiece 1; WEnd 1; WBegin 0; WEnd 0]
  /\ framedb (stream (wrun all_locked_cfg example_schedule)) = true.
Proof. vm_compute. split; reflexivity. Qed.
