(* Proofs/C12Schema.v — order independence on the SCHEMA side, lifted through Unserialize:
   the accept / reject decision of Unserialize does not depend on the order of ANY association list of
   the schema (properties, enum values, one-of members, scope objects) nor of the object tables of the
   environment.  (The order of the ARGUMENT's map entries is the other half; see Properties/C12.v.) *)
From Coq Require Import Permutation Lia.
From Verif Require Import Base.Prelude Base.Str Base.Float Base.GoVal
  Schema.Regex Schema.Units Schema.Syntax Schema.Ops Schema.Wf Schema.Perm
  Proofs.OpsEq Proofs.C04Inv Proofs.C04Term Proofs.C12Order Proofs.C12Lookup Proofs.C12History.
Open Scope string_scope.

(* the structural relation lives in Schema/Perm.v *)
Notation rel_schema := perm_schema.
Notation rel_prop := perm_prop.
Notation rel_tab := perm_tab.
Notation rel_env := perm_env.

Lemma rel_type_id s s' : rel_schema s s' -> type_id_of s = type_id_of s'.
Proof. intros H. destruct H; reflexivity. Qed.

Lemma rel_rtype : forall s s', rel_schema s s' -> True.
Proof. trivial. Qed.

(* ---------- keyed lookups through Forall2-then-Permutation ---------- *)
Section Lookup.
Context {A : Type} (R : A -> A -> Prop).

Lemma f2_keys (l l1 : list (string * A)) :
  Forall2 (fun a b => fst a = fst b /\ R (snd a) (snd b)) l l1 -> map fst l = map fst l1.
Proof. induction 1 as [|a b l l1 [Hk _] _ IH]; cbn; [reflexivity|]. now rewrite Hk, IH. Qed.

Lemma f2_alookup k (l l1 : list (string * A)) :
  Forall2 (fun a b => fst a = fst b /\ R (snd a) (snd b)) l l1 ->
  match alookup k l, alookup k l1 with
  | Some x, Some y => R x y
  | None, None => True
  | _, _ => False
  end.
Proof.
  induction 1 as [|[ka va] [kb vb] l l1 [Hk Hr] _ IH]; cbn in *; [exact I|].
  subst kb. destruct (String.eqb k ka); [exact Hr | exact IH].
Qed.

Lemma rel_alookup k (l l1 l' : list (string * A)) :
  nodup_str (map fst l) = true ->
  Forall2 (fun a b => fst a = fst b /\ R (snd a) (snd b)) l l1 -> Permutation l1 l' ->
  match alookup k l, alookup k l' with
  | Some x, Some y => R x y
  | None, None => True
  | _, _ => False
  end.
Proof.
  intros Hnd HF HP. pose proof (f2_alookup k l l1 HF) as H.
  rewrite <- (alookup_perm k l1 l'); [exact H | | exact HP].
  now rewrite <- (f2_keys l l1 HF).
Qed.

Lemma rel_amem k (l l1 l' : list (string * A)) :
  nodup_str (map fst l) = true ->
  Forall2 (fun a b => fst a = fst b /\ R (snd a) (snd b)) l l1 -> Permutation l1 l' ->
  amem k l = amem k l'.
Proof.
  intros Hnd HF HP. pose proof (rel_alookup k l l1 l' Hnd HF HP) as H. unfold amem.
  destruct (alookup k l), (alookup k l'); tauto.
Qed.

Lemma rel_nodup (l l1 l' : list (string * A)) :
  Forall2 (fun a b => fst a = fst b /\ R (snd a) (snd b)) l l1 -> Permutation l1 l' ->
  nodup_str (map fst l') = nodup_str (map fst l).
Proof.
  intros HF HP. rewrite (f2_keys l l1 HF). symmetry. apply nodup_str_perm. now apply Permutation_map.
Qed.
End Lookup.

(* one-of members: find by key through Forall2-then-Permutation *)
Lemma f2_okeys (l l1 : list (okey * schema)) :
  Forall2 (fun a b => fst a = fst b /\ rel_schema (snd a) (snd b)) l l1 -> map fst l = map fst l1.
Proof. induction 1 as [|a b l l1 [Hk _] _ IH]; cbn; [reflexivity|]. now rewrite Hk, IH. Qed.

Lemma rel_find key (l l1 l' : list (okey * schema)) :
  nodup_by okey_eqb (map fst l) = true ->
  Forall2 (fun a b => fst a = fst b /\ rel_schema (snd a) (snd b)) l l1 -> Permutation l1 l' ->
  match find (fun ks => okey_eqb (fst ks) key) l, find (fun ks => okey_eqb (fst ks) key) l' with
  | Some (_, m), Some (_, m') => rel_schema m m'
  | None, None => True
  | _, _ => False
  end.
Proof.
  intros Hnd HF HP.
  rewrite <- (find_key_perm l1 l' key); [| now rewrite <- (f2_okeys l l1 HF) | exact HP].
  clear HP Hnd. induction HF as [|[ka va] [kb vb] l l1 [Hk Hr] _ IH]; cbn in *; [exact I|].
  subst kb. destruct (okey_eqb ka key); [exact Hr | exact IH].
Qed.

(* ---------- verdicts ---------- *)
Lemma ok_bind2 {A A' B B'} (o : outcome A) (o' : outcome A') (k : A -> outcome B) (k' : A' -> outcome B') :
  is_ok o = is_ok o' -> (forall a a', o = Ok a -> o' = Ok a' -> is_ok (k a) = is_ok (k' a')) ->
  is_ok (bind o k) = is_ok (bind o' k').
Proof. destruct o, o'; cbn; try discriminate; auto. Qed.

Lemma ok_map_err {A} g (o : outcome A) : is_ok (map_err g o) = is_ok o.
Proof. destruct o; reflexivity. Qed.

Lemma ok_mapMi_cong {A B B'} (g : Z -> A -> outcome B) (g' : Z -> A -> outcome B') l : forall i,
  (forall j x, is_ok (g j x) = is_ok (g' j x)) -> is_ok (mapMi g i l) = is_ok (mapMi g' i l).
Proof.
  induction l as [|x t IH]; intros i H; cbn; [reflexivity|].
  apply ok_bind2; [apply H|]. intros y y' _ _. apply ok_bind2; [now apply IH|]. reflexivity.
Qed.

Lemma fold_not_ok {A B} (st : outcome B -> A -> outcome B) l :
  (forall acc x, is_ok acc = false -> is_ok (st acc x) = false) ->
  forall acc, is_ok acc = false -> is_ok (fold_left st l acc) = false.
Proof. intros H. induction l as [|x t IH]; intros acc Ha; cbn; [exact Ha|]. apply IH. now apply H. Qed.

Lemma ok_fold {A B} (st : outcome B -> A -> outcome B) (p : A -> bool) l :
  (forall a x, is_ok (st (Ok a) x) = p x) ->
  (forall acc x, is_ok acc = false -> is_ok (st acc x) = false) ->
  forall a0, is_ok (fold_left st l (Ok a0)) = forallb p l.
Proof.
  intros H1 H2. induction l as [|x t IH]; intros a0; cbn; [reflexivity|].
  rewrite <- (H1 a0 x). destruct (st (Ok a0) x) as [b| | |] eqn:E; cbn.
  - apply IH.
  - apply fold_not_ok; auto.
  - apply fold_not_ok; auto.
  - apply fold_not_ok; auto.
Qed.

Lemma forallb_f2 {A B} (Q : A -> B -> Prop) (p : A -> bool) (p' : B -> bool) l l1 :
  Forall2 Q l l1 -> (forall a b, In a l -> Q a b -> p a = p' b) -> forallb p l = forallb p' l1.
Proof.
  induction 1 as [|a b l l1 Hq _ IH]; intros H; cbn; [reflexivity|].
  rewrite (H a b (or_introl eq_refl) Hq), IH; [reflexivity|]. intros; apply H; [now right | assumption].
Qed.

(* ---------- the object case: what each property is unserialized from, independent of the order ---------- *)
Definition dec_default (o : oracles) (p : property) : option gval :=
  match p_default p with Some txt => decode_default o p txt | None => None end.
Definition dfl (o : oracles) (ps : list (string * property)) (k : string) : option gval :=
  match alookup k ps with Some p => dec_default o p | None => None end.

Lemma alookup_app_one {A} k n (d : A) (l : list (string * A)) :
  alookup k (l ++ [(n, d)]) = match alookup k l with Some x => Some x | None => if String.eqb k n then Some d else None end.
Proof. induction l as [|[k' v'] t IH]; cbn; [reflexivity|]. destruct (String.eqb k k'); [reflexivity | exact IH]. Qed.

Lemma r1_char (o : oracles) : forall (ps : list (string * property)) (r0 : raw) k,
  nodup_str (map fst ps) = true ->
  alookup k (fold_left (fun a np =>
                          if amem (fst np) a then a
                          else match p_default (snd np) with
                               | Some txt => match decode_default o (snd np) txt with
                                             | Some d => (a ++ [(fst np, d)])%list
                                             | None => a
                                             end
                               | None => a
                               end) ps r0)
  = match alookup k r0 with Some d => Some d | None => dfl o ps k end.
Proof.
  induction ps as [|[n p] t IH]; intros r0 k Hnd; cbn [fold_left].
  - unfold dfl. cbn. destruct (alookup k r0); reflexivity.
  - cbn [map fst] in Hnd. cbn in Hnd. apply andb_prop in Hnd as [Hnin Hnd]. apply negb_true_iff in Hnin.
    rewrite (IH _ k Hnd). cbn [fst snd].
    unfold dfl at 2. cbn [alookup].
    destruct (String.eqb k n) eqn:E.
    + apply String.eqb_eq in E. subst k.
      assert (Hdt : dfl o t n = None) by (unfold dfl; now rewrite (alookup_none_in n t Hnin)).
      rewrite Hdt.
      destruct (amem n r0) eqn:Em.
      * unfold amem in Em. destruct (alookup n r0); [reflexivity | discriminate].
      * assert (Hn0 : alookup n r0 = None) by (unfold amem in Em; destruct (alookup n r0); [discriminate | reflexivity]).
        unfold dec_default.
        destruct (p_default p) as [txt|]; [destruct (decode_default o p txt) as [d|]|].
        -- rewrite alookup_app_one, Hn0, String.eqb_refl. reflexivity.
        -- rewrite Hn0. reflexivity.
        -- rewrite Hn0. reflexivity.
    + fold (dfl o t k).
      destruct (amem n r0); [reflexivity|].
      destruct (p_default p) as [txt|]; [destruct (decode_default o p txt) as [d|]|]; try reflexivity.
      rewrite alookup_app_one, E. destruct (alookup k r0); reflexivity.
Qed.

Lemma forallb_ext_in' {A} (p q : A -> bool) l : (forall x, In x l -> p x = q x) -> forallb p l = forallb q l.
Proof.
  induction l as [|x t IH]; intros H; cbn; [reflexivity|].
  rewrite (H x (or_introl eq_refl)), IH; [reflexivity|]. intros; apply H; now right.
Qed.

Lemma amem_keys {A} k (l : list (string * A)) : amem k l = str_in k (map fst l).
Proof.
  unfold amem. induction l as [|[k' v'] t IH]; cbn; [reflexivity|].
  destruct (String.eqb k k'); [reflexivity | exact IH].
Qed.

Lemma raw_set_keys n x (a : raw) : amem n a = true -> map fst (raw_set n x a) = map fst a.
Proof.
  intros Hn. unfold raw_set. rewrite Hn. clear Hn.
  induction a as [|[k' v'] t IH]; cbn; [reflexivity|].
  destruct (String.eqb k' n) eqn:E; cbn; rewrite IH; [|reflexivity].
  apply String.eqb_eq in E. now subst.
Qed.

Lemma amem_raw_set k n x (a : raw) : amem n a = true -> amem k (raw_set n x a) = amem k a.
Proof. intros Hn. now rewrite !amem_keys, (raw_set_keys n x a Hn). Qed.

(* the fold that unserializes every present property: verdict and key set, independent of the order *)
Lemma props_fold_char (G : string * property -> gval -> outcome gval) :
  forall (ps : list (string * property)) (a0 : raw),
  nodup_str (map fst ps) = true ->
  let F := fold_left (fun acc np =>
                        a <- acc ;;
                        match alookup (fst np) a with
                        | Some d0 => x <- seg (fst np) (G np d0) ;; Ok (raw_set (fst np) x a)
                        | None => Ok a
                        end) ps (Ok a0) in
  is_ok F = forallb (fun np => match alookup (fst np) a0 with Some d0 => is_ok (G np d0) | None => true end) ps /\
  (forall r2, F = Ok r2 -> forall k, amem k r2 = amem k a0).
Proof.
  induction ps as [|np t IH]; intros a0 Hnd; cbn zeta.
  - cbn. split; [reflexivity|]. intros r2 H k. now inversion H.
  - cbn [map] in Hnd. apply nodup_str_in in Hnd as [Hnin Hnd].
    cbn [fold_left bind forallb].
    destruct (alookup (fst np) a0) as [d0|] eqn:El.
    + destruct (G np d0) as [x| | |] eqn:EG; cbn [seg map_err bind is_ok andb].
      * destruct (IH (raw_set (fst np) x a0) Hnd) as [I1 I2]. cbn zeta in I1, I2. split.
        -- rewrite I1. apply forallb_ext_in'. intros np2 Hin2.
           rewrite (alookup_raw_set_other (fst np) (fst np2)); [reflexivity|].
           intros Heq. rewrite Heq in Hnin. rewrite (str_in_In (fst np2) (map fst t)) in Hnin; [discriminate | now apply in_map].
        -- intros r2 H k. rewrite (I2 r2 H k). apply amem_raw_set. unfold amem. now rewrite El.
      * split; [apply fold_not_ok; [intros acc y Ha; destruct acc; cbn in *; congruence | reflexivity]|].
        intros r2 H. exfalso. apply (f_equal is_ok) in H. cbn [is_ok] in H.
        rewrite fold_not_ok in H; [discriminate | intros acc y Ha; destruct acc; cbn in *; congruence | reflexivity].
      * split; [apply fold_not_ok; [intros acc y Ha; destruct acc; cbn in *; congruence | reflexivity]|].
        intros r2 H. exfalso. apply (f_equal is_ok) in H. cbn [is_ok] in H.
        rewrite fold_not_ok in H; [discriminate | intros acc y Ha; destruct acc; cbn in *; congruence | reflexivity].
      * split; [apply fold_not_ok; [intros acc y Ha; destruct acc; cbn in *; congruence | reflexivity]|].
        intros r2 H. exfalso. apply (f_equal is_ok) in H. cbn [is_ok] in H.
        rewrite fold_not_ok in H; [discriminate | intros acc y Ha; destruct acc; cbn in *; congruence | reflexivity].
    + destruct (IH a0 Hnd) as [I1 I2]. cbn zeta in I1, I2. split; [exact I1 | exact I2].
Qed.

Lemma check_rules_rel ps ps1 ps' set set' :
  Forall2 (fun a b => fst a = fst b /\ rel_prop (snd a) (snd b)) ps ps1 -> Permutation ps1 ps' ->
  (forall k, set k = set' k) ->
  is_ok (check_rules ps set) = is_ok (check_rules ps' set').
Proof.
  intros HF HP Hs. unfold check_rules. rewrite !is_ok_forM.
  rewrite <- (forallb_perm _ ps1 ps' HP). apply (forallb_f2 _ _ _ _ _ HF).
  intros [n p] [n' p'] _ [Hk Hr]. cbn in *. subst n'. inversion Hr; subst.
  now rewrite (check_prop_rules_ext set set' n _ Hs).
Qed.

(* ---------- environments ---------- *)
Lemma rel_env_enter e e' os os1 os' :
  rel_env e e' ->
  Forall2 (fun a b => fst a = fst b /\ rel_schema (snd a) (snd b)) os os1 -> Permutation os1 os' ->
  rel_env (env_enter e os) (env_enter e' os').
Proof. intros (_ & H2 & H3) HF HP. split; [exists os1; auto|]. split; assumption. Qed.

Lemma rel_resolve e e' id ns :
  rel_env e e' -> nodup_env e = true ->
  match resolve e id ns, resolve e' id ns with
  | Some (o, e2), Some (o', e2') => rel_schema o o' /\ rel_env e2 e2' /\ nodup_env e2 = true
  | None, None => True
  | _, _ => False
  end.
Proof.
  intros He Hnd. pose proof He as ((t1 & HF & HP) & Hx & Hor).
  unfold nodup_env in Hnd. apply andb_prop in Hnd as [Hns Hnx].
  unfold resolve. destruct (String.eqb ns "").
  - pose proof (rel_alookup rel_schema id _ _ _ Hns HF HP) as H.
    destruct (alookup id (e_self e)), (alookup id (e_self e')); try exact H; try contradiction.
    split; [exact H|]. split; [exact He|]. unfold nodup_env. now rewrite Hns, Hnx.
  - pose proof (f2_alookup rel_tab ns _ _ Hx) as H.
    destruct (alookup ns (e_ext e)) as [tab|] eqn:E1, (alookup ns (e_ext e')) as [tab'|]; try exact H; try contradiction.
    destruct H as (u1 & HF2 & HP2).
    assert (Hnt : nodup_str (map fst tab) = true).
    { rewrite forallb_forall in Hnx. apply alookup_in in E1. exact (Hnx _ E1). }
    pose proof (rel_alookup rel_schema id _ _ _ Hnt HF2 HP2) as H.
    destruct (alookup id tab), (alookup id tab'); try exact H; try contradiction.
    split; [exact H|]. split.
    + split; [exists u1; auto|]. split; assumption.
    + unfold nodup_env. cbn [env_enter e_self e_ext]. now rewrite Hnt, Hnx.
Qed.

(* ---------- Unserialize ---------- *)
Lemma ok_two_binds {A B C} (o1 : outcome A) (o2 : outcome B) (h : A -> B -> C) :
  is_ok (x <- o1 ;; y <- o2 ;; Ok (h x y)) = is_ok o1 && is_ok o2.
Proof. destruct o1, o2; reflexivity. Qed.

Lemma ok_then_ok {A B} (o : outcome A) (k : A -> outcome B) :
  (forall a, is_ok (k a) = true) -> is_ok (bind o k) = is_ok o.
Proof. intros H. destruct o; cbn; auto. Qed.

Lemma f2_len_perm {A} (R : A -> A -> Prop) (l l1 l' : list A) :
  Forall2 R l l1 -> Permutation l1 l' -> List.length l' = List.length l.
Proof.
  intros HF HP. rewrite <- (Permutation_length HP). symmetry. clear HP.
  induction HF as [|a b l0 l2 _ _ IH]; simpl; [reflexivity | now f_equal].
Qed.

Lemma obj_verdict (ps : list (string * property)) (F : outcome raw) (a0 : raw) (h : raw -> gval) :
  (forall r2, F = Ok r2 -> forall k, amem k r2 = amem k a0) ->
  is_ok (r2 <- F ;; _ <- check_rules ps (fun k => amem k r2) ;; Ok (h r2))
  = is_ok F && is_ok (check_rules ps (fun k => amem k a0)).
Proof.
  intros H. destruct F as [r2| | |]; cbn [bind is_ok andb]; try reflexivity.
  rewrite ok_then_ok by reflexivity.
  exact (check_rules_order ps ps _ (fun k => amem k a0) (Permutation_refl _) (H r2 eq_refl)).
Qed.

Lemma rel_dec_default o p p' : rel_prop p p' -> dec_default o p = dec_default o p'.
Proof.
  intros H. inversion H; subst. unfold dec_default, decode_default. cbn [p_default p_type].
  destruct df as [txt|]; [|reflexivity]. now rewrite (rel_type_id _ _ H0).
Qed.

Lemma rel_dfl o ps ps1 ps' k :
  nodup_str (map fst ps) = true ->
  Forall2 (fun a b => fst a = fst b /\ rel_prop (snd a) (snd b)) ps ps1 -> Permutation ps1 ps' ->
  dfl o ps k = dfl o ps' k.
Proof.
  intros Hnd HF HP. unfold dfl. pose proof (rel_alookup rel_prop k ps ps1 ps' Hnd HF HP) as H.
  destruct (alookup k ps), (alookup k ps'); try contradiction; [now apply rel_dec_default | reflexivity].
Qed.

Section Unser.
Variable words : list (string * bool).
Variable pu : units -> string -> option fl.
Notation unser := (unser words pu).
Notation WF := (Inv wf_local).

Lemma wf_object_nodup e id u ps : WF e (SObject id u ps) -> nodup_str (map fst ps) = true.
Proof. intros H. apply inv_here in H. cbn in H. apply andb_prop in H. tauto. Qed.

Lemma wf_oneof_nodup e ts ik f i : WF e (SOneOf ts ik f i) -> nodup_by okey_eqb (map fst ts) = true.
Proof. intros H. apply inv_here in H. cbn in H. apply andb_prop in H. tauto. Qed.

Lemma wf_scope_nodup e os root : WF e (SScope os root) -> nodup_str (map fst os) = true.
Proof. intros H. apply inv_here in H. cbn in H. apply andb_prop in H as [H _]. apply andb_prop in H. tauto. Qed.

Lemma unser_order : forall f e e' s s' v,
  rel_env e e' -> nodup_env e = true -> rel_schema s s' -> WF e s ->
  is_ok (unser f e s v) = is_ok (unser f e' s' v).
Proof.
  induction f as [|f IH]; intros e e' s s' val He Hnd Hs Hwf; [reflexivity|].
  rewrite !(unser_S words pu).
  destruct Hs; cbv beta iota zeta.
  - reflexivity.
  - reflexivity.
  - reflexivity.
  - reflexivity.
  - destruct He as (_ & _ & Hor). now rewrite Hor.
  - reflexivity.
  - unfold enum_int_unser. destruct (int_mapper u val); [|reflexivity]. now rewrite (enum_int_mem_perm _ _ z H).
  - unfold enum_str_unser. destruct (string_mapper val); [|reflexivity]. now rewrite (enum_str_mem_perm _ _ s H).
  - (* list *)
    destruct val; try reflexivity.
    match goal with |- context [size_ok mn mx ?z] => destruct (size_ok mn mx z) end; [|reflexivity].
    rewrite !ok_then_ok by reflexivity. apply ok_mapMi_cong. intros j x. unfold seg. rewrite !ok_map_err.
    apply IH; auto; try exact (inv_list _ _ _ _ _ Hwf).
  - (* map *)
    destruct val; try reflexivity.
    match goal with |- context [size_ok mn mx ?z] => destruct (size_ok mn mx z) end; [|reflexivity].
    rewrite !ok_then_ok by reflexivity.
    rewrite (ok_fold _ (fun kv => is_ok (unser f e k (fst kv)) && is_ok (unser f e v (snd kv)))).
    + rewrite (ok_fold _ (fun kv => is_ok (unser f e' k' (fst kv)) && is_ok (unser f e' v' (snd kv)))).
      * apply forallb_ext'. intros kv.
        rewrite (IH e e' k k' (fst kv) He Hnd Hs1 (inv_map_k _ _ _ _ _ _ Hwf)).
        now rewrite (IH e e' v v' (snd kv) He Hnd Hs2 (inv_map_v _ _ _ _ _ _ Hwf)).
      * intros a x. cbn [bind]. unfold seg. rewrite ok_two_binds, !ok_map_err. reflexivity.
      * intros acc x Ha. destruct acc; cbn in *; congruence.
    + intros a x. cbn [bind]. unfold seg. rewrite ok_two_binds, !ok_map_err. reflexivity.
    + intros acc x Ha. destruct acc; cbn in *; congruence.
  - (* object *)
    unfold property in *.
    pose proof (wf_object_nodup _ _ _ _ Hwf) as Hnps.
    assert (Hnps' : nodup_str (map fst ps') = true) by exact (eq_trans (rel_nodup rel_prop ps ps1 ps' H H0) Hnps).
    assert (Hor : e_or e' = e_or e) by (destruct He as (_ & _ & Hor); now rewrite Hor).
    destruct val.
    7: { (* the input is a map *)
      match goal with
      | |- is_ok (bind ?X _) = is_ok (bind ?Y _) => assert (E0 : X = Y)
      end.
      { apply fold_cong; [reflexivity|]. intros acc kv. apply bind_cong; [reflexivity|]. intros a.
        destruct (fst kv); try reflexivity. destruct t0; try reflexivity.
        match goal with |- context [amem ?k0 ps] =>
          assert (Ha : amem k0 ps = amem k0 ps') by exact (rel_amem rel_prop k0 ps ps1 ps' Hnps H H0); rewrite Ha
        end.
        reflexivity. }
      rewrite E0. clear E0.
      match goal with |- is_ok (bind ?Y _) = _ => destruct Y as [r0| | |] end; cbn [bind]; try reflexivity.
      set (G := fun (np : string * property) (d0 : gval) =>
                  if p_disabled (snd np) then @Err gval (cerr EDisabled) else unser f e (p_type (snd np)) d0).
      set (G' := fun (np : string * property) (d0 : gval) =>
                  if p_disabled (snd np) then @Err gval (cerr EDisabled) else unser f e' (p_type (snd np)) d0).
      match goal with
      | |- is_ok (bind (fold_left _ ps (Ok ?r1)) _) = is_ok (bind (fold_left _ ps' (Ok ?r1')) _) =>
          set (R1 := r1); set (R1' := r1')
      end.
      destruct (props_fold_char G ps R1 Hnps) as [C1 C2]. cbn zeta in C1, C2.
      destruct (props_fold_char G' ps' R1' Hnps') as [C1' C2']. cbn zeta in C1', C2'.
      etransitivity; [exact (obj_verdict ps _ R1 raw_to_val C2)|].
      symmetry. etransitivity; [exact (obj_verdict ps' _ R1' raw_to_val C2')|]. symmetry.
      assert (HR : forall k, alookup k R1 = alookup k R1').
      { intros k. unfold R1, R1'.
        etransitivity; [exact (r1_char (e_or e) ps r0 k Hnps)|].
        symmetry. etransitivity; [rewrite Hor; exact (r1_char (e_or e) ps' r0 k Hnps')|]. symmetry.
        now rewrite (rel_dfl (e_or e) ps ps1 ps' k Hnps H H0). }
      f_equal.
      - etransitivity; [exact C1|]. symmetry. etransitivity; [exact C1'|]. symmetry.
        rewrite <- (forallb_perm _ ps1 ps' H0). apply (forallb_f2 _ _ _ _ _ H).
        intros [n p] [n' p'] Hin [Hk Hr]. cbn [fst snd] in *. subst n'. rewrite <- (HR n).
        destruct (alookup n R1) as [d0|]; [|reflexivity].
        unfold G, G'. cbn [snd]. inversion Hr; subst. cbn [p_disabled p_type].
        destruct dis; [reflexivity|]. apply IH; auto.
        exact (inv_prop _ _ _ _ _ (n, _) Hwf Hin).
      - apply (check_rules_rel ps ps1 ps' _ _ H H0). intros k. unfold amem. now rewrite (HR k). }
    all: (* a lone non-map value: shorthand for the single property *)
      destruct ps as [|[pn0 pp0] [|pq0 ptl0]];
      [ inversion H; subst; apply Permutation_nil in H0; subst; reflexivity
      | inversion H as [|? [pn1 pp1] ? ? [Hk Hr] HF']; subst; inversion HF'; subst; cbn [fst snd] in *; subst pn1;
        apply Permutation_length_1_inv in H0; subst ps';
        inversion Hr; subst; cbn [p_disabled p_type];
        apply ok_bind2;
        [ unfold seg; rewrite !ok_map_err; destruct dis; [reflexivity|];
          apply IH; auto; exact (inv_prop _ _ _ _ _ (pn0, _) Hwf (or_introl eq_refl))
        | intros; rewrite !ok_then_ok by reflexivity; reflexivity ]
      | pose proof (f2_len_perm _ _ _ _ H H0) as Hlen; destruct ps' as [|[a1 a2] [|b1 c1]]; simpl in Hlen; try discriminate; reflexivity ].
  - (* one-of *)
    pose proof (wf_oneof_nodup _ _ _ _ _ Hwf) as Hnts.
    repeat match goal with
           | |- is_ok (match ?d with _ => _ end) = is_ok (match ?d with _ => _ end) => destruct d; try reflexivity
           | |- is_ok (if ?d then _ else _) = is_ok (if ?d then _ else _) => destruct d; try reflexivity
           end.
    all: match goal with
         | |- is_ok (match find (fun ks => okey_eqb (fst ks) ?key) _ with _ => _ end) = _ =>
             pose proof (rel_find key _ _ _ Hnts H H0) as Hf;
             destruct (find (fun ks : okey * schema => okey_eqb (fst ks) key) ts) as [[k1 m]|] eqn:E1;
             destruct (find (fun ks : okey * schema => okey_eqb (fst ks) key) ts') as [[k2 m']|];
             try contradiction; [|reflexivity]
         end.
    all: apply find_some in E1 as [E1 _].
    all: rewrite !ok_then_ok by (intros x; destruct (is_str_any_map x); [destruct i|]; reflexivity).
    all: apply IH; auto; exact (inv_member _ _ _ _ _ _ (k1, m) Hwf E1).
  - (* reference *)
    pose proof (rel_resolve e e' id ns He Hnd) as Hr.
    destruct (resolve e id ns) as [[o e2]|] eqn:R1, (resolve e' id ns) as [[o' e2']|]; try contradiction; [|reflexivity].
    destruct Hr as (Ho & He2 & Hn2). apply IH; auto. exact (inv_ref _ _ _ _ _ _ _ Hwf R1).
  - (* scope *)
    pose proof (wf_scope_nodup _ _ _ Hwf) as Hnos.
    pose proof (rel_alookup rel_schema root os os1 os' Hnos H H0) as Hl.
    destruct (alookup root os) as [o|] eqn:R1, (alookup root os') as [o'|]; try contradiction; [|reflexivity].
    apply IH.
    + now apply (rel_env_enter e e' os os1 os').
    + unfold nodup_env in *. cbn [env_enter e_self e_ext]. apply andb_prop in Hnd as [_ Hx]. now rewrite Hnos, Hx.
    + exact Hl.
    + exact (inv_scope _ _ _ _ _ Hwf R1).
Qed.

End Unser.

(* the relation is reflexive: in particular the theorem covers one schema under a permuted environment *)
Lemma perm_schema_refl : forall s, perm_schema s s.
Proof.
  induction s using schema_ind'.
  - destruct s; try discriminate; constructor; try apply Permutation_refl.
  - now constructor.
  - now constructor.
  - apply (ps_object id u props props props); [|apply Permutation_refl].
    induction H as [|[n p] t Hp _ IH]; constructor; [|exact IH]. split; [reflexivity|].
    destruct p. cbn in Hp. now constructor.
  - apply (ps_oneof types types types); [|apply Permutation_refl].
    induction H as [|km t Hp _ IH]; constructor; [|exact IH]. split; [reflexivity | exact Hp].
  - apply (ps_scope objs objs objs); [|apply Permutation_refl].
    induction H as [|io t Hp _ IH]; constructor; [|exact IH]. split; [reflexivity | exact Hp].
Qed.

Lemma unser_schema_order words pu : forall f e e' s s' v,
  perm_env e e' -> nodup_env e = true -> perm_schema s s' -> wf_schema e s = true ->
  is_ok (unser words pu f e s v) = is_ok (unser words pu f e' s' v).
Proof.
  intros f e e' s s' v He Hnd Hs Hwf. apply unser_order; auto.
  unfold wf_schema in Hwf. apply andb_prop in Hwf. exact Hwf.
Qed.
