(* Proofs/C09Describe.v — lemmas for C09 (self-description is a fixed point). *)
From Coq Require Import Lia.
From Verif Require Import Base.Prelude Base.Str Base.Float Base.GoVal
  Schema.Regex Schema.Units Schema.Syntax Schema.Ops Schema.Describe Proofs.DescribeBase.
Open Scope string_scope.

Lemma map_ext_F {A B} (f g : A -> B) l : Forall (fun x => f x = g x) l -> map f l = map g l.
Proof. induction 1 as [|x tl Hx _ IH]; cbn; [reflexivity|]. rewrite Hx, IH. reflexivity. Qed.

(* peel equal constructors until the two mapped lists are reached *)
Ltac to_map := repeat match goal with |- map _ _ = map _ _ => fail 1 | |- _ => f_equal end.

(* ---------- describe does not see what `erase` removes ---------- *)
Lemma tid_erase s : tid_of (erase s) = tid_of s.
Proof. destruct s; reflexivity. Qed.

Lemma d_fields_erase : forall s, d_fields (erase s) = d_fields s.
Proof.
  apply (schema_ind' (fun s => d_fields (erase s) = d_fields s)); intros; cbn [erase d_fields]; try reflexivity.
  - rewrite H, tid_erase. reflexivity.
  - rewrite H, H0, !tid_erase. reflexivity.
  - rewrite map_map. to_map. apply map_ext_F. eapply Forall_impl; [|exact H].
    intros [n p] Hp. destruct p. cbn in Hp |- *. rewrite Hp, tid_erase. reflexivity.
  - rewrite map_map. to_map. apply map_ext_F. eapply Forall_impl; [|exact H].
    intros [k m] Hm. cbn in Hm |- *. rewrite Hm, tid_erase. reflexivity.
  - rewrite map_map. to_map. apply map_ext_F. eapply Forall_impl; [|exact H].
    intros [i o] Ho. cbn in Ho |- *. rewrite Ho. reflexivity.
Qed.

Lemma describe_erase s : describe (erase s) = describe s.
Proof. unfold describe. rewrite d_fields_erase. reflexivity. Qed.

Lemma erase_idem : forall s, erase (erase s) = erase s.
Proof.
  apply (schema_ind' (fun s => erase (erase s) = erase s)); intros; cbn [erase]; try reflexivity.
  - rewrite H. reflexivity.
  - rewrite H, H0. reflexivity.
  - rewrite map_map. to_map. apply map_ext_F. eapply Forall_impl; [|exact H].
    intros [n p] Hp. destruct p. cbn in Hp |- *. rewrite Hp. reflexivity.
  - rewrite map_map. to_map. apply map_ext_F. eapply Forall_impl; [|exact H].
    intros [k m] Hm. cbn in Hm |- *. rewrite Hm. reflexivity.
  - rewrite map_map. to_map. apply map_ext_F. eapply Forall_impl; [|exact H].
    intros [i o] Ho. cbn in Ho |- *. rewrite Ho. reflexivity.
Qed.
