(* Proofs/C12Value2.v — order independence on the VALUE side for Validate, Serialize and data-mode
   ValidateCompatibility (with the one-of member lookup they share): the accept / reject decision does not
   depend on the order of the entries of any map of the argument, as long as no two keys of one map read the
   same.  Continues Proofs/C12Value.v (Unserialize). *)
From Coq Require Import Permutation Lia Bool.
From Verif Require Import Base.Prelude Base.Str Base.Float Base.GoVal
  Schema.Regex Schema.Units Schema.Syntax Schema.Ops Schema.Wf Schema.Perm
  Proofs.OpsEq Proofs.C04Inv Proofs.C04NoPanic Proofs.C04Term Proofs.C12Order Proofs.C12Lookup Proofs.C12History
  Proofs.C12Schema Proofs.C12Value.
Open Scope string_scope.

(* ---------- leaves ---------- *)
Lemma kind_of_pv x y : perm_val x y -> kind_of x = kind_of y.
Proof. apply pv_leaf; reflexivity. Qed.

Lemma f2_map_eq {A B} (Q : A -> A -> Prop) (g : A -> B) l l' :
  Forall2 Q l l' -> (forall a b, Q a b -> g a = g b) -> map g l = map g l'.
Proof. induction 1 as [|a b l l' Hq _ IH]; intros H; cbn; [reflexivity|]. now rewrite (H a b Hq), IH. Qed.

Lemma f2_flat_map_eq {A B} (Q : A -> A -> Prop) (g : A -> list B) l l' :
  Forall2 Q l l' -> (forall a b, Q a b -> g a = g b) -> flat_map g l = flat_map g l'.
Proof. induction 1 as [|a b l l' Hq _ IH]; intros H; cbn; [reflexivity|]. now rewrite (H a b Hq), IH. Qed.

Lemma conv_string_pv x y : perm_val x y -> conv_string x = conv_string y.
Proof.
  intros H. destruct H as [v | t b l l' HF | t b kvs kvs1 kvs' HF HP | t x x' Hx | t fs fs' HF]; try reflexivity.
  cbn [conv_string].
  rewrite (f2_map_eq perm_val (fun x => match x with VInt _ z => chrz z | _ => chrz 0 end) l l' HF)
    by (exact (pv_leaf (fun x => match x with VInt _ z => chrz z | _ => chrz 0 end)
                 (fun _ _ _ _ => eq_refl) (fun _ _ _ _ => eq_refl) (fun _ _ _ => eq_refl) (fun _ _ _ => eq_refl))).
  rewrite (f2_flat_map_eq perm_val (fun x => match x with VInt _ z => utf8_of_rune z | _ => [] end) l l' HF)
    by (exact (pv_leaf (fun x => match x with VInt _ z => utf8_of_rune z | _ => [] end)
                 (fun _ _ _ _ => eq_refl) (fun _ _ _ _ => eq_refl) (fun _ _ _ => eq_refl) (fun _ _ _ => eq_refl))).
  reflexivity.
Qed.

Lemma f2_refl {A} (R : A -> A -> Prop) l : (forall a, R a a) -> Forall2 R l l.
Proof. intros H. induction l; constructor; auto. Qed.

Lemma raw_of_entries_by kvs : raw_of_entries kvs = raw_by sel_str kvs.
Proof.
  induction kvs as [|[k0 v0] t IH]; [reflexivity|].
  rewrite raw_by_cons. unfold raw_of_entries in *. cbn [flat_map]. rewrite IH.
  destruct k0; reflexivity.
Qed.

(* ---------- any over map[any]any: keys int64 or string, all of the kind of the FIRST key ---------- *)
Definition kc (k : kind) : option bool :=
  match k with KInt I64 => Some true | KString => Some false | _ => None end.

Definition W (okc : gval * gval -> bool) (c : bool) (l : list (gval * gval)) : bool :=
  forallb (fun kv => match kc (kind_of (fst kv)) with Some a => Bool.eqb c a && okc kv | None => false end) l.

Lemma anymap_forM (c : gval -> outcome unit) k0 v0 t :
  is_ok (forM_ (fun kv => match kind_of (fst kv) with
                           | KInt I64 | KString =>
                               if match kind_of k0, kind_of (fst kv) with
                                  | KInt I64, KInt I64 | KString, KString => true
                                  | _, _ => false end
                               then rewrap true (c (snd kv))
                               else Err (cerr EKey)
                           | _ => Err (cerr EKey)
                           end) ((k0, v0) :: t))
  = W (fun kv => is_ok (c (snd kv))) true ((k0, v0) :: t) || W (fun kv => is_ok (c (snd kv))) false ((k0, v0) :: t).
Proof.
  rewrite is_ok_forM.
  etransitivity.
  { apply (forallb_ext' _ (fun kv => match kc (kind_of (fst kv)), kc (kind_of k0) with
                                     | Some a, Some b => Bool.eqb b a && is_ok (c (snd kv))
                                     | _, _ => false
                                     end)).
    intros kv. cbv beta. unfold kc.
    destruct (kind_of (fst kv)) as [| |i| | | | | | | | |]; try reflexivity; try (destruct i; try reflexivity);
      destruct (kind_of k0) as [| |j| | | | | | | | |]; try reflexivity; try (destruct j; try reflexivity);
      destruct (c (snd kv)); reflexivity. }
  unfold W. cbn [forallb fst].
  destruct (kc (kind_of k0)) as [[|]|]; cbv beta iota; cbn [Bool.eqb andb orb];
    rewrite ?orb_false_r; reflexivity.
Qed.

Lemma W_rel (okc : gval * gval -> bool) c l l1 l' :
  Forall2 (fun a b => perm_val (fst a) (fst b) /\ Qv (snd a) (snd b)) l l1 -> Permutation l1 l' ->
  (forall a b, In a l -> perm_val (fst a) (fst b) /\ Qv (snd a) (snd b) -> okc a = okc b) ->
  W okc c l = W okc c l'.
Proof.
  intros HF HP H. unfold W. rewrite <- (forallb_perm _ l1 l' HP). apply (forallb_f2 _ _ _ _ _ HF).
  intros a b Hin Hab. rewrite (H a b Hin Hab). destruct Hab as [Hk _]. now rewrite (kind_of_pv _ _ Hk).
Qed.

(* what two runs of the one-of member lookup on related values have in common *)
Definition ofv_rel (o o' : outcome (okey * schema * gval)) : Prop :=
  match o, o' with
  | Ok (k, m, d), Ok (k', m', d') => k = k' /\ m = m' /\ perm_val d d' /\ hkc d = false
  | Ok _, _ | _, Ok _ => False
  | _, _ => True
  end.

Ltac scrut_ofv :=
  repeat match goal with
         | |- ofv_rel (match ?d with _ => _ end) (match ?d with _ => _ end) => destruct d; try exact I
         | |- ofv_rel (if ?d then _ else _) (if ?d then _ else _) => destruct d; try exact I
         end.

Section Value2.
Variable words : list (string * bool).
Variable pu : units -> string -> option fl.
Notation unser := (unser words pu).
Notation validate := (validate words pu).
Notation serialize := (serialize words pu).
Notation compat := (compat words pu).
Notation oneof_find := (oneof_find words pu).
Notation WF := (Inv wf_local).

Definition val_at (f : nat) : Prop :=
  forall e,
    (forall s v v', perm_val v v' -> hkc v = false -> WF e s ->
       is_ok (validate f e s v) = is_ok (validate f e s v')) /\
    (forall ts ik fld i v v', perm_val v v' -> hkc v = false -> WF e (SOneOf ts ik fld i) ->
       ofv_rel (oneof_find f e ts ik fld i v) (oneof_find f e ts ik fld i v')) /\
    (forall s v v', perm_val v v' -> hkc v = false -> WF e s ->
       is_ok (serialize f e s v) = is_ok (serialize f e s v')) /\
    (forall s v v', perm_val v v' -> hkc v = false -> WF e s ->
       is_ok (compat f e s v) = is_ok (compat f e s v')).

Lemma val_all : forall f, val_at f.
Proof.
  induction f as [|f IH]; intros e.
  { repeat split; intros; try reflexivity; exact I. }
  destruct (IH e) as (IHv & IHo & IHs & IHc).
  pose proof (unser_value words pu f) as IHu.
  (* ---------- the one-of member lookup ---------- *)
  assert (HOmap : forall ts ik fld inl t b kvs kvs1 kvs',
             Forall2 (fun a b0 => perm_val (fst a) (fst b0) /\ perm_val (snd a) (snd b0)) kvs kvs1 -> Permutation kvs1 kvs' ->
             hkc (VMap t b kvs) = false -> WF e (SOneOf ts ik fld inl) ->
             ofv_rel (oneof_find (S f) e ts ik fld inl (VMap t b kvs)) (oneof_find (S f) e ts ik fld inl (VMap t b kvs'))).
  { intros ts ik fld inl t b kvs kvs1 kvs' HF HP Hnc Hwf.
    rewrite !(oneof_find_S words pu). cbv beta iota zeta. cbn [kind_of is_str_any_map].
    destruct (nc_map _ _ _ Hnc) as [Hdup Hsub].
    assert (HF2 : Forall2 (fun a b0 => perm_val (fst a) (fst b0) /\ Qv (snd a) (snd b0)) kvs kvs1)
      by (apply f2_qv; [exact HF|]; intros a Hin; now destruct (Hsub a Hin)).
    assert (Hcl : perm_val (VMap t_str_map false (if inl then kvs else smap_del fld kvs))
                           (VMap t_str_map false (if inl then kvs' else smap_del fld kvs'))).
    { destruct inl; [exact (pv_map _ _ _ _ _ HF HP)|].
      rewrite !smap_del_filter. apply (pv_map _ _ _ (filter (keep_key fld) kvs1)).
      - apply f2_filter; [exact HF|]. intros a b0 [Hk _]. unfold keep_key. now rewrite (sel_str_leaf _ _ Hk).
      - now apply perm_filter. }
    assert (Hncl : hkc (VMap t_str_map false (if inl then kvs else smap_del fld kvs)) = false).
    { destruct inl; [exact Hnc|]. rewrite smap_del_filter. exact (nc_filter _ _ _ _ _ _ Hnc). }
    destruct (kind_of_type t); try exact I.
    destruct (gtype_eqb t t_str_map); [|exact I]. cbv beta iota.
    rewrite !smap_get_raw.
    pose proof (raw_by_lookup sel_str sel_str_sound sel_str_leaf Qv kvs kvs1 kvs' fld Hdup HF2 HP) as HL.
    destruct (alookup fld (raw_by sel_str kvs)) as [d0|], (alookup fld (raw_by sel_str kvs')) as [d0'|];
      try contradiction; [|exact I].
    destruct HL as [Hd _].
    destruct Hd as [dd | ? ? ? ? ? | ? ? ? ? ? ? ? | ? ? ? ? | ? ? ? ?]; try (destruct ik; exact I).
    destruct dd; try exact I; destruct ik; try exact I.
    all: cbv beta iota.
    all: repeat (match goal with
                 | |- ofv_rel (match (match ?x with _ => _ end) with _ => _ end) _ => destruct x; cbv beta iota; try exact I
                 end).
    all: match goal with
         | |- ofv_rel (match find ?p ?tt with _ => _ end) _ => destruct (find p tt) as [[k1 m]|] eqn:E1; [|exact I]
         end.
    all: cbv beta iota.
    all: apply find_some in E1 as [E1 _].
    all: match goal with
         | |- ofv_rel (bind (rewrap_path (Ops.compat _ _ _ _ _ ?cl)) _) (bind (rewrap_path (Ops.compat _ _ _ _ _ ?cl')) _) =>
             assert (Hc : is_ok (compat f e m cl) = is_ok (compat f e m cl'))
               by (apply IHc; [exact Hcl | exact Hncl | exact (inv_member _ _ _ _ _ _ (k1, m) Hwf E1)]);
             destruct (compat f e m cl), (compat f e m cl'); cbn in Hc; try discriminate;
             cbn -[has_key_collision]; try exact I; repeat split; assumption
         end. }
  assert (HO : forall ts ik fld inl v v', perm_val v v' -> hkc v = false -> WF e (SOneOf ts ik fld inl) ->
             ofv_rel (oneof_find (S f) e ts ik fld inl v) (oneof_find (S f) e ts ik fld inl v')).
  { intros ts ik fld inl v v' Hv Hnc Hwf.
    destruct Hv as [v | t b l l' HF | t b kvs kvs1 kvs' HF HP | t x x' Hx | t fs fs' HF].
    - destruct v.
      7: { match goal with |- ofv_rel (Ops.oneof_find _ _ _ _ _ _ _ _ (VMap ?t0 ?b0 ?l0)) _ =>
             apply (HOmap ts ik fld inl t0 b0 l0 l0); [apply f2_refl; intros; split; apply pv_refl | apply Permutation_refl | exact Hnc | exact Hwf]
           end. }
      all: rewrite !(oneof_find_S words pu); cbv beta iota zeta; cbn [kind_of is_str_any_map]; try exact I; scrut_ofv.
    - rewrite !(oneof_find_S words pu); cbv beta iota zeta; cbn [kind_of is_str_any_map]; scrut_ofv.
    - now apply (HOmap ts ik fld inl t b kvs kvs1 kvs').
    - rewrite !(oneof_find_S words pu); cbv beta iota zeta; cbn [kind_of is_str_any_map]; scrut_ofv.
    - rewrite !(oneof_find_S words pu); cbv beta iota zeta; cbn [kind_of is_str_any_map]; scrut_ofv. }
  (* ---------- validate ---------- *)
  assert (HV : forall s v v', perm_val v v' -> hkc v = false -> WF e s ->
             is_ok (validate (S f) e s v) = is_ok (validate (S f) e s v')).
  { intros s v v' Hv Hnc Hwf. rewrite !(validate_S words pu).
    destruct s as [mn mx u|mn mx u|mn mx pat| | | |vals u|named vals|it mn mx|ks vs mn mx|id un ps|ts ik fld inl|id ns d|os root];
      cbv beta iota zeta.
    - destruct Hv; reflexivity.
    - destruct Hv; reflexivity.
    - unfold string_ser. now rewrite (conv_string_pv _ _ Hv).
    - destruct Hv; reflexivity.
    - destruct Hv; reflexivity.
    - rewrite !ok_then_ok by reflexivity. now apply any_conv_value.
    - destruct Hv; reflexivity.
    - unfold enum_str_ser. now rewrite (conv_string_pv _ _ Hv).
    - destruct Hv as [v | t b l l' HF | t b kvs kvs1 kvs' HF HP | t x x' Hx | t fs fs' HF]; try reflexivity.
      unfold zlen. rewrite (f2_length _ _ _ HF).
      match goal with |- context [size_ok mn mx ?z] => destruct (size_ok mn mx z) end; [|reflexivity].
      rewrite !ok_then_ok by reflexivity. apply (ok_mapMi_f2 perm_val _ _ _ _ HF).
      intros j x x' Hin Hx. unfold seg. rewrite !ok_map_err.
      apply IHv; [exact Hx | exact (nc_slice _ _ _ _ Hnc Hin) | exact (inv_list _ _ _ _ _ Hwf)].
    - destruct Hv as [v | t b l l' HF | t b kvs kvs1 kvs' HF HP | t x x' Hx | t fs fs' HF]; try reflexivity.
      destruct (nc_map _ _ _ Hnc) as [_ Hsub].
      unfold zlen. rewrite (f2_len_perm _ _ _ _ HF HP).
      match goal with |- context [size_ok mn mx ?z] => destruct (size_ok mn mx z) end; [|reflexivity].
      rewrite !is_ok_forM. rewrite <- (forallb_perm _ kvs1 kvs' HP). apply (forallb_f2 _ _ _ _ _ HF).
      intros a b0 Hin [Hk Hvv]. destruct (Hsub a Hin) as [Hn1 Hn2].
      unfold seg. rewrite !ok_seq_v, !ok_map_err.
      rewrite (IHv ks _ _ Hk Hn1 (inv_map_k _ _ _ _ _ _ Hwf)).
      now rewrite (IHv vs _ _ Hvv Hn2 (inv_map_v _ _ _ _ _ _ Hwf)).
    - unfold property in *.
      destruct Hv as [v | t b l l' HF | t b kvs kvs1 kvs' HF HP | t x x' Hx | t fs fs' HF]; try reflexivity.
      cbn [is_str_any_map]. destruct (gtype_eqb t t_str_map); [|reflexivity]. cbv beta iota.
      destruct (nc_map _ _ _ Hnc) as [Hdup Hsub].
      assert (HF2 : Forall2 (fun a b0 => perm_val (fst a) (fst b0) /\ Qv (snd a) (snd b0)) kvs kvs1)
        by (apply f2_qv; [exact HF|]; intros a Hin; now destruct (Hsub a Hin)).
      rewrite !raw_of_entries_by, !ok_seq_v. f_equal.
      + apply check_rules_order; [apply Permutation_refl|]. intros k. unfold amem.
        pose proof (raw_by_lookup sel_str sel_str_sound sel_str_leaf Qv kvs kvs1 kvs' k Hdup HF2 HP) as HL.
        destruct (alookup k (raw_by sel_str kvs)), (alookup k (raw_by sel_str kvs')); try contradiction; reflexivity.
      + rewrite !is_ok_forM.
        rewrite <- (forallb_perm _ (raw_by sel_str kvs1) (raw_by sel_str kvs') (perm_flat_map _ _ _ HP)).
        apply (forallb_f2 _ _ _ _ _ (raw_by_f2 sel_str sel_str_leaf Qv kvs kvs1 HF2)).
        intros a b0 _ [Hk [Hp Hn]]. rewrite <- Hk.
        destruct (alookup (fst a) ps) as [p|] eqn:El; [|reflexivity].
        unfold seg. rewrite !ok_map_err.
        apply IHv; [exact Hp | exact Hn | exact (inv_prop _ _ _ _ _ (fst a, p) Hwf (alookup_in _ _ _ El))].
    - pose proof (IHo ts ik fld inl v v' Hv Hnc Hwf) as HOf.
      destruct (oneof_find f e ts ik fld inl v) as [[[k1 m] d1]| | |] eqn:E1,
               (oneof_find f e ts ik fld inl v') as [[[k2 m'] d2]| | |] eqn:E2; cbn in HOf; try contradiction; try reflexivity.
      destruct HOf as (-> & -> & Hd & Hn). cbn [bind]. unfold seg. rewrite !ok_map_err.
      apply oneof_find_ok in E1 as (t1 & b1 & kvsa & kk1 & _ & Hin1 & _).
      apply IHv; [exact Hd | exact Hn | exact (inv_member _ _ _ _ _ _ (kk1, m') Hwf Hin1)].
    - destruct (resolve e id ns) as [[o e2]|] eqn:R1; [|reflexivity].
      destruct (IH e2) as (IHv2 & _).
      apply IHv2; [exact Hv | exact Hnc | exact (inv_ref _ _ _ _ _ _ _ Hwf R1)].
    - destruct (alookup root os) as [o|] eqn:R1; [|reflexivity].
      destruct (IH (env_enter e os)) as (IHv2 & _).
      apply IHv2; [exact Hv | exact Hnc | exact (inv_scope _ _ _ _ _ Hwf R1)]. }
  (* ---------- serialize ---------- *)
  assert (HS : forall s v v', perm_val v v' -> hkc v = false -> WF e s ->
             is_ok (serialize (S f) e s v) = is_ok (serialize (S f) e s v')).
  { intros s v v' Hv Hnc Hwf. rewrite !(serialize_S words pu).
    destruct s as [mn mx u|mn mx u|mn mx pat| | | |vals u|named vals|it mn mx|ks vs mn mx|id un ps|ts ik fld inl|id ns d|os root];
      cbv beta iota zeta.
    - destruct Hv; reflexivity.
    - destruct Hv; reflexivity.
    - unfold string_ser. now rewrite (conv_string_pv _ _ Hv).
    - destruct Hv; reflexivity.
    - destruct Hv; reflexivity.
    - now apply any_conv_value.
    - destruct Hv; reflexivity.
    - unfold enum_str_ser. now rewrite (conv_string_pv _ _ Hv).
    - apply ok_bind2; [apply IHv; assumption|]. intros _ _ _ _.
      destruct Hv as [v | t b l l' HF | t b kvs kvs1 kvs' HF HP | t x x' Hx | t fs fs' HF]; try reflexivity.
      rewrite !ok_then_ok by reflexivity. apply (ok_mapMi_f2 perm_val _ _ _ _ HF).
      intros j x x' Hin Hx. unfold seg. rewrite !ok_map_err.
      apply IHs; [exact Hx | exact (nc_slice _ _ _ _ Hnc Hin) | exact (inv_list _ _ _ _ _ Hwf)].
    - apply ok_bind2; [apply IHv; assumption|]. intros _ _ _ _.
      destruct Hv as [v | t b l l' HF | t b kvs kvs1 kvs' HF HP | t x x' Hx | t fs fs' HF]; try reflexivity.
      destruct (nc_map _ _ _ Hnc) as [_ Hsub].
      rewrite !ok_then_ok by reflexivity.
      rewrite (ok_fold _ (fun kv => is_ok (serialize f e ks (fst kv)) && is_ok (serialize f e vs (snd kv)))).
      2: { intros a x. cbn [bind]. unfold seg. rewrite ok_two_binds, !ok_map_err. reflexivity. }
      2: { intros acc x Ha. destruct acc; cbn in *; congruence. }
      rewrite (ok_fold _ (fun kv => is_ok (serialize f e ks (fst kv)) && is_ok (serialize f e vs (snd kv)))).
      2: { intros a x. cbn [bind]. unfold seg. rewrite ok_two_binds, !ok_map_err. reflexivity. }
      2: { intros acc x Ha. destruct acc; cbn in *; congruence. }
      rewrite <- (forallb_perm _ kvs1 kvs' HP). apply (forallb_f2 _ _ _ _ _ HF).
      intros a b0 Hin [Hk Hvv]. destruct (Hsub a Hin) as [Hn1 Hn2].
      rewrite (IHs ks _ _ Hk Hn1 (inv_map_k _ _ _ _ _ _ Hwf)).
      now rewrite (IHs vs _ _ Hvv Hn2 (inv_map_v _ _ _ _ _ _ Hwf)).
    - unfold property in *.
      destruct Hv as [v | t b l l' HF | t b kvs kvs1 kvs' HF HP | t x x' Hx | t fs fs' HF]; try reflexivity.
      cbn [is_str_any_map]. destruct (gtype_eqb t t_str_map); [|reflexivity]. cbv beta iota.
      destruct (nc_map _ _ _ Hnc) as [Hdup Hsub].
      assert (HF2 : Forall2 (fun a b0 => perm_val (fst a) (fst b0) /\ Qv (snd a) (snd b0)) kvs kvs1)
        by (apply f2_qv; [exact HF|]; intros a Hin; now destruct (Hsub a Hin)).
      rewrite !raw_of_entries_by.
      apply ok_bind2.
      + apply check_rules_order; [apply Permutation_refl|]. intros k. unfold amem.
        pose proof (raw_by_lookup sel_str sel_str_sound sel_str_leaf Qv kvs kvs1 kvs' k Hdup HF2 HP) as HL.
        destruct (alookup k (raw_by sel_str kvs)), (alookup k (raw_by sel_str kvs')); try contradiction; reflexivity.
      + intros _ _ _ _. rewrite !ok_then_ok by reflexivity. rewrite !is_ok_mapM_v.
        rewrite <- (forallb_perm _ (raw_by sel_str kvs1) (raw_by sel_str kvs') (perm_flat_map _ _ _ HP)).
        apply (forallb_f2 _ _ _ _ _ (raw_by_f2 sel_str sel_str_leaf Qv kvs kvs1 HF2)).
        intros a b0 _ [Hk [Hp Hn]]. rewrite <- Hk.
        destruct (alookup (fst a) ps) as [p|] eqn:El; [|reflexivity].
        rewrite !ok_then_ok by reflexivity. unfold seg. rewrite !ok_map_err.
        apply IHs; [exact Hp | exact Hn | exact (inv_prop _ _ _ _ _ (fst a, p) Hwf (alookup_in _ _ _ El))].
    - pose proof (IHo ts ik fld inl v v' Hv Hnc Hwf) as HOf.
      destruct (oneof_find f e ts ik fld inl v) as [[[k1 m] d1]| | |] eqn:E1,
               (oneof_find f e ts ik fld inl v') as [[[k2 m'] d2]| | |] eqn:E2; cbn in HOf; try contradiction; try reflexivity.
      destruct HOf as (-> & -> & Hd & Hn). cbn [bind].
      apply oneof_find_ok in E1 as (t1 & b1 & kvsa & kk1 & _ & Hin1 & _).
      pose proof (inv_member _ _ _ _ _ _ (kk1, m') Hwf Hin1) as Hwm.
      apply ok_bind2; [apply IHs; assumption|]. intros x x' Hx Hx'.
      destruct (ser_objlike_map words pu _ _ _ _ _ Hwm (wf_member_objlike _ _ _ _ _ (kk1, m') (inv_here _ _ _ Hwf) Hin1) Hx) as [xs ->].
      destruct (ser_objlike_map words pu _ _ _ _ _ Hwm (wf_member_objlike _ _ _ _ _ (kk1, m') (inv_here _ _ _ Hwf) Hin1) Hx') as [xs' ->].
      destruct (smap_get fld xs), (smap_get fld xs'); reflexivity.
    - destruct (resolve e id ns) as [[o e2]|] eqn:R1; [|reflexivity].
      destruct (IH e2) as (_ & _ & IHs2 & _).
      apply IHs2; [exact Hv | exact Hnc | exact (inv_ref _ _ _ _ _ _ _ Hwf R1)].
    - destruct (alookup root os) as [o|] eqn:R1; [|reflexivity].
      destruct (IH (env_enter e os)) as (_ & _ & IHs2 & _).
      apply IHs2; [exact Hv | exact Hnc | exact (inv_scope _ _ _ _ _ Hwf R1)]. }
  (* ---------- data-mode compatibility ---------- *)
  assert (HC : forall s v v', perm_val v v' -> hkc v = false -> WF e s ->
             is_ok (compat (S f) e s v) = is_ok (compat (S f) e s v')).
  { intros s v v' Hv Hnc Hwf. rewrite !(compat_S words pu).
    pose proof Hv as Hv0.
    assert (HsU : is_ok (unser f e s v) = is_ok (unser f e s v')) by (apply IHu; assumption).
    assert (HsV : is_ok (validate f e s v) = is_ok (validate f e s v')) by (apply IHv; assumption).
    destruct s as [mn mx u|mn mx u|mn mx pat| | | |vals u|named vals|it mn mx|ks vs mn mx|id un ps|ts ik fld inl|id ns d|os root];
      cbv beta iota zeta.
    - now rewrite !ok_then_ok by reflexivity.
    - now rewrite !ok_then_ok by reflexivity.
    - destruct Hv; reflexivity.
    - now rewrite !ok_then_ok by reflexivity.
    - exact HsV.
    - (* any *)
      assert (HA : forall x x', perm_val x x' -> hkc x = false -> is_ok (compat f e SAny x) = is_ok (compat f e SAny x'))
        by (intros x x' Hx Hn; apply IHc; assumption).
      destruct Hv as [v | t b l l' HF | t b kvs kvs1 kvs' HF HP | t x x' Hx | t fs fs' HF]; try reflexivity.
      + (* a slice *)
        destruct (gtype_eqb t t_any_slice).
        * rewrite !ok_seq_v. f_equal.
          -- rewrite !is_ok_forM. apply (forallb_f2 _ _ _ _ _ HF). intros a b0 Hin Hab.
             unfold rewrap. rewrite !ok_map_err. apply HA; [exact Hab | exact (nc_slice _ _ _ _ Hnc Hin)].
          -- destruct HF as [|x0 x0' t0 t0' Hx0 HF0]; [reflexivity|]. cbv beta iota.
             rewrite <- (kind_of_pv _ _ Hx0).
             match goal with |- is_ok (if forallb ?p t0 then _ else _) = _ =>
               rewrite (forallb_f2 perm_val p p t0 t0' HF0)
                 by (intros a b0 _ Hab; cbv beta; now rewrite (kind_of_pv _ _ Hab))
             end.
             reflexivity.
        * rewrite !ok_then_ok by reflexivity. now apply any_conv_value.
      + (* a map *)
        destruct (nc_map _ _ _ Hnc) as [Hdup Hsub].
        assert (HF2 : Forall2 (fun a b0 => perm_val (fst a) (fst b0) /\ Qv (snd a) (snd b0)) kvs kvs1)
          by (apply f2_qv; [exact HF|]; intros a Hin; now destruct (Hsub a Hin)).
        destruct (gtype_eqb t t_str_map || gtype_eqb t (TMap (TInt I64) TAny)).
        * rewrite !is_ok_forM. rewrite <- (forallb_perm _ kvs1 kvs' HP). apply (forallb_f2 _ _ _ _ _ HF2).
          intros a b0 _ [_ [Hp Hn]]. unfold rewrap. rewrite !ok_map_err. now apply HA.
        * destruct (gtype_eqb t t_any_map).
          -- destruct kvs as [|[k0 v0] t0].
             { inversion HF; subst. apply Permutation_nil in HP. subst. reflexivity. }
             destruct kvs' as [|[k0' v0'] t0'].
             { pose proof (f2_len_perm _ _ _ _ HF HP) as Hl. simpl in Hl. discriminate Hl. }
             cbv beta iota.
             etransitivity; [exact (anymap_forM (compat f e SAny) k0 v0 t0)|].
             symmetry. etransitivity; [exact (anymap_forM (compat f e SAny) k0' v0' t0')|]. symmetry.
             f_equal; apply (W_rel _ _ _ kvs1); try assumption;
               intros a b0 _ [_ [Hp Hn]]; now apply HA.
          -- rewrite !ok_then_ok by reflexivity. now apply any_conv_value.
      + rewrite !ok_then_ok by reflexivity. now apply any_conv_value.
      + rewrite !ok_then_ok by reflexivity. now apply any_conv_value.
    - exact HsV.
    - exact HsV.
    - (* list *)
      destruct Hv as [v | t b l l' HF | t b kvs kvs1 kvs' HF HP | t x x' Hx | t fs fs' HF]; try reflexivity.
      + rewrite !ok_then_ok by reflexivity. apply (ok_mapMi_f2 perm_val _ _ _ _ HF).
        intros j x x' Hin Hx. unfold seg. rewrite !ok_map_err.
        apply IHc; [exact Hx | exact (nc_slice _ _ _ _ Hnc Hin) | exact (inv_list _ _ _ _ _ Hwf)].
      + destruct Hx as [x | t1 b1 l l' HF | ? ? ? ? ? ? ? | ? ? ? ? | ? ? ? ?]; try reflexivity.
        cbv beta iota. scrut_same.
        rewrite !ok_then_ok by reflexivity. apply (ok_mapMi_f2 perm_val _ _ _ _ HF).
        intros j x x' Hin Hx. unfold seg. rewrite !ok_map_err.
        apply IHc; [exact Hx | exact (nc_slice t1 b1 _ _ Hnc Hin) | exact (inv_list _ _ _ _ _ Hwf)].
    - (* map *)
      destruct Hv as [v | t b l l' HF | t b kvs kvs1 kvs' HF HP | t x x' Hx | t fs fs' HF]; try reflexivity.
      destruct (nc_map _ _ _ Hnc) as [_ Hsub].
      unfold zlen. rewrite (f2_len_perm _ _ _ _ HF HP).
      match goal with |- context [size_ok mn mx ?z] => destruct (size_ok mn mx z) end; [|reflexivity].
      rewrite !is_ok_forM. rewrite <- (forallb_perm _ kvs1 kvs' HP). apply (forallb_f2 _ _ _ _ _ HF).
      intros a b0 Hin [Hk Hvv]. destruct (Hsub a Hin) as [Hn1 Hn2].
      unfold seg. rewrite !ok_seq_v, !ok_map_err.
      rewrite (IHc ks _ _ Hk Hn1 (inv_map_k _ _ _ _ _ _ Hwf)).
      now rewrite (IHc vs _ _ Hvv Hn2 (inv_map_v _ _ _ _ _ _ Hwf)).
    - (* object *)
      unfold property in *.
      destruct Hv as [v | t b l l' HF | t b kvs kvs1 kvs' HF HP | t x x' Hx | t fs fs' HF]; [reflexivity|..];
        cbn [is_str_any_map].
      2: destruct (gtype_eqb t t_str_map).
      2: { cbv beta iota. destruct (nc_map _ _ _ Hnc) as [Hdup Hsub].
           assert (HF2 : Forall2 (fun a b0 => perm_val (fst a) (fst b0) /\ Qv (snd a) (snd b0)) kvs kvs1)
             by (apply f2_qv; [exact HF|]; intros a Hin; now destruct (Hsub a Hin)).
           rewrite !raw_of_entries_by, !ok_seq_v. f_equal.
           - rewrite !is_ok_forM.
             rewrite <- (forallb_perm _ (raw_by sel_str kvs1) (raw_by sel_str kvs') (perm_flat_map _ _ _ HP)).
             apply (forallb_f2 _ _ _ _ _ (raw_by_f2 sel_str sel_str_leaf Qv kvs kvs1 HF2)).
             intros a b0 _ [Hk [Hp Hn]]. rewrite <- Hk.
             destruct (alookup (fst a) ps) as [p|] eqn:El; [|reflexivity].
             unfold seg, rewrap_path. rewrite !ok_map_err, !ok_seq_v, !ok_map_err. f_equal.
             apply IHc; [exact Hp | exact Hn | exact (inv_prop _ _ _ _ _ (fst a, p) Hwf (alookup_in _ _ _ El))].
           - rewrite !is_ok_forM. apply forallb_ext'. intros np.
             destruct (p_required (snd np)); [|reflexivity].
             pose proof (raw_by_lookup sel_str sel_str_sound sel_str_leaf Qv kvs kvs1 kvs' (fst np) Hdup HF2 HP) as HL.
             destruct (alookup (fst np) (raw_by sel_str kvs)) as [d0|], (alookup (fst np) (raw_by sel_str kvs')) as [d0'|];
               try contradiction; [|reflexivity].
             destruct HL as [Hd _]. destruct Hd; reflexivity. }
      all: cbv beta iota; rewrite !ok_then_ok by reflexivity; unfold rewrap_path; rewrite !ok_map_err; exact HsU.
    - (* one-of *)
      destruct Hv as [v | t b l l' HF | t b kvs kvs1 kvs' HF HP | t x x' Hx | t fs fs' HF]; [reflexivity|..];
        cbn [is_str_any_map kind_of].
      + scrut_same; cbv beta iota; exact HsV.
      + destruct (gtype_eqb t t_str_map).
        * cbv beta iota. rewrite !ok_then_ok by reflexivity.
          pose proof (IHo ts ik fld inl _ _ Hv0 Hnc Hwf) as HOf.
          destruct (oneof_find f e ts ik fld inl (VMap t b kvs)) as [[[? ?] ?]| | |],
                   (oneof_find f e ts ik fld inl (VMap t b kvs')) as [[[? ?] ?]| | |];
            cbn in HOf; try contradiction; reflexivity.
        * scrut_same; cbv beta iota; exact HsV.
      + scrut_same; try exact HsV.
        destruct Hx; cbv beta iota; try reflexivity; exact HsV.
      + scrut_same; cbv beta iota; exact HsV.
    - destruct (resolve e id ns) as [[o e2]|] eqn:R1; [|reflexivity].
      destruct (IH e2) as (_ & _ & _ & IHc2).
      apply IHc2; [exact Hv | exact Hnc | exact (inv_ref _ _ _ _ _ _ _ Hwf R1)].
    - destruct (alookup root os) as [o|] eqn:R1; [|reflexivity].
      destruct (IH (env_enter e os)) as (_ & _ & _ & IHc2).
      apply IHc2; [exact Hv | exact Hnc | exact (inv_scope _ _ _ _ _ Hwf R1)]. }
  repeat split; assumption.
Qed.

End Value2.
