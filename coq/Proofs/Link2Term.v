(* Proofs/Link2Term.v — C14 (4): self- and mutually-referential object graphs terminate on every
   finite input, with an explicit fuel bound.

   Built on the termination half of work package c04c12 (Schema/Wf.v, Schema/Total.v,
   Proofs/C04Inv.v, Proofs/C04Term.v: `term_all`, copied into this tree): under the boolean
   hypotheses
     wf_schema e s            the constructors' contracts (references resolve to objects, ...)
     no_inline_cycle e s      the single-property shorthand never re-enters an object without
                              consuming input (the class of known finding D11)
     defaults_total K e s     acyclic defaults: every declared default is processed by its own
                              property type within K steps (the class of D50)
   the fuel  fuel_bound K e s v = K + 3 + (4 * nic_fuel e s + 8) * (1 + vdepth v)  suffices, where
   nic_fuel e s = 2 + number of schema nodes of s and of the tables of e, vdepth v = nesting depth. *)
From Coq Require Import Lia.
From Verif Require Import Base.Prelude Base.Str Base.Float Base.GoVal
  Schema.Regex Schema.Units Schema.Syntax Schema.Ops Schema.Wf Schema.Total
  Proofs.MonoEq Proofs.C04Inv Proofs.C04NoPanic Proofs.C04Term.

Lemma c14_fin_not_oof {A} (o : outcome A) : fin o -> o <> OutOfFuel.
Proof. destruct o; cbn; intros H; try discriminate. contradiction. Qed.

Section Term.
Variable words : list (string * bool).
Variable pu : units -> string -> option fl.

Lemma c14_hyps_inv K e s :
  wf_schema e s = true -> no_inline_cycle e s = true -> defaults_total words pu K e s = true ->
  Inv (P3 words pu K (nic_fuel e s)) e s.
Proof.
  intros H1 H2 H3. unfold P3.
  apply (inv_and wf_local (fun e0 s0 => nic_local (nic_fuel e s) e0 s0 && dflt_local words pu K e0 s0)).
  split.
  - unfold wf_schema in H1. unfold Inv. apply andb_prop in H1. exact H1.
  - apply (inv_and (nic_local (nic_fuel e s)) (dflt_local words pu K)). split.
    + unfold no_inline_cycle, no_inline_cycle_n in H2. unfold Inv. apply andb_prop in H2. exact H2.
    + unfold defaults_total in H3. unfold Inv. apply andb_prop in H3. exact H3.
Qed.

Lemma c14_bound_enough K n v c o f :
  (c <= n)%nat -> (o <= 2)%nat -> (fuel_bound_n K n v <= f)%nat -> (need K n (vdepth v) c o <= f)%nat.
Proof. unfold fuel_bound_n, need, level_cost. intros. nia. Qed.

Theorem c14_recursive_terminates : forall (K : nat) (e : env) (s : schema) (v : gval),
  wf_schema e s = true -> no_inline_cycle e s = true -> defaults_total words pu K e s = true ->
  forall f, (fuel_bound K e s v <= f)%nat ->
    unser words pu f e s v <> OutOfFuel /\
    validate words pu f e s v <> OutOfFuel /\
    serialize words pu f e s v <> OutOfFuel.
Proof.
  intros K e s v Hwf Hnic Hdef f Hf.
  pose proof (c14_hyps_inv K e s Hwf Hnic Hdef) as Hinv.
  destruct (i3_nic words pu K _ e s (is_vmap v) Hinv) as (c & Hc & Hle).
  destruct (term_all words pu K (nic_fuel e s) (vdepth v) c) as (Iu & Iv & _ & Is & _).
  assert (Hch : chn (nic_fuel e s) (is_vmap v) e s c).
  { exists c. split; [exact Hc | lia]. }
  repeat split; apply c14_fin_not_oof.
  - apply Iu; auto. apply c14_bound_enough; auto.
  - apply Iv; auto. apply c14_bound_enough; auto.
  - apply Is; auto. apply c14_bound_enough; auto.
Qed.

End Term.
