(* Proofs/C01Full.v — the round trip for every schema kind (C01), by induction on the fuel of the successful
   Unserialize: scalars / enums / pattern / any / lists / maps / objects / references / scopes here, the one-of case
   supplied as a parameter (Proofs/C01OneOf.v; vacuous when no one-of is in scope). *)
From Coq Require Import Lia.
From Verif Require Import Base.Prelude Base.Str Base.Float Base.GoVal
  Schema.Regex Schema.Units Schema.Syntax Schema.Ops Schema.Cbor Schema.Wf Schema.Total Schema.SpecRT Schema.SpecObj Schema.C01Spec
  Proofs.OpsLemmas Proofs.C01Round Proofs.CborNorm Proofs.C03Obj Proofs.C04Inv Proofs.C01Base Proofs.OpsEq Proofs.MonoEq
  Proofs.C01Any Proofs.C01Facts Proofs.C01Maps Proofs.C01Objects.
Open Scope string_scope.
Open Scope Z_scope.

Lemma forall_build {A B} (Q : A -> B -> Prop) l : (forall x, In x l -> exists w, Q x w) -> exists ws, Forall2 Q l ws.
Proof.
  induction l as [|x t IH]; intros H; [exists []; constructor|].
  destruct (H x (or_introl eq_refl)) as (w & Hw). destruct IH as (ws & Hws); [intros y Hy; apply H; right; exact Hy|].
  exists (w :: ws). constructor; assumption.
Qed.

Lemma forall2_build {A B C} (R : A -> B -> Prop) (Q : B -> C -> Prop) l ys :
  Forall2 R l ys -> (forall x y, In x l -> In y ys -> R x y -> exists w, Q y w) -> exists ws, Forall2 Q ys ws.
Proof.
  intros H2 H. apply forall_build. intros y Hy. destruct (forall2_in_r _ _ _ _ H2 Hy) as (x & Hx & Hxy). apply (H x y); assumption.
Qed.

Lemma any_clean_slice t b l : any_clean (VSlice t b l) = true -> forall x, In x l -> any_clean x = true.
Proof. cbn [any_clean]. intros H. apply andb_prop in H. destruct H as [H _]. rewrite forallb_forall in H. exact H. Qed.

Lemma any_clean_map t b kvs : any_clean (VMap t b kvs) = true ->
  forall k x, In (k, x) kvs -> any_clean k = true /\ any_clean x = true.
Proof.
  cbn [any_clean]. intros H. apply andb_prop in H. destruct H as [H _]. rewrite forallb_forall in H.
  intros k x Hin. specialize (H _ Hin). cbn beta iota in H. apply andb_prop in H. exact H.
Qed.

Lemma ints_slice t b l : ints_in_range (VSlice t b l) = true -> forall x, In x l -> ints_in_range x = true.
Proof. cbn [ints_in_range]. intros H. rewrite forallb_forall in H. exact H. Qed.

Lemma ints_map t b kvs : ints_in_range (VMap t b kvs) = true ->
  forall k x, In (k, x) kvs -> ints_in_range k = true /\ ints_in_range x = true.
Proof.
  cbn [ints_in_range]. intros H. rewrite forallb_forall in H.
  intros k x Hin. specialize (H _ Hin). cbn beta iota in H. apply andb_prop in H. exact H.
Qed.

Lemma in_raw_to_val (r : raw) k y : In (k, y) r -> exists t b kvs, raw_to_val r = VMap t b kvs /\ In (vstr k, y) kvs.
Proof.
  intros H. exists t_str_map, false, (map (fun kv : string * gval => (vstr (fst kv), snd kv)) r). split; [reflexivity|].
  apply in_map_iff. exists (k, y). split; [reflexivity | exact H].
Qed.

Section Full.
Variable words : list (string * bool).
Variable pu : units -> string -> option fl.
Notation unser := (unser words pu).
Notation validate := (validate words pu).
Notation serialize := (serialize words pu).
Notation compat := (compat words pu).
Notation rtf := (rtf words pu).
Variable b : bool.

Definition rt_goal (f : nat) : Prop := forall e s v n,
  Inv wf_local e s -> Inv (c01_local b) e s ->
  unser f e s v = Ok n -> distinct_in words pu f e s v = true -> ints_in_range n = true ->
  (b = true -> any_clean n = true) ->
  exists w, rtf b e s (2 * f) n w.

Hypothesis oneof_case : forall f, rt_goal f -> forall e types ik field inlined v n,
  Inv wf_local e (SOneOf types ik field inlined) -> Inv (c01_local b) e (SOneOf types ik field inlined) ->
  unser (S f) e (SOneOf types ik field inlined) v = Ok n ->
  distinct_in words pu (S f) e (SOneOf types ik field inlined) v = true -> ints_in_range n = true ->
  (b = true -> any_clean n = true) ->
  exists w, rtf b e (SOneOf types ik field inlined) (S (S (2 * f))) n w.

Theorem rt_all : forall f, rt_goal f.
Proof.
  induction f as [|f IH]; intros e s v n Hwf Hsc H Hdi Hr Hac; [discriminate H|].
  replace (2 * S f)%nat with (S (S (2 * f)))%nat by lia.
  destruct s as [mn mx u|mn mx u|mn mx pat| | | |vals u|named vals|it mn mx|ks vs mn mx|id un props|types ik field inlined|id ns d|objs root].
  - apply (scalar_rtf words pu b e _ f v n (2 * f)); [exact I | exact H | exact Hr].
  - apply (scalar_rtf words pu b e _ f v n (2 * f)); [exact I | exact H | exact Hr].
  - apply (scalar_rtf words pu b e _ f v n (2 * f)); [exact I | exact H | exact Hr].
  - apply (scalar_rtf words pu b e _ f v n (2 * f)); [exact I | exact H | exact Hr].
  - apply (scalar_rtf words pu b e _ f v n (2 * f)); [exact I | exact H | exact Hr].
  - exists n. apply (any_rtf words pu b e f v n (S (2 * f))); [exact H | exact Hr | exact Hac | lia].
  - apply (scalar_rtf words pu b e _ f v n (2 * f)); [exact I | exact H | exact Hr].
  - apply (scalar_rtf words pu b e _ f v n (2 * f)); [exact I | exact H | exact Hr].
  - (* list *)
    rewrite (unser_S words pu) in H. cbv beta iota in H.
    destruct v as [| | | | |t0 nl l| | | | |]; try discriminate H.
    destruct (size_ok mn mx (zlen l)) eqn:Es; [|discriminate H].
    apply bind_ok in H. destruct H as (ys & Hys & H). inversion H; subst n. clear H.
    apply mapMi_seg_ok in Hys.
    cbn [distinct_in] in Hdi. rewrite forallb_forall in Hdi.
    destruct (forall2_build _ (rtf b e it (2 * f)) l ys Hys) as (ws & Hws).
    { intros x y Hx Hy Hxy. apply (IH e it x y).
      - apply (inv_list wf_local e it mn mx Hwf).
      - apply (inv_list (c01_local b) e it mn mx Hsc).
      - exact Hxy.
      - apply Hdi. exact Hx.
      - apply (ints_slice _ _ _ Hr y Hy).
      - intros Hb. apply (any_clean_slice _ _ _ (Hac Hb) y Hy). }
    exists (VSlice t_any_slice false ws). apply list_rtf; [rewrite <- (zlen_forall2 _ _ _ Hys); exact Es | exact Hws].
  - (* map *)
    destruct (unser_map_distinct words pu e ks vs mn mx f v n H Hdi) as (t0 & nl & kvs & cs & -> & -> & Es & Hnd & Hcs & Hch).
    rewrite forallb_forall in Hch.
    assert (Hkk : key_kind_ok ks = true) by (apply (inv_here wf_local e _ Hwf)).
    destruct (forall2_build _ (entry_rt words pu b e ks vs (2 * f)) kvs cs Hcs) as (ws & Hws).
    { intros kv c Hkv Hc [Hk Hv]. specialize (Hch kv Hkv). apply andb_prop in Hch. destruct Hch as [Hdk Hdv].
      destruct c as [k' x']. cbn [fst snd] in Hk, Hv.
      destruct (ints_map _ _ _ Hr k' x' Hc) as [Hrk Hrx].
      destruct (IH e ks (fst kv) k') as (wk & Hwk).
      { apply (inv_map_k wf_local e ks vs mn mx Hwf). } { apply (inv_map_k (c01_local b) e ks vs mn mx Hsc). }
      { exact Hk. } { exact Hdk. } { exact Hrk. } { intros Hb. apply (any_clean_map _ _ _ (Hac Hb) k' x' Hc). }
      destruct (IH e vs (snd kv) x') as (wx & Hwx).
      { apply (inv_map_v wf_local e ks vs mn mx Hwf). } { apply (inv_map_v (c01_local b) e ks vs mn mx Hsc). }
      { exact Hv. } { exact Hdv. } { exact Hrx. } { intros Hb. apply (any_clean_map _ _ _ (Hac Hb) k' x' Hc). }
      exists (wk, wx). split; [exact Hwk|]. split; [exact Hwx|]. cbn [fst snd].
      apply (key_ser_same words pu e ks f (fst kv) k' (2 * f) wk Hkk Hk Hrk). apply (rt_ser _ _ _ _ _ _ _ _ Hwk). }
    exists (VMap t_any_map false ws). apply map_rtf; assumption.
  - (* object *)
    assert (Hndp : NoDup (map fst props)).
    { pose proof (inv_here wf_local e _ Hwf) as Hl. cbn [wf_local] in Hl. apply andb_prop in Hl. destruct Hl as [Hl _].
      apply nodup_str_NoDup. exact Hl. }
    destruct (unser_obj_inv words pu e id un props f v n Hndp H Hdi) as (r2 & -> & Hnd2 & Hc & Hdef & Hent).
    destruct (forall_build (oentry_rt words pu b e props (2 * f)) r2) as (out & Hout).
    { intros [k y] Hin. destruct (Hent k y Hin) as (p & d & Hp & Hdis & Hu & Hdd).
      destruct (in_raw_to_val r2 k y Hin) as (t0 & b0 & kvs0 & E & Hin0).
      destruct (IH e (p_type p) d y) as (w & Hw).
      - apply (inv_prop wf_local e id un props (k, p) Hwf). apply alookup_In. exact Hp.
      - apply (inv_prop (c01_local b) e id un props (k, p) Hsc). apply alookup_In. exact Hp.
      - exact Hu.
      - exact Hdd.
      - rewrite E in Hr. apply (ints_map _ _ _ Hr _ _ Hin0).
      - intros Hb. specialize (Hac Hb). rewrite E in Hac. apply (any_clean_map _ _ _ Hac _ _ Hin0).
      - exists (k, w). split; [reflexivity|]. exists p. cbn [fst snd]. auto. }
    exists (raw_to_val out). apply (rtf_mono words pu b e _ (S (2 * f))); [lia|].
    apply obj_rtf; assumption.
  - (* one-of *)
    apply (oneof_case f IH e types ik field inlined v n); assumption.
  - (* reference *)
    rewrite (unser_S words pu) in H. cbv beta iota in H.
    destruct (resolve e id ns) as [[o e']|] eqn:Hres; [|discriminate H].
    cbn [distinct_in] in Hdi. rewrite Hres in Hdi.
    destruct (IH e' o v n) as (w & Hw).
    + apply (inv_ref wf_local e id ns d o e' Hwf Hres).
    + apply (inv_ref (c01_local b) e id ns d o e' Hsc Hres).
    + exact H.
    + exact Hdi.
    + exact Hr.
    + exact Hac.
    + exists w. apply (rtf_mono words pu b e _ (S (2 * f))); [lia|]. apply (ref_rtf words pu b e id ns d o e'); assumption.
  - (* scope *)
    rewrite (unser_S words pu) in H. cbv beta iota in H.
    destruct (alookup root objs) as [o|] eqn:Hres; [|discriminate H].
    cbn [distinct_in] in Hdi. rewrite Hres in Hdi.
    destruct (IH (env_enter e objs) o v n) as (w & Hw).
    + apply (inv_scope wf_local e objs root o Hwf Hres).
    + apply (inv_scope (c01_local b) e objs root o Hsc Hres).
    + exact H.
    + exact Hdi.
    + exact Hr.
    + exact Hac.
    + exists w. apply (rtf_mono words pu b e _ (S (2 * f))); [lia|]. apply (scope_rtf words pu b e objs root o); assumption.
Qed.

End Full.
