(* Proofs/Footprint.v — lemmas about ATP/Footprint.v for Properties/C13.v. *)
From Coq Require Import List ZArith NArith Bool String Lia.
From Verif Require Import Base.Prelude Base.Str ATP.Msg ATP.Footprint.
Import ListNotations.
Open Scope list_scope.

(* ---------- equality tests ---------- *)
Lemma guard_eqb_refl : forall g, guard_eqb g g = true.
Proof. destruct g; simpl; try reflexivity; apply N.eqb_refl. Qed.
Lemma guard_eqb_eq : forall a b, guard_eqb a b = true <-> a = b.
Proof.
  intros a b. split.
  - destruct a, b; simpl; try discriminate; try reflexivity; intros H; apply N.eqb_eq in H; subst; reflexivity.
  - intros ->. apply guard_eqb_refl.
Qed.
Lemma guard_eqb_neq : forall a b, guard_eqb a b = false <-> a <> b.
Proof.
  intros a b. split.
  - intros H Heq. apply guard_eqb_eq in Heq. congruence.
  - intros H. destruct (guard_eqb a b) eqn:E; [|reflexivity]. apply guard_eqb_eq in E. contradiction.
Qed.
Lemma guard_eqb_sym : forall a b, guard_eqb a b = guard_eqb b a.
Proof.
  intros a b. destruct (guard_eqb a b) eqn:E.
  - apply guard_eqb_eq in E. subst. symmetry. apply guard_eqb_refl.
  - symmetry. apply guard_eqb_neq. apply guard_eqb_neq in E. congruence.
Qed.

(* ---------- (1) the footprint of every operation ---------- *)
Lemma disciplined_app : forall t1 t2 held,
  disciplined held t1 = true -> disciplined [] t2 = true -> disciplined held (t1 ++ t2) = true.
Proof.
  induction t1 as [|a t1 IH]; intros t2 held H1 H2; simpl in *.
  - destruct held; [exact H2|discriminate].
  - destruct a as [g|g|c|c]; apply andb_true_iff in H1; destruct H1 as [Ha Hr];
      rewrite Ha; simpl; apply IH; assumption.
Qed.

Lemma footprint_prim : forall sh st p, disciplined [] (fst (run_prim sh true st p)) = true.
Proof.
  intros sh st p. destruct p as [u|u|o|s run|r]; unfold run_prim, sorted_body, guarded; simpl.
  - destruct (filled st (CUnitsSorted u)); simpl; rewrite ?N.eqb_refl; reflexivity.
  - destruct (filled st (CUnitsRe u)); simpl; rewrite ?N.eqb_refl; [reflexivity|].
    destruct (sh_has_mults sh u); [destruct (filled st (CUnitsSorted u))|]; simpl; rewrite ?N.eqb_refl; reflexivity.
  - destruct (filled st (CDefaults o) || negb (sh_lazy_defaults sh o)); simpl; rewrite ?N.eqb_refl; reflexivity.
  - destruct (has_run st s run); simpl; rewrite ?N.eqb_refl; reflexivity.
  - reflexivity.
Qed.

Lemma footprint_prims : forall sh ps st, disciplined [] (fst (run_prims sh true st ps)) = true.
Proof.
  intros sh ps. induction ps as [|p r IH]; intros st; simpl; [reflexivity|].
  pose proof (footprint_prim sh st p) as Hp.
  destruct (run_prim sh true st p) as [t st'] eqn:Ep. simpl in Hp.
  specialize (IH st'). destruct (run_prims sh true st' r) as [t2 st2]. simpl in *.
  apply disciplined_app; assumption.
Qed.

(* what `disciplined` means, access by access *)
Lemma disciplined_write_guarded : forall t held c,
  disciplined held t = true -> In (Wr c) t -> exists g, guard_of c = Some g.
Proof.
  induction t as [|a t IH]; intros held c H Hin; [destruct Hin|].
  simpl in H. destruct Hin as [Ha|Hin].
  - subst a. apply andb_true_iff in H. destruct H as [H _]. destruct (guard_of c) as [g|]; [eauto|discriminate].
  - destruct a; apply andb_true_iff in H; destruct H as [_ H]; eapply IH; eassumption.
Qed.

(* every access to a guarded cell sits between an Acq and the matching Rel of its guard *)
Lemma disciplined_access_inside : forall t held pre a post c g,
  disciplined held t = true -> t = pre ++ a :: post -> (a = Rd c \/ a = Wr c) -> guard_of c = Some g ->
  holds g held = true \/ exists p1 p2, pre = p1 ++ Acq g :: p2.
Proof.
  induction t as [|x t IH]; intros held pre a post c g H Ht Ha Hg.
  - destruct pre; discriminate.
  - destruct pre as [|y pre]; simpl in Ht; inversion Ht; subst.
    + left. simpl in H. destruct Ha as [-> | ->]; rewrite Hg in H; apply andb_true_iff in H; tauto.
    + simpl in H. destruct y as [g'|g'|c'|c']; apply andb_true_iff in H; destruct H as [Hy Hr].
      * destruct (IH _ _ _ _ _ _ Hr eq_refl Ha Hg) as [Hh|[p1 [p2 Hp]]].
        -- simpl in Hh. destruct (guard_eqb g g') eqn:E.
           ++ apply guard_eqb_eq in E. subst. right. exists [], pre. reflexivity.
           ++ simpl in Hh. left. exact Hh.
        -- right. exists (Acq g' :: p1), p2. rewrite Hp. reflexivity.
      * destruct (IH _ _ _ _ _ _ Hr eq_refl Ha Hg) as [Hh|[p1 [p2 Hp]]].
        -- left. unfold drop, holds in Hh. unfold holds.
           apply existsb_exists in Hh. destruct Hh as [x [Hx1 Hx2]]. apply filter_In in Hx1.
           apply existsb_exists. exists x. tauto.
        -- right. exists (Rel g' :: p1), p2. rewrite Hp. reflexivity.
      * destruct (IH _ _ _ _ _ _ Hr eq_refl Ha Hg) as [Hh|[p1 [p2 Hp]]]; [left; exact Hh|].
        right. exists (Rd c' :: p1), p2. rewrite Hp. reflexivity.
      * destruct (IH _ _ _ _ _ _ Hr eq_refl Ha Hg) as [Hh|[p1 [p2 Hp]]]; [left; exact Hh|].
        right. exists (Wr c' :: p1), p2. rewrite Hp. reflexivity.
Qed.

(* ---------- locks ---------- *)
Lemma holder_unlock_same : forall g l, holder g (unlock g l) = None.
Proof.
  intros g l. induction l as [|[g' i] r IH]; simpl; [reflexivity|].
  destruct (guard_eqb g g') eqn:E; simpl; [exact IH|]. rewrite E. exact IH.
Qed.
Lemma holder_unlock_other : forall g g' l, g <> g' -> holder g (unlock g' l) = holder g l.
Proof.
  intros g g' l Hne. induction l as [|[g2 i] r IH]; simpl; [reflexivity|].
  destruct (guard_eqb g' g2) eqn:E; simpl.
  - apply guard_eqb_eq in E. subst g2. apply guard_eqb_neq in Hne. rewrite Hne. exact IH.
  - destruct (guard_eqb g g2); [reflexivity|exact IH].
Qed.
Lemma holds_by_holder : forall i g l, holds_by i g l = true <-> holder g l = Some i.
Proof.
  intros i g l. unfold holds_by. destruct (holder g l) as [j|]; split; try discriminate.
  - intros H. apply N.eqb_eq in H. subst; reflexivity.
  - intros H. inversion H. apply N.eqb_refl.
Qed.

Lemma sched_ok_app : forall a b l, sched_ok l (a ++ b) = sched_ok l a && sched_ok (run_locks l a) b.
Proof.
  induction a as [|ev a IH]; intros b l; simpl; [reflexivity|].
  rewrite IH. unfold run_locks at 2. simpl. rewrite andb_assoc. reflexivity.
Qed.
Lemma run_locks_app : forall a b l, run_locks l (a ++ b) = run_locks (run_locks l a) b.
Proof. intros. unfold run_locks. apply fold_left_app. Qed.

(* the holder of g is i and later it is not: i released it in between *)
Lemma release_between : forall g i mid l,
  holder g l = Some i -> sched_ok l mid = true -> holder g (run_locks l mid) <> Some i ->
  exists m1 m2, mid = m1 ++ (i, Rel g) :: m2 /\ holder g (run_locks l (m1 ++ [(i, Rel g)])) = None.
Proof.
  intros g i mid. induction mid as [|[k a] r IH]; intros l Hh Hok Hend.
  - unfold run_locks in Hend; simpl in Hend. contradiction.
  - simpl in Hok. apply andb_true_iff in Hok. destruct Hok as [Hev Hr].
    assert (Hstep : holder g (ev_locks l (k, a)) = Some i \/ (k = i /\ a = Rel g)).
    { destruct a as [g'|g'|c|c]; unfold ev_locks; simpl; auto.
      - unfold ev_ok in Hev; simpl in Hev. destruct (guard_eqb g g') eqn:E.
        + apply guard_eqb_eq in E. subst g'. rewrite Hh in Hev. discriminate.
        + left. exact Hh.
      - unfold ev_ok in Hev; simpl in Hev. destruct (guard_eqb g g') eqn:E.
        + apply guard_eqb_eq in E. subst g'. apply holds_by_holder in Hev. rewrite Hh in Hev. inversion Hev; subst. auto.
        + left. apply guard_eqb_neq in E. rewrite holder_unlock_other by assumption. exact Hh. }
    destruct Hstep as [Hh'|[-> ->]].
    + destruct (IH _ Hh' Hr) as [m1 [m2 [Hm Hn]]].
      * unfold run_locks in *. simpl in Hend. exact Hend.
      * exists ((k, a) :: m1), m2. split; [rewrite Hm; reflexivity|].
        unfold run_locks in *. simpl. exact Hn.
    + exists [], r. split; [reflexivity|]. unfold run_locks; simpl. unfold ev_locks; simpl. apply holder_unlock_same.
Qed.

(* the holder of g is not j and later it is: j acquired it in between *)
Lemma acquire_between : forall g j mid l,
  holder g l <> Some j -> sched_ok l mid = true -> holder g (run_locks l mid) = Some j ->
  exists m2 m3, mid = m2 ++ (j, Acq g) :: m3.
Proof.
  intros g j mid. induction mid as [|[k a] r IH]; intros l Hh Hok Hend.
  - unfold run_locks in Hend; simpl in Hend. contradiction.
  - simpl in Hok. apply andb_true_iff in Hok. destruct Hok as [Hev Hr].
    assert (Hstep : holder g (ev_locks l (k, a)) <> Some j \/ (k = j /\ a = Acq g)).
    { destruct a as [g'|g'|c|c]; unfold ev_locks; simpl; auto.
      - destruct (guard_eqb g g') eqn:E.
        + apply guard_eqb_eq in E. subst g'. destruct (N.eq_dec k j) as [->|Hne]; [right; auto|].
          left. intros H. inversion H. contradiction.
        + left. exact Hh.
      - left. destruct (guard_eqb g g') eqn:E.
        + apply guard_eqb_eq in E. subst g'. rewrite holder_unlock_same. discriminate.
        + apply guard_eqb_neq in E. rewrite holder_unlock_other by assumption. exact Hh. }
    destruct Hstep as [Hh'|[-> ->]].
    + destruct (IH _ Hh' Hr) as [m2 [m3 Hm]].
      * unfold run_locks in *. simpl in Hend. exact Hend.
      * exists ((k, a) :: m2), m3. rewrite Hm. reflexivity.
    + exists [], r. reflexivity.
Qed.

(* ---------- (2) data-race freedom ---------- *)
Lemma access_guard : forall l i a c,
  ev_ok l (i, a) = true -> (a = Rd c \/ a = Wr c) -> forall g, guard_of c = Some g -> holder g l = Some i.
Proof.
  intros l i a c Hev Ha g Hg. apply holds_by_holder.
  destruct Ha as [-> | ->]; unfold ev_ok in Hev; simpl in Hev; rewrite Hg in Hev; exact Hev.
Qed.

Lemma drf : forall s, sched_ok [] s = true ->
  forall pre i a mid j b post c,
    s = pre ++ (i, a) :: mid ++ (j, b) :: post -> i <> j -> conflict a b c ->
    exists g m1 m2 m3, guard_of c = Some g /\ mid = m1 ++ (i, Rel g) :: m2 ++ (j, Acq g) :: m3.
Proof.
  intros s Hok pre i a mid j b post c Hs Hij Hc. subst s.
  rewrite sched_ok_app in Hok. apply andb_true_iff in Hok. destruct Hok as [_ Hok].
  simpl in Hok. apply andb_true_iff in Hok. destruct Hok as [Ha Hok].
  rewrite sched_ok_app in Hok. apply andb_true_iff in Hok. destruct Hok as [Hmid Hok].
  simpl in Hok. apply andb_true_iff in Hok. destruct Hok as [Hb _].
  set (l0 := run_locks [] pre) in *.
  assert (Haa : a = Rd c \/ a = Wr c) by (destruct Hc as [[-> _]|[-> _]]; auto).
  assert (Hbb : b = Rd c \/ b = Wr c) by (destruct Hc as [[_ [->| ->]]|[_ ->]]; auto).
  assert (Hg : exists g, guard_of c = Some g).
  { destruct Hc as [[-> _]|[_ ->]].
    - unfold ev_ok in Ha; simpl in Ha. destruct (guard_of c) as [g|]; [eauto|discriminate].
    - unfold ev_ok in Hb; simpl in Hb. destruct (guard_of c) as [g|]; [eauto|discriminate]. }
  destruct Hg as [g Hg]. exists g.
  assert (Hl1 : ev_locks l0 (i, a) = l0) by (destruct Haa as [-> | ->]; reflexivity).
  rewrite Hl1 in *.
  pose proof (access_guard _ _ _ _ Ha Haa g Hg) as Hi.
  pose proof (access_guard _ _ _ _ Hb Hbb g Hg) as Hj.
  destruct (release_between g i mid l0 Hi Hmid) as [m1 [m2 [Hm Hn]]].
  { rewrite Hj. intros H. inversion H. congruence. }
  subst mid.
  replace (m1 ++ (i, Rel g) :: m2) with ((m1 ++ [(i, Rel g)]) ++ m2) in Hmid, Hj by (rewrite <- app_assoc; reflexivity).
  rewrite sched_ok_app in Hmid. apply andb_true_iff in Hmid. destruct Hmid as [_ Hm2].
  rewrite run_locks_app in Hj.
  destruct (acquire_between g j m2 _ ltac:(rewrite Hn; discriminate) Hm2 Hj) as [m2' [m3 Hm2']].
  exists m1, m2', m3. split; [exact Hg|]. rewrite Hm2'. reflexivity.
Qed.

(* ---------- per-thread discipline + lock semantics = a disciplined schedule ---------- *)
Definition upd (H : N -> list guard) (i : N) (h : list guard) : N -> list guard :=
  fun j => if N.eqb j i then h else H j.

Definition agree (H : N -> list guard) (l : locks) : Prop :=
  forall i g, holds g (H i) = holds_by i g l.

Lemma proj_cons_same : forall i a s, proj i ((i, a) :: s) = a :: proj i s.
Proof. intros. unfold proj. simpl. rewrite N.eqb_refl. reflexivity. Qed.
Lemma proj_cons_other : forall i k a s, k <> i -> proj i ((k, a) :: s) = proj i s.
Proof. intros i k a s H. unfold proj. simpl. apply N.eqb_neq in H. rewrite H. reflexivity. Qed.

Lemma holds_drop : forall g g' h, holds g (drop g' h) = negb (guard_eqb g' g) && holds g h.
Proof.
  intros g g' h. unfold holds, drop. induction h as [|x r IH]; simpl.
  - rewrite andb_false_r. reflexivity.
  - destruct (guard_eqb g' x) eqn:E; simpl.
    + rewrite IH. apply guard_eqb_eq in E. subst x. rewrite (guard_eqb_sym g g').
      destruct (guard_eqb g' g); reflexivity.
    + rewrite IH. destruct (guard_eqb g x) eqn:E2; simpl.
      * apply guard_eqb_eq in E2. subst x. rewrite E. reflexivity.
      * reflexivity.
Qed.

Lemma interleaving_ok : forall s l H,
  agree H l -> sched_lock_ok l s = true -> (forall i, disciplined (H i) (proj i s) = true) -> sched_ok l s = true.
Proof.
  induction s as [|[k a] s IH]; intros l H Hag Hlk Hd; [reflexivity|].
  simpl in Hlk. apply andb_true_iff in Hlk. destruct Hlk as [Hev Hlk].
  pose proof (Hd k) as Hk. rewrite proj_cons_same in Hk. simpl in Hk.
  simpl. apply andb_true_iff.
  destruct a as [g|g|c|c]; apply andb_true_iff in Hk; destruct Hk as [Hka Hkr].
  - split; [exact Hev|].
    apply (IH _ (upd H k (g :: H k))); [| exact Hlk |].
    + intros i g2. unfold upd, ev_locks, holds_by; simpl.
      destruct (N.eqb i k) eqn:Eik.
      * apply N.eqb_eq in Eik. subst i. unfold holds; simpl. destruct (guard_eqb g2 g) eqn:E; simpl.
        -- rewrite N.eqb_refl. reflexivity.
        -- apply (Hag k g2).
      * destruct (guard_eqb g2 g) eqn:E.
        -- apply guard_eqb_eq in E. subst g2. rewrite Eik.
           unfold ev_lock_ok in Hev; simpl in Hev. pose proof (Hag i g) as Hi. unfold holds_by in Hi.
           destruct (holder g l); [discriminate|]. exact Hi.
        -- apply (Hag i g2).
    + intros i. unfold upd. destruct (N.eqb i k) eqn:Eik.
      * apply N.eqb_eq in Eik. subst i. exact Hkr.
      * apply N.eqb_neq in Eik. pose proof (Hd i) as Hi. rewrite proj_cons_other in Hi by congruence. exact Hi.
  - split; [exact Hev|].
    apply (IH _ (upd H k (drop g (H k)))); [| exact Hlk |].
    + intros i g2. unfold upd, ev_locks, holds_by; simpl.
      unfold ev_lock_ok in Hev; simpl in Hev. apply holds_by_holder in Hev.
      destruct (guard_eqb g2 g) eqn:E.
      * apply guard_eqb_eq in E. subst g2. rewrite holder_unlock_same.
        destruct (N.eqb i k) eqn:Eik.
        -- rewrite holds_drop, guard_eqb_refl. reflexivity.
        -- pose proof (Hag i g) as Hi. unfold holds_by in Hi. rewrite Hev in Hi. rewrite Eik in Hi. exact Hi.
      * apply guard_eqb_neq in E. rewrite holder_unlock_other by assumption.
        destruct (N.eqb i k) eqn:Eik.
        -- apply N.eqb_eq in Eik. subst i. rewrite holds_drop.
           assert (E' : guard_eqb g g2 = false) by (apply guard_eqb_neq; congruence). rewrite E'. simpl. apply (Hag k g2).
        -- apply (Hag i g2).
    + intros i. unfold upd. destruct (N.eqb i k) eqn:Eik.
      * apply N.eqb_eq in Eik. subst i. exact Hkr.
      * apply N.eqb_neq in Eik. pose proof (Hd i) as Hi. rewrite proj_cons_other in Hi by congruence. exact Hi.
  - split.
    + unfold ev_ok; simpl. destruct (guard_of c) as [g|]; [|reflexivity]. rewrite <- (Hag k g). exact Hka.
    + apply (IH _ H); [exact Hag | exact Hlk |].
      intros i. destruct (N.eq_dec i k) as [->|Hne].
      * exact Hkr.
      * pose proof (Hd i) as Hi. rewrite proj_cons_other in Hi by congruence. exact Hi.
  - split.
    + unfold ev_ok; simpl. destruct (guard_of c) as [g|]; [|discriminate]. rewrite <- (Hag k g). exact Hka.
    + apply (IH _ H); [exact Hag | exact Hlk |].
      intros i. destruct (N.eq_dec i k) as [->|Hne].
      * exact Hkr.
      * pose proof (Hd i) as Hi. rewrite proj_cons_other in Hi by congruence. exact Hi.
Qed.

Lemma drf_threads : forall s,
  sched_lock_ok [] s = true -> (forall i, disciplined [] (proj i s) = true) ->
  forall pre i a mid j b post c,
    s = pre ++ (i, a) :: mid ++ (j, b) :: post -> i <> j -> conflict a b c ->
    exists g m1 m2 m3, guard_of c = Some g /\ mid = m1 ++ (i, Rel g) :: m2 ++ (j, Acq g) :: m3.
Proof.
  intros s Hlk Hd. apply drf. apply (interleaving_ok s [] (fun _ => [])); [|exact Hlk|exact Hd].
  intros i g. reflexivity.
Qed.

(* ---------- (3) isolation: what a cache holds is a function of the immutable part ---------- *)
Section Isolation.
Variable V : Type.
Variable compute : cell -> V.              (* the value the code computes for a cell from the immutable schema *)

Definition vstate := list (cell * V).
Fixpoint vfind (c : cell) (st : vstate) : option V :=
  match st with [] => None | (c', v) :: r => if cell_eqb c c' then Some v else vfind c r end.
Definition coherent (st : vstate) : Prop := forall c v, vfind c st = Some v -> v = compute c.
(* a lazily cached lookup: use the cached value, else compute and store *)
Definition vuse (st : vstate) (c : cell) : V * vstate :=
  match vfind c st with Some v => (v, st) | None => (compute c, (c, compute c) :: st) end.
Definition vuse_acc (acc : list V * vstate) (c : cell) : list V * vstate :=
  let '(v, st') := vuse (snd acc) c in (fst acc ++ [v], st').

Lemma cell_eqb_eq : forall a b, cell_eqb a b = true -> a = b.
Proof. destruct a, b; simpl; try discriminate; intros H; apply N.eqb_eq in H; subst; reflexivity. Qed.

Lemma vuse_isolated : forall st c, coherent st -> fst (vuse st c) = compute c /\ coherent (snd (vuse st c)).
Proof.
  intros st c Hco. unfold vuse. destruct (vfind c st) as [v|] eqn:E; simpl.
  - split; [apply Hco; exact E|exact Hco].
  - split; [reflexivity|]. intros c' v'. simpl. destruct (cell_eqb c' c) eqn:Ec.
    + intros H. inversion H. apply cell_eqb_eq in Ec. subst. reflexivity.
    + apply Hco.
Qed.

Lemma history_isolated : forall cs acc, coherent (snd acc) ->
  fst (fold_left vuse_acc cs acc) = fst acc ++ map compute cs /\ coherent (snd (fold_left vuse_acc cs acc)).
Proof.
  induction cs as [|c cs IH]; intros acc Hco; simpl.
  - rewrite app_nil_r. auto.
  - destruct (vuse_isolated (snd acc) c Hco) as [Hv Hc'].
    unfold vuse_acc at 2 4. destruct (vuse (snd acc) c) as [v st'] eqn:E. simpl in Hv, Hc'.
    destruct (IH (fst acc ++ [v], st') Hc') as [I1 I2]. simpl in I1.
    split; [|exact I2]. rewrite I1, <- app_assoc, Hv. reflexivity.
Qed.
End Isolation.

(* ---------- (4) the unrepaired discipline is racy ---------- *)
Definition unordered_conflict (s : list event) : Prop :=
  exists pre i a mid j b post c,
    s = pre ++ (i, a) :: mid ++ (j, b) :: post /\ i <> j /\ conflict a b c /\
    (forall g, ~ exists m1 m2 m3, mid = m1 ++ (i, Rel g) :: m2 ++ (j, Acq g) :: m3).

Definition sh_mults : shape := mkShape (fun _ => true) (fun _ => true).
Definition t_parse_prefix (u : N) : trace := fst (run_prims sh_mults false cs_empty (units_prims u (UParse false))).

Definition race_witness (u : N) : list event :=
  [(1, Rd (CUnitsRe u)); (2, Rd (CUnitsRe u)); (1, Rd (CUnitsSorted u)); (2, Rd (CUnitsSorted u));
   (1, Wr (CUnitsSorted u)); (2, Wr (CUnitsSorted u)); (1, Wr (CUnitsRe u)); (2, Wr (CUnitsRe u));
   (1, Rd (CUnitsSorted u)); (2, Rd (CUnitsSorted u))]%N.

Lemma race_refuted :
  sched_lock_ok [] (race_witness 0) = true /\
  proj 1 (race_witness 0) = t_parse_prefix 0 /\ proj 2 (race_witness 0) = t_parse_prefix 0 /\
  unordered_conflict (race_witness 0).
Proof.
  split; [reflexivity|]. split; [reflexivity|]. split; [reflexivity|].
  exists [(1, Rd (CUnitsRe 0)); (2, Rd (CUnitsRe 0)); (1, Rd (CUnitsSorted 0)); (2, Rd (CUnitsSorted 0));
          (1, Wr (CUnitsSorted 0)); (2, Wr (CUnitsSorted 0))]%N,
         1%N, (Wr (CUnitsRe 0)), [], 2%N, (Wr (CUnitsRe 0)),
         [(1, Rd (CUnitsSorted 0)); (2, Rd (CUnitsSorted 0))]%N, (CUnitsRe 0).
  split; [reflexivity|]. split; [discriminate|]. split; [left; auto|].
  intros g [m1 [m2 [m3 H]]]. destruct m1; discriminate.
Qed.

(* the same two operations in the repaired code cannot be scheduled that way: their traces are
   disciplined, so every lock-respecting interleaving is race free (drf_threads) *)
Lemma repaired_parse_disciplined : forall sh u st,
  disciplined [] (fst (run_prims sh true st (units_prims u (UParse false)))) = true.
Proof. intros. apply footprint_prims. Qed.
