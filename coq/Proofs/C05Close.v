(* Proofs/C05Close.v — PROGRESS and REFINEMENT of the composition ATP/System.v for sessions WITH Close (and, uniformly,
   without): in a state in which no label of the composed system is enabled, every Execute has returned CallStep of
   its own input AND (if the session calls Close) Close has returned nil, the wait group is 0, the read loop has exited
   and every signal writer has exited.

   Relative to Proofs/C05Live.v (close = false) two things are new.

   1. The FIFO-order invariant.  `stream sigma := inq (server) ++ to_server (client)` is the client -> server FIFO as a
      whole (the pipe step does not change it).  CInv:
        c_sent    once Close has cancelled (closer beyond KCancel) every Execute has written its work-start
                  (Close's first step waits for that, and "sent" is stable);
        c_past    client-done is somewhere in the stream, or the server has closed its stdin, only if Close is beyond
                  KCancel;
        c_fifo    NO ACCEPTED WORK-START BEHIND CLIENT-DONE: for every run id r the number of accepted work-starts of r
                  in the stream after the first client-done (`acc_after`) is 0;
        c_closed  once the server has consumed client-done (stdin_closed) no accepted work-start is left in the stream.
      Hence a work-start that has reached the server's input is always consumed by the read loop BEFORE the loop stops
      reading, and the server model's accounting (ServerInv.TermInv) applies to it.
   2. `server_idle2` (Proofs/C05ServerIdle2.v): the idle lemma with the run() goroutine allowed in RDefer / RGone.

   The Close half of the client (wait group, signal writers, read loop) is the client model's own theorem
   (ATPClientFinal.final_closed) re-proved for states that are quiet for the CLIENT goroutines only (`quiet_closed`):
   the composition's final states are not final for the client model's scripted peer. *)
From Coq Require Import Lia.
From Verif Require Import Base.Prelude Base.Str ATP.Msg ATP.System.
From Verif Require Proofs.ATPClient Proofs.ATPClientInv Proofs.ATPClientFinal Proofs.ServerInv Proofs.Server
  Proofs.ServerRoute Proofs.C05Vocab Proofs.C05Client Proofs.C05Server Proofs.C05ClientAbs Proofs.C05ServerIdle
  Proofs.C05ServerIdle2.
From Verif Require Import Proofs.C05System Proofs.C05Live.
Local Open Scope string_scope.
Local Open Scope list_scope.
Local Open Scope nat_scope.

Module CP := Verif.Proofs.ATPClient.
Module SD2 := Verif.Proofs.C05ServerIdle2.

(* ---------------------------------------------------------------------------------------------- *)
(* A. the client model: "every Execute has written its work-start" is stable; Close waits for it   *)
(* ---------------------------------------------------------------------------------------------- *)

Definition allsent (s : C.state Z) : bool := forallb (@C.caller_sent Z) (C.callers s).
Definition closer_past (k : C.kpc) : bool := match k with C.KNone | C.KCancel => false | _ => true end.
Definition sent_pc (p : C.cpc Z) : bool := match p with C.CWait | C.CWaiting | C.CDone _ => true | _ => false end.

Lemma forallb_upd {A} (f : A -> bool) : forall (l : list A) i v,
  forallb f l = true -> f v = true -> forallb f (C.upd l i v) = true.
Proof.
  induction l as [|a l IH]; intros [|i] v H Hv; cbn in *; auto; apply andb_true_iff in H; destruct H as [H1 H2];
    apply andb_true_iff; split; auto.
Qed.

Lemma allsent_cv3 : forall l : list (C.caller Z),
  forallb (@C.caller_sent Z) l = forallb (fun p => sent_pc (snd p)) (map CC.cv3 l).
Proof. induction l as [|a l IH]; cbn; auto. rewrite IH. reflexivity. Qed.

Lemma sent_step : forall (s s' : C.state Z) l, C.step s l = Some s' -> allsent s = true -> allsent s' = true.
Proof.
  intros s s' l H Ha. unfold allsent in *.
  destruct (CC.step_cv3 _ _ _ H) as [Ev|(i & c0 & c' & -> & Hc & _ & _ & Ecs)].
  - rewrite allsent_cv3, Ev, <- allsent_cv3. exact Ha.
  - assert (C.caller_sent c0 = true) as Hs0.
    { rewrite forallb_forall in Ha. apply Ha. eapply nth_error_In; eauto. }
    cbn [C.step] in H. unfold C.step_caller in H. rewrite Hc in H.
    unfold C.caller_sent in Hs0.
    destruct (C.c_pc c0) eqn:Hpc; try discriminate Hs0.
    + destruct (alookup (C.c_run c0) (C.entries s)) as [[v|]|]; injection H as <-; unfold C.set_caller;
        cbn [C.callers C.set_callers C.set_entries]; (apply forallb_upd; [exact Ha|reflexivity]).
    + destruct (alookup (C.c_run c0) (C.entries s)) as [[v|]|]; try discriminate H; injection H as <-; unfold C.set_caller;
        cbn [C.callers C.set_callers C.set_entries]; (apply forallb_upd; [exact Ha|reflexivity]).
    + discriminate H.
Qed.

Lemma csent_step : forall (s s' : C.state Z) l, C.step s l = Some s' ->
  (closer_past (C.closer s) = true -> allsent s = true) ->
  (closer_past (C.closer s') = true -> allsent s' = true) /\
  (closer_past (C.closer s) = true -> closer_past (C.closer s') = true).
Proof.
  intros s s' l H Hinv.
  assert (l = C.LCloser \/ l = C.LTimeout \/ (l <> C.LCloser /\ l <> C.LTimeout)) as [->|[->|[N1 N2]]].
  { destruct l; auto; right; right; split; discriminate. }
  - cbn [C.step] in H. unfold C.step_closer in H. unfold allsent in *.
    destruct (C.closer s) eqn:Hk; try discriminate H.
    + destruct (forallb _ _) eqn:Hall; [|discriminate H]. injection H as <-. cbn. split; auto.
    + destruct (C.cdone s); injection H as <-; cbn; split; auto.
    + destruct (C.cwrite s ClientDone) as [s1|] eqn:Hw; injection H as <-; cbn.
      * apply CI.cwrite_fields in Hw. destruct Hw as (E1 & _). rewrite E1. split; auto.
      * split; auto.
    + destruct (Nat.eqb (C.wg s) 0); [|discriminate H]. injection H as <-. cbn. split; auto.
    + destruct (Nat.eqb (C.wg s) 0); [|discriminate H]. injection H as <-. cbn. split; auto.
  - cbn [C.step] in H. unfold C.step_timeout in H. unfold allsent in *.
    destruct (C.closer s) eqn:Hk; try discriminate H.
    destruct (Nat.eqb (C.wg s) 0); [discriminate H|]. injection H as <-. cbn. split; auto.
  - destruct (CI.step_frameK _ _ _ _ H N1 N2) as (E1 & _). rewrite E1. split; auto.
    intros Hp. eapply sent_step; eauto.
Qed.

(* a state that is quiet for the client goroutines, with every Execute returned: the Close half *)
Lemma quiet_closed : forall s0 : C.state Z, CI.inv s0 -> C.wr_left s0 = None ->
  (forall l, client_label l = true -> C.step s0 l = None) ->
  (forall i c0, nth_error (C.callers s0) i = Some c0 -> C.caller_done c0 = true) ->
  C.closer s0 <> C.KNone ->
  C.closer s0 = C.KDone C.CloseOk /\ C.wg s0 = 0 /\ C.loop_live (C.cur s0) = false /\
  (forall i c0, nth_error (C.callers s0) i = Some c0 -> C.c_spc c0 = C.SNone \/ C.c_spc c0 = C.SExit).
Proof.
  intros s0 I Hw F Hdone Hk.
  assert (C.has_pending (C.entries s0) = false) as Hnp.
  { destruct (C.has_pending (C.entries s0)) eqn:Hp; auto. exfalso.
    destruct (CF.has_pending_key _ _ Hp) as [r Hm].
    destruct (CI.e_owner _ _ (CI.i_E _ _ I) _ Hm) as (i & c0 & Hc & _ & [Hin|[_ Hz]]).
    - pose proof (Hdone _ _ Hc) as Hd. unfold C.caller_done in Hd. destruct (C.c_pc c0); cbn in Hin; discriminate.
    - congruence. }
  assert (C.loop_live (C.cur s0) = false) as Hloop.
  { destruct (C.loop_live (C.cur s0)) eqn:Hl; auto. exfalso. unfold C.loop_live in Hl.
    destruct (C.cur s0) as [lo|] eqn:Hcur; [|discriminate].
    apply (CF.loop_enabled _ s0 lo Hcur).
    - intros E. rewrite E in Hl. discriminate.
    - intros Hlp Hb Hf. pose proof (CP.a_decode _ _ (CI.i_A _ _ I)) as Hd. unfold CP.decode_has_pending in Hd.
      rewrite Hcur, Hlp in Hd. rewrite Hnp in Hd. discriminate.
    - exact (F (C.LLoop 0) eq_refl). }
  assert (C.closer s0 <> C.KCancel) as Hk2.
  { intros E. pose proof (F C.LCloser eq_refl) as Hs. cbn [C.step] in Hs. unfold C.step_closer in Hs. rewrite E in Hs.
    assert (forallb (@C.caller_sent Z) (C.callers s0) = true) as Hall.
    { apply forallb_forall. intros c0 Hin. apply In_nth_error in Hin. destruct Hin as [i Hi]. pose proof (Hdone _ _ Hi) as Hd.
      unfold C.caller_done in Hd. unfold C.caller_sent. destruct (C.c_pc c0); auto; discriminate. }
    rewrite Hall in Hs. discriminate. }
  assert (C.cancelled s0 = true) as Hcan.
  { pose proof (CI.k_cancel _ _ (CI.i_K _ _ I)) as K. destruct (C.closer s0); auto; congruence. }
  assert (forall i c0, nth_error (C.callers s0) i = Some c0 -> C.c_spc c0 = C.SNone \/ C.c_spc c0 = C.SExit) as Hq.
  { intros i c0 Hi. pose proof (F (C.LSig i) eq_refl) as Hs. cbn [C.step] in Hs. unfold C.step_sig in Hs. rewrite Hi in Hs.
    destruct (C.c_spc c0); auto; [destruct (C.cdone s0); discriminate|rewrite Hcan in Hs; discriminate]. }
  assert (C.wg s0 = 0) as Hwg.
  { rewrite (CI.w_wg _ _ (CI.i_W _ _ I)), Hloop, (CF.n_sig_zero _ _ Hq). reflexivity. }
  split; [|split; [exact Hwg|split; [exact Hloop|exact Hq]]].
  pose proof (CI.k_nofail _ _ (CI.i_K _ _ I) Hw) as K2.
  pose proof (F C.LCloser eq_refl) as Hs. cbn [C.step] in Hs. unfold C.step_closer in Hs.
  destruct (C.closer s0) as [| | | | | |[| |]]; try congruence; try (exfalso; exact K2).
  - destruct (C.cdone s0); discriminate.
  - unfold C.cwrite in Hs. rewrite Hw in Hs. discriminate.
  - rewrite Hwg in Hs. discriminate.
Qed.

(* ---------------------------------------------------------------------------------------------- *)
(* B. the client -> server FIFO as a whole                                                          *)
(* ---------------------------------------------------------------------------------------------- *)

Definition is_cd (ev : event Z) : bool := match ev with EvMsg ClientDone => true | _ => false end.
Definition has_cd (l : list (event Z)) : bool := existsb is_cd l.
(* accepted work-starts of run r behind the first client-done *)
Fixpoint acc_after (r : runid) (l : list (event Z)) : nat :=
  match l with [] => 0 | ev :: t => if is_cd ev then nacc r t else acc_after r t end.

Definition stream (s : sstate) : list (event Z) := S.inq (sv s) ++ map (@EvMsg Z) (C.to_server (cl s)).

Lemma nacc_cons : forall r ev l, nacc r (ev :: l) = SI.ev_accepted r ev + nacc r l.
Proof. reflexivity. Qed.
Lemma nacc_app : forall r l1 l2, nacc r (l1 ++ l2) = nacc r l1 + nacc r l2.
Proof. intros. unfold nacc. apply SI.sumf_app. Qed.
Lemma nacc_snoc : forall r l x, nacc r (l ++ [x]) = nacc r l + SI.ev_accepted r x.
Proof. intros. unfold nacc. apply SI.sumf_snoc. Qed.
Lemma nacc_msgs : forall r l, nacc r (map (@EvMsg Z) l) = SI.sumf (wsr r) l.
Proof. intros. unfold nacc, SI.sumf. rewrite map_map. reflexivity. Qed.

Lemma has_cd_cons : forall ev l, has_cd (ev :: l) = is_cd ev || has_cd l.
Proof. reflexivity. Qed.
Lemma has_cd_snoc : forall l x, has_cd (l ++ [x]) = has_cd l || is_cd x.
Proof. intros. unfold has_cd. rewrite existsb_app. cbn. rewrite orb_false_r. reflexivity. Qed.

Lemma acc_after_snoc : forall r l x,
  acc_after r (l ++ [x]) = acc_after r l + (if has_cd l then SI.ev_accepted r x else 0).
Proof.
  intros r l x. induction l as [|a l IH].
  - cbn. destruct (is_cd x); reflexivity.
  - cbn [app acc_after]. rewrite has_cd_cons. destruct (is_cd a); cbn [orb].
    + apply nacc_snoc.
    + exact IH.
Qed.

Lemma acc_after_le : forall r l, acc_after r l <= nacc r l.
Proof.
  intros r l. induction l as [|a l IH]; [cbn; lia|]. cbn [acc_after]. rewrite nacc_cons. destruct (is_cd a); lia.
Qed.

Lemma acc_after_tail : forall r ev t, acc_after r (ev :: t) = 0 -> acc_after r t = 0.
Proof. intros r ev t H. cbn [acc_after] in H. destruct (is_cd ev); [pose proof (acc_after_le r t); lia|exact H]. Qed.

Lemma stream_snoc : forall s cs' m, C.to_server cs' = C.to_server (cl s) ++ [m] ->
  stream (mkSys cs' (sv s)) = stream s ++ [EvMsg m].
Proof. intros s cs' m E. unfold stream. cbn [cl sv]. rewrite E, map_app, app_assoc. reflexivity. Qed.

Record CInv (s : sstate) : Prop := mkCInv {
  c_sent : closer_past (C.closer (cl s)) = true -> allsent (cl s) = true;
  c_past : has_cd (stream s) = true \/ S.stdin_closed (sv s) = true -> closer_past (C.closer (cl s)) = true;
  c_fifo : forall r, acc_after r (stream s) = 0;
  c_closed : S.stdin_closed (sv s) = true -> forall r, nacc r (stream s) = 0 }.

Lemma cinv_client : forall s l cs', CInv s -> client_label l = true -> C.step (cl s) l = Some cs' ->
  CInv (mkSys cs' (sv s)).
Proof.
  intros s l cs' [K1 K2 K3 K4] Hl Hs.
  destruct (csent_step _ _ _ Hs K1) as [Hsent' Hpast'].
  assert (forall x, C.to_server cs' = C.to_server (cl s) ++ [x] -> (forall r, SI.ev_accepted r (EvMsg x) = 0) ->
            (is_cd (EvMsg x) = true -> closer_past (C.closer cs') = true) -> CInv (mkSys cs' (sv s))) as Kapp.
  { intros x E Hx Hcd. constructor; cbn [cl sv].
    - exact Hsent'.
    - rewrite (stream_snoc _ _ _ E), has_cd_snoc. intros [Hc|Hc]; [|apply Hpast'; apply K2; auto].
      apply orb_true_iff in Hc. destruct Hc as [Hc|Hc]; [apply Hpast'; apply K2; auto|auto].
    - intros r. rewrite (stream_snoc _ _ _ E), acc_after_snoc, Hx, K3. destruct (has_cd (stream s)); reflexivity.
    - intros Hc r. rewrite (stream_snoc _ _ _ E), nacc_snoc, Hx, (K4 Hc r). reflexivity. }
  destruct (CA.step_to_server2 _ _ _ _ Hs) as [E|[(m & E & ->)|[(i & c0 & Hc & Hp & E)|[(r0 & d & E)|(Hk & E)]]]].
  - assert (stream (mkSys cs' (sv s)) = stream s) as Es by (unfold stream; cbn [cl sv]; rewrite E; reflexivity).
    constructor; cbn [cl sv]; rewrite ?Es.
    + exact Hsent'.
    + intros Hx. apply Hpast', K2. exact Hx.
    + exact K3.
    + exact K4.
  - discriminate Hl.
  - assert (closer_past (C.closer (cl s)) = false) as Hnp.
    { destruct (closer_past (C.closer (cl s))) eqn:Ep; auto. exfalso. specialize (K1 eq_refl). unfold allsent in K1.
      rewrite forallb_forall in K1. specialize (K1 c0 (nth_error_In _ _ Hc)). unfold C.caller_sent in K1.
      rewrite Hp in K1. discriminate. }
    assert (has_cd (stream s) = false /\ S.stdin_closed (sv s) <> true) as [Hn1 Hn2].
    { split.
      - destruct (has_cd (stream s)) eqn:Eh; auto. rewrite K2 in Hnp by auto. discriminate.
      - intros Ec. rewrite K2 in Hnp by auto. discriminate. }
    constructor; cbn [cl sv].
    + exact Hsent'.
    + rewrite (stream_snoc _ _ _ E), has_cd_snoc, Hn1. cbn. intros [Hx|Hx]; [discriminate|contradiction].
    + intros r. rewrite (stream_snoc _ _ _ E), acc_after_snoc, Hn1, K3. reflexivity.
    + intros Hx. contradiction.
  - apply (Kapp _ E); [intros r; reflexivity|intros X; discriminate X].
  - apply (Kapp _ E); [intros r; reflexivity|]. intros _. apply Hpast'. rewrite Hk. reflexivity.
Qed.

Lemma cinv_pipe : forall s m q cs', CInv s -> C.to_server (cl s) = m :: q ->
  C.step (cl s) C.LPeerAccept = Some cs' -> CInv (mkSys cs' (S.set_inq (S.inq (sv s) ++ [EvMsg m]) (sv s))).
Proof.
  intros s m q cs' [K1 K2 K3 K4] Hts Hs.
  destruct (csent_step _ _ _ Hs K1) as [Hsent' Hpast'].
  destruct (CA.step_accept_spec _ _ _ Hs) as (m' & q' & Hts' & Eq & _). rewrite Hts in Hts'. injection Hts' as <- <-.
  assert (stream (mkSys cs' (S.set_inq (S.inq (sv s) ++ [EvMsg m]) (sv s))) = stream s) as Es.
  { unfold stream. cbn [cl sv S.inq S.set_inq]. rewrite Eq, Hts. cbn [map]. rewrite <- app_assoc. reflexivity. }
  constructor; cbn [cl sv S.stdin_closed S.set_inq]; rewrite ?Es.
  - exact Hsent'.
  - intros Hx. apply Hpast', K2. exact Hx.
  - exact K3.
  - exact K4.
Qed.

Lemma okin_not_bad : forall cls id r, CS.okin cls (EvMsg (BadPayload id r)) -> False.
Proof.
  intros cls id r (m & Em & Hm). injection Em as <-.
  destruct Hm as [(r0 & t & _ & Hm)|[(r0 & d & Hm)|Hm]]; discriminate Hm.
Qed.

Lemma cinv_server : forall (c : S.cfg) cls s l ss' evs, CS.OrigInv c cls (sv s) -> CInv s ->
  (forall ev, l <> S.LArrive ev) -> S.step c (sv s) l = Some ss' -> CInv (mkSys (push (cl s) evs) ss').
Proof.
  intros c cls s l ss' evs IOr [K1 K2 K3 K4] Hna Hs.
  destruct (SD.step_io _ _ _ _ Hs) as [(ev & -> & _)|[(E1 & E2 & [E3|E3])|[(ev & E1 & E2 & _ & E3)|E3]]].
  - exfalso. eapply Hna; reflexivity.
  - assert (stream (mkSys (push (cl s) evs) ss') = stream s) as Es by (unfold stream; cbn [cl sv]; rewrite E1; reflexivity).
    constructor; cbn [cl sv]; rewrite ?Es, ?E3.
    + exact K1.
    + exact K2.
    + exact K3.
    + exact K4.
  - exfalso. pose proof (CS.o_hp _ _ _ IOr) as Hh. rewrite E3 in Hh. exact Hh.
  - assert (stream s = ev :: stream (mkSys (push (cl s) evs) ss')) as Es by (unfold stream; cbn [cl sv]; rewrite E1; reflexivity).
    assert (CS.okin cls ev) as Hev.
    { pose proof (CS.o_inq _ _ _ IOr) as F. rewrite E1 in F. inversion F; assumption. }
    constructor; cbn [cl sv].
    + exact K1.
    + intros [Hx|Hx].
      * apply K2. left. rewrite Es, has_cd_cons, Hx. apply orb_true_r.
      * destruct E3 as [E3|[E3|(id & r & E3)]].
        -- apply K2. right. congruence.
        -- apply K2. left. rewrite Es, E3. reflexivity.
        -- exfalso. rewrite E3 in Hev. eapply okin_not_bad; eauto.
    + intros r. apply (acc_after_tail r ev). rewrite <- Es. apply K3.
    + intros Hx r. destruct E3 as [E3|[E3|(id & r' & E3)]].
      * rewrite E3 in Hx. pose proof (K4 Hx r) as Hn. rewrite Es, nacc_cons in Hn. lia.
      * pose proof (K3 r) as Hn. rewrite Es, E3 in Hn. exact Hn.
      * exfalso. rewrite E3 in Hev. eapply okin_not_bad; eauto.
  - exfalso. pose proof (CS.o_rl _ _ _ IOr) as R. unfold CS.okrl in R. rewrite E3 in R. exact R.
Qed.

(* ---------------------------------------------------------------------------------------------- *)
(* C. the invariant of the composition, for sessions with or without Close                          *)
(* ---------------------------------------------------------------------------------------------- *)

Section C05Close.
Variable g : scfg.
Variable callspecs : list (C.callspec Z).
Variable close : bool.
Hypothesis runs_named : forall x, In x callspecs -> C.cs_run x <> "".
Hypothesis session_wf : CI.wf_session (sys_session callspecs close).

Notation c := (sc_srv g).
Notation cls := (calls callspecs).
Notation SInv := (SInv g callspecs).
Notation plan_of := (plan_of g callspecs).
Notation abs := (abs g callspecs).

Let wf0 : CI.wf_session (sys_session callspecs false) := session_wf.
Let cls_named : forall r t, In (r, t) cls -> r <> "" := calls_named callspecs runs_named.
Let cls_nodup : NoDup (map fst cls) := calls_nodup callspecs close session_wf.

Record LInvC (s : sstate) : Prop := mkLInvC {
  lc_S : SInv s;
  lc_inv : CI.inv (abs s);
  lc_reach : SI.reachable c (sv s);
  lc_dead : C.p_dead (cl s) = false;
  lc_fault : C.p_fault (cl s) = None;
  lc_hist : Forall (CS.okin cls) (S.hist (sv s));
  lc_acc : forall r, r <> "" ->
             (str_in r (C.p_acc (cl s)) = true <-> 1 <= nacc r (S.inq (sv s)) + nacc r (S.hist (sv s)));
  lc_once : forall r, SI.sumf (wsr r) (C.to_server (cl s)) + nacc r (S.inq (sv s)) + nacc r (S.hist (sv s)) <= 1;
  lc_k : close = true -> C.closer (cl s) <> C.KNone;
  lc_C : CInv s }.

(* ---- steps of the client goroutines ---- *)
Lemma linvc_client : forall s l cs', LInvC s -> client_label l = true -> C.step (cl s) l = Some cs' ->
  LInvC (mkSys cs' (sv s)).
Proof.
  intros s l cs' I Hl Hs.
  assert (SInv (mkSys cs' (sv s))) as IS'.
  { eapply (sinv_step g callspecs runs_named s (YClient l)); [apply (lc_S _ I)|]. cbn. rewrite Hl, Hs. reflexivity. }
  pose proof (cinv_client _ _ _ (lc_C _ I) Hl Hs) as IC'.
  destruct I as [IS II IR ID IF IH IA IO IK IC].
  pose proof (client_label_nosend _ Hl) as Hns.
  destruct (CA.step_peer_frame _ _ _ _ Hs Hns) as (E1 & E2 & E3 & E4).
  assert (C.p_acc cs' = C.p_acc (cl s)) as Ea by (apply E4; intros ->; discriminate Hl).
  assert (C.step (abs s) l = Some (C.set_p_plan cs' (plan_of (sv s)))) as Ha.
  { unfold C05Live.abs. rewrite (CA.step_plan_comm _ _ _ _ Hns), Hs. reflexivity. }
  constructor; [exact IS'| |exact IR|cbn [cl sv]; congruence|cbn [cl sv]; congruence|exact IH| | | |exact IC']; cbn [cl sv].
  - eapply CI.inv_step; eauto.
  - intros r Hr. rewrite Ea. auto.
  - intros r. specialize (IO r).
    destruct (CA.step_to_server2 _ _ _ _ Hs) as [E|[(m & E & ->)|[(i & c0 & Hc & Hp & E)|[(r0 & d & E)|(Hk & E)]]]].
    + now rewrite E.
    + discriminate Hl.
    + rewrite E, SI.sumf_snoc. destruct (wsr r (WorkStart (C.c_run c0) "s" (C.c_input c0))) eqn:Ew; [lia|].
      pose proof (wsr_le r (WorkStart (C.c_run c0) "s" (C.c_input c0))) as Hle.
      destruct (wsr_ws r (C.c_run c0) (C.c_input c0)) as [Er Hrn]; [rewrite Ew; discriminate|].
      assert (nth_error (C.callers (abs s)) i = Some c0) as Hc' by exact Hc.
      destruct (CI.p_unsent _ _ (CI.i_P _ _ II) _ _ Hc' (or_intror Hp)) as (U1 & U2 & _).
      rewrite Er in U1, U2. cbn in U1, U2. rewrite (no_ws_sum _ _ U1).
      assert (nacc r (S.inq (sv s)) + nacc r (S.hist (sv s)) = 0) as Ez.
      { destruct (nacc r (S.inq (sv s)) + nacc r (S.hist (sv s))) eqn:En; auto.
        assert (str_in r (C.p_acc (cl s)) = true) as Hin by (apply (IA r Hrn); lia). congruence. }
      lia.
    + rewrite E, SI.sumf_snoc. cbn. lia.
    + rewrite E, SI.sumf_snoc. cbn. lia.
  - intros Hcl E. apply (IK Hcl). eapply CF.step_closer_none; eauto.
Qed.

(* ---- the pipe ---- *)
Lemma linvc_pipe : forall s m q cs' ss', LInvC s -> C.to_server (cl s) = m :: q ->
  C.step (cl s) C.LPeerAccept = Some cs' -> S.step c (sv s) (S.LArrive (EvMsg m)) = Some ss' -> LInvC (mkSys cs' ss').
Proof.
  intros s m q cs' ss' I Hts Hs Hv.
  assert (SInv (mkSys cs' ss')) as IS'.
  { eapply (sinv_step g callspecs runs_named s YPipe); [apply (lc_S _ I)|]. cbn [sys_step]. rewrite Hts, Hs, Hv. reflexivity. }
  pose proof (arrive_spec _ _ _ _ Hv) as E'. subst ss'.
  pose proof (cinv_pipe _ _ _ _ (lc_C _ I) Hts Hs) as IC'.
  destruct I as [IS II IR ID IF IH IA IO IK IC].
  assert (forall r, C.LPeerAccept <> C.LPeerSend r) as Hns by (intros r; discriminate).
  destruct (CA.step_peer_frame _ _ _ _ Hs Hns) as (E1 & E2 & E3 & _).
  destruct (CA.step_accept_spec _ _ _ Hs) as (m' & q' & Hts' & Eq & Ea). rewrite Hts in Hts'. injection Hts' as <- <-.
  assert (CC.cwm cls m) as Hm.
  { pose proof (CC.s_to _ _ _ _ (si_S _ _ _ IS)) as F. rewrite Hts in F. inversion F; auto. }
  assert (C.step (abs s) C.LPeerAccept = Some (C.set_p_plan cs' (plan_of (sv s)))) as Ha.
  { unfold C05Live.abs. rewrite (CA.step_plan_comm _ _ _ _ Hns), Hs. reflexivity. }
  constructor; sproj;
    [exact IS'| |eapply reach_step; eauto|congruence|congruence|exact IH| | | |exact IC'].
  - change (CI.inv (C.set_p_plan cs' (plan_of (sv s)))). eapply CI.inv_step; eauto.
  - intros r Hr. specialize (IA r Hr). rewrite Ea. unfold nacc in *. rewrite SI.sumf_snoc. fold (wsr r m).
    destruct Hm as [(r0 & t & Hin & ->)|[(r0 & d & ->)| ->]].
    + rewrite (wsr_ws_named r r0 t (cls_named _ _ Hin)). cbn [str_in].
      rewrite (String.eqb_sym r r0). destruct (String.eqb r0 r); cbn [orb SI.b2n]; [split; [lia|reflexivity]|].
      rewrite IA. split; lia.
    + change (wsr r (Signal r0 "sg" d)) with 0. cbn [str_in]. rewrite IA. split; lia.
    + change (wsr r ClientDone) with 0. cbn [str_in]. rewrite IA. split; lia.
  - intros r. specialize (IO r). rewrite Hts, SI.sumf_cons in IO. rewrite Eq. unfold nacc in *. rewrite SI.sumf_snoc.
    fold (wsr r m). lia.
  - intros Hcl E. apply (IK Hcl). eapply CF.step_closer_none; eauto.
Qed.

(* ---- a step of the server ---- *)
Lemma linvc_server : forall s l s', LInvC s -> CS.sys_label cls l -> (forall ev, l <> S.LArrive ev) ->
  srv_step g s l = Some s' -> LInvC s'.
Proof.
  intros s l s' I Hl Hna H.
  assert (SInv s') as IS' by (eapply (srv_step_inv g callspecs runs_named); eauto; apply (lc_S _ I)).
  destruct I as [IS II IR ID IF IH IA IO IK IC].
  unfold srv_step in H. destruct (S.step c (sv s) l) as [ss'|] eqn:Hs; [|discriminate]. injection H as <-.
  pose proof (si_O _ _ _ IS) as IOr.
  pose proof (cinv_server _ _ _ _ _ (List.concat (map (wire_of g (sv s) l) (new_out (sv s) ss'))) IOr IC Hna Hs) as IC'.
  assert (SI.reachable c ss') as IR' by (eapply reach_step; eauto).
  (* the input side *)
  assert (Forall (CS.okin cls) (S.hist ss') /\
          (forall r, nacc r (S.inq ss') + nacc r (S.hist ss') = nacc r (S.inq (sv s)) + nacc r (S.hist (sv s)))) as (IH' & En).
  { destruct (SD.step_io _ _ _ _ Hs) as [(ev & -> & _)|[(E1 & E2 & _)|[(ev & E1 & E2 & _ & _)|E3]]].
    - exfalso. eapply Hna; reflexivity.
    - rewrite E1, E2. auto.
    - pose proof (CS.o_inq _ _ _ IOr) as F. rewrite E1 in F. inversion F as [|? ? Hev Hq]; subst.
      split.
      + rewrite E2. apply Forall_app. split; auto.
      + intros r. unfold nacc. rewrite E1, E2, SI.sumf_cons, SI.sumf_snoc. lia.
    - exfalso. pose proof (CS.o_rl _ _ _ IOr) as R. unfold CS.okrl in R. rewrite E3 in R. exact R. }
  assert (forall r, r <> "" -> (str_in r (C.p_acc (cl s)) = true <-> 1 <= nacc r (S.inq ss') + nacc r (S.hist ss'))) as IA'.
  { intros r Hr. rewrite En. auto. }
  assert (forall r, SI.sumf (wsr r) (C.to_server (cl s)) + nacc r (S.inq ss') + nacc r (S.hist ss') <= 1) as IO'.
  { intros r. specialize (IO r). specialize (En r). lia. }
  (* the client model's invariant for the new abstraction, when the step writes the terminal message of run r *)
  assert (forall r t m, In (r, t) cls -> S.out ss' = S.out (sv s) ++ [m] -> SI.oterm r m = 1 ->
            (forall r', r' <> r -> SI.oterm r' m = 0) ->
            CI.inv (C.set_p_plan (push (cl s) [EvMsg (tmsg g r t)]) (plan_of ss'))) as Kemit.
  { intros r t m Hin E H1 H0. pose proof (cls_named _ _ Hin) as Hr.
    destruct (SI.term_reachable c r ss' Hr IR') as [TA TT].
    pose proof (okin_badws callspecs r _ IH') as Hb. pose proof (IO' r) as Ho. fold (nacc r (S.hist ss')) in TA.
    rewrite E, SI.sumf_snoc, H1 in TT.
    assert (SI.sumf (SI.oterm r) (S.out (sv s)) = 0) as Hz by lia.
    assert (1 <= nacc r (S.hist ss')) as Hacc by lia.
    assert (str_in r (C.p_acc (cl s)) = true) as Hin' by (apply (IA' r Hr); lia).
    assert (alookup r (C.p_plan (abs s)) = Some [EvMsg (tmsg g r t)]) as Hpl.
    { change (alookup r (plan_of (sv s)) = Some [EvMsg (tmsg g r t)]). unfold C05Live.plan_of.
      rewrite (alookup_map_entry (plan_ev g (sv s)) _ _ _ cls_nodup Hin). unfold plan_ev. cbn [fst snd]. rewrite Hz. reflexivity. }
    pose proof (CA.step_send_spec Z (abs s) r (EvMsg (tmsg g r t)) [] ID IF Hin' Hpl) as Hsend.
    rewrite (plan_emit g callspecs wf0 _ _ _ _ E H1 H0).
    rewrite (push_abs (cl s) _ (plan_of (sv s))).
    eapply CI.inv_step; [exact II|exact Hsend]. }
  constructor; sproj; [exact IS'| |exact IR'|exact ID|exact IF|exact IH'|exact IA'|exact IO'|exact IK|exact IC'].
  unfold C05Live.abs. cbn [cl sv]. unfold new_out.
  destruct (CS.step_out _ _ _ _ Hs) as [E|[(Hr & E)|[(i & w & o & -> & Hn & Hp & E)|(e & Hh & E)]]]; rewrite E.
  - rewrite skipn_len_self. cbn [map List.concat]. rewrite (plan_same g callspecs _ _ E).
    change (CI.inv (CA.pushev _ (abs s) [])). apply CA.inv_push. exact II.
  - exfalso. pose proof (CS.o_rl _ _ _ IOr) as R. unfold CS.okrl in R. rewrite Hr in R. exact R.
  - rewrite skipn_len_app. cbn [map List.concat wire_of]. rewrite Hn.
    pose proof (CS.Forall_nth_error _ _ _ _ (CS.o_workers _ _ _ IOr) Hn) as Hw. unfold CS.okw in Hw. rewrite Hp in Hw.
    destruct (S.w_kind w) as [st t|st sg ok]; [|contradiction]. destruct Hw as (-> & Hin & Ho). rewrite app_nil_r.
    replace (WorkDone (S.w_run w) "s" o (sc_data g t) "") with (tmsg g (S.w_run w) t) by (unfold tmsg; rewrite Ho; reflexivity).
    eapply Kemit; eauto.
    + cbn. rewrite String.eqb_refl. reflexivity.
    + intros r' Hne. cbn. destruct (String.eqb_spec (S.w_run w) r'); [congruence|reflexivity].
  - rewrite skipn_len_app. cbn [map List.concat wire_of app].
    pose proof (CS.o_hp _ _ _ IOr) as He. rewrite Hh in He.
    destruct He as [[E1 E2]|(r & t & Hin & -> & Hns)].
    + rewrite (plan_quiet g callspecs _ _ _ E); [|intros r t _; cbn; unfold SI.term; rewrite E1, andb_false_r; reflexivity].
      change (CI.inv (CA.pushev _ (abs s) [EvMsg (ErrMsg (S.se_run e) (S.se_sf e) (S.se_vf e))])). apply CA.inv_push. exact II.
    + cbn [S.se_run S.se_sf S.se_vf].
      replace (ErrMsg r true false) with (tmsg g r t).
      2:{ unfold tmsg. destruct (S.step_outcome c "s" t) eqn:Eo; auto. exfalso. eapply Hns; eauto. }
      eapply Kemit; eauto.
      * cbn. unfold SI.term. cbn. rewrite String.eqb_refl. reflexivity.
      * intros r' Hne. cbn. unfold SI.term. cbn. destruct (String.eqb_spec r r'); [congruence|reflexivity].
Qed.

Theorem linvc_step : forall s y s', LInvC s -> sys_step g s y = Some s' -> LInvC s'.
Proof.
  intros s y s' I H. destruct y as [l| |l|t]; cbn [sys_step] in H.
  - destruct (client_label l) eqn:Hl; [|discriminate].
    destruct (C.step (cl s) l) as [cs'|] eqn:Hs; [|discriminate]. injection H as <-. eapply linvc_client; eauto.
  - destruct (C.to_server (cl s)) as [|m q] eqn:Hts; [discriminate|].
    destruct (C.step (cl s) C.LPeerAccept) as [cs'|] eqn:Hs; [|discriminate].
    destruct (S.step c (sv s) (S.LArrive (EvMsg m))) as [ss'|] eqn:Hv; [|discriminate]. injection H as <-.
    eapply linvc_pipe; eauto.
  - destruct (S.is_internal l) eqn:Hl; [|discriminate]. eapply linvc_server; eauto.
    + destruct l; try discriminate Hl; exact Logic.I.
    + intros ev ->. discriminate Hl.
  - destruct (existsb _ _); [|discriminate]. eapply linvc_server; eauto; [exact Logic.I|intros ev; discriminate].
Qed.

Lemma linvc_init : LInvC (sys_init callspecs close).
Proof.
  constructor.
  - apply sinv_init; auto.
  - change (CI.inv (C.init (C.mkSession callspecs close (plan_of srv0) None None))). apply CI.inv_init.
    split; [exact session_wf|split].
    + intros x Hx. cbn. unfold CI.script_dec, C05Live.plan_of.
      assert (In (C.cs_run x, C.cs_input x) cls) as Hin by (unfold calls; apply in_map_iff; eauto).
      rewrite (alookup_map_entry (plan_ev g srv0) _ _ _ cls_nodup Hin). unfold plan_ev. cbn.
      rewrite resolves_tmsg. reflexivity.
    + exact Logic.I.
  - exists [S.LArrive (EvHello (Hello 3 true)); S.LRead; S.LRead]. apply srv0_reachable.
  - reflexivity.
  - reflexivity.
  - constructor.
  - intros r _. cbn. split; [discriminate|lia].
  - intros r; cbn; lia.
  - intros Hc. cbn. rewrite Hc. discriminate.
  - constructor; cbn.
    + destruct close; discriminate.
    + intros [H|H]; discriminate H.
    + intros r; reflexivity.
    + discriminate.
Qed.

Theorem linvc_run : forall ys s s', LInvC s -> sys_run g s ys = Some s' -> LInvC s'.
Proof.
  induction ys as [|y t IH]; intros s s' I H; cbn in H.
  - now injection H as <-.
  - destruct (sys_step g s y) as [s1|] eqn:Hs; [|discriminate]. eapply IH; [|exact H]. eapply linvc_step; eauto.
Qed.

(* ---- progress ---- *)
Theorem sys_progress_c : forall s, LInvC s -> sys_final g s ->
  forall i c0, nth_error (C.callers (cl s)) i = Some c0 -> C.caller_done c0 = true.
Proof.
  intros s I F i c0 Hc. destruct (C.caller_done c0) eqn:Hd; auto. exfalso.
  destruct I as [IS II IR ID IF IH IA IO IK [K1 K2 K3 K4]].
  assert (nth_error (C.callers (abs s)) i = Some c0) as Hc' by exact Hc.
  destruct (CF.inv_progress _ _ II _ _ Hc' Hd) as [l Hl].
  pose proof (SI.inv_reachable c _ IR) as SInv0. pose proof (SI.inv_nocrash _ SInv0) as Hnc.
  assert (forall l', client_label l' = true -> C.step (abs s) l' <> None -> False) as Kc.
  { intros l' Hcl Hne. pose proof (F (YClient l')) as Fy. cbn in Fy. rewrite Hcl in Fy.
    unfold C05Live.abs in Hne. rewrite (CA.step_plan_comm _ _ _ _ (client_label_nosend _ Hcl)) in Hne.
    destruct (C.step (cl s) l'); [discriminate Fy|congruence]. }
  destruct l as [j|j|k| | | |r]; try (solve [refine (Kc _ _ Hl); reflexivity]).
  - (* the pipe *)
    assert (forall r0, C.LPeerAccept <> C.LPeerSend r0) as Hns by (intros r0; discriminate).
    unfold C05Live.abs in Hl. rewrite (CA.step_plan_comm _ _ _ _ Hns) in Hl.
    pose proof (F YPipe) as Fy. cbn [sys_step] in Fy.
    destruct (C.step (cl s) C.LPeerAccept) as [cs'|] eqn:Hs; [|congruence].
    destruct (CA.step_accept_spec _ _ _ Hs) as (m & q & Hts & _). rewrite Hts in Fy.
    unfold S.step in Fy. rewrite Hnc in Fy. cbn in Fy. discriminate Fy.
  - (* the server owes run r its terminal message *)
    destruct (CA.step_send_enabled _ _ _ Hl) as (Hacc & ev & rest & Hp).
    change (str_in r (C.p_acc (cl s)) = true) in Hacc. change (alookup r (plan_of (sv s)) = Some (ev :: rest)) in Hp.
    unfold C05Live.plan_of in Hp. destruct (alookup_map_in (plan_ev g (sv s)) _ _ _ Hp) as [t Hin].
    rewrite (alookup_map_entry (plan_ev g (sv s)) _ _ _ cls_nodup Hin) in Hp. unfold plan_ev in Hp. cbn [fst snd] in Hp.
    destruct (Nat.eqb_spec (SI.sumf (SI.oterm r) (S.out (sv s))) 0) as [Hz|]; [|discriminate Hp].
    pose proof (cls_named _ _ Hin) as Hr. pose proof (proj1 (IA r Hr) Hacc) as Hone.
    pose proof (si_O _ _ _ IS) as IOr.
    assert ((S.rl (sv s) = S.RLoop /\ S.stdin_closed (sv s) = false) \/ (exists e, S.rl (sv s) = S.RReport e S.KLoop) \/
            S.rl (sv s) = S.RDefer \/ S.rl (sv s) = S.RGone) as Hrl.
    { pose proof (CS.o_rl _ _ _ IOr) as R. unfold CS.okrl in R. destruct (S.rl (sv s)); try contradiction; auto.
      destruct R as (_ & -> & _). eauto. }
    assert (S.rl (sv s) = S.RGone -> S.stdin_closed (sv s) = true) as Hgone.
    { intros E. pose proof (CS.o_rl _ _ _ IOr) as R. unfold CS.okrl in R. rewrite E in R. exact R. }
    assert (S.hp (sv s) <> S.HClose) as Hh.
    { pose proof (CS.o_hp _ _ _ IOr) as R. intros E. rewrite E in R. exact R. }
    destruct (SD2.server_idle2 c (sv s) SInv0 Hrl Hh) as (Hio & Ewd & Hg & Hhp).
    + apply srv_step_none. exact (F (YServer S.LRead)).
    + apply srv_step_none. exact (F (YServer (S.LHandler true))).
    + intros j. apply srv_step_none. exact (F (YServer (S.LWorker j))).
    + intros j w st tok Hn Hp1 Hk. pose proof (F (YRelease tok)) as Fy. cbn [sys_step] in Fy.
      destruct (existsb (blocked_on c (sv s) tok) (S.workers (sv s))) eqn:Hex.
      * change (srv_step g s (S.LRelease tok) = None) in Fy. apply srv_step_none in Fy. unfold S.step in Fy. rewrite Hnc in Fy. discriminate Fy.
      * assert (blocked_on c (sv s) tok w = false) as Hb.
        { destruct (blocked_on c (sv s) tok w) eqn:Eb; auto.
          assert (existsb (blocked_on c (sv s) tok) (S.workers (sv s)) = true) as X
            by (apply existsb_exists; exists w; split; [eapply nth_error_In; eauto|exact Eb]). congruence. }
        unfold blocked_on in Hb. rewrite Hp1, Hk, Z.eqb_refl in Hb. cbn [andb] in Hb. exact Hb.
    + destruct (SI.term_reachable c r (sv s) Hr IR) as [TA TT].
      destruct (SI.out_reachable c _ IR (proj1 (CS.o_open _ _ _ IOr))) as [Hlost _].
      assert (SI.rl_pending (SI.term r) (S.rl (sv s)) = 0) as Hrp by (destruct Hio as [[_ ->]| ->]; reflexivity).
      rewrite (SD.gone_pending r _ Hg), Hrp, Ewd, Hz, Hlost in TT. rewrite !SI.sumf_nil in TT.
      assert (SI.h_pending (SI.term r) (S.hp (sv s)) = 0) as Hh0 by (destruct Hhp as [->|[->| ->]]; reflexivity).
      rewrite Hh0 in TT.
      assert (nacc r (S.inq (sv s)) = 0) as Hi0.
      { destruct Hio as [[-> _]|Eg]; [reflexivity|].
        pose proof (K4 (Hgone Eg) r) as Hn. unfold stream in Hn. rewrite nacc_app in Hn. lia. }
      unfold nacc in *. lia.
Qed.

(* REFINEMENT with or without Close: at the end of every maximal execution every Execute has returned CallStep of its
   own input, and Close (if the session calls it) has returned nil with nothing of the client left running *)
Theorem sys_refines_close : forall ys s, sys_run g (sys_init callspecs close) ys = Some s -> sys_final g s ->
  (forall i x, nth_error callspecs i = Some x -> sys_result s i = Some (spec_callstep g (C.cs_input x))) /\
  (close = true ->
     C.closer (cl s) = C.KDone C.CloseOk /\ C.wg (cl s) = 0 /\ C.loop_live (C.cur (cl s)) = false /\
     forall i c0, nth_error (C.callers (cl s)) i = Some c0 -> C.c_spc c0 = C.SNone \/ C.c_spc c0 = C.SExit).
Proof.
  intros ys s H F. pose proof (linvc_run _ _ _ linvc_init H) as I. split.
  - intros i x Hx.
    assert (exists c0, nth_error (C.callers (cl s)) i = Some c0) as [c0 Hc].
    { destruct (nth_error (C.callers (cl s)) i) as [c0|] eqn:E; [eauto|]. exfalso.
      apply nth_error_None in E. pose proof (si_cv _ _ _ (lc_S _ I)) as Ecv.
      assert (List.length (C.callers (cl s)) = List.length callspecs) as El.
      { rewrite <- (map_length cv2), Ecv. unfold calls. apply map_length. }
      assert (nth_error callspecs i = None) as X by (apply nth_error_None; lia). congruence. }
    pose proof (sys_progress_c _ I F _ _ Hc) as Hd. unfold C.caller_done in Hd.
    destruct (C.c_pc c0) eqn:Hp; try discriminate.
    assert (sys_result s i = Some r) as Hr by (unfold sys_result; rewrite Hc, Hp; reflexivity).
    rewrite Hr. f_equal. eapply (sys_safety g callspecs close runs_named session_wf); eauto.
  - intros Hcl. pose proof (sys_progress_c _ I F) as Hdone.
    destruct I as [IS II IR ID IF IH IA IO IK IC].
    apply (quiet_closed (abs s) II).
    + exact (CC.s_wr _ _ _ _ (si_S _ _ _ IS)).
    + intros l Hl. unfold C05Live.abs. rewrite (CA.step_plan_comm _ _ _ _ (client_label_nosend _ Hl)).
      pose proof (F (YClient l)) as Fy. cbn in Fy. rewrite Hl in Fy.
      destruct (C.step (cl s) l); [discriminate Fy|reflexivity].
    + exact Hdone.
    + apply IK. exact Hcl.
Qed.

End C05Close.
