(* Proofs/C12History.v — history freedom (C12).
   The only state a schema instance carries between calls is a set of lazily filled caches whose
   entries are functions of the schema alone: the decoded JSON of every property default
   (ObjectSchema.defaultValues) and, per units definition, the compiled parser (regexp, sorted
   multipliers).  The state-passing variant makes the default cache explicit: a call reads a default
   through the cache (`cached_json`) and leaves a cache in which the defaults of the schema are
   filled.  Proved: for every history of calls (failing ones included) every call returns what it
   returns on the initial cache; the cache stays coherent; and after the first call it IS the table
   of the schema's defaults — whatever the calls were.
   Key lemma: the operations depend on the oracles only pointwise (`ops_cong`), so reading through a
   coherent cache changes nothing.  (The units caches are pure memoisation inside Units.v's parser
   and are not modelled as state: partial.) *)
From Coq Require Import Lia.
From Verif Require Import Base.Prelude Base.Str Base.Float Base.GoVal
  Schema.Regex Schema.Units Schema.Syntax Schema.Ops Proofs.OpsEq.
Open Scope string_scope.

Definition env_sim (e e' : env) : Prop :=
  e_self e = e_self e' /\ e_ext e = e_ext e' /\
  (forall t, o_json (e_or e) t = o_json (e_or e') t) /\
  (forall s, o_re_ok (e_or e) s = o_re_ok (e_or e') s).

Lemma sim_enter e e' objs : env_sim e e' -> env_sim (env_enter e objs) (env_enter e' objs).
Proof. intros (H1 & H2 & H3 & H4). repeat split; cbn; auto. Qed.

Lemma sim_resolve e e' id ns : env_sim e e' ->
  match resolve e id ns, resolve e' id ns with
  | Some (o, e2), Some (o', e2') => o = o' /\ env_sim e2 e2'
  | None, None => True
  | _, _ => False
  end.
Proof.
  intros Hs. pose proof Hs as (H1 & H2 & H3 & H4). unfold resolve. rewrite <- H1, <- H2.
  destruct (String.eqb ns "").
  - destruct (alookup id (e_self e)); [split; [reflexivity | exact Hs] | exact I].
  - destruct (alookup ns (e_ext e)) as [tab|]; [|exact I].
    destruct (alookup id tab); [split; [reflexivity | now apply sim_enter] | exact I].
Qed.

Lemma sim_decode e e' p txt : env_sim e e' -> decode_default (e_or e) p txt = decode_default (e_or e') p txt.
Proof. intros (_ & _ & H3 & _). unfold decode_default. rewrite !H3. reflexivity. Qed.

Lemma sim_pattern e e' v : env_sim e e' -> pattern_unser (e_or e) v = pattern_unser (e_or e') v.
Proof. intros (_ & _ & _ & H4). unfold pattern_unser. destruct (string_mapper v); [|reflexivity]. now rewrite H4. Qed.

Lemma bind_cong {A B} (o o' : outcome A) (k k' : A -> outcome B) :
  o = o' -> (forall a, k a = k' a) -> bind o k = bind o' k'.
Proof. intros -> H. destruct o'; cbn; auto. Qed.

Lemma mapMi_cong {A B} (g g' : Z -> A -> outcome B) l : forall i,
  (forall j x, g j x = g' j x) -> mapMi g i l = mapMi g' i l.
Proof. induction l as [|x t IH]; intros i H; cbn; [reflexivity|]. rewrite H. apply bind_cong; [reflexivity|]. intros y. now rewrite (IH (i + 1)%Z H). Qed.

Lemma mapM_cong {A B} (g g' : A -> outcome B) l : (forall x, g x = g' x) -> mapM g l = mapM g' l.
Proof. intros H. induction l as [|x t IH]; cbn; [reflexivity|]. now rewrite H, IH. Qed.

Lemma forM_cong {A} (g g' : A -> outcome unit) l : (forall x, g x = g' x) -> forM_ g l = forM_ g' l.
Proof. intros H. induction l as [|x t IH]; cbn; [reflexivity|]. now rewrite H, IH. Qed.

Lemma fold_cong {A B} (st st' : B -> A -> B) l : forall acc acc',
  acc = acc' -> (forall a x, st a x = st' a x) -> fold_left st l acc = fold_left st' l acc'.
Proof. induction l as [|x t IH]; intros acc acc' -> H; cbn; [reflexivity|]. apply IH; auto. Qed.

Ltac eq_solve_with tac :=
  repeat match goal with
  | |- ?x = ?x => reflexivity
  | |- bind _ _ = bind _ _ => apply bind_cong; [| intros ?]
  | |- seg _ _ = seg _ _ => f_equal
  | |- rewrap _ _ = rewrap _ _ => f_equal
  | |- rewrap_path _ = rewrap_path _ => f_equal
  | |- map_err _ _ = map_err _ _ => f_equal
  | |- Ok _ = Ok _ => f_equal
  | |- mapMi _ _ _ = mapMi _ _ _ => apply mapMi_cong; intros ? ?
  | |- mapM _ _ = mapM _ _ => apply mapM_cong; intros ?
  | |- forM_ _ _ = forM_ _ _ => apply forM_cong; intros ?
  | |- fold_left _ _ _ = fold_left _ _ _ => apply fold_cong; [| intros ? ?]
  | |- match ?d with _ => _ end = match ?d with _ => _ end => destruct d
  | |- (if ?d then _ else _) = (if ?d then _ else _) => destruct d
  | |- _ => progress tac
  end.

Section Cong.
Variable words : list (string * bool).
Variable pu : units -> string -> option fl.
Notation unser := (unser words pu).
Notation validate := (validate words pu).
Notation serialize := (serialize words pu).
Notation compat := (compat words pu).
Notation oneof_find := (oneof_find words pu).

Definition cong_at (f : nat) : Prop :=
  forall e e', env_sim e e' ->
    (forall s v, unser f e s v = unser f e' s v) /\
    (forall s v, validate f e s v = validate f e' s v) /\
    (forall ts ik fld inld v, oneof_find f e ts ik fld inld v = oneof_find f e' ts ik fld inld v) /\
    (forall s v, serialize f e s v = serialize f e' s v) /\
    (forall s v, compat f e s v = compat f e' s v).

Lemma ops_cong : forall f, cong_at f.
Proof.
  induction f as [|f IH]; intros e e' Hsim.
  { repeat split; intros; reflexivity. }
  pose proof (IH e e' Hsim) as (IHu & IHv & IHo & IHs & IHc).
  assert (IHenter : forall objs, (forall s v, unser f (env_enter e objs) s v = unser f (env_enter e' objs) s v) /\
                                 (forall s v, validate f (env_enter e objs) s v = validate f (env_enter e' objs) s v) /\
                                 (forall s v, serialize f (env_enter e objs) s v = serialize f (env_enter e' objs) s v) /\
                                 (forall s v, compat f (env_enter e objs) s v = compat f (env_enter e' objs) s v)).
  { intros objs. destruct (IH _ _ (sim_enter _ _ objs Hsim)) as (A & B & _ & C & D). repeat split; auto. }
  assert (Href : forall id ns,
            match resolve e id ns, resolve e' id ns with
            | Some (o, e2), Some (o', e2') =>
                o = o' /\ (forall s v, unser f e2 s v = unser f e2' s v) /\ (forall s v, validate f e2 s v = validate f e2' s v) /\
                (forall s v, serialize f e2 s v = serialize f e2' s v) /\ (forall s v, compat f e2 s v = compat f e2' s v)
            | None, None => True
            | _, _ => False
            end).
  { intros id ns. pose proof (sim_resolve e e' id ns Hsim) as Hr.
    destruct (resolve e id ns) as [[o e2]|], (resolve e' id ns) as [[o' e2']|]; try exact Hr.
    destruct Hr as [-> Hs2]. destruct (IH _ _ Hs2) as (A & B & _ & C & D). repeat split; auto. }
  Ltac ref_case Href id ns k :=
    specialize (Href id ns);
    destruct (resolve _ id ns) as [[? ?]|], (resolve _ id ns) as [[? ?]|]; try contradiction; try reflexivity;
    destruct Href as (-> & A & B & C & D); first [apply A | apply B | apply C | apply D].
  assert (HU : forall s v, unser (S f) e s v = unser (S f) e' s v).
  { intros s v. rewrite !(unser_S words pu). destruct s; cbv beta iota zeta;
      try reflexivity; try (apply (sim_pattern _ _ _ Hsim)).
    - eq_solve_with ltac:(first [apply IHu]).
    - eq_solve_with ltac:(first [apply IHu]).
    - eq_solve_with ltac:(first [apply IHu | rewrite (sim_decode _ _ _ _ Hsim)]).
    - eq_solve_with ltac:(first [apply IHu]).
    - ref_case Href id ns 0.
    - destruct (alookup root objs); [|reflexivity]. apply (IHenter objs). }
  assert (HO : forall ts ik fld inld v, oneof_find (S f) e ts ik fld inld v = oneof_find (S f) e' ts ik fld inld v).
  { intros ts ik fld inld v. rewrite !(oneof_find_S words pu). cbv beta iota zeta.
    eq_solve_with ltac:(first [apply IHc]). }
  assert (HV : forall s v, validate (S f) e s v = validate (S f) e' s v).
  { intros s v. rewrite !(validate_S words pu). destruct s; cbv beta iota zeta; try reflexivity.
    - eq_solve_with ltac:(first [apply IHv]).
    - eq_solve_with ltac:(first [apply IHv]).
    - eq_solve_with ltac:(first [apply IHv]).
    - eq_solve_with ltac:(first [apply IHv | apply IHo]).
    - ref_case Href id ns 0.
    - destruct (alookup root objs); [|reflexivity]. apply (IHenter objs). }
  assert (HS : forall s v, serialize (S f) e s v = serialize (S f) e' s v).
  { intros s v. rewrite !(serialize_S words pu). destruct s; cbv beta iota zeta; try reflexivity.
    - eq_solve_with ltac:(first [apply IHs | apply IHv]).
    - eq_solve_with ltac:(first [apply IHs | apply IHv]).
    - eq_solve_with ltac:(first [apply IHs | apply IHv]).
    - eq_solve_with ltac:(first [apply IHs | apply IHo]).
    - ref_case Href id ns 0.
    - destruct (alookup root objs); [|reflexivity]. apply (IHenter objs). }
  assert (HC : forall s v, compat (S f) e s v = compat (S f) e' s v).
  { intros s v. rewrite !(compat_S words pu). destruct s; cbv beta iota zeta; try reflexivity.
    1-12: eq_solve_with ltac:(first [apply IHc | apply IHu | apply IHv | apply IHo]).
    - ref_case Href id ns 0.
    - destruct (alookup root objs); [|reflexivity]. apply (IHenter objs). }
  repeat split; auto.
Qed.

(* ---------- the explicit default cache and call histories ---------- *)
Inductive call := CUnser (v : gval) | CValidate (v : gval) | CSerialize (v : gval) | CCompat (v : gval).
Inductive result :=
| RUnser (o : outcome gval) | RValidate (o : outcome unit) | RSerialize (o : outcome gval) | RCompat (o : outcome unit).

Definition run (f : nat) (e : env) (s : schema) (k : call) : result :=
  match k with
  | CUnser v => RUnser (unser f e s v)
  | CValidate v => RValidate (validate f e s v)
  | CSerialize v => RSerialize (serialize f e s v)
  | CCompat v => RCompat (compat f e s v)
  end.

(* default text -> what encoding/json made of it; None = not decoded yet *)
Definition dcache := list (string * option gval).
Definition cached_json (o : oracles) (c : dcache) (txt : string) : option gval :=
  match alookup txt c with Some r => r | None => o_json o txt end.
Definition with_cache (e : env) (c : dcache) : env :=
  mkEnv (e_self e) (e_ext e) (mkOracles (cached_json (e_or e) c) (o_re_ok (e_or e))).
Definition coherent (o : oracles) (c : dcache) : Prop :=
  forall txt r, alookup txt c = Some r -> r = o_json o txt.

Definition fill (o : oracles) (c : dcache) (txts : list string) : dcache :=
  fold_left (fun c txt => if amem txt c then c else (txt, o_json o txt) :: c) txts c.

(* one call in state-passing style: defaults are read through the cache; afterwards the defaults the
   schema declares (texts) are decoded and cached *)
Definition step (f : nat) (e : env) (s : schema) (texts : list string) (c : dcache) (k : call) : result * dcache :=
  (run f (with_cache e c) s k, fill (e_or e) c texts).

Definition hstep (f : nat) (e : env) (s : schema) (texts : list string) (st : list result * dcache) (k : call)
  : list result * dcache :=
  ((fst st ++ [fst (step f e s texts (snd st) k)])%list, snd (step f e s texts (snd st) k)).

Definition run_history (f : nat) (e : env) (s : schema) (texts : list string) (c0 : dcache) (h : list call)
  : list result * dcache :=
  fold_left (hstep f e s texts) h ([], c0).

Lemma coherent_sim e c : coherent (e_or e) c -> env_sim (with_cache e c) e.
Proof.
  intros Hc. repeat split; cbn; auto. intros t. unfold cached_json.
  destruct (alookup t c) as [r|] eqn:E; [|reflexivity]. now apply Hc.
Qed.

Lemma step_result f e s texts c k : coherent (e_or e) c -> fst (step f e s texts c k) = run f e s k.
Proof.
  intros Hc. cbn [step fst]. destruct (ops_cong f _ _ (coherent_sim e c Hc)) as (A & B & _ & C & D).
  destruct k; cbn [run]; f_equal; auto.
Qed.

Lemma fill_coherent o txts : forall c, coherent o c -> coherent o (fill o c txts).
Proof.
  induction txts as [|t ts IH]; intros c Hc; cbn [fill fold_left]; [exact Hc|].
  apply IH. destruct (amem t c); [exact Hc|].
  intros txt r. cbn [alookup]. destruct (String.eqb txt t) eqn:E.
  - apply String.eqb_eq in E. subst. intros H; now inversion H.
  - apply Hc.
Qed.

Lemma amem_cons {A} k k' (v : A) l : amem k ((k', v) :: l) = String.eqb k k' || amem k l.
Proof. unfold amem. cbn. destruct (String.eqb k k'); reflexivity. Qed.

Lemma fill_keeps o txts : forall c t, amem t c = true -> amem t (fill o c txts) = true.
Proof.
  induction txts as [|x ts IH]; intros c t H; cbn [fill fold_left]; [exact H|].
  apply IH. destruct (amem x c); [exact H|]. rewrite amem_cons, H. apply orb_true_r.
Qed.

Lemma fill_has o txts : forall c t, In t txts -> amem t (fill o c txts) = true.
Proof.
  induction txts as [|x ts IH]; intros c t Hin; [destruct Hin|]. cbn [fill fold_left].
  destruct Hin as [->|Hin]; [|now apply IH].
  apply fill_keeps. destruct (amem t c) eqn:E; [exact E|]. rewrite amem_cons, String.eqb_refl. reflexivity.
Qed.

(* filling is idempotent: nothing more to decode the second time *)
Lemma fill_noop o txts : forall c, (forall t, In t txts -> amem t c = true) -> fill o c txts = c.
Proof.
  induction txts as [|x ts IH]; intros c H; [reflexivity|]. cbn [fill fold_left].
  rewrite (H x (or_introl eq_refl)). apply IH. intros t Ht. apply H. now right.
Qed.

Lemma fill_idem o txts c : fill o (fill o c txts) txts = fill o c txts.
Proof. apply fill_noop. intros t Ht. now apply fill_has. Qed.

Theorem history_free f e s texts : forall (h : list call) (c0 : dcache),
  coherent (e_or e) c0 ->
  fst (run_history f e s texts c0 h) = map (run f e s) h /\
  coherent (e_or e) (snd (run_history f e s texts c0 h)) /\
  (h <> [] -> snd (run_history f e s texts c0 h) = fill (e_or e) c0 texts).
Proof.
  intros h c0 Hc0. unfold run_history.
  assert (G : forall h rs c, coherent (e_or e) c ->
            fst (fold_left (hstep f e s texts) h (rs, c)) = (rs ++ map (run f e s) h)%list /\
            coherent (e_or e) (snd (fold_left (hstep f e s texts) h (rs, c))) /\
            (h <> [] -> snd (fold_left (hstep f e s texts) h (rs, c)) = fill (e_or e) c texts)).
  { induction h0 as [|k t IH]; intros rs c Hc; cbn [fold_left map].
    - cbn [fst snd]. rewrite app_nil_r. repeat split; auto. intros H; congruence.
    - change (hstep f e s texts (rs, c) k)
        with ((rs ++ [fst (step f e s texts c k)])%list, fill (e_or e) c texts).
      rewrite (step_result f e s texts c k Hc).
      destruct (IH (rs ++ [run f e s k])%list (fill (e_or e) c texts) (fill_coherent _ _ _ Hc)) as (I1 & I2 & I3).
      repeat split.
      + rewrite I1, <- app_assoc. reflexivity.
      + exact I2.
      + intros _. destruct t as [|k2 t2]; [reflexivity|]. rewrite I3 by congruence. apply fill_idem. }
  exact (G h [] c0 Hc0).
Qed.


(* every default text declared by a schema and by the tables its references can reach *)
Fixpoint dtexts (s : schema) : list string :=
  match s with
  | SList it _ _ => dtexts it
  | SMap k v _ _ => (dtexts k ++ dtexts v)%list
  | SObject _ _ props =>
      flat_map (fun np => (match p_default (snd np) with Some t => [t] | None => [] end ++ dtexts (p_type (snd np)))%list) props
  | SOneOf types _ _ _ => flat_map (fun km => dtexts (snd km)) types
  | SScope objs _ => flat_map (fun io => dtexts (snd io)) objs
  | _ => []
  end.
Definition schema_texts (e : env) (s : schema) : list string :=
  (dtexts s ++ flat_map (fun io => dtexts (snd io)) (e_self e)
   ++ flat_map (fun nt => flat_map (fun io => dtexts (snd io)) (snd nt)) (e_ext e))%list.

Corollary history_cache_is_schema_table f e s (h : list call) : h <> [] ->
  snd (run_history f e s (schema_texts e s) [] h) = fill (e_or e) [] (schema_texts e s).
Proof.
  intros Hh.
  assert (Hcoh : coherent (e_or e) []) by (intros txt r H; discriminate).
  destruct (history_free f e s (schema_texts e s) h [] Hcoh) as (_ & _ & H3). exact (H3 Hh).
Qed.

End Cong.
