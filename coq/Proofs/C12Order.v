(* Proofs/C12Order.v — order independence (C12), the clauses that are proved:
   every place where the Go code ranges over a map of the SCHEMA (enum values, one-of members, the
   presence rules over properties) or takes a verdict over the entries of a raw map gives the same
   accept/reject decision for every order; and the witness of the known finding D19 where the order
   of the ARGUMENT's entries changes the result (two keys that read the same after conversion). *)
From Coq Require Import Permutation Lia.
From Verif Require Import Base.Prelude Base.Str Base.Float Base.GoVal
  Schema.Regex Schema.Units Schema.Syntax Schema.Ops Schema.Wf Schema.Perm.
Open Scope string_scope.

Lemma forallb_perm {A} (p : A -> bool) l l' : Permutation l l' -> forallb p l = forallb p l'.
Proof.
  intros HP. induction HP as [|x0 m m' HP0 IH0|x0 y0 m|m m' m'' H1 IH1 H2 IH2]; cbn; try congruence.
  destruct (p x0), (p y0); reflexivity.
Qed.

Lemma existsb_perm {A} (p : A -> bool) l l' : Permutation l l' -> existsb p l = existsb p l'.
Proof.
  intros HP. induction HP as [|x0 m m' HP0 IH0|x0 y0 m|m m' m'' H1 IH1 H2 IH2]; cbn; try congruence.
  destruct (p x0), (p y0); reflexivity.
Qed.

Lemma existsb_ext' {A} (p q : A -> bool) l : (forall x, p x = q x) -> existsb p l = existsb q l.
Proof. intros H. induction l as [|x t IH]; cbn; [reflexivity|]. now rewrite H, IH. Qed.

Lemma forallb_ext' {A} (p q : A -> bool) l : (forall x, p x = q x) -> forallb p l = forallb q l.
Proof. intros H. induction l as [|x t IH]; cbn; [reflexivity|]. now rewrite H, IH. Qed.

(* the verdict of a loop that stops at the first error does not depend on the order *)
Lemma is_ok_forM {A} (g : A -> outcome unit) l : is_ok (forM_ g l) = forallb (fun x => is_ok (g x)) l.
Proof.
  induction l as [|x t IH]; cbn; [reflexivity|].
  destruct (g x) as [[]| | |]; cbn; auto.
Qed.

Lemma forM_verdict_perm {A} (g : A -> outcome unit) l l' :
  Permutation l l' -> is_ok (forM_ g l) = is_ok (forM_ g l').
Proof. intros H. rewrite !is_ok_forM. now apply forallb_perm. Qed.

(* validateFieldInterdependencies: object.go ranges over the property map *)
Lemma check_prop_rules_ext set set' name p :
  (forall k, set k = set' k) -> check_prop_rules set name p = check_prop_rules set' name p.
Proof.
  intros H. unfold check_prop_rules. rewrite H.
  rewrite (existsb_ext' set set' (p_conflicts p) H), (existsb_ext' set set' (p_required_if p) H).
  destruct (p_required_if_not p); [reflexivity|]. now rewrite (existsb_ext' set set' _ H).
Qed.

Lemma check_rules_order props props' set set' :
  Permutation props props' -> (forall k, set k = set' k) ->
  is_ok (check_rules props set) = is_ok (check_rules props' set').
Proof.
  intros Hp Hs. unfold check_rules. rewrite !is_ok_forM, (forallb_perm _ _ _ Hp).
  apply forallb_ext'. intros np. now rewrite (check_prop_rules_ext set set' _ _ Hs).
Qed.

(* "which keys are set" does not depend on the order of the raw map's entries *)
Lemma amem_perm {A} k (l l' : list (string * A)) :
  nodup_str (map fst l) = true -> Permutation l l' -> amem k l = amem k l'.
Proof.
  intros _ Hp. unfold amem.
  assert (H : forall (l0 : list (string * A)), (match alookup k l0 with Some _ => true | None => false end)
                                            = existsb (fun kv => String.eqb k (fst kv)) l0).
  { induction l0 as [|[k0 v0] t IH]; cbn; [reflexivity|]. destruct (String.eqb k k0); [reflexivity | exact IH]. }
  rewrite !H. now apply existsb_perm.
Qed.

(* enum membership: enum.go ranges over the value map *)
Lemma enum_int_mem_perm vals vals' z : Permutation vals vals' -> enum_int_mem vals z = enum_int_mem vals' z.
Proof. apply existsb_perm. Qed.
Lemma enum_str_mem_perm vals vals' s : Permutation vals vals' -> enum_str_mem vals s = enum_str_mem vals' s.
Proof. apply existsb_perm. Qed.

Section Enums.
Variable words : list (string * bool).
Variable pu : units -> string -> option fl.
Notation unser := (unser words pu).
Notation validate := (validate words pu).
Notation serialize := (serialize words pu).
Notation compat := (compat words pu).

Lemma enum_int_order vals vals' u : Permutation vals vals' -> forall f e v,
  unser f e (SEnumInt vals u) v = unser f e (SEnumInt vals' u) v /\
  validate f e (SEnumInt vals u) v = validate f e (SEnumInt vals' u) v /\
  serialize f e (SEnumInt vals u) v = serialize f e (SEnumInt vals' u) v /\
  compat f e (SEnumInt vals u) v = compat f e (SEnumInt vals' u) v.
Proof.
  intros Hp f e v.
  assert (HV : forall f, validate f e (SEnumInt vals u) v = validate f e (SEnumInt vals' u) v).
  { intros [|f0]; [reflexivity|]. cbn [Ops.validate]. unfold enum_int_ser.
    destruct (conv_int64 v); [|reflexivity]. now rewrite (enum_int_mem_perm _ _ _ Hp). }
  destruct f as [|f]; [repeat split; reflexivity|].
  repeat split.
  - cbn [Ops.unser]. unfold enum_int_unser. destruct (int_mapper u v); [|reflexivity].
    now rewrite (enum_int_mem_perm _ _ _ Hp).
  - apply HV.
  - cbn [Ops.serialize]. unfold enum_int_ser. destruct (conv_int64 v); [|reflexivity].
    now rewrite (enum_int_mem_perm _ _ _ Hp).
  - cbn [Ops.compat]. apply HV.
Qed.

Lemma enum_str_order n vals vals' : Permutation vals vals' -> forall f e v,
  unser f e (SEnumStr n vals) v = unser f e (SEnumStr n vals') v /\
  validate f e (SEnumStr n vals) v = validate f e (SEnumStr n vals') v /\
  serialize f e (SEnumStr n vals) v = serialize f e (SEnumStr n vals') v /\
  compat f e (SEnumStr n vals) v = compat f e (SEnumStr n vals') v.
Proof.
  intros Hp f e v.
  assert (HV : forall f, validate f e (SEnumStr n vals) v = validate f e (SEnumStr n vals') v).
  { intros [|f0]; [reflexivity|]. cbn [Ops.validate]. unfold enum_str_ser.
    destruct (conv_string v); [|reflexivity]. now rewrite (enum_str_mem_perm _ _ _ Hp). }
  destruct f as [|f]; [repeat split; reflexivity|].
  repeat split.
  - cbn [Ops.unser]. unfold enum_str_unser. destruct (string_mapper v); [|reflexivity].
    now rewrite (enum_str_mem_perm _ _ _ Hp).
  - apply HV.
  - cbn [Ops.serialize]. unfold enum_str_ser. destruct (conv_string v); [|reflexivity].
    now rewrite (enum_str_mem_perm _ _ _ Hp).
  - cbn [Ops.compat]. apply HV.
Qed.

(* D19: map[any]any{int64 1: "a", "1": "b"} under an int-keyed map schema *)
Definition d19_schema : schema := SMap (SInt None None None) SAny None None.
Definition d19_v1 : gval := VMap t_any_map false [(vi64 1, vstr "a"); (vstr "1", vstr "b")].
Definition d19_v2 : gval := VMap t_any_map false [(vstr "1", vstr "b"); (vi64 1, vstr "a")].
Definition d19_env : env := mkEnv [] [] (mkOracles (fun _ => None) (fun _ => false)).
Definition d19_r1 : gval := VMap (TMap (TInt I64) TAny) false [(vi64 1, vstr "b")].
Definition d19_r2 : gval := VMap (TMap (TInt I64) TAny) false [(vi64 1, vstr "a")].

Lemma d19_perm : perm_val d19_v1 d19_v2.
Proof.
  unfold d19_v1, d19_v2.
  apply (pv_map _ _ _ [(vi64 1, vstr "a"); (vstr "1", vstr "b")]).
  - repeat constructor.
  - apply perm_swap.
Qed.

Lemma d19_collides : has_key_collision d19_v1 = true.
Proof. vm_compute. reflexivity. Qed.

Lemma d19_results : unser 10 d19_env d19_schema d19_v1 = Ok d19_r1 /\ unser 10 d19_env d19_schema d19_v2 = Ok d19_r2.
Proof. split; vm_compute; reflexivity. Qed.

Lemma d19_not_perm : ~ perm_val d19_r1 d19_r2.
Proof.
  unfold d19_r1, d19_r2. intros H. inversion H; subst.
  match goal with
  | HF : Forall2 _ _ ?kvs', HP : Permutation ?kvs' _ |- _ =>
      apply Permutation_sym in HP; apply Permutation_length_1_inv in HP; subst kvs';
      inversion HF as [|a0 b0 la lb [_ Hv] Hrest]; subst; cbn in Hv; inversion Hv
  end.
Qed.

End Enums.
