(* Proofs/C05Vocab.v — vocabulary shared by the client half (Proofs/C05Client.v) and the server half
   (Proofs/C05Server.v) of C05's protocol layer. *)
From Verif Require Import Base.Prelude Base.Str ATP.Msg.
Local Open Scope string_scope.

(* what a client goroutine of a session with these (run id, input) calls may write on the client -> server stream:
   the work-start of one of the calls (step "s", that call's run id and input), a signal, client-done *)
Definition c05_cwm (calls : list (runid * Z)) (m : msg Z) : Prop :=
  (exists r t, In (r, t) calls /\ m = WorkStart r "s" t) \/ (exists r d, m = Signal r "sg" d) \/ m = ClientDone.
