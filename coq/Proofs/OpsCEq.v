(* Proofs/OpsCEq.v — GENERATED from Proofs/OpsEq.v: one-step unfolding equations of Schema/OpsC.v. *)
From Verif Require Import Base.Prelude Base.Str Base.Float Base.GoVal
  Schema.Regex Schema.Units Schema.Syntax Schema.Ops Schema.OpsC.
Open Scope string_scope.
Open Scope Z_scope.

Section OpsCEq.
Variable words : list (string * bool).
Variable pu : units -> string -> option fl.
Variable pi : units -> string -> option Z.
Notation unser_c := (unser_c words pu pi).
Notation validate_c := (validate_c words pu pi).
Notation serialize_c := (serialize_c words pu pi).
Notation compat_c := (compat_c words pu pi).
Notation oneof_find_c := (oneof_find_c words pu pi).

Lemma unser_c_S (f : nat) (e : env) (s : schema) (v : gval) :
  unser_c (S f) e s v =
    match s with
    | SInt mn mx u => int_unser_c pi mn mx u v
    | SFloat mn mx u => float_unser pu mn mx u v
    | SString mn mx pat => string_unser mn mx pat v
    | SBool => bool_unser words v
    | SPattern => pattern_unser (e_or e) v
    | SAny => any_conv f v
    | SEnumInt vals u => enum_int_unser_c pi vals u v
    | SEnumStr named vals => enum_str_unser named vals v
    | SList it mn mx =>
        match v with
        | VSlice _ _ l =>
            if size_ok mn mx (zlen l) then
              ys <- mapMi (fun i x => seg (idx_seg i) (unser_c f e it x)) 0 l ;;
              Ok (VSlice (TSlice (rtype it)) false ys)
            else Err (cerr EBound)
        | _ => Err (cerr ERepr)
        end
    | SMap ks vs mn mx =>
        match v with
        | VMap _ _ kvs =>
            if size_ok mn mx (zlen kvs) then
              r <- fold_left (fun acc kv =>
                     a <- acc ;;
                     k' <- seg (mkey_seg (fst kv)) (unser_c f e ks (fst kv)) ;;
                     v' <- seg (mval_seg (fst kv)) (unser_c f e vs (snd kv)) ;;
                     Ok (map_set k' v' a)) kvs (Ok []) ;;
              Ok (VMap (TMap (rtype ks) (rtype vs)) false r)
            else Err (cerr EBound)
        | _ => Err (cerr ERepr)
        end
    | SObject id _ props =>
        match v with
        | VMap _ _ kvs =>
            
            r0 <- fold_left (fun acc kv =>
                    a <- acc ;;
                    match fst kv with
                    | VStr TStr k => if amem k props then Ok (a ++ [(k, snd kv)])%list else Err (cerr EKey)
                    | _ => Err (cerr EKey)
                    end) kvs (Ok []) ;;
            
            let r1 := fold_left (fun a np =>
                        if amem (fst np) a then a
                        else match p_default (snd np) with
                             | Some txt => match decode_default (e_or e) (snd np) txt with
                                           | Some d => (a ++ [(fst np, d)])%list
                                           | None => a
                                           end
                             | None => a
                             end) props r0 in
            
            r2 <- fold_left (fun acc np =>
                    a <- acc ;;
                    match alookup (fst np) a with
                    | Some d =>
                        x <- seg (fst np)
                               (if p_disabled (snd np) then Err (cerr EDisabled)
                                else unser_c f e (p_type (snd np)) d) ;;
                        Ok (raw_set (fst np) x a)
                    | None => Ok a
                    end) props (Ok r1) ;;
            _ <- check_rules props (fun k => amem k r2) ;;
            Ok (raw_to_val r2)
        | _ =>
            
            match props with
            | [(name, p)] =>
                
                x <- seg name (if p_disabled p then Err (cerr EDisabled) else unser_c f e (p_type p) v) ;;
                _ <- check_rules props (fun k => String.eqb k name) ;;
                Ok (raw_to_val [(name, x)])
            | _ => Err (cerr ERepr)
            end
        end
    | SOneOf types ik field inlined =>
        match v with
        | VNil => Err (cerr ERepr)
        | VMap _ _ kvs =>
            
            if forallb (fun kv => match fst kv with VStr TStr _ => true | _ => false end) kvs then
              match smap_get field kvs with
              | None => Err (cerr EKey)
              | Some d =>
                  match (if ik then option_map KI (int_mapper None d) else option_map KS (string_mapper d)) with
                  | None => Err (cerr ERepr)
                  | Some key =>
                      match find (fun ks => okey_eqb (fst ks) key) types with
                      | None => Err (cerr EKey)
                      | Some (_, member) =>
                          let clone := if inlined then kvs else smap_del field kvs in
                          x <- unser_c f e member (VMap t_str_map false clone) ;;
                          match is_str_any_map x with
                          | Some xs =>
                              
                              if inlined then Ok x
                              else Ok (VMap t_str_map false
                                         (map_set (vstr field) (match key with KI z => vi64 z | KS s0 => vstr s0 end) xs))
                          | None => Ok x
                          end
                      end
                  end
              end
            else Err (cerr EKey)
        | _ => Err (cerr ERepr)
        end
    | SRef id ns _ =>
        match resolve e id ns with
        | Some (o, e') => unser_c f e' o v
        | None => Panic "unlinked reference"
        end
    | SScope objs root =>
        match alookup root objs with
        | Some o => unser_c f (env_enter e objs) o v
        | None => Panic "root object not found"
        end
    end.
Proof. reflexivity. Qed.

Lemma validate_c_S (f : nat) (e : env) (s : schema) (v : gval) :
  validate_c (S f) e s v =
    match s with
    | SInt mn mx _ => _ <- int_ser mn mx v ;; Ok tt
    | SFloat mn mx _ => _ <- float_ser mn mx v ;; Ok tt
    | SString mn mx pat => _ <- string_ser mn mx pat v ;; Ok tt
    | SBool => _ <- bool_ser v ;; Ok tt
    | SPattern => _ <- pattern_validate v ;; Ok tt
    | SAny => _ <- any_conv f v ;; Ok tt
    | SEnumInt vals _ => _ <- enum_int_ser vals v ;; Ok tt
    | SEnumStr _ vals => _ <- enum_str_ser vals v ;; Ok tt
    | SList it mn mx =>
        match v with
        | VSlice _ _ l =>
            if size_ok mn mx (zlen l) then
              _ <- mapMi (fun i x => seg (idx_seg i) (validate_c f e it x)) 0 l ;; Ok tt
            else Err (cerr EBound)
        | _ => Err (cerr ERepr)
        end
    | SMap ks vs mn mx =>
        match v with
        | VMap _ _ kvs =>
            if size_ok mn mx (zlen kvs) then
              forM_ (fun kv => _ <- seg (mkey_seg (fst kv)) (validate_c f e ks (fst kv)) ;;
                               seg (mval_seg (fst kv)) (validate_c f e vs (snd kv))) kvs
            else Err (cerr EBound)
        | _ => Err (cerr ERepr)
        end
    | SObject id _ props =>
        match is_str_any_map v with
        | Some kvs =>
            let r := raw_of_entries kvs in
            _ <- check_rules props (fun k => amem k r) ;;
            forM_ (fun kv => match alookup (fst kv) props with
                             | Some p => seg (fst kv) (validate_c f e (p_type p) (snd kv))
                             | None => Err (cerr EKey)
                             end) r
        | None => Err (cerr ERepr)
        end
    | SOneOf types ik field inlined =>
        km <- oneof_find_c f e types ik field inlined v ;;
        let '(key, member, data') := km in
        seg (oneof_seg key) (validate_c f e member data')
    | SRef id ns _ =>
        match resolve e id ns with
        | Some (o, e') => validate_c f e' o v
        | None => Panic "unlinked reference"
        end
    | SScope objs root =>
        match alookup root objs with
        | Some o => validate_c f (env_enter e objs) o v
        | None => Panic "root object not found"
        end
    end.
Proof. reflexivity. Qed.

Lemma oneof_find_c_S (f : nat) (e : env) (types : list (okey * schema)) (ik : bool) (field : string) (inlined : bool) (v : gval) :
  oneof_find_c (S f) e types ik field inlined v =
    match v with
    | VNil => Err (cerr ERepr)                      
    | _ =>
      match kind_of v with
      | KMap =>
          
          match is_str_any_map v with
          | None => Err (cerr ERepr)
          | Some kvs =>
              match smap_get field kvs with
              | None | Some VNil => Err (cerr EKey)
              | Some d =>
                  match (if ik then match d with VInt (TInt I64) z => Some (KI z) | _ => None end
                         else match d with VStr TStr s0 => Some (KS s0) | _ => None end) with
                  | None => Err (cerr ERepr)
                  | Some key =>
                      match find (fun ks => okey_eqb (fst ks) key) types with
                      | None => Err (cerr EKey)
                      | Some (_, member) =>
                          let clone := VMap t_str_map false (if inlined then kvs else smap_del field kvs) in
                          _ <- rewrap_path (compat_c f e member clone) ;;
                          Ok (key, member, clone)
                      end
                  end
              end
          end
      | KStruct => Err (cerr ERepr)                 
      | KPtr => Err (cerr ERepr)
      | _ => Err (cerr ERepr)
      end
    end.
Proof. reflexivity. Qed.

Lemma serialize_c_S (f : nat) (e : env) (s : schema) (v : gval) :
  serialize_c (S f) e s v =
    match s with
    | SInt mn mx _ => int_ser mn mx v
    | SFloat mn mx _ => float_ser mn mx v
    | SString mn mx pat => string_ser mn mx pat v
    | SBool => bool_ser v
    | SPattern => pattern_ser v
    | SAny => any_conv f v
    | SEnumInt vals _ => enum_int_ser vals v
    | SEnumStr _ vals => enum_str_ser vals v
    | SList it mn mx =>
        _ <- validate_c f e s v ;;
        match v with
        | VSlice _ _ l =>
            ys <- mapMi (fun i x => seg (idx_seg i) (serialize_c f e it x)) 0 l ;;
            Ok (VSlice t_any_slice false ys)
        | _ => Err (cerr ERepr)
        end
    | SMap ks vs mn mx =>
        _ <- validate_c f e s v ;;
        match v with
        | VMap _ _ kvs =>
            r <- fold_left (fun acc kv =>
                   a <- acc ;;
                   k' <- seg (mkey_seg (fst kv)) (serialize_c f e ks (fst kv)) ;;
                   v' <- seg (mval_seg (fst kv)) (serialize_c f e vs (snd kv)) ;;
                   Ok (map_set k' v' a)) kvs (Ok []) ;;
            Ok (VMap t_any_map false r)
        | _ => Err (cerr ERepr)
        end
    | SObject id _ props =>
        match is_str_any_map v with
        | Some kvs =>
            let r := raw_of_entries kvs in
            _ <- check_rules props (fun k => amem k r) ;;
            out <- mapM (fun kv => match alookup (fst kv) props with
                                   | Some p => x <- seg (fst kv) (serialize_c f e (p_type p) (snd kv)) ;; Ok (fst kv, x)
                                   | None => Err (cerr EKey)
                                   end) r ;;
            Ok (raw_to_val out)
        | None => Err (cerr ERepr)
        end
    | SOneOf types ik field inlined =>
        km <- oneof_find_c f e types ik field inlined v ;;
        let '(key, member, data') := km in
        x <- serialize_c f e member data' ;;
        match is_str_any_map x with
        | Some xs =>
            match smap_get field xs with
            | Some _ => Ok x
            | None => Ok (VMap t_str_map false
                            (map_set (vstr field) (match key with KI z => vi64 z | KS s0 => vstr s0 end) xs))
            end
        | None => Panic "one-of member serialized to a non-map"
        end
    | SRef id ns _ =>
        match resolve e id ns with
        | Some (o, e') => serialize_c f e' o v
        | None => Panic "unlinked reference"
        end
    | SScope objs root =>
        match alookup root objs with
        | Some o => serialize_c f (env_enter e objs) o v
        | None => Panic "root object not found"
        end
    end.
Proof. reflexivity. Qed.

Lemma compat_c_S (f : nat) (e : env) (s : schema) (v : gval) :
  compat_c (S f) e s v =
    match s with
    | SInt _ _ _ | SFloat _ _ _ | SBool => _ <- unser_c f e s v ;; Ok tt
    | SString _ _ _ => match v with VStr TStr _ => _ <- unser_c f e s v ;; Ok tt | _ => Err (cerr ERepr) end
    | SEnumInt _ _ | SEnumStr _ _ | SPattern => validate_c f e s v
    | SAny =>
        match v with
        | VMap t _ kvs =>
            if gtype_eqb t t_str_map || gtype_eqb t (TMap (TInt I64) TAny) then
              forM_ (fun kv => rewrap true (compat_c f e SAny (snd kv))) kvs
            else if gtype_eqb t t_any_map then
              
              match kvs with
              | [] => Ok tt
              | (k0, _) :: _ =>
                  forM_ (fun kv =>
                           match kind_of (fst kv) with
                           | KInt I64 | KString =>
                               if match kind_of k0, kind_of (fst kv) with
                                  | KInt I64, KInt I64 | KString, KString => true
                                  | _, _ => false end
                               then rewrap true (compat_c f e SAny (snd kv))
                               else Err (cerr EKey)
                           | _ => Err (cerr EKey)
                           end) kvs
              end
            else _ <- any_conv f v ;; Ok tt
        | VSlice t _ l =>
            if gtype_eqb t t_any_slice then
              
              _ <- forM_ (fun x => rewrap true (compat_c f e SAny x)) l ;;
              match l with
              | [] => Ok tt
              | x0 :: t0 => if forallb (fun x => match kind_of x0, kind_of x with
                                                 | KInvalid, KInvalid | KBool, KBool | KF32, KF32 | KF64, KF64
                                                 | KString, KString | KSlice, KSlice | KMap, KMap | KPtr, KPtr
                                                 | KStruct, KStruct | KInterface, KInterface | KOther, KOther => true
                                                 | KInt a, KInt b => gtype_eqb (TInt a) (TInt b)
                                                 | _, _ => false end) t0
                            then Ok tt else Err (cerr ERepr)
              end
            else _ <- any_conv f v ;; Ok tt
        | _ => _ <- any_conv f v ;; Ok tt
        end
    | SList it _ _ =>
        match v with
        | VSlice _ _ l => _ <- mapMi (fun i x => seg (idx_seg i) (compat_c f e it x)) 0 l ;; Ok tt
        | VPtr t (Some (VSlice _ _ l)) =>
            
            match underlying t with
            | TPtr te => match kind_of_type te with
                         | KSlice => _ <- mapMi (fun i x => seg (idx_seg i) (compat_c f e it x)) 0 l ;; Ok tt
                         | _ => Err (cerr ERepr)
                         end
            | _ => Err (cerr ERepr)
            end
        | _ => Err (cerr ERepr)
        end
    | SMap ks vs mn mx =>
        match v with
        | VMap _ _ kvs =>
            if size_ok mn mx (zlen kvs) then
              forM_ (fun kv => _ <- seg (mkey_seg (fst kv)) (compat_c f e ks (fst kv)) ;;
                               seg (mval_seg (fst kv)) (compat_c f e vs (snd kv))) kvs
            else Err (cerr EBound)
        | _ => Err (cerr ERepr)
        end
    | SObject id _ props =>
        match is_str_any_map v with
        | Some kvs =>
            
            let r := raw_of_entries kvs in
            _ <- forM_ (fun kv => match alookup (fst kv) props with
                                  | Some p =>
                                      seg (fst kv)
                                        (_ <- rewrap_path (compat_c f e (p_type p) (snd kv)) ;;
                                         if p_disabled p then Err (cerr EDisabled) else Ok tt)
                                  | None => Err (cerr EKey)
                                  end) r ;;
            forM_ (fun np => if p_required (snd np)
                             then match alookup (fst np) r with
                                  | None | Some VNil => Err (cerr_at [fst np] EPresence)
                                  | Some _ => Ok tt
                                  end
                             else Ok tt) props
        | None => _ <- rewrap_path (unser_c f e s v) ;; Ok tt
        end
    | SOneOf types ik field inlined =>
        match is_str_any_map v with
        | Some _ => _ <- oneof_find_c f e types ik field inlined v ;; Ok tt
        | None =>
            match kind_of v with
            | KStruct => Err (cerr ERepr)
            | KPtr => match v with
                      | VPtr _ (Some (VStruct _ _)) | VOpaque OPtr _ => Err (cerr ERepr)
                      | VPtr _ None => Err (cerr ERepr)
                      | _ => validate_c f e s v
                      end
            | _ => validate_c f e s v
            end
        end
    | SRef id ns _ =>
        match resolve e id ns with
        | Some (o, e') => compat_c f e' o v
        | None => Panic "unlinked reference"
        end
    | SScope objs root =>
        match alookup root objs with
        | Some o => compat_c f (env_enter e objs) o v
        | None => Panic "root object not found"
        end
    end.
Proof. reflexivity. Qed.

End OpsCEq.
