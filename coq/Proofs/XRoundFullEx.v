(* Proofs/XRoundFullEx.v — x_struct_roundtrip (Proofs/XRoundFull.v): any larger fuel for the re-Unserialize;
   the three-part children hypothesis discharged for XFlags (every raw value, every fuel); a run over XInner
   (a default plus a treat-empty-as-default property); and the witness that `xempty_nodefault` is needed: a
   treat-empty-as-default property WITH a default does not round-trip. *)
From Coq Require Import Lia.
From Verif Require Import Base.Prelude Base.Str Base.Float Base.GoVal Base.XReflect
  Schema.Regex Schema.Units Schema.Syntax Schema.Ops Schema.SpecObj Schema.XSyntax Schema.XOps Schema.XWf
  Proofs.OpsLemmas Proofs.XOpsEq Proofs.XPaths Proofs.XRound Proofs.XRoundThm Proofs.XStruct Proofs.XExamples
  Proofs.XRoundEx Proofs.XMono Proofs.XRoundFull.
Open Scope string_scope.

(* more fuel for the re-Unserialize changes nothing *)
Theorem x_struct_roundtrip_fuel : forall words pu f f' f'' e id u props si v n,
  xrt_desc e props si = true -> xempty_nodefault e props = true -> raw_keys_unique v = true ->
  xchildren_rt words pu f f' e props -> (S f <= f'')%nat ->
  xunser words pu (S f) e (XObject id u props (Some si)) v = Ok n ->
  xvalidate words pu (S f') e (XObject id u props (Some si)) n = Ok tt /\
  exists w, xserialize words pu (S f') e (XObject id u props (Some si)) n = Ok w /\
    exists n', xunser words pu f'' e (XObject id u props (Some si)) w = Ok n' /\ xstruct_sim e props si n n'.
Proof.
  intros words pu f f' f'' e id u props si v n Hd Hn Hu Hch Hle Hun.
  destruct (x_struct_roundtrip words pu f f' e id u props si v n Hd Hn Hu Hch Hun) as (Hv & w & Hs & n' & Hb & Hsim).
  split; [exact Hv|]. exists w. split; [exact Hs|]. exists n'. split; [|exact Hsim].
  apply (xunser_fuel_mono words pu (S f) f'' _ _ _ _ Hle Hb). discriminate.
Qed.

(* boolean property types meet the three-part children hypothesis *)
Lemma xchildren_rt_bool words pu f f' e (props : list (string * xproperty)) :
  (forall np, In np props -> p_type (snd np) = XBool) -> xchildren_rt words pu (S f) (S f') e props.
Proof.
  intros Hb np Hin. split.
  - intros d x Hu. unfold xprt. rewrite (Hb np Hin) in *.
    rewrite (xunser_S words pu) in Hu. cbv beta iota in Hu.
    assert (Hx : exists b, x = vbool b).
    { unfold bool_unser in Hu. cbv zeta in Hu.
      repeat match type of Hu with
             | match ?t with _ => _ end = Ok _ => destruct t; try discriminate
             | (if ?c then _ else _) = Ok _ => destruct c; try discriminate
             end; inversion Hu; eauto. }
    destruct Hx as (b & ->).
    split; [reflexivity|]. rewrite (xvalidate_S words pu), (xserialize_S words pu). cbv beta iota.
    split; [reflexivity|]. exists (vbool b). split; [reflexivity|].
    rewrite (xunser_S words pu). cbv beta iota. reflexivity.
  - intros _ r _. cbn [xsub_defaults]. rewrite (Hb np Hin). reflexivity.
Qed.

Lemma xf_nodefault : xempty_nodefault xf_env xf_props = true.
Proof. vm_compute. reflexivity. Qed.

(* every raw value, every fuel: the full round trip for XFlags *)
Theorem x_struct_roundtrip_flags_full : forall words pu f f' f'' v n,
  raw_keys_unique v = true -> (S (S f) <= f'')%nat ->
  xunser words pu (S (S f)) xf_env xf_obj v = Ok n ->
  xvalidate words pu (S (S f')) xf_env xf_obj n = Ok tt /\
  exists w, xserialize words pu (S (S f')) xf_env xf_obj n = Ok w /\
    exists n', xunser words pu f'' xf_env xf_obj w = Ok n' /\ xstruct_sim xf_env xf_props xf_si n n'.
Proof.
  intros words pu f f' f'' v n Hu Hle H.
  apply (x_struct_roundtrip_fuel words pu (S f) (S f') f'' xf_env "XFlags" false xf_props xf_si v n xf_desc xf_nodefault Hu); [|exact Hle|exact H].
  apply xchildren_rt_bool. intros np [<- | [<- | [<- | []]]]; reflexivity.
Qed.

(* the run of XRoundEx continued: the serialized form {on: true} unserializes to the same struct *)
Example x_struct_roundtrip_flags_full_run :
  let v := VMap t_any_map false [(vstr "on", vstr "yes"); (vstr "zero", vbool false)] in
  let n := VStruct (TStruct "XFlags") [("On", vbool true); ("Opt", VPtr (TPtr TBool) None); ("Zero", vbool false)] in
  let w := VMap t_str_map false [(vstr "on", vbool true)] in
  xunser [("yes", true)] (fun _ _ => None) 3 xf_env xf_obj v = Ok n /\
  xserialize [("yes", true)] (fun _ _ => None) 3 xf_env xf_obj n = Ok w /\
  xunser [("yes", true)] (fun _ _ => None) 3 xf_env xf_obj w = Ok n.
Proof. vm_compute. repeat split; reflexivity. Qed.

(* XInner{A int64 `a` default 1; B string `b` treat-empty-as-default}: the boolean hypotheses hold, and a run
   in which the default fills `a` and the supplied empty `b` is dropped by Serialize *)
Example x_struct_roundtrip_inner_run :
  let e := xs_env xs_tab in
  let v := xs_m [("b", vstr "")] in
  let n := xs_inner_v 1 "" in
  let w := VMap t_str_map false [(vstr "a", vi64 1)] in
  xrt_desc e xs_inner_props xs_inner_si = true /\ xempty_nodefault e xs_inner_props = true /\
  raw_keys_unique v = true /\
  xunser w_words w_pu 5 e xs_inner v = Ok n /\
  xvalidate w_words w_pu 5 e xs_inner n = Ok tt /\
  xserialize w_words w_pu 5 e xs_inner n = Ok w /\
  xunser w_words w_pu 5 e xs_inner w = Ok n.
Proof. vm_compute. repeat split; reflexivity. Qed.

(* `xempty_nodefault` is necessary: XInner with `a` BOTH treat-empty-as-default AND default 1 satisfies xrt_desc,
   yet {a: 0} unserializes to A = 0, serializes to {} (0 is empty) and unserializes back to A = 1 *)
Definition xs_bad_props : list (string * xproperty) :=
  [("a", xs_prop xs_int false (Some "1") true); ("b", xs_prop xs_str false None true)].
Definition xs_bad : xschema := XObject "XInner" false xs_bad_props (Some xs_inner_si).

Theorem x_struct_roundtrip_emptydefault_refuted :
  exists (e : xenv) (v n w n' : gval),
    xrt_desc e xs_bad_props xs_inner_si = true /\ xempty_nodefault e xs_bad_props = false /\
    raw_keys_unique v = true /\
    xunser w_words w_pu 5 e xs_bad v = Ok n /\
    xvalidate w_words w_pu 5 e xs_bad n = Ok tt /\
    xserialize w_words w_pu 5 e xs_bad n = Ok w /\
    xunser w_words w_pu 5 e xs_bad w = Ok n' /\
    n' <> n /\ ~ xstruct_sim e xs_bad_props xs_inner_si n n'.
Proof.
  exists (xs_env xs_tab), (xs_m [("a", vi64 0)]), (xs_inner_v 0 ""), (VMap t_str_map false []), (xs_inner_v 1 "").
  split; [vm_compute; reflexivity|]. split; [vm_compute; reflexivity|]. split; [vm_compute; reflexivity|].
  split; [vm_compute; reflexivity|]. split; [vm_compute; reflexivity|]. split; [vm_compute; reflexivity|].
  split; [vm_compute; reflexivity|]. split; [discriminate|].
  intros (sv & sv' & A & B & H). vm_compute in A, B. inversion A; inversion B; subst.
  specialize (H _ (or_introl eq_refl)). vm_compute in H. discriminate.
Qed.

Print Assumptions x_struct_roundtrip_fuel.
Print Assumptions x_struct_roundtrip_flags_full.
Print Assumptions x_struct_roundtrip_emptydefault_refuted.
