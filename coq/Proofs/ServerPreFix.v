(* Proofs/ServerPreFix.v — the unrepaired server (ATP/ServerPreFix.v) dies on the D21 schedule and
   blocks for ever on the D24 schedule. *)
From Verif Require Import Base.Prelude Base.Str ATP.Msg ATP.Server ATP.ServerPreFix Proofs.Server.
Open Scope string_scope.
Open Scope list_scope.
Open Scope nat_scope.

Lemma prefix_send_on_closed : exists (c : cfg) (ls : list label), crashed (prefix_run c init ls) = true.
Proof. exists prefix_cfg, d21_schedule. vm_compute. reflexivity. Qed.

Lemma prefix_blocked_forever : exists (c : cfg) (ls : list label),
  let s := prefix_run c init ls in
  (forall l, is_internal l = true -> prefix_step c s l = None) /\
  ~ waiting_for_input s /\ ~ waiting_for_release c s /\ In EvEOF (inq s) /\ hp s <> HReturned.
Proof.
  exists prefix_cfg, d24_schedule.
  remember (prefix_run prefix_cfg init d24_schedule) as s eqn:E. vm_compute in E. subst s. cbv zeta.
  split; [|split; [|split; [|split]]].
  - intros l Hl. destruct l as [ev|t| | | |r|i]; try discriminate.
    + reflexivity.
    + destruct r; reflexivity.
    + destruct i; reflexivity.
  - intros [[H|H] _]; discriminate H.
  - intros (i & w & st & tok & Hn & _). destruct i; discriminate Hn.
  - simpl. auto.
  - simpl. discriminate.
Qed.

Lemma prefix_nil_deref : crashed (prefix_run prefix_cfg init d22_schedule) = true.
Proof. vm_compute. reflexivity. Qed.
