(* Proofs/C02Blank.v — a text that consists of white space only denotes no number.

   UnitsDefinition.parse trims the text and THEN refuses the empty text (Schema/Units.v parse_units,
   Schema/FloatUnits.v parse_units_float); strconv.ParseInt does not trim at all.  So for every unit
   definition, every bound and every enum table, Unserialize of a blank string by an int, float or
   int-enum schema - with or without units - is a constraint error (never the number 0).
   The seeded change C02-r2m1 / C16-r2m2 (guard and TrimSpace swapped) breaks exactly this. *)
From Coq Require Import List String Ascii ZArith Bool Lia.
From Verif Require Import Base.Prelude Base.Str Base.Float Base.GoVal
  Schema.Regex Schema.Units Schema.FloatUnits Schema.Syntax Schema.Ops Proofs.C02Containers Proofs.C17.
Import ListNotations.
Open Scope Z_scope.

(* strings.TrimSpace leaves nothing *)
Definition blank_text (s : string) : Prop := chars (trim_space s) = [].

Lemma c02b_chars_unchars : forall l, chars (unchars l) = l.
Proof. intro l. unfold chars, unchars. apply list_ascii_of_string_of_list_ascii. Qed.

Lemma c02b_drop_while_nil : forall p (l : list ascii), drop_while p l = [] -> forallb p l = true.
Proof.
  intros p l. induction l as [|c t IH]; cbn; [reflexivity|].
  destruct (p c) eqn:Hp; [intro H; rewrite (IH H); reflexivity | discriminate].
Qed.

Lemma c02b_drop_while_head : forall p (l : list ascii) c t, drop_while p l = c :: t -> p c = false.
Proof.
  intros p l. induction l as [|x l' IH]; cbn; intros c t H; [discriminate|].
  destruct (p x) eqn:Hp; [exact (IH _ _ H)|]. injection H as -> _. exact Hp.
Qed.

(* blank = every character is one of TrimSpace's (ASCII) white-space characters *)
Lemma blank_all_space : forall s, blank_text s -> forallb is_trim_space (chars s) = true.
Proof.
  intros s H. unfold blank_text, trim_space in H. rewrite c02b_chars_unchars in H.
  destruct (drop_while is_trim_space (chars s)) as [|c t] eqn:HX.
  - exact (c02b_drop_while_nil _ _ HX).
  - exfalso. pose proof (c02b_drop_while_head _ _ _ _ HX) as Hc.
    assert (Hr : rev (rev (drop_while is_trim_space (rev (c :: t)))) = rev []) by (rewrite H; reflexivity).
    rewrite rev_involutive in Hr. cbn [rev] in Hr.
    pose proof (c02b_drop_while_nil _ _ Hr) as Hall.
    rewrite forallb_app in Hall. apply andb_true_iff in Hall. destruct Hall as [_ Hall].
    cbn in Hall. rewrite Hc in Hall. discriminate.
Qed.

Lemma all_space_blank : forall s, forallb is_trim_space (chars s) = true -> blank_text s.
Proof.
  intros s H. unfold blank_text, trim_space. rewrite c02b_chars_unchars.
  assert (Hd : forall l, forallb is_trim_space l = true -> drop_while is_trim_space l = []).
  { induction l as [|c t IH]; cbn; [reflexivity|]. intro Hl. apply andb_true_iff in Hl. destruct Hl as [Hc Ht].
    rewrite Hc. exact (IH Ht). }
  rewrite (Hd _ H). reflexivity.
Qed.

(* with units: trimmed to nothing, refused before the regular expression is consulted *)
Lemma parse_units_blank : forall u s, blank_text s -> parse_units u s = UErr.
Proof. intros u s H. unfold parse_units. unfold blank_text in H. rewrite H. reflexivity. Qed.

Lemma parse_units_int_blank : forall u s, blank_text s -> parse_units_int u s = None.
Proof. intros u s H. unfold parse_units_int. rewrite (parse_units_blank u s H). reflexivity. Qed.

Lemma parse_units_float_blank : forall u s, blank_text s -> parse_units_float u s = None.
Proof. intros u s H. unfold parse_units_float. unfold blank_text in H. rewrite H. reflexivity. Qed.

(* without units: strconv.ParseInt does not trim; a white-space character is neither a sign nor a digit *)
Lemma space_not_numeric : forall c, is_trim_space c = true ->
  Ascii.eqb c "-"%char = false /\ Ascii.eqb c "+"%char = false /\ is_digit c = false.
Proof.
  intros [b0 b1 b2 b3 b4 b5 b6 b7].
  destruct b0, b1, b2, b3, b4, b5, b6, b7; vm_compute; intro H; try discriminate H; repeat split.
Qed.

Lemma parse_int_blank : forall s, blank_text s -> parse_int s = None.
Proof.
  intros s H. pose proof (blank_all_space s H) as Hall. unfold parse_int.
  destruct (chars s) as [|c t]; [reflexivity|].
  cbn [forallb] in Hall. apply andb_true_iff in Hall. destruct Hall as [Hc _].
  destruct (space_not_numeric c Hc) as (Hm & Hp & Hd).
  rewrite Hm, Hp. cbn [all_digits]. rewrite Hd. reflexivity.
Qed.

Lemma int_mapper_blank : forall u s, blank_text s -> int_mapper u (VStr TStr s) = None.
Proof.
  intros [us|] s H; cbn [int_mapper]; [exact (parse_units_int_blank us s H) | exact (parse_int_blank s H)].
Qed.

Section WithWords.
Variable words : list (string * bool).

(* Unserialize of a blank text: int and int-enum schemas, any units (or none), any float-unit parser *)
Theorem blank_text_not_an_int : forall pu f e mn mx u s, blank_text s ->
  unser words pu (S f) e (SInt mn mx u) (VStr TStr s) = Err (cerr ERepr).
Proof. intros pu f e mn mx u s H. cbn [unser]. unfold int_unser. rewrite (int_mapper_blank u s H). reflexivity. Qed.

Theorem blank_text_not_an_enum_int : forall pu f e vals u s, blank_text s ->
  unser words pu (S f) e (SEnumInt vals u) (VStr TStr s) = Err (cerr ERepr).
Proof. intros pu f e vals u s H. cbn [unser]. unfold enum_int_unser. rewrite (int_mapper_blank u s H). reflexivity. Qed.

(* float schemas WITH units, read by the modelled UnitsDefinition.ParseFloat *)
Theorem blank_text_not_a_unit_float : forall f e mn mx us s, blank_text s ->
  unser words parse_units_float (S f) e (SFloat mn mx (Some us)) (VStr TStr s) = Err (cerr ERepr).
Proof.
  intros f e mn mx us s H. cbn [unser]. unfold float_unser. cbn [float_mapper].
  rewrite (parse_units_float_blank us s H). reflexivity.
Qed.

(* the same one level down: as a list item and as a map KEY / map VALUE the blank text is refused with the
   segment of that position in front *)
Theorem blank_text_map_key_refused : forall pu f e mn mx u vs mn' mx' t nl kvs1 s x kvs2, blank_text s ->
  size_ok mn' mx' (zlen (kvs1 ++ (VStr TStr s, x) :: kvs2)) = true ->
  Forall (entry_ok (unser words pu (S f) e (SInt mn mx u)) (unser words pu (S f) e vs)) kvs1 ->
  unser words pu (S (S f)) e (SMap (SInt mn mx u) vs mn' mx') (VMap t nl (kvs1 ++ (VStr TStr s, x) :: kvs2))
  = Err (add_seg (mkey_seg (VStr TStr s)) (cerr ERepr)).
Proof.
  intros pu f e mn mx u vs mn' mx' t nl kvs1 s x kvs2 H Hs Hok.
  exact (unser_map_key_error words pu (S f) e (SInt mn mx u) vs mn' mx' t nl kvs1 (VStr TStr s) x kvs2 (cerr ERepr)
           Hs Hok (blank_text_not_an_int pu f e mn mx u s H)).
Qed.

Theorem blank_text_list_item_refused : forall pu f e mn mx u mn' mx' t nl l1 s l2, blank_text s ->
  size_ok mn' mx' (zlen (l1 ++ VStr TStr s :: l2)) = true ->
  Forall (fun y => exists n, unser words pu (S f) e (SInt mn mx u) y = Ok n) l1 ->
  unser words pu (S (S f)) e (SList (SInt mn mx u) mn' mx') (VSlice t nl (l1 ++ VStr TStr s :: l2))
  = Err (add_seg (idx_seg (zlen l1)) (cerr ERepr)).
Proof.
  intros pu f e mn mx u mn' mx' t nl l1 s l2 H Hs Hok.
  exact (unser_list_item_error words pu (S f) e (SInt mn mx u) mn' mx' t nl l1 (VStr TStr s) l2 (cerr ERepr)
           Hs Hok (blank_text_not_an_int pu f e mn mx u s H)).
Qed.

End WithWords.

(* non-vacuous: the blank texts of the generator are blank, for every definition they are refused, and a padded text is not *)
Example blank_texts_are_blank :
  blank_text " " /\ blank_text (String (ascii_of_nat 9) EmptyString) /\
  blank_text (String " "%char (String (ascii_of_nat 10) (String " "%char EmptyString))) /\
  ~ blank_text " 0 ".
Proof.
  repeat split; try (vm_compute; reflexivity).
  vm_compute. discriminate.
Qed.
