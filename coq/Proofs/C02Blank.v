(* Proofs/C02Blank.v — a text that consists of white space only denotes no number.

   UnitsDefinition.parse trims the text and THEN refuses the empty text (Schema/Units.v parse_units,
   Schema/FloatUnits.v parse_units_float); strconv.ParseInt does not trim at all.  So for every unit
   definition, every bound and every enum table, Unserialize of a blank string by an int, float or
   int-enum schema - with or without units - is a constraint error (never the number 0).
   The seeded change C02-r2m1 / C16-r2m2 (guard and TrimSpace swapped) breaks exactly this. *)
From Coq Require Import List String Ascii ZArith Bool Lia.
From Verif Require Import Base.Prelude Base.Str Base.Float Base.GoVal
  Schema.Regex Schema.Units Schema.FloatUnits Schema.Syntax Schema.Ops Proofs.C02Containers Proofs.C17 Proofs.TrimSpaceU.
Import ListNotations.
Open Scope Z_scope.

(* strings.TrimSpace (Unicode white space, UTF-8 aware: Base/Str.v trim_space) leaves nothing *)
Definition blank_text (s : string) : Prop := chars (trim_space s) = [].

Lemma c02b_chars_unchars : forall l, chars (unchars l) = l.
Proof. intro l. unfold chars, unchars. apply list_ascii_of_string_of_list_ascii. Qed.

(* blank = a sequence of white-space characters, each one of the six ASCII ones or the UTF-8 encoding of one of
   unicode.IsSpace's others (Base/Str.v is_uspace_enc; Proofs/TrimSpaceU.v) - both directions *)
Lemma blank_all_space : forall s, blank_text s ->
  exists rs, Forall (fun r => is_uspace_enc r = true) rs /\ chars s = List.concat rs.
Proof. intros s H. apply (proj1 (trim_space_blank_iff s)). exact H. Qed.

Lemma all_space_blank : forall s,
  (exists rs, Forall (fun r => is_uspace_enc r = true) rs /\ chars s = List.concat rs) -> blank_text s.
Proof. intros s H. apply (proj2 (trim_space_blank_iff s)). exact H. Qed.

(* with units: trimmed to nothing, refused before the regular expression is consulted *)
Lemma parse_units_blank : forall u s, blank_text s -> parse_units u s = UErr.
Proof. intros u s H. unfold parse_units. unfold blank_text in H. rewrite H. reflexivity. Qed.

Lemma parse_units_int_blank : forall u s, blank_text s -> parse_units_int u s = None.
Proof. intros u s H. unfold parse_units_int. rewrite (parse_units_blank u s H). reflexivity. Qed.

Lemma parse_units_float_blank : forall u s, blank_text s -> parse_units_float u s = None.
Proof. intros u s H. unfold parse_units_float. unfold blank_text in H. rewrite H. reflexivity. Qed.

(* without units: strconv.ParseInt does not trim; a white-space character is neither a sign nor a digit *)
Lemma space_not_numeric : forall c, is_trim_space c = true ->
  Ascii.eqb c "-"%char = false /\ Ascii.eqb c "+"%char = false /\ is_digit c = false.
Proof.
  intros [b0 b1 b2 b3 b4 b5 b6 b7].
  destruct b0, b1, b2, b3, b4, b5, b6, b7; vm_compute; intro H; try discriminate H; repeat split.
Qed.

(* the first byte of an encoded white-space character (ASCII, or 0xC2 / 0xE1 / 0xE2 / 0xE3) is neither a sign nor a digit *)
Lemma enc_head_not_numeric : forall c r, is_uspace_enc (c :: r) = true ->
  Ascii.eqb c "-"%char = false /\ Ascii.eqb c "+"%char = false /\ is_digit c = false.
Proof.
  intros c r H. destruct (sp_enc_shape _ _ _ H) as [(c0 & E & P)|[(c0 & d & E & P)|(c0 & d & e & E & P)]];
    inversion E; subst; clear E.
  - exact (space_not_numeric c0 P).
  - split; [|split].
    + destruct (Ascii.eqb_spec c0 "-"%char) as [->|]; [vm_compute in P; discriminate | reflexivity].
    + destruct (Ascii.eqb_spec c0 "+"%char) as [->|]; [vm_compute in P; discriminate | reflexivity].
    + revert P. unfold usp2, is_digit. cbv zeta. lia.
  - split; [|split].
    + destruct (Ascii.eqb_spec c0 "-"%char) as [->|]; [vm_compute in P; discriminate | reflexivity].
    + destruct (Ascii.eqb_spec c0 "+"%char) as [->|]; [vm_compute in P; discriminate | reflexivity].
    + revert P. unfold usp3, is_digit. cbv zeta. lia.
Qed.

Lemma parse_int_blank : forall s, blank_text s -> parse_int s = None.
Proof.
  intros s H. destruct (blank_all_space s H) as (rs & F & E). unfold parse_int.
  destruct (chars s) as [|c t]; [reflexivity|].
  assert (A : exists r', is_uspace_enc (c :: r') = true).
  { clear -F E. induction F as [|r rs Hr F IH]; [discriminate|].
    destruct r as [|c0 r0]; [discriminate Hr|]. cbn [List.concat app] in E. inversion E; subst. exists r0. exact Hr. }
  destruct A as (r' & Hr). destruct (enc_head_not_numeric c r' Hr) as (Hm & Hp & Hd).
  rewrite Hm, Hp. cbn [all_digits]. rewrite Hd. reflexivity.
Qed.

Lemma int_mapper_blank : forall u s, blank_text s -> int_mapper u (VStr TStr s) = None.
Proof.
  intros [us|] s H; cbn [int_mapper]; [exact (parse_units_int_blank us s H) | exact (parse_int_blank s H)].
Qed.

Section WithWords.
Variable words : list (string * bool).

(* Unserialize of a blank text: int and int-enum schemas, any units (or none), any float-unit parser *)
Theorem blank_text_not_an_int : forall pu f e mn mx u s, blank_text s ->
  unser words pu (S f) e (SInt mn mx u) (VStr TStr s) = Err (cerr ERepr).
Proof. intros pu f e mn mx u s H. cbn [unser]. unfold int_unser. rewrite (int_mapper_blank u s H). reflexivity. Qed.

Theorem blank_text_not_an_enum_int : forall pu f e vals u s, blank_text s ->
  unser words pu (S f) e (SEnumInt vals u) (VStr TStr s) = Err (cerr ERepr).
Proof. intros pu f e vals u s H. cbn [unser]. unfold enum_int_unser. rewrite (int_mapper_blank u s H). reflexivity. Qed.

(* float schemas WITH units, read by the modelled UnitsDefinition.ParseFloat *)
Theorem blank_text_not_a_unit_float : forall f e mn mx us s, blank_text s ->
  unser words parse_units_float (S f) e (SFloat mn mx (Some us)) (VStr TStr s) = Err (cerr ERepr).
Proof.
  intros f e mn mx us s H. cbn [unser]. unfold float_unser. cbn [float_mapper].
  rewrite (parse_units_float_blank us s H). reflexivity.
Qed.

(* the same one level down: as a list item and as a map KEY / map VALUE the blank text is refused with the
   segment of that position in front *)
Theorem blank_text_map_key_refused : forall pu f e mn mx u vs mn' mx' t nl kvs1 s x kvs2, blank_text s ->
  size_ok mn' mx' (zlen (kvs1 ++ (VStr TStr s, x) :: kvs2)) = true ->
  Forall (entry_ok (unser words pu (S f) e (SInt mn mx u)) (unser words pu (S f) e vs)) kvs1 ->
  unser words pu (S (S f)) e (SMap (SInt mn mx u) vs mn' mx') (VMap t nl (kvs1 ++ (VStr TStr s, x) :: kvs2))
  = Err (add_seg (mkey_seg (VStr TStr s)) (cerr ERepr)).
Proof.
  intros pu f e mn mx u vs mn' mx' t nl kvs1 s x kvs2 H Hs Hok.
  exact (unser_map_key_error words pu (S f) e (SInt mn mx u) vs mn' mx' t nl kvs1 (VStr TStr s) x kvs2 (cerr ERepr)
           Hs Hok (blank_text_not_an_int pu f e mn mx u s H)).
Qed.

Theorem blank_text_list_item_refused : forall pu f e mn mx u mn' mx' t nl l1 s l2, blank_text s ->
  size_ok mn' mx' (zlen (l1 ++ VStr TStr s :: l2)) = true ->
  Forall (fun y => exists n, unser words pu (S f) e (SInt mn mx u) y = Ok n) l1 ->
  unser words pu (S (S f)) e (SList (SInt mn mx u) mn' mx') (VSlice t nl (l1 ++ VStr TStr s :: l2))
  = Err (add_seg (idx_seg (zlen l1)) (cerr ERepr)).
Proof.
  intros pu f e mn mx u mn' mx' t nl l1 s l2 H Hs Hok.
  exact (unser_list_item_error words pu (S f) e (SInt mn mx u) mn' mx' t nl l1 (VStr TStr s) l2 (cerr ERepr)
           Hs Hok (blank_text_not_an_int pu f e mn mx u s H)).
Qed.

End WithWords.

(* non-vacuous: the blank texts of the generator are blank, for every definition they are refused, and a padded text is not *)
Example blank_texts_are_blank :
  blank_text " " /\ blank_text (String (ascii_of_nat 9) EmptyString) /\
  blank_text (String " "%char (String (ascii_of_nat 10) (String " "%char EmptyString))) /\
  ~ blank_text " 0 ".
Proof.
  repeat split; try (vm_compute; reflexivity).
  vm_compute. discriminate.
Qed.

(* ... and so are the Unicode ones: NBSP (C2 A0), NEL (C2 85), U+3000 (E3 80 80), U+2003 (E2 80 83), U+2028 (E2 80 A8),
   \v; the bytes A0 / 85 alone (invalid UTF-8), U+200B and a padded count are not *)
Example blank_texts_unicode :
  blank_text (bytes_str [194; 160]%Z) /\ blank_text (bytes_str [194; 133]%Z) /\ blank_text (bytes_str [227; 128; 128]%Z) /\
  blank_text (bytes_str [226; 128; 131; 32; 226; 128; 168; 11]%Z) /\
  ~ blank_text (bytes_str [160]%Z) /\ ~ blank_text (bytes_str [133]%Z) /\ ~ blank_text (bytes_str [226; 128; 139]%Z) /\
  ~ blank_text (bytes_str [194; 160; 48; 194; 160]%Z) /\ ~ blank_text (bytes_str [226; 128]%Z).
Proof.
  repeat split; try (vm_compute; reflexivity); vm_compute; discriminate.
Qed.
