(* Proofs/C09Behaviour2.v — the rebuilt schema behaves like the original on EVERY path of Schema/Ops.v:
   Validate, Serialize, data-mode ValidateCompatibility (and the one-of member search they share) on
   `erase s` return exactly what they return on s, for every value, every fuel and every environment.
   (Unserialize: Proofs/C09Behaviour.v.)

   What `erase` removes — TreatEmptyAsDefaultValue — is read only by the struct-mapped object code
   (schema/object.go extractPropertyValue / validateStruct, modelled in Schema/XOps.v); a schema rebuilt from a
   description is always map-based, and none of the map-based operations looks at the flag.  A named string
   enum (the only construct whose unserialized TYPE a description could not carry) is not describable at all
   (`describable (SEnumStr (Some _) _) = false`, open finding D69), and `erase` leaves it alone: so the relation
   between the observables of s and of its rebuild is plain equality, there is no "up to erase_val" left. *)
From Coq Require Import Lia.
From Verif Require Import Base.Prelude Base.Str Base.Float Base.GoVal
  Schema.Regex Schema.Units Schema.Syntax Schema.Ops Schema.Describe
  Proofs.DescribeBase Proofs.C09Describe Proofs.C09Fixpoint Proofs.C09Plugin Proofs.C09Behaviour Proofs.C09Link Proofs.OpsEq.
Open Scope string_scope.

Definition c09_omap {A B} (g : A -> B) (o : outcome A) : outcome B :=
  match o with Ok a => Ok (g a) | Err e => Err e | Panic w => Panic w | OutOfFuel => OutOfFuel end.
Definition erase_types (types : list (okey * schema)) : list (okey * schema) :=
  map (fun km : okey * schema => match km with (k, m) => (k, erase m) end) types.
Definition erase_found (x : okey * schema * gval) : okey * schema * gval :=
  match x with (k, m, d) => (k, erase m, d) end.

Lemma erase_oneof types ik field inl : erase (SOneOf types ik field inl) = SOneOf (erase_types types) ik field inl.
Proof. reflexivity. Qed.

Lemma mapM_ext {A B} (f g : A -> outcome B) l : (forall x, f x = g x) -> mapM f l = mapM g l.
Proof.
  intros H. induction l as [|x t IH]; cbn; [reflexivity|]. rewrite H. apply bind_ext; [reflexivity|].
  intros. rewrite IH. reflexivity.
Qed.

Lemma alookup_erase_props2 k (props : list (string * property_ schema)) :
  @alookup (property_ schema) k (map erase_prop props)
  = option_map (fun p => snd (erase_prop (k, p))) (@alookup (property_ schema) k props).
Proof. exact (alookup_erase_props k props). Qed.
Lemma amem_erase_props2 k (props : list (string * property_ schema)) :
  @amem (property_ schema) k (map erase_prop props) = @amem (property_ schema) k props.
Proof. exact (amem_erase_props k props). Qed.

Lemma p_type_erase n p : p_type (snd (erase_prop (n, p))) = erase (p_type p).
Proof. destruct p. reflexivity. Qed.
Lemma p_disabled_erase n p : p_disabled (snd (erase_prop (n, p))) = p_disabled p.
Proof. destruct p. reflexivity. Qed.
Lemma p_required_erase n p : p_required (snd (erase_prop (n, p))) = p_required p.
Proof. destruct p. reflexivity. Qed.
Lemma fst_erase_prop np : fst (erase_prop np) = fst np.
Proof. destruct np as [n p]. destruct p. reflexivity. Qed.

Section Behaviour2.
Variable words : list (string * bool).
Variable pu : units -> string -> option fl.
Notation unser := (unser words pu).
Notation validate := (validate words pu).
Notation serialize := (serialize words pu).
Notation compat := (compat words pu).
Notation oneof_find := (oneof_find words pu).

Definition all_erase (f : nat) : Prop :=
  (forall e s v, validate f (erase_env e) (erase s) v = validate f e s v)
  /\ (forall e s v, serialize f (erase_env e) (erase s) v = serialize f e s v)
  /\ (forall e s v, compat f (erase_env e) (erase s) v = compat f e s v)
  /\ (forall e types ik field inl v,
        oneof_find f (erase_env e) (erase_types types) ik field inl v
        = c09_omap erase_found (oneof_find f e types ik field inl v)).

Lemma validate_step f : all_erase f -> forall e s v, validate (S f) (erase_env e) (erase s) v = validate (S f) e s v.
Proof.
  intros (IHv & IHs & IHc & IHo) e s v. rewrite !validate_S.
  destruct s; try reflexivity.
  - (* list *)
    cbn [erase]. destruct v; try reflexivity.
    destruct (size_ok mn mx (zlen l)); [|reflexivity].
    apply bind_ext; [|reflexivity]. apply mapMi_ext. intros i x. rewrite IHv. reflexivity.
  - (* map *)
    cbn [erase]. destruct v; try reflexivity.
    destruct (size_ok mn mx (zlen l)); [|reflexivity].
    apply forM_ext. intros kv. rewrite !IHv. reflexivity.
  - (* object *)
    rewrite erase_object. cbv beta iota. destruct (is_str_any_map v) as [kvs|]; [|reflexivity].
    cbv zeta. rewrite check_rules_erase. apply bind_ext; [reflexivity|]. intros _.
    apply forM_ext. intros kv. rewrite alookup_erase_props2.
    destruct (alookup (fst kv) props) as [p|]; [|reflexivity]. cbn [option_map].
    rewrite p_type_erase, IHv. reflexivity.
  - (* one-of *)
    rewrite erase_oneof. cbv beta iota. rewrite IHo.
    destruct (oneof_find f e types int_keys field inlined v) as [[[k m] d]| | |]; try reflexivity.
    cbn [c09_omap bind erase_found]. rewrite IHv. reflexivity.
  - (* ref *)
    cbn [erase]. rewrite resolve_erase. destruct (resolve e id ns) as [[o e']|]; [|reflexivity].
    cbn [option_map fst snd]. apply IHv.
  - (* scope *)
    rewrite erase_scope. cbv beta iota. rewrite alookup_erase_tab.
    destruct (alookup root objs) as [o|]; [|reflexivity]. cbn [option_map].
    change (env_enter (erase_env e) (erase_tab objs)) with (erase_env (env_enter e objs)). apply IHv.
Qed.

Lemma oneof_find_step f : all_erase f -> forall e types ik field inl v,
  oneof_find (S f) (erase_env e) (erase_types types) ik field inl v
  = c09_omap erase_found (oneof_find (S f) e types ik field inl v).
Proof.
  intros (IHv & IHs & IHc & IHo) e types ik field inl v. rewrite !oneof_find_S.
  destruct v; try reflexivity; cbv beta iota;
    (destruct (kind_of _); try reflexivity).
  destruct (is_str_any_map _) as [kvs|]; [|reflexivity].
  destruct (smap_get field kvs) as [d|]; [|reflexivity].
  assert (Hbody : forall key,
    match find (fun ks : okey * schema => okey_eqb (fst ks) key) (erase_types types) with
    | Some (_, member) =>
        let clone := VMap t_str_map false (if inl then kvs else smap_del field kvs) in
        _ <- rewrap_path (compat f (erase_env e) member clone) ;; Ok (key, member, clone)
    | None => Err (cerr EKey)
    end =
    c09_omap erase_found
      match find (fun ks : okey * schema => okey_eqb (fst ks) key) types with
      | Some (_, member) =>
          let clone := VMap t_str_map false (if inl then kvs else smap_del field kvs) in
          _ <- rewrap_path (compat f e member clone) ;; Ok (key, member, clone)
      | None => Err (cerr EKey)
      end).
  { intros key. unfold erase_types. rewrite (find_erase (fun k => okey_eqb k key)).
    destruct (find (fun ks : okey * schema => okey_eqb (fst ks) key) types) as [[k m]|]; [|reflexivity].
    cbn [option_map fst snd]. cbv zeta. rewrite IHc.
    destruct (compat f e m _); reflexivity. }
  destruct d; try reflexivity;
    match goal with
    | |- match ?k with _ => _ end = _ => destruct k as [key|]; [apply Hbody | reflexivity]
    end.
Qed.

Lemma serialize_step f : all_erase f -> forall e s v, serialize (S f) (erase_env e) (erase s) v = serialize (S f) e s v.
Proof.
  intros (IHv & IHs & IHc & IHo) e s v. rewrite !serialize_S.
  destruct s; try reflexivity.
  - (* list *)
    cbn [erase]. apply bind_ext; [exact (IHv e (SList s mn mx) v)|]. intros _.
    destruct v; try reflexivity.
    apply bind_ext; [|reflexivity]. apply mapMi_ext. intros i x. rewrite IHs. reflexivity.
  - (* map *)
    cbn [erase]. apply bind_ext; [exact (IHv e (SMap s1 s2 mn mx) v)|]. intros _.
    destruct v; try reflexivity.
    apply bind_ext; [|reflexivity].
    apply fold_left_ext. intros a kv. apply bind_ext; [reflexivity|]. intros a0.
    rewrite IHs. apply bind_ext; [reflexivity|]. intros k'. rewrite IHs. reflexivity.
  - (* object *)
    rewrite erase_object. cbv beta iota. destruct (is_str_any_map v) as [kvs|]; [|reflexivity].
    cbv zeta. rewrite check_rules_erase. apply bind_ext; [reflexivity|]. intros _.
    apply bind_ext; [|reflexivity].
    apply mapM_ext. intros kv. rewrite alookup_erase_props2.
    destruct (alookup (fst kv) props) as [p|]; [|reflexivity]. cbn [option_map].
    rewrite p_type_erase, IHs. reflexivity.
  - (* one-of *)
    rewrite erase_oneof. cbv beta iota. rewrite IHo.
    destruct (oneof_find f e types int_keys field inlined v) as [[[k m] d]| | |]; try reflexivity.
    cbn [c09_omap bind erase_found]. rewrite IHs. reflexivity.
  - (* ref *)
    cbn [erase]. rewrite resolve_erase. destruct (resolve e id ns) as [[o e']|]; [|reflexivity].
    cbn [option_map fst snd]. apply IHs.
  - (* scope *)
    rewrite erase_scope. cbv beta iota. rewrite alookup_erase_tab.
    destruct (alookup root objs) as [o|]; [|reflexivity]. cbn [option_map].
    change (env_enter (erase_env e) (erase_tab objs)) with (erase_env (env_enter e objs)). apply IHs.
Qed.

Lemma compat_step f : all_erase f -> forall e s v, compat (S f) (erase_env e) (erase s) v = compat (S f) e s v.
Proof.
  intros (IHv & IHs & IHc & IHo) e s v. rewrite !compat_S.
  pose proof (unser_erase words pu f) as Hu.
  assert (HcA : forall x, compat f (erase_env e) SAny x = compat f e SAny x) by (intros x; exact (IHc e SAny x)).
  destruct s.
  - exact (f_equal (fun o => bind o (fun _ => Ok tt)) (Hu e (SInt mn mx u) v)).
  - exact (f_equal (fun o => bind o (fun _ => Ok tt)) (Hu e (SFloat mn mx u) v)).
  - cbn [erase]. destruct v; try reflexivity. destruct t; try reflexivity.
    exact (f_equal (fun o => bind o (fun _ => Ok tt)) (Hu e (SString mn mx pat) (VStr TStr s))).
  - exact (f_equal (fun o => bind o (fun _ => Ok tt)) (Hu e SBool v)).
  - exact (IHv e SPattern v).
  - (* any *)
    cbn [erase]. destruct v; try reflexivity.
    + (* slice *)
      destruct (gtype_eqb t t_any_slice); [|reflexivity].
      apply bind_ext; [|reflexivity]. apply forM_ext. intros x. rewrite HcA. reflexivity.
    + (* map *)
      destruct (gtype_eqb t t_str_map || gtype_eqb t (TMap (TInt I64) TAny)).
      { apply forM_ext. intros kv. rewrite HcA. reflexivity. }
      destruct (gtype_eqb t t_any_map); [|reflexivity].
      destruct l as [|[k0 v0] tl]; [reflexivity|].
      apply forM_ext. intros kv. rewrite HcA. reflexivity.
  - exact (IHv e (SEnumInt vals u) v).
  - exact (IHv e (SEnumStr named vals) v).
  - (* list *)
    cbn [erase]. destruct v; try reflexivity.
    + apply bind_ext; [|reflexivity]. apply mapMi_ext. intros i x. rewrite IHc. reflexivity.
    + destruct o as [x|]; [|reflexivity]. destruct x; try reflexivity.
      destruct (underlying t); try reflexivity. destruct (kind_of_type g); try reflexivity.
      apply bind_ext; [|reflexivity]. apply mapMi_ext. intros i x. rewrite IHc. reflexivity.
  - (* map *)
    cbn [erase]. destruct v; try reflexivity.
    destruct (size_ok mn mx (zlen l)); [|reflexivity].
    apply forM_ext. intros kv. rewrite !IHc. reflexivity.
  - (* object *)
    rewrite erase_object. cbv beta iota. destruct (is_str_any_map v) as [kvs|].
    + cbv zeta. apply bind_ext.
      * apply forM_ext. intros kv. rewrite alookup_erase_props2.
        destruct (alookup (fst kv) props) as [p|]; [|reflexivity]. cbn [option_map].
        rewrite p_type_erase, p_disabled_erase, IHc. reflexivity.
      * intros _. rewrite forM_map. apply forM_ext. intros np.
        rewrite fst_erase_prop. destruct np as [n p]. rewrite p_required_erase. reflexivity.
    + rewrite <- erase_object. rewrite Hu. reflexivity.
  - (* one-of *)
    rewrite erase_oneof. cbv beta iota. destruct (is_str_any_map v) as [kvs|].
    + rewrite IHo. destruct (oneof_find f e types int_keys field inlined v) as [[[k m] d]| | |]; reflexivity.
    + rewrite <- erase_oneof.
      destruct (kind_of v); try reflexivity; try apply IHv.
      destruct v; try reflexivity; try apply IHv.
      * destruct o as [x|]; [|reflexivity]. destruct x; try reflexivity; apply IHv.
      * destruct k; try reflexivity; apply IHv.
  - (* ref *)
    cbn [erase]. rewrite resolve_erase. destruct (resolve e id ns) as [[o e']|]; [|reflexivity].
    cbn [option_map fst snd]. apply IHc.
  - (* scope *)
    rewrite erase_scope. cbv beta iota. rewrite alookup_erase_tab.
    destruct (alookup root objs) as [o|]; [|reflexivity]. cbn [option_map].
    change (env_enter (erase_env e) (erase_tab objs)) with (erase_env (env_enter e objs)). apply IHc.
Qed.

Theorem all_erase_holds : forall f, all_erase f.
Proof.
  induction f as [|f IH].
  - repeat split; reflexivity.
  - split; [|split; [|split]].
    + apply validate_step, IH.
    + apply serialize_step, IH.
    + apply compat_step, IH.
    + apply oneof_find_step, IH.
Qed.

Theorem validate_erase : forall f e s v, validate f (erase_env e) (erase s) v = validate f e s v.
Proof. intros f. apply (all_erase_holds f). Qed.
Theorem serialize_erase : forall f e s v, serialize f (erase_env e) (erase s) v = serialize f e s v.
Proof. intros f. apply (all_erase_holds f). Qed.
Theorem compat_erase : forall f e s v, compat f (erase_env e) (erase s) v = compat f e s v.
Proof. intros f. apply (all_erase_holds f). Qed.
Theorem oneof_find_erase : forall f e types ik field inl v,
  oneof_find f (erase_env e) (erase_types types) ik field inl v
  = c09_omap erase_found (oneof_find f e types ik field inl v).
Proof. intros f. apply (all_erase_holds f). Qed.

(* the same in ANY environment: the namespaces applied to the rebuilt scope are the original, un-erased ones *)
Corollary validate_erase_schema : forall f e s v, validate f e (erase s) v = validate f e s v.
Proof. intros. rewrite <- (validate_erase f e (erase s)), erase_idem, validate_erase. reflexivity. Qed.
Corollary serialize_erase_schema : forall f e s v, serialize f e (erase s) v = serialize f e s v.
Proof. intros. rewrite <- (serialize_erase f e (erase s)), erase_idem, serialize_erase. reflexivity. Qed.
Corollary compat_erase_schema : forall f e s v, compat f e (erase s) v = compat f e s v.
Proof. intros. rewrite <- (compat_erase f e (erase s)), erase_idem, compat_erase. reflexivity. Qed.

Theorem erase_invisible_all_paths : forall fuel e s v,
  (validate fuel (erase_env e) (erase s) v = validate fuel e s v
   /\ serialize fuel (erase_env e) (erase s) v = serialize fuel e s v
   /\ compat fuel (erase_env e) (erase s) v = compat fuel e s v
   /\ unser fuel (erase_env e) (erase s) v = unser fuel e s v)
  /\ (validate fuel e (erase s) v = validate fuel e s v
      /\ serialize fuel e (erase s) v = serialize fuel e s v
      /\ compat fuel e (erase s) v = compat fuel e s v
      /\ unser fuel e (erase s) v = unser fuel e s v).
Proof.
  intros. repeat split.
  - apply validate_erase.
  - apply serialize_erase.
  - apply compat_erase.
  - apply unser_erase.
  - apply validate_erase_schema.
  - apply serialize_erase_schema.
  - apply compat_erase_schema.
  - apply unser_erase_schema.
Qed.

End Behaviour2.

(* ---------- with the rebuild of C09: the schema UnserializeScope returns for a description ---------- *)
Definition same_behaviour (words : list (string * bool)) (pu : units -> string -> option fl) (s' s : schema) : Prop :=
  forall fuel e v,
    unser words pu fuel e s' v = unser words pu fuel e s v
    /\ validate words pu fuel e s' v = validate words pu fuel e s v
    /\ serialize words pu fuel e s' v = serialize words pu fuel e s v
    /\ compat words pu fuel e s' v = compat words pu fuel e s v.

Lemma same_behaviour_erase words pu s : same_behaviour words pu (erase s) s.
Proof.
  intros fuel e v. repeat split.
  - apply unser_erase_schema.
  - apply validate_erase_schema.
  - apply serialize_erase_schema.
  - apply compat_erase_schema.
Qed.

Section RebuiltAll.
Variable words : list (string * bool).
Variable pu : units -> string -> option fl.
Variable cu : units.
Variable rp : string -> option re.
Variable jor : oracles.

Theorem rebuilt_all_paths : forall os root,
  let s := SScope os root in
  describable s = true ->
  (forall p, In p (pats_of s) -> rp (fst p) = Some (snd p)) ->
  link_ok jor [] s = true ->
  exists s', rebuild words pu cu rp jor (describe s) = Ok s' /\ same_behaviour words pu s' s.
Proof.
  intros os root s Hd Hp Hl. rewrite <- link_ok_erase_top in Hl. exists (erase s). split.
  - apply rebuild_describe; [split; assumption | assumption].
  - apply same_behaviour_erase.
Qed.

Theorem rebuilt_plugin_all_paths : forall p : dplugin,
  good_plugin rp p ->
  forallb (link_ok jor []) (plugin_scopes p) = true ->
  existsb foreign_refs (plugin_scopes p) = false ->
  exists p', rebuild_plugin words pu cu rp jor (describe_plugin p) = Ok p'
             /\ Forall2 (same_behaviour words pu) (plugin_scopes p') (plugin_scopes p).
Proof.
  intros p Hg Hl Hf. rewrite <- plugin_links_erase in Hl. rewrite <- plugin_foreign_erase in Hf.
  exists (erase_plugin p). split; [apply rebuild_plugin_describe; assumption|].
  rewrite plugin_scopes_erase. induction (plugin_scopes p) as [|s tl IH]; constructor; [apply same_behaviour_erase | exact IH].
Qed.
End RebuiltAll.
