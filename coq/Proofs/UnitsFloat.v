(* Proofs/UnitsFloat.v — C16, float side: trimFraction (schema/units.go), the function every
   formatted float count passes through, never removes a significant digit.  For a decimal
   rendering  ip "." fp  (no further dots — what fmt.Sprintf("%f") produces) the result is ip
   followed by fp without its trailing zeros (and without the point when nothing is left), so the
   integer part is untouched and the fraction keeps its value. *)
From Coq Require Import Lia ZArith List Ascii String Bool.
From Verif Require Import Base.Prelude Base.Str Base.Float Schema.Regex Schema.Units Schema.FloatUnits.
Import ListNotations.
Open Scope Z_scope.
Open Scope list_scope.

Definition is0 (c : ascii) : bool := Ascii.eqb c "0"%char.
Definition isdot (c : ascii) : bool := Ascii.eqb c "."%char.
Definition has_dot (l : list ascii) : bool := contains_chr "."%char l.

(* trimFraction on the characters of the number *)
Definition trim_fraction (l : list ascii) : list ascii :=
  if has_dot l then trim_right isdot (trim_right is0 l) else l.

(* this IS what the formatter model applies to fmt.Sprintf("%f", x) *)
Lemma fmt_f_trim_is_trim_fraction : forall x, fmt_f_trim x = unchars (trim_fraction (chars (fmt_f x))).
Proof.
  intro x. unfold fmt_f_trim, trim_fraction, has_dot, isdot, is0. cbv zeta.
  destruct (contains_chr "."%char (chars (fmt_f x))); [reflexivity|].
  symmetry. unfold unchars, chars. apply string_of_list_ascii_of_string.
Qed.

(* ---- lists ---- *)
Lemma contains_app : forall c a b, contains_chr c (a ++ b) = contains_chr c a || contains_chr c b.
Proof.
  intros c a b. induction a as [|x a IH]; simpl; [reflexivity|]. rewrite IH. apply orb_assoc.
Qed.

Lemma contains_rev : forall c l, contains_chr c (rev l) = contains_chr c l.
Proof.
  intros c l. induction l as [|x l IH]; simpl; [reflexivity|].
  rewrite contains_app, IH. simpl. rewrite orb_false_r. apply orb_comm.
Qed.

Lemma drop_while_app_stop : forall p x c y, p c = false -> drop_while p (x ++ c :: y) = drop_while p x ++ c :: y.
Proof.
  intros p x c y Hc. induction x as [|h t IH]; simpl.
  - rewrite Hc. reflexivity.
  - destruct (p h); [exact IH | reflexivity].
Qed.

Lemma trim_right_app_stop : forall p a c b, p c = false -> trim_right p (a ++ c :: b) = a ++ c :: trim_right p b.
Proof.
  intros p a c b Hc. unfold trim_right.
  replace (rev (a ++ c :: b)) with (rev b ++ c :: rev a).
  2:{ rewrite rev_app_distr. simpl. rewrite <- app_assoc. reflexivity. }
  rewrite (drop_while_app_stop p (rev b) c (rev a) Hc).
  rewrite rev_app_distr. simpl. rewrite rev_involutive, <- app_assoc. reflexivity.
Qed.

Lemma trim_right_last : forall p l x, p x = false -> trim_right p (l ++ [x]) = l ++ [x].
Proof.
  intros p l x Hx. unfold trim_right. rewrite rev_app_distr.
  change (rev [x] ++ rev l) with (x :: rev l). simpl. rewrite Hx. simpl. rewrite rev_involutive. reflexivity.
Qed.

Lemma drop_while_head : forall p l, match l with [] => True | c :: _ => p c = false end -> drop_while p l = l.
Proof. intros p l. destruct l as [|c t]; simpl; intro H; [reflexivity | rewrite H; reflexivity]. Qed.

Lemma no_dot_head : forall l, has_dot l = false -> match l with [] => True | c :: _ => isdot c = false end.
Proof.
  intros l. destruct l as [|c t]; intro H; [exact I|].
  unfold has_dot in H. simpl in H. apply orb_false_iff in H. exact (proj1 H).
Qed.

Lemma trim_right_no_dot : forall l, has_dot l = false -> trim_right isdot l = l.
Proof.
  intros l H. unfold trim_right. rewrite drop_while_head.
  - apply rev_involutive.
  - apply no_dot_head. unfold has_dot. rewrite contains_rev. exact H.
Qed.

Lemma contains_drop_while : forall c p l, contains_chr c l = false -> contains_chr c (drop_while p l) = false.
Proof.
  intros c p l. induction l as [|x l IH]; simpl; intro H; [reflexivity|]. destruct (p x).
  - apply IH. apply orb_false_iff in H. exact (proj2 H).
  - simpl. exact H.
Qed.

Lemma has_dot_trim_right : forall p l, has_dot l = false -> has_dot (trim_right p l) = false.
Proof.
  intros p l H. unfold has_dot, trim_right. rewrite contains_rev. apply contains_drop_while.
  rewrite contains_rev. exact H.
Qed.

(* ---- the result of trimFraction on  ip "." fp ---- *)
Definition frac_part (fp : list ascii) : list ascii :=
  match fp with [] => [] | _ => "."%char :: fp end.

Lemma trim_fraction_spec : forall ip fp, has_dot ip = false -> has_dot fp = false ->
  trim_fraction (ip ++ "."%char :: fp) = ip ++ frac_part (trim_right is0 fp).
Proof.
  intros ip fp Hi Hf. unfold trim_fraction.
  assert (D : has_dot (ip ++ "."%char :: fp) = true).
  { unfold has_dot. rewrite contains_app.
    replace (contains_chr "."%char ("."%char :: fp)) with true by reflexivity. apply orb_true_r. }
  rewrite D. rewrite (trim_right_app_stop is0 ip "."%char fp) by reflexivity.
  remember (trim_right is0 fp) as fp' eqn:E.
  assert (Hf' : has_dot fp' = false) by (subst fp'; apply has_dot_trim_right; exact Hf).
  clear E. destruct fp' as [|c t].
  - simpl frac_part. rewrite app_nil_r.
    unfold trim_right. rewrite rev_app_distr.
    change (rev ["."%char] ++ rev ip) with ("."%char :: rev ip).
    change (drop_while isdot ("."%char :: rev ip)) with (drop_while isdot (rev ip)).
    rewrite drop_while_head; [apply rev_involutive|].
    apply no_dot_head. unfold has_dot. rewrite contains_rev. exact Hi.
  - simpl frac_part.
    destruct (@exists_last _ (c :: t)) as (t' & x & Ex); [discriminate|].
    rewrite Ex in Hf'. rewrite Ex.
    assert (Hx : isdot x = false).
    { unfold has_dot in Hf'. rewrite contains_app in Hf'. apply orb_false_iff in Hf'.
      destruct Hf' as [_ Hx]. simpl in Hx. rewrite orb_false_r in Hx. exact Hx. }
    replace (ip ++ "."%char :: t' ++ [x]) with ((ip ++ "."%char :: t') ++ [x])
      by (rewrite <- app_assoc; reflexivity).
    apply trim_right_last. exact Hx.
Qed.

(* ---- the removed characters are zeros at the end of the fraction: the value is kept ---- *)
Lemma drop_while_zeros : forall l, exists zs, Forall (fun c => c = "0"%char) zs /\ l = zs ++ drop_while is0 l.
Proof.
  induction l as [|c t IH]; simpl.
  - exists []. split; [constructor | reflexivity].
  - destruct (is0 c) eqn:Hc.
    + destruct IH as (zs & Z1 & Z2). exists (c :: zs). split.
      * constructor; [apply Ascii.eqb_eq; exact Hc | exact Z1].
      * simpl. f_equal. exact Z2.
    + exists []. split; [constructor | reflexivity].
Qed.

Lemma trim_zeros_decomp : forall l, exists zs, Forall (fun c => c = "0"%char) zs /\ l = trim_right is0 l ++ zs.
Proof.
  intro l. destruct (drop_while_zeros (rev l)) as (zs & Z1 & Z2). exists (rev zs). split.
  - apply Forall_rev. exact Z1.
  - unfold trim_right. rewrite <- rev_app_distr, <- Z2. symmetry. apply rev_involutive.
Qed.

Lemma digits_val_zeros : forall zs l, Forall (fun c => c = "0"%char) zs ->
  digits_val (l ++ zs) = digits_val l * 10 ^ Z.of_nat (List.length zs).
Proof.
  unfold digits_val. intros zs l H. rewrite fold_left_app.
  generalize (fold_left (fun acc c => acc * 10 + digit_val c) l 0).
  induction H as [|c zs Hc _ IH]; intro a.
  - cbn [fold_left List.length]. change (Z.of_nat 0) with 0. rewrite Z.pow_0_r. lia.
  - cbn [fold_left List.length]. rewrite IH. subst c.
    replace (digit_val "0"%char) with 0 by reflexivity.
    rewrite Nat2Z.inj_succ, Z.pow_succ_r by lia. ring.
Qed.

(* the integer part ip is returned untouched; the fraction fp loses k trailing zeros only:
   fp / 10^|fp| = fp' / 10^|fp'| *)
Lemma trim_fraction_keeps_value : forall ip fp, has_dot ip = false -> has_dot fp = false ->
  exists fp' k,
    trim_fraction (ip ++ "."%char :: fp) = ip ++ frac_part fp'
    /\ List.length fp = (List.length fp' + k)%nat
    /\ digits_val fp = digits_val fp' * 10 ^ Z.of_nat k.
Proof.
  intros ip fp Hi Hf. destruct (trim_zeros_decomp fp) as (zs & Z1 & Z2).
  exists (trim_right is0 fp), (List.length zs). split; [apply trim_fraction_spec; assumption|]. split.
  - rewrite Z2 at 1. apply app_length.
  - rewrite Z2 at 1. apply digits_val_zeros. exact Z1.
Qed.

(* a number without a decimal point (the %d rendering of the integer formatters) is unchanged *)
Lemma trim_fraction_no_dot : forall l, has_dot l = false -> trim_fraction l = l.
Proof. intros l H. unfold trim_fraction. rewrite H. reflexivity. Qed.

(* ---- fmt.Sprintf("%f", x) of a finite number has the shape the lemmas ask for ---- *)
Lemma digit_chr_not_dot : forall d, 0 <= d <= 9 -> isdot (digit_chr d) = false.
Proof.
  intros d H.
  assert (C : d = 0 \/ d = 1 \/ d = 2 \/ d = 3 \/ d = 4 \/ d = 5 \/ d = 6 \/ d = 7 \/ d = 8 \/ d = 9) by lia.
  repeat (destruct C as [C | C]; [subst d; reflexivity|]). subst d; reflexivity.
Qed.

Lemma digits_fuel_no_dot : forall fuel n acc, has_dot acc = false -> has_dot (digits_fuel fuel n acc) = false.
Proof.
  induction fuel as [|f IH]; intros n acc H; [exact H|].
  cbn [digits_fuel].
  assert (Hd : has_dot (digit_chr (n mod 10) :: acc) = false).
  { unfold has_dot. cbn [contains_chr]. apply orb_false_iff. split; [|exact H].
    apply digit_chr_not_dot. pose proof (Z.mod_pos_bound n 10). lia. }
  destruct (n <? 10); [exact Hd | apply IH; exact Hd].
Qed.

Lemma nat_digits_no_dot : forall n, has_dot (nat_digits n) = false.
Proof. intro n. unfold nat_digits. apply digits_fuel_no_dot. reflexivity. Qed.

Lemma repeat_zero_no_dot : forall k, has_dot (repeat "0"%char k) = false.
Proof. induction k as [|k IH]; [reflexivity|]. unfold has_dot in *. cbn [repeat contains_chr]. rewrite IH. reflexivity. Qed.

Lemma pad6_no_dot : forall l, has_dot l = false -> has_dot (pad6 l) = false.
Proof.
  intros l H. unfold pad6, has_dot. rewrite contains_app. fold (has_dot l). rewrite H.
  fold (has_dot (repeat "0"%char (6 - List.length l))). rewrite repeat_zero_no_dot. reflexivity.
Qed.

Lemma chars_app : forall a b, chars (a ++ b)%string = chars a ++ chars b.
Proof. induction a as [|c a IH]; intro b; simpl; [reflexivity|]. unfold chars in *. simpl. rewrite IH. reflexivity. Qed.

Lemma chars_unchars : forall l, chars (unchars l) = l.
Proof. intro l. unfold chars, unchars. apply list_ascii_of_string_of_list_ascii. Qed.

Lemma fmt_f_finite_shape : forall s m e, exists ip fp,
  chars (fmt_f (FFin s m e)) = ip ++ "."%char :: fp /\ has_dot ip = false /\ has_dot fp = false.
Proof.
  intros s m e. cbn [fmt_f]. cbv zeta.
  set (q := if 0 <=? e then Z.pos m * 1000000 * 2 ^ e else _).
  exists (chars (if s then "-" else "")%string ++ nat_digits (q / 1000000)), (pad6 (nat_digits (q mod 1000000))).
  split; [|split].
  - rewrite !chars_app, !chars_unchars. rewrite <- app_assoc. reflexivity.
  - unfold has_dot. rewrite contains_app. fold (has_dot (nat_digits (q / 1000000))). rewrite nat_digits_no_dot.
    destruct s; reflexivity.
  - apply pad6_no_dot. apply nat_digits_no_dot.
Qed.

(* so: what the float formatter prints for a finite count is its %f rendering with the integer
   part intact and only trailing zeros of the fraction (and then the point) removed *)
Lemma fmt_f_trim_finite : forall s m e, exists ip fp fp' k,
  chars (fmt_f (FFin s m e)) = ip ++ "."%char :: fp
  /\ fmt_f_trim (FFin s m e) = unchars (ip ++ frac_part fp')
  /\ List.length fp = (List.length fp' + k)%nat
  /\ digits_val fp = digits_val fp' * 10 ^ Z.of_nat k.
Proof.
  intros s m e. destruct (fmt_f_finite_shape s m e) as (ip & fp & Sh & Hi & Hf).
  destruct (trim_fraction_keeps_value ip fp Hi Hf) as (fp' & k & T & L & V).
  exists ip, fp, fp', k. split; [exact Sh|]. split; [|split; assumption].
  rewrite fmt_f_trim_is_trim_fraction, Sh, T. reflexivity.
Qed.

(* the seeded mutant (one TrimRight with the merged cutset "0.") is NOT this function *)
Definition trim_fraction_merged (l : list ascii) : list ascii :=
  if has_dot l then trim_right (fun c => is0 c || isdot c) l else l.
Lemma merged_cutset_loses_a_digit :
  trim_fraction_merged (chars "10.000000") = chars "1" /\ trim_fraction (chars "10.000000") = chars "10"
  /\ trim_fraction_merged (chars "0.000000") = [] /\ trim_fraction (chars "0.000000") = chars "0".
Proof. repeat split; reflexivity. Qed.
