(* Proofs/XTermRec.v — the termination half of C04 for the struct-mapped model, RECURSIVE schemas included.
   Class (one boolean local predicate at every node of the schema and of the tables, Proofs/XTotal.v XInv):
     xnic N b e s      the non-consuming walk from (e, s) ends within N steps, for a map input (b = true: one-of ->
                       member) and for a non-map input (b = false: single-property object -> its property, one-of ->
                       the member of a struct value), through references and scopes             (absence of D11)
     xdflt_ok K e ..   at an object: the defaults of the ABSENT properties, as Unserialize builds them on the empty
                       input (property defaults, then for a struct-mapped object sub-object default propagation
                       with fuel K), are built (not OutOfFuel: absence of D52) and each is processed by its own
                       property type within K steps                                             (absence of D50)
     distinct property names; a mapped field has a non-empty FieldByName index path (a field is a proper part).
   Measure as in Proofs/C04Term.v: depth of the value, then the length of the non-consuming walk, then a
   constant for the hops between the five functions on the same node.  What is new for struct-mapped objects:
   (1) the absent properties see the SAME values whatever the input supplies for the other properties
       (xdfold_sim, xsfold_sim: sub-object default propagation reads and writes one key), so the reference run
       of the class decides; (2) Validate / Serialize descend into proper parts of the struct (get_path_depth_lt). *)
From Coq Require Import Lia.
From Verif Require Import Base.Prelude Base.Str Base.Float Base.GoVal Base.XReflect
  Schema.Regex Schema.Units Schema.Syntax Schema.Ops Schema.Wf Schema.Total Schema.XSyntax Schema.XOps Schema.XWf
  Proofs.MonoEq Proofs.C04Inv Proofs.OpsEq Proofs.C04NoPanic Proofs.C04Term Proofs.XOpsEq
  Proofs.XStruct Proofs.XTotal Proofs.XExamples Proofs.XMonoT Proofs.XTerm
  Proofs.C04Refuted Proofs.XEmbed Proofs.XWfEmbed.
Open Scope string_scope.

(* ---------- the non-consuming walk ---------- *)
Fixpoint xnic (n : nat) (b : bool) (e : xenv) (s : xschema) {struct n} : bool :=
  match n with
  | O => false
  | S m =>
    match s with
    | XObject _ _ props _ =>
        if b then true
        else match props with
             | [(_, p)] => xnic m false e (p_type p)
             | _ => true
             end
    | XOneOf types _ _ _ => forallb (fun km => xnic m b e (snd km)) types
    | XRef id ns _ => match xresolve e id ns with Some (o, e') => xnic m b e' o | None => true end
    | XScope objs root => match alookup root objs with Some o => xnic m b (xenv_enter e objs) o | None => true end
    | _ => true
    end
  end.

(* ---------- the defaults of the absent properties ---------- *)
Definition xdfold (o : oracles) (props : list (string * property_ xschema)) (r0 : raw) : raw :=
  fold_left (fun a np =>
               if amem (fst np) a then a
               else match p_default (snd np) with
                    | Some txt => match xdecode_default o (snd np) txt with
                                  | Some d => (a ++ [(fst np, d)])%list
                                  | None => a
                                  end
                    | None => a
                    end) props r0.

Definition xsfold (f : nat) (e : xenv) (skip : string -> bool) (props : list (string * property_ xschema)) (a0 : raw)
  : outcome raw :=
  fold_left (fun acc np => a <- acc ;; if skip (fst np) then Ok a else xsub_defaults f e (fst np) (snd np) a) props (Ok a0).

Definition xref_raw (K : nat) (e : xenv) (props : list (string * property_ xschema)) (mapped : option structinfo)
  : outcome raw :=
  match mapped with
  | None => Ok (xdfold (xe_or e) props [])
  | Some _ => xsfold K e (fun _ => false) props (xdfold (xe_or e) props [])
  end.

Definition xidx_ok (mapped : option structinfo) : bool :=
  match mapped with
  | None => true
  | Some si => forallb (fun kf => match fr_nidx (snd kf) with [] => false | _ => true end) (si_fields si)
  end.

(* ---------- small facts about association lists ---------- *)
Lemma amem_alookup {A} k (l : list (string * A)) : amem k l = match alookup k l with Some _ => true | None => false end.
Proof. reflexivity. Qed.

Lemma alookup_snoc k (l : raw) k2 d :
  alookup k (l ++ [(k2, d)]) = match alookup k l with
                               | Some x => Some x
                               | None => if String.eqb k k2 then Some d else None
                               end.
Proof.
  induction l as [|[k' v'] t IH]; cbn [app alookup]; [reflexivity|].
  destruct (String.eqb k k'); [reflexivity | exact IH].
Qed.

Lemma alookup_raw_set_same k x (a : raw) : alookup k (raw_set k x a) = Some x.
Proof.
  unfold raw_set. destruct (amem k a) eqn:E.
  - induction a as [|[k' v'] t IH]; [discriminate|].
    cbn [map fst]. destruct (String.eqb k' k) eqn:E1.
    + cbn [alookup]. rewrite String.eqb_refl. reflexivity.
    + cbn [alookup]. rewrite String.eqb_sym, E1. apply IH.
      rewrite amem_alookup in E. cbn [alookup] in E. rewrite String.eqb_sym, E1 in E. exact E.
  - rewrite alookup_snoc. rewrite amem_alookup in E. destruct (alookup k a); [discriminate|].
    rewrite String.eqb_refl. reflexivity.
Qed.

Definition Rel (r0 a A : raw) : Prop := forall k, amem k r0 = false -> alookup k a = alookup k A.
Definition Keep (r0 a : raw) : Prop := forall k, amem k r0 = true -> alookup k a = alookup k r0.

Lemma Rel_init r0 : Rel r0 r0 [].
Proof. intros k Hk. rewrite amem_alookup in Hk. cbn [alookup]. destruct (alookup k r0); [discriminate | reflexivity]. Qed.

Lemma neq_of_mem (r0 : raw) k k2 : amem k r0 = false -> amem k2 r0 = true -> k <> k2.
Proof. intros H1 H2 ->. congruence. Qed.

Lemma xdfold_sim o props r0 : forall a A,
  Rel r0 a A -> Keep r0 a -> Rel r0 (xdfold o props a) (xdfold o props A) /\ Keep r0 (xdfold o props a).
Proof.
  unfold xdfold. induction props as [|np t IH]; intros a A HR HK; cbn [fold_left]; [split; assumption|].
  apply IH.
  - (* Rel *)
    destruct (amem (fst np) r0) eqn:Em.
    + (* supplied: the actual run keeps a *)
      assert (Ha : amem (fst np) a = true).
      { rewrite amem_alookup, (HK _ Em), <- amem_alookup. exact Em. }
      rewrite Ha.
      destruct (amem (fst np) A); [exact HR|].
      destruct (p_default (snd np)) as [txt|]; [|exact HR].
      destruct (xdecode_default o (snd np) txt) as [d|]; [|exact HR].
      intros k Hk. rewrite alookup_snoc, <- (HR k Hk).
      destruct (alookup k a); [reflexivity|].
      destruct (String.eqb k (fst np)) eqn:E; [|reflexivity].
      apply String.eqb_eq in E. subst k. congruence.
    + assert (Ha : amem (fst np) a = amem (fst np) A) by (rewrite !amem_alookup, (HR _ Em); reflexivity).
      rewrite Ha. destruct (amem (fst np) A); [exact HR|].
      destruct (p_default (snd np)) as [txt|]; [|exact HR].
      destruct (xdecode_default o (snd np) txt) as [d|]; [|exact HR].
      intros k Hk. rewrite !alookup_snoc, (HR k Hk). reflexivity.
  - (* Keep *)
    destruct (amem (fst np) a); [exact HK|].
    destruct (p_default (snd np)) as [txt|]; [|exact HK].
    destruct (xdecode_default o (snd np) txt) as [d|]; [|exact HK].
    intros k Hk. rewrite alookup_snoc, (HK k Hk).
    rewrite amem_alookup in Hk. destruct (alookup k r0); [reflexivity | discriminate].
Qed.

(* sub-object default propagation for one property reads and writes one key *)
Lemma xsub_defaults_local f e pid p a A : alookup pid a = alookup pid A ->
  match xsub_defaults f e pid p A with
  | Ok A' => exists ox : option gval,
               A' = match ox with Some X => raw_set pid X A | None => A end /\
               xsub_defaults f e pid p a = Ok (match ox with Some X => raw_set pid X a | None => a end)
  | _ => True
  end.
Proof.
  intros Hl. destruct f as [|f]; [exact I|].
  cbn [xsub_defaults]. cbv beta iota zeta. rewrite Hl.
  destruct (xsub_object e (p_type p)) as [so| | |]; cbn [bind]; try exact I.
  destruct so as [[o e']|]; [|exists None; split; reflexivity].
  destruct o; try (exists None; split; reflexivity).
  destruct (match mapped with Some si => si_ptr si | None => false end); [exists None; split; reflexivity|].
  destruct (alookup pid A) as [d|]; [destruct (is_str_any_map d) as [kvs|]; [|exists None; split; reflexivity]|].
  - match goal with |- context [bind ?X _] => destruct X as [data2| | |] end; cbn [bind]; try exact I.
    destruct data2 as [|p0 data2]; [exists None | exists (Some (raw_to_val (p0 :: data2)))]; split; reflexivity.
  - match goal with |- context [bind ?X _] => destruct X as [data2| | |] end; cbn [bind]; try exact I.
    destruct data2 as [|p0 data2]; [exists None | exists (Some (raw_to_val (p0 :: data2)))]; split; reflexivity.
Qed.

Lemma xsfold_cons f e skip np t a0 :
  xsfold f e skip (np :: t) a0 =
  match (if skip (fst np) then Ok a0 else xsub_defaults f e (fst np) (snd np) a0) with
  | Ok a1 => xsfold f e skip t a1
  | Err x => Err x | Panic w => Panic w | OutOfFuel => OutOfFuel
  end.
Proof.
  unfold xsfold. cbn [fold_left bind].
  match goal with |- fold_left ?g t ?X = match ?Y with _ => _ end => change X with Y; destruct Y as [a1| | |] end;
    [reflexivity| | |]; rewrite fold_bind_stuck by (intros; discriminate); reflexivity.
Qed.

Lemma xsfold_sim Kf f e r0 : (Kf <= f)%nat -> forall props a A R,
  Rel r0 a A -> Keep r0 a ->
  xsfold Kf e (fun _ => false) props A = Ok R ->
  exists a', xsfold f e (fun k => amem k r0) props a = Ok a' /\ Rel r0 a' R /\ Keep r0 a'.
Proof.
  intros Hle. induction props as [|np t IH]; intros a A R HR HK H.
  { unfold xsfold in *. cbn [fold_left] in *. inversion H; subst. exists a. auto. }
  rewrite xsfold_cons in H. rewrite xsfold_cons. cbv beta iota in H. cbv beta.
  destruct (xsub_defaults Kf e (fst np) (snd np) A) as [A1| | |] eqn:EA; cbv beta iota in H; try discriminate.
  destruct (amem (fst np) r0) eqn:Em; cbv beta iota.
  - (* supplied: skipped in the actual run *)
    apply (IH a A1 R); [|exact HK|exact H].
    pose proof (xsub_defaults_local Kf e (fst np) (snd np) A A eq_refl) as HL. rewrite EA in HL.
    destruct HL as (ox & -> & _). destruct ox as [X|]; [|exact HR].
    intros k Hk. rewrite (HR k Hk). symmetry. apply alookup_raw_set_other.
    intros Heq. subst k. congruence.
  - pose proof (xsub_defaults_local Kf e (fst np) (snd np) a A (HR _ Em)) as HL. rewrite EA in HL.
    destruct HL as (ox & -> & Ha).
    assert (Ha' : xsub_defaults f e (fst np) (snd np) a =
                  Ok (match ox with Some X => raw_set (fst np) X a | None => a end)).
    { destruct (xsub_defaults_mono Kf f e (fst np) (snd np) a Hle) as [E|E]; congruence. }
    rewrite Ha'. cbv beta iota.
    destruct ox as [X|]; [|apply (IH a A R); assumption].
    apply (IH (raw_set (fst np) X a) (raw_set (fst np) X A) R); [| |exact H].
    + intros k Hk. destruct (String.eqb k (fst np)) eqn:E.
      * apply String.eqb_eq in E. subst k. rewrite !alookup_raw_set_same. reflexivity.
      * apply String.eqb_neq in E.
        rewrite !alookup_raw_set_other by (intros Heq; apply E; symmetry; exact Heq). apply HR, Hk.
    + intros k Hk. rewrite alookup_raw_set_other; [apply HK, Hk|]. intros Heq. subst k. congruence.
Qed.

(* a proper part: FieldByName with a non-empty index path *)
Lemma get_path_depth_lt i rest v r : get_path v (i :: rest) true = Some r -> (vdepth r < vdepth v)%nat.
Proof.
  cbn [get_path]. cbv beta iota zeta. intros H.
  destruct v; try discriminate.
  match type of H with match nth_field ?fs i with _ => _ end = _ => destruct (nth_field fs i) as [fv|] eqn:En end;
    [|discriminate].
  apply get_path_depth in H.
  assert (Hn : forall j fs x, nth_field fs j = Some x ->
                 (vdepth x <= fold_right (fun nv acc => Nat.max (vdepth (snd nv)) acc) O fs)%nat).
  { clear. induction j as [|j IHj]; intros fs x Hn; destruct fs as [|[n0 v0] t]; cbn [nth_field] in Hn; try discriminate;
      cbn [fold_right snd].
    - inversion Hn; subst. lia.
    - specialize (IHj t x Hn). lia. }
  apply Hn in En. cbn [vdepth]. lia.
Qed.

Lemma xextract_depth_lt b fr sv value vt :
  fr_nidx fr <> [] -> xextract b fr sv = Some (value, vt) -> (vdepth value < vdepth sv)%nat.
Proof.
  unfold xextract. intros Hne H. destruct (get_path sv (fr_nidx fr) true) as [val|] eqn:Eg; [|discriminate].
  destruct (fr_nidx fr) as [|i rest]; [congruence|]. apply get_path_depth_lt in Eg.
  repeat match type of H with
         | match ?d with _ => _ end = _ => destruct d; try discriminate
         end;
  inversion H; subst; cbn [vdepth] in *; lia.
Qed.

Section XTermRec.
Variable words : list (string * bool).
Variable pu : units -> string -> option fl.
Variable K N : nat.

Notation xunser := (xunser words pu).
Notation xvalidate := (xvalidate words pu).
Notation xserialize := (xserialize words pu).
Notation xcompat := (xcompat words pu).
Notation xoneof_find := (xoneof_find words pu).

Definition xdflt_ok (e : xenv) (props : list (string * property_ xschema)) (mapped : option structinfo) : bool :=
  match xref_raw K e props mapped with
  | Ok R => forallb (fun np => p_disabled (snd np) ||
                               match alookup (fst np) R with
                               | Some d => match xunser K e (p_type (snd np)) d with OutOfFuel => false | _ => true end
                               | None => true
                               end) props
  | _ => false
  end.

Definition xp (e : xenv) (s : xschema) : bool :=
  xnic N false e s && xnic N true e s &&
  match s with
  | XObject _ _ props mapped => nodup_str (map fst props) && xidx_ok mapped && xdflt_ok e props mapped
  | _ => true
  end.

Notation XI := (XInv xp).

Lemma xi_nic e s b : XI e s -> xnic N b e s = true.
Proof.
  intros H. apply xinv_here in H. unfold xp in H. apply andb_prop in H as [H _]. apply andb_prop in H as [H1 H2].
  destruct b; assumption.
Qed.

Lemma xi_obj e id un props mapped : XI e (XObject id un props mapped) ->
  nodup_str (map fst props) = true /\ xidx_ok mapped = true /\ xdflt_ok e props mapped = true.
Proof.
  intros H. apply xinv_here in H. unfold xp in H. apply andb_prop in H as [_ H].
  apply andb_prop in H as [H H3]. apply andb_prop in H as [H1 H2]. auto.
Qed.

Lemma xidx_field si k fr : xidx_ok (Some si) = true -> alookup k (si_fields si) = Some fr -> fr_nidx fr <> [].
Proof.
  cbn [xidx_ok]. rewrite forallb_forall. intros H Hl. apply alookup_in in Hl. specialize (H _ Hl). cbn [snd] in H.
  destruct (fr_nidx fr); [discriminate | congruence].
Qed.

(* what oneof_find returns: a member, a value that is no deeper and of the same shape *)
Lemma xoneof_find_ok2 f e types ik fld inl v key member data' :
  xoneof_find f e types ik fld inl v = Ok (key, member, data') ->
  (exists k, In (k, member) types) /\ (vdepth data' <= vdepth v)%nat /\ is_vmap data' = is_vmap v.
Proof.
  intros H. destruct (xoneof_find_ok words pu _ _ _ _ _ _ _ _ _ _ H) as [H1 H2]. repeat split; try assumption.
  destruct f as [|f]; [discriminate|]. rewrite (xoneof_find_S words pu) in H. cbv beta iota zeta in H.
  destruct v; cbn [kind_of] in H; try discriminate;
  repeat match type of H with
         | match ?d with _ => _ end = _ => destruct d eqn:?; try discriminate
         | bind ?d _ = _ => destruct d eqn:?; cbn [bind] in H; try discriminate
         end;
  inversion H; subst; reflexivity.
Qed.

Definition xneed2 (d c off : nat) : nat := (K + 2 + (4 * N + 8) * d + 4 * c + off)%nat.

Definition xterm2_at (d c : nat) : Prop :=
  (forall f e s v, XI e s -> (vdepth v <= d)%nat -> xnic c (is_vmap v) e s = true -> (xneed2 d c 0 <= f)%nat -> fin (xunser f e s v)) /\
  (forall f e s v, XI e s -> (vdepth v <= d)%nat -> xnic c (is_vmap v) e s = true -> (xneed2 d c 1 <= f)%nat -> fin (xvalidate f e s v)) /\
  (forall f e types ik fld inl v, XI e (XOneOf types ik fld inl) -> (vdepth v <= d)%nat ->
       xnic c (is_vmap v) e (XOneOf types ik fld inl) = true -> (xneed2 d c 0 <= f)%nat -> fin (xoneof_find f e types ik fld inl v)) /\
  (forall f e s v, XI e s -> (vdepth v <= d)%nat -> xnic c (is_vmap v) e s = true -> (xneed2 d c 2 <= f)%nat -> fin (xserialize f e s v)) /\
  (forall f e s v, XI e s -> (vdepth v <= d)%nat -> xnic c (is_vmap v) e s = true -> (xneed2 d c 2 <= f)%nat -> fin (xcompat f e s v)).

Ltac xi_next :=
  match goal with
  | H : XInv xp ?e (XList ?it _ _) |- XInv xp ?e ?it => exact (xinv_list _ _ _ _ _ H)
  | H : XInv xp ?e (XMap ?k _ _ _) |- XInv xp ?e ?k => exact (xinv_map_k _ _ _ _ _ _ H)
  | H : XInv xp ?e (XMap _ ?v _ _) |- XInv xp ?e ?v => exact (xinv_map_v _ _ _ _ _ _ H)
  | H : XInv xp ?e (XObject _ _ ?props _), I0 : In ?np ?props |- XInv xp ?e (p_type (snd ?np)) => exact (xinv_prop _ _ _ _ _ _ _ H I0)
  | H : XInv xp ?e (XObject _ _ ?props _), L : alookup ?k ?props = Some ?p |- XInv xp ?e (p_type ?p) =>
      exact (xinv_prop _ _ _ _ _ _ (k, p) H (alookup_in _ _ _ L))
  | H : XInv xp ?e (XObject _ _ [(?n, ?p)] _) |- XInv xp ?e (p_type ?p) => exact (xinv_prop _ _ _ _ _ _ (n, p) H (or_introl eq_refl))
  | H : XInv xp ?e (XOneOf ?types _ _ _), I0 : In (?k, ?m) ?types |- XInv xp ?e ?m => exact (xinv_member _ _ _ _ _ _ (k, m) H I0)
  | H : XInv xp ?e (XRef ?id ?ns _), R : xresolve ?e ?id ?ns = Some (?o, ?e') |- XInv xp ?e' ?o => exact (xinv_ref _ _ _ _ _ _ _ H R)
  | H : XInv xp ?e (XScope ?objs ?root), R : alookup ?root ?objs = Some ?o |- XInv xp (xenv_enter ?e ?objs) ?o => exact (xinv_scope _ _ _ _ _ H R)
  | H : XInv xp ?e ?s |- XInv xp ?e ?s => exact H
  end.

Ltac xchild2 Cu Cv Cs Cc := first [ eapply Cu | eapply Cv | eapply Cs | eapply Cc ]; [ xi_next | depth_tac ].

Lemma xnic_member c b e types ik fld inl k mb :
  xnic (S c) b e (XOneOf types ik fld inl) = true -> In (k, mb) types -> xnic c b e mb = true.
Proof. cbn [xnic]. intros H Hin. rewrite forallb_forall in H. apply (H (k, mb) Hin). Qed.

Lemma xterm2_all : forall d c, xterm2_at d c.
Proof.
  induction d as [|d IHd].
  { intros c. repeat split; intros; exfalso;
      match goal with H : (vdepth ?v <= 0)%nat |- _ => pose proof (vdepth_pos v); lia end. }
  induction c as [|c IHc].
  { repeat split; intros; exfalso;
      match goal with H : xnic 0 _ _ _ = true |- _ => cbn [xnic] in H; discriminate end. }
  (* calls on a strictly shallower value, at any node *)
  assert (Hch : forall f off, (xneed2 (S d) (S c) off <= S f)%nat ->
            (forall e s v, XI e s -> (vdepth v <= d)%nat -> fin (xunser f e s v)) /\
            (forall e s v, XI e s -> (vdepth v <= d)%nat -> fin (xvalidate f e s v)) /\
            (forall e s v, XI e s -> (vdepth v <= d)%nat -> fin (xserialize f e s v)) /\
            (forall e s v, XI e s -> (vdepth v <= d)%nat -> fin (xcompat f e s v))).
  { intros f off Hn. destruct (IHd N) as (Iu & Iv & _ & Is & Ic). unfold xneed2 in Hn.
    repeat split; intros e s v Hinv Hv; [apply Iu | apply Iv | apply Is | apply Ic]; auto;
      try (apply xi_nic; exact Hinv); unfold xneed2; nia. }
  (* calls on the same value one step down the non-consuming walk *)
  assert (Hhop : forall f off, (xneed2 (S d) (S c) off <= S f)%nat ->
            (forall e s v, XI e s -> (vdepth v <= S d)%nat -> xnic c (is_vmap v) e s = true -> fin (xunser f e s v)) /\
            (forall e s v, XI e s -> (vdepth v <= S d)%nat -> xnic c (is_vmap v) e s = true -> fin (xvalidate f e s v)) /\
            (forall e s v, XI e s -> (vdepth v <= S d)%nat -> xnic c (is_vmap v) e s = true -> fin (xserialize f e s v)) /\
            (forall e s v, XI e s -> (vdepth v <= S d)%nat -> xnic c (is_vmap v) e s = true -> fin (xcompat f e s v))).
  { intros f off Hn. destruct IHc as (Iu & Iv & _ & Is & Ic). unfold xneed2 in Hn.
    repeat split; intros e s v Hinv Hv Hc; [apply Iu | apply Iv | apply Is | apply Ic]; auto; unfold xneed2; lia. }
  (* ---------- oneof_find ---------- *)
  assert (HO : forall f e types ik fld inl v, XI e (XOneOf types ik fld inl) -> (vdepth v <= S d)%nat ->
             xnic (S c) (is_vmap v) e (XOneOf types ik fld inl) = true -> (xneed2 (S d) (S c) 0 <= f)%nat ->
             fin (xoneof_find f e types ik fld inl v)).
  { intros f e types ik fld inl v Hinv Hv Hc Hn.
    destruct f as [|f]; [unfold xneed2 in Hn; lia|].
    destruct (Hhop f 0%nat Hn) as (Hu & Hvv & Hs & Hcm).
    destruct (is_str_any_map v) as [kvs|] eqn:Esam.
    - destruct (is_str_any_map_some _ _ Esam) as (t0 & b0 & ->). cbn [is_vmap] in Hc.
      rewrite (xoneof_find_S words pu); cbv beta iota zeta. cbn [kind_of]. rewrite Esam.
      repeat fin_step ltac:(idtac;
        match goal with
        | E : find _ ?ts = Some (?k, ?mb) |- fin (XOps.xcompat _ _ _ _ ?mb _) =>
            apply find_some in E as [E _];
            eapply Hcm; [xi_next | eapply xclone_depth; exact Hv | cbn [is_vmap]; eapply xnic_member; [exact Hc | exact E]]
        end).
    - rewrite (xoneof_find_S words pu); cbv beta iota zeta.
      repeat fin_step ltac:(congruence). }
  (* ---------- unserialize ---------- *)
  assert (HU : forall f e s v, XI e s -> (vdepth v <= S d)%nat -> xnic (S c) (is_vmap v) e s = true ->
             (xneed2 (S d) (S c) 0 <= f)%nat -> fin (xunser f e s v)).
  { intros f e s v Hinv Hv Hc Hn.
    destruct f as [|f]; [unfold xneed2 in Hn; lia|].
    destruct (Hch f 0%nat Hn) as (Cu & Cv & Cs & Cc).
    destruct (Hhop f 0%nat Hn) as (Hu & Hvv & Hs & Hcm).
    destruct s; rewrite (xunser_S words pu); cbv beta iota zeta; try xfin_leaf.
    - (* any *) apply fin_any_conv. unfold xneed2 in Hn. nia.
    - (* list *) repeat fin_step ltac:(xchild2 Cu Cv Cs Cc).
    - (* map *) repeat fin_step ltac:(xchild2 Cu Cv Cs Cc).
    - (* object *)
      destruct (xi_obj _ _ _ _ _ Hinv) as (Hnd & Hidx & Hdf).
      destruct v;
        try (destruct props as [|[name p] [|]]; try exact I;
             cbn [is_vmap xnic] in Hc;
             apply fin_bind; [apply fin_map_err; destruct (p_disabled p); [exact I|];
                              apply Hu; [xi_next | exact Hv | exact Hc]
                             | intros; apply fin_bind; [apply fin_xcheck_rules | intros; destruct mapped; [apply fin_xto_struct | exact I]]]).
      (* the input is a map *)
      apply fin_bind; [repeat fin_step idtac|]. intros r0 Hr0.
      assert (Hr0d : raw_le d r0).
      { eapply r0_le; [apply raw_le_nil | | exact Hr0].
        intros kv Hin.
        match goal with Hv0 : (vdepth (VMap ?t0 ?b0 ?l0) <= S d)%nat |- _ => pose proof (vdepth_map_in t0 b0 l0 kv Hin) end. lia. }
      assert (HK : (K <= f)%nat) by (unfold xneed2 in Hn; lia).
      (* the reference run of the class and the actual one agree on the absent properties *)
      unfold xdflt_ok in Hdf. destruct (xref_raw K e props mapped) as [R| | |] eqn:ER; try discriminate.
      rewrite forallb_forall in Hdf.
      destruct (xdfold_sim (xe_or e) props r0 r0 [] (Rel_init r0) (fun k _ => eq_refl)) as [HR1 HK1].
      assert (Hsim : exists r1',
                (match mapped with
                 | None => Ok (xdfold (xe_or e) props r0)
                 | Some _ => xsfold f e (fun k => amem k r0) props (xdfold (xe_or e) props r0)
                 end) = Ok r1' /\ Rel r0 r1' R /\ Keep r0 r1').
      { unfold xref_raw in ER. destruct mapped.
        - eapply (xsfold_sim K f e r0 HK); eauto.
        - inversion ER; subst R. eexists; split; [reflexivity | split; assumption]. }
      destruct Hsim as (r1s & Hr1s & HRs & HKs).
      match goal with |- fin (bind ?X _) => assert (HX : X = Ok r1s) end.
      { destruct mapped; exact Hr1s. }
      rewrite HX. cbn [bind].
      apply fin_bind; [|intros; apply fin_bind; [apply fin_xcheck_rules | intros; destruct mapped; [apply fin_xto_struct | exact I]]].
      eapply (xfin_props_fold (fun np d0 => if p_disabled (snd np) then Err (cerr EDisabled)
                                            else xunser f e (p_type (snd np)) d0));
        [exact Hnd | exact I | intros a Ha np Hin; inversion Ha; reflexivity |].
      intros np d0 Hin Hl. destruct (p_disabled (snd np)) eqn:Edis; [exact I|].
      destruct (amem (fst np) r0) eqn:Em.
      + (* a value of the input map *)
        rewrite (HKs _ Em) in Hl. apply Cu; [xi_next | exact (raw_le_lookup _ _ _ _ Hr0d Hl)].
      + (* a default: processed within K steps by the class *)
        rewrite (HRs _ Em) in Hl. specialize (Hdf np Hin). rewrite Edis, Hl in Hdf. cbn [orb] in Hdf.
        destruct (xunser K e (p_type (snd np)) d0) eqn:EK; try discriminate.
        all: rewrite (xunser_mono words pu K f e (p_type (snd np)) d0 _ HK EK); [exact I | discriminate].
    - (* one-of *)
      repeat fin_step ltac:(idtac;
        match goal with
        | E : find _ ?ts = Some (?k, ?mb) |- fin (XOps.xunser _ _ _ _ ?mb _) =>
            apply find_some in E as [E _]; cbn [is_vmap] in Hc;
            eapply Hu; [xi_next | eapply xclone_depth; exact Hv | cbn [is_vmap]; eapply xnic_member; [exact Hc | exact E]]
        end).
    - (* ref *)
      destruct (xresolve e id ns) as [[o e']|] eqn:R; [|exact I].
      apply Hu; [xi_next | exact Hv |]. cbn [xnic] in Hc. rewrite R in Hc. exact Hc.
    - (* scope *)
      destruct (alookup root objs) as [o|] eqn:R; [|exact I].
      apply Hu; [xi_next | exact Hv |]. cbn [xnic] in Hc. rewrite R in Hc. exact Hc. }
  (* ---------- validate ---------- *)
  assert (HV : forall f e s v, XI e s -> (vdepth v <= S d)%nat -> xnic (S c) (is_vmap v) e s = true ->
             (xneed2 (S d) (S c) 1 <= f)%nat -> fin (xvalidate f e s v)).
  { intros f e s v Hinv Hv Hc Hn.
    destruct f as [|f]; [unfold xneed2 in Hn; lia|].
    destruct (Hch f 1%nat Hn) as (Cu & Cv & Cs & Cc).
    destruct (Hhop f 1%nat Hn) as (Hu & Hvv & Hs & Hcm).
    destruct s; rewrite (xvalidate_S words pu); cbv beta iota zeta;
      try (apply fin_bind; [fin_leaf | intros; exact I]).
    - apply fin_bind; [apply fin_any_conv; unfold xneed2 in Hn; nia | intros; exact I].
    - repeat fin_step ltac:(xchild2 Cu Cv Cs Cc).
    - repeat fin_step ltac:(xchild2 Cu Cv Cs Cc).
    - destruct (xi_obj _ _ _ _ _ Hinv) as (Hnd & Hidx & Hdf).
      repeat fin_step ltac:(first [ xfin_leaf
        | idtac; match goal with
          | Ea : xstruct_arg _ _ = Some ?sv, Ex : xextract _ ?fr ?sv = Some (?value, _), Ef : alookup _ (si_fields _) = Some ?fr
            |- fin (XOps.xvalidate _ _ _ _ (p_type (snd ?np)) ?value) =>
              apply Cv; [xi_next
                        | apply xstruct_arg_depth in Ea;
                          apply (xextract_depth_lt _ _ _ _ _ (xidx_field _ _ _ Hidx Ef)) in Ex; lia]
          end
        | xchild2 Cu Cv Cs Cc ]).
    - apply fin_bind; [apply HO; auto; unfold xneed2 in *; lia|].
      intros [[key member] data'] Hok.
      apply xoneof_find_ok2 in Hok as ([k Hin] & Hdd & Hvm).
      apply fin_map_err. apply Hvv; [xi_next | lia | rewrite Hvm; eapply xnic_member; eauto].
    - destruct (xresolve e id ns) as [[o e']|] eqn:R; [|exact I].
      apply Hvv; [xi_next | exact Hv |]. cbn [xnic] in Hc. rewrite R in Hc. exact Hc.
    - destruct (alookup root objs) as [o|] eqn:R; [|exact I].
      apply Hvv; [xi_next | exact Hv |]. cbn [xnic] in Hc. rewrite R in Hc. exact Hc. }
  (* ---------- serialize ---------- *)
  assert (HS : forall f e s v, XI e s -> (vdepth v <= S d)%nat -> xnic (S c) (is_vmap v) e s = true ->
             (xneed2 (S d) (S c) 2 <= f)%nat -> fin (xserialize f e s v)).
  { intros f e s v Hinv Hv Hc Hn.
    destruct f as [|f]; [unfold xneed2 in Hn; lia|].
    destruct (Hch f 2%nat Hn) as (Cu & Cv & Cs & Cc).
    destruct (Hhop f 2%nat Hn) as (Hu & Hvv & Hs & Hcm).
    assert (Hsame : forall s0, s0 = s -> fin (xvalidate f e s0 v)).
    { intros s0 ->. apply HV; auto. unfold xneed2 in *; lia. }
    destruct s; rewrite (xserialize_S words pu); cbv beta iota zeta; try fin_leaf.
    - apply fin_any_conv. unfold xneed2 in Hn. nia.
    - apply fin_bind; [apply Hsame; reflexivity|]. intros _ _.
      repeat fin_step ltac:(xchild2 Cu Cv Cs Cc).
    - apply fin_bind; [apply Hsame; reflexivity|]. intros _ _.
      repeat fin_step ltac:(xchild2 Cu Cv Cs Cc).
    - destruct (xi_obj _ _ _ _ _ Hinv) as (Hnd & Hidx & Hdf).
      repeat fin_step ltac:(first [ xfin_leaf
        | idtac; match goal with
          | Ea : xstruct_arg _ _ = Some ?sv, Ex : xextract _ ?fr ?sv = Some (?value, _), Ef : alookup _ (si_fields _) = Some ?fr
            |- fin (XOps.xserialize _ _ _ _ (p_type (snd ?np)) ?value) =>
              apply Cs; [xi_next
                        | apply xstruct_arg_depth in Ea;
                          apply (xextract_depth_lt _ _ _ _ _ (xidx_field _ _ _ Hidx Ef)) in Ex; lia]
          end
        | xchild2 Cu Cv Cs Cc ]).
    - apply fin_bind; [apply HO; auto; unfold xneed2 in *; lia|].
      intros [[key member] data'] Hok.
      apply xoneof_find_ok2 in Hok as ([k Hin] & Hdd & Hvm).
      apply fin_bind; [apply Hs; [xi_next | lia | rewrite Hvm; eapply xnic_member; eauto]|].
      intros x _. repeat fin_step idtac.
    - destruct (xresolve e id ns) as [[o e']|] eqn:R; [|exact I].
      apply Hs; [xi_next | exact Hv |]. cbn [xnic] in Hc. rewrite R in Hc. exact Hc.
    - destruct (alookup root objs) as [o|] eqn:R; [|exact I].
      apply Hs; [xi_next | exact Hv |]. cbn [xnic] in Hc. rewrite R in Hc. exact Hc. }
  (* ---------- data-mode compatibility ---------- *)
  assert (HC : forall f e s v, XI e s -> (vdepth v <= S d)%nat -> xnic (S c) (is_vmap v) e s = true ->
             (xneed2 (S d) (S c) 2 <= f)%nat -> fin (xcompat f e s v)).
  { intros f e s v Hinv Hv Hc Hn.
    destruct f as [|f]; [unfold xneed2 in Hn; lia|].
    destruct (Hch f 2%nat Hn) as (Cu & Cv & Cs & Cc).
    destruct (Hhop f 2%nat Hn) as (Hu & Hvv & Hs & Hcm).
    assert (HsameU : forall s0 v0, s0 = s -> v0 = v -> fin (xunser f e s0 v0)).
    { intros s0 v0 -> ->. apply HU; auto. unfold xneed2 in *; lia. }
    assert (HsameV : forall s0 v0, s0 = s -> v0 = v -> fin (xvalidate f e s0 v0)).
    { intros s0 v0 -> ->. apply HV; auto. unfold xneed2 in *; lia. }
    assert (HsameO : forall ty ik0 fl0 in0 v0, XOneOf ty ik0 fl0 in0 = s -> v0 = v -> fin (xoneof_find f e ty ik0 fl0 in0 v0)).
    { intros ty ik0 fl0 in0 v0 <- ->. apply HO; auto. unfold xneed2 in *; lia. }
    destruct s.
    6: { (* any *) apply (fin_xcompat_any words pu). unfold xneed2 in Hn. nia. }
    all: rewrite (xcompat_S words pu); cbv beta iota zeta.
    1-7: repeat fin_step ltac:(first [ apply HsameU; reflexivity | apply HsameV; reflexivity ]).
    - (* list *) repeat fin_step ltac:(xchild2 Cu Cv Cs Cc).
    - (* map *) repeat fin_step ltac:(xchild2 Cu Cv Cs Cc).
    - (* object *)
      repeat fin_step ltac:(first [ xfin_leaf | apply HsameU; reflexivity | xchild2 Cu Cv Cs Cc ]).
    - (* one-of *)
      repeat fin_step ltac:(first [ apply HsameO; reflexivity | apply HsameV; reflexivity ]).
    - destruct (xresolve e id ns) as [[o e']|] eqn:R; [|exact I].
      apply Hcm; [xi_next | exact Hv |]. cbn [xnic] in Hc. rewrite R in Hc. exact Hc.
    - destruct (alookup root objs) as [o|] eqn:R; [|exact I].
      apply Hcm; [xi_next | exact Hv |]. cbn [xnic] in Hc. rewrite R in Hc. exact Hc. }
  repeat split; assumption.
Qed.

End XTermRec.

(* ---------- the class and the theorem ---------- *)
Definition xterm_local (words : list (string * bool)) (pu : units -> string -> option fl) (K N : nat) :
  xenv -> xschema -> bool := xp words pu K N.

Definition xterminating (words : list (string * bool)) (pu : units -> string -> option fl) (K : nat)
  (e : xenv) (s : xschema) : bool :=
  xwf e s &&
  (xall_env (xterm_local words pu K (xnr_fuel e s)) e && xall_nodes (xterm_local words pu K (xnr_fuel e s)) e s).

Definition xfuel_bound (K : nat) (e : xenv) (s : xschema) (v : gval) : nat :=
  (K + 3 + (4 * xnr_fuel e s + 8) * S (vdepth v))%nat.

Theorem x_struct_terminates : forall words pu (K : nat) (e : xenv) (s : xschema) (v : gval),
  xterminating words pu K e s = true ->
  forall f, (xfuel_bound K e s v <= f)%nat ->
    xunser words pu f e s v <> OutOfFuel /\ xvalidate words pu f e s v <> OutOfFuel /\
    xserialize words pu f e s v <> OutOfFuel /\ xcompat words pu f e s v <> OutOfFuel.
Proof.
  intros words pu K e s v Ht f Hf. unfold xterminating in Ht. apply andb_prop in Ht as [_ Hall].
  apply andb_prop in Hall as [He Hs].
  assert (Hinv : XInv (xp words pu K (xnr_fuel e s)) e s) by (split; assumption).
  unfold xfuel_bound in Hf.
  destruct (xterm2_all words pu K (xnr_fuel e s) (vdepth v) (xnr_fuel e s)) as (Hu & Hv & _ & Hsr & Hc).
  pose proof (xi_nic words pu K (xnr_fuel e s) e s (is_vmap v) Hinv) as Hnic.
  repeat split; apply fin_neq; [apply Hu | apply Hv | apply Hsr | apply Hc]; auto; unfold xneed2; nia.
Qed.

Theorem x_struct_total : forall words pu (K : nat) (e : xenv) (s : xschema) (v : gval),
  xterminating words pu K e s = true ->
  forall f, (xfuel_bound K e s v <= f)%nat ->
    ((forall w, xunser words pu f e s v <> Panic w) /\ xunser words pu f e s v <> OutOfFuel) /\
    ((forall w, xvalidate words pu f e s v <> Panic w) /\ xvalidate words pu f e s v <> OutOfFuel) /\
    ((forall w, xserialize words pu f e s v <> Panic w) /\ xserialize words pu f e s v <> OutOfFuel) /\
    ((forall w, xcompat words pu f e s v <> Panic w) /\ xcompat words pu f e s v <> OutOfFuel).
Proof.
  intros words pu K e s v Ht f Hf.
  destruct (x_struct_terminates words pu K e s v Ht f Hf) as (Tu & Tv & Ts & Tc).
  unfold xterminating in Ht. apply andb_prop in Ht as [Hwf _].
  pose proof (fun w => x_struct_never_panics words pu e s Hwf f v w) as Hp.
  repeat split; try assumption; intros w; destruct (Hp w) as (Pu & Pv & Ps & Pc); assumption.
Qed.

(* ---------- non-vacuity ---------- *)
(* a RECURSIVE struct-mapped schema: type XNode struct { Next *XNode; V int64 }, T = *XNode (a pointer member stops
   sub-object default propagation: the D52 loop needs a non-pointer struct member), and a recursive map-based tree *)
Definition xt_structs : stab := ("XNode", [("Next", TPtr (TStruct "XNode")); ("V", TInt I64)]) :: xs_structs.
Definition xt_env : xenv := mkXEnv [] [] (mkOracles w_json (fun _ => true)) xt_structs.
Definition xt_node : xschema :=
  XObject "XNode" false
    [("next", xs_prop (XRef "XNode" "" None) false None false); ("v", xs_prop xs_int false (Some "1") false)]
    (Some (mkStructInfo "XNode" true
             [("next", mkFieldRef "Next" [0%nat] [0%nat] (TPtr (TStruct "XNode")));
              ("v", mkFieldRef "V" [1%nat] [1%nat] (TInt I64))])).
Definition xt_list : xschema := XScope [("XNode", xt_node)] "XNode".
Definition xt_R : xschema :=
  XObject "R" false
    [("next", xs_prop (XRef "R" "" None) false None false);
     ("kids", xs_prop (XList (XRef "R" "" None) None None) false None false);
     ("n", xs_prop xs_int false (Some "1") false)] None.
Definition xt_tree : xschema := XScope [("R", xt_R)] "R".
Definition xt_v_list : gval := xs_m [("next", xs_m [("next", xs_m []); ("v", vi64 2)])].
Definition xt_v_tree : gval :=
  xs_m [("next", xs_m [("kids", VSlice t_any_slice false [xs_m []; xs_m [("n", vi64 3)]])])].

Example xt_rec_terminating :
  xterminating w_words w_pu 10 xt_env xt_list = true /\
  xterminating w_words w_pu 10 (xs_env []) xt_tree = true /\
  xnonrec 10 xt_env xt_list = false /\ xnonrec 10 (xs_env []) xt_tree = false /\
  xterminating w_words w_pu 10 (xs_env []) (xs_scope "XNested") = true /\
  xterminating w_words w_pu 10 (xs_env []) (xs_scope "Choice") = true /\
  xterminating w_words w_pu 10 (xs_env []) (xs_scope "XPtrs") = true /\
  xterminating w_words w_pu 10 (xs_env []) (xs_scope "XEmbPtr") = true /\
  xterminating w_words w_pu 1 (xs_env []) (xs_scope "XNested") = false /\
  is_ok (xunser w_words w_pu (xfuel_bound 10 xt_env xt_list xt_v_list) xt_env xt_list xt_v_list) = true /\
  is_ok (xunser w_words w_pu (xfuel_bound 10 (xs_env []) xt_tree xt_v_tree) (xs_env []) xt_tree xt_v_tree) = true /\
  is_ok (xunser w_words w_pu (xfuel_bound 10 (xs_env []) (xs_scope "XNested") xt_v_nested)
           (xs_env []) (xs_scope "XNested") xt_v_nested) = true.
Proof. vm_compute. repeat split; reflexivity. Qed.

(* the class excludes D52 for EVERY K (by the theorem itself: the witness diverges at every fuel), D11 for every K
   (the walk part of the class does not look at K), D50 at the K tried *)
Lemma w_rec_diverges : forall fuel, xunser w_words w_pu fuel (w_env []) w_rec w_empty_map = OutOfFuel.
Proof.
  intros fuel. destruct fuel as [|[|f]]; [reflexivity | reflexivity |].
  cbn - [xsub_defaults fl_of_Z].
  match goal with
  | |- context [xsub_defaults f ?e ?p ?q ?r'] =>
      replace (xsub_defaults f e p q r') with (@OutOfFuel raw)
        by (symmetry; apply w_sub_defaults_diverges_absent; reflexivity)
  end.
  reflexivity.
Qed.

Theorem xt_excludes_d52 : forall K, xterminating w_words w_pu K (w_env []) w_rec = false.
Proof.
  intros K. destruct (xterminating w_words w_pu K (w_env []) w_rec) eqn:E; [|reflexivity].
  exfalso. destruct (x_struct_terminates w_words w_pu K (w_env []) w_rec w_empty_map E _ (le_n _)) as [Hu _].
  apply Hu. apply w_rec_diverges.
Qed.

Theorem xt_excludes_d11_d50 :
  (forall K, xterminating w_words w_pu K (xs_env []) xt_d11 = false) /\
  xterminating w_words w_pu 50 (xs_env []) xt_d50 = false.
Proof. split; [intros K|]; vm_compute; reflexivity. Qed.

(* in general: a schema with an input on which Unserialize has no sufficient fuel is outside the class, for every K;
   so are the D11 and D50 witnesses of the map-based model (Proofs/C04Refuted.v), embedded, both well-formed *)
Theorem xt_divergent_excluded : forall words pu (e : xenv) (s : xschema) (v : gval),
  (forall fuel, xunser words pu fuel e s v = OutOfFuel) -> forall K, xterminating words pu K e s = false.
Proof.
  intros words pu e s v Hdiv K. destruct (xterminating words pu K e s) eqn:E; [|reflexivity].
  exfalso. destruct (x_struct_terminates words pu K e s v E _ (le_n _)) as [Hu _]. apply Hu, Hdiv.
Qed.

Theorem xt_excludes_embedded_d11_d50 : forall words pu st K,
  xterminating words pu K (embed_env st d11_env) (embed d11_scope) = false /\
  xterminating words pu K (embed_env st d50_env) (embed d50_scope) = false /\
  xwf (embed_env st d11_env) (embed d11_scope) = true /\ xwf (embed_env st d50_env) (embed d50_scope) = true.
Proof.
  intros words pu st K.
  assert (H11 : xterminating words pu K (embed_env st d11_env) (embed d11_scope) = false).
  { apply (xt_divergent_excluded words pu (embed_env st d11_env) (embed d11_scope) d11_input). intros fuel.
    rewrite (x_embed_unser st words pu). apply d11_diverges. }
  assert (H50 : xterminating words pu K (embed_env st d50_env) (embed d50_scope) = false).
  { apply (xt_divergent_excluded words pu (embed_env st d50_env) (embed d50_scope) d50_empty). intros fuel.
    rewrite (x_embed_unser st words pu). apply d50_diverges. }
  split; [exact H11 | split; [exact H50 | split; rewrite xwf_embed; [apply d11_wf | apply d50_wf]]].
Qed.
