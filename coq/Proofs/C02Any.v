(* Proofs/C02Any.v — the `any` schema accepts exactly the values SpecAny.any_denotes names, with
   exactly the normal form it names; on every path (Unserialize, Validate and Serialize all run
   checkAndConvert). *)
From Coq Require Import Lia.
From Verif Require Import Base.Prelude Base.Str Base.Float Base.GoVal
  Schema.Regex Schema.Units Schema.Syntax Schema.Ops Schema.Spec Schema.SpecAny
  Proofs.C02Scalars Proofs.C02Containers.
Open Scope Z_scope.
Open Scope list_scope.

(* ---------- the map fold of any_conv: the value's segment is computed from the CONVERTED key ---------- *)
Definition any_step (h : gval -> outcome gval)
  (acc : outcome (list (gval * gval))) (kv : gval * gval) : outcome (list (gval * gval)) :=
  a <- acc ;;
  k' <- seg (mkey_seg (fst kv)) (h (fst kv)) ;;
  v' <- seg (mval_seg k') (h (snd kv)) ;;
  Ok (map_set k' v' a).

Lemma any_step_ok h acc k v r :
  any_step h (Ok acc) (k, v) = Ok r <-> exists k' v', h k = Ok k' /\ h v = Ok v' /\ r = map_set k' v' acc.
Proof.
  unfold any_step. cbn [bind fst snd]. rewrite bind_ok. split.
  - intros (k' & Hk & H). rewrite bind_ok in H. destruct H as (v' & Hv & H). inversion H; subst.
    apply seg_ok in Hk. apply seg_ok in Hv. exists k', v'. tauto.
  - intros (k' & v' & Hk & Hv & ->). exists k'. split; [apply seg_ok; exact Hk|].
    rewrite bind_ok. exists v'. split; [apply seg_ok; exact Hv | reflexivity].
Qed.

Lemma any_fold_stuck h l : forall o, (forall a, o <> Ok a) -> forall r, fold_left (any_step h) l o <> Ok r.
Proof.
  induction l as [|kv t IH]; intros o Ho r; cbn [fold_left].
  - apply Ho.
  - apply IH. intros a. unfold any_step. destruct o as [a0| | |]; cbn [bind]; try discriminate.
    exfalso. apply (Ho a0). reflexivity.
Qed.

Lemma any_fold_iff h : forall kvs acc r,
  fold_left (any_step h) kvs (Ok acc) = Ok r <->
  map_built (fun k k' => h k = Ok k') (fun v v' => h v = Ok v') kvs acc r.
Proof.
  induction kvs as [|[k v] t IH]; intros acc r; cbn [fold_left].
  - split; [intro H; inversion H; constructor | intro H; inversion H; reflexivity].
  - split.
    + intro H.
      destruct (any_step h (Ok acc) (k, v)) as [a1| | |] eqn:E;
        try (exfalso; revert H; apply any_fold_stuck; intros a; discriminate).
      apply any_step_ok in E. destruct E as (k' & v' & Hk & Hv & ->).
      apply IH in H. econstructor; eassumption.
    + intro H. inversion H as [|k0 v0 t0 acc0 k' v' r0 Hk Hv Hrest]; subst.
      assert (E : any_step h (Ok acc) (k, v) = Ok (map_set k' v' acc)).
      { apply any_step_ok. exists k', v'. tauto. }
      rewrite E. apply IH. exact Hrest.
Qed.

Lemma any_conv_map_fold f kvs :
  fold_left (fun acc kv =>
               a <- acc ;;
               k' <- seg (mkey_seg (fst kv)) (any_conv f (fst kv)) ;;
               v' <- seg (mval_seg k') (any_conv f (snd kv)) ;;
               Ok (map_set k' v' a)) kvs (Ok []) =
  fold_left (any_step (any_conv f)) kvs (Ok []).
Proof. reflexivity. Qed.

(* ---------- shapes ---------- *)
Lemma go_shape_slice t nl l : go_shape (VSlice t nl l) -> Forall go_shape l.
Proof.
  cbn [go_shape]. intros [_ H]. induction l as [|x r IH]; constructor.
  - exact (proj1 H).
  - apply IH. exact (proj2 H).
Qed.

Lemma go_shape_map t nl kvs : go_shape (VMap t nl kvs) -> Forall (fun kv => go_shape (fst kv) /\ go_shape (snd kv)) kvs.
Proof.
  cbn [go_shape]. intros [_ H]. induction kvs as [|[k x] r IH]; constructor.
  - cbn [fst snd]. tauto.
  - apply IH. tauto.
Qed.

Lemma vdepth_slice t nl l : Forall (fun x => (vdepth x < vdepth (VSlice t nl l))%nat) l.
Proof.
  cbn [vdepth]. induction l as [|x r IH]; constructor.
  - lia.
  - eapply Forall_impl; [|exact IH]. cbn beta. intros a Ha. lia.
Qed.

Lemma vdepth_map t nl kvs :
  Forall (fun kv => (vdepth (fst kv) < vdepth (VMap t nl kvs))%nat /\ (vdepth (snd kv) < vdepth (VMap t nl kvs))%nat) kvs.
Proof.
  cbn [vdepth]. induction kvs as [|[k x] r IH]; constructor.
  - cbn [fst snd]. lia.
  - eapply Forall_impl; [|exact IH]. cbn beta. intros a Ha. lia.
Qed.

(* ---------- accepted => denotes ---------- *)
Lemma any_sound : forall f v n, go_shape v -> any_conv f v = Ok n -> any_denotes v n.
Proof.
  induction f as [|f IH]; intros v n Hs H; [discriminate H|].
  cbn [any_conv] in H.
  destruct v as [| t b | t z | t x | t s | t nl l | t nl l | t o | t fs | src | k d]; cbn [go_shape] in Hs; cbn [kind_of] in H.
  - discriminate H.
  - rewrite Hs in H. cbn in H. inversion H. constructor. exact Hs.
  - destruct Hs as (k & Hk & Hin). rewrite Hk in H. destruct k;
      try (inversion H; subst; apply AD_int64; exact Hk);
      (destruct t; cbn in Hk; try discriminate Hk; cbn [int_mapper] in H;
       [ inversion Hk; subst;
         match type of H with context [if ?c then _ else _] => destruct c eqn:E end; [|discriminate H];
         inversion H; subst; apply AD_int; [discriminate | apply Z.leb_le; exact E]
       | discriminate H ]).
  - destruct Hs as [Hk | Hk]; rewrite Hk in H.
    + destruct t; cbn in Hk; try discriminate Hk; cbn [float_mapper] in H; [inversion H; constructor | discriminate H].
    + cbn [conv_float64] in H. inversion H. apply AD_f64. exact Hk.
  - rewrite Hs in H. inversion H. constructor. exact Hs.
  - destruct Hs as [Hk Hall]. rewrite Hk in H. apply bind_ok in H. destruct H as (ys & Hys & H). inversion H; subst.
    apply mapMi_seg_ok in Hys. apply AD_slice; [exact Hk|].
    assert (Hsh : Forall go_shape l) by (apply (go_shape_slice t nl l); cbn [go_shape]; split; assumption).
    eapply Forall2_impl_in; [exact Hsh | | exact Hys]. intros a b Ha Hab. apply (IH a b Ha Hab).
  - destruct Hs as [Hk Hall]. rewrite Hk in H. apply bind_ok in H. destruct H as (r & Hr & H). inversion H; subst.
    rewrite any_conv_map_fold in Hr. apply any_fold_iff in Hr. apply AD_map; [exact Hk|].
    assert (Hsh : Forall (fun kv => go_shape (fst kv) /\ go_shape (snd kv)) l)
      by (apply (go_shape_map t nl l); cbn [go_shape]; split; assumption).
    eapply map_built_impl; [exact Hsh | | | exact Hr]; intros a b Ha Hab; apply (IH a b Ha Hab).
  - rewrite Hs in H. discriminate H.
  - rewrite Hs in H. discriminate H.
  - cbn in H. discriminate H.
  - destruct k; cbn in H; discriminate H.
Qed.

(* ---------- denotes => accepted, with any fuel above the nesting depth ---------- *)
Lemma any_complete : forall d v n, (vdepth v < d)%nat -> any_denotes v n -> any_conv d v = Ok n.
Proof.
  induction d as [|d IH]; intros v n Hd H; [lia|].
  inversion H as [t z Hk | k z Hne Hz | x | t x Hk | t s Hk | t b Hk | t nl l ys Hk HF | t nl kvs r Hk HB]; subst;
    cbn [any_conv kind_of].
  - rewrite Hk. reflexivity.
  - cbn [kind_of_type underlying]. destruct k; try (exfalso; apply Hne; reflexivity);
      cbn [int_mapper]; (destruct (z <=? max_i64) eqn:E; [reflexivity | apply Z.leb_gt in E; lia]).
  - reflexivity.
  - rewrite Hk. reflexivity.
  - rewrite Hk. reflexivity.
  - rewrite Hk. reflexivity.
  - rewrite Hk. apply bind_ok. exists ys. split; [|reflexivity]. apply mapMi_seg_ok.
    assert (Hdep : Forall (fun x => (vdepth x < d)%nat) l).
    { eapply Forall_impl; [|exact (vdepth_slice t nl l)]. cbn beta. intros a Ha. lia. }
    eapply Forall2_impl_in; [exact Hdep | | exact HF]. intros a b Ha Hab. apply IH; [exact Ha | exact Hab].
  - rewrite Hk. apply bind_ok. exists r. split; [|reflexivity].
    rewrite any_conv_map_fold. apply any_fold_iff.
    pose proof (vdepth_map t nl kvs) as Hdep.
    assert (HK : forall x y, (vdepth x < vdepth (VMap t nl kvs))%nat -> any_denotes x y -> any_conv d x = Ok y)
      by (intros a b Ha Hab; apply IH; [lia | exact Hab]).
    exact (map_built_impl (fun a => (vdepth a < vdepth (VMap t nl kvs))%nat) any_denotes any_denotes
             (fun k k' => any_conv d k = Ok k') (fun v v' => any_conv d v = Ok v') kvs [] r Hdep HK HK HB).
Qed.

Theorem any_conv_iff_denotes v n : go_shape v ->
  ((exists f, any_conv f v = Ok n) <-> any_denotes v n).
Proof.
  intro Hs. split.
  - intros (f & H). eapply any_sound; eassumption.
  - intro H. exists (S (vdepth v)). apply any_complete; [lia | exact H].
Qed.

Section WithTables.
Variable words : list (string * bool).
Variable pu : units -> string -> option fl.

Theorem any_paths v : go_shape v -> forall n,
  ((exists f e, unser words pu f e SAny v = Ok n) <-> any_denotes v n) /\
  ((exists f e, serialize words pu f e SAny v = Ok n) <-> any_denotes v n) /\
  ((exists f e, validate words pu f e SAny v = Ok tt) <-> exists m, any_denotes v m).
Proof.
  intros Hs n.
  assert (E : mkEnv [] [] (mkOracles (fun _ => None) (fun _ => false)) = mkEnv [] [] (mkOracles (fun _ => None) (fun _ => false))) by reflexivity.
  split; [|split].
  - split.
    + intros (f & e & H). destruct f as [|f]; [discriminate H|]. cbn [Ops.unser] in H.
      apply (any_conv_iff_denotes v n Hs). exists f. exact H.
    + intro H. apply (any_conv_iff_denotes v n Hs) in H. destruct H as (f & H).
      exists (S f), (mkEnv [] [] (mkOracles (fun _ => None) (fun _ => false))). exact H.
  - split.
    + intros (f & e & H). destruct f as [|f]; [discriminate H|]. cbn [Ops.serialize] in H.
      apply (any_conv_iff_denotes v n Hs). exists f. exact H.
    + intro H. apply (any_conv_iff_denotes v n Hs) in H. destruct H as (f & H).
      exists (S f), (mkEnv [] [] (mkOracles (fun _ => None) (fun _ => false))). exact H.
  - split.
    + intros (f & e & H). destruct f as [|f]; [discriminate H|]. cbn [Ops.validate] in H.
      apply bind_unit_ok in H. destruct H as (m & H). exists m.
      apply (any_conv_iff_denotes v m Hs). exists f. exact H.
    + intros (m & H). apply (any_conv_iff_denotes v m Hs) in H. destruct H as (f & H).
      exists (S f), (mkEnv [] [] (mkOracles (fun _ => None) (fun _ => false))). cbn [Ops.validate].
      apply bind_unit_ok. exists m. exact H.
Qed.

End WithTables.
