(* Proofs/XTotal.v — C04 for struct-mapped objects, half (A): on a well-formed xschema (Schema/XWf.v:
   Wf.wf_schema's contracts at every node + every property of a struct-mapped object has a struct field)
   none of xunser / xvalidate / xserialize / xcompat ever returns `Panic`, for ANY fuel and ANY Go value
   (right struct, pointer, nil pointer, another struct type, a map, a named scalar ...).  Same technique
   as Proofs/C04NoPanic.v: induction on the fuel with the node invariant `XWF e s` preserved by every
   move an operation makes through the schema; the struct layer adds
     - applySubObjectDefaultValues (xsub_defaults: its own recursion over member objects),
     - unserializeToStruct (xto_struct: the keys of the raw map are property ids, which have fields),
     - validateStruct / serializeStruct (a field for every property),
     - the one-of lookup by reflected type (findUnderlyingType). *)
From Coq Require Import Lia.
From Verif Require Import Base.Prelude Base.Str Base.Float Base.GoVal Base.XReflect
  Schema.Regex Schema.Units Schema.Syntax Schema.Ops Schema.Wf Schema.XSyntax Schema.XOps Schema.XWf
  Proofs.C04Inv Proofs.OpsEq Proofs.C04NoPanic Proofs.XOpsEq.
Open Scope string_scope.

(* ---------- the node invariant over xschema (Proofs/C04Inv.v, Section Inv) ---------- *)
Section XInv.
Variable P : xenv -> xschema -> bool.

Definition XInv (e : xenv) (s : xschema) : Prop := xall_env P e = true /\ xall_nodes P e s = true.

Lemma xall_nodes_here e s : xall_nodes P e s = true -> P e s = true.
Proof. destruct s; cbn; intros H; apply andb_prop in H; tauto. Qed.

Lemma xinv_here e s : XInv e s -> P e s = true.
Proof. intros [_ H]. now apply xall_nodes_here. Qed.

Lemma xinv_list e it mn mx : XInv e (XList it mn mx) -> XInv e it.
Proof. intros [He H]. cbn in H. apply andb_prop in H. split; tauto. Qed.

Lemma xinv_map_k e k v mn mx : XInv e (XMap k v mn mx) -> XInv e k.
Proof. intros [He H]. cbn in H. apply andb_prop in H as [_ H]. apply andb_prop in H. split; tauto. Qed.

Lemma xinv_map_v e k v mn mx : XInv e (XMap k v mn mx) -> XInv e v.
Proof. intros [He H]. cbn in H. apply andb_prop in H as [_ H]. apply andb_prop in H. split; tauto. Qed.

Lemma xinv_prop e id u props m np : XInv e (XObject id u props m) -> In np props -> XInv e (p_type (snd np)).
Proof.
  intros [He H] Hin. cbn in H. apply andb_prop in H as [_ H].
  rewrite forallb_forall in H. split; [exact He|]. now apply H.
Qed.

Lemma xinv_member e types ik fld inld km : XInv e (XOneOf types ik fld inld) -> In km types -> XInv e (snd km).
Proof.
  intros [He H] Hin. cbn in H. apply andb_prop in H as [_ H].
  rewrite forallb_forall in H. split; [exact He|]. now apply H.
Qed.

Lemma xall_tab_enter e objs tab : xall_tab P (xenv_enter e objs) tab = xall_tab P e tab.
Proof. reflexivity. Qed.

Lemma xall_env_enter e tab :
  forallb (fun nt => xall_tab P e (snd nt)) (xe_ext e) = true ->
  xall_tab P e tab = true -> xall_env P (xenv_enter e tab) = true.
Proof.
  intros Hx Ht. unfold xall_env. cbn [xe_self xe_ext xenv_enter]. apply andb_true_intro. split; [exact Ht|].
  rewrite forallb_forall in *. intros nt Hin. rewrite xall_tab_enter. now apply Hx.
Qed.

Lemma xinv_scope e objs root o : XInv e (XScope objs root) -> alookup root objs = Some o -> XInv (xenv_enter e objs) o.
Proof.
  intros [He H] Hl. cbn in H. apply andb_prop in H as [_ H].
  unfold xall_env in He. apply andb_prop in He as [_ Hx].
  split.
  - now apply xall_env_enter.
  - rewrite forallb_forall in H. apply alookup_in in Hl. now apply (H (root, o)).
Qed.

Lemma xinv_resolve e id ns o e' : xall_env P e = true -> xresolve e id ns = Some (o, e') -> XInv e' o.
Proof.
  intros He Hr. unfold xresolve in Hr. pose proof He as He0.
  unfold xall_env in He. apply andb_prop in He as [Hs Hx].
  destruct (String.eqb ns "").
  - destruct (alookup id (xe_self e)) eqn:El; [|discriminate]. inversion Hr; subst.
    split; [exact He0|]. rewrite forallb_forall in Hs. apply alookup_in in El. now apply (Hs (id, o)).
  - destruct (alookup ns (xe_ext e)) as [tab|] eqn:En; [|discriminate].
    destruct (alookup id tab) eqn:El; [|discriminate]. inversion Hr; subst.
    assert (Ht : xall_tab P e tab = true).
    { rewrite forallb_forall in Hx. apply alookup_in in En. now apply (Hx (ns, tab)). }
    split.
    + now apply xall_env_enter.
    + unfold xall_tab in Ht. rewrite forallb_forall in Ht. apply alookup_in in El. now apply (Ht (id, o)).
Qed.

Lemma xinv_ref e id ns d o e' : XInv e (XRef id ns d) -> xresolve e id ns = Some (o, e') -> XInv e' o.
Proof. intros [He _]. now apply xinv_resolve. Qed.

End XInv.

(* ---------- the facts xwf_local provides at the panicking sites ---------- *)
Lemma xwf_ref_resolves e id ns d : xwf_local e (XRef id ns d) = true -> xresolve e id ns <> None.
Proof. cbn. destruct (xresolve e id ns) as [[o e']|]; congruence. Qed.

Lemma xwf_ref_obj e id ns d o e' :
  xwf_local e (XRef id ns d) = true -> xresolve e id ns = Some (o, e') -> xis_obj o = true.
Proof. cbn. intros H R. now rewrite R in H. Qed.

Lemma xwf_scope_root e objs root : xwf_local e (XScope objs root) = true -> alookup root objs <> None.
Proof.
  cbn. intros H. apply andb_prop in H as [_ H]. unfold amem in H.
  destruct (alookup root objs); congruence.
Qed.

Lemma xwf_scope_obj e objs root o :
  xwf_local e (XScope objs root) = true -> alookup root objs = Some o -> xis_obj o = true.
Proof.
  cbn. intros H L. apply andb_prop in H as [H _]. apply andb_prop in H as [_ H].
  rewrite forallb_forall in H. apply alookup_in in L. specialize (H _ L). cbn in H.
  destruct o; cbn in *; congruence.
Qed.

Lemma xwf_member_objlike e types ik fld inld km :
  xwf_local e (XOneOf types ik fld inld) = true -> In km types -> xobjlike (snd km) = true.
Proof.
  cbn. intros H Hin. apply andb_prop in H as [_ H]. rewrite forallb_forall in H.
  specialize (H _ Hin). unfold xwf_member in H. apply andb_prop in H as [H _]. apply andb_prop in H. tauto.
Qed.

Lemma xwf_fields e id u props si np :
  xwf_local e (XObject id u props (Some si)) = true -> In np props -> alookup (fst np) (si_fields si) <> None.
Proof.
  unfold xwf_local, xfields_ok. intros H Hin. apply andb_prop in H as [_ H].
  assert (H1 := proj1 (forallb_forall _ _) H _ Hin). cbv beta in H1. unfold amem in H1.
  intros E. unfold xproperty in *. rewrite E in H1. discriminate H1.
Qed.

(* ---------- association-list facts ---------- *)
Lemma x_amem_in {A} k (l : list (string * A)) : amem k l = true <-> In k (map fst l).
Proof.
  unfold amem. induction l as [|[k' v'] t IH]; cbn; [split; [discriminate | tauto]|].
  destruct (String.eqb k k') eqn:E.
  - apply String.eqb_eq in E. subst. split; auto.
  - apply String.eqb_neq in E. rewrite IH. split; [auto | intros [C | C]; [congruence | exact C]].
Qed.

Lemma x_raw_set_keys k v (r : raw) k' : In k' (map fst (raw_set k v r)) -> k' = k \/ In k' (map fst r).
Proof.
  unfold raw_set. destruct (amem k r).
  - intros H. right. revert H. induction r as [|[k0 v0] t IH]; cbn; [tauto|].
    destruct (String.eqb k0 k) eqn:E; cbn.
    + apply String.eqb_eq in E. subst. intros [H | H]; auto.
    + intros [H | H]; auto.
  - rewrite map_app, in_app_iff. cbn. intros [H | [H | []]]; auto.
Qed.

(* a fold whose step binds the accumulator: an invariant of the Ok accumulators reaches the result *)
Lemma x_fold_bind_inv {A B} (g : B -> A -> outcome B) (Q : B -> Prop) l : forall a r,
  Q a -> (forall a x a', In x l -> Q a -> g a x = Ok a' -> Q a') ->
  fold_left (fun acc x => a <- acc ;; g a x) l (Ok a) = Ok r -> Q r.
Proof.
  induction l as [|x t IH]; intros a r Ha Hs H; cbn in H.
  - inversion H; subst; exact Ha.
  - destruct (g a x) as [a'| | |] eqn:E.
    + eapply IH; [eapply Hs; [now left | exact Ha | exact E] | intros; eapply Hs; eauto; now right | exact H].
    + exfalso. clear -H. induction t as [|y t IHt]; cbn in H; [discriminate | auto].
    + exfalso. clear -H. induction t as [|y t IHt]; cbn in H; [discriminate | auto].
    + exfalso. clear -H. induction t as [|y t IHt]; cbn in H; [discriminate | auto].
Qed.

Lemma x_fold_inv {A B} (g : B -> A -> B) (Q : B -> Prop) l : forall a,
  Q a -> (forall a x, In x l -> Q a -> Q (g a x)) -> Q (fold_left g l a).
Proof.
  induction l as [|x t IH]; intros a Ha Hs; cbn; [exact Ha|].
  apply IH; [apply Hs; [now left | exact Ha] | intros; apply Hs; [now right | assumption]].
Qed.

Lemma np_xcheck_rules {S} (props : list (string * property_ S)) set : np (xcheck_rules props set).
Proof. unfold xcheck_rules. apply np_forM. intros np0 _. unfold xcheck_prop_rules. np_scalar. Qed.

Notation XWF := (XInv xwf_local).

(* ---------- applySubObjectDefaultValues ---------- *)
Lemma xsub_object_inv e t o e' : XWF e t -> xsub_object e t = Ok (Some (o, e')) -> XWF e' o.
Proof.
  intros Hinv H. destruct t; cbn in H; try discriminate.
  - inversion H; subst. exact Hinv.
  - destruct (xresolve e id ns) as [[o1 e1]|] eqn:R; [|discriminate]. inversion H; subst.
    eapply xinv_ref; eauto.
Qed.

Lemma np_xsub_object e t : XWF e t -> np (xsub_object e t).
Proof.
  intros Hinv. destruct t; cbn; try exact I.
  destruct (xresolve e id ns) as [[o1 e1]|] eqn:R; [exact I|].
  exact (xwf_ref_resolves _ _ _ _ (xinv_here _ _ _ Hinv) R).
Qed.

Lemma np_xsub_defaults : forall f e pid p r, XWF e (p_type p) -> np (xsub_defaults f e pid p r).
Proof.
  induction f as [|f IH]; intros e pid p r Hinv; [exact I|].
  cbn [xsub_defaults].
  apply np_bind; [apply np_xsub_object; exact Hinv|]. intros so Hso.
  destruct so as [[o e']|]; [|exact I].
  pose proof (xsub_object_inv _ _ _ _ Hinv Hso) as Ho.
  destruct o; try exact I.
  destruct (match mapped with Some si => si_ptr si | None => false end); [exact I|].
  match goal with |- np (match ?d with Some _ => _ | None => _ end) => destruct d as [data0|]; [|exact I] end.
  apply np_bind.
  - apply np_fold; [exact I|]. intros a x Hin Ha. apply np_bind; [exact Ha|]. intros a0 _.
    apply IH. eapply xinv_prop; eauto.
  - intros data2 _. destruct data2; exact I.
Qed.

Lemma xsub_defaults_keys f e pid p r r' k :
  xsub_defaults f e pid p r = Ok r' -> In k (map fst r') -> k = pid \/ In k (map fst r).
Proof.
  destruct f as [|f]; [discriminate|]. cbn [xsub_defaults]. intros H Hk.
  apply bind_ok in H as (so & _ & H).
  assert (Hr : forall r0, Ok r = Ok r0 -> In k (map fst r0) -> k = pid \/ In k (map fst r)).
  { intros r0 E. inversion E; subst. auto. }
  destruct so as [[o e']|]; [|eauto].
  destruct o; eauto.
  destruct (match mapped with Some si => si_ptr si | None => false end); [eauto|].
  match type of H with (match ?d with Some _ => _ | None => _ end) = _ => destruct d as [data0|]; [|eauto] end.
  apply bind_ok in H as (data2 & _ & H).
  destruct data2; [eauto|]. inversion H; subst. eapply x_raw_set_keys; eauto.
Qed.

(* ---------- unserializeToStruct ---------- *)
Lemma np_xto_struct e si (r : raw) :
  (forall k, In k (map fst r) -> amem k (si_fields si) = true) -> np (xto_struct e si r).
Proof.
  intros Hf. unfold xto_struct.
  apply np_bind; [|intros; exact I].
  apply np_fold; [exact I|]. intros a kv Hin Ha. apply np_bind; [exact Ha|]. intros cur _.
  assert (Hk : amem (fst kv) (si_fields si) = true) by (apply Hf; apply in_map; exact Hin).
  unfold amem in Hk. destruct (alookup (fst kv) (si_fields si)) as [fr|]; [|discriminate].
  destruct (set_path _ _ cur (fr_idx fr) true _); exact I.
Qed.

Section XNoPanic.
Variable words : list (string * bool).
Variable pu : units -> string -> option fl.

Notation xunser := (xunser words pu).
Notation xvalidate := (xvalidate words pu).
Notation xserialize := (xserialize words pu).
Notation xcompat := (xcompat words pu).
Notation xoneof_find := (xoneof_find words pu).

(* what the one-of lookup hands back: a declared member *)
Lemma xoneof_find_member f e types ik fld inld v key member data' :
  xoneof_find f e types ik fld inld v = Ok (key, member, data') -> exists k, In (k, member) types.
Proof.
  destruct f as [|f]; [discriminate|]. rewrite (xoneof_find_S words pu); cbv beta iota zeta.
  intros H.
  repeat match type of H with
         | bind _ _ = Ok _ => apply bind_ok in H as (? & _ & H)
         | match ?x with _ => _ end = Ok _ => destruct x eqn:?; try discriminate
         | (if ?x then _ else _) = Ok _ => destruct x eqn:?; try discriminate
         | (let '(_, _) := ?x in _) = Ok _ => destruct x eqn:?
         end.
  all: inversion H; subst.
  all: match goal with
       | E : find _ ?ts = Some (_, _) |- _ => apply find_some in E as [E _]
       end.
  all: eauto.
Qed.

(* the keys of the raw map an object's Unserialize hands to unserializeToStruct are property ids *)
Definition keys_in (props : list (string * xproperty)) (r : raw) : Prop :=
  forall k, In k (map fst r) -> amem k props = true.

Lemma keys_in_app props (r : raw) k x : keys_in props r -> amem k props = true -> keys_in props (r ++ [(k, x)])%list.
Proof.
  intros Hr Hk k' H. rewrite map_app, in_app_iff in H. cbn in H. destruct H as [H | [H | []]]; [auto | subst; exact Hk].
Qed.

Lemma keys_in_set props (r : raw) k x : keys_in props r -> amem k props = true -> keys_in props (raw_set k x r).
Proof. intros Hr Hk k' H. apply x_raw_set_keys in H as [H | H]; [subst; exact Hk | auto]. Qed.

Lemma x_in_amem (props : list (string * xproperty)) np : In np props -> amem (fst np) props = true.
Proof. intros H. apply x_amem_in. now apply in_map. Qed.

Lemma xser_obj_map f e id u props m v x :
  xserialize f e (XObject id u props m) v = Ok x -> exists kvs, is_str_any_map x = Some kvs.
Proof.
  destruct f as [|f]; [discriminate|]. rewrite (xserialize_S words pu); cbv beta iota zeta.
  destruct m as [si|].
  - destruct (xstruct_arg si v); [|discriminate]. intros H.
    apply bind_ok in H as (out & _ & H). apply bind_ok in H as (? & _ & H). inversion H; subst.
    unfold raw_to_val, is_str_any_map. cbn. eauto.
  - destruct (is_str_any_map v); [|discriminate]. intros H.
    apply bind_ok in H as (? & _ & H). apply bind_ok in H as (out & _ & H). inversion H; subst.
    unfold raw_to_val, is_str_any_map. cbn. eauto.
Qed.

Lemma xser_objlike_map f e m v x :
  XWF e m -> xobjlike m = true -> xserialize f e m v = Ok x -> exists kvs, is_str_any_map x = Some kvs.
Proof.
  intros Hinv Hl H. destruct m; try discriminate.
  - eapply xser_obj_map; eauto.
  - destruct f as [|f]; [discriminate|]. rewrite (xserialize_S words pu) in H; cbv beta iota zeta in H.
    destruct (xresolve e id ns) as [[o e']|] eqn:R; [|discriminate].
    pose proof (xwf_ref_obj _ _ _ _ _ _ (xinv_here _ _ _ Hinv) R) as Ho.
    destruct o; try discriminate. eapply xser_obj_map; eauto.
  - destruct f as [|f]; [discriminate|]. rewrite (xserialize_S words pu) in H; cbv beta iota zeta in H.
    destruct (alookup root objs) as [o|] eqn:R; [|discriminate].
    pose proof (xwf_scope_obj _ _ _ _ (xinv_here _ _ _ Hinv) R) as Ho.
    destruct o; try discriminate. eapply xser_obj_map; eauto.
Qed.

Definition xnp_at (f : nat) : Prop :=
  (forall e s v, XWF e s -> np (xunser f e s v)) /\
  (forall e s v, XWF e s -> np (xvalidate f e s v)) /\
  (forall e types ik fld inld v, XWF e (XOneOf types ik fld inld) -> np (xoneof_find f e types ik fld inld v)) /\
  (forall e s v, XWF e s -> np (xserialize f e s v)) /\
  (forall e s v, XWF e s -> np (xcompat f e s v)).

(* XInv of the node an operation moves to *)
Ltac xinv_next :=
  match goal with
  | H : XWF ?e (XList ?it _ _) |- XWF ?e ?it => exact (xinv_list _ _ _ _ _ H)
  | H : XWF ?e (XMap ?k _ _ _) |- XWF ?e ?k => exact (xinv_map_k _ _ _ _ _ _ H)
  | H : XWF ?e (XMap _ ?v _ _) |- XWF ?e ?v => exact (xinv_map_v _ _ _ _ _ _ H)
  | H : XWF ?e (XObject _ _ ?props _), I0 : In ?np ?props |- XWF ?e (p_type (snd ?np)) => exact (xinv_prop _ _ _ _ _ _ _ H I0)
  | H : XWF ?e (XObject _ _ ?props _), L : alookup ?k ?props = Some ?p |- XWF ?e (p_type ?p) =>
      exact (xinv_prop _ _ _ _ _ _ (k, p) H (alookup_in _ _ _ L))
  | H : XWF ?e (XObject _ _ [(?n, ?p)] _) |- XWF ?e (p_type ?p) => exact (xinv_prop _ _ _ _ _ _ (n, p) H (or_introl eq_refl))
  | H : XWF ?e (XOneOf ?types _ _ _), I0 : In (?k, ?m) ?types |- XWF ?e ?m => exact (xinv_member _ _ _ _ _ _ (k, m) H I0)
  | H : XWF ?e (XRef ?id ?ns _), R : xresolve ?e ?id ?ns = Some (?o, ?e') |- XWF ?e' ?o => exact (xinv_ref _ _ _ _ _ _ _ H R)
  | H : XWF ?e (XScope ?objs ?root), R : alookup ?root ?objs = Some ?o |- XWF (xenv_enter ?e ?objs) ?o => exact (xinv_scope _ _ _ _ _ H R)
  | H : XWF ?e ?s |- XWF ?e ?s => exact H
  end.

Ltac xnp_leaf := first [ np_leaf | apply np_xcheck_rules ].

Ltac xfin_with IHu IHv IHo IHs IHc IHa :=
  first [ xnp_leaf | apply IHa
        | apply IHu; xinv_next | apply IHv; xinv_next | apply IHs; xinv_next | apply IHc; xinv_next
        | apply IHo; xinv_next
        | apply np_xsub_defaults; xinv_next ].

Lemma xnp_all : forall f, xnp_at f.
Proof.
  induction f as [|f IH].
  { repeat split; intros; exact I. }
  destruct IH as (IHu & IHv & IHo & IHs & IHc).
  pose proof (np_any_conv f) as IHa.
  assert (HO : forall e types ik fld inld v, XWF e (XOneOf types ik fld inld) -> np (xoneof_find (S f) e types ik fld inld v)).
  { intros e types ik fld inld v Hinv. rewrite (xoneof_find_S words pu); cbv beta iota zeta.
    repeat np_step ltac:(idtac;
      try match goal with
          | E : find _ ?ts = Some (_, _) |- _ => apply find_some in E as [E _]
          end;
      xfin_with IHu IHv IHo IHs IHc IHa). }
  assert (HU : forall e s v, XWF e s -> np (xunser (S f) e s v)).
  { intros e s v Hinv. destruct s; rewrite (xunser_S words pu); cbv beta iota zeta; try xnp_leaf; try (apply IHa).
    - (* list *) repeat np_step ltac:(xfin_with IHu IHv IHo IHs IHc IHa).
    - (* map *) repeat np_step ltac:(xfin_with IHu IHv IHo IHs IHc IHa).
    - (* object *)
      destruct mapped as [si|].
      2: { destruct v; try (repeat np_step ltac:(xfin_with IHu IHv IHo IHs IHc IHa)). }
      assert (Hfields : forall r2, keys_in props r2 -> np (xto_struct e si r2)).
      { intros r2 Hk. apply np_xto_struct. intros k Hin. specialize (Hk k Hin).
        apply x_amem_in in Hk. apply in_map_iff in Hk as (np0 & <- & Hnp).
        pose proof (xwf_fields _ _ _ _ _ _ (xinv_here _ _ _ Hinv) Hnp) as Hne.
        unfold amem. unfold xproperty in *.
        destruct (alookup (fst np0) (si_fields si)); [reflexivity | exfalso; apply Hne; reflexivity]. }
      destruct v.
      7: { (* a map *)
        apply np_bind; [repeat np_step ltac:(xfin_with IHu IHv IHo IHs IHc IHa)|]. intros r0 Hr0.
        apply np_bind; [repeat np_step ltac:(xfin_with IHu IHv IHo IHs IHc IHa)|]. intros r1' Hr1'.
        apply np_bind; [repeat np_step ltac:(xfin_with IHu IHv IHo IHs IHc IHa)|]. intros r2 Hr2.
        apply np_bind; [apply np_xcheck_rules|]. intros _ _.
        apply Hfields.
        assert (K0 : keys_in props r0).
        { revert Hr0. apply x_fold_bind_inv; [intros k []|].
          intros a kv a' _ Ha Hst. destruct (fst kv); try discriminate. destruct t0; try discriminate.
          destruct (amem s props) eqn:Es; [|discriminate]. inversion Hst; subst. now apply keys_in_app. }
        match type of Hr1' with fold_left _ _ (Ok ?r1) = _ => assert (K1 : keys_in props r1) end.
        { apply x_fold_inv; [exact K0|]. intros a np0 Hin Ha.
          destruct (amem (fst np0) a); [exact Ha|]. destruct (p_default (snd np0)); [|exact Ha].
          destruct (xdecode_default _ _ _); [|exact Ha]. apply keys_in_app; [exact Ha | now apply x_in_amem]. }
        assert (K1' : keys_in props r1').
        { revert Hr1'. apply x_fold_bind_inv; [exact K1|].
          intros a np0 a' Hin Ha Hst. destruct (amem (fst np0) r0); [inversion Hst; subst; exact Ha|].
          intros k Hk. destruct (xsub_defaults_keys _ _ _ _ _ _ _ Hst Hk) as [-> | Hk'];
            [now apply x_in_amem | now apply Ha]. }
        revert Hr2. apply x_fold_bind_inv; [exact K1'|].
        intros a np0 a' Hin Ha Hst. destruct (alookup (fst np0) a); [|inversion Hst; subst; exact Ha].
        apply bind_ok in Hst as (x & _ & Hst). inversion Hst; subst.
        apply keys_in_set; [exact Ha | now apply x_in_amem]. }
      (* not a map: the single-property shorthand *)
      all: destruct props as [|[name p] [|? ?]]; try exact I.
      all: apply np_bind; [repeat np_step ltac:(xfin_with IHu IHv IHo IHs IHc IHa)|]; intros x _.
      all: apply np_bind; [apply np_xcheck_rules|]; intros _ _.
      all: apply Hfields; intros k0 [<- | []]; unfold amem; cbn; rewrite String.eqb_refl; reflexivity.
    - (* one-of *)
      repeat np_step ltac:(idtac;
        try match goal with
            | E : find _ ?ts = Some (_, _) |- _ => apply find_some in E as [E _]
            end;
        xfin_with IHu IHv IHo IHs IHc IHa).
    - (* ref *)
      destruct (xresolve e id ns) as [[o e']|] eqn:R.
      + apply IHu; xinv_next.
      + exfalso. exact (xwf_ref_resolves _ _ _ _ (xinv_here _ _ _ Hinv) R).
    - (* scope *)
      destruct (alookup root objs) as [o|] eqn:R.
      + apply IHu; xinv_next.
      + exfalso. exact (xwf_scope_root _ _ _ (xinv_here _ _ _ Hinv) R). }
  assert (HV : forall e s v, XWF e s -> np (xvalidate (S f) e s v)).
  { intros e s v Hinv. destruct s; rewrite (xvalidate_S words pu); cbv beta iota zeta;
      try (apply np_bind; [first [xnp_leaf | apply IHa] | intros; exact I]).
    - repeat np_step ltac:(xfin_with IHu IHv IHo IHs IHc IHa).
    - repeat np_step ltac:(xfin_with IHu IHv IHo IHs IHc IHa).
    - destruct mapped as [si|].
      + (* validateStruct *)
        destruct (xstruct_arg si v) as [sv|]; [|exact I].
        apply np_bind; [|intros; apply np_xcheck_rules].
        apply np_fold; [exact I|]. intros a np0 Hin Ha. apply np_bind; [exact Ha|]. intros a0 _.
        pose proof (xwf_fields _ _ _ _ _ _ (xinv_here _ _ _ Hinv) Hin) as Hne.
        unfold xproperty in *.
        destruct (alookup (fst np0) (si_fields si)) as [fr|]; [|exfalso; apply Hne; reflexivity].
        repeat np_step ltac:(xfin_with IHu IHv IHo IHs IHc IHa).
      + repeat np_step ltac:(xfin_with IHu IHv IHo IHs IHc IHa).
    - apply np_bind; [apply IHo; exact Hinv|]. intros [[key member] data'] Hok.
      apply xoneof_find_member in Hok as (k & Hin).
      apply np_map_err. apply IHv. xinv_next.
    - destruct (xresolve e id ns) as [[o e']|] eqn:R.
      + apply IHv; xinv_next.
      + exfalso. exact (xwf_ref_resolves _ _ _ _ (xinv_here _ _ _ Hinv) R).
    - destruct (alookup root objs) as [o|] eqn:R.
      + apply IHv; xinv_next.
      + exfalso. exact (xwf_scope_root _ _ _ (xinv_here _ _ _ Hinv) R). }
  assert (HS : forall e s v, XWF e s -> np (xserialize (S f) e s v)).
  { intros e s v Hinv. destruct s; rewrite (xserialize_S words pu); cbv beta iota zeta; try xnp_leaf; try (apply IHa).
    - repeat np_step ltac:(xfin_with IHu IHv IHo IHs IHc IHa).
    - repeat np_step ltac:(xfin_with IHu IHv IHo IHs IHc IHa).
    - destruct mapped as [si|].
      + (* serializeStruct *)
        destruct (xstruct_arg si v) as [sv|]; [|exact I].
        apply np_bind; [|intros; apply np_bind; [apply np_xcheck_rules | intros; exact I]].
        apply np_fold; [exact I|]. intros a np0 Hin Ha. apply np_bind; [exact Ha|]. intros a0 _.
        pose proof (xwf_fields _ _ _ _ _ _ (xinv_here _ _ _ Hinv) Hin) as Hne.
        unfold xproperty in *.
        destruct (alookup (fst np0) (si_fields si)) as [fr|]; [|exfalso; apply Hne; reflexivity].
        repeat np_step ltac:(xfin_with IHu IHv IHo IHs IHc IHa).
      + repeat np_step ltac:(xfin_with IHu IHv IHo IHs IHc IHa).
    - apply np_bind; [apply IHo; exact Hinv|]. intros [[key member] data'] Hok.
      apply xoneof_find_member in Hok as (k & Hin).
      assert (Hm : XWF e member) by xinv_next.
      apply np_bind; [apply IHs; exact Hm|]. intros x Hx.
      pose proof (xwf_member_objlike _ _ _ _ _ (k, member) (xinv_here _ _ _ Hinv) Hin) as Hl.
      destruct (xser_objlike_map _ _ _ _ _ Hm Hl Hx) as [xs ->].
      repeat np_step idtac.
    - destruct (xresolve e id ns) as [[o e']|] eqn:R.
      + apply IHs; xinv_next.
      + exfalso. exact (xwf_ref_resolves _ _ _ _ (xinv_here _ _ _ Hinv) R).
    - destruct (alookup root objs) as [o|] eqn:R.
      + apply IHs; xinv_next.
      + exfalso. exact (xwf_scope_root _ _ _ (xinv_here _ _ _ Hinv) R). }
  assert (HC : forall e s v, XWF e s -> np (xcompat (S f) e s v)).
  { intros e s v Hinv. destruct s; rewrite (xcompat_S words pu); cbv beta iota zeta.
    1-8: repeat np_step ltac:(xfin_with IHu IHv IHo IHs IHc IHa).
    - repeat np_step ltac:(xfin_with IHu IHv IHo IHs IHc IHa).
    - repeat np_step ltac:(xfin_with IHu IHv IHo IHs IHc IHa).
    - repeat np_step ltac:(xfin_with IHu IHv IHo IHs IHc IHa).
    - repeat np_step ltac:(xfin_with IHu IHv IHo IHs IHc IHa).
    - destruct (xresolve e id ns) as [[o e']|] eqn:R.
      + apply IHc; xinv_next.
      + exfalso. exact (xwf_ref_resolves _ _ _ _ (xinv_here _ _ _ Hinv) R).
    - destruct (alookup root objs) as [o|] eqn:R.
      + apply IHc; xinv_next.
      + exfalso. exact (xwf_scope_root _ _ _ (xinv_here _ _ _ Hinv) R). }
  repeat split; assumption.
Qed.

Lemma xwf_XWF e s : xwf e s = true -> XWF e s.
Proof. unfold xwf. intros H. apply andb_prop in H. exact H. Qed.

Lemma np_not_panic {A} (o : outcome A) : np o -> forall w, o <> Panic w.
Proof. destruct o; cbn; intros H w E; try discriminate. exact H. Qed.

(* C04 for struct-mapped objects, the panic half: every fuel, EVERY Go value *)
Theorem x_struct_never_panics : forall (e : xenv) (s : xschema), xwf e s = true -> forall f v w,
  xunser f e s v <> Panic w /\ xvalidate f e s v <> Panic w /\
  xserialize f e s v <> Panic w /\ xcompat f e s v <> Panic w.
Proof.
  intros e s Hwf f v w. apply xwf_XWF in Hwf.
  destruct (xnp_all f) as (Hu & Hv & _ & Hs & Hc).
  repeat split; apply np_not_panic; auto.
Qed.

End XNoPanic.

Print Assumptions x_struct_never_panics.
