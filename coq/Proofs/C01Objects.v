(* Proofs/C01Objects.v — map-based objects in the round trip (C01), on top of the three folds of Proofs/C03Obj.v:
   what Unserialize returns is a map[string]any with unique declared keys, every value read by its property's type,
   every property with a default present; Validate / Serialize / ValidateCompatibility go property by property over
   the same presence set; Unserialize of the serialized map restores every value and adds no default. *)
From Coq Require Import Lia.
From Verif Require Import Base.Prelude Base.Str Base.Float Base.GoVal
  Schema.Regex Schema.Units Schema.Syntax Schema.Ops Schema.Cbor Schema.Wf Schema.SpecRT Schema.SpecObj Schema.C01Spec
  Proofs.OpsLemmas Proofs.C01Round Proofs.CborNorm Proofs.C03Obj Proofs.C01Base Proofs.OpsEq Proofs.MonoEq Proofs.C01Any Proofs.C01Facts.
Open Scope string_scope.
Open Scope Z_scope.

Lemma raw_of_entries_raw (r : raw) : raw_of_entries (map (fun kv : string * gval => (vstr (fst kv), snd kv)) r) = r.
Proof.
  induction r as [|[k x] t IH]; [reflexivity|]. unfold raw_of_entries in *. cbn [map flat_map fst snd vstr app]. rewrite IH. reflexivity.
Qed.

Lemma is_str_any_map_raw (r : raw) : is_str_any_map (raw_to_val r) = Some (map (fun kv : string * gval => (vstr (fst kv), snd kv)) r).
Proof. reflexivity. Qed.

Lemma amem_keys {A} k (l : list (string * A)) : amem k l = true <-> In k (map fst l).
Proof.
  split; [apply amem_In|]. intros H. destruct (amem k l) eqn:E; [reflexivity|].
  apply amem_false, alookup_None_notin in E. contradiction.
Qed.

Lemma assoc_ext (a : raw) : forall b : raw, map fst a = map fst b -> NoDup (map fst a) ->
  (forall k, alookup k a = alookup k b) -> a = b.
Proof.
  induction a as [|[k x] t IH]; intros [|[k' x'] t'] Hk Hnd Hl; try discriminate Hk; [reflexivity|].
  cbn [map fst] in Hk. inversion Hk as [[Ek Et]]. subst k'.
  inversion Hnd as [|? ? Hni Hnd']; subst.
  pose proof (Hl k) as Hlk. cbn [alookup] in Hlk. rewrite String.eqb_refl in Hlk. inversion Hlk; subst x'.
  f_equal. apply IH; [exact Et | exact Hnd'|].
  intros k0. specialize (Hl k0). cbn [alookup] in Hl. destruct (String.eqb k0 k) eqn:E; [|exact Hl].
  apply String.eqb_eq in E. subst k0.
  assert (H1 : alookup k t = None) by (apply alookup_None_notin; exact Hni).
  assert (H2 : alookup k t' = None) by (apply alookup_None_notin; rewrite <- Et; exact Hni).
  rewrite H1, H2. reflexivity.
Qed.

Lemma dfold_noop orc ps : forall a,
  (forall k p, In (k, p) ps -> default_value orc p <> None -> amem k a = true) -> fold_left (dstep orc) ps a = a.
Proof.
  induction ps as [|[n p] t IH]; intros a H; [reflexivity|].
  cbn [fold_left]. rewrite dstep_eq. cbn [fst snd].
  destruct (amem n a) eqn:Em.
  - apply IH. intros k p0 Hin. apply H. right. exact Hin.
  - destruct (default_value orc p) eqn:Ed.
    + exfalso. assert (Ht : amem n a = true) by (apply (H n p); [left; reflexivity | rewrite Ed; discriminate]). congruence.
    + apply IH. intros k p0 Hin. apply H. right. exact Hin.
Qed.

Section Objects.
Variable words : list (string * bool).
Variable pu : units -> string -> option fl.
Notation unser := (unser words pu).
Notation validate := (validate words pu).
Notation serialize := (serialize words pu).
Notation compat := (compat words pu).
Notation rtf := (rtf words pu).

Definition oentry_rt (b : bool) (e : env) (props : list (string * property)) (F : nat) (ky kw : string * gval) : Prop :=
  fst kw = fst ky /\ exists p, alookup (fst ky) props = Some p /\ p_disabled p = false /\ rtf b e (p_type p) F (snd ky) (snd kw).

Lemma obj_rtf b e id u props F r2 out :
  NoDup (map fst props) -> NoDup (map fst r2) ->
  check_rules props (fun k => amem k r2) = Ok tt ->
  (forall k p, alookup k props = Some p -> default_value (e_or e) p <> None -> amem k r2 = true) ->
  Forall2 (oentry_rt b e props F) r2 out ->
  rtf b e (SObject id u props) (S F) (raw_to_val r2) (raw_to_val out).
Proof.
  intros Hnd Hnd2 Hc Hdef H0.
  assert (Hkeys : map fst out = map fst r2).
  { clear -H0. induction H0 as [|ky kw t t' (E & _) _ IH]; [reflexivity|]. cbn [map]. rewrite E, IH. reflexivity. }
  assert (Hent : forall k y, In (k, y) r2 -> exists w p, In (k, w) out /\ alookup k props = Some p /\ p_disabled p = false
                                             /\ rtf b e (p_type p) F y w).
  { intros k y Hin. destruct (forall2_in_l _ _ _ _ H0 Hin) as ([k' w] & Hw & (E & p & Hp & Hd & Hr)). cbn [fst snd] in *. subst k'.
    exists w, p. auto. }
  assert (Hent' : forall k w, In (k, w) out -> exists y p, In (k, y) r2 /\ alookup k props = Some p /\ p_disabled p = false
                                             /\ rtf b e (p_type p) F y w).
  { intros k w Hin. destruct (forall2_in_r _ _ _ _ H0 Hin) as ([k' y] & Hy & (E & p & Hp & Hd & Hr)). cbn [fst snd] in *. subst k'.
    exists y, p. auto. }
  constructor.
  - (* wire *)
    unfold raw_to_val. cbn [swire t_str_map]. apply forallb_forall. intros kv Hin.
    apply in_map_iff in Hin. destruct Hin as ([k w] & <- & Hc0). cbn [fst snd]. cbv beta iota.
    destruct (Hent' k w Hc0) as (y & p & _ & _ & _ & Hr). rewrite (rt_wire _ _ _ _ _ _ _ _ Hr). reflexivity.
  - discriminate.
  - (* validate *)
    rewrite (validate_S words pu). cbv beta iota. rewrite is_str_any_map_raw. cbv beta iota zeta. rewrite raw_of_entries_raw.
    apply bind_ok. exists tt. split; [exact Hc|]. apply forM_ok. intros [k y] Hin. cbn [fst snd].
    destruct (Hent k y Hin) as (w & p & _ & Hp & _ & Hr). unfold property in *. rewrite Hp.
    apply seg_ok. apply (rt_val _ _ _ _ _ _ _ _ Hr).
  - (* serialize *)
    rewrite (serialize_S words pu). cbv beta iota. rewrite is_str_any_map_raw. cbv beta iota zeta. rewrite raw_of_entries_raw.
    apply bind_ok. exists tt. split; [exact Hc|]. apply bind_ok. exists out. split; [|reflexivity].
    apply mapM_ok. eapply Forall2_impl; [|exact H0]. intros [k y] [k' w] (E & p & Hp & _ & Hr). cbn [fst snd] in *. subst k'.
    unfold property in *. rewrite Hp. rewrite (rt_ser _ _ _ _ _ _ _ _ Hr). reflexivity.
  - (* unserialize the serialized map *)
    rewrite (unser_object_eq words pu). unfold raw_to_val at 1. cbn [obj_unser].
    assert (Hk : fold_left (kstep props) (map (fun kv : string * gval => (vstr (fst kv), snd kv)) out) (Ok []) = Ok out).
    { apply kfold_ok. exists out. split; [|split; [|reflexivity]].
      - clear. induction out as [|[k w] t IH]; cbn [map]; constructor; [split; reflexivity | exact IH].
      - apply Forall_forall. intros [k w] Hin. cbn [fst]. destruct (Hent' k w Hin) as (y & p & _ & Hp & _).
        apply amem_alookup. eauto. }
    rewrite Hk. cbn [bind]. cbv zeta.
    rewrite (dfold_noop (e_or e) props out).
    2:{ intros k p Hin Hd. apply amem_keys. rewrite Hkeys. apply amem_keys. apply (Hdef k p); [|exact Hd].
        apply In_alookup_nodup; assumption. }
    destruct (ufold_complete (unser F e) props Hnd out) as (r2c & Hu).
    { intros k p d Hp Hd. apply alookup_In in Hd. destruct (Hent' k d Hd) as (y & p' & _ & Hp' & Hdis & Hr).
      assert (p' = p) by congruence. subst p'. exists y. split; [exact Hdis | apply (rt_uns _ _ _ _ _ _ _ _ Hr)]. }
    destruct (ufold_sound (unser F e) props Hnd out r2c Hu) as (Hk2 & Hl).
    assert (E : r2c = r2).
    { apply assoc_ext; [rewrite Hk2; exact Hkeys | rewrite Hk2, Hkeys; exact Hnd2|].
      intros k. specialize (Hl k). destruct (alookup k out) as [d|] eqn:Eo.
      - apply alookup_In in Eo. destruct (Hent' k d Eo) as (y & p & Hy & Hp & _ & Hr). rewrite Hp in Hl.
        destruct Hl as (x & (_ & Hx) & Hx2). rewrite (rt_uns _ _ _ _ _ _ _ _ Hr) in Hx. inversion Hx; subst x.
        rewrite Hx2. symmetry. apply In_alookup_nodup; assumption.
      - rewrite Hl. symmetry. apply alookup_None_notin. rewrite <- Hkeys. apply alookup_None_notin. exact Eo. }
    subst r2c. apply bind_ok. exists r2. split; [exact Hu|]. rewrite Hc. reflexivity.
  - (* data compatibility *)
    intros Hb. rewrite (compat_S words pu). cbv beta iota. rewrite is_str_any_map_raw. cbv beta iota zeta. rewrite raw_of_entries_raw.
    apply bind_ok. exists tt. split.
    + apply forM_ok. intros [k y] Hin. cbn [fst snd].
      destruct (Hent k y Hin) as (w & p & _ & Hp & Hdis & Hr). unfold property in *. rewrite Hp.
      apply seg_ok. apply bind_ok. exists tt. split; [apply rewrap_path_ok; apply (rt_cmp _ _ _ _ _ _ _ _ Hr Hb) | rewrite Hdis; reflexivity].
    + apply forM_ok. intros [name p] Hin. cbn [fst snd]. destruct (p_required p) eqn:Hreq; [|reflexivity].
      pose proof (proj1 (check_rules_ok props _) Hc name p Hin) as Hrule. unfold rule_holds in Hrule.
      destruct (amem name r2) eqn:Em.
      * apply amem_alookup in Em. destruct Em as (y & Hy). rewrite Hy.
        destruct (Hent name y (alookup_In _ _ _ Hy)) as (w & p' & _ & _ & _ & Hr).
        pose proof (rt_nonnil _ _ _ _ _ _ _ _ Hr) as Hnn. destruct y; try reflexivity. contradiction.
      * destruct Hrule as (Hf & _). congruence.
  - (* shape *)
    intros ps Hm. cbn [member_props] in Hm. inversion Hm; subst ps. exists r2, out.
    split; [reflexivity|]. split; [reflexivity|]. split; [exact Hkeys|].
    intros k Hin. apply in_map_iff in Hin. destruct Hin as ([k' y] & E & Hin). cbn [fst] in E. subst k'.
    destruct (Hent k y Hin) as (w & p & _ & Hp & _). apply amem_alookup. eauto.
Qed.

Lemma smap_get_entries kvs r0 k : Forall2 kv_entry kvs r0 -> smap_get k kvs = alookup k r0.
Proof.
  induction 1 as [|kv e0 t t' [Ek Ev] _ IH]; [reflexivity|].
  destruct kv as [kk kx], e0 as [ek ex]. cbn [fst snd] in Ek, Ev. subst kk kx.
  cbn [smap_get alookup]. destruct (String.eqb k ek); [reflexivity | exact IH].
Qed.

(* the value Unserialize returns for a declared property that the raw map supplies *)
Lemma obj_field_value e id u props f t nl kvs n k p d :
  NoDup (map fst props) -> unser (S f) e (SObject id u props) (VMap t nl kvs) = Ok n ->
  alookup k props = Some p -> smap_get k kvs = Some d ->
  exists r2 y, n = raw_to_val r2 /\ alookup k r2 = Some y /\ unser f e (p_type p) d = Ok y.
Proof.
  intros Hnd H Hp Hd. rewrite (unser_object_eq words pu) in H. unfold obj_unser in H.
  apply bind_ok in H. destruct H as (r0 & Hk & H). cbv zeta in H.
  apply bind_ok in H. destruct H as (r2 & Hu & H).
  apply bind_ok in H. destruct H as (u0 & _ & H). inversion H; subst n. clear H.
  apply kfold_ok in Hk. destruct Hk as (es & H2 & _ & E). cbn [app] in E. subst es.
  destruct (ufold_sound (unser f e) props Hnd _ r2 Hu) as (_ & Hl). specialize (Hl k).
  rewrite (dfold_lookup (e_or e) props Hnd r0 k) in Hl. rewrite <- (smap_get_entries kvs r0 k H2), Hd in Hl.
  unfold property in *. rewrite Hp in Hl. destruct Hl as (x & (_ & Hx) & Hx2).
  exists r2, x. auto.
Qed.

(* the object branch of Unserialize, inverted *)
Lemma unser_obj_inv e id u props f v n :
  NoDup (map fst props) ->
  unser (S f) e (SObject id u props) v = Ok n -> distinct_in words pu (S f) e (SObject id u props) v = true ->
  exists r2, n = raw_to_val r2 /\ NoDup (map fst r2)
    /\ check_rules props (fun k => amem k r2) = Ok tt
    /\ (forall k p, alookup k props = Some p -> default_value (e_or e) p <> None -> amem k r2 = true)
    /\ (forall k y, In (k, y) r2 -> exists p d, alookup k props = Some p /\ p_disabled p = false
          /\ unser f e (p_type p) d = Ok y /\ distinct_in words pu f e (p_type p) d = true).
Proof.
  intros Hnd H Hdi. rewrite (unser_object_eq words pu) in H.
  destruct (is_map v) eqn:Em.
  - (* a map *)
    destruct v as [| | | | | |t nl kvs| | | |]; try discriminate Em. clear Em.
    unfold obj_unser in H.
    apply bind_ok in H. destruct H as (r0 & Hk & H). cbv zeta in H.
    apply bind_ok in H. destruct H as (r2 & Hu & H).
    apply bind_ok in H. destruct H as (u0 & Hc & H). inversion H; subst n. clear H.
    apply unit_ok in Hc. apply kfold_ok in Hk. destruct Hk as (es & H2 & Hd & E). cbn [app] in E. subst es.
    cbn [distinct_in] in Hdi. cbv zeta in Hdi. apply andb_prop in Hdi. destruct Hdi as [Hnd0 Hch].
    rewrite (raw_of_entries_rel kvs r0 H2) in Hnd0, Hch.
    assert (Hch' : forallb (fun np : string * property =>
                       match alookup (fst np) (fold_left (dstep (e_or e)) props r0) with
                       | Some d => distinct_in words pu f e (p_type (snd np)) d
                       | None => true
                       end) props = true) by exact Hch.
    clear Hch. apply nodup_str_NoDup in Hnd0.
    assert (Hdecl : forall k, amem k r0 = true -> amem k props = true).
    { intros k Hm. apply amem_alookup in Hm. destruct Hm as (x & Hx). apply alookup_In in Hx.
      rewrite Forall_forall in Hd. apply (Hd (k, x) Hx). }
    pose proof (dfold_nodup (e_or e) props r0 Hnd0) as Hnd1.
    destruct (ufold_sound (unser f e) props Hnd _ r2 Hu) as (Hkeys & Hl).
    assert (Hnd2 : NoDup (map fst r2)) by (rewrite Hkeys; exact Hnd1).
    exists r2. split; [reflexivity|]. split; [exact Hnd2|]. split; [exact Hc|]. split.
    + intros k p Hp Hdv. apply amem_keys. rewrite Hkeys. apply amem_keys. apply amem_alookup.
      rewrite (dfold_lookup (e_or e) props Hnd r0 k). destruct (alookup k r0) as [d|]; [eauto|].
      unfold property in *. rewrite Hp. destruct (default_value (e_or e) p) as [d|]; [eauto | contradiction].
    + intros k y Hin. pose proof (In_alookup_nodup k y r2 Hnd2 Hin) as Hy. specialize (Hl k).
      destruct (alookup k (fold_left (dstep (e_or e)) props r0)) as [d|] eqn:E1; [|congruence].
      destruct (r1_declared (e_or e) props r0 k d Hnd Hdecl E1) as (p & Hp). rewrite Hp in Hl.
      destruct Hl as (x & (Hdis & Hr) & Hx). assert (x = y) by congruence. subst x.
      exists p, d. split; [exact Hp|]. split; [exact Hdis|]. split; [exact Hr|].
      rewrite forallb_forall in Hch'. specialize (Hch' (k, p) (alookup_In _ _ _ Hp)). cbn [fst snd] in Hch'.
      rewrite E1 in Hch'. exact Hch'.
  - (* the one-property shorthand *)
    rewrite (obj_unser_nonmap (unser f e) (e_or e) props v Em) in H.
    destruct props as [|[name p] [|q rest]]; try discriminate H.
    unfold short_unser in H.
    apply bind_ok in H. destruct H as (x & Hx & H). apply bind_ok in H. destruct H as (u0 & Hc & H).
    inversion H; subst n. clear H. apply unit_ok in Hc. apply seg_ok in Hx.
    destruct (p_disabled p) eqn:Hdis; [discriminate Hx|].
    assert (Hset : forall k, String.eqb k name = amem k [(name, x)]).
    { intros k. unfold amem. rewrite alookup_single. destruct (String.eqb k name); reflexivity. }
    exists [(name, x)]. split; [reflexivity|]. split; [cbn; constructor; [intros [] | constructor]|]. split.
    { apply check_rules_ok. intros name' p' Hin. apply (rule_holds_ext (fun k => String.eqb k name)); [exact Hset|].
      apply (proj1 (check_rules_ok _ _) Hc). exact Hin. }
    split.
    { intros k p0 Hp _. rewrite alookup_single in Hp. rewrite <- Hset. destruct (String.eqb k name); [reflexivity | discriminate Hp]. }
    intros k y [E | []]. inversion E; subst k y. exists p, v.
    split; [rewrite alookup_single, String.eqb_refl; reflexivity|]. split; [exact Hdis|]. split; [exact Hx|].
    destruct v; try discriminate Em; exact Hdi.
Qed.

End Objects.
