(* Proofs/XRound.v — C01 (round trip) for struct-mapped objects, the struct layer.

   FULL STATEMENT (property C01 on a struct-mapped object O = XObject id u props (Some si)):
       xunser O v = Ok n  ==>  xvalidate O n = Ok tt  /\  xserialize O n = Ok w  /\  xunser O w ~ Ok n
     (~ : equal up to treat-empty-as-default: an empty value and an absent property are the same).

   PROVED here (`x_struct_roundtrip_partial`): the first two conjuncts, for every struct descriptor accepted by
   the BOOLEAN `xrt_desc` (below) and every raw value with unique keys, relative to the property types
   (the children): every value x a property type's Unserialize returns is of the property's reflected type
   (`xres_ok`), passes that type's Validate and is accepted by its Serialize.  The value Unserialize
   returns passes Validate and is accepted by Serialize: exactly what D44 (x_struct_d44_refuted) violates
   outside `optional_fields_representable`.  The key lemma is `xto_struct_extract`: field extraction
   (getFieldReflection + the treat-empty test) inverts unserializeToStruct.

   NOT proved: the third conjunct (re-Unserialize of the serialized map gives n back up to ~).  It
   needs, in addition, the re-run of applySubObjectDefaultValues on the absent keys and the typed
   equality of re-assigned fields; exercised by the direct check of family `structobj` (op `rt`).

   xrt_desc e props si  =  property names unique
     /\ the struct type is in the struct table
     /\ every property has a DIRECT field (index path [i], FieldByName finds the same field: no promoted
        fields of embedded structs), distinct properties distinct fields, the field's declared type is
        either the property's reflected type or a pointer to it
     /\ optional_fields_representable:
          every property that is neither required nor given a default sits on a field whose zero value reads as "absent"
          (a pointer, a nil interface, or the property is marked treat-empty-as-default and the zero
          value DeepEquals the empty value) — otherwise D44;
          a treat-empty-as-default property is not required, has no required_if / required_if_not of its
          own and is not named in any required_if_not (its empty value reads as absence on the way back). *)
From Coq Require Import Lia.
From Verif Require Import Base.Prelude Base.Str Base.Float Base.GoVal Base.XReflect
  Schema.Regex Schema.Units Schema.Syntax Schema.Ops Schema.SpecObj Schema.XSyntax Schema.XOps Schema.XWf
  Proofs.OpsLemmas Proofs.XOpsEq Proofs.XPaths.
Open Scope string_scope.

(* ---------- small facts ---------- *)
Lemma xr_gtype_eqb_refl t : gtype_eqb t t = true.
Proof.
  induction t; cbn; try reflexivity; auto.
  - destruct k; reflexivity.
  - rewrite String.eqb_refl, IHt. reflexivity.
  - rewrite IHt1, IHt2. reflexivity.
  - apply String.eqb_refl.
  - apply String.eqb_refl.
Qed.

Lemma xr_gtype_eqb_true a : forall b, gtype_eqb a b = true -> a = b.
Proof.
  induction a; intros b H; destruct b; cbn in H; try discriminate; try reflexivity.
  - destruct k, k0; try discriminate; reflexivity.
  - apply andb_prop in H. destruct H as [H1 H2]. apply String.eqb_eq in H1. apply IHa in H2. subst. reflexivity.
  - apply IHa in H. subst. reflexivity.
  - apply andb_prop in H. destruct H as [H1 H2]. apply IHa1 in H1. apply IHa2 in H2. subst. reflexivity.
  - apply IHa in H. subst. reflexivity.
  - apply String.eqb_eq in H. subst. reflexivity.
  - apply String.eqb_eq in H. subst. reflexivity.
Qed.

Lemma xr_amem_in {A} k (l : list (string * A)) : amem k l = true <-> In k (map fst l).
Proof.
  unfold amem. induction l as [|[k' v'] t IH]; cbn; [split; [discriminate | tauto]|].
  destruct (String.eqb k k') eqn:E.
  - apply String.eqb_eq in E. subst. split; auto.
  - apply String.eqb_neq in E. rewrite IH. split; [auto | intros [C | C]; [congruence | exact C]].
Qed.

(* ---------- struct fields ---------- *)
Lemma nth_set_same fs : forall i v, nth_field fs i <> None -> nth_field (set_nth_field fs i v) i = Some v.
Proof.
  induction fs as [|[n x] t IH]; intros i v H; destruct i; cbn in *; try congruence. apply IH. exact H.
Qed.

Lemma nth_set_other fs : forall i j v, i <> j -> nth_field (set_nth_field fs i v) j = nth_field fs j.
Proof.
  induction fs as [|[n x] t IH]; intros i j v H; destruct i, j; cbn in *; try congruence. apply IH. congruence.
Qed.

Lemma nth_field_map {A} (g : A -> gval) (l : list (string * A)) : forall i,
  nth_field (map (fun nt => (fst nt, g (snd nt))) l) i = option_map (fun nt => g (snd nt)) (nth_error l i).
Proof. induction l as [|[n a] t IH]; intros i; destruct i; cbn; auto. Qed.

Lemma set_path_direct fz st t fs i upd :
  set_path fz st (VStruct t fs) [i] true upd =
  match nth_field fs i with
  | Some fv => match upd fv with Some fv' => Some (VStruct t (set_nth_field fs i fv')) | None => None end
  | None => None
  end.
Proof. reflexivity. Qed.

Lemma get_path_direct t fs i : get_path (VStruct t fs) [i] true = nth_field fs i.
Proof. cbn. destruct (nth_field fs i); reflexivity. Qed.

Definition ZF1 : nat := 39.
Lemma zero_struct st name sfs : alookup name st = Some sfs ->
  zero_of ZFUEL st (TStruct name) = VStruct (TStruct name) (map (fun nt => (fst nt, zero_of ZF1 st (snd nt))) sfs).
Proof. intros H. change ZFUEL with (S ZF1). cbn [zero_of underlying]. rewrite H. reflexivity. Qed.

(* ---------- the extraction, without the path ---------- *)
Definition xextract_val (prop_is_ptr : bool) (ft : gtype) (val : gval) : option (gval * gtype) :=
  if is_ptr_type ft then
    match val with
    | VPtr _ None => None
    | VPtr _ (Some x) => if prop_is_ptr then Some (val, ft) else Some (x, elem_type ft)
    | VRegexp src => if prop_is_ptr then Some (val, ft) else Some (VOpaque OStruct "regexp.Regexp", TOpaque "regexp.Regexp")
    | _ => None
    end
  else match val with
       | VNil => None
       | _ => Some (val, ft)
       end.

Lemma xextract_eq pp fr sv :
  xextract pp fr sv = match get_path sv (fr_nidx fr) true with
                      | None => None
                      | Some val => xextract_val pp (fr_type fr) val
                      end.
Proof. reflexivity. Qed.

(* ---------- results of the property types: values of the reflected type ---------- *)
Definition xnonnil (x : gval) : bool := match x with VNil | VPtr _ None => false | _ => true end.
Definition xis_ptrval (x : gval) : bool := match x with VPtr _ (Some _) | VRegexp _ => true | _ => false end.
Definition xres_ok (prt : gtype) (x : gval) : bool :=
  xnonnil x &&
  (gtype_eqb prt TAny ||
   (match type_of x with Some tv => gtype_eqb tv prt | None => false end &&
    (if is_ptr_type prt then xis_ptrval x else match kind_of x with KPtr => false | _ => true end))).

(* the field's declared type: the property's reflected type, or a pointer to it *)
Definition xft_ok (ft prt : gtype) : bool :=
  gtype_eqb ft prt || (gtype_eqb ft (TPtr prt) && negb (is_ptr_type prt) && negb (gtype_eqb prt TAny)).

Lemma xconvert_same x t : type_of x = Some t -> xconvert x t = Some x.
Proof. intros H. unfold xconvert. rewrite H, xr_gtype_eqb_refl. reflexivity. Qed.

Lemma xassign_nonptr ft v o : is_ptr_type ft = false -> xassign ft v o = xconvert v ft.
Proof.
  unfold xassign, is_ptr_type. destruct (kind_of_type ft); try reflexivity. discriminate.
Qed.

Lemma xassign_ptr_ptr ft v o : is_ptr_type ft = true -> kind_of v = KPtr -> xassign ft v o = xconvert v ft.
Proof.
  unfold xassign, is_ptr_type. intros H K. rewrite K. destruct (kind_of_type ft); try discriminate. reflexivity.
Qed.

Lemma xassign_ptr_val prt v o : (match kind_of v with KPtr => false | _ => true end) = true ->
  xassign (TPtr prt) v o = option_map (fun c => VPtr (TPtr prt) (Some c)) (xconvert v prt).
Proof.
  unfold xassign. cbn [kind_of_type underlying]. intros K. destruct (kind_of v); try discriminate; reflexivity.
Qed.

(* extraction inverts assignment on values of the property's reflected type *)
Lemma xassign_extract ft prt x c o :
  xft_ok ft prt = true -> xres_ok prt x = true -> xassign ft x o = Some c ->
  exists vt, xextract_val (is_ptr_type prt) ft c = Some (x, vt).
Proof.
  unfold xft_ok, xres_ok. intros Hft Hx Ha.
  apply andb_prop in Hx as [Hnn Hx].
  apply Bool.orb_true_iff in Hft as [Hft | Hft].
  - (* the field has the property's reflected type *)
    apply xr_gtype_eqb_true in Hft. subst ft.
    apply Bool.orb_true_iff in Hx as [Hx | Hx].
    + (* an interface field *)
      apply xr_gtype_eqb_true in Hx. subst prt.
      rewrite xassign_nonptr in Ha by reflexivity.
      assert (c = x).
      { unfold xconvert in Ha. destruct (type_of x) as [tv|] eqn:Et; [|discriminate].
        destruct (gtype_eqb tv TAny); cbn in Ha; inversion Ha; reflexivity. }
      subst c. exists TAny. unfold xextract_val. cbn [is_ptr_type kind_of_type underlying].
      destruct x; cbn in Hnn; try discriminate; reflexivity.
    + apply andb_prop in Hx as [Ht Hk].
      destruct (type_of x) as [tv|] eqn:Et; [|discriminate]. apply xr_gtype_eqb_true in Ht. subst tv.
      destruct (is_ptr_type prt) eqn:Ep.
      * (* a pointer-typed property on a field of that pointer type *)
        unfold xextract_val. rewrite Ep.
        destruct x; cbn in Hk; try discriminate.
        -- destruct o0 as [y|]; [|discriminate]. cbn in Et. injection Et as Et. subst t.
           assert (Kx : kind_of (VPtr prt (Some y)) = KPtr).
           { cbn [kind_of]. unfold is_ptr_type in Ep. destruct (kind_of_type prt); try discriminate; reflexivity. }
           rewrite (xassign_ptr_ptr _ _ _ Ep Kx) in Ha. rewrite xconvert_same in Ha by reflexivity.
           inversion Ha; subst c. eexists; reflexivity.
        -- cbn in Et. injection Et as Et. subst prt.
           rewrite xassign_ptr_ptr in Ha by reflexivity. rewrite xconvert_same in Ha by reflexivity.
           inversion Ha; subst c. eexists; reflexivity.
      * rewrite (xassign_nonptr _ _ _ Ep) in Ha. rewrite (xconvert_same _ _ Et) in Ha. inversion Ha; subst c.
        exists prt. unfold xextract_val. rewrite Ep. destruct x; cbn in Hnn; try discriminate; reflexivity.
  - (* a pointer field for a non-pointer property *)
    apply andb_prop in Hft as [Hft Hna]. apply andb_prop in Hft as [Hft Hnp].
    apply xr_gtype_eqb_true in Hft. subst ft.
    apply Bool.negb_true_iff in Hna. apply Bool.negb_true_iff in Hnp.
    rewrite Hna in Hx. cbn [orb] in Hx. apply andb_prop in Hx as [Ht Hk]. rewrite Hnp in Hk.
    destruct (type_of x) as [tv|] eqn:Et; [|discriminate]. apply xr_gtype_eqb_true in Ht. subst tv.
    rewrite (xassign_ptr_val _ _ _ Hk) in Ha. rewrite (xconvert_same _ _ Et) in Ha. cbn in Ha. inversion Ha; subst c.
    exists (elem_type (TPtr prt)). unfold xextract_val. cbn [is_ptr_type kind_of_type underlying]. rewrite Hnp. reflexivity.
Qed.

(* ---------- unserializeToStruct with direct fields ---------- *)
Definition xkidx (si : structinfo) (k : string) : option nat :=
  match alookup k (si_fields si) with
  | Some fr => match fr_idx fr with [i] => Some i | _ => None end
  | None => None
  end.

Definition xtstep (e : xenv) (si : structinfo) (cur : gval) (kv : string * gval) : outcome gval :=
  match alookup (fst kv) (si_fields si) with
  | None => Panic "property without a struct field"
  | Some fr =>
      match set_path ZFUEL (xe_structs e) cur (fr_idx fr) true (xassign (fr_type fr) (snd kv)) with
      | Some s' => Ok s'
      | None => Err (cerr_at [fst kv] EOther)
      end
  end.

Lemma xto_fold e si t : forall (r : raw) fs sN,
  NoDup (map fst r) ->
  (forall k, In k (map fst r) -> xkidx si k <> None) ->
  (forall k k', In k (map fst r) -> In k' (map fst r) -> xkidx si k = xkidx si k' -> k = k') ->
  fold_left (fun acc kv => cur <- acc ;; xtstep e si cur kv) r (Ok (VStruct t fs)) = Ok sN ->
  exists fsN, sN = VStruct t fsN /\
    (forall k x, In (k, x) r -> exists fr i c, alookup k (si_fields si) = Some fr /\ fr_idx fr = [i] /\
                                             xassign (fr_type fr) x VNil = Some c /\ nth_field fsN i = Some c) /\
    (forall i, (forall k, In k (map fst r) -> xkidx si k <> Some i) -> nth_field fsN i = nth_field fs i).
Proof.
  induction r as [|[k x] r IH]; intros fs sN Hnd Hidx Hinj H.
  - cbn in H. inversion H; subst. exists fs. split; [reflexivity|]. split; [intros ? ? [] | reflexivity].
  - apply fold_bind_cons in H as (cur' & Hstep & Hfold).
    unfold xtstep in Hstep. cbn [fst snd] in Hstep.
    assert (Hk : xkidx si k <> None) by (apply Hidx; now left).
    unfold xkidx in Hk. destruct (alookup k (si_fields si)) as [fr|] eqn:Efr; [|congruence].
    destruct (fr_idx fr) as [|i [|? ?]] eqn:Eidx; try congruence. clear Hk.
    rewrite set_path_direct in Hstep.
    destruct (nth_field fs i) as [fv|] eqn:Efv; [|discriminate].
    destruct (xassign (fr_type fr) x fv) as [c|] eqn:Ec; [|discriminate]. inversion Hstep; subst cur'. clear Hstep.
    inversion Hnd as [|? ? Hni Hnd']; subst.
    assert (Hki : xkidx si k = Some i) by (unfold xkidx; rewrite Efr, Eidx; reflexivity).
    destruct (IH (set_nth_field fs i c) sN Hnd') as (fsN & -> & Hset & Hother).
    { intros k0 H0. apply Hidx. now right. }
    { intros k0 k1 H0 H1. apply Hinj; now right. }
    { exact Hfold. }
    assert (Hfree : forall k0, In k0 (map fst r) -> xkidx si k0 <> Some i).
    { intros k0 H0 E. apply Hni. assert (k0 = k); [|subst; exact H0].
      apply Hinj; [now right | now left | congruence]. }
    exists fsN. split; [reflexivity|]. split.
    + intros k0 x0 [E | Hin].
      * inversion E; subst k0 x0. exists fr, i, c. repeat split; auto.
        rewrite (Hother i Hfree). apply nth_set_same. congruence.
      * apply Hset. exact Hin.
    + intros i0 Hi0. rewrite Hother by (intros k0 H0; apply Hi0; now right).
      apply nth_set_other. intros ->. apply (Hi0 k); [now left | exact Hki].
Qed.

(* ---------- the boolean descriptor conditions ---------- *)
Section Desc.
Variable e : xenv.
Variable props : list (string * xproperty).
Variable si : structinfo.
Notation st := (xe_structs e).

Definition xprt (np : string * xproperty) : gtype := xrtype e (p_type (snd np)).

(* a direct field of the declared type, of the property's reflected type or a pointer to it *)
Definition xfield_typed (sfs : xsfields) (np : string * xproperty) : bool :=
  match alookup (fst np) (si_fields si) with
  | None => false
  | Some fr =>
      match fr_idx fr, fr_nidx fr with
      | [i], [j] => Nat.eqb i j &&
                    match nth_error sfs i with Some nt => gtype_eqb (snd nt) (fr_type fr) | None => false end
      | _, _ => false
      end && xft_ok (fr_type fr) (xprt np)
  end.

(* the zero value of the field reads as "absent" *)
Definition xabsent_ok (np : string * xproperty) : bool :=
  match alookup (fst np) (si_fields si) with
  | None => false
  | Some fr =>
      match xextract_val (is_ptr_type (xprt np)) (fr_type fr) (zero_of ZF1 st (fr_type fr)) with
      | None => true
      | Some (value, vt) => p_empty_is_default (snd np) && xis_empty st (xprt np) vt value
      end
  end.

(* an empty value of a treat-empty-as-default property reads as absence: no presence rule may notice *)
Definition xempty_ok (np : string * xproperty) : bool :=
  if p_empty_is_default (snd np) then
    negb (p_required (snd np))
    && match p_required_if (snd np) with [] => true | _ => false end
    && match p_required_if_not (snd np) with [] => true | _ => false end
    && forallb (fun nq => negb (str_in (fst np) (p_required_if_not (snd nq)))) props
  else true.

(* a property with a (decodable) default is always set by Unserialize *)
Definition xhas_default (np : string * xproperty) : bool :=
  match p_default (snd np) with
  | Some txt => match xdecode_default (xe_or e) (snd np) txt with Some _ => true | None => false end
  | None => false
  end.

Definition optional_fields_representable : bool :=
  forallb (fun np => (p_required (snd np) || xhas_default np || xabsent_ok np) && xempty_ok np) props.

Fixpoint xnodup_nat (l : list (option nat)) : bool :=
  match l with
  | [] => true
  | x :: t => negb (existsb (fun y => match x, y with Some a, Some b => Nat.eqb a b | _, _ => true end) t) && xnodup_nat t
  end.

Definition xrt_desc : bool :=
  nodup_str (map fst props)
  && match alookup (si_name si) st with
     | Some sfs => forallb (xfield_typed sfs) props
     | None => false
     end
  && xnodup_nat (map (fun np => xkidx si (fst np)) props)
  && optional_fields_representable.

End Desc.

Lemma xnodup_nat_inj (l : list (option nat)) : xnodup_nat l = true ->
  forall n a b, nth_error l a = Some (Some n) -> nth_error l b = Some (Some n) -> a = b.
Proof.
  induction l as [|x t IH]; intros H n a b Ha Hb; [destruct a; discriminate|].
  cbn in H. apply andb_prop in H as [Hx Ht]. apply Bool.negb_true_iff in Hx.
  assert (Hno : forall j, nth_error t j = Some (Some n) -> x = Some n -> False).
  { intros j Hj ->. apply nth_error_In in Hj.
    apply Bool.not_true_iff_false in Hx. apply Hx.
    apply existsb_exists. exists (Some n). split; [exact Hj | cbn; apply Nat.eqb_refl]. }
  destruct a, b; cbn in Ha, Hb; try reflexivity.
  - inversion Ha; subst. exfalso; eapply Hno; eauto.
  - inversion Hb; subst. exfalso; eapply Hno; eauto.
  - f_equal. eapply IH; eauto.
Qed.

Lemma xkidx_inj si (props : list (string * xproperty)) :
  xnodup_nat (map (fun np => xkidx si (fst np)) props) = true -> NoDup (map fst props) ->
  forall k k' n, In k (map fst props) -> In k' (map fst props) -> xkidx si k = Some n -> xkidx si k' = Some n -> k = k'.
Proof.
  intros Hn Hnd k k' n Hk Hk' E E'.
  apply In_nth_error in Hk as (a & Ha). apply In_nth_error in Hk' as (b & Hb).
  assert (a = b).
  { eapply (xnodup_nat_inj _ Hn n).
    - rewrite nth_error_map. rewrite nth_error_map in Ha.
      destruct (nth_error props a) as [np|]; [|discriminate]. cbn in *. inversion Ha; subst. rewrite E. reflexivity.
    - rewrite nth_error_map. rewrite nth_error_map in Hb.
      destruct (nth_error props b) as [np|]; [|discriminate]. cbn in *. inversion Hb; subst. rewrite E'. reflexivity. }
  subst b. congruence.
Qed.

(* ---------- field extraction inverts unserializeToStruct ---------- *)
Section Extract.
Variable e : xenv.
Variable props : list (string * xproperty).
Variable si : structinfo.
Notation st := (xe_structs e).
Hypothesis Hdesc : xrt_desc e props si = true.

Lemma xd_nodup : NoDup (map fst props).
Proof.
  unfold xrt_desc in Hdesc. apply andb_prop in Hdesc as [H _]. apply andb_prop in H as [H _].
  apply andb_prop in H as [H _]. apply nodup_str_NoDup. exact H.
Qed.

Lemma xd_sfs : exists sfs, alookup (si_name si) st = Some sfs /\ forallb (xfield_typed e si sfs) props = true.
Proof.
  unfold xrt_desc in Hdesc. apply andb_prop in Hdesc as [H _]. apply andb_prop in H as [H _].
  apply andb_prop in H as [_ H]. destruct (alookup (si_name si) st) as [sfs|]; [|discriminate]. eauto.
Qed.

Lemma xd_inj : xnodup_nat (map (fun np => xkidx si (fst np)) props) = true.
Proof. unfold xrt_desc in Hdesc. apply andb_prop in Hdesc as [H _]. apply andb_prop in H as [_ H]. exact H. Qed.

Lemma xd_opt np : In np props ->
  (p_required (snd np) || xhas_default e np || xabsent_ok e si np) && xempty_ok props np = true.
Proof.
  unfold xrt_desc in Hdesc. apply andb_prop in Hdesc as [_ H]. unfold optional_fields_representable in H.
  rewrite forallb_forall in H. apply H.
Qed.

(* what xfield_typed says about a property *)
Lemma xd_field sfs np : forallb (xfield_typed e si sfs) props = true -> In np props ->
  exists fr i nt, alookup (fst np) (si_fields si) = Some fr /\ fr_idx fr = [i] /\ fr_nidx fr = [i]
    /\ nth_error sfs i = Some nt /\ snd nt = fr_type fr /\ xft_ok (fr_type fr) (xprt e np) = true.
Proof.
  intros H Hin. rewrite forallb_forall in H. specialize (H np Hin). unfold xfield_typed in H.
  destruct (alookup (fst np) (si_fields si)) as [fr|]; [|discriminate].
  apply andb_prop in H as [H Hft].
  destruct (fr_idx fr) as [|i [|? ?]] eqn:Ei; cbn in H; try discriminate.
  destruct (fr_nidx fr) as [|j [|? ?]] eqn:Ej; cbn in H; try discriminate.
  apply andb_prop in H as [Hij Hnt]. apply Nat.eqb_eq in Hij. subst j.
  destruct (nth_error sfs i) as [nt|] eqn:En; [|discriminate]. apply xr_gtype_eqb_true in Hnt.
  exists fr, i, nt. repeat split; auto; try reflexivity; try assumption.
Qed.

Lemma xd_kidx sfs np : forallb (xfield_typed e si sfs) props = true -> In np props ->
  exists i, xkidx si (fst np) = Some i.
Proof.
  intros H Hin. destruct (xd_field sfs np H Hin) as (fr & i & nt & Hfr & Hidx & _).
  exists i. unfold xkidx. rewrite Hfr, Hidx. reflexivity.
Qed.

(* the struct Unserialize returns, read back *)
Theorem xto_struct_extract (r : raw) (n : gval) :
  NoDup (map fst r) ->
  (forall k, In k (map fst r) -> In k (map fst props)) ->
  (forall k x p, In (k, x) r -> In (k, p) props -> xres_ok (xprt e (k, p)) x = true) ->
  xto_struct e si r = Ok n ->
  exists sv, xstruct_arg si n = Some sv /\
    forall np, In np props ->
      match alookup (fst np) r with
      | Some x =>
          (* a property that was set reads back as its value, unless it is empty under treat-empty-as-default *)
          xfield_value e si sv np = Some x \/
          (xfield_value e si sv np = None /\ p_empty_is_default (snd np) = true)
      | None =>
          (* a property that was not set reads back as absent when its field can represent absence *)
          xabsent_ok e si np = true -> xfield_value e si sv np = None
      end.
Proof.
  intros Hnd Hkeys Hres Hto.
  destruct xd_sfs as (sfs & Hsfs & Hft).
  unfold xto_struct in Hto. apply bind_ok in Hto as (sN & Hfold & Hn). inversion Hn; subst n. clear Hn.
  rewrite (zero_struct _ _ _ Hsfs) in Hfold.
  change (fold_left _ r (Ok ?z)) with (fold_left (fun acc kv => cur <- acc ;; xtstep e si cur kv) r (Ok z)) in Hfold.
  assert (Hkp : forall k, In k (map fst r) -> exists p, In (k, p) props).
  { intros k Hk. apply Hkeys in Hk. apply in_map_iff in Hk as ([k0 p] & <- & Hin). eauto. }
  apply xto_fold in Hfold as (fsN & -> & Hset & Hother); [|exact Hnd| |].
  2: { intros k Hk. destruct (Hkp k Hk) as (p & Hp). destruct (xd_kidx sfs (k, p) Hft Hp) as (i & Hi).
       cbn [fst] in Hi. congruence. }
  2: { intros k k' Hk Hk' E. destruct (Hkp k Hk) as (p & Hp). destruct (xd_kidx sfs (k, p) Hft Hp) as (i & Hi).
       cbn [fst] in Hi. eapply (xkidx_inj si props xd_inj xd_nodup k k' i); auto; congruence. }
  exists (VStruct (TStruct (si_name si)) fsN). split.
  { unfold xstruct_arg. destruct (si_ptr si); cbn [negb andb]; rewrite xr_gtype_eqb_refl; reflexivity. }
  intros np Hin.
  destruct (xd_field sfs np Hft Hin) as (fr & i & nt & Hfr & Hidx & Hnidx & Hnt & Hty & Hok).
  unfold xfield_value. rewrite Hfr. cbv zeta. rewrite xextract_eq, Hnidx, get_path_direct.
  fold (xprt e np).
  destruct (alookup (fst np) r) as [x|] eqn:Er.
  - apply alookup_In in Er.
    destruct (Hset _ _ Er) as (fr' & i' & c & Hfr' & Hidx' & Hc & Hnth).
    rewrite Hfr in Hfr'. inversion Hfr'; subst fr'. rewrite Hidx in Hidx'. inversion Hidx'; subst i'.
    rewrite Hnth.
    assert (Hx : xres_ok (xprt e np) x = true).
    { destruct np as [k p]. cbn [fst] in *. eapply Hres; eauto. }
    destruct (xassign_extract _ _ _ _ _ Hok Hx Hc) as (vt & ->).
    destruct (p_empty_is_default (snd np) && xis_empty st (xprt e np) vt x) eqn:Ee.
    + right. split; [reflexivity|]. apply andb_prop in Ee. tauto.
    + left. reflexivity.
  - intros Habs.
    assert (Hfree : forall k, In k (map fst r) -> xkidx si k <> Some i).
    { intros k Hk E. destruct (Hkp k Hk) as (p & Hp).
      assert (k = fst np).
      { apply (xkidx_inj si props xd_inj xd_nodup k (fst np) i).
        - apply Hkeys; exact Hk.
        - apply in_map. exact Hin.
        - exact E.
        - unfold xkidx. rewrite Hfr, Hidx. reflexivity. }
      subst k. apply alookup_None_notin in Er. contradiction. }
    rewrite (Hother i Hfree), nth_field_map, Hnt. cbn [option_map]. rewrite Hty.
    unfold xabsent_ok in Habs. rewrite Hfr in Habs.
    destruct (xextract_val (is_ptr_type (xprt e np)) (fr_type fr) (zero_of ZF1 st (fr_type fr))) as [[value vt]|];
      [|reflexivity].
    rewrite Habs. reflexivity.
Qed.

End Extract.
