(* Proofs/Server.v — progress, termination measure, the deterministic scheduler of the correspondence
   check, and the statements used by Properties/C07.v (the invariants are in Proofs/ServerInv.v). *)
From Coq Require Import Lia.
From Verif Require Import Base.Prelude Base.Str ATP.Msg ATP.Server.
From Verif Require Export Proofs.ServerInv.
Open Scope string_scope.
Open Scope list_scope.
Open Scope nat_scope.

(* ------------------------------------------------------------------------------------- *)
(* progress: a quiescent server that is not waiting for its environment has returned *)

Definition quiescent (c : cfg) (s : state) : Prop :=
  forall l, is_internal l = true -> step c s l = None.

Definition waiting_for_input (s : state) : Prop :=
  (rl s = RStart \/ rl s = RLoop) /\ inq s = [] /\ stdin_closed s = false.

Definition waiting_for_release (c : cfg) (s : state) : Prop :=
  exists i w st tok, nth_error (workers s) i = Some w /\ w_pc w = WCall /\ w_kind w = KStep st tok /\
                     c_slow c tok = true /\ zmem tok (released s) = false.

Lemma no_stuck c s : Inv s -> quiescent c s ->
  ~ waiting_for_input s -> ~ waiting_for_release c s -> hp s = HReturned.
Proof.
  intros I Q NI NR. des s. destruct I as [I1 I2 I3 I4 I5 I6].
  unfold waiting_for_input, waiting_for_release in *. flat. subst.
  pose proof (Q LRead eq_refl) as QR. pose proof (Q (LHandler true) eq_refl) as QH.
  unf_step; flat.
  destruct hp0; auto; exfalso.
  - (* HSelect: the channel is empty and open *)
    destruct wd0; [|discriminate QH]. destruct wd_closed0; [discriminate QH|]. cbn [List.length Nat.leb] in QR.
    destruct rl0.
    + destruct stdin_closed0; [discriminate QR|]. destruct inq0 as [|ev q]; [apply NI; auto|].
      destruct ev; discriminate QR.
    + destruct out_closed0; discriminate QR.
    + destruct stdin_closed0; [discriminate QR|]. destruct inq0 as [|ev q]; [apply NI; auto|].
      destruct ev; discriminate QR.
    + discriminate QR.
    + (* RDefer: some step or signal goroutine has not finished *)
      destruct (sumf livew workers0) eqn:En; [discriminate QR|].
      assert (Hpos : 0 < sumf livew workers0) by lia.
      destruct (sumf_pos_ex livew workers0 Hpos) as (i & w & Hn & Hl).
      pose proof (Q (LWorker i) eq_refl) as QW. unf_step; flat. rewrite Hn in QW.
      destruct w as [wk wr wp]. cbn [livew livepc w_pc w_kind w_run] in *. cbn [List.length Nat.leb] in QW.
      unfold livew in Hl. cbn [w_pc] in Hl.
      destruct wp; cbn [livepc] in Hl; try discriminate QW; try lia.
      * destruct wk as [st tok|st sg ok].
        -- destruct (handler_reached c st tok && c_slow c tok && negb (zmem tok released0)) eqn:Eb.
           ++ apply NR. exists i, (mkW (KStep st tok) wr WCall), st, tok.
              apply andb_true_iff in Eb. destruct Eb as [Eb1 Eb3]. apply andb_true_iff in Eb1. destruct Eb1 as [_ Eb2].
              apply negb_true_iff in Eb3. auto.
           ++ destruct (step_outcome c st tok); discriminate QW.
        -- destruct (c_step_known c st && c_sig_known c sg && ok); discriminate QW.
      * destruct out_closed0; discriminate QW.
    + specialize (I4 eq_refl). discriminate I4.
  - (* HForward *)
    cbv zeta in QH. match type of QH with (if ?b then _ else _) = None => destruct b; discriminate QH end.
  - discriminate QH.
  - (* HWait *)
    destruct I6 as [Hc Hw]; [reflexivity|]. subst.
    rewrite (I3 eq_refl) in QH. rewrite (I5 eq_refl) in QH. flat. discriminate QH.
Qed.

(* every internal step decreases the measure *)
Lemma workers_weight_snoc l w : workers_weight (l ++ [w]) = workers_weight l + w_weight (w_pc w).
Proof. unfold workers_weight. rewrite map_app, list_sum_app. simpl. lia. Qed.

Lemma workers_weight_upd l i x y : nth_error l i = Some x ->
  workers_weight (upd_nth i y l) + w_weight (w_pc x) = workers_weight l + w_weight (w_pc y).
Proof. intros H. exact (sumf_upd_nth (fun w => w_weight (w_pc w)) l i x y H). Qed.

Lemma mu_step c s l s' : step c s l = Some s' -> is_internal l = true -> mu s' < mu s.
Proof.
  intros H Hl. des s. unfold mu. flat.
  destruct l as [ev|t| | | |rv|i]; try discriminate Hl; unf_step; flat; destruct crashed0; try discriminate H.
  - brk; rewrite ?workers_weight_snoc, ?app_length;
      cbn [rl_weight h_weight w_weight w_pc List.length] in *;
      repeat match goal with Hq : (_ <=? _)%nat = false |- _ => apply Nat.leb_gt in Hq end; try lia.
  - brk; rewrite ?app_length;
      cbn [rl_weight h_weight w_weight w_pc List.length] in *;
      repeat match goal with Hq : _ && _ = true |- _ => apply andb_true_iff in Hq; destruct Hq end;
      repeat match goal with Hq : negb _ = true |- _ => apply negb_true_iff in Hq; subst end;
      flat; try lia.
  - worker_cases H.
    pose proof (fun y => workers_weight_upd _ _ _ y Hn) as Hp.
    brk; try (match goal with |- context [upd_nth _ ?y _] => specialize (Hp y) end);
      rewrite ?app_length in *;
      cbn [rl_weight h_weight w_weight w_pc List.length] in *;
      repeat match goal with Hq : (_ <=? _)%nat = false |- _ => apply Nat.leb_gt in Hq end; try lia.
Qed.

(* ------------------------------------------------------------------------------------- *)
(* the statements used by Properties/C07.v *)

Lemma c07_no_crash : forall (c : cfg) (ls : list label), crashed (run c init ls) = false.
Proof. exact no_crash. Qed.


Lemma c07_terminal_accounting : forall (c : cfg) (ls : list label) (r : runid), r <> "" ->
  let s := run c init ls in
  sumf (ev_accepted r) (hist s) + sumf (ev_badws r) (hist s)
  = sumf (w_pending r) (workers s) + rl_pending (term r) (rl s) + sumf (term r) (wd s) + h_pending (term r) (hp s)
    + sumf (oterm r) (out s) + sumf (oterm r) (lost s).
Proof.
  intros c ls r Hr s. destruct (term_reachable c r s Hr (reach_run c ls)) as [A T]. lia.
Qed.

Lemma c07_at_most_one : forall (c : cfg) (ls : list label) (r : runid), r <> "" ->
  let s := run c init ls in
  sumf (oterm r) (out s) <= sumf (ev_accepted r) (hist s) + sumf (ev_badws r) (hist s).
Proof. intros c ls r Hr s. pose proof (c07_terminal_accounting c ls r Hr) as H. cbv zeta in H. fold s in H. lia. Qed.

Lemma c07_exactly_one : forall (c : cfg) (ls : list label) (r : runid), r <> "" ->
  let s := run c init ls in
  hp s = HReturned -> out_closed s = false ->
  sumf (oterm r) (out s) = sumf (ev_accepted r) (hist s) + sumf (ev_badws r) (hist s).
Proof.
  intros c ls r Hr s Hh Ho.
  pose proof (c07_terminal_accounting c ls r Hr) as H. cbv zeta in H. fold s in H.
  pose proof (inv_reachable c s (reach_run c ls)) as I.
  destruct (returned_facts s I Hh) as (Hrl & Hwd & Hlive).
  destruct (out_reachable c s (reach_run c ls) Ho) as [Hlost _].
  rewrite Hrl, Hwd, Hh, Hlost in H. cbn [rl_pending h_pending] in H. rewrite ?sumf_nil in H.
  rewrite (all_gone_sum (w_pending r) (workers s)) in H; [lia | | exact Hlive].
  intros w Hw. unfold w_pending. rewrite Hw. reflexivity.
Qed.

Lemma c07_errors_reported : forall (c : cfg) (ls : list label) (g : srverr -> nat),
  let s := run c init ls in
  hp s = HReturned ->
  sumf g (ret s) = sumf g (raised s) /\
  (out_closed s = false -> sumf (og g) (out s) = sumf g (raised s)).
Proof.
  intros c ls g s Hh.
  destruct (err_reachable c g s (reach_run c ls)) as [A B].
  pose proof (inv_reachable c s (reach_run c ls)) as I.
  destruct (returned_facts s I Hh) as (Hrl & Hwd & Hlive).
  rewrite Hrl, Hwd in A. rewrite Hh in B. cbn [rl_pending h_pending] in A, B. rewrite ?sumf_nil in A.
  rewrite (all_gone_sum (w_pendE g) (workers s)) in A; [ | | exact Hlive].
  - split; [lia|]. intros Ho. destruct (out_reachable c s (reach_run c ls) Ho) as [Hlost _].
    rewrite Hlost, sumf_nil in B. lia.
  - intros w Hw. unfold w_pendE. rewrite Hw. reflexivity.
Qed.

Lemma c07_returns : forall (c : cfg) (ls : list label),
  let s := run c init ls in
  quiescent c s -> ~ waiting_for_input s -> ~ waiting_for_release c s -> hp s = HReturned.
Proof. intros c ls s. apply no_stuck. apply (inv_reachable c). apply reach_run. Qed.

Lemma c07_measure : forall (c : cfg) (s s' : state) (l : label),
  step c s l = Some s' -> is_internal l = true -> mu s' < mu s.
Proof. intros. eapply mu_step; eauto. Qed.

(* ------------------------------------------------------------------------------------- *)
(* a concrete session for the non-vacuity examples of Properties/C07.v: one work-start of a step
   that succeeds, end of input, every goroutine run to completion *)

Definition c07_example_cfg : cfg :=
  mkCfg (fun _ => BSuccess "success") (fun _ => false) (fun st => String.eqb st "s") (fun sg => String.eqb sg "sig").
Definition c07_example_schedule : list label :=
  [ LArrive (EvMsg (Unknown 0 "")); LArrive (EvMsg (WorkStart "a" "s" 1%Z)); LArrive EvEOF;
    LRead; LRead; LRead; LWorker 0; LWorker 0; LWorker 0; LRead; LRead; LRead;
    LHandler true; LHandler true; LHandler true; LHandler true; LHandler true ].

Lemma c07_example_quiescent :
  let s := run c07_example_cfg init c07_example_schedule in
  quiescent c07_example_cfg s /\ ~ waiting_for_input s /\ ~ waiting_for_release c07_example_cfg s.
Proof.
  remember (run c07_example_cfg init c07_example_schedule) as s eqn:E. vm_compute in E. subst s. cbv zeta.
  split; [|split].
  - intros l Hl. destruct l as [ev|t| | | |r|i]; try discriminate.
    + reflexivity.
    + destruct r; reflexivity.
    + destruct i as [|i]; [reflexivity|]. destruct i; reflexivity.
  - intros [[H|H] _]; discriminate H.
  - intros (i & w & st & tok & Hn & Hpc & _).
    destruct i as [|i]; simpl in Hn.
    + inversion Hn; subst. discriminate Hpc.
    + destruct i; discriminate Hn.
Qed.

(* ------------------------------------------------------------------------------------- *)
(* the deterministic scheduler of the correspondence check (`settle`, `run_script`) computes
   quiescent, reachable states: what the extracted model predicts is covered by the theorems *)

Lemma first_worker_none c s : forall is, first_worker c s is = None -> forall i, In i is -> step c s (LWorker i) = None.
Proof.
  induction is as [|j t IH]; intros H i Hi; [destruct Hi|].
  simpl in H. destruct (step c s (LWorker j)) eqn:E; [discriminate|].
  destruct Hi as [->|Hi]; auto.
Qed.

Lemma worker_out_of_range c s i : List.length (workers s) <= i -> step c s (LWorker i) = None.
Proof.
  intros H. unfold step. destruct (crashed s); [reflexivity|]. unfold step_worker.
  apply nth_error_None in H. rewrite H. reflexivity.
Qed.

Lemma first_internal_none c s : first_internal c s = None -> quiescent c s.
Proof.
  unfold first_internal. intros H l Hl.
  destruct (step c s LRead) eqn:E1; [discriminate|].
  destruct (step c s (LHandler true)) eqn:E2; [discriminate|].
  destruct (step c s (LHandler false)) eqn:E3; [discriminate|].
  destruct l as [ev|t| | | |r|i]; try discriminate Hl; auto.
  - destruct r; assumption.
  - destruct (Nat.lt_ge_cases i (List.length (workers s))) as [Hlt|Hge].
    + apply (first_worker_none c s _ H). apply in_seq. lia.
    + apply worker_out_of_range. exact Hge.
Qed.

Lemma first_worker_some c s : forall is s', first_worker c s is = Some s' -> exists i, step c s (LWorker i) = Some s'.
Proof.
  induction is as [|j t IH]; intros s' H; [discriminate|].
  simpl in H. destruct (step c s (LWorker j)) eqn:E; [inversion H; subst; eauto | auto].
Qed.

Lemma first_internal_some c s s' : first_internal c s = Some s' ->
  exists l, is_internal l = true /\ step c s l = Some s'.
Proof.
  unfold first_internal. intros H.
  destruct (step c s LRead) eqn:E1; [inversion H; subst; exists LRead; auto|].
  destruct (step c s (LHandler true)) eqn:E2; [inversion H; subst; exists (LHandler true); auto|].
  destruct (step c s (LHandler false)) eqn:E3; [inversion H; subst; exists (LHandler false); auto|].
  destruct (first_worker_some c s _ s' H) as [i Hi]. exists (LWorker i). auto.
Qed.

Lemma settle_quiescent c : forall fuel s, mu s < fuel -> quiescent c (settle c fuel s).
Proof.
  induction fuel as [|f IH]; intros s Hf; [lia|].
  simpl. destruct (first_internal c s) eqn:E.
  - destruct (first_internal_some c s s0 E) as (l & Hl & Hs).
    apply IH. pose proof (mu_step c s l s0 Hs Hl). lia.
  - apply first_internal_none. exact E.
Qed.

Lemma run_app c s l1 l2 : run c s (l1 ++ l2) = run c (run c s l1) l2.
Proof. unfold run. apply fold_left_app. Qed.

Lemma settle_is_run c : forall fuel s, exists ls, settle c fuel s = run c s ls.
Proof.
  induction fuel as [|f IH]; intros s; [exists []; reflexivity|].
  simpl. destruct (first_internal c s) eqn:E; [|exists []; reflexivity].
  destruct (first_internal_some c s s0 E) as (l & Hl & Hs).
  destruct (IH s0) as [ls Hls]. exists (l :: ls).
  change (run c s (l :: ls)) with (run c (step_or_stay c s l) ls).
  unfold step_or_stay. rewrite Hs. exact Hls.
Qed.

Lemma act_is_run c s l : exists ls, act c s l = run c s ls.
Proof.
  destruct (settle_is_run c (S (mu (step_or_stay c s l))) (step_or_stay c s l)) as [ls H].
  exists (l :: ls). unfold act. cbv zeta. rewrite H. reflexivity.
Qed.

Lemma run_script_reachable c : forall ls, reachable c (run_script c ls).
Proof.
  intros ls. unfold run_script.
  destruct (settle_is_run c (S (mu init)) init) as [l0 H0]. rewrite H0.
  assert (G : forall xs s, reachable c s -> reachable c (fold_left (act c) xs s)).
  { intros xs. induction xs as [|l t IH]; intros s Hs; [exact Hs|]. simpl. apply IH.
    destruct Hs as [pre ->]. destruct (act_is_run c (run c init pre) l) as [post Hp]. rewrite Hp.
    exists (pre ++ post). rewrite run_app. reflexivity. }
  apply G. apply reach_run.
Qed.

Lemma run_script_quiescent c : forall ls, quiescent c (run_script c ls).
Proof.
  intros ls. unfold run_script.
  assert (G : forall xs s, quiescent c s -> quiescent c (fold_left (act c) xs s)).
  { intros xs. induction xs as [|l t IH]; intros s Hs; [exact Hs|]. simpl. apply IH.
    unfold act. cbv zeta. apply settle_quiescent. lia. }
  apply G. apply settle_quiescent. lia.
Qed.

Lemma c07_prediction_covered : forall (c : cfg) (ls : list label),
  reachable c (run_script c ls) /\ quiescent c (run_script c ls).
Proof. intros c ls. split; [apply run_script_reachable | apply run_script_quiescent]. Qed.
