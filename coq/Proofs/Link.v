(* Proofs/Link.v — lemmas about Schema/Link.v (C14). *)
From Coq Require Import List ZArith Bool String Lia.
From Verif Require Import Base.Prelude Base.Str Base.Float Base.GoVal
  Schema.Regex Schema.Units Schema.Syntax Schema.Ops Schema.Link Schema.Compat Proofs.Compat.
Import ListNotations.
Open Scope string_scope.

Arguments resolve : simpl never.

(* ---------- folds that thread an outcome ---------- *)

Lemma fold_bind_stuck : forall A B (step : B -> A -> outcome A) l (o : outcome A),
  (forall a, o <> Ok a) -> forall a, fold_left (fun acc x => a0 <- acc ;; step x a0) l o <> Ok a.
Proof.
  intros A B step l; induction l as [|x t IH]; simpl; intros o Ho a; [apply Ho|].
  apply IH. intros a0. destruct o; simpl; try discriminate. exfalso; eapply Ho; eauto.
Qed.

Lemma fold_bind_inv : forall A B (step : B -> A -> outcome A) x t a r,
  fold_left (fun acc y => a0 <- acc ;; step y a0) (x :: t) (Ok a) = Ok r ->
  exists a1, step x a = Ok a1 /\ fold_left (fun acc y => a0 <- acc ;; step y a0) t (Ok a1) = Ok r.
Proof.
  intros A B step x t a r H. simpl in H. destruct (step x a) as [a1| | |] eqn:E; eauto;
    exfalso; eapply (fold_bind_stuck A B step t); try eassumption; intros; discriminate.
Qed.

Lemma fold_untouched : forall B (step : B -> ltab -> outcome ltab) (Q : B -> Prop) p l lt lt',
  (forall x a a', In x l -> step x a = Ok a' -> Q x -> lt_get p a' = lt_get p a) ->
  fold_left (fun acc x => a0 <- acc ;; step x a0) l (Ok lt) = Ok lt' ->
  (forall x, In x l -> Q x) -> lt_get p lt' = lt_get p lt.
Proof.
  intros B step Q p l; induction l as [|x t IH]; intros lt lt' Hs Hf HQ.
  - simpl in Hf; inversion Hf; auto.
  - apply fold_bind_inv in Hf. destruct Hf as [a1 [E1 E2]].
    assert (H1 : lt_get p lt' = lt_get p a1).
    { apply IH; auto.
      - intros y a a' Hy; apply Hs; simpl; auto.
      - intros y Hy; apply HQ; simpl; auto. }
    rewrite H1. apply (Hs x lt a1); [simpl; auto | exact E1 | apply HQ; simpl; auto].
Qed.

(* ---------- applying one namespace leaves the others untouched ---------- *)

Lemma okey_eqb_eq : forall a b, okey_eqb a b = true <-> a = b.
Proof.
  intros [x|x] [y|y]; simpl; split; intros H; try discriminate; try (inversion H; subst).
  - apply Z.eqb_eq in H; subst; reflexivity.
  - apply Z.eqb_refl.
  - apply String.eqb_eq in H; subst; reflexivity.
  - apply String.eqb_refl.
Qed.

Lemma pstep_eqb_eq : forall a b, pstep_eqb a b = true <-> a = b.
Proof.
  intros a b; destruct a, b; simpl; split; intros H; try discriminate; try reflexivity;
    try (inversion H; subst; first [apply String.eqb_refl | apply okey_eqb_eq; reflexivity]).
  - apply String.eqb_eq in H; subst; reflexivity.
  - apply okey_eqb_eq in H; subst; reflexivity.
  - apply String.eqb_eq in H; subst; reflexivity.
Qed.

Lemma lpath_eqb_eq : forall a b, lpath_eqb a b = true <-> a = b.
Proof.
  induction a as [|x a IH]; intros [|y b]; simpl; split; intros H; try discriminate; try reflexivity.
  - apply andb_true_iff in H. destruct H as [H1 H2]. apply pstep_eqb_eq in H1. apply IH in H2. subst; reflexivity.
  - inversion H; subst. apply andb_true_iff. split; [apply pstep_eqb_eq | apply IH]; reflexivity.
Qed.

Lemma lpath_eqb_refl : forall a, lpath_eqb a a = true.
Proof. intros a. apply lpath_eqb_eq. reflexivity. Qed.

Lemma lt_get_set_other : forall p q x lt, p <> q -> lt_get p (lt_set q x lt) = lt_get p lt.
Proof.
  intros p q x lt H. unfold lt_set. simpl.
  destruct (lpath_eqb p q) eqn:E; auto. apply lpath_eqb_eq in E; contradiction.
Qed.

Lemma lt_get_set_same : forall p x lt, lt_get p (lt_set p x lt) = Some x.
Proof. intros p x lt. unfold lt_set. simpl. rewrite lpath_eqb_refl. reflexivity. Qed.

Lemma link_ns_untouched : forall fuel src ns here s lt lt' p,
  link_ns fuel src ns here s lt = Ok lt' ->
  (forall id, ~ In (p, (id, ns)) (refs_of fuel here s)) ->
  lt_get p lt' = lt_get p lt.
Proof.
  induction fuel as [|f IH]; intros src ns here s lt lt' p Hl Hn; [discriminate|].
  destruct s; simpl in Hl, Hn; try (inversion Hl; auto; fail).
  - eapply IH; eauto.
  - destruct (link_ns f src ns (seg_key here) s1 lt) as [lt1| | |] eqn:E1; try discriminate. simpl in Hl.
    rewrite (IH _ _ _ _ _ _ p Hl), (IH _ _ _ _ _ _ p E1); auto;
      intros id C; apply (Hn id); apply in_or_app; auto.
  - apply (fold_untouched _ (fun x a => link_ns f src ns (seg_prop here (fst x)) (p_type (snd x)) a)
             (fun x => forall id, ~ In (p, (id, ns)) (refs_of f (seg_prop here (fst x)) (p_type (snd x)))) p props lt lt').
    + intros x a a' _ Hx Hq. eapply IH; eauto.
    + exact Hl.
    + intros x Hx rid C. apply (Hn rid). apply in_flat_map. eauto.
  - apply (fold_untouched _ (fun x a => link_ns f src ns (seg_member here (fst x)) (snd x) a)
             (fun x => forall id, ~ In (p, (id, ns)) (refs_of f (seg_member here (fst x)) (snd x))) p types lt lt').
    + intros x a a' _ Hx Hq. eapply IH; eauto.
    + exact Hl.
    + intros x Hx rid C. apply (Hn rid). apply in_flat_map. eauto.
  - destruct (String.eqb ns0 ns) eqn:E; [|inversion Hl; auto].
    apply String.eqb_eq in E; subst ns0.
    destruct src as [[objs loc]|]; [|discriminate]. destruct (alookup id objs); [|discriminate].
    inversion Hl; subst. apply lt_get_set_other. intros C; subst. apply (Hn id); simpl; auto.
  - apply (fold_untouched _ (fun x a => link_ns f (if String.eqb ns "" then Some (objs, LScope here) else src) ns (seg_obj here (fst x)) (snd x) a)
             (fun x => forall id, ~ In (p, (id, ns)) (refs_of f (seg_obj here (fst x)) (snd x))) p objs lt lt').
    + intros x a a' _ Hx Hq. eapply IH; eauto.
    + exact Hl.
    + intros x Hx rid C. apply (Hn rid). apply in_flat_map. eauto.
Qed.

(* ---------- ValidateReferences iff every reference is linked ---------- *)

Lemma validate_refs_iff : forall fuel lt here s,
  validate_refs fuel lt here s = true <->
  (forall p id ns, In (p, (id, ns)) (refs_of fuel here s) -> lt_get p lt <> None).
Proof.
  induction fuel as [|f IH]; intros lt here s; [simpl; split; auto; intros _ p rid rns []|].
  destruct s; simpl; try (split; [intros _ p rid rns [] | auto]; fail).
  - apply IH.
  - rewrite andb_true_iff, !IH. split.
    + intros [H1 H2] p rid rns Hin. apply in_app_or in Hin. destruct Hin; eauto.
    + intros H; split; intros p rid rns Hin; apply (H p rid rns); apply in_or_app; auto.
  - rewrite forallb_forall. split.
    + intros H p rid rns Hin. apply in_flat_map in Hin. destruct Hin as [np [Hnp Hin]].
      apply (proj1 (IH _ _ _) (H np Hnp) p rid rns Hin).
    + intros H np Hnp. apply IH. intros p rid rns Hin. apply (H p rid rns). apply in_flat_map; eauto.
  - rewrite forallb_forall. split.
    + intros H p rid rns Hin. apply in_flat_map in Hin. destruct Hin as [np [Hnp Hin]].
      apply (proj1 (IH _ _ _) (H np Hnp) p rid rns Hin).
    + intros H np Hnp. apply IH. intros p rid rns Hin. apply (H p rid rns). apply in_flat_map; eauto.
  - split.
    + intros H p id0 ns0 [Heq|[]]. inversion Heq; subst. intros C; rewrite C in H; discriminate H.
    + intros H. specialize (H here id ns (or_introl eq_refl)). destruct (lt_get here lt); auto; try contradiction.
  - rewrite forallb_forall. split.
    + intros H p rid rns Hin. apply in_flat_map in Hin. destruct Hin as [np [Hnp Hin]].
      apply (proj1 (IH _ _ _) (H np Hnp) p rid rns Hin).
    + intros H np Hnp. apply IH. intros p rid rns Hin. apply (H p rid rns). apply in_flat_map; eauto.
Qed.

(* ---------- a reference behaves as the object it denotes (one unit of fuel less) ---------- *)

Section Ops.
Variable words : list (string * bool).
Variable pu : units -> string -> option fl.

Lemma inline_step_unser : forall f e id ns d o e' v,
  resolve e id ns = Some (o, e') ->
  unser words pu (S f) e (SRef id ns d) v = unser words pu f e' o v.
Proof. intros. simpl. rewrite H. reflexivity. Qed.
Lemma inline_step_validate : forall f e id ns d o e' v,
  resolve e id ns = Some (o, e') ->
  validate words pu (S f) e (SRef id ns d) v = validate words pu f e' o v.
Proof. intros. simpl. rewrite H. reflexivity. Qed.
Lemma inline_step_serialize : forall f e id ns d o e' v,
  resolve e id ns = Some (o, e') ->
  serialize words pu (S f) e (SRef id ns d) v = serialize words pu f e' o v.
Proof. intros. simpl. rewrite H. reflexivity. Qed.

(* a self-namespace reference resolves in the environment it occurs in: the inlined copy sits in the
   same scope, so its own references keep their meaning *)
Lemma resolve_self_env : forall e id o e', resolve e id "" = Some (o, e') -> e' = e /\ alookup id (e_self e) = Some o.
Proof.
  intros e id o e' H. unfold resolve in H. simpl in H.
  destruct (alookup id (e_self e)); inversion H; auto.
Qed.

(* D11: the one-property shorthand follows a self reference for ever on a non-map input *)
Variable o : oracles.
Let eA := env_enter (c15_env0 o) [("A", c15_recA)].
Let foo := VStr TStr "foo".

Lemma rec_unser_foo : forall fuel,
  unser words pu fuel eA c15_recA foo = OutOfFuel /\ unser words pu fuel eA (SRef "A" "" None) foo = OutOfFuel.
Proof.
  induction fuel as [|f [IH1 IH2]]; [split; reflexivity|].
  split.
  - change (unser words pu (S f) eA c15_recA foo) with
      (x <- seg "x" (unser words pu f eA (SRef "A" "" None) foo) ;;
       _ <- check_rules [("x", c15_prop (SRef "A" "" None))] (fun k => String.eqb k "x") ;;
       Ok (raw_to_val [("x", x)])).
    rewrite IH2; reflexivity.
  - change (unser words pu (S f) eA (SRef "A" "" None) foo) with (unser words pu f eA c15_recA foo).
    exact IH1.
Qed.

Lemma recursive_shorthand_diverges : forall fuel,
  unser words pu fuel (c15_env0 o) c15_rec_scope foo = OutOfFuel.
Proof.
  intros [|f]; [reflexivity|].
  change (unser words pu (S f) (c15_env0 o) c15_rec_scope foo) with (unser words pu f eA c15_recA foo).
  apply rec_unser_foo.
Qed.
End Ops.
