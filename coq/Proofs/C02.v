(* Proofs/C02.v — the statements of Properties/C02.v in their final form (wrappers around
   C02Scalars.v / C02Containers.v), the non-vacuity instances and the refutation witness. *)
From Coq Require Import Lia.
From Verif Require Import Base.Prelude Base.Str Base.Float Base.GoVal
  Schema.Regex Schema.Units Schema.FloatUnits Schema.Syntax Schema.Ops Schema.Spec
  Generated.Tables Proofs.C02Scalars Proofs.C02Containers.
Open Scope Z_scope.
Open Scope string_scope.

Section WithTables.
Variable words : list (string * bool).
Variable pu : units -> string -> option fl.

Lemma c02_int f e mn mx u v n : go_int v ->
  (unser words pu (S f) e (SInt mn mx u) v = Ok n <->
   exists z, n = vi64 z /\ int_denotes u v z /\ z_lower mn z /\ z_upper mx z).
Proof. exact (int_unser_iff mn mx u v n). Qed.

Lemma c02_float f e mn mx u v n :
  unser words pu (S f) e (SFloat mn mx u) v = Ok n <->
  exists x, n = vf64 x /\ float_denotes pu u v x /\ f_lower mn x /\ f_upper mx x.
Proof. exact (float_unser_iff pu mn mx u v n). Qed.

Lemma c02_string f e mn mx pat v n :
  unser words pu (S f) e (SString mn mx pat) v = Ok n <->
  exists t, n = vstr t /\ string_denotes v t /\ z_lower mn (blen t) /\ z_upper mx (blen t) /\ pat_ok pat t.
Proof. exact (string_unser_iff mn mx pat v n). Qed.

Lemma c02_bool f e v n : go_int v ->
  (unser words pu (S f) e SBool v = Ok n <-> exists b, n = vbool b /\ bool_denotes words v b).
Proof. exact (bool_unser_iff words v n). Qed.

Lemma c02_pattern f e v n :
  unser words pu (S f) e SPattern v = Ok n <->
  exists t, n = VRegexp t /\ string_denotes v t /\ o_re_ok (e_or e) t = true.
Proof. exact (pattern_unser_iff (e_or e) v n). Qed.

Lemma c02_enum_int f e vals u v n : go_int v ->
  (unser words pu (S f) e (SEnumInt vals u) v = Ok n <->
   exists z, n = vi64 z /\ int_denotes u v z /\ In z (map fst vals)).
Proof. exact (enum_int_unser_iff vals u v n). Qed.

Lemma c02_enum_str f e named vals v n :
  unser words pu (S f) e (SEnumStr named vals) v = Ok n <->
  exists t, n = VStr (str_enum_type named) t /\ string_denotes v t /\ In t (map fst vals).
Proof. exact (enum_str_unser_iff named vals v n). Qed.

Lemma c02_paths_agree s : c02_schema s -> forall f e n, (sdepth s + 1 < f)%nat -> native s n ->
  (validate words pu f e s n = Ok tt <-> sat s n) /\
  ((exists w, serialize words pu f e s n = Ok w) <-> sat s n).
Proof.
  intros Hc f e n Hf Hn. split.
  - apply validate_iff_sat; [exact Hc | lia | exact Hn].
  - apply serialize_iff_sat; assumption.
Qed.

Lemma c02_result_is_denotation s : c02_schema s -> maps_no_min s -> forall f e v n,
  (sdepth s < f)%nat -> go_val v -> unser words pu f e s v = Ok n ->
  accepts words pu e s v n /\ native s n /\ sat s n.
Proof.
  intros Hc Hm f e v n Hf Hg H. apply (unser_iff_accepts words pu s Hc f e v n Hf Hg) in H.
  split; [exact H | eapply accepts_native_sat; eassumption].
Qed.

End WithTables.

(* ---------- instances: the live tables, concrete schemas and values ---------- *)
Definition c02_env : env := mkEnv [] [] (mkOracles (fun _ => None) (fun s => String.eqb s "a+")).
Definition c02_unser := unser bool_words parse_units_float.
Definition c02_validate := validate bool_words parse_units_float.

Definition two63 : Z := 9223372036854775808.

(* a decimal string inside the bounds; the 2^63 edges in three representations *)
Example c02_int_accepts : c02_unser 1 c02_env (SInt (Some 3) (Some 10) None) (VStr TStr "7") = Ok (vi64 7).
Proof. vm_compute. reflexivity. Qed.
Example c02_int_max_u64 : c02_unser 1 c02_env (SInt None None None) (VInt (TInt U64) (two63 - 1)) = Ok (vi64 (two63 - 1)).
Proof. vm_compute. reflexivity. Qed.
Example c02_int_rejects_2_63 :
  is_err (c02_unser 1 c02_env (SInt None None None) (VInt (TInt U64) two63)) = true /\
  is_err (c02_unser 1 c02_env (SInt None None None) (VFloat TF64 (fl_of_Z b64 two63))) = true /\
  is_err (c02_unser 1 c02_env (SInt None None None) (VStr TStr "9223372036854775808")) = true /\
  c02_unser 1 c02_env (SInt None None None) (VFloat TF64 (fl_of_Z b64 (- two63))) = Ok (vi64 (- two63)).
Proof. vm_compute. repeat split; reflexivity. Qed.
Example c02_units_accepts :
  c02_unser 1 c02_env (SInt (Some 60) (Some 100000) (Some unit_duration_seconds)) (VStr TStr "5m30s") = Ok (vi64 330).
Proof. vm_compute. reflexivity. Qed.
Example c02_float_nan_rejected :
  is_err (c02_unser 1 c02_env (SFloat (Some (fl_of_Z b64 1)) (Some (fl_of_Z b64 2)) None) (VFloat TF64 FNaN)) = true /\
  is_err (c02_unser 1 c02_env (SFloat (Some (fl_of_Z b64 1)) None None) (VStr TStr "NaN")) = true /\
  c02_unser 1 c02_env (SFloat None None None) (VFloat TF64 FNaN) = Ok (vf64 FNaN).
Proof. vm_compute. repeat split; reflexivity. Qed.
Example c02_bool_word : c02_unser 1 c02_env SBool (VStr TStr "YES") = Ok (vbool true).
Proof. vm_compute. reflexivity. Qed.

Definition c02_nested : schema :=
  SMap (SString (Some 1) None None) (SList (SInt (Some 0) (Some 50) None) (Some 1) (Some 2)) None (Some 2).
Definition c02_nested_raw : gval :=
  VMap t_any_map false [(VStr TStr "k", VSlice t_any_slice false [VInt (TInt U8) 5; VStr TStr "7"])].
Example c02_nested_fragment : c02_schema c02_nested /\ maps_no_min c02_nested /\ go_val c02_nested_raw.
Proof. vm_compute. repeat split. Qed.
Example c02_nested_accepts :
  c02_unser 3 c02_env c02_nested c02_nested_raw =
  Ok (VMap (TMap TStr (TSlice (TInt I64))) false [(vstr "k", VSlice (TSlice (TInt I64)) false [vi64 5; vi64 7])]).
Proof. vm_compute. reflexivity. Qed.

(* the minimum size of a map is checked on the raw entries: two raw keys that denote the same
   native key collapse, and the accepted result violates the declared minimum (D19's consequence
   for C02; recorded as a known finding) *)
Definition c02_collide_schema : schema := SMap (SInt None None None) (SString None None None) (Some 2) None.
Definition c02_collide_raw : gval :=
  VMap t_any_map false [(VInt (TInt I64) 1, VStr TStr "a"); (VStr TStr "1", VStr TStr "b")].
Lemma c02_map_min_after_collision :
  exists n, c02_schema c02_collide_schema /\ go_val c02_collide_raw /\
    c02_unser 3 c02_env c02_collide_schema c02_collide_raw = Ok n /\
    is_err (c02_validate 3 c02_env c02_collide_schema n) = true.
Proof. exists (VMap (TMap (TInt I64) TStr) false [(vi64 1, vstr "b")]). vm_compute. repeat split. Qed.
