(* Proofs/C15Rebuilt.v — schema-mode ValidateCompatibility does not see what a description cannot carry.

   `compat_schema` on the erasures of receiver and argument (each in its erased environment) returns exactly
   what it returns on the originals — for every pair of schemas, every pair of environments, every fuel
   (`compat_schema_erase`).  Hence a schema and the schema rebuilt from its description (`erase s`,
   Proofs/C09Fixpoint.v) are interchangeable on either side of ValidateCompatibility, and with reflexivity
   (Proofs/Compat.v `compat_refl`) each is compatible with the other (`compat_rebuilt`). *)
From Coq Require Import Lia.
From Verif Require Import Base.Prelude Base.Str Base.Float Base.GoVal
  Schema.Regex Schema.Units Schema.Syntax Schema.Ops Schema.Compat Schema.Cbor Schema.Describe
  Proofs.DescribeBase Proofs.C09Describe Proofs.C09Fixpoint Proofs.C09Behaviour Proofs.C09Link Proofs.C09Transport Proofs.C09Behaviour2 Proofs.Compat.
Open Scope string_scope.

Lemma forallb_map_eq {A B} (p : B -> bool) (h : A -> B) l : forallb p (map h l) = forallb (fun x => p (h x)) l.
Proof. induction l as [|x t IH]; cbn; [reflexivity|]. rewrite IH. reflexivity. Qed.
Lemma forallb_ext_eq {A} (p q : A -> bool) l : (forall x, p x = q x) -> forallb p l = forallb q l.
Proof. intros H. induction l as [|x t IH]; cbn; [reflexivity|]. rewrite H, IH. reflexivity. Qed.

Lemma c15_rt_ok_erase : forall t e, c15_rt_ok (erase_env e) (erase t) = c15_rt_ok e t.
Proof.
  apply (schema_ind' (fun t => forall e, c15_rt_ok (erase_env e) (erase t) = c15_rt_ok e t));
    intros; cbn [erase c15_rt_ok]; try reflexivity.
  - apply H.
  - rewrite H, H0. reflexivity.
  - rewrite resolve_erase. destruct (resolve e id ns); reflexivity.
  - change (map (fun io : string * schema => let (i, o) := io in (i, erase o)) os) with (erase_tab os).
    rewrite alookup_erase_tab. destruct (alookup root os); reflexivity.
Qed.

Lemma c15_any_erase e t : c15_any (erase_env e) (erase t) = c15_any e t.
Proof. unfold c15_any. rewrite c15_rt_ok_erase. destruct t; reflexivity. Qed.

Definition erase_conv (c : c15_conv) : c15_conv :=
  match c with CvObj o e => CvObj (erase o) (erase_env e) | CvNot => CvNot | CvPanic => CvPanic end.

Lemma to_object_erase e t : c15_to_object (erase_env e) (erase t) = erase_conv (c15_to_object e t).
Proof.
  destruct t; try reflexivity.
  - cbn [erase]. unfold c15_to_object. rewrite resolve_erase. destruct (resolve e id ns) as [[o e']|]; reflexivity.
  - rewrite erase_scope. unfold c15_to_object. rewrite alookup_erase_tab.
    destruct (alookup root objs); reflexivity.
Qed.

Section Rebuilt.
Variable words : list (string * bool).
Variable pu : units -> string -> option fl.
Notation cs := (compat_schema words pu).

Lemma compat_schema_S f e1 s e2 t :
  cs (S f) e1 s e2 t =
    match s with
    | SInt mn mx _ =>
        match t with
        | SEnumInt _ _ => Ok tt
        | SInt omn omx _ => if c15_excl_Z mn mx omn omx then Err (cerr EBound) else Ok tt
        | _ => Err (cerr ERepr)
        end
    | SFloat mn mx _ =>
        match t with
        | SFloat omn omx _ => if c15_excl_F mn mx omn omx then Err (cerr EBound) else Ok tt
        | _ => Err (cerr ERepr)
        end
    | SString mn mx _ =>
        match t with
        | SEnumStr _ _ => Ok tt
        | SString omn omx _ => if c15_excl_Z mn mx omn omx then Err (cerr EBound) else Ok tt
        | _ => Err (cerr ERepr)
        end
    | SBool => match t with SBool => Ok tt | _ => Err (cerr ERepr) end
    | SPattern => match t with SPattern => Ok tt | _ => Err (cerr ERepr) end
    | SAny => c15_any e2 t
    | SEnumInt vals _ =>
        match t with
        | SEnumInt ovals _ => c15_enum_int vals ovals
        | SEnumStr _ _ => Err (cerr ERepr)
        | _ => Err (cerr ERepr)
        end
    | SEnumStr _ vals =>
        match t with
        | SEnumStr _ ovals => c15_enum_str vals ovals
        | SEnumInt _ _ => Err (cerr ERepr)
        | _ => Err (cerr ERepr)
        end
    | SList it mn mx =>
        match t with
        | SList oit omn omx =>
            if c15_excl_Z mn mx omn omx then Err (cerr EBound)
            else cs f e1 it e2 oit
        | _ => Err (cerr ERepr)
        end
    | SMap k v mn mx =>
        match t with
        | SMap ok ov omn omx =>
            _ <- rewrap true (cs f e1 k e2 ok) ;;
            _ <- rewrap true (cs f e1 v e2 ov) ;;
            if c15_excl_Z mn mx omn omx then Err (cerr EBound) else Ok tt
        | _ => Err (cerr ERepr)
        end
    | SObject id unenf props =>
        match c15_to_object e2 t with
        | CvPanic => Panic "unlinked reference / missing root in the argument"
        | CvNot =>
            _ <- rewrap true (unser words pu f e1 s c15_schema_ptr) ;; Ok tt
        | CvObj (SObject oid ounenf oprops) eo =>
            if negb ounenf && negb unenf && negb (String.eqb oid id) then Err (cerr EOther)
            else
              _ <- forM_ (fun np => match alookup (fst np) props with
                                    | None => Err (cerr EKey)
                                    | Some p => seg (fst np) (cs f e1 (p_type p) eo (p_type (snd np)))
                                    end) oprops ;;
              forM_ (fun np => if p_required (snd np) && negb (amem (fst np) oprops)
                               then Err (cerr EPresence) else Ok tt) props
        | CvObj _ _ => Panic "object table entry is not an object"
        end
    | SOneOf types ik field _ =>
        match t with
        | SOneOf otypes oik ofield _ =>
            if negb (Bool.eqb ik oik) then Err (cerr ERepr)
            else if negb (String.eqb ofield field) then Err (cerr EOther)
            else forM_ (fun km => match find (fun ks => okey_eqb (fst ks) (fst km)) otypes with
                                  | None => Err (cerr EKey)
                                  | Some (_, om) => rewrap true (cs f e1 (snd km) e2 om)
                                  end) types
        | _ => Err (cerr ERepr)
        end
    | SRef id ns _ =>
        match resolve e1 id ns with
        | None => Panic "unlinked reference"
        | Some (o, e1') =>
            match t with
            | SRef id2 ns2 _ =>
                match resolve e2 id2 ns2 with
                | Some (o2, e2') => cs f e1' o e2' o2
                | None => compat words pu f e1' o VNil
                end
            | _ => cs f e1' o e2 t
            end
        end
    | SScope objs root =>
        match alookup root objs with
        | None => Panic "root object not found"
        | Some o =>
            match t with
            | SScope objs2 root2 =>
                match alookup root2 objs2 with
                | Some o2 => cs f (env_enter e1 objs) o (env_enter e2 objs2) o2
                | None => Panic "nil *ObjectSchema"
                end
            | _ => cs f (env_enter e1 objs) o e2 t
            end
        end
    end.
Proof. reflexivity. Qed.

(* the induction hypothesis, applied by reading the four arguments off the right-hand side *)
Ltac by_IH IH :=
  match goal with
  | |- _ = compat_schema _ _ _ ?a ?b ?c ?d => exact (IH a b c d)
  end.

Theorem compat_schema_erase : forall f e1 s e2 t,
  cs f (erase_env e1) (erase s) (erase_env e2) (erase t) = cs f e1 s e2 t.
Proof.
  induction f as [|f IH]; intros e1 s e2 t; [reflexivity|].
  rewrite !compat_schema_S. destruct s.
  - destruct t; reflexivity.
  - destruct t; reflexivity.
  - destruct t; reflexivity.
  - destruct t; reflexivity.
  - destruct t; reflexivity.
  - apply c15_any_erase.
  - destruct t; reflexivity.
  - destruct t; reflexivity.
  - (* list *)
    destruct t; try reflexivity. cbn [erase].
    destruct (c15_excl_Z mn mx mn0 mx0); [reflexivity|]. apply IH.
  - (* map *)
    destruct t; try reflexivity. cbn [erase]. rewrite !IH. reflexivity.
  - (* object *)
    rewrite erase_object. cbv beta iota. rewrite to_object_erase.
    destruct (c15_to_object e2 t) as [o eo| |]; cbn [erase_conv]; [| |reflexivity].
    + destruct o; try reflexivity. rewrite erase_object.
      destruct (negb unenforced0 && negb unenforced && negb (String.eqb id0 id)); [reflexivity|].
      apply bind_ext.
      * rewrite forM_map. apply forM_ext. intros np. rewrite fst_erase_prop, alookup_erase_props2.
        change property with (property_ schema) in *.
        destruct (alookup (fst np) props) as [p|]; [|reflexivity]. cbn [option_map].
        destruct np as [n q]. rewrite !p_type_erase. cbn [fst]. rewrite IH. reflexivity.
      * intros _. rewrite forM_map. apply forM_ext. intros np. rewrite fst_erase_prop, amem_erase_props2.
        change property with (property_ schema) in *.
        destruct np as [n q]. rewrite p_required_erase. reflexivity.
    + rewrite <- erase_object. rewrite unser_erase. reflexivity.
  - (* one-of *)
    destruct t; try reflexivity. cbn [erase].
    destruct (negb (Bool.eqb int_keys int_keys0)); [reflexivity|].
    destruct (negb (String.eqb field0 field)); [reflexivity|].
    rewrite forM_map. apply forM_ext. intros [k m]. cbn [fst snd].
    rewrite (find_erase (fun k' => okey_eqb k' k)).
    destruct (find (fun ks : okey * schema => okey_eqb (fst ks) k) types0) as [[k' om]|]; [|reflexivity].
    cbn [option_map fst snd]. rewrite IH. reflexivity.
  - (* ref *)
    cbn [erase]. rewrite resolve_erase. destruct (resolve e1 id ns) as [[o e1']|]; [|reflexivity].
    cbn [option_map fst snd].
    destruct t; try by_IH IH.
    cbn [erase]. rewrite resolve_erase. destruct (resolve e2 id0 ns0) as [[o2 e2']|]; cbn [option_map fst snd].
    + apply IH.
    + apply compat_erase.
  - (* scope *)
    rewrite erase_scope. cbv beta iota. rewrite alookup_erase_tab.
    destruct (alookup root objs) as [o|]; [|reflexivity]. cbn [option_map].
    destruct t; try by_IH IH.
    rewrite erase_scope. rewrite alookup_erase_tab.
    destruct (alookup root0 objs0) as [o2|]; [|reflexivity]. cbn [option_map]. by_IH IH.
Qed.

(* in ANY environments: erasing either side (or both) changes nothing *)
Corollary compat_schema_erase_r : forall f e1 s e2 t, cs f e1 s e2 (erase t) = cs f e1 s e2 t.
Proof.
  intros. rewrite <- (compat_schema_erase f e1 s e2 (erase t)), erase_idem. apply compat_schema_erase.
Qed.
Corollary compat_schema_erase_l : forall f e1 s e2 t, cs f e1 (erase s) e2 t = cs f e1 s e2 t.
Proof.
  intros. rewrite <- (compat_schema_erase f e1 (erase s) e2 t), erase_idem. apply compat_schema_erase.
Qed.

Corollary compat_schema_erase_all : forall f e1 s e2 t,
  cs f e1 (erase s) e2 t = cs f e1 s e2 t
  /\ cs f e1 s e2 (erase t) = cs f e1 s e2 t
  /\ cs f (erase_env e1) (erase s) (erase_env e2) (erase t) = cs f e1 s e2 t.
Proof.
  intros. split; [apply compat_schema_erase_l | split; [apply compat_schema_erase_r | apply compat_schema_erase]].
Qed.

(* every well-formed schema with non-empty ranges is compatible with its erasure, both ways *)
Theorem compat_rebuilt : forall n fuel e s,
  c15_wf n e s = true -> (n <= fuel)%nat ->
  cs fuel e s e (erase s) = Ok tt /\ cs fuel e (erase s) e s = Ok tt.
Proof.
  intros n fuel e s Hw Hf. rewrite compat_schema_erase_r, compat_schema_erase_l.
  split; apply (compat_refl words pu n); assumption.
Qed.

(* ... and stays well-formed (the rebuilt schema satisfies the hypothesis of C15_reflexive itself) *)
Lemma c15_wf_erase : forall n e s, c15_wf n (erase_env e) (erase s) = c15_wf n e s.
Proof.
  induction n as [|n IH]; intros e s; [reflexivity|].
  destruct s; try reflexivity.
  - cbn [erase c15_wf]. rewrite IH. reflexivity.
  - cbn [erase c15_wf]. rewrite !IH. reflexivity.
  - rewrite erase_object. cbn [c15_wf]. rewrite map_map.
    f_equal.
    + f_equal. apply map_ext. intros np. apply fst_erase_prop.
    + rewrite forallb_map_eq. apply forallb_ext_eq. intros [k p]. rewrite p_type_erase. apply IH.
  - cbn [erase c15_wf]. rewrite map_map. f_equal.
    + f_equal. apply map_ext. intros [k m]. reflexivity.
    + rewrite forallb_map_eq. apply forallb_ext_eq. intros [k m]. cbn [snd]. rewrite IH.
      destruct m; reflexivity.
  - cbn [erase c15_wf]. rewrite resolve_erase. destruct (resolve e id ns) as [[o e']|]; [|reflexivity].
    cbn [option_map fst snd]. rewrite IH. destruct o; reflexivity.
  - rewrite erase_scope. cbn [c15_wf]. rewrite alookup_erase_tab.
    destruct (alookup root objs) as [o|]; [|reflexivity]. cbn [option_map].
    change (env_enter (erase_env e) (erase_tab objs)) with (erase_env (env_enter e objs)).
    rewrite IH. destruct o; reflexivity.
Qed.

End Rebuilt.

(* ---------- with the rebuild of C09: a schema and the schema rebuilt from its own description ---------- *)
Section RebuiltTop.
Variable words : list (string * bool).
Variable pu : units -> string -> option fl.
Variable cu : units.
Variable rp : string -> option re.
Variable jor : oracles.
Notation cs := (compat_schema words pu).

Lemma rebuild_is_erase os root :
  describable (SScope os root) = true ->
  (forall p, In p (pats_of (SScope os root)) -> rp (fst p) = Some (snd p)) ->
  link_ok jor [] (SScope os root) = true ->
  rebuild words pu cu rp jor (describe (SScope os root)) = Ok (erase (SScope os root)).
Proof.
  intros Hd Hp Hl. rewrite <- link_ok_erase_top in Hl.
  apply rebuild_describe; [split; assumption | assumption].
Qed.

Theorem compat_reflexive_rebuilt : forall n fuel e os root,
  let s := SScope os root in
  describable s = true ->
  (forall p, In p (pats_of s) -> rp (fst p) = Some (snd p)) ->
  link_ok jor [] s = true ->
  c15_wf n e s = true -> (n <= fuel)%nat ->
  exists s', rebuild words pu cu rp jor (describe s) = Ok s'
             /\ cs fuel e s e s' = Ok tt /\ cs fuel e s' e s = Ok tt /\ cs fuel e s' e s' = Ok tt.
Proof.
  intros n fuel e os root s Hd Hp Hl Hw Hf. exists (erase s). split; [apply rebuild_is_erase; assumption|].
  destruct (compat_rebuilt words pu n fuel e s Hw Hf) as [H1 H2]. repeat split; try assumption.
  rewrite compat_schema_erase_r. exact H2.
Qed.

(* the same when the description travelled as CBOR (the ATP hello message): the CBOR normal form of a
   description is rebuilt to the same schema (Proofs/C09Transport.v) *)
Theorem compat_reflexive_rebuilt_cbor : forall k n fuel e os root,
  let s := SScope os root in
  describable s = true ->
  (forall p, In p (pats_of s) -> rp (fst p) = Some (snd p)) ->
  link_ok jor [] s = true ->
  c15_wf n e s = true -> (n <= fuel)%nat ->
  exists s', rebuild words pu cu rp jor (cbor_norm k (describe s)) = Ok s'
             /\ cs fuel e s e s' = Ok tt /\ cs fuel e s' e s = Ok tt /\ cs fuel e s' e s' = Ok tt.
Proof.
  intros k n fuel e os root s Hd Hp Hl Hw Hf. rewrite rebuild_describe_cbor.
  apply (compat_reflexive_rebuilt n fuel e os root); assumption.
Qed.

(* the rebuilt schema can replace the original on either side of ANY compatibility check *)
Theorem compat_rebuilt_interchangeable : forall os root,
  let s := SScope os root in
  describable s = true ->
  (forall p, In p (pats_of s) -> rp (fst p) = Some (snd p)) ->
  link_ok jor [] s = true ->
  exists s', rebuild words pu cu rp jor (describe s) = Ok s'
             /\ forall fuel e1 e2 t, cs fuel e1 s' e2 t = cs fuel e1 s e2 t /\ cs fuel e1 t e2 s' = cs fuel e1 t e2 s.
Proof.
  intros os root s Hd Hp Hl. exists (erase s). split; [apply rebuild_is_erase; assumption|].
  intros. split; [apply compat_schema_erase_l | apply compat_schema_erase_r].
Qed.
End RebuiltTop.

(* ---------- a non-trivial instance: every kind, five properties with TreatEmptyAsDefaultValue ---------- *)
Definition c15r_words : list (string * bool) := [("true", true); ("false", false)].
Definition c15r_pu : units -> string -> option fl := fun _ _ => None.
Definition c15r_cu : units := mkUnits (mkUnit "char" "chars" "character" "characters") [].
Definition c15r_pat : string * re := ("^[a-z]+$", Cat Bol (Cat (plus (Cls false [("a"%char, "z"%char)])) Eol)).
Definition c15r_rp : string -> option re := fun src => if String.eqb src (fst c15r_pat) then Some (snd c15r_pat) else None.
Definition c15r_jor : oracles := mkOracles (fun txt => if String.eqb txt "5" then Some (vi64 5) else None) (fun _ => true).
Definition c15r_disp : display := mkDisplay (Some "Name") (Some "text") None.
Definition c15r_empty (t : schema) : property := mkProp t None false [] [] [] None [] true false None.
Definition c15r_scope : schema :=
  SScope
    [("A", SObject "A" false
       [("n", mkProp (SInt (Some 1) (Some 10) None) (Some c15r_disp) true [] [] [] (Some "5") [] true false None);
        ("f", c15_prop (SFloat None None None));
        ("s", c15r_empty (SString (Some 1) (Some 8) (Some c15r_pat)));
        ("b", c15_prop SBool); ("p", c15_prop SPattern); ("x", c15_prop SAny);
        ("e", c15_prop (SEnumInt [(1, Some c15r_disp); (2, Some (mkDisplay None None None))] None));
        ("g", c15_prop (SEnumStr None [("x", Some c15r_disp); ("y", Some (mkDisplay None None None))]));
        ("l", c15_prop (SList (SRef "B" "" None) (Some 0) (Some 3)));
        ("m", c15_prop (SMap (SString (Some 1) None None) (SRef "B" "" None) None (Some 4)));
        ("o", c15_prop (SOneOf [(KS "a", SRef "B" "" None); (KS "b", SObject "inl" true [("q", c15r_empty SBool)])] false "kind" false));
        ("nested", c15_prop (SScope [("N", SObject "N" false [("r", c15r_empty (SInt None None None))])] "N"))]);
     ("B", SObject "B" true [("t", c15r_empty (SString None None None))])]
    "A".

Example c15r_hypotheses :
  let e := c15_env0 c15r_jor in
  describable c15r_scope = true /\ link_ok c15r_jor [] c15r_scope = true
  /\ forallb (fun p => match c15r_rp (fst p) with Some r => true | None => false end) (pats_of c15r_scope) = true
  /\ c15_wf 6 e c15r_scope = true.
Proof. repeat split; vm_compute; reflexivity. Qed.

(* the flag of the first property of the first object of a scope: enough to tell s from its rebuild here *)
Definition first_flag (s : schema) : bool :=
  match s with
  | SScope ((_, SObject _ _ ((_, p) :: _)) :: _) _ => p_empty_is_default p
  | _ => false
  end.
Definition schema_differs (a b : schema) : bool := negb (Bool.eqb (first_flag a) (first_flag b)).

(* the rebuilt schema really differs from the original, is what `rebuild` returns, and the verdicts are Ok *)
Example c15r_instance :
  let e := c15_env0 c15r_jor in
  match rebuild c15r_words c15r_pu c15r_cu c15r_rp c15r_jor (describe c15r_scope) with
  | Ok s' =>
      s' = erase c15r_scope
      /\ (if schema_differs s' c15r_scope then True else False)
      /\ compat_schema c15r_words c15r_pu 6 e c15r_scope e s' = Ok tt
      /\ compat_schema c15r_words c15r_pu 6 e s' e c15r_scope = Ok tt
  | _ => False
  end.
Proof. vm_compute. repeat split; reflexivity. Qed.
