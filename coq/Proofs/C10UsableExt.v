(* Proofs/C10UsableExt.v — C10_usable for a scope that still refers to OTHER namespaces.

   UnserializeScope links the references of the self namespace only; a reference into another namespace is
   returned unlinked (and a one-of member that is such a reference is not checked against the inline flag yet)
   and the caller applies that namespace later (ScopeSchema.ApplyNamespace), exactly as for a scope built in
   code.  In the model the applied namespaces are the `e_ext` component of the resolution environment
   (Schema/Syntax.v `resolve`).  This file proves: if the loader accepts a description, then in EVERY
   environment whose applied namespaces are themselves usable (`all_env use_local`) and in which the foreign
   references of the scope are in order (`all_nodes ext_ok`: each resolves to an object, and where it is a
   one-of member it passes the member check ApplyNamespace performs at that moment), the scope is wf_use,
   hence every operation on it is total in the sense of C04.  With no namespace applied and no foreign
   reference this is c10_usable of Proofs/C10Usable.v. *)
From Coq Require Import Lia.
From Verif Require Import Base.Prelude Base.Str Base.Float Base.GoVal
  Schema.Regex Schema.Units Schema.Syntax Schema.Ops Schema.Wf Schema.Total Schema.Describe
  Proofs.C04Inv Proofs.C04Main Proofs.C10Total Proofs.C10Shape Proofs.C10UseNoPanic Proofs.C10UseMain Proofs.C10Usable.
Open Scope string_scope.

(* what the caller owes for the references into other namespaces, in the environment of use *)
Definition ext_ok (e : env) (s : schema) : bool :=
  match s with
  | SRef id ns _ =>
      String.eqb ns "" || match resolve e id ns with Some (o, _) => is_obj o | None => false end
  | SOneOf types ik fld inld =>
      forallb (fun km => match snd km with
                         | SRef _ ns _ => String.eqb ns "" || Wf.wf_member e ik fld inld km
                         | _ => true
                         end) types
  | _ => true
  end.

(* applying namespaces does not disturb what the link step established for the members it checked *)
Lemma wf_member_ext_mono jor ext X ik fld inl m :
  member_pending m = false ->
  Describe.wf_member (mkEnv X [] jor) ik fld inl m = true -> Describe.wf_member (mkEnv X ext jor) ik fld inl m = true.
Proof.
  unfold Describe.wf_member. destruct m; cbn [member_pending]; try (intros _ H; exact H).
  intros Hp. apply Bool.negb_false_iff in Hp.
  unfold member_pending_in, wf_member_props, resolve. cbn [e_self e_ext]. rewrite Hp. cbn [negb andb orb].
  destruct (alookup id X) as [o|]; intros H; exact H.
Qed.

Lemma c10_pending_cases m :
  (exists id ns d, m = SRef id ns d /\ String.eqb ns "" = false) \/ member_pending m = false.
Proof.
  destruct m; try (right; reflexivity). cbn [member_pending].
  destruct (String.eqb ns "") eqn:E; [right; reflexivity | left; eauto].
Qed.

Lemma c10_not_pending_in e m : member_pending m = false -> member_pending_in e m = false.
Proof. destruct m; try reflexivity. cbn [member_pending member_pending_in]. intros ->. reflexivity. Qed.

Lemma use_of_wf_in_ext jor ext : forall s X,
  tab_objs X = true ->
  wf_in (mkEnv X [] jor) s = true -> shape s = true -> all_nodes ext_ok (mkEnv X ext jor) s = true ->
  all_nodes use_local (mkEnv X ext jor) s = true.
Proof.
  induction s using C04Inv.schema_ind'; intros X Ht Hw Hs Hf.
  - (* leaves *)
    destruct s; try discriminate; cbn [all_nodes use_local wf_local]; try reflexivity.
    + cbn [shape] in Hs. rewrite Hs. reflexivity.
    + cbn [shape] in Hs. rewrite Hs. reflexivity.
    + cbn [all_nodes ext_ok] in Hf. rewrite Bool.andb_true_r in *. cbn [wf_in] in Hw.
      destruct (String.eqb ns "") eqn:En.
      * unfold resolve in *. rewrite En in *. cbn [e_self] in *.
        destruct (alookup id X) as [o|] eqn:El; [|discriminate].
        unfold tab_objs in Ht. rewrite forallb_forall in Ht. apply alookup_in in El. exact (Ht _ El).
      * exact Hf.
  - (* list *)
    cbn [all_nodes use_local wf_local andb]. cbn [wf_in] in Hw. cbn [shape] in Hs. cbn [all_nodes ext_ok andb] in Hf.
    apply IHs; assumption.
  - (* map *)
    cbn [all_nodes use_local wf_local]. cbn [wf_in] in Hw. cbn [shape] in Hs. cbn [all_nodes ext_ok andb] in Hf.
    apply andb_prop in Hw as [Hw1 Hw2]. apply andb_prop in Hs as [Hs Hs2]. apply andb_prop in Hs as [Hk Hs1].
    apply andb_prop in Hf as [Hf1 Hf2].
    rewrite Hk, (IHs1 X), (IHs2 X); auto.
  - (* object *)
    cbn [all_nodes use_local wf_local]. cbn [wf_in] in Hw. cbn [shape] in Hs. cbn [all_nodes ext_ok andb] in Hf.
    cbn [e_or] in *.
    apply andb_prop in Hw as [Hw1 Hw2]. apply andb_prop in Hs as [Hn Hs].
    rewrite forallb_forall in Hw1, Hw2, Hs, Hf.
    rewrite Forall_forall in H.
    rewrite Hn. cbn [andb]. apply andb_true_intro. split; apply forallb_forall; intros np Hin.
    + specialize (Hw1 np Hin). destruct np as [n p]. exact Hw1.
    + specialize (Hw2 np Hin). specialize (Hs np Hin). specialize (Hf np Hin). specialize (H np Hin).
      destruct np as [n p]. destruct p as [t ? ? ? ? ? ? ? ? ? ?]. cbn [snd Syntax.p_type] in *. apply H; assumption.
  - (* one-of *)
    cbn [all_nodes use_local wf_local]. cbn [wf_in] in Hw. cbn [shape] in Hs. cbn [all_nodes ext_ok] in Hf.
    apply andb_prop in Hw as [Hw1 Hw2]. apply andb_prop in Hs as [Hn Hs]. apply andb_prop in Hf as [Hfm Hf].
    rewrite forallb_forall in Hw1, Hw2, Hs, Hf, Hfm.
    rewrite Forall_forall in H.
    rewrite Hn. cbn [andb]. apply andb_true_intro. split; apply forallb_forall; intros km Hin.
    + specialize (Hw2 km Hin). specialize (Hs km Hin). specialize (Hfm km Hin). destruct km as [k m].
      cbn [fst snd] in *.
      destruct (c10_pending_cases m) as [(id & ns & d & -> & En) | Hp].
      * rewrite En in Hfm. exact Hfm.
      * rewrite c10_wf_member_eq by (apply c10_not_pending_in; exact Hp).
        apply andb_prop in Hs as [Hs _]. rewrite Hs. cbn [andb]. apply wf_member_ext_mono; assumption.
    + specialize (Hw1 km Hin). specialize (Hs km Hin). specialize (Hf km Hin). specialize (H km Hin).
      destruct km as [k m]. cbn [fst snd] in *. apply andb_prop in Hs as [_ Hs]. apply H; assumption.
  - (* scope *)
    cbn [all_nodes use_local]. cbn [wf_in] in Hw. cbn [shape] in Hs. cbn [all_nodes ext_ok andb] in Hf.
    cbn [env_enter e_ext e_or] in *.
    apply andb_prop in Hw as [Hr Hw]. apply andb_prop in Hs as [Hn Hs].
    assert (Hobjs : tab_objs objs = true).
    { unfold tab_objs. apply forallb_forall. intros io Hin. rewrite forallb_forall in Hs.
      specialize (Hs io Hin). apply andb_prop in Hs. tauto. }
    assert (Hroot : amem root objs = true).
    { unfold root_ok in Hr. unfold amem. destruct (alookup root objs); [reflexivity | discriminate]. }
    rewrite forallb_forall in Hw, Hs, Hf.
    rewrite Forall_forall in H.
    rewrite Hn, Hroot. pose proof Hobjs as Hobjs'. unfold tab_objs in Hobjs'. rewrite Hobjs'. cbn [andb].
    apply forallb_forall. intros io Hin.
    specialize (Hw io Hin). specialize (Hs io Hin). specialize (Hf io Hin). specialize (H io Hin).
    destruct io as [i o]. cbn [fst snd] in *. apply andb_prop in Hs as [_ Hs].
    apply H; assumption.
Qed.

Theorem c10_wf_use_ext jor ext s :
  c10_wf jor s = true -> shape s = true ->
  all_env use_local (mkEnv [] ext jor) = true -> all_nodes ext_ok (mkEnv [] ext jor) s = true ->
  wf_use (mkEnv [] ext jor) s = true.
Proof.
  intros Hw Hs He Hf. unfold wf_use. rewrite He. cbn [andb].
  apply use_of_wf_in_ext; [reflexivity | exact Hw | exact Hs | exact Hf].
Qed.

Section UsableExt.
Variable words : list (string * bool).
Variable pu : units -> string -> option fl.
Variable cu : units.
Variable rp : string -> option re.
Variable jor : oracles.

(* UnserializeScope, then the caller's namespaces *)
Theorem c10_usable_ext : forall (d : gval) (s : schema) (ext : list (string * objtab)),
  rebuild words pu cu rp jor d = Ok s ->
  all_env use_local (mkEnv [] ext jor) = true -> all_nodes ext_ok (mkEnv [] ext jor) s = true ->
  (forall f v w,
     unser words pu f (mkEnv [] ext jor) s v <> Panic w /\ validate words pu f (mkEnv [] ext jor) s v <> Panic w /\
     serialize words pu f (mkEnv [] ext jor) s v <> Panic w /\ compat words pu f (mkEnv [] ext jor) s v <> Panic w)
  /\
  (forall K, no_inline_cycle (mkEnv [] ext jor) s = true -> defaults_total words pu K (mkEnv [] ext jor) s = true ->
     forall v f, (fuel_bound K (mkEnv [] ext jor) s v <= f)%nat ->
       unser words pu f (mkEnv [] ext jor) s v <> OutOfFuel /\ validate words pu f (mkEnv [] ext jor) s v <> OutOfFuel /\
       serialize words pu f (mkEnv [] ext jor) s v <> OutOfFuel /\ compat words pu f (mkEnv [] ext jor) s v <> OutOfFuel).
Proof.
  intros d s ext E He Hf.
  assert (Hwf : wf_use (mkEnv [] ext jor) s = true).
  { apply c10_wf_use_ext; [|eapply shape_rebuild; exact E | exact He | exact Hf].
    pose proof (rebuild_total words pu cu rp jor d) as H. rewrite E in H. exact H. }
  split.
  - apply use_never_panics. exact Hwf.
  - intros K Hn Hd v f Hb. apply all_total_no_fuel_out. eapply use_all_total; eauto.
Qed.
End UsableExt.

(* with nothing applied and no foreign reference the hypotheses of c10_usable_ext hold trivially: it generalises
   c10_usable *)
Lemma ext_ok_of_no_foreign : forall s e, foreign_refs s = false -> all_nodes ext_ok e s = true.
Proof.
  induction s using C04Inv.schema_ind'; intros e Hf.
  - destruct s; try discriminate; try reflexivity.
    cbn [foreign_refs] in Hf. apply Bool.negb_false_iff in Hf. cbn [all_nodes ext_ok]. rewrite Hf. reflexivity.
  - cbn [all_nodes ext_ok andb]. cbn [foreign_refs] in Hf. apply IHs. exact Hf.
  - cbn [all_nodes ext_ok andb]. cbn [foreign_refs] in Hf. apply Bool.orb_false_elim in Hf as [H1 H2].
    rewrite (IHs1 e H1), (IHs2 e H2). reflexivity.
  - cbn [all_nodes ext_ok andb]. cbn [foreign_refs] in Hf. pose proof (c10_existsb_false _ _ Hf) as Hf'.
    rewrite Forall_forall in H. apply forallb_forall. intros np Hin.
    specialize (Hf' np Hin). specialize (H np Hin). destruct np as [n p]. destruct p as [t ? ? ? ? ? ? ? ? ? ?].
    cbn [snd Syntax.p_type] in *. apply H. exact Hf'.
  - cbn [all_nodes ext_ok]. cbn [foreign_refs] in Hf. pose proof (c10_existsb_false _ _ Hf) as Hf'.
    rewrite Forall_forall in H. apply andb_true_intro. split; apply forallb_forall; intros km Hin.
    + specialize (Hf' km Hin). destruct km as [k m]. cbn [snd] in *. destruct m; try reflexivity.
      cbn [foreign_refs] in Hf'. apply Bool.negb_false_iff in Hf'. rewrite Hf'. reflexivity.
    + specialize (Hf' km Hin). specialize (H km Hin). destruct km as [k m]. cbn [snd] in *. apply H. exact Hf'.
  - cbn [all_nodes ext_ok andb]. cbn [foreign_refs] in Hf. pose proof (c10_existsb_false _ _ Hf) as Hf'.
    rewrite Forall_forall in H. apply forallb_forall. intros io Hin.
    specialize (Hf' io Hin). specialize (H io Hin). destruct io as [i o]. cbn [snd] in *. apply H. exact Hf'.
Qed.

(* the witness of c10_scope_foreign_ref_refuted becomes usable once its namespace is applied; and a one-of with
   a member in another namespace (accepted by UnserializeScope since the member is not checked yet) *)
Definition u_other_ns : list (string * objtab) :=
  [("other", [("B", SObject "B" false [("n", mkProp SAny None false [] [] [] None [] false false None)])])].
Definition u_foreign_member : gval :=
  u_scope "A" [(vstr "A", u_obj "A" [(vstr "x", u_prop (dobj [("type_id", vstr "one_of_string");
                   ("discriminator_field_name", vstr "kind");
                   ("types", dmap [(vstr "a", u_ref "A" ""); (vstr "b", u_ref "B" "other")])]) None);
                                     (vstr "y", u_prop (dobj [("type_id", vstr "bool")]) None)])].

(* a namespace in which object B declares the field "kind" *)
Definition u_other_ns_bad : list (string * objtab) :=
  [("other", [("B", SObject "B" false [("kind", mkProp (SString None None None) None false [] [] [] None [] false false None)])])].

Section ExtWitness.
Variable words : list (string * bool).
Variable pu : units -> string -> option fl.
Variable cu : units.
Variable rp : string -> option re.

Theorem c10_foreign_member_accepted : forall jor,
  exists s, rebuild words pu cu rp jor u_foreign_member = Ok s /\ c10_wf jor s = true /\
            all_nodes ext_ok (mkEnv [] u_other_ns_bad jor) s = false /\
            all_nodes ext_ok (mkEnv [] u_other_ns jor) s = true.
Proof. intros jor. eexists. split; [vm_compute; reflexivity|]. repeat split; vm_compute; reflexivity. Qed.
End ExtWitness.
