(* Proofs/C05System.v — SAFETY of the composition ATP/System.v (client model x server model x the two FIFO streams):
   in every reachable state of the composed system, for every schedule, every number of overlapping calls, every
   behaviour oracle, a result that Execute number i has returned IS `spec_callstep` of call i's own input.

   The invariant is the conjunction of
     the client model's invE (Proofs/ATPClientInv.v: entries <-> callers),
     invS (Proofs/C05Client.v: results are routed by run id as long as the stream carries only messages the server may
           send; everything the client writes carries its caller's run id and input),
     OrigInv (Proofs/C05Server.v: the server executes the session's calls under their own run ids, and what it puts on
           its output is the terminal message of one of the calls or a non-fatal error report),
   tied together by `srv_emits_ok`: the wire form of what a server step appends to its output satisfies okm. *)
From Coq Require Import Lia.
From Verif Require Import Base.Prelude Base.Str ATP.Msg ATP.System.
From Verif Require Proofs.ATPClient Proofs.ATPClientInv Proofs.ATPClientFinal Proofs.ServerInv Proofs.Server
  Proofs.ServerRoute Proofs.C05Vocab Proofs.C05Client Proofs.C05Server.
Local Open Scope string_scope.
Local Open Scope list_scope.
Local Open Scope nat_scope.

Module CI := Verif.Proofs.ATPClientInv.
Module CF := Verif.Proofs.ATPClientFinal.
Module CC := Verif.Proofs.C05Client.
Module CS := Verif.Proofs.C05Server.
Module SI := Verif.Proofs.ServerInv.

Lemma skipn_len_app {A} : forall (l x : list A), skipn (List.length l) (l ++ x) = x.
Proof. induction l as [|a l IH]; intros x; simpl; auto. Qed.

Lemma skipn_len_self {A} : forall (l : list A), skipn (List.length l) l = [].
Proof. induction l as [|a l IH]; simpl; auto. Qed.

Section C05System.
Variable g : scfg.
Variable callspecs : list (C.callspec Z).
Variable close : bool.

Definition cv2 (c : C.caller Z) : runid * Z := (C.c_run c, C.c_input c).
Definition calls : list (runid * Z) := map (fun x => (C.cs_run x, C.cs_input x)) callspecs.

Hypothesis runs_named : forall x, In x callspecs -> C.cs_run x <> "".
Hypothesis session_wf : CI.wf_session (sys_session callspecs close).

Lemma calls_named : forall r t, In (r, t) calls -> r <> "".
Proof.
  intros r t H. unfold calls in H. apply in_map_iff in H. destruct H as (x & E & Hx). injection E as <- _. auto.
Qed.

Lemma calls_nodup : NoDup (map fst calls).
Proof.
  destruct session_wf as [N _]. cbn in N. unfold calls. rewrite map_map. cbn. exact N.
Qed.

(* the terminal message the server owes run r for input t *)
Definition tmsg (r : runid) (t : Z) : msg Z :=
  match S.step_outcome (sc_srv g) "s" t with
  | S.BSuccess o => WorkDone r "s" o (sc_data g t) ""
  | _ => ErrMsg r true false
  end.

Lemma tmsg_spec : forall r t,
  (exists o d, tmsg r t = WorkDone r "s" o d "" /\ spec_callstep g t = C.ROk o d) \/
  (tmsg r t = ErrMsg r true false /\ spec_callstep g t = C.RErr C.ErrStep).
Proof.
  intros r t. unfold tmsg, spec_callstep. destruct (S.step_outcome (sc_srv g) "s" t); eauto.
Qed.

Notation invS := (CC.invS calls (spec_callstep g) tmsg).
Notation okm := (CC.okm calls tmsg).
Notation okev := (CC.okev calls tmsg).
Notation OrigInv := (CS.OrigInv (sc_srv g) calls).

Record SInv (s : sstate) : Prop := mkSInv {
  si_E : CI.invE (cl s);
  si_S : invS (cl s);
  si_O : OrigInv (sv s);
  si_cv : map cv2 (C.callers (cl s)) = calls }.

(* ---- the client component under the arrival of messages ---- *)
Lemma invE_push : forall (cs : C.state Z) evs, CI.invE cs -> CI.invE (push cs evs).
Proof. intros cs evs [E1 E2 E3 E4 E5]. constructor; cbn; auto. Qed.

Lemma step_cv2 : forall (s s' : C.state Z) l, C.step s l = Some s' -> map cv2 (C.callers s') = map cv2 (C.callers s).
Proof.
  intros s s' l H. destruct (CC.step_cv3 _ _ _ H) as [Ev|(i & c & c' & _ & Hc & Er & Ei & ->)].
  - assert (forall l : list (C.caller Z), map cv2 l = map (fun p => (fst (fst p), snd (fst p))) (map CC.cv3 l)) as K.
    { intros l0. rewrite map_map. reflexivity. }
    rewrite !K, Ev. reflexivity.
  - eapply CI.map_upd_same; eauto. unfold cv2. now rewrite Er, Ei.
Qed.

(* ---- what the server puts on the stream ---- *)
Lemma srv_emits_ok : forall (ss ss' : S.state) l, OrigInv ss -> S.step (sc_srv g) ss l = Some ss' ->
  Forall okev (List.concat (map (wire_of g ss l) (new_out ss ss'))).
Proof.
  intros ss ss' l I H. unfold new_out.
  destruct (CS.step_out _ _ _ _ H) as [E|[(Hr & E)|[(i & w & o & -> & Hn & Hp & E)|(e & Hh & E)]]]; rewrite E.
  - rewrite skipn_len_self. constructor.
  - exfalso. pose proof (CS.o_rl _ _ _ I) as R. unfold CS.okrl in R. rewrite Hr in R. exact R.
  - rewrite skipn_len_app. cbn. rewrite Hn.
    pose proof (CS.Forall_nth_error _ _ _ _ (CS.o_workers _ _ _ I) Hn) as Hw. unfold CS.okw in Hw. rewrite Hp in Hw.
    destruct (S.w_kind w) as [st t|st sg ok]; [|contradiction]. destruct Hw as (-> & Hin & Ho).
    cbn. constructor; [|constructor]. eexists; split; [reflexivity|]. right. exists (S.w_run w), t. split; auto.
    unfold tmsg. rewrite Ho. reflexivity.
  - rewrite skipn_len_app. cbn. constructor; [|constructor]. eexists; split; [reflexivity|].
    pose proof (CS.o_hp _ _ _ I) as He. rewrite Hh in He.
    destruct He as [[E1 E2]|(r & t & Hin & -> & Hns)].
    + left. exists (S.se_run e). now rewrite E1, E2.
    + right. exists r, t. split; auto. unfold tmsg. cbn.
      destruct (S.step_outcome (sc_srv g) "s" t) eqn:Eo; auto. exfalso. eapply Hns; eauto.
Qed.

Lemma srv_step_inv : forall s l s', CS.sys_label calls l -> SInv s -> srv_step g s l = Some s' -> SInv s'.
Proof.
  intros s l s' Hl [IE IS IO Ecv] H. unfold srv_step in H.
  destruct (S.step (sc_srv g) (sv s) l) as [ss'|] eqn:Hs; [|discriminate]. injection H as <-.
  constructor; cbn.
  - apply invE_push. exact IE.
  - apply CC.invS_push; auto. eapply srv_emits_ok; eauto.
  - eapply CS.orig_step; eauto. exact calls_named.
  - exact Ecv.
Qed.

Lemma client_label_nosend : forall l, client_label l = true -> forall r, l <> C.LPeerSend r.
Proof. intros l H r ->. discriminate H. Qed.

Theorem sinv_step : forall s y s', SInv s -> sys_step g s y = Some s' -> SInv s'.
Proof.
  intros s y s' I H. destruct y as [l| |l|t]; cbn [sys_step] in H.
  - destruct (client_label l) eqn:Hl; [|discriminate].
    destruct (C.step (cl s) l) as [cs'|] eqn:Hs; [|discriminate]. injection H as <-.
    destruct I as [IE IS IO Ecv]. constructor; cbn; auto.
    + eapply CI.invE_step; eauto.
    + eapply CC.invS_step; eauto; [exact calls_named|exact tmsg_spec|apply client_label_nosend; exact Hl].
    + rewrite (step_cv2 _ _ _ Hs). exact Ecv.
  - destruct (C.to_server (cl s)) as [|m q] eqn:Hts; [discriminate|].
    destruct (C.step (cl s) C.LPeerAccept) as [cs'|] eqn:Hs; [|discriminate].
    destruct (S.step (sc_srv g) (sv s) (S.LArrive (EvMsg m))) as [ss'|] eqn:Hv; [|discriminate]. injection H as <-.
    destruct I as [IE IS IO Ecv]. constructor; cbn; auto.
    + eapply CI.invE_step; eauto.
    + eapply CC.invS_step; eauto; [exact calls_named|exact tmsg_spec|intros r; discriminate].
    + eapply CS.orig_step; [exact calls_named|exact IO| |exact Hv]. cbn.
      pose proof (CC.s_to _ _ _ _ IS) as F. rewrite Hts in F. inversion F; subst. eexists; split; [reflexivity|]. assumption.
    + rewrite (step_cv2 _ _ _ Hs). exact Ecv.
  - destruct (S.is_internal l) eqn:Hl; [|discriminate]. eapply srv_step_inv; eauto.
    destruct l; try discriminate Hl; exact Logic.I.
  - destruct (existsb _ _); [|discriminate]. eapply srv_step_inv; eauto. exact Logic.I.
Qed.

Lemma sinv_init : SInv (sys_init callspecs close).
Proof.
  destruct session_wf as [N Aft]. constructor; cbn.
  - constructor; cbn.
    + rewrite CI.init_runs. exact N.
    + rewrite CI.after_from_ok, CI.init_afters. exact Aft.
    + constructor.
    + intros i c Hc Hp. apply CI.init_nth in Hc. destruct Hc as (x & _ & ->). cbn in Hp. discriminate.
    + intros r Hm. discriminate.
  - apply CC.invS_init; [reflexivity|]. cbn. intros c Hin. unfold calls. apply in_map_iff. eauto.
  - constructor; cbn; auto; unfold CS.okrl; reflexivity.
  - unfold calls. rewrite map_map. reflexivity.
Qed.

Theorem sinv_run : forall ys s s', SInv s -> sys_run g s ys = Some s' -> SInv s'.
Proof.
  induction ys as [|y t IH]; intros s s' I H; cbn in H.
  - now injection H as <-.
  - destruct (sys_step g s y) as [s1|] eqn:Hs; [|discriminate]. eapply IH; [|exact H]. eapply sinv_step; eauto.
Qed.

(* SAFETY: whatever Execute number i has returned, in any reachable state, is CallStep of ITS input *)
Theorem sys_safety : forall ys s i x v,
  sys_run g (sys_init callspecs close) ys = Some s ->
  nth_error callspecs i = Some x -> sys_result s i = Some v -> v = spec_callstep g (C.cs_input x).
Proof.
  intros ys s i x v H Hx Hr. pose proof (sinv_run _ _ _ sinv_init H) as [IE IS IO Ecv].
  unfold sys_result in Hr. destruct (nth_error (C.callers (cl s)) i) as [c|] eqn:Hc; [|discriminate].
  destruct (C.c_pc c) eqn:Hp; try discriminate. injection Hr as ->.
  assert (C.c_input c = C.cs_input x) as <-.
  { pose proof (map_nth_error cv2 _ _ Hc) as E1. rewrite Ecv in E1. unfold calls in E1.
    rewrite (map_nth_error _ _ _ Hx) in E1. injection E1 as _ E1. auto. }
  eapply CC.invS_result; eauto. exact calls_nodup.
Qed.

End C05System.
