(* Proofs/C10Shape.v — what holds of every schema `parse` builds, BY CONSTRUCTION of the loader
   (Schema/Describe.v): the conjuncts of C04's well-formedness (Schema/Wf.v) that a description from
   the wire cannot violate, because of the way the generic unserializers of the meta-schema build
   the Go structs:
     - maps (properties, enum values, one-of members, objects of a scope) are filled by assignment
       into a Go map (`aset`, replace-or-append): their keys are pairwise distinct;
     - a map key type is read by `parse_key` (mapKeyType: integer / string only);
     - one-of keys are read by the integer / string reader selected by the type id, members by
       `parse_member` (object / ref / scope only);
     - the objects of a scope are read by `parse_object`.
   `shape` is that predicate; `shape_parse_type`, `shape_parse_scope`, `shape_rebuild`,
   `shape_rebuild_plugin` prove it of everything the loader returns. *)
From Coq Require Import Lia.
From Verif Require Import Base.Prelude Base.Str Base.Float Base.GoVal
  Schema.Regex Schema.Units Schema.Syntax Schema.Ops Schema.Wf Schema.Describe Proofs.OpsLemmas.
Open Scope string_scope.

Fixpoint shape (s : schema) {struct s} : bool :=
  match s with
  | SList it _ _ => shape it
  | SMap k v _ _ => key_kind_ok k && shape k && shape v
  | SEnumInt vals _ => nodup_by Z.eqb (map fst vals)
  | SEnumStr _ vals => nodup_str (map fst vals)
  | SObject _ _ props => nodup_str (map fst props) && forallb (fun np => shape (p_type (snd np))) props
  | SOneOf types ik _ _ =>
      nodup_by okey_eqb (map fst types)
      && forallb (fun km => okey_is ik (fst km) && objlike (snd km) && shape (snd km)) types
  | SScope objs _ =>
      nodup_str (map fst objs) && forallb (fun io => is_obj (snd io) && shape (snd io)) objs
  | _ => true
  end.

(* ---------- replace-or-append keeps keys distinct ---------- *)
Section Aset.
Context {K V : Type} (keq : K -> K -> bool).
Hypothesis keq_spec : forall a b, keq a b = true <-> a = b.

Lemma c10_keq_refl a : keq a a = true.
Proof. apply keq_spec. reflexivity. Qed.

Lemma c10_keq_sym a b : keq a b = keq b a.
Proof.
  destruct (keq a b) eqn:E1, (keq b a) eqn:E2; try reflexivity.
  - apply keq_spec in E1. subst. rewrite c10_keq_refl in E2. discriminate.
  - apply keq_spec in E2. subst. rewrite c10_keq_refl in E1. discriminate.
Qed.

Lemma c10_keys_aset k (v : V) l :
  map fst (aset keq k v l) = if existsb (keq k) (map fst l) then map fst l else (map fst l ++ [k])%list.
Proof.
  induction l as [|[k' v'] t IH]; cbn; [reflexivity|].
  destruct (keq k k') eqn:E; cbn.
  - apply keq_spec in E. subst. reflexivity.
  - rewrite IH. destruct (existsb (keq k) (map fst t)); reflexivity.
Qed.

Lemma c10_nodup_snoc l k :
  nodup_by keq l = true -> existsb (keq k) l = false -> nodup_by keq (l ++ [k]) = true.
Proof.
  induction l as [|x t IH]; cbn; intros Hn Hk; [reflexivity|].
  apply andb_prop in Hn as [H1 H2]. apply Bool.orb_false_elim in Hk as [H3 H4].
  rewrite existsb_app. cbn. rewrite (c10_keq_sym x k), H3, Bool.orb_false_r, H1. cbn.
  apply IH; assumption.
Qed.

Lemma c10_nodup_aset k (v : V) l :
  nodup_by keq (map fst l) = true -> nodup_by keq (map fst (aset keq k v l)) = true.
Proof.
  intros H. rewrite c10_keys_aset.
  destruct (existsb (keq k) (map fst l)) eqn:E; [exact H | apply c10_nodup_snoc; assumption].
Qed.

Lemma c10_in_aset k (v : V) l x : In x (aset keq k v l) -> In x l \/ x = (k, v).
Proof.
  induction l as [|[k' v'] t IH]; cbn.
  - intros [H|[]]. right. symmetry. exact H.
  - destruct (keq k k').
    + intros [H|H]; [right; symmetry; exact H | left; right; exact H].
    + intros [H|H]; [left; left; exact H|]. destruct (IH H) as [H1|H1]; [left; right; exact H1 | right; exact H1].
Qed.
End Aset.

Lemma c10_str_in_existsb x l : str_in x l = existsb (String.eqb x) l.
Proof. induction l as [|y t IH]; cbn; [reflexivity|]. rewrite IH. reflexivity. Qed.
Lemma c10_nodup_str_by l : nodup_str l = nodup_by String.eqb l.
Proof. induction l as [|x t IH]; cbn; [reflexivity|]. rewrite IH, c10_str_in_existsb. reflexivity. Qed.

Lemma c10_okey_eqb_spec a b : okey_eqb a b = true <-> a = b.
Proof.
  destruct a, b; cbn; split; intros H; try discriminate; try (inversion H; subst).
  - apply Z.eqb_eq in H. subst. reflexivity.
  - apply Z.eqb_refl.
  - apply String.eqb_eq in H. subst. reflexivity.
  - apply String.eqb_refl.
Qed.

(* ---------- inversion of the readers ---------- *)
Lemma c10_bind_inv {A B} (o : outcome A) (k : A -> outcome B) b :
  bind o k = Ok b -> exists a, o = Ok a /\ k a = Ok b.
Proof. destruct o; cbn; try discriminate. eauto. Qed.

Ltac binv H :=
  repeat (let x := fresh "x" in let Hx := fresh "Hx" in apply c10_bind_inv in H as (x & Hx & H)).

Lemma c10_opt_field_inv {A} fs k (rd : gval -> outcome A) o :
  opt_field fs k rd = Ok o -> o = None \/ exists v x, rd v = Ok x /\ o = Some x.
Proof.
  unfold opt_field. destruct (alookup k fs) as [v|].
  - intros H. binv H. inversion H; subst. right. eauto.
  - intros H. inversion H. left. reflexivity.
Qed.

Lemma c10_req_field_inv {A} fs k (rd : gval -> outcome A) x :
  req_field fs k rd = Ok x -> exists v, rd v = Ok x.
Proof. unfold req_field. destruct (alookup k fs) as [v|]; [eauto | discriminate]. Qed.

Lemma c10_rd_map_inv {K V} (rk : gval -> outcome K) (rv : gval -> outcome V) (keq : K -> K -> bool) mn v out :
  (forall a b, keq a b = true <-> a = b) ->
  rd_map rk rv keq mn v = Ok out ->
  nodup_by keq (map fst out) = true /\
  forall kv, In kv out -> (exists x, rk x = Ok (fst kv)) /\ (exists y, rv y = Ok (snd kv)).
Proof.
  intros Hk. destruct v; cbn [rd_map]; try discriminate.
  destruct (size_ok mn None (zlen l)); [|discriminate].
  set (g := fun (a : list (K * V)) (kv : gval * gval) =>
              k <- rk (fst kv) ;; x <- rv (snd kv) ;; Ok (aset keq k x a)).
  change (fold_left (fun acc kv => a <- acc ;; g a kv) l (Ok []) = Ok out ->
          nodup_by keq (map fst out) = true /\
          forall kv, In kv out -> (exists x, rk x = Ok (fst kv)) /\ (exists y, rv y = Ok (snd kv))).
  assert (G : forall kvs acc,
            (nodup_by keq (map fst acc) = true /\
             forall kv, In kv acc -> (exists x, rk x = Ok (fst kv)) /\ (exists y, rv y = Ok (snd kv))) ->
            fold_left (fun acc kv => a <- acc ;; g a kv) kvs (Ok acc) = Ok out ->
            nodup_by keq (map fst out) = true /\
            forall kv, In kv out -> (exists x, rk x = Ok (fst kv)) /\ (exists y, rv y = Ok (snd kv))).
  { induction kvs as [|kv0 tl IH]; intros acc Hacc H.
    - cbn in H. inversion H; subst. exact Hacc.
    - apply fold_bind_cons in H as (a' & Hg & H). apply (IH a'); [|exact H].
      unfold g in Hg. binv Hg. inversion Hg; subst a'. destruct Hacc as [Hn Hv]. split.
      + apply c10_nodup_aset; assumption.
      + intros kv Hin. apply c10_in_aset in Hin as [Hin | ->]; [apply Hv; exact Hin|].
        cbn. split; eauto. }
  apply G. split; [reflexivity | intros kv []].
Qed.

Lemma c10_map_fst_some {A B} (l : list (A * B)) :
  map fst (map (fun zd : A * B => (fst zd, Some (snd zd))) l) = map fst l.
Proof. rewrite map_map. apply map_ext. reflexivity. Qed.

(* ---------- the leaf readers ---------- *)
Section Readers.
Variable words : list (string * bool).
Variable pu : units -> string -> option fl.
Variable cu : units.
Variable rp : string -> option re.

Lemma shape_mp_int v s : mp_int v = Ok s -> shape s = true /\ key_kind_ok s = true.
Proof. unfold mp_int. intros H. binv H. inversion H; subst. split; reflexivity. Qed.
Lemma shape_mp_float v s : mp_float pu v = Ok s -> shape s = true.
Proof. unfold mp_float. intros H. binv H. inversion H; subst. reflexivity. Qed.
Lemma shape_mp_string v s : mp_string cu rp v = Ok s -> shape s = true /\ key_kind_ok s = true.
Proof. unfold mp_string. intros H. binv H. inversion H; subst. split; reflexivity. Qed.
Lemma shape_parse_empty s0 v s : shape s0 = true -> parse_empty s0 v = Ok s -> shape s = true.
Proof. unfold parse_empty. intros Hs H. binv H. inversion H; subst. exact Hs. Qed.
Lemma shape_parse_ref v s : parse_ref v = Ok s -> shape s = true /\ objlike s = true.
Proof. unfold parse_ref. intros H. binv H. inversion H; subst. split; reflexivity. Qed.

Lemma shape_parse_enum_int v s : parse_enum_int v = Ok s -> shape s = true.
Proof.
  unfold parse_enum_int. intros H. binv H. inversion H; subst. cbn [shape].
  apply c10_req_field_inv in Hx0 as (v0 & Hv0).
  apply c10_rd_map_inv in Hv0 as [Hn _]; [|intros a b; apply Z.eqb_eq].
  rewrite c10_map_fst_some. exact Hn.
Qed.

Lemma shape_parse_enum_str v s : parse_enum_str v = Ok s -> shape s = true.
Proof.
  unfold parse_enum_str. intros H. binv H. inversion H; subst. cbn [shape].
  apply c10_req_field_inv in Hx0 as (v0 & Hv0).
  apply c10_rd_map_inv in Hv0 as [Hn _]; [|intros a b; apply String.eqb_eq].
  rewrite c10_map_fst_some, c10_nodup_str_by. exact Hn.
Qed.

Lemma shape_parse_key v s : parse_key cu rp v = Ok s -> shape s = true /\ key_kind_ok s = true.
Proof.
  unfold parse_key. intros H. binv H.
  destruct (String.eqb (fst x) "integer"); [apply shape_mp_int in H; exact H|].
  destruct (String.eqb (fst x) "string"); [apply shape_mp_string in H; exact H | discriminate].
Qed.

Section WithRec.
Variable rec : gval -> outcome schema.
Hypothesis Hrec : forall x s, rec x = Ok s -> shape s = true.

Lemma shape_parse_property v p : parse_property words rec v = Ok p -> shape (p_type p) = true.
Proof.
  unfold parse_property. intros H. binv H. inversion H; subst. cbn [p_type].
  apply c10_req_field_inv in Hx0 as (v0 & Hv0). eapply Hrec; eauto.
Qed.

Lemma shape_parse_object v s : parse_object words rec v = Ok s -> shape s = true /\ is_obj s = true.
Proof.
  unfold parse_object. intros H. binv H. inversion H; subst. split; [|reflexivity]. cbn [shape].
  apply c10_req_field_inv in Hx1 as (v0 & Hv0).
  apply c10_rd_map_inv in Hv0 as [Hn Hv]; [|intros a b; apply String.eqb_eq].
  apply andb_true_intro; split; [rewrite c10_nodup_str_by; exact Hn|]. apply forallb_forall. intros np Hin.
  destruct (Hv np Hin) as [_ (y & Hy)]. eapply shape_parse_property; eauto.
Qed.

Lemma shape_parse_scope v s :
  parse_scope words rec v = Ok s -> shape s = true /\ exists objs root, s = SScope objs root.
Proof.
  unfold parse_scope. intros H. binv H. inversion H; subst. split; [|eauto]. cbn [shape].
  apply c10_req_field_inv in Hx0 as (v0 & Hv0).
  apply c10_rd_map_inv in Hv0 as [Hn Hv]; [|intros a b; apply String.eqb_eq].
  apply andb_true_intro; split; [rewrite c10_nodup_str_by; exact Hn|]. apply forallb_forall. intros io Hin.
  destruct (Hv io Hin) as [_ (y & Hy)]. apply shape_parse_object in Hy as [H1 H2]. rewrite H1, H2. reflexivity.
Qed.

Lemma shape_parse_member v s : parse_member words rec v = Ok s -> shape s = true /\ objlike s = true.
Proof.
  unfold parse_member. intros H. binv H.
  destruct (String.eqb (fst x) "ref"); [apply shape_parse_ref in H; exact H|].
  destruct (String.eqb (fst x) "scope").
  { apply shape_parse_scope in H as [H1 (objs & root & ->)]. split; [exact H1 | reflexivity]. }
  destruct (String.eqb (fst x) "object"); [|discriminate].
  apply shape_parse_object in H as [H1 H2]. split; [exact H1|]. destruct s; try discriminate. reflexivity.
Qed.

Lemma shape_parse_oneof ik v s : parse_oneof words rec ik v = Ok s -> shape s = true.
Proof.
  unfold parse_oneof. intros H. binv H. inversion H; subst. cbn [shape].
  apply c10_opt_field_inv in Hx2 as [-> | (v0 & l & Hv0 & ->)]; [reflexivity|]. cbn [odflt].
  apply c10_rd_map_inv in Hv0 as [Hn Hv]; [|exact c10_okey_eqb_spec].
  apply andb_true_intro; split; [exact Hn|]. apply forallb_forall. intros km Hin.
  destruct (Hv km Hin) as [(k0 & Hk) (y & Hy)].
  apply shape_parse_member in Hy as [H1 H2]. rewrite H1, H2.
  assert (Hik : okey_is ik (fst km) = true).
  { destruct ik; cbn beta iota in Hk; binv Hk; injection Hk as E; rewrite <- E; reflexivity. }
  rewrite Hik. reflexivity.
Qed.

Lemma shape_parse_list v s : parse_list rec v = Ok s -> shape s = true.
Proof.
  unfold parse_list. intros H. binv H. inversion H; subst. cbn [shape].
  apply c10_req_field_inv in Hx0 as (v0 & Hv0). eapply Hrec; eauto.
Qed.

Lemma shape_parse_map v s : parse_map cu rp rec v = Ok s -> shape s = true.
Proof.
  unfold parse_map. intros H. binv H. inversion H; subst. cbn [shape].
  apply c10_req_field_inv in Hx0 as (v0 & Hv0). apply shape_parse_key in Hv0 as [H1 H2].
  apply c10_req_field_inv in Hx1 as (v1 & Hv1). apply Hrec in Hv1.
  rewrite H1, H2, Hv1. reflexivity.
Qed.

Lemma shape_parse_signal v g : parse_signal words rec v = Ok g -> shape (sg_data g) = true.
Proof.
  unfold parse_signal. intros H. binv H. inversion H; subst. cbn [sg_data].
  apply c10_req_field_inv in Hx1 as (v0 & Hv0). apply shape_parse_scope in Hv0 as [H1 _]. exact H1.
Qed.

Lemma shape_parse_output v o : parse_output words rec v = Ok o -> shape (so_schema o) = true.
Proof.
  unfold parse_output. intros H. binv H. inversion H; subst. cbn [so_schema].
  apply c10_req_field_inv in Hx0 as (v0 & Hv0). apply shape_parse_scope in Hv0 as [H1 _]. exact H1.
Qed.

Lemma shape_signals (o : option (list (string * dsignal))) :
  (o = None \/ exists v l, rd_map rd_id (parse_signal words rec) String.eqb None v = Ok l /\ o = Some l) ->
  forallb shape (map (fun kg : string * dsignal => sg_data (snd kg)) (odflt [] o)) = true.
Proof.
  intros [-> | (v & l & Hl & ->)]; [reflexivity|]. cbn [odflt].
  apply c10_rd_map_inv in Hl as [_ Hv]; [|intros a b; apply String.eqb_eq].
  apply forallb_forall. intros s Hin. apply in_map_iff in Hin as (kg & <- & Hin).
  destruct (Hv kg Hin) as [_ (y & Hy)]. eapply shape_parse_signal; eauto.
Qed.

Lemma shape_parse_step v st : parse_step words rec v = Ok st -> forallb shape (scopes_of_step st) = true.
Proof.
  unfold parse_step. intros H. binv H. inversion H; subst.
  unfold scopes_of_step. cbn [st_input st_outputs st_handlers st_emitters forallb].
  apply c10_req_field_inv in Hx1 as (v0 & Hv0). apply shape_parse_scope in Hv0 as [H1 _]. rewrite H1. cbn [andb].
  rewrite !forallb_app. apply andb_true_intro. split; [|apply andb_true_intro; split].
  - apply c10_req_field_inv in Hx2 as (v1 & Hv1).
    apply c10_rd_map_inv in Hv1 as [_ Hv]; [|intros a b; apply String.eqb_eq].
    apply forallb_forall. intros s Hin. apply in_map_iff in Hin as (ko & <- & Hin).
    destruct (Hv ko Hin) as [_ (y & Hy)]. eapply shape_parse_output; eauto.
  - apply shape_signals. eapply c10_opt_field_inv. exact Hx3.
  - apply shape_signals. eapply c10_opt_field_inv. exact Hx4.
Qed.
End WithRec.

Lemma shape_parse_type : forall f v s, parse_type words pu cu rp f v = Ok s -> shape s = true.
Proof.
  induction f as [|f IH]; intros v s H; [discriminate|].
  cbn [parse_type] in H. binv H. cbv zeta in H.
  repeat match type of H with
         | (if ?b then _ else _) = Ok _ => destruct b
         end;
  first [ discriminate
        | eapply shape_parse_empty; [|exact H]; reflexivity
        | apply shape_mp_int in H; tauto
        | apply shape_mp_float in H; exact H
        | apply shape_mp_string in H; tauto
        | apply shape_parse_enum_int in H; exact H
        | apply shape_parse_enum_str in H; exact H
        | apply shape_parse_ref in H; tauto
        | exact (shape_parse_list _ IH _ _ H)
        | exact (shape_parse_map _ IH _ _ H)
        | exact (proj1 (shape_parse_object _ IH _ _ H))
        | exact (shape_parse_oneof _ IH _ _ _ H)
        | exact (proj1 (shape_parse_scope _ IH _ _ H)) ].
Qed.

Variable jor : oracles.

Theorem shape_rebuild d s : rebuild words pu cu rp jor d = Ok s -> shape s = true.
Proof.
  unfold rebuild. intros H. binv H. destruct (link_ok jor [] x); inversion H; subst.
  exact (proj1 (shape_parse_scope _ (shape_parse_type (gsize d)) _ _ Hx)).
Qed.

Theorem shape_rebuild_plugin d p :
  rebuild_plugin words pu cu rp jor d = Ok p -> forallb shape (plugin_scopes p) = true.
Proof.
  unfold rebuild_plugin. intros H. binv H.
  destruct (forallb (link_ok jor []) (plugin_scopes x0)); [|discriminate].
  destruct (existsb foreign_refs (plugin_scopes x0)); inversion H; subst.
  apply c10_req_field_inv in Hx0 as (v0 & Hv0).
  apply c10_rd_map_inv in Hv0 as [_ Hv]; [|intros a b; apply String.eqb_eq].
  unfold plugin_scopes. apply forallb_forall. intros s Hin. apply in_flat_map in Hin as (ks & Hks & Hin).
  destruct (Hv ks Hks) as [_ (y & Hy)].
  apply (shape_parse_step _ (shape_parse_type (gsize d))) in Hy.
  rewrite forallb_forall in Hy. apply Hy. exact Hin.
Qed.
End Readers.
