(* Proofs/C17StructPos.v — C17 over the struct layer, continued:
   (1) the ORDER-FREE single-fault forms of the theorems of Proofs/C17Struct.v.  The SDK ranges over the Go map
       PropertiesValue, the model walks the property list: with a single fault (every OTHER property fine) the
       premises do not mention the position of the faulty property, so the statement holds for every order in
       which the properties are listed (any permutation of `props` satisfies the same premises);
   (2) position relations fault_xu / fault_xv / fault_xs over xschema (leaves, lists, struct-mapped and map-based
       objects, references, scopes; map-based subtrees through x_embed_unser / x_embed_validate) and the theorems "the path of the error
       is the path to the fault" for xunser / xvalidate / xserialize, by induction on the position. *)
From Coq Require Import Lia.
From Verif Require Import Base.Prelude Base.Str Base.Float Base.GoVal Base.XReflect
  Schema.Regex Schema.Units Schema.Syntax Schema.Ops Schema.XSyntax Schema.XOps
  Proofs.OpsLemmas Proofs.XOpsEq Proofs.XPaths Proofs.XEmbed Proofs.C02Containers Proofs.C17 Proofs.C17Object
  Proofs.C17ObjectU Proofs.C17Serialize Proofs.C17Struct.
Open Scope string_scope.
Open Scope Z_scope.
Open Scope list_scope.

Local Notation raw := (list (string * gval)).

Lemma split_at_key {A} (props : list (string * A)) name p :
  NoDup (map fst props) -> In (name, p) props ->
  exists ps1 ps2, props = ps1 ++ (name, p) :: ps2 /\
                  (forall np, In np ps1 -> np <> (name, p)) /\ (forall np, In np ps2 -> np <> (name, p)).
Proof.
  intros Hnd Hin. destruct (in_split _ _ Hin) as (l1 & l2 & ->). exists l1, l2. split; [reflexivity|].
  rewrite map_app in Hnd. cbn [map fst] in Hnd. apply NoDup_remove_2 in Hnd.
  split; intros np Hnp E; subst np; apply Hnd; apply in_or_app; [left | right];
    change name with (fst (name, p)); apply in_map; exact Hnp.
Qed.

Section C17StructPos.
Variable words : list (string * bool).
Variable pu : units -> string -> option fl.
Notation xunser := (xunser words pu).
Notation xvalidate := (xvalidate words pu).
Notation xserialize := (xserialize words pu).

(* ================= (1) order-free single-fault forms ================= *)

Theorem struct_unser_single_fault f e id un props name p mapped t nl (r rd : raw) x er :
  Forall (fun kv => amem (fst kv) props = true) r ->
  NoDup (map fst props) -> In (name, p) props ->
  xobj_data f e props mapped r = Ok rd ->
  (forall np, In np props -> np <> (name, p) -> xprop_fine words pu f e rd np) ->
  alookup name rd = Some x -> p_disabled p = false ->
  xunser f e (p_type p) x = Err er ->
  xunser (S f) e (XObject id un props mapped) (obj_val t nl r) = Err (add_seg name er).
Proof.
  intros Hdecl Hnd Hin Hd Hall Hx Hdis Hu.
  destruct (split_at_key props name p Hnd Hin) as (ps1 & ps2 & -> & H1 & _).
  apply (struct_unser_prop_error words pu f e id un ps1 name p ps2 mapped t nl r rd x er Hdecl Hnd Hd); try assumption.
  apply Forall_forall. intros np Hnp. apply Hall; [apply in_or_app; left; exact Hnp | apply H1; exact Hnp].
Qed.

Theorem struct_unser_single_rule f e id un props name p mapped t nl (r0 rd : raw) :
  Forall (fun kv => amem (fst kv) props = true) r0 ->
  NoDup (map fst props) -> In (name, p) props ->
  xobj_data f e props mapped r0 = Ok rd ->
  (forall np, In np props -> xprop_fine words pu f e rd np) ->
  (forall np, In np props -> np <> (name, p) -> xcheck_prop_rules (fun k => amem k rd) (fst np) (snd np) = Ok tt) ->
  xcheck_prop_rules (fun k => amem k rd) name p <> Ok tt ->
  xunser (S f) e (XObject id un props mapped) (obj_val t nl r0) = Err (cerr_at [name] EPresence).
Proof.
  intros Hdecl Hnd Hin Hd Hall Hrules Hbad.
  destruct (split_at_key props name p Hnd Hin) as (ps1 & ps2 & -> & H1 & _).
  apply (struct_unser_rule words pu f e id un ps1 name p ps2 mapped t nl r0 rd Hdecl Hnd Hd); try assumption.
  - apply Forall_forall. exact Hall.
  - apply Forall_forall. intros np Hnp. apply Hrules; [apply in_or_app; left; exact Hnp | apply H1; exact Hnp].
Qed.

Lemma has_fields_prefix si (l1 l2 : list (string * xproperty)) : has_fields si (l1 ++ l2) -> has_fields si l1.
Proof. intros H np Hnp. apply H. apply in_or_app. left. exact Hnp. Qed.

Theorem struct_validate_single_fault f e id un props name p si v sv x er :
  xstruct_arg si v = Some sv -> has_fields si props ->
  NoDup (map fst props) -> In (name, p) props ->
  (forall np y, In np props -> np <> (name, p) -> xfield_value e si sv np = Some y ->
                xvalidate f e (p_type (snd np)) y = Ok tt) ->
  xfield_value e si sv (name, p) = Some x ->
  xvalidate f e (p_type p) x = Err er ->
  xvalidate (S f) e (XObject id un props (Some si)) v = Err (add_seg name er).
Proof.
  intros Harg Hf Hnd Hin Hall Hx Hv.
  destruct (split_at_key props name p Hnd Hin) as (ps1 & ps2 & -> & H1 & _).
  apply (struct_validate_prop_error words pu f e id un ps1 name p ps2 si v sv x er Harg); try assumption.
  - exact (has_fields_prefix si ps1 _ Hf).
  - intros np y Hnp Hy. apply (Hall np y); [apply in_or_app; left; exact Hnp | apply H1; exact Hnp | exact Hy].
Qed.

Theorem struct_serialize_single_fault f e id un props name p si v sv x er :
  xstruct_arg si v = Some sv -> has_fields si props ->
  NoDup (map fst props) -> In (name, p) props ->
  (forall np y, In np props -> np <> (name, p) -> xfield_value e si sv np = Some y ->
                exists w, xserialize f e (p_type (snd np)) y = Ok w) ->
  xfield_value e si sv (name, p) = Some x ->
  xserialize f e (p_type p) x = Err er ->
  xserialize (S f) e (XObject id un props (Some si)) v = Err (add_seg name er).
Proof.
  intros Harg Hf Hnd Hin Hall Hx Hv.
  destruct (split_at_key props name p Hnd Hin) as (ps1 & ps2 & -> & H1 & _).
  apply (struct_serialize_prop_error words pu f e id un ps1 name p ps2 si v sv x er Harg); try assumption.
  - exact (has_fields_prefix si ps1 _ Hf).
  - intros np y Hnp Hy. apply (Hall np y); [apply in_or_app; left; exact Hnp | apply H1; exact Hnp | exact Hy].
Qed.

Theorem struct_validate_single_rule f e id un props name p si v sv :
  xstruct_arg si v = Some sv -> has_fields si props ->
  NoDup (map fst props) -> In (name, p) props ->
  (forall np y, In np props -> xfield_value e si sv np = Some y -> xvalidate f e (p_type (snd np)) y = Ok tt) ->
  (forall np, In np props -> np <> (name, p) ->
              xcheck_prop_rules (fun k => amem k (xpresent e si sv props)) (fst np) (snd np) = Ok tt) ->
  xcheck_prop_rules (fun k => amem k (xpresent e si sv props)) name p <> Ok tt ->
  xvalidate (S f) e (XObject id un props (Some si)) v = Err (cerr_at [name] EPresence).
Proof.
  intros Harg Hf Hnd Hin Hall Hrules Hbad.
  destruct (split_at_key props name p Hnd Hin) as (ps1 & ps2 & E & H1 & _).
  rewrite E in *. apply (struct_validate_rule words pu f e id un ps1 name p ps2 si v sv Harg); try assumption.
  apply Forall_forall. intros np Hnp. apply Hrules; [apply in_or_app; left; exact Hnp | apply H1; exact Hnp].
Qed.

Theorem struct_serialize_single_rule f e id un props name p si v sv :
  xstruct_arg si v = Some sv -> has_fields si props ->
  NoDup (map fst props) -> In (name, p) props ->
  (forall np y, In np props -> xfield_value e si sv np = Some y -> exists w, xserialize f e (p_type (snd np)) y = Ok w) ->
  (forall np, In np props -> np <> (name, p) ->
              xcheck_prop_rules (fun k => amem k (xpresent e si sv props)) (fst np) (snd np) = Ok tt) ->
  xcheck_prop_rules (fun k => amem k (xpresent e si sv props)) name p <> Ok tt ->
  xserialize (S f) e (XObject id un props (Some si)) v = Err (cerr_at [name] EPresence).
Proof.
  intros Harg Hf Hnd Hin Hall Hrules Hbad.
  destruct (split_at_key props name p Hnd Hin) as (ps1 & ps2 & E & H1 & _).
  rewrite E in *. apply (struct_serialize_rule words pu f e id un ps1 name p ps2 si v sv Harg); try assumption.
  apply Forall_forall. intros np Hnp. apply Hrules; [apply in_or_app; left; exact Hnp | apply H1; exact Hnp].
Qed.

(* ================= (2) positions ================= *)

Definition xis_leaf (s : xschema) : Prop :=
  match s with
  | XInt _ _ _ | XFloat _ _ _ | XString _ _ _ | XBool | XPattern | XEnumInt _ _ | XEnumStr _ _ => True
  | _ => False
  end.

Lemma xleaf_erase s : xis_leaf s -> is_leaf (erase s).
Proof. destruct s; cbn; tauto. Qed.

Lemma xleaf_unser_eq s : xis_leaf s -> forall f e v, xunser (S f) e s v = unser words pu (S f) (erase_env e) (erase s) v.
Proof. intros Hl f e v. destruct s; cbn [xis_leaf] in Hl; try contradiction; reflexivity. Qed.
Lemma xleaf_validate_eq s : xis_leaf s -> forall f e v, xvalidate (S f) e s v = validate words pu (S f) (erase_env e) (erase s) v.
Proof. intros Hl f e v. destruct s; cbn [xis_leaf] in Hl; try contradiction; reflexivity. Qed.
Lemma xleaf_serialize_eq s : xis_leaf s -> forall f e v, xserialize (S f) e s v = serialize words pu (S f) (erase_env e) (erase s) v.
Proof. intros Hl f e v. destruct s; cbn [xis_leaf] in Hl; try contradiction; reflexivity. Qed.

(* lists over the struct layer *)
Lemma xunser_list_item_error f e it mn mx t nl l1 x l2 er :
  size_ok mn mx (zlen (l1 ++ x :: l2)) = true ->
  Forall (fun y => exists n, xunser f e it y = Ok n) l1 ->
  xunser f e it x = Err er ->
  xunser (S f) e (XList it mn mx) (VSlice t nl (l1 ++ x :: l2)) = Err (add_seg (idx_seg (zlen l1)) er).
Proof.
  intros Hs Hok Hx. rewrite (xunser_S words pu). cbv beta iota. rewrite Hs.
  rewrite (mapMi_first_err (xunser f e it) idx_seg x er l2 l1 0 Hok Hx). reflexivity.
Qed.

Lemma xvalidate_list_item_error f e it mn mx t nl l1 x l2 er :
  size_ok mn mx (zlen (l1 ++ x :: l2)) = true ->
  Forall (fun y => exists n, xvalidate f e it y = Ok n) l1 ->
  xvalidate f e it x = Err er ->
  xvalidate (S f) e (XList it mn mx) (VSlice t nl (l1 ++ x :: l2)) = Err (add_seg (idx_seg (zlen l1)) er).
Proof.
  intros Hs Hok Hx. rewrite (xvalidate_S words pu). cbv beta iota. rewrite Hs.
  rewrite (mapMi_first_err (xvalidate f e it) idx_seg x er l2 l1 0 Hok Hx). reflexivity.
Qed.

(* ---------- Unserialize ---------- *)
Inductive fault_xu : xenv -> nat -> xschema -> gval -> list string -> Prop :=
| XU_leaf : forall e f s v, xis_leaf s -> (forall n, xunser (S f) e s v <> Ok n) -> fault_xu e (S f) s v []
| XU_embedded : forall st e0 f s0 v q, fault_uo words pu e0 f s0 v q -> fault_xu (embed_env st e0) f (embed s0) v q
| XU_item : forall e f it mn mx t nl l1 x l2 q,
    size_ok mn mx (zlen (l1 ++ x :: l2)) = true ->
    Forall (fun y => exists n, xunser f e it y = Ok n) l1 ->
    fault_xu e f it x q ->
    fault_xu e (S f) (XList it mn mx) (VSlice t nl (l1 ++ x :: l2)) (idx_seg (zlen l1) :: q)
| XU_not_a_map : forall e f id un props mapped v,
    (forall t nl l, v <> VMap t nl l) -> (forall name p, props <> [(name, p)]) ->
    fault_xu e (S f) (XObject id un props mapped) v []
| XU_unknown_key : forall e f id un props mapped t nl r1 k x r2,
    Forall (fun kv => amem (fst kv) props = true) r1 -> Forall (fun kv => amem (fst kv) props = true) r2 ->
    amem k props = false ->
    fault_xu e (S f) (XObject id un props mapped) (obj_val t nl (r1 ++ (k, x) :: r2)) []
| XU_rule : forall e f id un props name p mapped t nl (r rd : raw),
    Forall (fun kv => amem (fst kv) props = true) r ->
    NoDup (map fst props) -> In (name, p) props ->
    xobj_data f e props mapped r = Ok rd ->
    (forall np, In np props -> xprop_fine words pu f e rd np) ->
    (forall np, In np props -> np <> (name, p) -> xcheck_prop_rules (fun k => amem k rd) (fst np) (snd np) = Ok tt) ->
    xcheck_prop_rules (fun k => amem k rd) name p <> Ok tt ->
    fault_xu e (S f) (XObject id un props mapped) (obj_val t nl r) [name]
| XU_prop : forall e f id un props name p mapped t nl (r rd : raw) x q,
    Forall (fun kv => amem (fst kv) props = true) r ->
    NoDup (map fst props) -> In (name, p) props ->
    xobj_data f e props mapped r = Ok rd ->
    (forall np, In np props -> np <> (name, p) -> xprop_fine words pu f e rd np) ->
    alookup name rd = Some x -> p_disabled p = false ->
    fault_xu e f (p_type p) x q ->
    fault_xu e (S f) (XObject id un props mapped) (obj_val t nl r) (name :: q)
| XU_ref : forall e f id ns d o e' v q,
    xresolve e id ns = Some (o, e') -> fault_xu e' f o v q -> fault_xu e (S f) (XRef id ns d) v q
| XU_scope : forall e f objs root o v q,
    alookup root objs = Some o -> fault_xu (xenv_enter e objs) f o v q -> fault_xu e (S f) (XScope objs root) v q.

Theorem struct_single_fault_path_unser : forall e f s v q, fault_xu e f s v q ->
  exists c, xunser f e s v = Err (mkErr true q c).
Proof.
  intros e f s v q H. induction H as
    [e f s v Hl Hno
    | st e0 f s0 v q Hfault
    | e f it mn mx t nl l1 x l2 q Hs Hok Hx IH
    | e f id un props mapped v Hno Hsingle
    | e f id un props mapped t nl r1 k x r2 H1 H2 Hk
    | e f id un props name p mapped t nl r rd Hdecl Hnd Hin Hd Hall Hrules Hbad
    | e f id un props name p mapped t nl r rd x q Hdecl Hnd Hin Hd Hall Hx Hdis Hfault IH
    | e f id ns d o e' v q Hres Hx IH
    | e f objs root o v q Hroot Hx IH].
  - rewrite (xleaf_unser_eq s Hl).
    destruct (leaf_unser_outcome words pu (erase s) (xleaf_erase s Hl) f (erase_env e) v) as [(n & Hn) | (c & Hc)].
    + exfalso. apply (Hno n). rewrite (xleaf_unser_eq s Hl). exact Hn.
    + exists c. exact Hc.
  - destruct (single_fault_path_unser_all words pu e0 f s0 v q Hfault) as (c & Hc). exists c.
    rewrite (x_embed_unser st words pu). exact Hc.
  - destruct IH as (c & IH). exists c.
    rewrite (xunser_list_item_error f e it mn mx t nl l1 x l2 _ Hs Hok IH). reflexivity.
  - exists ERepr. exact (struct_unser_not_a_map words pu f e id un props mapped v Hno Hsingle).
  - exists EKey. exact (struct_unser_unknown_key words pu f e id un props mapped t nl r1 k x r2 H1 Hk).
  - exists EPresence. exact (struct_unser_single_rule f e id un props name p mapped t nl r rd Hdecl Hnd Hin Hd Hall Hrules Hbad).
  - destruct IH as (c & IH). exists c.
    rewrite (struct_unser_single_fault f e id un props name p mapped t nl r rd x _ Hdecl Hnd Hin Hd Hall Hx Hdis IH). reflexivity.
  - destruct IH as (c & IH). exists c. rewrite (xunser_S words pu). cbv beta iota. rewrite Hres. exact IH.
  - destruct IH as (c & IH). exists c. rewrite (xunser_S words pu). cbv beta iota. rewrite Hroot. exact IH.
Qed.

(* ---------- Validate ---------- *)
Inductive fault_xv : xenv -> nat -> xschema -> gval -> list string -> Prop :=
| XV_leaf : forall e f s v, xis_leaf s -> xvalidate (S f) e s v <> Ok tt -> fault_xv e (S f) s v []
| XV_embedded : forall st e0 f s0 v q, fault_vo words pu e0 f s0 v q -> fault_xv (embed_env st e0) f (embed s0) v q
| XV_item : forall e f it mn mx t nl l1 x l2 q,
    size_ok mn mx (zlen (l1 ++ x :: l2)) = true ->
    Forall (fun y => exists n, xvalidate f e it y = Ok n) l1 ->
    fault_xv e f it x q ->
    fault_xv e (S f) (XList it mn mx) (VSlice t nl (l1 ++ x :: l2)) (idx_seg (zlen l1) :: q)
| XV_wrong_type : forall e f id un props si v,
    xstruct_arg si v = None -> fault_xv e (S f) (XObject id un props (Some si)) v []
| XV_rule : forall e f id un props name p si v sv,
    xstruct_arg si v = Some sv -> has_fields si props ->
    NoDup (map fst props) -> In (name, p) props ->
    (forall np y, In np props -> xfield_value e si sv np = Some y -> xvalidate f e (p_type (snd np)) y = Ok tt) ->
    (forall np, In np props -> np <> (name, p) ->
                xcheck_prop_rules (fun k => amem k (xpresent e si sv props)) (fst np) (snd np) = Ok tt) ->
    xcheck_prop_rules (fun k => amem k (xpresent e si sv props)) name p <> Ok tt ->
    fault_xv e (S f) (XObject id un props (Some si)) v [name]
| XV_prop : forall e f id un props name p si v sv x q,
    xstruct_arg si v = Some sv -> has_fields si props ->
    NoDup (map fst props) -> In (name, p) props ->
    (forall np y, In np props -> np <> (name, p) -> xfield_value e si sv np = Some y ->
                  xvalidate f e (p_type (snd np)) y = Ok tt) ->
    xfield_value e si sv (name, p) = Some x ->
    fault_xv e f (p_type p) x q ->
    fault_xv e (S f) (XObject id un props (Some si)) v (name :: q)
| XV_ref : forall e f id ns d o e' v q,
    xresolve e id ns = Some (o, e') -> fault_xv e' f o v q -> fault_xv e (S f) (XRef id ns d) v q
| XV_scope : forall e f objs root o v q,
    alookup root objs = Some o -> fault_xv (xenv_enter e objs) f o v q -> fault_xv e (S f) (XScope objs root) v q.

Theorem struct_single_fault_path_validate : forall e f s v q, fault_xv e f s v q ->
  exists c, xvalidate f e s v = Err (mkErr true q c).
Proof.
  intros e f s v q H. induction H as
    [e f s v Hl Hno
    | st e0 f s0 v q Hfault
    | e f it mn mx t nl l1 x l2 q Hs Hok Hx IH
    | e f id un props si v Harg
    | e f id un props name p si v sv Harg Hf Hnd Hin Hall Hrules Hbad
    | e f id un props name p si v sv x q Harg Hf Hnd Hin Hall Hx Hfault IH
    | e f id ns d o e' v q Hres Hx IH
    | e f objs root o v q Hroot Hx IH].
  - rewrite (xleaf_validate_eq s Hl).
    destruct (leaf_validate_outcome words pu (erase s) (xleaf_erase s Hl) f (erase_env e) v) as [Hn | (c & Hc)].
    + exfalso. apply Hno. rewrite (xleaf_validate_eq s Hl). exact Hn.
    + exists c. exact Hc.
  - destruct (single_fault_path_validate_objects words pu e0 f s0 v q Hfault) as (c & Hc). exists c.
    rewrite (x_embed_validate st words pu). exact Hc.
  - destruct IH as (c & IH). exists c.
    rewrite (xvalidate_list_item_error f e it mn mx t nl l1 x l2 _ Hs Hok IH). reflexivity.
  - exists ERepr. exact (struct_validate_wrong_type words pu f e id un props si v Harg).
  - exists EPresence. exact (struct_validate_single_rule f e id un props name p si v sv Harg Hf Hnd Hin Hall Hrules Hbad).
  - destruct IH as (c & IH). exists c.
    rewrite (struct_validate_single_fault f e id un props name p si v sv x _ Harg Hf Hnd Hin Hall Hx IH). reflexivity.
  - destruct IH as (c & IH). exists c. rewrite (xvalidate_S words pu). cbv beta iota. rewrite Hres. exact IH.
  - destruct IH as (c & IH). exists c. rewrite (xvalidate_S words pu). cbv beta iota. rewrite Hroot. exact IH.
Qed.

(* ---------- Serialize ---------- *)
Inductive fault_xs : xenv -> nat -> xschema -> gval -> list string -> Prop :=
| XS_leaf : forall e f s v, xis_leaf s -> (forall w, xserialize (S f) e s v <> Ok w) -> fault_xs e (S f) s v []
| XS_wrong_type : forall e f id un props si v,
    xstruct_arg si v = None -> fault_xs e (S f) (XObject id un props (Some si)) v []
| XS_rule : forall e f id un props name p si v sv,
    xstruct_arg si v = Some sv -> has_fields si props ->
    NoDup (map fst props) -> In (name, p) props ->
    (forall np y, In np props -> xfield_value e si sv np = Some y -> exists w, xserialize f e (p_type (snd np)) y = Ok w) ->
    (forall np, In np props -> np <> (name, p) ->
                xcheck_prop_rules (fun k => amem k (xpresent e si sv props)) (fst np) (snd np) = Ok tt) ->
    xcheck_prop_rules (fun k => amem k (xpresent e si sv props)) name p <> Ok tt ->
    fault_xs e (S f) (XObject id un props (Some si)) v [name]
| XS_prop : forall e f id un props name p si v sv x q,
    xstruct_arg si v = Some sv -> has_fields si props ->
    NoDup (map fst props) -> In (name, p) props ->
    (forall np y, In np props -> np <> (name, p) -> xfield_value e si sv np = Some y ->
                  exists w, xserialize f e (p_type (snd np)) y = Ok w) ->
    xfield_value e si sv (name, p) = Some x ->
    fault_xs e f (p_type p) x q ->
    fault_xs e (S f) (XObject id un props (Some si)) v (name :: q)
| XS_ref : forall e f id ns d o e' v q,
    xresolve e id ns = Some (o, e') -> fault_xs e' f o v q -> fault_xs e (S f) (XRef id ns d) v q
| XS_scope : forall e f objs root o v q,
    alookup root objs = Some o -> fault_xs (xenv_enter e objs) f o v q -> fault_xs e (S f) (XScope objs root) v q.

Theorem struct_single_fault_path_serialize : forall e f s v q, fault_xs e f s v q ->
  exists c, xserialize f e s v = Err (mkErr true q c).
Proof.
  intros e f s v q H. induction H as
    [e f s v Hl Hno
    | e f id un props si v Harg
    | e f id un props name p si v sv Harg Hf Hnd Hin Hall Hrules Hbad
    | e f id un props name p si v sv x q Harg Hf Hnd Hin Hall Hx Hfault IH
    | e f id ns d o e' v q Hres Hx IH
    | e f objs root o v q Hroot Hx IH].
  - rewrite (xleaf_serialize_eq s Hl).
    destruct (leaf_serialize_outcome words pu (erase s) (xleaf_erase s Hl) f (erase_env e) v) as [(w & Hn) | (c & Hc)].
    + exfalso. apply (Hno w). rewrite (xleaf_serialize_eq s Hl). exact Hn.
    + exists c. exact Hc.
  - exists ERepr. exact (struct_serialize_wrong_type words pu f e id un props si v Harg).
  - exists EPresence. exact (struct_serialize_single_rule f e id un props name p si v sv Harg Hf Hnd Hin Hall Hrules Hbad).
  - destruct IH as (c & IH). exists c.
    rewrite (struct_serialize_single_fault f e id un props name p si v sv x _ Harg Hf Hnd Hin Hall Hx IH). reflexivity.
  - destruct IH as (c & IH). exists c. rewrite (xserialize_S words pu). cbv beta iota. rewrite Hres. exact IH.
  - destruct IH as (c & IH). exists c. rewrite (xserialize_S words pu). cbv beta iota. rewrite Hroot. exact IH.
Qed.

(* ---------- a one-of whose member is selected by the REFLECTED TYPE of a native struct value (findUnderlyingType) ----------
   Validate puts the {oneof[k]} marker in front of the member's path, Serialize passes the member's error on unchanged. *)
Definition xnative_struct (v : gval) (tv : gtype) : Prop :=
  (exists n fs, v = VStruct (TStruct n) fs /\ tv = TStruct n) \/
  (exists n o, v = VPtr (TPtr (TStruct n)) o /\ tv = TPtr (TStruct n)).

Lemma xoneof_find_native f e types ik field inlined v tv key member :
  xnative_struct v tv ->
  find (fun ks => match xstruct_rtype e (snd ks) with Some t => gtype_eqb t tv | None => false end) types = Some (key, member) ->
  xoneof_find words pu (S f) e types ik field inlined v = Ok (key, member, v).
Proof.
  intros Hn Hf. rewrite (xoneof_find_S words pu).
  destruct Hn as [(n & fs & -> & ->) | (n & o & -> & ->)]; cbn [kind_of kind_of_type type_of]; rewrite Hf; reflexivity.
Qed.

Theorem struct_oneof_native_validate_path f e types ik field inlined v tv key member er :
  xnative_struct v tv ->
  find (fun ks => match xstruct_rtype e (snd ks) with Some t => gtype_eqb t tv | None => false end) types = Some (key, member) ->
  xvalidate (S f) e member v = Err er ->
  xvalidate (S (S f)) e (XOneOf types ik field inlined) v = Err (add_seg (oneof_seg key) er).
Proof.
  intros Hn Hf Hv. rewrite (xvalidate_S words pu). cbv beta iota.
  rewrite (xoneof_find_native f e types ik field inlined v tv key member Hn Hf). cbn [bind]. rewrite Hv. reflexivity.
Qed.

Theorem struct_oneof_native_serialize_path f e types ik field inlined v tv key member er :
  xnative_struct v tv ->
  find (fun ks => match xstruct_rtype e (snd ks) with Some t => gtype_eqb t tv | None => false end) types = Some (key, member) ->
  xserialize (S f) e member v = Err er ->
  xserialize (S (S f)) e (XOneOf types ik field inlined) v = Err er.
Proof.
  intros Hn Hf Hv. rewrite (xserialize_S words pu). cbv beta iota.
  rewrite (xoneof_find_native f e types ik field inlined v tv key member Hn Hf). cbn [bind]. rewrite Hv. reflexivity.
Qed.

(* no member has the value's type: reported at the one-of *)
Theorem struct_oneof_native_no_member f e types ik field inlined v tv :
  xnative_struct v tv ->
  find (fun ks => match xstruct_rtype e (snd ks) with Some t => gtype_eqb t tv | None => false end) types = None ->
  xvalidate (S (S f)) e (XOneOf types ik field inlined) v = Err (cerr ERepr) /\
  xserialize (S (S f)) e (XOneOf types ik field inlined) v = Err (cerr ERepr).
Proof.
  intros Hn Hf. rewrite (xvalidate_S words pu), (xserialize_S words pu). cbv beta iota.
  rewrite (xoneof_find_S words pu).
  destruct Hn as [(n & fs & -> & ->) | (n & o & -> & ->)]; cbn [kind_of kind_of_type type_of]; rewrite Hf; split; reflexivity.
Qed.

End C17StructPos.
