(* Proofs/C01Any.v — the `any` schema in the round trip (C01): checkAndConvert is idempotent on its own output
   (with the same fuel), its output is never nil, is in wire form when its integers are in range, and - when it is
   "clean" (homogeneous lists, maps keyed by int64 only or string only) - passes AnySchema.ValidateCompatibility. *)
From Coq Require Import Lia.
From Verif Require Import Base.Prelude Base.Str Base.Float Base.GoVal
  Schema.Regex Schema.Units Schema.Syntax Schema.Ops Schema.Cbor Schema.Wf Schema.SpecRT Schema.C01Spec
  Proofs.OpsLemmas Proofs.C01Round Proofs.CborNorm Proofs.C01Base Proofs.MonoEq.
Open Scope string_scope.
Open Scope Z_scope.

Section Any.
Variable words : list (string * bool).
Variable pu : units -> string -> option fl.
Notation compat := (compat words pu).

Definition any_post (f : nat) (n : gval) : Prop :=
  any_conv f n = Ok n
  /\ n <> VNil
  /\ (ints_in_range n = true -> swire n = true)
  /\ (any_clean n = true -> forall e g, (f <= g)%nat -> compat (S g) e SAny n = Ok tt).

Lemma post_i64 f z : any_post (S f) (vi64 z).
Proof.
  split; [reflexivity|]. split; [discriminate|]. split; [intros H; exact H|].
  intros _ e g Hg. destruct g as [|g]; [lia|]. reflexivity.
Qed.
Lemma post_f64 f x : any_post (S f) (vf64 x).
Proof.
  split; [reflexivity|]. split; [discriminate|]. split; [reflexivity|].
  intros _ e g Hg. destruct g as [|g]; [lia|]. reflexivity.
Qed.
Lemma post_str f s : any_post (S f) (vstr s).
Proof.
  split; [reflexivity|]. split; [discriminate|]. split; [reflexivity|].
  intros _ e g Hg. destruct g as [|g]; [lia|]. reflexivity.
Qed.
Lemma post_bool f b : any_post (S f) (vbool b).
Proof.
  split; [reflexivity|]. split; [discriminate|]. split; [reflexivity|].
  intros _ e g Hg. destruct g as [|g]; [lia|]. reflexivity.
Qed.

Lemma any_conv_S f v :
  any_conv (S f) v =
    match kind_of v with
    | KInt I64 => match v with VInt _ z => Ok (vi64 z) | _ => Err (cerr ERepr) end
    | KInt _ => match int_mapper None v with Some z => Ok (vi64 z) | None => Err (cerr ERepr) end
    | KF32 => match float_mapper (fun _ _ => None) None v with Some x => Ok (vf64 x) | None => Err (cerr ERepr) end
    | KF64 => match conv_float64 v with Some x => Ok (vf64 x) | None => Err (cerr ERepr) end
    | KString => match v with VStr _ s => Ok (vstr s) | _ => Err (cerr ERepr) end
    | KBool => bool_ser v
    | KSlice => match v with
                | VSlice _ _ l => ys <- mapMi (fun i x => seg (idx_seg i) (any_conv f x)) 0 l ;;
                                  Ok (VSlice t_any_slice false ys)
                | _ => Err (cerr ERepr)
                end
    | KMap => match v with
              | VMap _ _ kvs =>
                  r <- fold_left (gstep (any_conv f) (any_conv f) (fun kv => mkey_seg (fst kv)) (fun _ k' => mval_seg k'))
                         kvs (Ok []) ;;
                  Ok (VMap t_any_map false r)
              | _ => Err (cerr ERepr)
              end
    | _ => Err (cerr ERepr)
    end.
Proof. reflexivity. Qed.

Lemma any_post_slice f ys : Forall (any_post f) ys -> any_post (S f) (VSlice t_any_slice false ys).
Proof.
  intros Hys. rewrite Forall_forall in Hys.
  split.
  { rewrite any_conv_S. cbn [kind_of kind_of_type underlying t_any_slice]. apply bind_ok. exists ys. split; [|reflexivity].
    apply mapMi_seg_ok. apply forall2_same. apply Forall_forall. intros y Hy. apply (Hys y Hy). }
  split; [discriminate|]. split.
  { cbn [ints_in_range swire t_any_slice]. rewrite !forallb_forall. intros H y Hy.
    destruct (Hys y Hy) as (_ & _ & Hw & _). apply Hw. apply H. exact Hy. }
  intros Hc e g Hg. destruct g as [|g]; [lia|]. assert (Hg' : (f <= g)%nat) by lia.
  cbn [any_clean] in Hc. apply andb_prop in Hc. destruct Hc as [Hc Hh].
  change (gtype_eqb t_any_slice t_any_slice) with true in Hh. cbn iota in Hh.
  rewrite forallb_forall in Hc.
  cbn [Ops.compat]. change (gtype_eqb t_any_slice t_any_slice) with true. cbn iota.
  apply bind_ok. exists tt. split.
  { apply forM_ok. intros y Hy. apply rewrap_ok. destruct (Hys y Hy) as (_ & _ & _ & Hcm). apply Hcm; [apply Hc; exact Hy | exact Hg']. }
  destruct ys as [|x0 t0]; [reflexivity|]. cbn [homog_list] in Hh.
  match goal with |- context [forallb ?F t0] => replace (forallb F t0) with true by (symmetry; exact Hh) end.
  reflexivity.
Qed.

Lemma any_post_map f r :
  Forall (fun c : gval * gval => any_post f (fst c) /\ any_post f (snd c)) r -> nodupk r ->
  any_post (S f) (VMap t_any_map false r).
Proof.
  intros Hr Hd. rewrite Forall_forall in Hr.
  split.
  { rewrite any_conv_S. cbn [kind_of kind_of_type underlying t_any_map]. apply bind_ok. exists r. split; [|reflexivity].
    apply gfold_ok. exists r. split; [|symmetry; apply mfold_self; exact Hd].
    apply forall2_same. apply Forall_forall. intros c Hc. destruct (Hr c Hc) as [(Hk & _) (Hv & _)]. split; assumption. }
  split; [discriminate|]. split.
  { cbn [ints_in_range swire t_any_map]. rewrite !forallb_forall. intros H [k x] Hin. specialize (H _ Hin). cbn beta iota in H.
    apply andb_prop in H. destruct H as [Hk Hx]. destruct (Hr _ Hin) as [(_ & _ & Hwk & _) (_ & _ & Hwx & _)]. cbn [fst snd] in *.
    rewrite (Hwk Hk), (Hwx Hx). reflexivity. }
  intros Hc e g Hg. destruct g as [|g]; [lia|]. assert (Hg' : (f <= g)%nat) by lia.
  cbn [any_clean] in Hc. apply andb_prop in Hc. destruct Hc as [Hc Hh].
  change (gtype_eqb t_any_map t_any_map) with true in Hh. cbn iota in Hh.
  rewrite forallb_forall in Hc.
  cbn [Ops.compat].
  change (gtype_eqb t_any_map t_str_map || gtype_eqb t_any_map (TMap (TInt I64) TAny)) with false.
  change (gtype_eqb t_any_map t_any_map) with true. cbn iota.
  destruct r as [|[k0 x0] t0]; [reflexivity|].
  cbn [anymap_keys_ok] in Hh. rewrite forallb_forall in Hh.
  apply forM_ok. intros kv Hin. specialize (Hh kv Hin). specialize (Hc kv Hin).
  destruct kv as [k x]. cbn [fst snd] in *. apply andb_prop in Hc. destruct Hc as [_ Hcx].
  destruct (Hr _ Hin) as [_ (_ & _ & _ & Hcm)]. cbn [snd] in Hcm.
  destruct (kind_of k) as [| | i | | | | | | | | |]; try discriminate Hh.
  - destruct i; try discriminate Hh. rewrite Hh. apply rewrap_ok. apply Hcm; assumption.
  - rewrite Hh. apply rewrap_ok. apply Hcm; assumption.
Qed.

Lemma any_facts : forall f v n, any_conv f v = Ok n -> any_post f n.
Proof.
  induction f as [|f IH]; intros v n H; [discriminate H|].
  rewrite any_conv_S in H.
  destruct (kind_of v) as [| | i | | | | | | | | |] eqn:Ek; try discriminate H.
  - (* bool *) unfold bool_ser in H. destruct (conv_bool v); inversion H. apply post_bool.
  - (* ints *)
    destruct i;
      try (destruct (int_mapper None v); inversion H; apply post_i64).
    destruct v; try discriminate H. inversion H. apply post_i64.
  - destruct (float_mapper (fun _ _ => None) None v); inversion H. apply post_f64.
  - destruct (conv_float64 v); inversion H. apply post_f64.
  - destruct v; try discriminate H. inversion H. apply post_str.
  - (* slice *)
    destruct v as [| | | | |t0 nl l| | | | |]; try discriminate H.
    apply bind_ok in H. destruct H as (ys & Hys & H). inversion H; subst n. clear H.
    apply mapMi_seg_ok in Hys. apply any_post_slice.
    clear Ek. induction Hys as [|x y l' ys' Hxy _ IHl]; constructor; [apply (IH x y Hxy) | exact IHl].
  - (* map *)
    destruct v as [| | | | | |t0 nl kvs| | | |]; try discriminate H.
    apply bind_ok in H. destruct H as (r & Hr & H). inversion H; subst n. clear H.
    apply gfold_ok in Hr. destruct Hr as (cs & Hcs & ->).
    apply any_post_map; [|apply nodupk_mfold; exact I].
    apply mfold_forall; [|constructor].
    clear Ek. induction Hcs as [|kv c l' cs' [Hk Hv] _ IHl]; constructor; [|exact IHl].
    split; [apply (IH _ _ Hk) | apply (IH _ _ Hv)].
Qed.

(* idempotence, at every larger fuel *)
Lemma any_conv_idem f v n : any_conv f v = Ok n -> forall g, (f <= g)%nat -> any_conv g n = Ok n.
Proof.
  intros H g Hg. destruct (any_facts f v n H) as (Hi & _).
  destruct (any_conv_mono f g n Hg) as [E | E]; [rewrite Hi in E; discriminate E | rewrite <- E; exact Hi].
Qed.

End Any.
