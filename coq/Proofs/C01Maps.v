(* Proofs/C01Maps.v — maps in the round trip (C01): a map whose unserialized keys are pairwise different
   serializes entry by entry (serializing a key does not change how map_set compares it), and the serialized
   map is read back entry by entry into the same list. *)
From Coq Require Import Lia.
From Verif Require Import Base.Prelude Base.Str Base.Float Base.GoVal
  Schema.Regex Schema.Units Schema.Syntax Schema.Ops Schema.Cbor Schema.Wf Schema.SpecRT Schema.C01Spec
  Proofs.OpsLemmas Proofs.C01Round Proofs.CborNorm Proofs.C01Base Proofs.OpsEq Proofs.MonoEq Proofs.C01Any Proofs.C01Facts.
Open Scope string_scope.
Open Scope Z_scope.

Section Maps.
Variable words : list (string * bool).
Variable pu : units -> string -> option fl.
Notation unser := (unser words pu).
Notation validate := (validate words pu).
Notation serialize := (serialize words pu).
Notation compat := (compat words pu).
Notation rtf := (rtf words pu).

(* serializing an unserialized key gives a value every key comparison treats like the key itself *)
Lemma key_ser_same e ks f k k' F wk : key_kind_ok ks = true ->
  unser f e ks k = Ok k' -> ints_in_range k' = true -> serialize F e ks k' = Ok wk -> ksame k' wk.
Proof.
  intros Hk H Hr Hs. destruct f as [|f]; [discriminate H|]. destruct F as [|F]; [discriminate Hs|].
  rewrite (unser_S words pu) in H. rewrite (serialize_S words pu) in Hs.
  destruct ks; try discriminate Hk; cbv beta iota in H, Hs.
  - destruct (int_rt mn mx u k k' H Hr) as (Hs' & _). rewrite Hs' in Hs. inversion Hs. apply ksame_refl.
  - destruct (string_rt mn mx pat k k' H) as (Hs' & _). rewrite Hs' in Hs. inversion Hs. apply ksame_refl.
  - destruct (enum_int_rt vals u k k' H Hr) as (Hs' & _). rewrite Hs' in Hs. inversion Hs. apply ksame_refl.
  - unfold enum_str_unser in H. destruct (string_mapper k) as [s0|]; [|discriminate H].
    destruct (enum_str_mem vals s0) eqn:Em; [|discriminate H]. inversion H; subst k'. clear H.
    unfold enum_str_ser in Hs. cbn [conv_string] in Hs. rewrite Em in Hs. inversion Hs; subst wk.
    intros c. split; destruct c; reflexivity.
Qed.

Definition entry_rt (b : bool) (e : env) (ks vs : schema) (F : nat) (c c' : gval * gval) : Prop :=
  rtf b e ks F (fst c) (fst c') /\ rtf b e vs F (snd c) (snd c') /\ ksame (fst c) (fst c').

Lemma map_rtf b e ks vs mn mx F r ws :
  size_ok mn mx (zlen r) = true -> nodupk r -> Forall2 (entry_rt b e ks vs F) r ws ->
  rtf b e (SMap ks vs mn mx) (S (S F)) (VMap (TMap (rtype ks) (rtype vs)) false r) (VMap t_any_map false ws).
Proof.
  intros Es Hd H0.
  assert (H1 : Forall2 (entry_rt b e ks vs (S F)) r ws).
  { eapply Forall2_impl; [|exact H0]. intros c c' (A & B & C). split; [|split]; [| |exact C]; eapply rtf_mono; try eassumption; lia. }
  assert (Hlenw : zlen ws = zlen r) by (symmetry; apply (zlen_forall2 _ _ _ H0)).
  assert (Hdw : nodupk ws).
  { apply (nodupk_rel r ws); [|exact Hd]. eapply Forall2_impl; [|exact H0]. intros c c' (_ & _ & C). exact C. }
  assert (Hval : forall j, Forall2 (entry_rt b e ks vs j) r ws ->
            validate (S j) e (SMap ks vs mn mx) (VMap (TMap (rtype ks) (rtype vs)) false r) = Ok tt).
  { intros j Hj. rewrite (validate_S words pu). cbv beta iota. rewrite Es. apply forM_ok. intros c Hc.
    destruct (forall2_in_l _ _ _ _ Hj Hc) as (c' & _ & (A & B & _)).
    apply bind_ok. exists tt. split; apply seg_ok; [apply (rt_val _ _ _ _ _ _ _ _ A) | apply (rt_val _ _ _ _ _ _ _ _ B)]. }
  constructor.
  - cbn [swire t_any_map]. apply forallb_forall. intros [wk wx] Hw.
    destruct (forall2_in_r _ _ _ _ H0 Hw) as (c & _ & (A & B & _)). cbn [fst snd] in A, B.
    rewrite (rt_wire _ _ _ _ _ _ _ _ A), (rt_wire _ _ _ _ _ _ _ _ B). reflexivity.
  - discriminate.
  - apply Hval. exact H1.
  - rewrite (serialize_S words pu). cbv beta iota. apply bind_ok. exists tt. split; [apply Hval; exact H0|].
    apply bind_ok. exists ws. split; [|reflexivity].
    change (fold_left (gstep (serialize (S F) e ks) (serialize (S F) e vs) (fun kv => mkey_seg (fst kv)) (fun kv _ => mval_seg (fst kv)))
              r (Ok []) = Ok ws).
    apply gfold_ok. exists ws. split; [|symmetry; apply mfold_self; exact Hdw].
    eapply Forall2_impl; [|exact H1]. intros c c' (A & B & _). split; [apply (rt_ser _ _ _ _ _ _ _ _ A) | apply (rt_ser _ _ _ _ _ _ _ _ B)].
  - rewrite (unser_S words pu). cbv beta iota. rewrite Hlenw, Es. apply bind_ok. exists r. split; [|reflexivity].
    change (fold_left (gstep (unser (S F) e ks) (unser (S F) e vs) (fun kv => mkey_seg (fst kv)) (fun kv _ => mval_seg (fst kv)))
              ws (Ok []) = Ok r).
    apply gfold_ok. exists r. split; [|symmetry; apply mfold_self; exact Hd].
    assert (X : Forall2 (fun c c' : gval * gval => conv_pair (unser (S F) e ks) (unser (S F) e vs) c' c) r ws).
    { eapply Forall2_impl; [|exact H1]. intros c c' (A & B & _).
      split; [apply (rt_uns _ _ _ _ _ _ _ _ A) | apply (rt_uns _ _ _ _ _ _ _ _ B)]. }
    apply Forall2_flip in X. exact X.
  - intros Hb. rewrite (compat_S words pu). cbv beta iota. rewrite Es. apply forM_ok. intros c Hc.
    destruct (forall2_in_l _ _ _ _ H1 Hc) as (c' & _ & (A & B & _)).
    apply bind_ok. exists tt. split; apply seg_ok; [apply (rt_cmp _ _ _ _ _ _ _ _ A Hb) | apply (rt_cmp _ _ _ _ _ _ _ _ B Hb)].
  - intros ps Hm. discriminate Hm.
Qed.

(* the map branch of Unserialize, with pairwise different converted keys: the result is the list of converted
   entries in input order *)
Lemma unser_map_distinct e ks vs mn mx f v n :
  unser (S f) e (SMap ks vs mn mx) v = Ok n -> distinct_in words pu (S f) e (SMap ks vs mn mx) v = true ->
  exists t0 nl kvs cs, v = VMap t0 nl kvs /\ n = VMap (TMap (rtype ks) (rtype vs)) false cs
    /\ size_ok mn mx (zlen cs) = true /\ nodupk cs
    /\ Forall2 (conv_pair (unser f e ks) (unser f e vs)) kvs cs
    /\ forallb (fun kv : gval * gval => distinct_in words pu f e ks (fst kv) && distinct_in words pu f e vs (snd kv)) kvs = true.
Proof.
  intros H Hdi. rewrite (unser_S words pu) in H. cbv beta iota in H.
  destruct v as [| | | | | |t0 nl kvs| | | |]; try discriminate H.
  destruct (size_ok mn mx (zlen kvs)) eqn:Es; [|discriminate H].
  apply bind_ok in H. destruct H as (r & Hr & H). inversion H; subst n. clear H.
  change (fold_left (gstep (unser f e ks) (unser f e vs) (fun kv => mkey_seg (fst kv)) (fun kv _ => mval_seg (fst kv)))
            kvs (Ok []) = Ok r) in Hr.
  apply gfold_ok in Hr. destruct Hr as (cs & Hcs & ->).
  cbn [distinct_in] in Hdi. apply andb_prop in Hdi. destruct Hdi as [Hnd Hch].
  rewrite (conv_pairs_keys _ _ _ _ Hcs) in Hnd. apply nodupkb_nodupk in Hnd.
  rewrite (mfold_self cs Hnd).
  exists t0, nl, kvs, cs. split; [reflexivity|]. split; [reflexivity|].
  split; [rewrite <- (zlen_forall2 _ _ _ Hcs); exact Es|]. split; [exact Hnd|]. split; [exact Hcs | exact Hch].
Qed.

End Maps.
