(* Proofs/C05Examples.v — executable side of the composition ATP/System.v:
     sys_quietb   a boolean check "no label of the composed system is enabled" over finitely many labels, sound for
                  sys_final (so that maximal executions can be exhibited by vm_compute);
     a concrete session of THREE OVERLAPPING calls (a: slow success, b: success, c: input rejected) with a schedule in
     which the answers come back in the order b, c, a, the read loop reads ahead, and every goroutine runs to its end;
     the known finding D26 for the version-1 framing: two overlapping calls, the second caller reads first. *)
From Coq Require Import Lia.
From Verif Require Import Base.Prelude Base.Str ATP.Msg ATP.System.
From Verif Require Proofs.Server Proofs.ATPClientInv.
Local Open Scope string_scope.
Local Open Scope list_scope.
Local Open Scope nat_scope.

Definition dis (g : scfg) (s : sstate) (y : slabel) : bool := negb (C.osome (sys_step g s y)).

Definition sys_quietb (g : scfg) (s : sstate) : bool :=
  let ic := seq 0 (List.length (C.callers (cl s))) in
  let iw := seq 0 (List.length (S.workers (sv s))) in
  forallb (fun i => dis g s (YClient (C.LCaller i))) ic &&
  forallb (fun i => dis g s (YClient (C.LSig i))) ic &&
  dis g s (YClient (C.LLoop 0)) && dis g s (YClient C.LCloser) && dis g s (YClient C.LTimeout) &&
  dis g s YPipe && dis g s (YServer S.LRead) && dis g s (YServer (S.LHandler true)) &&
  dis g s (YServer (S.LHandler false)) &&
  forallb (fun i => dis g s (YServer (S.LWorker i))) iw &&
  forallb (fun w => match S.w_pc w with S.WCall => false | _ => true end) (S.workers (sv s)).

Lemma dis_none : forall g s y, dis g s y = true -> sys_step g s y = None.
Proof. intros g s y H. unfold dis in H. destruct (sys_step g s y); [discriminate|reflexivity]. Qed.

Lemma loop0_none : forall (cs : C.state Z) k, C.step cs (C.LLoop 0) = None -> C.step cs (C.LLoop k) = None.
Proof.
  intros cs k H. destruct k as [|k]; [exact H|]. cbn [C.step] in *. unfold C.step_loop in *.
  destruct (C.cur cs) as [lo|]; [|reflexivity]. destruct (C.l_pc lo); try reflexivity.
  destruct (C.l_buf lo) as [|ev rest]; [|reflexivity].
  destruct (C.from_server cs) as [|ev q]; [reflexivity|].
  destruct (C.is_fault ev); [reflexivity|]. exfalso. cbn in H. destruct ev; discriminate H.
Qed.

Lemma sys_quietb_final : forall g s, sys_quietb g s = true -> sys_final g s.
Proof.
  intros g s H. unfold sys_quietb in H.
  repeat match type of H with _ && _ = true => let H' := fresh "Q" in apply andb_true_iff in H; destruct H as [H H'] end.
  rename H into Q10. rewrite forallb_forall in Q10, Q8, Q0, Q.
  intros y. destruct y as [l| |l|t].
  - destruct l as [i|i|k| | | |r]; try reflexivity.
    + destruct (Nat.lt_ge_cases i (List.length (C.callers (cl s)))) as [Hlt|Hge].
      * apply dis_none. apply Q10. apply in_seq. lia.
      * apply nth_error_None in Hge. cbn. unfold C.step_caller. rewrite Hge. reflexivity.
    + destruct (Nat.lt_ge_cases i (List.length (C.callers (cl s)))) as [Hlt|Hge].
      * apply dis_none. apply Q8. apply in_seq. lia.
      * apply nth_error_None in Hge. cbn. unfold C.step_sig. rewrite Hge. reflexivity.
    + apply dis_none in Q7. cbn in Q7 |- *.
      destruct (C.step_loop (cl s) 0) eqn:E0; [discriminate Q7|].
      change (C.step_loop (cl s) k) with (C.step (cl s) (C.LLoop k)). rewrite (loop0_none _ k E0). reflexivity.
    + apply dis_none. exact Q6.
    + apply dis_none. exact Q5.
  - apply dis_none. exact Q4.
  - destruct l as [ev|t| | | |b|i]; try reflexivity.
    + apply dis_none. exact Q3.
    + destruct b; apply dis_none; assumption.
    + destruct (Nat.lt_ge_cases i (List.length (S.workers (sv s)))) as [Hlt|Hge].
      * apply dis_none. apply Q0. apply in_seq. lia.
      * cbn. unfold srv_step. rewrite (Verif.Proofs.Server.worker_out_of_range _ _ _ Hge). reflexivity.
  - cbn. replace (existsb (blocked_on (sc_srv g) (sv s) t) (S.workers (sv s))) with false; [reflexivity|].
    symmetry. apply not_true_is_false. intros E. apply existsb_exists in E. destruct E as (w & Hin & Hb).
    specialize (Q w Hin). unfold blocked_on in Hb. destruct (S.w_pc w); discriminate.
Qed.

(* ---- a session of three overlapping calls ---- *)
Definition ex_g : scfg :=
  mkSCfg (S.mkCfg (fun t => if Z.eqb t 2 then S.BFails else S.BSuccess (if Z.eqb t 1 then "success" else "other"))
                  (fun t => Z.eqb t 1) (fun st => String.eqb st "s") (fun sg => String.eqb sg "sg"))
         (fun t => (t * 10)%Z).

Definition ex_calls : list (C.callspec Z) :=
  [C.mkCall "a" None None false 1%Z; C.mkCall "b" None None false 3%Z; C.mkCall "c" None None false 2%Z].

Definition ex_sched : list slabel :=
  [ YClient (C.LCaller 0); YClient (C.LCaller 1); YClient (C.LCaller 2);       (* prepare a, b, c; a starts the read loop *)
    YClient (C.LCaller 0); YClient (C.LCaller 1); YClient (C.LCaller 2);       (* the three work-starts are written *)
    YPipe; YPipe; YPipe; YServer S.LRead; YServer S.LRead; YServer S.LRead;    (* three step goroutines *)
    YServer (S.LWorker 1); YServer (S.LWorker 1);                              (* b finishes first: work-done(b) *)
    YServer (S.LWorker 2); YServer (S.LWorker 2);                              (* c: input rejected, reported *)
    YServer (S.LHandler true); YServer (S.LHandler true);                      (* ... forwarded: error message of run c *)
    YClient (C.LCaller 0); YClient (C.LCaller 1); YClient (C.LCaller 2);       (* all three wait *)
    YClient (C.LLoop 1); YClient (C.LLoop 0); YClient (C.LLoop 0);             (* decode work-done(b) + read ahead; handle *)
    YClient (C.LLoop 0); YClient (C.LLoop 0); YClient (C.LLoop 0);             (* the error of c from the read-ahead buffer *)
    YClient (C.LCaller 1); YClient (C.LCaller 2);                              (* b and c return *)
    YRelease 1%Z; YServer (S.LWorker 0); YServer (S.LWorker 0); YServer (S.LWorker 0);   (* a's slow handler *)
    YServer (S.LWorker 1); YServer (S.LWorker 2);
    YClient (C.LLoop 0); YClient (C.LLoop 0); YClient (C.LLoop 0);             (* work-done(a); nothing pending: loop exits *)
    YClient (C.LCaller 0) ].

Definition ex_final : option sstate := sys_run ex_g (sys_init ex_calls false) ex_sched.

Lemma ex_run_ok :
  match ex_final with
  | Some s => sys_quietb ex_g s = true /\
              sys_result s 0 = Some (C.ROk "success" 10%Z) /\
              sys_result s 1 = Some (C.ROk "other" 30%Z) /\
              sys_result s 2 = Some (C.RErr C.ErrStep)
  | None => False
  end.
Proof. vm_compute. repeat split; reflexivity. Qed.

(* ---- D26: version 1, two overlapping calls ---- *)
Definition v1_g : scfg :=
  mkSCfg (S.mkCfg (fun t => S.BSuccess (if Z.eqb t 1 then "out-A" else "out-B")) (fun _ => false)
                  (fun st => String.eqb st "s") (fun _ => false))
         (fun t => (t * 10)%Z).
Definition v1_sched : list v1label :=
  [V1Caller 0; V1Caller 1; V1Server; V1Server; V1Caller 1; V1Caller 0].

Lemma v1_cross_delivery :
  exists s, v1_run v1_g (v1_init [1%Z; 2%Z]) v1_sched = Some s /\ v1_final v1_g s /\
            v1_result s 0 = Some (spec_callstep v1_g 2%Z) /\ v1_result s 1 = Some (spec_callstep v1_g 1%Z) /\
            spec_callstep v1_g 1%Z <> spec_callstep v1_g 2%Z.
Proof.
  eexists. split; [vm_compute; reflexivity|]. split; [|split; [reflexivity|split; [reflexivity|discriminate]]].
  intros l. destruct l as [i|]; [|reflexivity].
  destruct i as [|[|i]]; cbn; try reflexivity. destruct i; reflexivity.
Qed.

Lemma v1_refuted :
  exists (g : scfg) (inputs : list Z) (sched : list v1label) (s : v1state),
    List.length inputs = 2 /\ v1_run g (v1_init inputs) sched = Some s /\ v1_final g s /\
    exists i t t', nth_error inputs i = Some t /\ v1_result s i = Some (spec_callstep g t') /\
                   spec_callstep g t' <> spec_callstep g t.
Proof.
  destruct v1_cross_delivery as (s & H & F & R0 & R1 & Hne).
  exists v1_g, [1%Z; 2%Z], v1_sched, s. split; [reflexivity|split; [exact H|split; [exact F|]]].
  exists 0, 1%Z, 2%Z. split; [reflexivity|split; [exact R0|]]. intros E. apply Hne. symmetry. exact E.
Qed.

Lemma ex_refines :
  exists s, ex_final = Some s /\ sys_final ex_g s /\
            sys_result s 0 = Some (C.ROk "success" 10%Z) /\
            sys_result s 1 = Some (C.ROk "other" 30%Z) /\
            sys_result s 2 = Some (C.RErr C.ErrStep).
Proof.
  pose proof ex_run_ok as H. destruct ex_final as [s|] eqn:E; [|contradiction].
  destruct H as (Q & R0 & R1 & R2). exists s. split; [reflexivity|split; [apply sys_quietb_final; exact Q|repeat split; assumption]].
Qed.

Lemma ex_hyps :
  (forall x, In x ex_calls -> C.cs_run x <> "") /\
  Verif.Proofs.ATPClientInv.wf_session (sys_session ex_calls false).
Proof.
  split.
  - intros x [<-|[<-|[<-|[]]]]; discriminate.
  - split; [|reflexivity]. cbn.
    repeat constructor; cbn; intuition discriminate.
Qed.
