(* Proofs/C01OneOf.v — one-of (discriminator not inlined) in the round trip (C01).  Unserialize hands the map
   without the discriminator to the selected member (an object, possibly through a reference / scope), and
   re-attaches the TYPED discriminator at the end (the repair of D12); Validate / Serialize find the member by that
   typed discriminator, run the member's ValidateCompatibility on the data, delegate, and Serialize re-attaches the
   discriminator; Unserialize of the serialized map reads the typed discriminator back to the same key. *)
From Coq Require Import Lia.
From Verif Require Import Base.Prelude Base.Str Base.Float Base.GoVal
  Schema.Regex Schema.Units Schema.Syntax Schema.Ops Schema.Cbor Schema.Wf Schema.SpecRT Schema.SpecObj Schema.C01Spec
  Proofs.OpsLemmas Proofs.C01Round Proofs.CborNorm Proofs.C03Obj Proofs.C04Inv Proofs.C01Base Proofs.OpsEq Proofs.MonoEq
  Proofs.C01Any Proofs.C01Facts Proofs.C01Objects.
Open Scope string_scope.
Open Scope Z_scope.

Notation rawv r := (map (fun kv : string * gval => (vstr (fst kv), snd kv)) r).

Lemma okey_eqb_eq a b : okey_eqb a b = true -> a = b.
Proof.
  destruct a, b; cbn [okey_eqb]; try discriminate; intros H;
    [apply Z.eqb_eq in H | apply String.eqb_eq in H]; subst; reflexivity.
Qed.

Lemma smap_get_app f l1 l2 :
  smap_get f (l1 ++ l2) = match smap_get f l1 with Some y => Some y | None => smap_get f l2 end.
Proof.
  induction l1 as [|[k x] t IH]; [reflexivity|]. cbn [app smap_get].
  destruct k; cbn [smap_get]; try exact IH. destruct (String.eqb f s); [reflexivity | exact IH].
Qed.

Lemma smap_get_raw f (r : raw) : smap_get f (rawv r) = alookup f r.
Proof.
  induction r as [|[k x] t IH]; [reflexivity|]. cbn [map fst snd vstr smap_get alookup].
  destruct (String.eqb f k); [reflexivity | exact IH].
Qed.

Lemma smap_del_app f l1 l2 : smap_del f (l1 ++ l2) = (smap_del f l1 ++ smap_del f l2)%list.
Proof.
  induction l1 as [|[k x] t IH]; [reflexivity|]. cbn [app smap_del].
  destruct k; cbn [smap_del app]; try (rewrite IH; reflexivity).
  destruct (String.eqb f s); [exact IH | cbn [app]; rewrite IH; reflexivity].
Qed.

Lemma smap_del_raw f (r : raw) : alookup f r = None -> smap_del f (rawv r) = rawv r.
Proof.
  induction r as [|[k x] t IH]; [reflexivity|]. cbn [alookup map fst snd vstr smap_del].
  destruct (String.eqb f k); [discriminate|]. intros H. rewrite (IH H). reflexivity.
Qed.

Lemma knew_raw f (r : raw) : alookup f r = None ->
  Forall (fun kv : gval * gval => key_eqb (vstr f) (fst kv) = false) (rawv r).
Proof.
  induction r as [|[k x] t IH]; cbn [alookup map]; intros H; constructor.
  - cbn [fst snd vstr key_eqb]. destruct (String.eqb f k); [discriminate H | reflexivity].
  - apply IH. destruct (String.eqb f k); [discriminate H | exact H].
Qed.

Lemma raw_to_val_inj r r' : raw_to_val r = raw_to_val r' -> r = r'.
Proof.
  unfold raw_to_val. intros H. inversion H as [H1]. clear H. revert r' H1.
  induction r as [|[k x] t IH]; intros [|[k' x'] t'] H; try discriminate H; [reflexivity|].
  cbn [map fst snd vstr] in H. inversion H; subst. f_equal. apply IH. assumption.
Qed.

Lemma is_str_any_map_strmap l : is_str_any_map (VMap t_str_map false l) = Some l.
Proof. reflexivity. Qed.

Section OneOf.
Variable words : list (string * bool).
Variable pu : units -> string -> option fl.
Notation unser := (unser words pu).
Notation validate := (validate words pu).
Notation serialize := (serialize words pu).
Notation compat := (compat words pu).
Notation oneof_find := (oneof_find words pu).
Notation rtf := (rtf words pu).

Lemma wf_obj_nodup e id u props : Inv wf_local e (SObject id u props) -> NoDup (map fst props).
Proof.
  intros Hwf. pose proof (inv_here wf_local e _ Hwf) as Hl. cbn [wf_local] in Hl. apply andb_prop in Hl. destruct Hl as [Hl _].
  apply nodup_str_NoDup. exact Hl.
Qed.

Lemma obj_unser_shape e id u props f v x : Inv wf_local e (SObject id u props) ->
  unser f e (SObject id u props) v = Ok x -> distinct_in words pu f e (SObject id u props) v = true ->
  exists r2, x = raw_to_val r2 /\ forall k, In k (map fst r2) -> amem k props = true.
Proof.
  intros Hwf H Hdi. destruct f as [|f]; [discriminate H|].
  destruct (unser_obj_inv words pu e id u props f v x (wf_obj_nodup e id u props Hwf) H Hdi) as (r2 & -> & _ & _ & _ & Hent).
  exists r2. split; [reflexivity|]. intros k Hin. apply in_map_iff in Hin. destruct Hin as ([k' y] & E & Hin). cbn [fst] in E. subst k'.
  destruct (Hent k y Hin) as (p & d & Hp & _). apply amem_alookup. eauto.
Qed.

(* what a one-of member (object, reference to an object, scope) returns: a map[string]any with declared keys *)
Lemma member_unser_shape e m ps f v x : Inv wf_local e m -> member_props e m = Some ps ->
  unser f e m v = Ok x -> distinct_in words pu f e m v = true ->
  exists r2, x = raw_to_val r2 /\ forall k, In k (map fst r2) -> amem k ps = true.
Proof.
  intros Hwf Hm H Hdi. destruct m; try (cbn in Hm; discriminate Hm).
  - cbn [member_props] in Hm. inversion Hm; subst. apply (obj_unser_shape e id unenforced ps f v x); assumption.
  - cbn [member_props] in Hm. destruct (resolve e id ns) as [[o e']|] eqn:Hres; [|discriminate Hm].
    destruct o; try discriminate Hm. inversion Hm; subst.
    destruct f as [|f]; [discriminate H|]. rewrite (unser_S words pu) in H. cbv beta iota in H. rewrite Hres in H.
    cbn [distinct_in] in Hdi. rewrite Hres in Hdi.
    apply (obj_unser_shape e' id0 unenforced ps f v x); [|exact H | exact Hdi].
    apply (inv_ref wf_local e id ns d _ e' Hwf Hres).
  - cbn [member_props] in Hm. destruct (alookup root objs) as [o|] eqn:Hres; [|discriminate Hm].
    destruct o; try discriminate Hm. inversion Hm; subst.
    destruct f as [|f]; [discriminate H|]. rewrite (unser_S words pu) in H. cbv beta iota in H. rewrite Hres in H.
    cbn [distinct_in] in Hdi. rewrite Hres in Hdi.
    apply (obj_unser_shape (env_enter e objs) id unenforced ps f v x); [|exact H | exact Hdi].
    apply (inv_scope wf_local e objs root _ Hwf Hres).
Qed.

(* the value a member returns for a declared property the raw map supplies (through a reference / scope too) *)
Lemma member_field_value e m ps f t nl kvs n k p d : Inv wf_local e m -> member_props e m = Some ps ->
  unser f e m (VMap t nl kvs) = Ok n -> alookup k ps = Some p -> smap_get k kvs = Some d ->
  exists r2 y f' e', n = raw_to_val r2 /\ alookup k r2 = Some y /\ unser f' e' (p_type p) d = Ok y.
Proof.
  intros Hwf Hm H Hp Hd. destruct m; try (cbn in Hm; discriminate Hm).
  - cbn [member_props] in Hm. inversion Hm; subst. destruct f as [|f]; [discriminate H|].
    destruct (obj_field_value words pu e id unenforced ps f t nl kvs n k p d (wf_obj_nodup e id unenforced ps Hwf) H Hp Hd)
      as (r2 & y & A & B & C). exists r2, y, f, e. auto.
  - cbn [member_props] in Hm. destruct (resolve e id ns) as [[o e']|] eqn:Hres; [|discriminate Hm].
    destruct o; try discriminate Hm. inversion Hm; subst.
    destruct f as [|f]; [discriminate H|]. rewrite (unser_S words pu) in H. cbv beta iota in H. rewrite Hres in H.
    destruct f as [|f]; [discriminate H|].
    pose proof (inv_ref wf_local e id ns d0 _ e' Hwf Hres) as Hwf'.
    destruct (obj_field_value words pu e' id0 unenforced ps f t nl kvs n k p d (wf_obj_nodup e' id0 unenforced ps Hwf') H Hp Hd)
      as (r2 & y & A & B & C). exists r2, y, f, e'. auto.
  - cbn [member_props] in Hm. destruct (alookup root objs) as [o|] eqn:Hres; [|discriminate Hm].
    destruct o; try discriminate Hm. inversion Hm; subst.
    destruct f as [|f]; [discriminate H|]. rewrite (unser_S words pu) in H. cbv beta iota in H. rewrite Hres in H.
    destruct f as [|f]; [discriminate H|].
    pose proof (inv_scope wf_local e objs root _ Hwf Hres) as Hwf'.
    destruct (obj_field_value words pu (env_enter e objs) id unenforced ps f t nl kvs n k p d
                (wf_obj_nodup (env_enter e objs) id unenforced ps Hwf') H Hp Hd) as (r2 & y & A & B & C).
    exists r2, y, f, (env_enter e objs). auto.
Qed.

(* a plain discriminator property returns exactly the typed key the one-of computed from the same raw value ... *)
Lemma plain_typed ik t f e d y key : disc_type_ok ik t = true -> disc_plain t = true ->
  unser f e t d = Ok y -> discr_denotes ik d key -> typed_discr ik y = Some key /\ y <> VNil.
Proof.
  intros Hdt Hpl H Hk. destruct f as [|f]; [discriminate H|]. rewrite (unser_S words pu) in H.
  unfold discr_denotes in Hk. destruct ik.
  - destruct Hk as (z & Hz & ->).
    destruct t; cbn in Hdt; try discriminate Hdt; cbv beta iota in H.
    + destruct u; cbn in Hpl; [discriminate Hpl|]. unfold int_unser in H. rewrite Hz in H. unfold int_bounds in H.
      destruct (size_ok mn mx z); inversion H. split; [reflexivity | discriminate].
    + destruct u; cbn in Hpl; [discriminate Hpl|]. unfold enum_int_unser in H. rewrite Hz in H.
      destruct (enum_int_mem vals z); inversion H. split; [reflexivity | discriminate].
  - destruct Hk as (s & Hs & ->).
    destruct t; cbn in Hdt; try discriminate Hdt; cbv beta iota in H.
    + unfold string_unser in H. rewrite Hs in H. unfold string_check in H.
      destruct (size_ok mn mx (slen s)); [|discriminate H].
      destruct pat as [[src r]|]; [destruct (re_match_string r s)|]; inversion H; (split; [reflexivity | discriminate]).
    + destruct named; cbn in Hpl; [discriminate Hpl|]. unfold enum_str_unser in H. rewrite Hs in H.
      destruct (enum_str_mem vals s); inversion H. split; [reflexivity | discriminate].
Qed.

(* ... and reads its own serialized form back to that key *)
Lemma plain_denotes ik t f e wd y key : disc_type_ok ik t = true -> disc_plain t = true ->
  unser f e t wd = Ok y -> typed_discr ik y = Some key -> discr_denotes ik wd key.
Proof.
  intros Hdt Hpl H Hk. destruct f as [|f]; [discriminate H|]. rewrite (unser_S words pu) in H.
  unfold discr_denotes. destruct ik.
  - destruct t; cbn in Hdt; try discriminate Hdt; cbv beta iota in H.
    + destruct u; cbn in Hpl; [discriminate Hpl|]. unfold int_unser in H.
      destruct (int_mapper None wd) as [z|] eqn:Ez; [|discriminate H]. unfold int_bounds in H.
      destruct (size_ok mn mx z); inversion H; subst y. cbn in Hk. inversion Hk. exists z. split; reflexivity.
    + destruct u; cbn in Hpl; [discriminate Hpl|]. unfold enum_int_unser in H.
      destruct (int_mapper None wd) as [z|] eqn:Ez; [|discriminate H].
      destruct (enum_int_mem vals z); inversion H; subst y. cbn in Hk. inversion Hk. exists z. split; reflexivity.
  - destruct t; cbn in Hdt; try discriminate Hdt; cbv beta iota in H.
    + unfold string_unser in H. destruct (string_mapper wd) as [s|] eqn:Es; [|discriminate H]. unfold string_check in H.
      destruct (size_ok mn mx (slen s)); [|discriminate H].
      destruct pat as [[src r]|]; [destruct (re_match_string r s)|]; inversion H; subst y; cbn in Hk; inversion Hk;
        exists s; split; reflexivity.
    + destruct named; cbn in Hpl; [discriminate Hpl|]. unfold enum_str_unser in H.
      destruct (string_mapper wd) as [s|] eqn:Es; [|discriminate H].
      destruct (enum_str_mem vals s); inversion H; subst y. cbn in Hk. inversion Hk. exists s. split; reflexivity.
Qed.

Lemma oneof_rtf f :
  (forall e s v n, Inv wf_local e s -> Inv (c01_local true) e s -> unser f e s v = Ok n ->
     distinct_in words pu f e s v = true -> ints_in_range n = true -> any_clean n = true ->
     exists w, rtf true e s (2 * f) n w) ->
  forall e types ik field inlined v n,
  Inv wf_local e (SOneOf types ik field inlined) -> Inv (c01_local true) e (SOneOf types ik field inlined) ->
  unser (S f) e (SOneOf types ik field inlined) v = Ok n ->
  distinct_in words pu (S f) e (SOneOf types ik field inlined) v = true -> ints_in_range n = true ->
  any_clean n = true ->
  exists w, rtf true e (SOneOf types ik field inlined) (S (S (2 * f))) n w.
Proof.
  intros IH e types ik field inlined v n Hwf Hsc H Hdi Hr Hac.
  apply (oneof_unser_iff words pu) in H.
  destruct H as (t & nl & kvs & d & key & k0 & member & x & -> & Hkeys & Ed & Hkey & Ef & Hx & En).
  (* the selected member *)
  destruct (find_some _ _ Ef) as [Hin Hke]. cbn [fst] in Hke. apply okey_eqb_eq in Hke. subst k0.
  pose proof (inv_here wf_local e _ Hwf) as Hl. cbn [wf_local] in Hl. apply andb_prop in Hl. destruct Hl as [_ Hmem].
  rewrite forallb_forall in Hmem. specialize (Hmem _ Hin). unfold wf_member in Hmem. cbn [fst snd] in Hmem.
  apply andb_prop in Hmem. destruct Hmem as [Hmem Hmp]. apply andb_prop in Hmem. destruct Hmem as [Hkis _].
  destruct (member_props e member) as [ps|] eqn:Emp; [|discriminate Hmp].
  cbn [distinct_in] in Hdi. rewrite Ed in Hdi. rewrite (proj2 (discr_denotes_iff ik d key) Hkey) in Hdi. rewrite Ef in Hdi.
  assert (Hwfm : Inv wf_local e member) by (apply (inv_member wf_local e types ik field inlined (key, member) Hwf Hin)).
  assert (Hscm : Inv (c01_local true) e member) by (apply (inv_member (c01_local true) e types ik field inlined (key, member) Hsc Hin)).
  destruct (member_unser_shape e member ps f _ x Hwfm Emp Hx Hdi) as (r2 & -> & Hdecl).
  rewrite is_str_any_map_raw in En.
  pose proof (inv_here (c01_local true) e _ Hsc) as Hloc. cbn [c01_local andb] in Hloc.
  destruct inlined.
  { (* ---- the discriminator is a property of the member ---- *)
    cbv iota in Hx, Hdi, En. subst n. cbn [negb orb] in Hloc.
    rewrite forallb_forall in Hloc. specialize (Hloc _ Hin). unfold c01_member_plain in Hloc. cbn [snd] in Hloc. rewrite Emp in Hloc.
    destruct (alookup field ps) as [pf|] eqn:Efp; [|discriminate Hloc]. cbn [andb] in Hmp.
    destruct (IH e member _ (raw_to_val r2) Hwfm Hscm Hx Hdi Hr Hac) as (wx & Hwx).
    destruct (rt_shape _ _ _ _ _ _ _ _ Hwx ps Emp) as (r2' & out & E1 & -> & Hko & _).
    apply raw_to_val_inj in E1. subst r2'.
    assert (Hwx1 : rtf true e member (S (2 * f)) (raw_to_val r2) (raw_to_val out)) by (apply (rtf_mono words pu true e member (2 * f)); [lia | exact Hwx]).
    destruct (member_field_value e member ps f t_str_map false kvs (raw_to_val r2) field pf d Hwfm Emp Hx Efp Ed)
      as (r2' & yd & f1 & e1 & E1 & Hyd & Hud).
    apply raw_to_val_inj in E1. subst r2'.
    destruct (plain_typed ik (p_type pf) f1 e1 d yd key Hmp Hloc Hud Hkey) as [Htd Hnn].
    assert (Hwd : exists wd, alookup field out = Some wd).
    { apply amem_alookup. apply amem_keys. rewrite Hko. apply amem_keys. apply amem_alookup. eauto. }
    destruct Hwd as (wd & Hwd).
    destruct (member_field_value e member ps (S (2 * f)) t_str_map false (rawv out) (raw_to_val r2) field pf wd Hwfm Emp
                (rt_uns _ _ _ _ _ _ _ _ Hwx1) Efp) as (r2' & yd' & f2 & e2 & E1 & Hyd' & Hud').
    { rewrite smap_get_raw. exact Hwd. }
    apply raw_to_val_inj in E1. subst r2'. assert (yd' = yd) by congruence. subst yd'.
    pose proof (plain_denotes ik (p_type pf) f2 e2 wd yd key Hmp Hloc Hud' Htd) as Hden.
    assert (Hfind : forall j, (2 * f <= j)%nat ->
              oneof_find (S j) e types ik field true (raw_to_val r2) = Ok (key, member, raw_to_val r2)).
    { intros j Hj. apply (oneof_find_iff words pu). exists (rawv r2), yd, key.
      split; [reflexivity|]. split; [rewrite smap_get_raw; exact Hyd|]. split; [exact Hnn|]. split; [exact Htd|]. split; [exact Ef|].
      split; [reflexivity|].
      apply (compat_mono words pu (2 * f) j e member _ _ Hj (rt_cmp _ _ _ _ _ _ _ _ Hwx eq_refl)). discriminate. }
    exists (raw_to_val out). constructor.
    - exact (rt_wire _ _ _ _ _ _ _ _ Hwx).
    - discriminate.
    - apply (validate_oneof_iff words pu). exists key, member, (raw_to_val r2). split; [apply Hfind; lia | apply (rt_val _ _ _ _ _ _ _ _ Hwx1)].
    - rewrite (serialize_S words pu). cbv beta iota. rewrite (Hfind (2 * f)%nat) by lia. cbn [bind]. cbv beta iota zeta.
      rewrite (rt_ser _ _ _ _ _ _ _ _ Hwx1). cbn [bind]. rewrite is_str_any_map_raw. cbv beta iota.
      rewrite smap_get_raw, Hwd. reflexivity.
    - apply (oneof_unser_iff words pu). unfold oneof_routes.
      exists t_str_map, false, (rawv out), wd, key, key, member, (raw_to_val r2).
      split; [reflexivity|]. split.
      { intros kv Hkv. apply in_map_iff in Hkv. destruct Hkv as (c & <- & _). exists (fst c). reflexivity. }
      split; [rewrite smap_get_raw; exact Hwd|]. split; [exact Hden|]. split; [exact Ef|]. split.
      { cbv iota. exact (rt_uns _ _ _ _ _ _ _ _ Hwx1). }
      rewrite is_str_any_map_raw. reflexivity.
    - intros _. rewrite (compat_S words pu). cbv beta iota. rewrite is_str_any_map_raw. cbv beta iota.
      rewrite (Hfind (2 * f)%nat) by lia. reflexivity.
    - intros ps' Hm. discriminate Hm. }
  (* ---- the discriminator is not inlined ---- *)
  cbv iota in Hx, Hdi, En. clear Hloc.
  destruct (alookup field ps) as [pf|] eqn:Efp; [cbn [andb] in Hmp; discriminate Hmp|]. clear Hmp.
  assert (Hfr : alookup field r2 = None).
  { destruct (alookup field r2) as [y|] eqn:E0; [|reflexivity]. exfalso.
    assert (Ht : amem field ps = true) by (apply Hdecl; apply amem_keys; apply amem_alookup; eauto).
    apply amem_alookup in Ht. destruct Ht as (p0 & Hp0). congruence. }
  rewrite (map_set_new' _ _ _ (knew_raw field r2 Hfr)) in En. subst n.
  set (disc := okey_val key) in *.
  (* the parts of n *)
  cbn [ints_in_range] in Hr. rewrite forallb_app in Hr. apply andb_prop in Hr. destruct Hr as [Hrx Hrd].
  change (ints_in_range (raw_to_val r2) = true) in Hrx.
  cbn [forallb] in Hrd. apply andb_prop in Hrd. destruct Hrd as [Hrd _]. apply andb_prop in Hrd. destruct Hrd as [_ Hrd].
  cbn [any_clean] in Hac. apply andb_prop in Hac. destruct Hac as [Hac _]. rewrite forallb_app in Hac.
  apply andb_prop in Hac. destruct Hac as [Hacx _].
  assert (Hacx' : any_clean (raw_to_val r2) = true).
  { unfold raw_to_val. cbn [any_clean]. rewrite Hacx. reflexivity. }
  destruct (IH e member _ (raw_to_val r2) Hwfm Hscm Hx Hdi Hrx Hacx') as (wx & Hwx).
  destruct (rt_shape _ _ _ _ _ _ _ _ Hwx ps Emp) as (r2' & out & E1 & -> & Hko & _).
  apply raw_to_val_inj in E1. subst r2'.
  assert (Hfo : alookup field out = None).
  { apply alookup_None_notin. rewrite Hko. apply alookup_None_notin. exact Hfr. }
  assert (Hwx1 : rtf true e member (S (2 * f)) (raw_to_val r2) (raw_to_val out)) by (apply (rtf_mono words pu true e member (2 * f)); [lia | exact Hwx]).
  assert (Hdnn : disc <> VNil) by (unfold disc; destruct key; discriminate).
  assert (Htd : typed_discr ik disc = Some key).
  { unfold disc. destruct ik, key; cbn in Hkis; try discriminate Hkis; reflexivity. }
  assert (Hget : forall r : raw, alookup field r = None -> smap_get field (rawv r ++ [(vstr field, disc)]) = Some disc).
  { intros r Hn. rewrite smap_get_app, smap_get_raw, Hn. cbn [smap_get vstr]. rewrite String.eqb_refl. reflexivity. }
  assert (Hdel : forall r : raw, alookup field r = None -> smap_del field (rawv r ++ [(vstr field, disc)]) = rawv r).
  { intros r Hn. rewrite smap_del_app, (smap_del_raw _ _ Hn). cbn [smap_del vstr]. rewrite String.eqb_refl. apply app_nil_r. }
  assert (Hfind : forall j, (2 * f <= j)%nat ->
            oneof_find (S j) e types ik field false (VMap t_str_map false (rawv r2 ++ [(vstr field, disc)]))
            = Ok (key, member, raw_to_val r2)).
  { intros j Hj. apply (oneof_find_iff words pu). exists (rawv r2 ++ [(vstr field, disc)])%list, disc, key.
    split; [reflexivity|]. split; [apply Hget; exact Hfr|]. split; [exact Hdnn|]. split; [exact Htd|]. split; [exact Ef|].
    split; [cbv iota; rewrite (Hdel r2 Hfr); reflexivity|].
    apply (compat_mono words pu (2 * f) j e member _ _ Hj (rt_cmp _ _ _ _ _ _ _ _ Hwx eq_refl)). discriminate. }
  exists (VMap t_str_map false (rawv out ++ [(vstr field, disc)])). constructor.
  - (* wire *)
    cbn [swire t_str_map]. rewrite forallb_app. apply andb_true_intro. split.
    + exact (rt_wire _ _ _ _ _ _ _ _ Hwx).
    + cbn [forallb]. unfold disc in *. destruct key; cbn [okey_val] in *; [|reflexivity].
      change (in_i64 z && true = true). change (in_i64 z = true) in Hrd. rewrite Hrd. reflexivity.
  - discriminate.
  - (* validate *)
    apply (validate_oneof_iff words pu). exists key, member, (raw_to_val r2). split; [apply Hfind; lia | apply (rt_val _ _ _ _ _ _ _ _ Hwx1)].
  - (* serialize *)
    rewrite (serialize_S words pu). cbv beta iota. rewrite (Hfind (2 * f)%nat) by lia. cbn [bind]. cbv beta iota zeta.
    rewrite (rt_ser _ _ _ _ _ _ _ _ Hwx1). cbn [bind]. rewrite is_str_any_map_raw. cbv beta iota.
    rewrite smap_get_raw, Hfo. rewrite (map_set_new' _ _ _ (knew_raw field out Hfo)). reflexivity.
  - (* unserialize the serialized form *)
    apply (oneof_unser_iff words pu). unfold oneof_routes.
    exists t_str_map, false, (rawv out ++ [(vstr field, disc)])%list, disc, key, key, member, (raw_to_val r2).
    split; [reflexivity|]. split.
    { intros kv Hkv. apply in_app_or in Hkv. destruct Hkv as [Hkv | [<- | []]].
      - apply in_map_iff in Hkv. destruct Hkv as (c & <- & _). exists (fst c). reflexivity.
      - exists field. reflexivity. }
    split; [apply Hget; exact Hfo|]. split.
    { unfold discr_denotes, disc in *. destruct ik, key; cbn in Hkis; try discriminate Hkis; cbn [okey_val] in *.
      - exists z. split; [|reflexivity]. unfold vi64. apply int_mapper_vint.
        change (in_i64 z = true) in Hrd. apply in_i64_bounds in Hrd. lia.
      - exists s. split; reflexivity. }
    split; [exact Ef|]. split.
    { cbv iota. rewrite (Hdel out Hfo). exact (rt_uns _ _ _ _ _ _ _ _ Hwx1). }
    rewrite is_str_any_map_raw. cbv iota. rewrite (map_set_new' _ _ _ (knew_raw field r2 Hfr)). reflexivity.
  - (* data compatibility *)
    intros _. rewrite (compat_S words pu). cbv beta iota. rewrite is_str_any_map_strmap. cbv beta iota.
    rewrite (Hfind (2 * f)%nat) by lia. reflexivity.
  - intros ps' Hm. discriminate Hm.
Qed.

End OneOf.
