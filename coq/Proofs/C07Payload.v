(* Proofs/C07Payload.v — the signal goroutine of the ATP server cannot die in CallSignal.

   atp/server.go handleSignalMessage runs pluginSchema.CallSignal in a goroutine WITHOUT recover: a panic
   there kills the plugin process (C07 "never panics").  ATP/Server.v abstracts the call to a boolean
   (`dataok`: the data schema takes the payload or not).  That abstraction is justified here: CallSignal
   (Call/Step.v call_signal: step lookup, signal lookup, Unserialize, step-data set-up, Validate) returns a
   result or an error for EVERY payload - any Go value whatsoever: nil, scalars, lists, maps of any shape -
   as soon as the signal's data schema is well formed (Schema/Wf.v: what the constructors guarantee), by
   C04's no-panic theorem.  In particular for data schemas with no property at all (a data-less "stop"
   signal) and with exactly one (whose lone non-map value is the property's shorthand). *)
From Coq Require Import List String.
From Verif Require Import Base.Prelude Base.Str Base.Float Base.GoVal
  Schema.Regex Schema.Units Schema.Syntax Schema.Ops Schema.Wf Schema.Total
  Proofs.C04Main Call.Step Interp.RunAtpsrv.
Import ListNotations.
Open Scope string_scope.

Lemma c07_call_signal_never_panics :
  forall (words : list (string * bool)) (pu : units -> string -> option fl) (e : env) (fuel : nat)
         (ps : pstate) (p : plugin) (run : string) (sid : string) (sig : string) (raw : gval),
  (forall st ss, alookup sid p = Some st -> alookup sig (sd_signals st) = Some ss -> wf_schema e ss = true) ->
  is_spanic (fst (fst (call_signal words pu e fuel ps p run sid sig raw))) = false.
Proof.
  intros words pu e fuel ps p run sid sig raw Hwf.
  unfold call_signal, call_signal_gen.
  destruct (alookup sid p) as [st|] eqn:Hst; [|reflexivity].
  destruct (alookup sig (sd_signals st)) as [ss|] eqn:Hss; [|reflexivity].
  pose proof (Hwf st ss eq_refl Hss) as W.
  unfold s_unser, s_validate.
  destruct (unser words pu fuel e ss raw) as [n|er|w|] eqn:Hu; try reflexivity.
  - destruct (setup_step_data (sd_has_init st) run (tab_of ps sid)) as [t' d].
    destruct (validate words pu fuel e ss n) as [u|er|w|] eqn:Hv; try reflexivity.
    exfalso. destruct (c04_never_panics words pu e ss W fuel n w) as [_ [Hn _]]. exact (Hn Hv).
  - exfalso. destruct (c04_never_panics words pu e ss W fuel raw w) as [Hn _]. exact (Hn Hu).
Qed.

(* the data / input schemas of the harness plugin the C07 interpreter judges payloads with *)
Definition c07_payload_schemas : list schema :=
  match c07_sig_schema "sig", c07_sig_schema "stop", c07_sig_schema "two", c07_step_schema "z", c07_step_schema "o" with
  | Some a, Some b, Some c, Some d, Some e => [a; b; c; d; e]
  | _, _, _, _, _ => []
  end.

Lemma c07_payload_schemas_wf : forallb (wf_schema c07_env) c07_payload_schemas = true /\ List.length c07_payload_schemas = 5%nat.
Proof. vm_compute. split; reflexivity. Qed.

Lemma c07_payload_schemas_never_panic :
  forall (words : list (string * bool)) (pu : units -> string -> option fl) (s : schema), In s c07_payload_schemas ->
  forall f v w, unser words pu f c07_env s v <> Panic w /\ validate words pu f c07_env s v <> Panic w.
Proof.
  intros words pu s Hin f v w.
  destruct c07_payload_schemas_wf as [Hall _].
  rewrite forallb_forall in Hall. specialize (Hall s Hin).
  destruct (c04_never_panics words pu c07_env s Hall f v w) as [H1 [H2 _]]. split; assumption.
Qed.

(* non-vacuity: the zero-property schema REJECTS a string, nil and a list, and accepts the empty map; the
   one-property schema takes a lone integer as its property's shorthand *)
Lemma c07_payload_examples :
  c07_sig_ok "stop" (VStr TStr "now") = false /\ c07_sig_ok "stop" VNil = false /\
  c07_sig_ok "stop" (VSlice t_any_slice false []) = false /\ c07_sig_ok "stop" (VMap t_any_map false []) = true /\
  c07_sig_ok "sig" (vi64 1) = true /\ c07_sig_ok "sig" (VStr TStr "now") = false /\
  c07_sig_ok "two" (vi64 1) = false /\ c07_step_ok "z" (vi64 1) = false /\ c07_step_ok "o" (vi64 1) = true.
Proof. vm_compute. repeat split; reflexivity. Qed.
