(* Proofs/C04NoPanic.v — half (A) of totality: on a well-formed schema no operation ever reaches a
   `Panic`, for ANY fuel and ANY value of the universe (induction on the fuel; OutOfFuel is just
   another non-panicking outcome here, termination is half (B), Proofs/C04Term.v). *)
From Coq Require Import Lia.
From Verif Require Import Base.Prelude Base.Str Base.Float Base.GoVal
  Schema.Regex Schema.Units Schema.Syntax Schema.Ops Schema.Wf Schema.Total Proofs.C04Inv Proofs.OpsEq.

Definition np {A} (o : outcome A) : Prop := match o with Panic _ => False | _ => True end.

Lemma np_bind {A B} (o : outcome A) (k : A -> outcome B) :
  np o -> (forall a, o = Ok a -> np (k a)) -> np (bind o k).
Proof. destruct o; cbn; auto. Qed.

Lemma np_map_err {A} g (o : outcome A) : np o -> np (map_err g o).
Proof. destruct o; cbn; auto. Qed.

Lemma np_mapMi {A B} (g : Z -> A -> outcome B) l : forall i,
  (forall j x, In x l -> np (g j x)) -> np (mapMi g i l).
Proof.
  induction l as [|x t IH]; intros i H; cbn; [exact I|].
  apply np_bind; [apply H; now left|]. intros y _.
  apply np_bind; [apply IH; intros; apply H; now right|]. intros; exact I.
Qed.

Lemma np_mapM {A B} (g : A -> outcome B) l : (forall x, In x l -> np (g x)) -> np (mapM g l).
Proof.
  induction l as [|x t IH]; intros H; cbn; [exact I|].
  apply np_bind; [apply H; now left|]. intros y _.
  apply np_bind; [apply IH; intros; apply H; now right|]. intros; exact I.
Qed.

Lemma np_forM {A} (g : A -> outcome unit) l : (forall x, In x l -> np (g x)) -> np (forM_ g l).
Proof.
  induction l as [|x t IH]; intros H; cbn; [exact I|].
  apply np_bind; [apply H; now left|]. intros y _. apply IH; intros; apply H; now right.
Qed.

Lemma np_fold {A B} (st : outcome B -> A -> outcome B) l : forall acc,
  np acc -> (forall a x, In x l -> np a -> np (st a x)) -> np (fold_left st l acc).
Proof.
  induction l as [|x t IH]; intros acc Ha Hs; cbn; [exact Ha|].
  apply IH; [apply Hs; [now left | exact Ha]|]. intros; apply Hs; [now right | assumption].
Qed.

Lemma bind_ok {A B} (o : outcome A) (k : A -> outcome B) b :
  bind o k = Ok b -> exists a, o = Ok a /\ k a = Ok b.
Proof. destruct o; cbn; try discriminate. eauto. Qed.

(* goal-directed decomposition; `fin` is the tactic for recursive calls and side conditions *)
Ltac np_step fin :=
  match goal with
  | |- np (Ok _) => exact I
  | |- np (Err _) => exact I
  | |- np OutOfFuel => exact I
  | |- True => exact I
  | H : np ?a |- np ?a => exact H
  | |- np (bind _ _) => apply np_bind; [| intros ? ?]
  | |- np (seg _ _) => apply np_map_err
  | |- np (rewrap _ _) => apply np_map_err
  | |- np (rewrap_path _) => apply np_map_err
  | |- np (map_err _ _) => apply np_map_err
  | |- np (mapMi _ _ _) => apply np_mapMi; intros ? ? ?
  | |- np (mapM _ _) => apply np_mapM; intros ? ?
  | |- np (forM_ _ _) => apply np_forM; intros ? ?
  | |- np (fold_left _ _ _) => apply np_fold; [| intros ? ? ? ?]
  | |- np (let '(_, _) := ?d in _) => destruct d
  | |- np (match ?d with _ => _ end) => destruct d eqn:?
  | |- _ => progress fin
  end.

Ltac np_scalar := repeat np_step idtac.

Lemma np_check_rules props set : np (check_rules props set).
Proof. unfold check_rules. apply np_forM. intros np0 _. unfold check_prop_rules. np_scalar. Qed.

Lemma np_int_unser mn mx u v : np (int_unser mn mx u v).
Proof. unfold int_unser, int_bounds. np_scalar. Qed.
Lemma np_int_ser mn mx v : np (int_ser mn mx v).
Proof. unfold int_ser, int_bounds. np_scalar. Qed.
Lemma np_float_unser pu mn mx u v : np (float_unser pu mn mx u v).
Proof. unfold float_unser, float_bounds. np_scalar. Qed.
Lemma np_float_ser mn mx v : np (float_ser mn mx v).
Proof. unfold float_ser, float_bounds. np_scalar. Qed.
Lemma np_string_check mn mx pat s : np (string_check mn mx pat s).
Proof. unfold string_check. np_scalar. Qed.
Lemma np_string_unser mn mx pat v : np (string_unser mn mx pat v).
Proof. unfold string_unser. destruct (string_mapper v); [apply np_string_check | exact I]. Qed.
Lemma np_string_ser mn mx pat v : np (string_ser mn mx pat v).
Proof. unfold string_ser. destruct (conv_string v); [apply np_string_check | exact I]. Qed.
Lemma np_bool_unser w v : np (bool_unser w v).
Proof. unfold bool_unser. np_scalar. Qed.
Lemma np_bool_ser v : np (bool_ser v).
Proof. unfold bool_ser. np_scalar. Qed.
Lemma np_enum_int_unser vals u v : np (enum_int_unser vals u v).
Proof. unfold enum_int_unser. np_scalar. Qed.
Lemma np_enum_int_ser vals v : np (enum_int_ser vals v).
Proof. unfold enum_int_ser. np_scalar. Qed.
Lemma np_enum_str_unser n vals v : np (enum_str_unser n vals v).
Proof. unfold enum_str_unser. np_scalar. Qed.
Lemma np_enum_str_ser vals v : np (enum_str_ser vals v).
Proof. unfold enum_str_ser. np_scalar. Qed.
Lemma np_pattern_unser o v : np (pattern_unser o v).
Proof. unfold pattern_unser. np_scalar. Qed.
Lemma np_pattern_validate v : np (pattern_validate v).
Proof. unfold pattern_validate. np_scalar. Qed.
Lemma np_pattern_ser v : np (pattern_ser v).
Proof. unfold pattern_ser. np_scalar. Qed.

Ltac np_leaf :=
  first [ apply np_int_unser | apply np_int_ser | apply np_float_unser | apply np_float_ser
        | apply np_string_unser | apply np_string_ser | apply np_bool_unser | apply np_bool_ser
        | apply np_enum_int_unser | apply np_enum_int_ser | apply np_enum_str_unser | apply np_enum_str_ser
        | apply np_pattern_unser | apply np_pattern_validate | apply np_pattern_ser | apply np_check_rules ].

Lemma np_any_conv : forall f v, np (any_conv f v).
Proof.
  induction f as [|f IH]; intros v; [exact I|].
  cbn [any_conv]. repeat np_step ltac:(first [np_leaf | apply IH]).
Qed.

(* ---------- the facts wf_local provides at the panicking sites ---------- *)
Lemma wf_ref_resolves e id ns d : wf_local e (SRef id ns d) = true -> resolve e id ns <> None.
Proof. cbn. destruct (resolve e id ns) as [[o e']|]; congruence. Qed.

Lemma wf_ref_obj e id ns d o e' :
  wf_local e (SRef id ns d) = true -> resolve e id ns = Some (o, e') -> is_obj o = true.
Proof. cbn. intros H R. now rewrite R in H. Qed.

Lemma wf_scope_root e objs root : wf_local e (SScope objs root) = true -> alookup root objs <> None.
Proof.
  cbn. intros H. apply andb_prop in H as [_ H]. unfold amem in H.
  destruct (alookup root objs); congruence.
Qed.

Lemma wf_scope_obj e objs root o :
  wf_local e (SScope objs root) = true -> alookup root objs = Some o -> is_obj o = true.
Proof.
  cbn. intros H L. apply andb_prop in H as [H _]. apply andb_prop in H as [_ H].
  rewrite forallb_forall in H. apply alookup_in in L. specialize (H _ L). cbn in H.
  destruct o; cbn in *; congruence.
Qed.

Lemma wf_member_objlike e types ik fld inld km :
  wf_local e (SOneOf types ik fld inld) = true -> In km types -> objlike (snd km) = true.
Proof.
  cbn. intros H Hin. apply andb_prop in H as [_ H]. rewrite forallb_forall in H.
  specialize (H _ Hin). unfold wf_member in H. apply andb_prop in H as [H _]. apply andb_prop in H. tauto.
Qed.

Section NoPanic.
Variable words : list (string * bool).
Variable pu : units -> string -> option fl.

Notation unser := (unser words pu).
Notation validate := (validate words pu).
Notation serialize := (serialize words pu).
Notation compat := (compat words pu).
Notation oneof_find := (oneof_find words pu).
Notation WF := (Inv wf_local).

(* what oneof_find hands back *)
Lemma oneof_find_ok f e types ik fld inld v key member data' :
  oneof_find f e types ik fld inld v = Ok (key, member, data') ->
  exists t b kvs k, v = VMap t b kvs /\ In (k, member) types /\
    data' = VMap t_str_map false (if inld then kvs else smap_del fld kvs).
Proof.
  destruct f as [|f]; [discriminate|]. rewrite (oneof_find_S words pu); cbv beta iota zeta.
  intros H.
  destruct (is_str_any_map v) as [kvs|] eqn:Esam.
  - destruct (is_str_any_map_some _ _ Esam) as (t & b & ->).
    cbn [kind_of] in H. cbv zeta in H.
    destruct (kind_of_type t); try discriminate.
    destruct (smap_get fld kvs) as [d|]; [|discriminate].
    repeat match type of H with
           | match ?x with _ => _ end = Ok _ => destruct x eqn:?; try discriminate
           | (if ?x then _ else _) = Ok _ => destruct x eqn:?; try discriminate
           end.
    all: apply bind_ok in H as (u0 & _ & H); inversion H; subst.
    all: match goal with
         | E : find _ ?ts = Some (?k, _) |- _ => apply find_some in E as [E _]
         end.
    all: eauto 10.
  - exfalso. destruct v; try discriminate; cbn [kind_of] in H; try rewrite Esam in H.
    all: repeat match type of H with
                | match ?x with _ => _ end = Ok _ => destruct x; try discriminate
                end.
Qed.

Lemma ser_obj_map f e id u props v x :
  serialize f e (SObject id u props) v = Ok x -> exists kvs, is_str_any_map x = Some kvs.
Proof.
  destruct f as [|f]; [discriminate|]. rewrite (serialize_S words pu); cbv beta iota zeta.
  destruct (is_str_any_map v); [|discriminate]. intros H.
  apply bind_ok in H as (? & _ & H). apply bind_ok in H as (out & _ & H). inversion H; subst.
  unfold raw_to_val, is_str_any_map. cbn. eauto.
Qed.

Lemma ser_objlike_map f e m v x :
  WF e m -> objlike m = true -> serialize f e m v = Ok x -> exists kvs, is_str_any_map x = Some kvs.
Proof.
  intros Hinv Hl H. destruct m; try discriminate.
  - eapply ser_obj_map; eauto.
  - destruct f as [|f]; [discriminate|]. rewrite (serialize_S words pu) in H; cbv beta iota zeta in H.
    destruct (resolve e id ns) as [[o e']|] eqn:R; [|discriminate].
    pose proof (wf_ref_obj _ _ _ _ _ _ (inv_here _ _ _ Hinv) R) as Ho.
    destruct o; try discriminate. eapply ser_obj_map; eauto.
  - destruct f as [|f]; [discriminate|]. rewrite (serialize_S words pu) in H; cbv beta iota zeta in H.
    destruct (alookup root objs) as [o|] eqn:R; [|discriminate].
    pose proof (wf_scope_obj _ _ _ _ (inv_here _ _ _ Hinv) R) as Ho.
    destruct o; try discriminate. eapply ser_obj_map; eauto.
Qed.

Definition np_at (f : nat) : Prop :=
  (forall e s v, WF e s -> np (unser f e s v)) /\
  (forall e s v, WF e s -> np (validate f e s v)) /\
  (forall e types ik fld inld v, WF e (SOneOf types ik fld inld) -> np (oneof_find f e types ik fld inld v)) /\
  (forall e s v, WF e s -> np (serialize f e s v)) /\
  (forall e s v, WF e s -> np (compat f e s v)).

(* Inv of the node an operation moves to *)
Ltac inv_next :=
  match goal with
  | H : WF ?e (SList ?it _ _) |- WF ?e ?it => exact (inv_list _ _ _ _ _ H)
  | H : WF ?e (SMap ?k _ _ _) |- WF ?e ?k => exact (inv_map_k _ _ _ _ _ _ H)
  | H : WF ?e (SMap _ ?v _ _) |- WF ?e ?v => exact (inv_map_v _ _ _ _ _ _ H)
  | H : WF ?e (SObject _ _ ?props), I0 : In ?np ?props |- WF ?e (p_type (snd ?np)) => exact (inv_prop _ _ _ _ _ _ H I0)
  | H : WF ?e (SObject _ _ ?props), L : alookup ?k ?props = Some ?p |- WF ?e (p_type ?p) =>
      exact (inv_prop _ _ _ _ _ (k, p) H (alookup_in _ _ _ L))
  | H : WF ?e (SObject _ _ [(?n, ?p)]) |- WF ?e (p_type ?p) => exact (inv_prop _ _ _ _ _ (n, p) H (or_introl eq_refl))
  | H : WF ?e (SOneOf ?types _ _ _), I0 : In (?k, ?m) ?types |- WF ?e ?m => exact (inv_member _ _ _ _ _ _ (k, m) H I0)
  | H : WF ?e (SRef ?id ?ns _), R : resolve ?e ?id ?ns = Some (?o, ?e') |- WF ?e' ?o => exact (inv_ref _ _ _ _ _ _ _ H R)
  | H : WF ?e (SScope ?objs ?root), R : alookup ?root ?objs = Some ?o |- WF (env_enter ?e ?objs) ?o => exact (inv_scope _ _ _ _ _ H R)
  | H : WF ?e ?s |- WF ?e ?s => exact H
  end.

Lemma np_all : forall f, np_at f.
Proof.
  induction f as [|f IH].
  { repeat split; intros; exact I. }
  destruct IH as (IHu & IHv & IHo & IHs & IHc).
  pose proof (np_any_conv f) as IHa.
  (* the finishing tactic: a leaf lemma, or a recursive call at the node moved to *)
  Ltac fin_with IHu IHv IHo IHs IHc IHa :=
    first [ np_leaf | apply IHa
          | apply IHu; inv_next | apply IHv; inv_next | apply IHs; inv_next | apply IHc; inv_next
          | apply IHo; inv_next ].
  assert (HO : forall e types ik fld inld v, WF e (SOneOf types ik fld inld) -> np (oneof_find (S f) e types ik fld inld v)).
  { intros e types ik fld inld v Hinv. rewrite (oneof_find_S words pu); cbv beta iota zeta.
    repeat np_step ltac:(idtac;
      try match goal with
          | E : find _ ?ts = Some (_, _) |- _ => apply find_some in E as [E _]
          end;
      fin_with IHu IHv IHo IHs IHc IHa). }
  assert (HU : forall e s v, WF e s -> np (unser (S f) e s v)).
  { intros e s v Hinv. destruct s; rewrite (unser_S words pu); cbv beta iota zeta; try np_leaf; try (apply IHa).
    - (* list *) repeat np_step ltac:(fin_with IHu IHv IHo IHs IHc IHa).
    - (* map *) repeat np_step ltac:(fin_with IHu IHv IHo IHs IHc IHa).
    - (* object *)
      destruct v; try (repeat np_step ltac:(fin_with IHu IHv IHo IHs IHc IHa)).
    - (* one-of *)
      repeat np_step ltac:(idtac;
        try match goal with
            | E : find _ ?ts = Some (_, _) |- _ => apply find_some in E as [E _]
            end;
        fin_with IHu IHv IHo IHs IHc IHa).
    - (* ref *)
      destruct (resolve e id ns) as [[o e']|] eqn:R.
      + apply IHu; inv_next.
      + exfalso. exact (wf_ref_resolves _ _ _ _ (inv_here _ _ _ Hinv) R).
    - (* scope *)
      destruct (alookup root objs) as [o|] eqn:R.
      + apply IHu; inv_next.
      + exfalso. exact (wf_scope_root _ _ _ (inv_here _ _ _ Hinv) R). }
  assert (HV : forall e s v, WF e s -> np (validate (S f) e s v)).
  { intros e s v Hinv. destruct s; rewrite (validate_S words pu); cbv beta iota zeta;
      try (apply np_bind; [first [np_leaf | apply IHa] | intros; exact I]).
    - repeat np_step ltac:(fin_with IHu IHv IHo IHs IHc IHa).
    - repeat np_step ltac:(fin_with IHu IHv IHo IHs IHc IHa).
    - repeat np_step ltac:(fin_with IHu IHv IHo IHs IHc IHa).
    - apply np_bind; [apply IHo; exact Hinv|]. intros [[key member] data'] Hok.
      apply oneof_find_ok in Hok as (t & b & kvs & k & -> & Hin & ->).
      apply np_map_err. apply IHv. inv_next.
    - destruct (resolve e id ns) as [[o e']|] eqn:R.
      + apply IHv; inv_next.
      + exfalso. exact (wf_ref_resolves _ _ _ _ (inv_here _ _ _ Hinv) R).
    - destruct (alookup root objs) as [o|] eqn:R.
      + apply IHv; inv_next.
      + exfalso. exact (wf_scope_root _ _ _ (inv_here _ _ _ Hinv) R). }
  assert (HS : forall e s v, WF e s -> np (serialize (S f) e s v)).
  { intros e s v Hinv. destruct s; rewrite (serialize_S words pu); cbv beta iota zeta; try np_leaf; try (apply IHa).
    - repeat np_step ltac:(fin_with IHu IHv IHo IHs IHc IHa).
    - repeat np_step ltac:(fin_with IHu IHv IHo IHs IHc IHa).
    - repeat np_step ltac:(fin_with IHu IHv IHo IHs IHc IHa).
    - apply np_bind; [apply IHo; exact Hinv|]. intros [[key member] data'] Hok.
      apply oneof_find_ok in Hok as (t & b & kvs & k & -> & Hin & ->).
      assert (Hm : WF e member) by inv_next.
      apply np_bind; [apply IHs; exact Hm|]. intros x Hx.
      pose proof (wf_member_objlike _ _ _ _ _ (k, member) (inv_here _ _ _ Hinv) Hin) as Hl.
      destruct (ser_objlike_map _ _ _ _ _ Hm Hl Hx) as [xs ->].
      repeat np_step idtac.
    - destruct (resolve e id ns) as [[o e']|] eqn:R.
      + apply IHs; inv_next.
      + exfalso. exact (wf_ref_resolves _ _ _ _ (inv_here _ _ _ Hinv) R).
    - destruct (alookup root objs) as [o|] eqn:R.
      + apply IHs; inv_next.
      + exfalso. exact (wf_scope_root _ _ _ (inv_here _ _ _ Hinv) R). }
  assert (HC : forall e s v, WF e s -> np (compat (S f) e s v)).
  { intros e s v Hinv. destruct s; rewrite (compat_S words pu); cbv beta iota zeta.
    1-8: repeat np_step ltac:(fin_with IHu IHv IHo IHs IHc IHa).
    - repeat np_step ltac:(fin_with IHu IHv IHo IHs IHc IHa).
    - repeat np_step ltac:(fin_with IHu IHv IHo IHs IHc IHa).
    - repeat np_step ltac:(fin_with IHu IHv IHo IHs IHc IHa).
    - repeat np_step ltac:(fin_with IHu IHv IHo IHs IHc IHa).
    - destruct (resolve e id ns) as [[o e']|] eqn:R.
      + apply IHc; inv_next.
      + exfalso. exact (wf_ref_resolves _ _ _ _ (inv_here _ _ _ Hinv) R).
    - destruct (alookup root objs) as [o|] eqn:R.
      + apply IHc; inv_next.
      + exfalso. exact (wf_scope_root _ _ _ (inv_here _ _ _ Hinv) R). }
  repeat split; assumption.
Qed.

End NoPanic.
