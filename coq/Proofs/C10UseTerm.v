(* Proofs/C10UseTerm.v — half (B) of totality (no OutOfFuel from fuel_bound on) under `wf_use`
   (Proofs/C10UseNoPanic.v) in place of `wf_schema`: the termination induction of Proofs/C04Term.v takes one
   single fact from the well-formedness predicate — the property names of an object are distinct — so it
   goes through verbatim over `use_local`.  Everything of C04Term.v that does not mention the predicate (the
   measure `need`, the chain lemmas, the characterisation of the object folds) is re-used from there. *)
From Coq Require Import Lia.
From Verif Require Import Base.Prelude Base.Str Base.Float Base.GoVal
  Schema.Regex Schema.Units Schema.Syntax Schema.Ops Schema.Wf Schema.Total
  Proofs.MonoEq Proofs.C04Inv Proofs.OpsEq Proofs.C04NoPanic Proofs.C04Term Proofs.C10UseNoPanic.

Section TermUse.
Variable words : list (string * bool).
Variable pu : units -> string -> option fl.
Variable K N : nat.

Notation unser := (unser words pu).
Notation validate := (validate words pu).
Notation serialize := (serialize words pu).
Notation compat := (compat words pu).
Notation oneof_find := (oneof_find words pu).
Notation need := (need K N).
Notation chn := (chn N).

Definition P3u (e : env) (s : schema) : bool :=
  use_local e s && (nic_local N e s && dflt_local words pu K e s).
Notation I3 := (Inv P3u).

Lemma i3u_nic e s b : I3 e s -> exists c, chain N b e s = Some c /\ (c <= N)%nat.
Proof.
  intros H. apply inv_here in H. unfold P3u in H. apply andb_prop in H as [_ H]. apply andb_prop in H as [H _].
  unfold nic_local in H. apply andb_prop in H as [H1 H2].
  destruct b.
  - destruct (chain N true e s) as [c|] eqn:E; [|discriminate]. exists c. split; [reflexivity|]. eapply chain_le; eauto.
  - destruct (chain N false e s) as [c|] eqn:E; [|discriminate]. exists c. split; [reflexivity|]. eapply chain_le; eauto.
Qed.

Lemma i3u_use e s : I3 e s -> use_local e s = true.
Proof. intros H. apply inv_here in H. unfold P3u in H. apply andb_prop in H. tauto. Qed.

Lemma i3u_dflt e s : I3 e s -> dflt_local words pu K e s = true.
Proof. intros H. apply inv_here in H. unfold P3u in H. apply andb_prop in H as [_ H]. apply andb_prop in H. tauto. Qed.

Definition term_use_at (d c : nat) : Prop :=
  (forall f e s v, I3 e s -> (vdepth v <= d)%nat -> chn (is_vmap v) e s c -> (need d c 0 <= f)%nat -> fin (unser f e s v)) /\
  (forall f e s v, I3 e s -> (vdepth v <= d)%nat -> chn (is_vmap v) e s c -> (need d c 1 <= f)%nat -> fin (validate f e s v)) /\
  (forall f e types ik fld inld v, I3 e (SOneOf types ik fld inld) -> (vdepth v <= d)%nat ->
       chn (is_vmap v) e (SOneOf types ik fld inld) c -> (need d c 0 <= f)%nat -> fin (oneof_find f e types ik fld inld v)) /\
  (forall f e s v, I3 e s -> (vdepth v <= d)%nat -> chn (is_vmap v) e s c -> (need d c 2 <= f)%nat -> fin (serialize f e s v)) /\
  (forall f e s v, I3 e s -> (vdepth v <= d)%nat -> chn (is_vmap v) e s c -> (need d c 2 <= f)%nat -> fin (compat f e s v)).

Lemma child_calls_u d c off f :
  (forall c2, term_use_at d c2) -> (need (S d) c off <= S f)%nat ->
  (forall e s v, I3 e s -> (vdepth v <= d)%nat -> fin (unser f e s v)) /\
  (forall e s v, I3 e s -> (vdepth v <= d)%nat -> fin (validate f e s v)) /\
  (forall e s v, I3 e s -> (vdepth v <= d)%nat -> fin (serialize f e s v)) /\
  (forall e s v, I3 e s -> (vdepth v <= d)%nat -> fin (compat f e s v)).
Proof.
  intros IH Hn. repeat split; intros e s v Hinv Hd;
    destruct (i3u_nic e s (is_vmap v) Hinv) as (c2 & Hc2 & Hle2);
    destruct (IH c2) as (Iu & Iv & _ & Is & Ic).
  - apply Iu; auto; [exists c2; split; [exact Hc2|lia] | eapply need_child; eauto].
  - apply Iv; auto; [exists c2; split; [exact Hc2|lia] | eapply need_child; eauto].
  - apply Is; auto; [exists c2; split; [exact Hc2|lia] | eapply need_child; eauto].
  - apply Ic; auto; [exists c2; split; [exact Hc2|lia] | eapply need_child; eauto].
Qed.

Lemma hop_calls_u d c off f :
  (forall c2, (c2 < c)%nat -> term_use_at d c2) -> (need d c off <= S f)%nat ->
  (forall e s v c2, I3 e s -> (vdepth v <= d)%nat -> chn (is_vmap v) e s c2 -> (c2 < c)%nat -> fin (unser f e s v)) /\
  (forall e s v c2, I3 e s -> (vdepth v <= d)%nat -> chn (is_vmap v) e s c2 -> (c2 < c)%nat -> fin (validate f e s v)) /\
  (forall e s v c2, I3 e s -> (vdepth v <= d)%nat -> chn (is_vmap v) e s c2 -> (c2 < c)%nat -> fin (serialize f e s v)) /\
  (forall e s v c2, I3 e s -> (vdepth v <= d)%nat -> chn (is_vmap v) e s c2 -> (c2 < c)%nat -> fin (compat f e s v)).
Proof.
  intros IH Hn. repeat split; intros e s v c2 Hinv Hd Hc Hlt; destruct (IH c2 Hlt) as (Iu & Iv & _ & Is & Ic).
  - apply Iu; auto. eapply need_hop; eauto.
  - apply Iv; auto. eapply need_hop; eauto.
  - apply Is; auto. eapply need_hop; eauto.
  - apply Ic; auto. eapply need_hop; eauto.
Qed.

Ltac inv3u_next :=
  match goal with
  | H : Inv P3u ?e (SList ?it _ _) |- Inv P3u ?e ?it => exact (inv_list _ _ _ _ _ H)
  | H : Inv P3u ?e (SMap ?k _ _ _) |- Inv P3u ?e ?k => exact (inv_map_k _ _ _ _ _ _ H)
  | H : Inv P3u ?e (SMap _ ?v _ _) |- Inv P3u ?e ?v => exact (inv_map_v _ _ _ _ _ _ H)
  | H : Inv P3u ?e (SObject _ _ ?props), I0 : In ?np ?props |- Inv P3u ?e (p_type (snd ?np)) => exact (inv_prop _ _ _ _ _ _ H I0)
  | H : Inv P3u ?e (SObject _ _ ?props), L : alookup ?k ?props = Some ?p |- Inv P3u ?e (p_type ?p) =>
      exact (inv_prop _ _ _ _ _ (k, p) H (alookup_in _ _ _ L))
  | H : Inv P3u ?e (SObject _ _ [(?n, ?p)]) |- Inv P3u ?e (p_type ?p) => exact (inv_prop _ _ _ _ _ (n, p) H (or_introl eq_refl))
  | H : Inv P3u ?e (SOneOf ?types _ _ _), I0 : In (?k, ?m) ?types |- Inv P3u ?e ?m => exact (inv_member _ _ _ _ _ _ (k, m) H I0)
  | H : Inv P3u ?e (SRef ?id ?ns _), R : resolve ?e ?id ?ns = Some (?o, ?e') |- Inv P3u ?e' ?o => exact (inv_ref _ _ _ _ _ _ _ H R)
  | H : Inv P3u ?e (SScope ?objs ?root), R : alookup ?root ?objs = Some ?o |- Inv P3u (env_enter ?e ?objs) ?o => exact (inv_scope _ _ _ _ _ H R)
  | H : Inv P3u ?e ?s |- Inv P3u ?e ?s => exact H
  end.

(* normalise what is known about the shape of the value, then bound the depth of a child *)
Ltac shape_hyps_u :=
  repeat match goal with
         | H : is_str_any_map (VMap _ _ ?l) = Some ?kvs |- _ => apply is_sam_vmap in H; subst kvs
         | H : is_str_any_map ?v = Some ?kvs |- _ =>
             is_var v; let t0 := fresh "t" in let b0 := fresh "b" in
             apply is_str_any_map_some in H as (t0 & b0 & ->)
         end.
Ltac depth_tac_u :=
  shape_hyps_u; depth_hyps;
  repeat match goal with
         | Hin : In ?kv (raw_of_entries ?kvs), Hd : context [VMap ?t ?b ?kvs] |- _ =>
             lazymatch goal with
             | _ : (vdepth (snd kv) < vdepth (VMap t b kvs))%nat |- _ => fail
             | _ => pose proof (raw_entries_depth t b kvs kv Hin)
             end
         end;
  cbn [vdepth fst snd] in *; lia.

Ltac child_tac_u Cu Cv Cs Cc :=
  first [ eapply Cu | eapply Cv | eapply Cs | eapply Cc ]; [ inv3u_next | depth_tac_u ].

Lemma term_use_all : forall d c, term_use_at d c.
Proof.
  induction d as [|d IHd].
  { intros c. repeat split; intros; exfalso;
      match goal with H : (vdepth ?v <= 0)%nat |- _ => pose proof (vdepth_pos v); lia end. }
  induction c as [c IHc] using lt_wf_ind.
  (* ---------- oneof_find ---------- *)
  assert (HO : forall f e types ik fld inld v, I3 e (SOneOf types ik fld inld) -> (vdepth v <= S d)%nat ->
             chn (is_vmap v) e (SOneOf types ik fld inld) c -> (need (S d) c 0 <= f)%nat ->
             fin (oneof_find f e types ik fld inld v)).
  { intros f e types ik fld inld v Hinv Hd Hc Hn.
    destruct f as [|f]; [unfold C04Term.need in Hn; lia|].
    destruct (hop_calls_u _ _ _ _ IHc Hn) as (Hu & Hv & Hs & Hcm).
    destruct (is_str_any_map v) as [kvs|] eqn:Esam.
    - destruct (is_str_any_map_some _ _ Esam) as (t0 & b0 & ->). cbn [is_vmap] in Hc.
      rewrite (oneof_find_S words pu); cbv beta iota zeta. cbn [kind_of]. rewrite Esam.
      repeat fin_step ltac:(idtac;
        match goal with
        | E : find _ ?ts = Some (?k, ?m) |- fin (Ops.compat _ _ _ _ ?m _) =>
            apply find_some in E as [E _];
            let c2 := fresh "c2" in let Hc2 := fresh "Hc2" in let Hlt := fresh "Hlt" in
            destruct (chn_member _ _ _ _ _ _ _ (k, m) Hc E) as (c2 & Hc2 & Hlt);
            eapply Hcm; [inv3u_next | eapply clone_depth; exact Hd | exact Hc2 | exact Hlt]
        end).
    - rewrite (oneof_find_S words pu); cbv beta iota zeta.
      repeat fin_step ltac:(congruence). }
  (* ---------- unserialize ---------- *)
  assert (HU : forall f e s v, I3 e s -> (vdepth v <= S d)%nat -> chn (is_vmap v) e s c ->
             (need (S d) c 0 <= f)%nat -> fin (unser f e s v)).
  { intros f e s v Hinv Hd Hc Hn.
    destruct f as [|f]; [unfold C04Term.need in Hn; lia|].
    destruct (child_calls_u _ _ _ _ IHd Hn) as (Cu & Cv & Cs & Cc).
    destruct (hop_calls_u _ _ _ _ IHc Hn) as (Hu & Hv & Hs & Hcm).
    destruct s; rewrite (unser_S words pu); cbv beta iota zeta; try fin_leaf.
    - (* any *) apply fin_any_conv. eapply need_any; eauto.
    - (* list *) repeat fin_step ltac:(child_tac_u Cu Cv Cs Cc).
    - (* map *) repeat fin_step ltac:(child_tac_u Cu Cv Cs Cc).
    - (* object *)
      destruct v;
        try (destruct props as [|[name p] [|]]; try exact I;
             destruct (chn_step _ _ _ _ _ e (p_type p) Hc) as (c2 & Hc2 & Hlt); [intros n; rewrite chain_S; reflexivity|];
             apply fin_bind; [apply fin_map_err; destruct (p_disabled p); [exact I|];
                              eapply Hu; [inv3u_next | exact Hd | exact Hc2 | exact Hlt]
                             | intros; apply fin_bind; [apply fin_check_rules | intros; exact I]]).
      (* the input is a map *)
      apply fin_bind; [repeat fin_step idtac|]. intros r0 Hr0.
      apply fin_bind; [|intros; apply fin_bind; [apply fin_check_rules | intros; exact I]].
      pose proof (u_object_nodup _ _ _ _ (i3u_use _ _ Hinv)) as Hnd.
      pose proof (i3u_dflt _ _ Hinv) as Hdf. cbn [dflt_local] in Hdf. rewrite forallb_forall in Hdf.
      eapply (fin_props_fold (fun np d0 => if p_disabled (snd np) then Err (cerr EDisabled)
                                           else unser f e (p_type (snd np)) d0));
        [exact Hnd | exact I | intros a Ha np Hin; inversion Ha; reflexivity |].
      intros np d0 Hin Hl. destruct (p_disabled (snd np)); [exact I|].
      apply r1_lookup in Hl as [Hl|(np2 & txt & Hin2 & Hname & Hdef & Hdec)].
      + (* a value of the input map *)
        apply alookup_in in Hl. destruct (r0_values _ _ _ _ Hr0 _ _ Hl) as [[]|(kv & Hkv & ->)].
        eapply Cu; [inv3u_next|]. pose proof (vdepth_map_in t isnil l kv Hkv). lia.
      + (* the property's own default: processed within K steps by hypothesis *)
        assert (np2 = np) by (eapply nodup_fst_inj; eauto).
        subst np2. specialize (Hdf np Hin).
        pose proof (dflt_prop_ok words pu K e (snd np) txt d0 Hdf Hdef Hdec) as HK.
        destruct (unser K e (p_type (snd np)) d0) eqn:EK; try (exfalso; apply HK; reflexivity).
        all: rewrite (unser_mono words pu K f e (p_type (snd np)) d0 _ (need_K _ _ _ _ _ _ Hn) EK); [exact I | discriminate].
    - (* one-of *)
      repeat fin_step ltac:(idtac;
        match goal with
        | E : find _ ?ts = Some (?k, ?m) |- fin (Ops.unser _ _ _ _ ?m _) =>
            apply find_some in E as [E _]; cbn [is_vmap] in Hc;
            let c2 := fresh "c2" in let Hc2 := fresh "Hc2" in let Hlt := fresh "Hlt" in
            destruct (chn_member _ _ _ _ _ _ _ (k, m) Hc E) as (c2 & Hc2 & Hlt);
            eapply Hu; [inv3u_next | eapply clone_depth; exact Hd | exact Hc2 | exact Hlt]
        end).
    - (* ref *)
      destruct (resolve e id ns) as [[o e']|] eqn:R; [|exact I].
      destruct (chn_step _ _ _ _ _ e' o Hc) as (c2 & Hc2 & Hlt); [intros n; rewrite chain_S, R; reflexivity|].
      eapply Hu; [inv3u_next | exact Hd | exact Hc2 | exact Hlt].
    - (* scope *)
      destruct (alookup root objs) as [o|] eqn:R; [|exact I].
      destruct (chn_step _ _ _ _ _ (env_enter e objs) o Hc) as (c2 & Hc2 & Hlt); [intros n; rewrite chain_S, R; reflexivity|].
      eapply Hu; [inv3u_next | exact Hd | exact Hc2 | exact Hlt]. }
  (* ---------- validate ---------- *)
  assert (HV : forall f e s v, I3 e s -> (vdepth v <= S d)%nat -> chn (is_vmap v) e s c ->
             (need (S d) c 1 <= f)%nat -> fin (validate f e s v)).
  { intros f e s v Hinv Hd Hc Hn.
    destruct f as [|f]; [unfold C04Term.need in Hn; lia|].
    destruct (child_calls_u _ _ _ _ IHd Hn) as (Cu & Cv & Cs & Cc).
    destruct (hop_calls_u _ _ _ _ IHc Hn) as (Hu & Hv & Hs & Hcm).
    destruct s; rewrite (validate_S words pu); cbv beta iota zeta;
      try (apply fin_bind; [fin_leaf | intros; exact I]).
    - apply fin_bind; [apply fin_any_conv; eapply need_any; eauto | intros; exact I].
    - repeat fin_step ltac:(child_tac_u Cu Cv Cs Cc).
    - repeat fin_step ltac:(child_tac_u Cu Cv Cs Cc).
    - repeat fin_step ltac:(first [fin_leaf | child_tac_u Cu Cv Cs Cc]).
    - apply fin_bind; [apply HO; auto; eapply need_same; [|exact Hn]; lia|].
      intros [[key member] data'] Hok.
      apply oneof_find_ok in Hok as (t & b & kvs & k & -> & Hin & ->). cbn [is_vmap] in Hc.
      destruct (chn_member _ _ _ _ _ _ _ (k, member) Hc Hin) as (c2 & Hc2 & Hlt).
      apply fin_map_err. eapply Hv; [inv3u_next | eapply clone_depth; exact Hd | exact Hc2 | exact Hlt].
    - destruct (resolve e id ns) as [[o e']|] eqn:R; [|exact I].
      destruct (chn_step _ _ _ _ _ e' o Hc) as (c2 & Hc2 & Hlt); [intros n; rewrite chain_S, R; reflexivity|].
      eapply Hv; [inv3u_next | exact Hd | exact Hc2 | exact Hlt].
    - destruct (alookup root objs) as [o|] eqn:R; [|exact I].
      destruct (chn_step _ _ _ _ _ (env_enter e objs) o Hc) as (c2 & Hc2 & Hlt); [intros n; rewrite chain_S, R; reflexivity|].
      eapply Hv; [inv3u_next | exact Hd | exact Hc2 | exact Hlt]. }
  (* ---------- serialize ---------- *)
  assert (HS : forall f e s v, I3 e s -> (vdepth v <= S d)%nat -> chn (is_vmap v) e s c ->
             (need (S d) c 2 <= f)%nat -> fin (serialize f e s v)).
  { intros f e s v Hinv Hd Hc Hn.
    destruct f as [|f]; [unfold C04Term.need in Hn; lia|].
    destruct (child_calls_u _ _ _ _ IHd Hn) as (Cu & Cv & Cs & Cc).
    destruct (hop_calls_u _ _ _ _ IHc Hn) as (Hu & Hv & Hs & Hcm).
    assert (Hsame : forall s0, s0 = s -> fin (validate f e s0 v)).
    { intros s0 ->. apply HV; auto. eapply need_same; [|exact Hn]; lia. }
    destruct s; rewrite (serialize_S words pu); cbv beta iota zeta; try fin_leaf.
    - apply fin_any_conv. eapply need_any; eauto.
    - apply fin_bind; [apply Hsame; reflexivity|]. intros _ _.
      repeat fin_step ltac:(child_tac_u Cu Cv Cs Cc).
    - apply fin_bind; [apply Hsame; reflexivity|]. intros _ _.
      repeat fin_step ltac:(child_tac_u Cu Cv Cs Cc).
    - repeat fin_step ltac:(first [fin_leaf | child_tac_u Cu Cv Cs Cc]).
    - apply fin_bind; [apply HO; auto; eapply need_same; [|exact Hn]; lia|].
      intros [[key member] data'] Hok.
      apply oneof_find_ok in Hok as (t & b & kvs & k & -> & Hin & ->). cbn [is_vmap] in Hc.
      destruct (chn_member _ _ _ _ _ _ _ (k, member) Hc Hin) as (c2 & Hc2 & Hlt).
      apply fin_bind; [eapply Hs; [inv3u_next | eapply clone_depth; exact Hd | exact Hc2 | exact Hlt]|].
      intros x _. repeat fin_step idtac.
    - destruct (resolve e id ns) as [[o e']|] eqn:R; [|exact I].
      destruct (chn_step _ _ _ _ _ e' o Hc) as (c2 & Hc2 & Hlt); [intros n; rewrite chain_S, R; reflexivity|].
      eapply Hs; [inv3u_next | exact Hd | exact Hc2 | exact Hlt].
    - destruct (alookup root objs) as [o|] eqn:R; [|exact I].
      destruct (chn_step _ _ _ _ _ (env_enter e objs) o Hc) as (c2 & Hc2 & Hlt); [intros n; rewrite chain_S, R; reflexivity|].
      eapply Hs; [inv3u_next | exact Hd | exact Hc2 | exact Hlt]. }
  (* ---------- data-mode compatibility ---------- *)
  assert (HC : forall f e s v, I3 e s -> (vdepth v <= S d)%nat -> chn (is_vmap v) e s c ->
             (need (S d) c 2 <= f)%nat -> fin (compat f e s v)).
  { intros f e s v Hinv Hd Hc Hn.
    destruct f as [|f]; [unfold C04Term.need in Hn; lia|].
    destruct (child_calls_u _ _ _ _ IHd Hn) as (Cu & Cv & Cs & Cc).
    destruct (hop_calls_u _ _ _ _ IHc Hn) as (Hu & Hv & Hs & Hcm).
    assert (HsameU : forall s0 v0, s0 = s -> v0 = v -> fin (unser f e s0 v0)).
    { intros s0 v0 -> ->. apply HU; auto. eapply need_same; [|exact Hn]; lia. }
    assert (HsameV : forall s0 v0, s0 = s -> v0 = v -> fin (validate f e s0 v0)).
    { intros s0 v0 -> ->. apply HV; auto. eapply need_same; [|exact Hn]; lia. }
    assert (HsameO : forall ty ik0 fl0 in0 v0, SOneOf ty ik0 fl0 in0 = s -> v0 = v -> fin (oneof_find f e ty ik0 fl0 in0 v0)).
    { intros ty ik0 fl0 in0 v0 <- ->. apply HO; auto. eapply need_same; [|exact Hn]; lia. }
    assert (HsameA : forall v0, (vdepth v0 <= S d)%nat -> fin (any_conv f v0)).
    { intros v0 Hv0. apply fin_any_conv. eapply need_any; eauto. }
    destruct s; rewrite (compat_S words pu); cbv beta iota zeta.
    1-5, 7-8: repeat fin_step ltac:(first [ apply HsameU; reflexivity | apply HsameV; reflexivity ]).
    - (* any *)
      destruct v; try (apply fin_bind; [apply HsameA; exact Hd | intros; exact I]).
      + repeat fin_step ltac:(first [ apply HsameA; exact Hd | child_tac_u Cu Cv Cs Cc ]).
      + repeat fin_step ltac:(first [ apply HsameA; exact Hd | child_tac_u Cu Cv Cs Cc ]).
    - (* list *) repeat fin_step ltac:(child_tac_u Cu Cv Cs Cc).
    - (* map *) repeat fin_step ltac:(child_tac_u Cu Cv Cs Cc).
    - (* object *)
      repeat fin_step ltac:(first [ fin_leaf | apply HsameU; reflexivity | child_tac_u Cu Cv Cs Cc ]).
    - (* one-of *)
      repeat fin_step ltac:(first [ apply HsameO; reflexivity | apply HsameV; reflexivity ]).
    - destruct (resolve e id ns) as [[o e']|] eqn:R; [|exact I].
      destruct (chn_step _ _ _ _ _ e' o Hc) as (c2 & Hc2 & Hlt); [intros n; rewrite chain_S, R; reflexivity|].
      eapply Hcm; [inv3u_next | exact Hd | exact Hc2 | exact Hlt].
    - destruct (alookup root objs) as [o|] eqn:R; [|exact I].
      destruct (chn_step _ _ _ _ _ (env_enter e objs) o Hc) as (c2 & Hc2 & Hlt); [intros n; rewrite chain_S, R; reflexivity|].
      eapply Hcm; [inv3u_next | exact Hd | exact Hc2 | exact Hlt]. }
  repeat split; assumption.
Qed.

End TermUse.
