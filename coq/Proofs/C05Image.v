(* Proofs/C05Image.v — the value-level composition ATP/SystemVal.v (client model at payload := gval, real values on the
   wire and in the results) and the token-level composition ATP/System.v are THE SAME SYSTEM: every execution of the
   value level from the session as the harness states it is, label for label, the image of the execution of the token
   level under `img` (every payload t replaced by the value v_den t it names; the server component identical), and vice
   versa:

       vsys_run (vsys_init vcalls close) sched = option_map img (sys_run (v_scfg D vcalls) (sys_init (tok_calls vcalls) close) sched)

   Ingredients: the free theorem of the client model (Proofs/C05Param.v step_map); at the pipe, the name the server
   model receives for a message (the call of its RUN ID) is the token the token level carries - for work-starts by the
   client-side safety invariant (C05Client.invS: a work-start carries its caller's run id and input), for signals by the
   small invariant SigInv proved here (a signal carries its caller's run id and input too).

   Consequences: C05_transparent_end_to_end holds verbatim for the value-level system (transparent_values), and every
   work-start in the value-level pipe carries the input value of the call its run id names (image_wire). *)
From Coq Require Import Lia.
From Verif Require Import Base.Prelude Base.Str Base.Float Base.GoVal
  Schema.Regex Schema.Units Schema.Syntax Schema.Ops Schema.Cbor ATP.Msg ATP.System Call.Step ATP.SystemV ATP.SystemVal
  Proofs.CborNorm.
From Verif Require Proofs.ATPClient Proofs.ATPClientInv Proofs.ATPClientFinal Proofs.C05Vocab Proofs.C05Client Proofs.C05Server
  Proofs.C05ClientAbs Proofs.C05Param.
From Verif Require Import Proofs.C05System Proofs.C05Transparent.
Local Open Scope string_scope.
Local Open Scope list_scope.
Local Open Scope nat_scope.

Module CA := Verif.Proofs.C05ClientAbs.

(* what one step appends to the client -> server stream, with the writer *)
Lemma step_writes : forall (s s' : C.state Z) l, C.step s l = Some s' ->
  C.to_server s' = C.to_server s \/
  (exists m, C.to_server s = m :: C.to_server s') \/
  (exists i c m, nth_error (C.callers s) i = Some c /\ C.to_server s' = C.to_server s ++ [m] /\
     (m = WorkStart (C.c_run c) "s" (C.c_input c) \/ m = Signal (C.c_run c) "sg" (C.c_input c))) \/
  C.to_server s' = C.to_server s ++ [ClientDone].
Proof.
  intros s s' l H. destruct l; CF.funfold_step H; CF.fbs H; CF.fbg; cbn;
    first [left; reflexivity
          |right; left; eexists; reflexivity
          |right; right; left; do 3 eexists;
           split; [eassumption|split; [reflexivity|first [left; reflexivity|right; reflexivity]]]
          |right; right; right; reflexivity].
Qed.

Lemma idx_of_tok : forall l k r t, NoDup (map (@C.cs_run gval) l) ->
  In (r, t) (map (fun x : C.callspec Z => (C.cs_run x, C.cs_input x)) (tok_from k l)) ->
  idx_of r (map (@C.cs_run gval) l) k = t.
Proof.
  induction l as [|a l IH]; intros k r t N H; cbn in H; [destruct H|].
  cbn [map idx_of]. inversion N as [|? ? Hn N']; subst. destruct H as [E|H].
  - injection E as <- <-. rewrite String.eqb_refl. reflexivity.
  - destruct (String.eqb_spec r (C.cs_run a)) as [->|Hne].
    + exfalso. apply Hn. apply (in_map fst) in H. rewrite map_map in H. cbn [fst] in H.
      rewrite <- (tok_from_runs l (S k)). exact H.
    + apply IH; auto.
Qed.

Lemma tok_pair_nth : forall l k r t,
  In (r, t) (map (fun x : C.callspec Z => (C.cs_run x, C.cs_input x)) (tok_from k l)) ->
  exists i x, nth_error l i = Some x /\ C.cs_run x = r /\ t = Z.of_nat (k + i).
Proof.
  induction l as [|a l IH]; intros k r t H; cbn in H; [destruct H|]. destruct H as [E|H].
  - injection E as <- <-. exists 0, a. rewrite Nat.add_0_r. auto.
  - destruct (IH _ _ _ H) as (i & x & Hx & Hr & Ht). exists (S i), x. split; [exact Hx|split; [exact Hr|]]. rewrite Ht. f_equal. lia.
Qed.

Section Image.
Variable D : vcfg.
Variable vcalls : list (C.callspec gval).
Variable close : bool.
Hypothesis runs_named : forall x, In x vcalls -> C.cs_run x <> "".
Hypothesis session_wf : CI.wf_session (C.mkSession vcalls close [] None None).

Notation g := (v_scfg D vcalls).
Notation tcalls := (tok_calls vcalls).
Notation cls := (calls tcalls).
Notation den := (v_den D vcalls).
Notation ms := (PM.map_state Z gval den).
Notation SInv := (SInv g tcalls).

Definition img (s : sstate) : vstate := mkVSys (ms (cl s)) (sv s).

Lemma tnamed : forall y, In y tcalls -> C.cs_run y <> "".
Proof. intros y H. destruct (tok_from_named _ _ _ H) as (x & Hx & ->). auto. Qed.

Lemma twf : CI.wf_session (sys_session tcalls close).
Proof.
  destruct session_wf as [N A]. split; cbn in *; unfold tok_calls.
  - rewrite tok_from_runs. exact N.
  - rewrite tok_from_afters. exact A.
Qed.

Lemma den_input : forall i x, nth_error vcalls i = Some x -> den (Z.of_nat i) = C.cs_input x.
Proof.
  intros i x H. unfold v_den. destruct (Z.ltb_spec (Z.of_nat i) 0) as [Hl|_]; [lia|]. apply v_input_nth. exact H.
Qed.

Lemma name_of_tok : forall r t, In (r, t) cls -> name_of vcalls r = t.
Proof.
  intros r t H. unfold name_of. apply idx_of_tok; [exact (proj1 session_wf)|exact H].
Qed.

(* ---- signals carry their caller's run id and input ---- *)
Definition sig_ok (m : msg Z) : Prop := match m with Signal r _ d => In (r, d) cls | _ => True end.

Lemma sig_step : forall s y s', SInv s -> Forall sig_ok (C.to_server (cl s)) -> sys_step g s y = Some s' ->
  Forall sig_ok (C.to_server (cl s')).
Proof.
  intros s y s' IS SG H. destruct y as [l| |l|t]; cbn [sys_step] in H.
  - destruct (client_label l); [|discriminate]. destruct (C.step (cl s) l) as [cs'|] eqn:Hs; [|discriminate].
    injection H as <-. cbn [cl].
    destruct (step_writes _ _ _ Hs) as [E|[(m & E)|[(i & c0 & m & Hc & E & Hm)|E]]].
    + rewrite E. exact SG.
    + rewrite E in SG. inversion SG; assumption.
    + rewrite E. apply Forall_app. split; [exact SG|]. constructor; [|constructor].
      destruct Hm as [->| ->]; cbn; [exact Logic.I|].
      exact (CS.Forall_nth_error _ _ _ _ (CC.s_callers _ _ _ _ (si_S _ _ _ IS)) Hc).
    + rewrite E. apply Forall_app. split; [exact SG|]. constructor; [exact Logic.I|constructor].
  - destruct (C.to_server (cl s)) as [|m q] eqn:Hts; [discriminate|].
    destruct (C.step (cl s) C.LPeerAccept) as [cs'|] eqn:Hs; [|discriminate].
    destruct (S.step (sc_srv g) (sv s) (S.LArrive (EvMsg m))) as [ss'|]; [|discriminate]. injection H as <-. cbn [cl].
    destruct (CA.step_accept_spec _ _ _ Hs) as (m' & q' & Hts' & Eq & _). rewrite Hts in Hts'. injection Hts' as <- <-.
    rewrite Eq. inversion SG; assumption.
  - destruct (S.is_internal l); [|discriminate]. unfold srv_step in H.
    destruct (S.step (sc_srv g) (sv s) l); [|discriminate]. injection H as <-. exact SG.
  - destruct (existsb _ _); [|discriminate]. unfold srv_step in H.
    destruct (S.step (sc_srv g) (sv s) (S.LRelease t)); [|discriminate]. injection H as <-. exact SG.
Qed.

Lemma inv_run : forall ys s s', SInv s -> Forall sig_ok (C.to_server (cl s)) -> sys_run g s ys = Some s' ->
  SInv s' /\ Forall sig_ok (C.to_server (cl s')).
Proof.
  induction ys as [|y t IH]; intros s s' IS SG H; cbn in H.
  - injection H as <-. auto.
  - destruct (sys_step g s y) as [s1|] eqn:Hs; [|discriminate]. eapply IH; [| |exact H].
    + eapply (sinv_step g tcalls tnamed); eauto.
    + eapply sig_step; eauto.
Qed.

(* ---- the pipe: the name the server model receives IS the token ---- *)
Lemma name_msg_id : forall m, CC.cwm cls m -> sig_ok m -> name_msg vcalls (PM.map_msg Z gval den m) = m.
Proof.
  intros m Hm Hs. destruct Hm as [(r & t & Hin & ->)|[(r & d & ->)| ->]]; unfold PM.map_msg, name_msg.
  - rewrite (name_of_tok _ _ Hin). reflexivity.
  - unfold sig_ok in Hs. rewrite (name_of_tok _ _ Hs). reflexivity.
  - reflexivity.
Qed.

Lemma push_map : forall (cs : C.state Z) evs, vpush D vcalls (ms cs) evs = ms (push cs evs).
Proof. intros cs evs. destruct cs. unfold vpush, push, PM.map_state. cbn. rewrite map_app. reflexivity. Qed.

Lemma sim_srv : forall s l, vsrv_step D vcalls (img s) l = option_map img (srv_step g s l).
Proof.
  intros s l. unfold vsrv_step, srv_step. cbn [img vsv vcl].
  destruct (S.step (sc_srv g) (sv s) l) as [ss'|]; [|reflexivity]. cbn [option_map]. unfold img. cbn [cl sv].
  rewrite push_map. reflexivity.
Qed.

(* THE SIMULATION, one step *)
Theorem sim_step : forall s y, SInv s -> Forall sig_ok (C.to_server (cl s)) ->
  vsys_step D vcalls (img s) y = option_map img (sys_step g s y).
Proof.
  intros s y IS SG. destruct y as [l| |l|t]; cbn [vsys_step sys_step].
  - destruct (client_label l); [|reflexivity]. cbn [img vcl vsv]. rewrite PM.step_map.
    destruct (C.step (cl s) l); reflexivity.
  - cbn [img vcl vsv].
    change (C.to_server (ms (cl s))) with (map (PM.map_msg Z gval den) (C.to_server (cl s))).
    destruct (C.to_server (cl s)) as [|m q] eqn:Hts; [reflexivity|]. cbn [map].
    rewrite PM.step_map.
    assert (name_msg vcalls (PM.map_msg Z gval den m) = m) as ->.
    { apply name_msg_id.
      - pose proof (CC.s_to _ _ _ _ (si_S _ _ _ IS)) as F. rewrite Hts in F. inversion F; assumption.
      - try rewrite Hts in SG. inversion SG; assumption. }
    destruct (C.step (cl s) C.LPeerAccept) as [cs'|]; cbn [option_map]; [|reflexivity].
    destruct (S.step (sc_srv g) (sv s) (S.LArrive (EvMsg m))); reflexivity.
  - destruct (S.is_internal l); [|reflexivity]. apply sim_srv.
  - cbn [img vsv]. destruct (existsb _ _); [|reflexivity]. apply sim_srv.
Qed.

Theorem sim_run : forall ys s, SInv s -> Forall sig_ok (C.to_server (cl s)) ->
  vsys_run D vcalls (img s) ys = option_map img (sys_run g s ys).
Proof.
  induction ys as [|y t IH]; intros s IS SG; cbn [vsys_run sys_run]; [reflexivity|].
  rewrite (sim_step s y IS SG). destruct (sys_step g s y) as [s1|] eqn:Hs; cbn [option_map]; [|reflexivity].
  apply IH.
  - eapply (sinv_step g tcalls tnamed); eauto.
  - eapply sig_step; eauto.
Qed.

Lemma init_img : vsys_init vcalls close = img (sys_init tcalls close).
Proof.
  unfold vsys_init, img, sys_init. cbn [cl sv]. f_equal. unfold sys_session.
  rewrite <- (PM.init_map Z gval den). unfold tok_calls.
  rewrite (tok_from_image vcalls 0 den); [reflexivity|]. intros i x Hx. cbn [Nat.add]. apply den_input. exact Hx.
Qed.

Lemma init_invs : SInv (sys_init tcalls close) /\ Forall sig_ok (C.to_server (cl (sys_init tcalls close))).
Proof. split; [apply sinv_init; exact twf|constructor]. Qed.

(* the value-level executions ARE the images of the token-level executions *)
Theorem vsys_is_image : forall sched,
  vsys_run D vcalls (vsys_init vcalls close) sched = option_map img (sys_run g (sys_init tcalls close) sched).
Proof. intros sched. rewrite init_img. destruct init_invs as [IS SG]. apply sim_run; assumption. Qed.

Lemma final_img : forall s, SInv s -> Forall sig_ok (C.to_server (cl s)) -> vsys_final D vcalls (img s) -> sys_final g s.
Proof.
  intros s IS SG F y. specialize (F y). rewrite (sim_step s y IS SG) in F.
  destruct (sys_step g s y); [discriminate F|reflexivity].
Qed.

Lemma image_final : forall sched s, sys_run g (sys_init tcalls close) sched = Some s -> sys_final g s ->
  vsys_final D vcalls (img s).
Proof.
  intros sched s Hr Fs y. destruct init_invs as [IS0 SG0]. destruct (inv_run _ _ _ IS0 SG0 Hr) as [IS SG].
  rewrite (sim_step s y IS SG), (Fs y). reflexivity.
Qed.

Lemma res_img : forall s i, vsys_res (img s) i = vsys_result D vcalls s i.
Proof.
  intros s i. unfold vsys_res, vsys_result, sys_result, img. cbn [vcl].
  change (C.callers (ms (cl s))) with (map (PM.map_caller Z gval den) (C.callers (cl s))). rewrite PM.nth_error_map'.
  destruct (nth_error (C.callers (cl s)) i) as [c0|]; cbn [option_map]; [|reflexivity].
  change (C.c_pc (PM.map_caller Z gval den c0)) with (PM.map_cpc Z gval den (C.c_pc c0)).
  destruct (C.c_pc c0) as [| | | |r]; cbn [PM.map_cpc option_map]; try reflexivity.
Qed.

(* C05_transparent_end_to_end for the value-level system *)
Theorem transparent_values : (forall x, In x vcalls -> decodable (C.cs_input x)) ->
  forall sched vs, vsys_run D vcalls (vsys_init vcalls close) sched = Some vs -> vsys_final D vcalls vs ->
  (forall i x, nth_error vcalls i = Some x -> vsys_res vs i = Some (v_spec D (C.cs_input x))) /\
  (close = true -> C.closer (vcl vs) = C.KDone C.CloseOk).
Proof.
  intros Hdec sched vs H F. rewrite vsys_is_image in H.
  destruct (sys_run g (sys_init tcalls close) sched) as [s|] eqn:Hr; [|discriminate H]. injection H as <-.
  destruct init_invs as [IS0 SG0]. destruct (inv_run _ _ _ IS0 SG0 Hr) as [IS SG].
  pose proof (final_img _ IS SG F) as Fs.
  destruct (transparent D vcalls close runs_named session_wf Hdec sched s Hr Fs) as [R K]. split.
  - intros i x Hx. rewrite res_img. exact (proj1 (R i x Hx)).
  - intros Hc. exact (K Hc).
Qed.

(* every work-start in the value-level pipe carries the input value of the call its run id names *)
Definition ws_ok (m : msg gval) : Prop :=
  match m with
  | WorkStart r _ v => exists i x, nth_error vcalls i = Some x /\ C.cs_run x = r /\ v = C.cs_input x
  | _ => True
  end.

Theorem image_wire : forall sched vs, vsys_run D vcalls (vsys_init vcalls close) sched = Some vs ->
  Forall ws_ok (C.to_server (vcl vs)).
Proof.
  intros sched vs H. rewrite vsys_is_image in H.
  destruct (sys_run g (sys_init tcalls close) sched) as [s|] eqn:Hr; [|discriminate H]. injection H as <-.
  destruct init_invs as [IS0 SG0]. destruct (inv_run _ _ _ IS0 SG0 Hr) as [IS SG].
  cbn [img vcl]. change (C.to_server (ms (cl s))) with (map (PM.map_msg Z gval den) (C.to_server (cl s))).
  pose proof (CC.s_to _ _ _ _ (si_S _ _ _ IS)) as Fw. clear SG. induction Fw as [|m q Hm Hq IH]; cbn [map]; constructor; [|exact IH].
  destruct Hm as [(r & t & Hin & ->)|[(r & d & ->)| ->]]; unfold PM.map_msg, ws_ok; [|exact Logic.I|exact Logic.I].
  destruct (tok_pair_nth _ _ _ _ Hin) as (i & x & Hx & Hrx & Ht). cbn [Nat.add] in Ht. exists i, x. split; [exact Hx|split; [exact Hrx|]].
  rewrite Ht. apply den_input. exact Hx.
Qed.

End Image.
