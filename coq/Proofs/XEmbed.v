(* Proofs/XEmbed.v — the struct extension is conservative: on `embed s` (no struct information
   anywhere) the operations of Schema/XOps.v are those of Schema/Ops.v, for every fuel, environment,
   schema and Go value.  Hence every theorem about Ops.v transfers to XOps.v on embedded schemas. *)
From Coq Require Import Lia.
From Verif Require Import Base.Prelude Base.Str Base.Float Base.GoVal Base.XReflect
  Schema.Regex Schema.Units Schema.Syntax Schema.Ops Schema.XSyntax Schema.XOps.
Open Scope string_scope.

(* ---------- extensionality of the combinators ---------- *)

Lemma xe_bind_ext {A B} (o o' : outcome A) (k k' : A -> outcome B) :
  o = o' -> (forall a, k a = k' a) -> bind o k = bind o' k'.
Proof. intros -> H. destruct o'; cbn; auto. Qed.

Lemma xe_mapMi_ext {A B} (g g' : Z -> A -> outcome B) l : forall i,
  (forall j x, g j x = g' j x) -> mapMi g i l = mapMi g' i l.
Proof.
  induction l as [|x t IH]; intros i H; cbn; [reflexivity|].
  rewrite H. apply xe_bind_ext; [reflexivity|]. intros y. rewrite (IH _ H). reflexivity.
Qed.

Lemma xe_mapM_ext {A B} (g g' : A -> outcome B) l :
  (forall x, g x = g' x) -> mapM g l = mapM g' l.
Proof.
  intros H. induction l as [|x t IH]; cbn; [reflexivity|]. rewrite H, IH. reflexivity.
Qed.

Lemma xe_forM_ext {A} (g g' : A -> outcome unit) l :
  (forall x, g x = g' x) -> forM_ g l = forM_ g' l.
Proof.
  intros H. induction l as [|x t IH]; cbn; [reflexivity|]. rewrite H. apply xe_bind_ext; auto.
Qed.

Lemma xe_fold_ext {A B} (f f' : B -> A -> B) l : forall a a',
  a = a' -> (forall b x, f b x = f' b x) -> fold_left f l a = fold_left f' l a'.
Proof.
  induction l as [|x t IH]; intros a a' -> H; cbn; [reflexivity|]. rewrite H. apply IH; auto.
Qed.

Lemma xe_fold_map {A A' B} (f : B -> A' -> B) (g : A -> A') l : forall a,
  fold_left f (map g l) a = fold_left (fun b x => f b (g x)) l a.
Proof. induction l as [|x t IH]; intros a; cbn; [reflexivity|]. apply IH. Qed.

Lemma xe_forM_map {A A'} (f : A' -> outcome unit) (g : A -> A') l :
  forM_ f (map g l) = forM_ (fun x => f (g x)) l.
Proof. induction l as [|x t IH]; cbn; [reflexivity|]. rewrite IH. reflexivity. Qed.

Lemma xe_alookup_map {A B} (g : A -> B) k (l : list (string * A)) :
  alookup k (map (fun np => (fst np, g (snd np))) l) = option_map g (alookup k l).
Proof.
  induction l as [|[k' v] t IH]; cbn; [reflexivity|]. destruct (String.eqb k k'); [reflexivity | exact IH].
Qed.

Lemma xe_amem_map {A B} (g : A -> B) k (l : list (string * A)) :
  amem k (map (fun np => (fst np, g (snd np))) l) = amem k l.
Proof. unfold amem. rewrite xe_alookup_map. destruct (alookup k l); reflexivity. Qed.

Lemma xe_find_map {A B} (g : A -> B) (p : okey -> bool) (l : list (okey * A)) :
  find (fun ks => p (fst ks)) (map (fun ks => (fst ks, g (snd ks))) l)
  = option_map (fun ks => (fst ks, g (snd ks))) (find (fun ks => p (fst ks)) l).
Proof.
  induction l as [|[k v] t IH]; cbn; [reflexivity|]. destruct (p k); [reflexivity | exact IH].
Qed.

Lemma xe_find_key {A B} (g : A -> B) (key : okey) (l : list (okey * A)) :
  find (fun ks => okey_eqb (fst ks) key) (map (fun ks => (fst ks, g (snd ks))) l)
  = option_map (fun ks => (fst ks, g (snd ks))) (find (fun ks => okey_eqb (fst ks) key) l).
Proof.
  induction l as [|[k v] t IH]; cbn; [reflexivity|]. destruct (okey_eqb k key); [reflexivity | exact IH].
Qed.

(* ---------- the static parts ---------- *)

Section Embed.
Variable st : stab.
Notation E := (embed_env st).

Lemma xe_env_enter e tab : xenv_enter (E e) (embed_tab tab) = E (env_enter e tab).
Proof. reflexivity. Qed.

Lemma xe_resolve e id ns :
  xresolve (E e) id ns = option_map (fun oe => (embed (fst oe), E (snd oe))) (resolve e id ns).
Proof.
  unfold xresolve, resolve. destruct (String.eqb ns "").
  - cbn [xe_self embed_env]. unfold embed_tab. rewrite xe_alookup_map. destruct (alookup id (e_self e)); reflexivity.
  - cbn [xe_ext embed_env].
    rewrite (xe_alookup_map embed_tab ns (e_ext e)). destruct (alookup ns (e_ext e)) as [tab|]; cbn [option_map]; [|reflexivity].
    unfold embed_tab at 1. rewrite xe_alookup_map. destruct (alookup id tab); reflexivity.
Qed.

Lemma xe_obj_rtype o : xobj_rtype (embed o) = t_str_map.
Proof. destruct o; reflexivity. Qed.

Lemma xe_rtype e s : xrtype (E e) (embed s) = rtype s.
Proof.
  induction s; cbn [embed xrtype rtype]; try reflexivity.
  - rewrite IHs. reflexivity.
  - rewrite IHs1, IHs2. reflexivity.
  - rewrite xe_resolve. destruct (resolve e id ns) as [[o e']|]; cbn [option_map fst snd]; [apply xe_obj_rtype | reflexivity].
  - rewrite xe_alookup_map. destruct (alookup root objs); cbn [option_map]; [apply xe_obj_rtype | reflexivity].
Qed.

Lemma xe_obj_struct_type o : xobj_struct_type (embed o) = None.
Proof. destruct o; reflexivity. Qed.

Lemma xe_struct_rtype e s : xstruct_rtype (E e) (embed s) = None.
Proof.
  destruct s; cbn [embed xstruct_rtype xobj_struct_type]; try reflexivity.
  - rewrite xe_resolve. destruct (resolve e id ns) as [[o e']|]; cbn [option_map fst snd]; [apply xe_obj_struct_type | reflexivity].
  - rewrite xe_alookup_map. destruct (alookup root objs); cbn [option_map]; [apply xe_obj_struct_type | reflexivity].
Qed.

Lemma xe_find_struct e tv (ts : list (okey * schema)) :
  find (fun ks => match xstruct_rtype (E e) (snd ks) with Some t => gtype_eqb t tv | None => false end)
       (map (fun ks => (fst ks, embed (snd ks))) ts) = None.
Proof. induction ts as [|[k m] t IH]; cbn [map find fst snd]; [reflexivity|]. rewrite xe_struct_rtype. exact IH. Qed.

Lemma xe_type_id s : xtype_id_of (embed s) = type_id_of s.
Proof. destruct s; reflexivity. Qed.

Lemma xe_decode_default o p txt : xdecode_default o (map_prop embed p) txt = decode_default o p txt.
Proof. unfold xdecode_default, decode_default. cbn [map_prop p_type]. rewrite xe_type_id. reflexivity. Qed.

Lemma xe_check_rules (props : list (string * property)) set :
  xcheck_rules (map (fun np => (fst np, map_prop embed (snd np))) props) set = check_rules props set.
Proof. unfold xcheck_rules, check_rules. rewrite xe_forM_map. reflexivity. Qed.

(* ---------- the operations ---------- *)

Variable words : list (string * bool).
Variable pu : units -> string -> option fl.

Notation unser := (unser words pu).
Notation validate := (validate words pu).
Notation serialize := (serialize words pu).
Notation compat := (compat words pu).
Notation oneof_find := (oneof_find words pu).
Notation xunser := (xunser words pu).
Notation xvalidate := (xvalidate words pu).
Notation xserialize := (xserialize words pu).
Notation xcompat := (xcompat words pu).
Notation xoneof_find := (xoneof_find words pu).

Ltac xe_red :=
  cbn [embed map_prop p_type p_display p_required p_required_if p_required_if_not p_conflicts p_default
       p_examples p_empty_is_default p_disabled p_disabled_reason option_map fst snd bind xe_or embed_env
       e_or map kind_of is_str_any_map type_of].

Ltac xe_solve tac :=
  repeat (xe_red; first
    [ reflexivity
    | tac
    | rewrite xe_fold_map
    | rewrite xe_forM_map
    | rewrite xe_alookup_map
    | rewrite xe_amem_map
    | rewrite xe_find_map
    | rewrite xe_find_key
    | rewrite xe_resolve
    | rewrite xe_rtype
    | rewrite xe_struct_rtype
    | rewrite xe_decode_default
    | rewrite xe_check_rules
    | rewrite xe_env_enter
    | match goal with
      | |- context [option_map _ ?o] => destruct o as [?|] eqn:?
      | |- bind _ _ = bind _ _ => apply xe_bind_ext; [| intros ?]
      | |- seg _ _ = seg _ _ => apply f_equal
      | |- rewrap _ _ = rewrap _ _ => apply f_equal
      | |- rewrap_path _ = rewrap_path _ => apply f_equal
      | |- mapMi _ _ _ = mapMi _ _ _ => apply xe_mapMi_ext; intros ? ?
      | |- mapM _ _ = mapM _ _ => apply xe_mapM_ext; intros ?
      | |- forM_ _ _ = forM_ _ _ => apply xe_forM_ext; intros ?
      | |- fold_left _ ?l _ = fold_left _ ?l _ => apply xe_fold_ext; [| intros ? ?]
      | |- (match ?d with _ => _ end) = (match ?d with _ => _ end) => destruct d
      | |- (if ?d then _ else _) = (if ?d then _ else _) => destruct d
      | |- (let '(_, _) := ?d in _) = _ => destruct d
      | |- _ = (let '(_, _) := ?d in _) => destruct d
      | |- Ok _ = Ok _ => apply f_equal
      end ]).

Lemma xe_unser_all : forall f e s v, xunser f (E e) (embed s) v = unser f e s v.
Proof.
  induction f as [|f IHu]; [reflexivity|].
  intros e s v. destruct s; cbn [embed XOps.xunser Ops.unser];
    try (xe_solve ltac:(first [apply IHu])).
  (* the single-property shorthand of an object: the property list itself is matched *)
  all: destruct props as [|[? ?] [|? ?]]; xe_solve ltac:(first [apply IHu]).
Qed.

(* Conservativity of Unserialize: on a schema without struct information the extension IS Ops.unser, for
   every fuel, environment, schema and Go value.  (Unserialize only calls itself and any_conv, so this
   part stands alone.) *)
Theorem x_embed_unser : forall f e s v, xunser f (E e) (embed s) v = unser f e s v.
Proof. exact xe_unser_all. Qed.

(* Validate, Serialize and data-mode ValidateCompatibility are mutually recursive through the one-of lookup
   (xoneof_find / oneof_find, which calls compat on the member): they are proved together, by induction on
   the fuel, with the invariant `emb_at`.  The one-of lookup is factored first (its compiled pattern match
   holds 11 copies of the member check): `xe_oneof_tail` is the member check, `xe_oneof_find_step` the
   characterisation of one unfolding of xoneof_find on an embedded member list. *)
Definition emb3 (o : outcome (okey * schema * gval)) : outcome (okey * xschema * gval) :=
  match o with
  | Ok (k, m, d) => Ok (k, embed m, d)
  | Err e => Err e | Panic w => Panic w | OutOfFuel => OutOfFuel
  end.
Definition emb_types (ts : list (okey * schema)) := map (fun ks => (fst ks, embed (snd ks))) ts.
Definition emb_at (f : nat) : Prop :=
  (forall e s v, xunser f (E e) (embed s) v = unser f e s v) /\
  (forall e s v, xvalidate f (E e) (embed s) v = validate f e s v) /\
  (forall e ts ik fld il v, xoneof_find f (E e) (emb_types ts) ik fld il v = emb3 (oneof_find f e ts ik fld il v)) /\
  (forall e s v, xserialize f (E e) (embed s) v = serialize f e s v) /\
  (forall e s v, xcompat f (E e) (embed s) v = compat f e s v).

(* the part of the lookup after the typed discriminator `key` has been read *)
Definition xe_tail (f : nat) (e : env) (ts : list (okey * schema)) (key : okey) (il : bool) (fld : string)
                   (kvs : list (gval * gval)) : outcome (okey * schema * gval) :=
  match find (fun ks => okey_eqb (fst ks) key) ts with
  | None => Err (cerr EKey)
  | Some (_, member) =>
      let clone := VMap t_str_map false (if il then kvs else smap_del fld kvs) in
      _ <- rewrap_path (compat f e member clone) ;; Ok (key, member, clone)
  end.
Definition xe_xtail (f : nat) (e : xenv) (ts : list (okey * xschema)) (key : okey) (il : bool) (fld : string)
                    (kvs : list (gval * gval)) : outcome (okey * xschema * gval) :=
  match find (fun ks => okey_eqb (fst ks) key) ts with
  | None => Err (cerr EKey)
  | Some (_, member) =>
      let clone := VMap t_str_map false (if il then kvs else smap_del fld kvs) in
      _ <- rewrap_path (xcompat f e member clone) ;; Ok (key, member, clone)
  end.

Lemma xe_oneof_tail f e ts key il fld kvs :
  (forall e s v, xcompat f (E e) (embed s) v = compat f e s v) ->
  xe_xtail f (E e) (emb_types ts) key il fld kvs = emb3 (xe_tail f e ts key il fld kvs).
Proof.
  intros Hc. unfold xe_xtail, xe_tail, emb_types. rewrite xe_find_key.
  destruct (find (fun ks => okey_eqb (fst ks) key) ts) as [[k m]|]; cbn [option_map fst snd]; [|reflexivity].
  rewrite Hc.
  destruct (compat f e m (VMap t_str_map false (if il then kvs else smap_del fld kvs))); reflexivity.
Qed.

Lemma xe_gtype_eqb_true a : forall b, gtype_eqb a b = true -> a = b.
Proof.
  induction a; intros b H; destruct b; cbn in H; try discriminate; try reflexivity.
  - destruct k, k0; try discriminate; reflexivity.
  - apply andb_prop in H. destruct H as [H1 H2]. apply String.eqb_eq in H1. apply IHa in H2. subst. reflexivity.
  - apply IHa in H. subst. reflexivity.
  - apply andb_prop in H. destruct H as [H1 H2]. apply IHa1 in H1. apply IHa2 in H2. subst. reflexivity.
  - apply IHa in H. subst. reflexivity.
  - apply String.eqb_eq in H. subst. reflexivity.
  - apply String.eqb_eq in H. subst. reflexivity.
Qed.

(* one unfolding of the lookup on an embedded member list, given compat at the fuel below *)
Lemma xe_oneof_find_step f e ts ik fld il v :
  (forall e s v, xcompat f (E e) (embed s) v = compat f e s v) ->
  xoneof_find (S f) (E e) (emb_types ts) ik fld il v = emb3 (oneof_find (S f) e ts ik fld il v).
Proof.
  intros Hc.
  assert (Hns : forall tv, find (fun ks => match xstruct_rtype (E e) (snd ks) with Some t => gtype_eqb t tv | None => false end)
                             (emb_types ts) = None) by (intros tv; apply xe_find_struct).
  destruct v as [|t b|t z|t x|t s|t b l|t b kvs|t o|t fs|src|k d];
    cbn [XOps.xoneof_find Ops.oneof_find kind_of type_of].
  1: reflexivity.
  1-5, 7-8: destruct (kind_of_type t); cbn [is_str_any_map emb3]; rewrite ?Hns; reflexivity.
  2: rewrite Hns; reflexivity.
  2: destruct k; cbn [emb3]; rewrite ?Hns; reflexivity.
  (* a map *)
  cbn [is_str_any_map].
  destruct (gtype_eqb t t_str_map) eqn:Ht.
  2: destruct (kind_of_type t); cbn [emb3]; rewrite ?Hns; reflexivity.
  apply xe_gtype_eqb_true in Ht. subst t. cbn [kind_of_type underlying t_str_map].
  destruct (smap_get fld kvs) as [d|]; [|reflexivity].
  destruct d as [|t1 b1|t1 z1|t1 x1|t1 s1|t1 b1 l1|t1 b1 l1|t1 o1|t1 fs1|src1|k1 d1]; try reflexivity;
    destruct ik; try reflexivity.
  - destruct t1 as [|k| | | | | | | | | | |]; try reflexivity. destruct k; try reflexivity.
    exact (xe_oneof_tail f e ts (KI z1) il fld kvs Hc).
  - destruct t1; try reflexivity.
    exact (xe_oneof_tail f e ts (KS s1) il fld kvs Hc).
Qed.

(* one-step equations of the one-of cases, with the sibling functions folded *)
Lemma xe_xvalidate_oneof f e ts ik fld il v :
  xvalidate (S f) e (XOneOf ts ik fld il) v =
  (km <- xoneof_find f e ts ik fld il v ;;
   let '(key, member, data') := km in seg (oneof_seg key) (xvalidate f e member data')).
Proof. reflexivity. Qed.
Lemma xe_validate_oneof f e ts ik fld il v :
  validate (S f) e (SOneOf ts ik fld il) v =
  (km <- oneof_find f e ts ik fld il v ;;
   let '(key, member, data') := km in seg (oneof_seg key) (validate f e member data')).
Proof. reflexivity. Qed.
Lemma xe_xserialize_oneof f e ts ik fld il v :
  xserialize (S f) e (XOneOf ts ik fld il) v =
  (km <- xoneof_find f e ts ik fld il v ;;
   let '(key, member, data') := km in
   x <- xserialize f e member data' ;;
   match is_str_any_map x with
   | Some xs =>
       match smap_get fld xs with
       | Some _ => Ok x
       | None => Ok (VMap t_str_map false
                       (map_set (vstr fld) (match key with KI z => vi64 z | KS s0 => vstr s0 end) xs))
       end
   | None => Panic "one-of member serialized to a non-map"
   end).
Proof. reflexivity. Qed.
Lemma xe_serialize_oneof f e ts ik fld il v :
  serialize (S f) e (SOneOf ts ik fld il) v =
  (km <- oneof_find f e ts ik fld il v ;;
   let '(key, member, data') := km in
   x <- serialize f e member data' ;;
   match is_str_any_map x with
   | Some xs =>
       match smap_get fld xs with
       | Some _ => Ok x
       | None => Ok (VMap t_str_map false
                       (map_set (vstr fld) (match key with KI z => vi64 z | KS s0 => vstr s0 end) xs))
       end
   | None => Panic "one-of member serialized to a non-map"
   end).
Proof. reflexivity. Qed.
Lemma xe_xcompat_oneof f e ts ik fld il v :
  xcompat (S f) e (XOneOf ts ik fld il) v =
  match is_str_any_map v with
  | Some _ => _ <- xoneof_find f e ts ik fld il v ;; Ok tt
  | None =>
      match kind_of v with
      | KStruct => Err (cerr ERepr)
      | KPtr => match v with
                | VPtr _ (Some (VStruct _ _)) | VOpaque OPtr _ => Err (cerr ERepr)
                | VPtr _ None => Err (cerr ERepr)
                | _ => xvalidate f e (XOneOf ts ik fld il) v
                end
      | _ => xvalidate f e (XOneOf ts ik fld il) v
      end
  end.
Proof. reflexivity. Qed.
Lemma xe_compat_oneof f e ts ik fld il v :
  compat (S f) e (SOneOf ts ik fld il) v =
  match is_str_any_map v with
  | Some _ => _ <- oneof_find f e ts ik fld il v ;; Ok tt
  | None =>
      match kind_of v with
      | KStruct => Err (cerr ERepr)
      | KPtr => match v with
                | VPtr _ (Some (VStruct _ _)) | VOpaque OPtr _ => Err (cerr ERepr)
                | VPtr _ None => Err (cerr ERepr)
                | _ => validate f e (SOneOf ts ik fld il) v
                end
      | _ => validate f e (SOneOf ts ik fld il) v
      end
  end.
Proof. reflexivity. Qed.

Ltac xe_ih IHu IHv IHs IHc :=
  first [ apply IHu | apply IHv | apply IHs | apply IHc
        | exact (IHc _ SAny _)
        | exact (IHu _ (SInt _ _ _) _) | exact (IHu _ (SFloat _ _ _) _) | exact (IHu _ SBool _)
        | exact (IHu _ (SString _ _ _) _) | exact (IHu _ (SObject _ _ _) _)
        | exact (IHv _ (SEnumInt _ _) _) | exact (IHv _ (SEnumStr _ _) _) | exact (IHv _ SPattern _)
        | exact (IHv _ (SList _ _ _) _) | exact (IHv _ (SMap _ _ _ _) _) | exact (IHv _ (SOneOf _ _ _ _) _) ].

Lemma xe_emb_at : forall f, emb_at f.
Proof.
  induction f as [|f IH].
  - repeat split; reflexivity.
  - destruct IH as (IHu & IHv & IHo & IHs & IHc). unfold emb_types in IHo.
    assert (Hu : forall e s v, xunser (S f) (E e) (embed s) v = unser (S f) e s v) by (intros; apply xe_unser_all).
    split; [exact Hu|].
    split; [|split; [|split]].
    + (* validate *)
      intros e s v. destruct s.
      12: { cbn [embed]. rewrite xe_xvalidate_oneof, xe_validate_oneof, IHo.
            destruct (oneof_find f e types int_keys field inlined v) as [[[k m] d]|?|?|]; cbn [emb3 bind]; try reflexivity.
            apply f_equal. apply IHv. }
      all: cbn [embed XOps.xvalidate Ops.validate]; xe_solve ltac:(xe_ih IHu IHv IHs IHc).
    + (* the one-of lookup *)
      intros e ts ik fld il v. apply xe_oneof_find_step. exact IHc.
    + (* serialize *)
      intros e s v. destruct s.
      12: { cbn [embed]. rewrite xe_xserialize_oneof, xe_serialize_oneof, IHo.
            destruct (oneof_find f e types int_keys field inlined v) as [[[k m] d]|?|?|]; cbn [emb3 bind]; try reflexivity.
            rewrite IHs. reflexivity. }
      all: cbn [embed XOps.xserialize Ops.serialize]; xe_solve ltac:(xe_ih IHu IHv IHs IHc).
    + (* compat *)
      intros e s v. destruct s.
      12: { cbn [embed]. rewrite xe_xcompat_oneof, xe_compat_oneof.
            destruct (is_str_any_map v) as [kvs|].
            - rewrite IHo. destruct (oneof_find f e types int_keys field inlined v) as [[[k m] d]|?|?|]; reflexivity.
            - change (XOneOf (map (fun ks : okey * schema => (fst ks, embed (snd ks))) types) int_keys field inlined)
                with (embed (SOneOf types int_keys field inlined)).
              rewrite IHv. reflexivity. }
      all: cbn [embed XOps.xcompat Ops.compat]; xe_solve ltac:(xe_ih IHu IHv IHs IHc).
Qed.

(* Conservativity of Validate, Serialize and data-mode ValidateCompatibility: on a schema without struct
   information the extension IS Ops.v, for every fuel, environment, schema and Go value; the one-of lookup
   returns the embedded member of the member Ops.oneof_find returns. *)
Theorem x_embed_validate : forall f e s v, xvalidate f (E e) (embed s) v = validate f e s v.
Proof. intros f. exact (proj1 (proj2 (xe_emb_at f))). Qed.

Theorem x_embed_oneof_find : forall f e ts ik fld il v,
  xoneof_find f (E e) (emb_types ts) ik fld il v = emb3 (oneof_find f e ts ik fld il v).
Proof. intros f. exact (proj1 (proj2 (proj2 (xe_emb_at f)))). Qed.

Theorem x_embed_serialize : forall f e s v, xserialize f (E e) (embed s) v = serialize f e s v.
Proof. intros f. exact (proj1 (proj2 (proj2 (proj2 (xe_emb_at f))))). Qed.

Theorem x_embed_compat : forall f e s v, xcompat f (E e) (embed s) v = compat f e s v.
Proof. intros f. exact (proj2 (proj2 (proj2 (proj2 (xe_emb_at f))))). Qed.

End Embed.

Print Assumptions x_embed_unser.
Print Assumptions x_embed_validate.
Print Assumptions x_embed_oneof_find.
Print Assumptions x_embed_serialize.
Print Assumptions x_embed_compat.
