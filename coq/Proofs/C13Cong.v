(* Proofs/C13Cong.v — the operations of Schema/OpsC.v (unit parsing on the integer path, unit parsing on
   the float path and the JSON decoding of property defaults all taken as parameters) equal those of
   Schema/Ops.v whenever the parameters agree POINTWISE with the functions Ops.v uses.  This is the
   lemma that lets a cache stand between an operation and those three functions (Proofs/C13Cache.v):
   a coherent cache returns what the function returns.  Same proof as C12History.ops_cong, which it
   generalises (there only the oracles of the environment vary). *)
From Coq Require Import Lia.
From Verif Require Import Base.Prelude Base.Str Base.Float Base.GoVal
  Schema.Regex Schema.Units Schema.Syntax Schema.Ops Schema.OpsC Proofs.OpsEq Proofs.OpsCEq Proofs.C12History.
Open Scope string_scope.

Section CCong.
Variable words : list (string * bool).
Variables pu pu' : units -> string -> option fl.
Variable pi : units -> string -> option Z.
Hypothesis Hpu : forall u s, pu' u s = pu u s.
Hypothesis Hpi : forall u s, pi u s = parse_units_int u s.

Lemma int_mapper_c_eq u v : int_mapper_c pi u v = int_mapper u v.
Proof.
  unfold int_mapper_c. destruct u as [us|]; [|reflexivity].
  destruct v; try reflexivity. destruct t; try reflexivity. cbn. apply Hpi.
Qed.
Lemma int_unser_c_eq mn mx u v : int_unser_c pi mn mx u v = int_unser mn mx u v.
Proof. unfold int_unser_c, int_unser. now rewrite int_mapper_c_eq. Qed.
Lemma enum_int_unser_c_eq vals u v : enum_int_unser_c pi vals u v = enum_int_unser vals u v.
Proof. unfold enum_int_unser_c, enum_int_unser. now rewrite int_mapper_c_eq. Qed.
Lemma float_unser_eq mn mx u v : float_unser pu' mn mx u v = float_unser pu mn mx u v.
Proof.
  unfold float_unser, float_mapper. destruct v; try reflexivity. destruct t; try reflexivity.
  destruct u as [us|]; [|reflexivity]. now rewrite Hpu.
Qed.

Notation unser := (unser words pu).
Notation validate := (validate words pu).
Notation serialize := (serialize words pu).
Notation compat := (compat words pu).
Notation oneof_find := (oneof_find words pu).
Notation unser_c := (unser_c words pu' pi).
Notation validate_c := (validate_c words pu' pi).
Notation serialize_c := (serialize_c words pu' pi).
Notation compat_c := (compat_c words pu' pi).
Notation oneof_find_c := (oneof_find_c words pu' pi).

Definition ccong_at (f : nat) : Prop :=
  forall e e', env_sim e e' ->
    (forall s v, unser_c f e s v = unser f e' s v) /\
    (forall s v, validate_c f e s v = validate f e' s v) /\
    (forall ts ik fld inld v, oneof_find_c f e ts ik fld inld v = oneof_find f e' ts ik fld inld v) /\
    (forall s v, serialize_c f e s v = serialize f e' s v) /\
    (forall s v, compat_c f e s v = compat f e' s v).

Ltac cref_case Href id ns :=
  specialize (Href id ns);
  destruct (resolve _ id ns) as [[? ?]|], (resolve _ id ns) as [[? ?]|]; try contradiction; try reflexivity;
  destruct Href as (-> & A & B & C & D); first [apply A | apply B | apply C | apply D].

Lemma ops_c_cong : forall f, ccong_at f.
Proof.
  induction f as [|f IH]; intros e e' Hsim.
  { repeat split; intros; reflexivity. }
  pose proof (IH e e' Hsim) as (IHu & IHv & IHo & IHs & IHc).
  assert (IHenter : forall objs, (forall s v, unser_c f (env_enter e objs) s v = unser f (env_enter e' objs) s v) /\
                                 (forall s v, validate_c f (env_enter e objs) s v = validate f (env_enter e' objs) s v) /\
                                 (forall s v, serialize_c f (env_enter e objs) s v = serialize f (env_enter e' objs) s v) /\
                                 (forall s v, compat_c f (env_enter e objs) s v = compat f (env_enter e' objs) s v)).
  { intros objs. destruct (IH _ _ (sim_enter _ _ objs Hsim)) as (A & B & _ & C & D). repeat split; auto. }
  assert (Href : forall id ns,
            match resolve e id ns, resolve e' id ns with
            | Some (o, e2), Some (o', e2') =>
                o = o' /\ (forall s v, unser_c f e2 s v = unser f e2' s v) /\ (forall s v, validate_c f e2 s v = validate f e2' s v) /\
                (forall s v, serialize_c f e2 s v = serialize f e2' s v) /\ (forall s v, compat_c f e2 s v = compat f e2' s v)
            | None, None => True
            | _, _ => False
            end).
  { intros id ns. pose proof (sim_resolve e e' id ns Hsim) as Hr.
    destruct (resolve e id ns) as [[o e2]|], (resolve e' id ns) as [[o' e2']|]; try exact Hr.
    destruct Hr as [-> Hs2]. destruct (IH _ _ Hs2) as (A & B & _ & C & D). repeat split; auto. }
  assert (HU : forall s v, unser_c (S f) e s v = unser (S f) e' s v).
  { intros s v. rewrite (unser_c_S words pu' pi), (unser_S words pu). destruct s; cbv beta iota zeta;
      try reflexivity; try (apply (sim_pattern _ _ _ Hsim));
      try apply int_unser_c_eq; try apply float_unser_eq; try apply enum_int_unser_c_eq.
    - eq_solve_with ltac:(first [apply IHu]).
    - eq_solve_with ltac:(first [apply IHu]).
    - eq_solve_with ltac:(first [apply IHu | rewrite (sim_decode _ _ _ _ Hsim)]).
    - eq_solve_with ltac:(first [apply IHu]).
    - cref_case Href id ns.
    - destruct (alookup root objs); [|reflexivity]. apply (IHenter objs). }
  assert (HO : forall ts ik fld inld v, oneof_find_c (S f) e ts ik fld inld v = oneof_find (S f) e' ts ik fld inld v).
  { intros ts ik fld inld v. rewrite (oneof_find_c_S words pu' pi), (oneof_find_S words pu). cbv beta iota zeta.
    eq_solve_with ltac:(first [apply IHc]). }
  assert (HV : forall s v, validate_c (S f) e s v = validate (S f) e' s v).
  { intros s v. rewrite (validate_c_S words pu' pi), (validate_S words pu). destruct s; cbv beta iota zeta; try reflexivity.
    - eq_solve_with ltac:(first [apply IHv]).
    - eq_solve_with ltac:(first [apply IHv]).
    - eq_solve_with ltac:(first [apply IHv]).
    - eq_solve_with ltac:(first [apply IHv | apply IHo]).
    - cref_case Href id ns.
    - destruct (alookup root objs); [|reflexivity]. apply (IHenter objs). }
  assert (HS : forall s v, serialize_c (S f) e s v = serialize (S f) e' s v).
  { intros s v. rewrite (serialize_c_S words pu' pi), (serialize_S words pu). destruct s; cbv beta iota zeta; try reflexivity.
    - eq_solve_with ltac:(first [apply IHs | apply IHv]).
    - eq_solve_with ltac:(first [apply IHs | apply IHv]).
    - eq_solve_with ltac:(first [apply IHs | apply IHv]).
    - eq_solve_with ltac:(first [apply IHs | apply IHo]).
    - cref_case Href id ns.
    - destruct (alookup root objs); [|reflexivity]. apply (IHenter objs). }
  assert (HC : forall s v, compat_c (S f) e s v = compat (S f) e' s v).
  { intros s v. rewrite (compat_c_S words pu' pi), (compat_S words pu). destruct s; cbv beta iota zeta; try reflexivity.
    1-12: eq_solve_with ltac:(first [apply IHc | apply IHu | apply IHv | apply IHo]).
    - cref_case Href id ns.
    - destruct (alookup root objs); [|reflexivity]. apply (IHenter objs). }
  repeat split; auto.
Qed.

End CCong.
