(* Proofs/UnitsStringRound.v — C16 string-level round trip for ARBITRARY definitions:
   for every well-formed definition whose names are unambiguous (names_unambiguous, a
   boolean) and every n in [0, max int64]:  ParseInt (FormatShortInt n) = n, same for the long
   form.  Method: the formatted string has a tokenisation (so the matcher answers, by weak
   completeness), every tokenisation of it is THE canonical one (uniqueness, from the
   conditions on the names), and the matcher's answer is a tokenisation (soundness). *)
From Coq Require Import Lia ZArith List Arith Bool Permutation.
From Verif Require Import Base.Prelude Base.Str Schema.Regex Schema.Units
  Proofs.UnitsArith Proofs.UnitsStringRe Proofs.UnitsStringTok Proofs.UnitsStringSound.
Import ListNotations.
Open Scope Z_scope.
Open Scope list_scope.

(* ================= decimal rendering ================= *)

Lemma digit_chr_ok : forall d, 0 <= d < 10 -> is_digit (digit_chr d) = true /\ digit_val (digit_chr d) = d.
Proof.
  intros d H.
  assert (C : d = 0 \/ d = 1 \/ d = 2 \/ d = 3 \/ d = 4 \/ d = 5 \/ d = 6 \/ d = 7 \/ d = 8 \/ d = 9) by lia.
  repeat (destruct C as [C|C]; [subst d; vm_compute; split; reflexivity|]).
  subst d; vm_compute; split; reflexivity.
Qed.

Lemma digits_val_snoc : forall l c, digits_val (l ++ [c]) = digits_val l * 10 + digit_val c.
Proof. intros l c. unfold digits_val. rewrite fold_left_app. reflexivity. Qed.

Lemma all_digits_app : forall a b, all_digits (a ++ b) = all_digits a && all_digits b.
Proof. induction a as [|x a IH]; intro b; cbn [app all_digits]; [reflexivity | rewrite IH, andb_assoc; reflexivity]. Qed.

Lemma digits_fuel_S : forall f n acc,
  digits_fuel (S f) n acc =
  if n <? 10 then digit_chr (n mod 10) :: acc else digits_fuel f (n / 10) (digit_chr (n mod 10) :: acc).
Proof. reflexivity. Qed.

Lemma digits_fuel_spec : forall f n acc, 0 <= n < 2 ^ Z.of_nat f ->
  exists ds, digits_fuel (S f) n acc = ds ++ acc /\ ds <> [] /\ all_digits ds = true /\ digits_val ds = n.
Proof.
  induction f as [|f IH]; intros n acc H.
  - change (2 ^ Z.of_nat 0) with 1 in H. assert (n = 0) by lia. subst n.
    exists [digit_chr 0]. split; [reflexivity|]. split; [discriminate|]. split; vm_compute; reflexivity.
  - rewrite Nat2Z.inj_succ, Z.pow_succ_r in H by lia.
    pose proof (Z.pow_pos_nonneg 2 (Z.of_nat f) ltac:(lia) ltac:(lia)) as Pp.
    rewrite digits_fuel_S. destruct (Z.ltb_spec n 10) as [L|L].
    + exists [digit_chr (n mod 10)]. split; [reflexivity|]. split; [discriminate|].
      rewrite Z.mod_small by lia. destruct (digit_chr_ok n ltac:(lia)) as [D V].
      split; [cbn [all_digits]; rewrite D; reflexivity | unfold digits_val; cbn [fold_left]; lia].
    + assert (B : 0 <= n / 10 < 2 ^ Z.of_nat f).
      { split; [apply Z.div_pos; lia | apply Z.div_lt_upper_bound; lia]. }
      destruct (IH (n / 10) (digit_chr (n mod 10) :: acc) B) as (ds & E & N & F & V).
      exists (ds ++ [digit_chr (n mod 10)]). rewrite <- app_assoc. split; [exact E|].
      split; [destruct ds; discriminate|].
      pose proof (Z.mod_pos_bound n 10 ltac:(lia)) as Mb.
      destruct (digit_chr_ok (n mod 10) Mb) as [D V'].
      split.
      * rewrite all_digits_app, F. cbn [all_digits]. rewrite D. reflexivity.
      * rewrite digits_val_snoc, V, V'. pose proof (Z.div_mod n 10 ltac:(lia)). lia.
Qed.

Lemma nat_digits_spec : forall n, 0 <= n ->
  nat_digits n <> [] /\ all_digits (nat_digits n) = true /\ digits_val (nat_digits n) = n.
Proof.
  intros n H. unfold nat_digits.
  assert (B : 0 <= n < 2 ^ Z.of_nat (Z.to_nat (Z.log2 n + 1))).
  { pose proof (Z.log2_nonneg n). rewrite Z2Nat.id by lia. split; [lia|].
    destruct (Z.eq_dec n 0) as [E|E]; [subst; vm_compute; reflexivity|].
    pose proof (Z.log2_spec n ltac:(lia)). unfold Z.succ in *. lia. }
  destruct (digits_fuel_spec _ n [] B) as (ds & E & N & F & V). rewrite E, app_nil_r. auto.
Qed.

Lemma z_to_dec_nonneg : forall n, 0 <= n -> chars (z_to_dec n) = nat_digits n.
Proof.
  intros n H. unfold z_to_dec. destruct (Z.ltb_spec n 0); [lia|]. apply chars_unchars.
Qed.

(* ================= character facts ================= *)

Lemma digit_not_space : forall c, is_digit c = true -> is_re_space c = false /\ is_trim_space c = false.
Proof. intros [[] [] [] [] [] [] [] []] H; vm_compute in H; try discriminate; split; reflexivity. Qed.

Lemma space_not_digit : forall c, is_re_space c = true -> is_digit c = false.
Proof. intros c H. destruct (is_digit c) eqn:D; [|reflexivity]. destruct (digit_not_space c D) as [E _]. congruence. Qed.

Lemma digit_not_dot : forall c, is_digit c = true -> Ascii.eqb c "."%char = false.
Proof. intros [[] [] [] [] [] [] [] []] H; vm_compute in H; try discriminate; reflexivity. Qed.

Lemma all_digits_no_dot : forall l, all_digits l = true -> contains_chr "."%char l = false.
Proof.
  induction l as [|c l IH]; intro H; [reflexivity|]. cbn [all_digits] in H. apply andb_prop in H. destruct H as [D F].
  cbn [contains_chr]. rewrite (digit_not_dot c D), (IH F). reflexivity.
Qed.

Lemma chars_app : forall a b, chars (a ++ b)%string = chars a ++ chars b.
Proof. induction a as [|c a IH]; intro b; [reflexivity|]. cbn. f_equal. apply IH. Qed.

Lemma chars_nil : forall s, chars s = [] -> s = ""%string.
Proof. intros [|c s] H; [reflexivity | discriminate]. Qed.

Lemma chars_inj : forall a b, chars a = chars b -> a = b.
Proof. intros a b H. rewrite <- (unchars_chars a), <- (unchars_chars b), H. reflexivity. Qed.

(* ================= conditions on names ================= *)

(* the head of a name: not a digit (it delimits the count), not a space (nothing may be eaten
   by the \s* after the count), and not a point that could continue a fraction *)
Definition name_head_ok (x : list ascii) : bool :=
  match x with
  | [] => false
  | c :: t => negb (is_digit c) && negb (is_re_space c)
              && negb (Ascii.eqb c "."%char && match t with [] => true | d :: _ => is_digit d end)
  end.

(* the END of a name must survive strings.TrimSpace: the name does not end with a white-space character -
   one of the six ASCII ones or the UTF-8 encoding of U+0085, U+00A0, U+1680, U+2000..U+200A, U+2028, U+2029,
   U+202F, U+205F, U+3000 (Base/Str.v head_sp usp2r usp3r reads the reversed name; a count precedes every
   name, and a digit is no part of such an encoding, so the name alone decides: TrimSpaceU.head_spr_digit) *)
Definition name_last_ok (x : list ascii) : bool :=
  match rev x with [] => false | _ :: _ => negb (head_sp usp2r usp3r (rev x)) end.

(* x is a proper prefix of y and y continues with a digit or a space: then x followed by the next
   token (or by optional spaces) can be confused with y *)
Fixpoint prefix_hazard (x y : list ascii) : bool :=
  match x, y with
  | [], c :: _ => is_digit c || is_re_space c
  | a :: x', b :: y' => Ascii.eqb a b && prefix_hazard x' y'
  | _, [] => false
  end.

(* units with their capture keys; names of all units *)
Definition keyed (u : units) : list (Z * unit_def) := (1, u_base u) :: u_mults u.
Definition all_names (u : units) : list string := flat_map (fun kd => unit_names (snd kd)) (keyed u).

Definition share_name (a b : unit_def) : bool := existsb (fun x => str_in x (unit_names b)) (unit_names a).

Definition names_unambiguous (u : units) : bool :=
  forallb (fun x => name_head_ok (chars x) && name_last_ok (chars x)) (all_names u)
  && forallb (fun x => forallb (fun y => negb (prefix_hazard (chars x) (chars y))) (all_names u)) (all_names u)
  && forallb (fun kd1 => forallb (fun kd2 => (fst kd1 =? fst kd2) || negb (share_name (snd kd1) (snd kd2))) (keyed u)) (keyed u).

Lemma prefix_hazard_app : forall x c z, prefix_hazard x (x ++ c :: z) = is_digit c || is_re_space c.
Proof. induction x as [|a x IH]; intros c z; cbn [app prefix_hazard]; [reflexivity | rewrite Ascii.eqb_refl, IH; reflexivity]. Qed.

Lemma name_head_ok_inv : forall x, name_head_ok x = true ->
  exists c t, x = c :: t /\ is_digit c = false /\ is_re_space c = false
    /\ (c = "."%char -> exists d t', t = d :: t' /\ is_digit d = false).
Proof.
  intros [|c t] H; [discriminate|]. cbn [name_head_ok] in H.
  apply andb_prop in H. destruct H as [H Hd]. apply andb_prop in H. destruct H as [H1 H2].
  apply negb_true_iff in H1, H2, Hd. exists c, t. repeat split; auto.
  intro E. subst c. rewrite Ascii.eqb_refl in Hd. cbn [andb] in Hd.
  destruct t as [|d t']; [discriminate|]. exists d, t'. split; [reflexivity | exact Hd].
Qed.

(* ================= heads of strings ================= *)

Definition head_is (P : ascii -> bool) (l : list ascii) : Prop :=
  match l with [] => True | c :: _ => P c = true end.

Definition dig_or_space (c : ascii) : bool := is_digit c || is_re_space c.

Lemma spaces_cons : forall c l, spaces (c :: l) = true -> is_re_space c = true /\ spaces l = true.
Proof. intros c l H. unfold spaces in *. cbn [forallb] in H. apply andb_prop in H. exact H. Qed.

Lemma all_digits_head : forall l, l <> [] -> all_digits l = true -> exists c t, l = c :: t /\ is_digit c = true.
Proof.
  intros [|c t] N F; [congruence|]. cbn [all_digits] in F. apply andb_prop in F. destruct F as [D _]. eauto.
Qed.

Lemma utoken_head : forall fr tok, utoken fr tok -> exists c t, tok = c :: t /\ is_digit c = true.
Proof.
  intros fr tok U. destruct U as [fr ds N F | ds fs N F N' F'].
  - apply all_digits_head; assumption.
  - destruct (all_digits_head ds N F) as (c & t & E & D). subst ds. exists c, (t ++ "."%char :: fs). split; [reflexivity | exact D].
Qed.

Lemma useq_head : forall ps s toks, useq ps s toks -> head_is dig_or_space s.
Proof.
  intros ps s toks U. induction U as [|k fr nms ps seg tok sp s toks Us F U IH]; [exact I|].
  destruct Us as [|tok sp' nm Ut F' In'].
  - cbn [app]. destruct sp as [|c sp]; [exact IH|].
    cbn [app head_is]. apply spaces_cons in F. destruct F as [F _]. unfold dig_or_space. rewrite F. apply orb_true_r.
  - destruct (utoken_head _ _ Ut) as (c & t & E & D). subst tok. cbn [app head_is]. unfold dig_or_space. rewrite D. reflexivity.
Qed.

Lemma useq_nil_inv : forall s toks, useq [] s toks -> s = [] /\ toks = [].
Proof. intros s toks U. inversion U; subst. split; reflexivity. Qed.

Lemma useq_cons_inv : forall k fr nms ps s toks, useq ((k, fr, nms) :: ps) s toks ->
  exists seg tok sp s1 toks1, s = seg ++ sp ++ s1 /\ toks = tok :: toks1
    /\ useg fr nms seg tok /\ spaces sp = true /\ useq ps s1 toks1.
Proof. intros k fr nms ps s toks U. inversion U; subst. do 5 eexists. repeat split; eassumption. Qed.

(* ================= the head analysis ================= *)

Lemma digit_run_eq : forall d1 X ds Y,
  all_digits d1 = true -> all_digits ds = true ->
  head_is (fun c => negb (is_digit c)) X -> head_is (fun c => negb (is_digit c)) Y ->
  d1 ++ X = ds ++ Y -> d1 = ds /\ X = Y.
Proof.
  induction d1 as [|a d1 IH]; intros X ds Y F1 F2 HX HY E.
  - destruct ds as [|b ds]; [split; [reflexivity | exact E]|].
    cbn [app] in E. subst X. cbn [head_is] in HX. cbn [all_digits] in F2. apply andb_prop in F2. destruct F2 as [D _].
    rewrite D in HX. discriminate.
  - cbn [all_digits] in F1. apply andb_prop in F1. destruct F1 as [Da F1].
    destruct ds as [|b ds].
    + cbn [app] in E. subst Y. cbn [head_is] in HY. rewrite Da in HY. discriminate.
    + cbn [app] in E. inversion E as [[Eab E']]. cbn [all_digits] in F2. apply andb_prop in F2. destruct F2 as [_ F2].
      destruct (IH X ds Y F1 F2 HX HY E') as [E1 E2]. subst. split; reflexivity.
Qed.

Lemma app_eq_cases : forall (a b c d : list ascii), a ++ b = c ++ d ->
  (exists z, c = a ++ z /\ b = z ++ d) \/ (exists z, a = c ++ z /\ d = z ++ b).
Proof.
  induction a as [|x a IH]; intros b c d E.
  - left. exists c. split; [reflexivity | exact E].
  - destruct c as [|y c].
    + right. exists (x :: a). split; [reflexivity | symmetry; exact E].
    + cbn [app] in E. inversion E as [[Exy E']]. destruct (IH b c d E') as [(z & E1 & E2)|(z & E1 & E2)].
      * left. exists z. subst. split; reflexivity.
      * right. exists z. subst. split; reflexivity.
Qed.

Lemma head_analysis : forall fr tok sp' nm' tl' ds nm rest,
  utoken fr tok -> spaces sp' = true ->
  ds <> [] -> all_digits ds = true ->
  name_head_ok nm = true ->
  (nm' = [] \/ name_head_ok nm' = true) ->
  (nm' = [] -> spaces tl' = true) ->
  head_is dig_or_space tl' ->
  head_is is_digit rest ->
  (nm' <> [] -> prefix_hazard nm' nm = false /\ prefix_hazard nm nm' = false) ->
  tok ++ sp' ++ nm' ++ tl' = ds ++ nm ++ rest ->
  tok = ds /\ sp' = [] /\ nm' = nm /\ tl' = rest.
Proof.
  intros fr tok sp' nm' tl' ds nm rest U Fs Nd Fd Hn Hn' Hb Ht Hr Hz E.
  destruct (name_head_ok_inv nm Hn) as (c0 & t & En & Hc0d & Hc0s & Hdot). subst nm.
  assert (HY : head_is (fun c => negb (is_digit c)) ((c0 :: t) ++ rest)).
  { cbn [app head_is]. rewrite Hc0d. reflexivity. }
  assert (HX : head_is (fun c => negb (is_digit c)) (sp' ++ nm' ++ tl')).
  { destruct sp' as [|c sp''].
    - cbn [app]. destruct Hn' as [E'|Hh].
      + subst nm'. cbn [app]. specialize (Hb eq_refl). destruct tl' as [|c tl'']; [exact I|].
        apply spaces_cons in Hb. destruct Hb as [Hb _]. cbn [head_is]. rewrite (space_not_digit c Hb). reflexivity.
      + destruct (name_head_ok_inv nm' Hh) as (c & t' & En' & Hd & _). subst nm'. cbn [app head_is]. rewrite Hd. reflexivity.
    - apply spaces_cons in Fs. destruct Fs as [Fs _]. cbn [app head_is]. rewrite (space_not_digit c Fs). reflexivity. }
  destruct U as [fr ds1 N1 F1 | ds1 fs N1 F1 N2 F2].
  - destruct (digit_run_eq ds1 _ ds _ F1 Fd HX HY E) as [E1 E2]. subst ds1.
    destruct sp' as [|c sp''].
    2:{ cbn [app] in E2. inversion E2 as [[Ec E2']]. subst c. apply spaces_cons in Fs. destruct Fs as [Fs _]. congruence. }
    cbn [app] in E2. split; [reflexivity|]. split; [reflexivity|].
    change (c0 :: t ++ rest) with ((c0 :: t) ++ rest) in E2.
    destruct (app_eq_cases _ _ _ _ E2) as [(z & E3 & E4)|(z & E3 & E4)].
    + destruct z as [|c1 z'].
      * rewrite app_nil_r in E3. cbn [app] in E4. subst. split; reflexivity.
      * exfalso. subst tl'. cbn [app head_is] in Ht.
        destruct nm' as [|a nm''].
        -- cbn [app] in E3. inversion E3; subst. specialize (Hb eq_refl). cbn [app] in Hb.
           apply spaces_cons in Hb. destruct Hb as [Hb _]. congruence.
        -- destruct (Hz ltac:(discriminate)) as [Hz1 _]. rewrite E3, prefix_hazard_app in Hz1.
           unfold dig_or_space in Ht. congruence.
    + destruct z as [|c1 z'].
      * rewrite app_nil_r in E3. cbn [app] in E4. subst. split; reflexivity.
      * exfalso. subst rest. cbn [app head_is] in Hr.
        assert (Nn : nm' <> []) by (rewrite E3; discriminate).
        destruct (Hz Nn) as [_ Hz2]. rewrite E3, prefix_hazard_app in Hz2. rewrite Hr in Hz2. discriminate.
  - exfalso. rewrite <- app_assoc in E. cbn [app] in E.
    assert (HX' : head_is (fun c => negb (is_digit c)) ("."%char :: fs ++ sp' ++ nm' ++ tl')) by reflexivity.
    destruct (digit_run_eq ds1 _ ds _ F1 Fd HX' HY E) as [E1 E2].
    cbn [app] in E2. inversion E2 as [[Ec E2']]. destruct (Hdot (eq_sym Ec)) as (d & t' & Et & Hd). subst t.
    destruct (all_digits_head fs N2 F2) as (f1 & fs' & Ef & Df). subst fs. cbn [app] in E2'. inversion E2'; subst. congruence.
Qed.

(* ================= canonical renderings ================= *)

(* what the formatter prints for one part: nothing, or count and the chosen name *)
Definition ocn := option (Z * string).
Definition otok (oc : ocn) : list ascii := match oc with None => [] | Some (c, _) => nat_digits c end.
Definition ocount (oc : ocn) : Z := match oc with None => 0 | Some (c, _) => c end.
Fixpoint render (ocs : list ocn) : list ascii :=
  match ocs with
  | [] => []
  | None :: t => render t
  | Some (c, nm) :: t => nat_digits c ++ chars nm ++ render t
  end.

Definition pnames (p : upart) : list string := snd p.

Definition oc_valid (p : upart) (oc : ocn) : Prop :=
  match oc with None => True | Some (c, nm) => 0 <= c /\ In nm (pnames p) /\ nm <> ""%string end.

Lemma render_head : forall ps ocs, Forall2 oc_valid ps ocs -> head_is is_digit (render ocs).
Proof.
  intros ps ocs F. induction F as [|p oc ps ocs V F IH]; [exact I|].
  destruct oc as [[c nm]|]; [|exact IH]. cbn [render]. destruct V as (Hc & _ & _).
  destruct (nat_digits_spec c Hc) as (N & D & _). destruct (all_digits_head _ N D) as (a & t & E & Da).
  rewrite E. cbn [app head_is]. exact Da.
Qed.

Lemma sp_nil : forall sp s, spaces sp = true -> head_is is_digit (sp ++ s) -> sp = [].
Proof.
  intros sp s F H. destruct sp as [|c sp]; [reflexivity|]. exfalso. cbn [app head_is] in H.
  apply spaces_cons in F. destruct F as [F _]. rewrite (space_not_digit c F) in H. discriminate.
Qed.

Lemma head_digit_app : forall ds X, ds <> [] -> all_digits ds = true -> head_is is_digit (ds ++ X).
Proof.
  intros ds X N F. destruct (all_digits_head ds N F) as (a & t & E & D). subst ds. cbn [app head_is]. exact D.
Qed.

(* the first unit actually printed *)
Lemma render_first : forall ps ocs, Forall2 oc_valid ps ocs -> render ocs <> [] ->
  exists p c nm ps' ocs', In p ps /\ In nm (pnames p) /\ nm <> ""%string /\ 0 <= c
    /\ render ocs = nat_digits c ++ chars nm ++ render ocs' /\ Forall2 oc_valid ps' ocs'.
Proof.
  intros ps ocs F. induction F as [|p oc ps ocs V F IH]; intro N; [cbn in N; congruence|].
  destruct oc as [[c nm]|].
  - destruct V as (Hc & Hi & Hn). exists p, c, nm, ps, ocs. repeat split; auto. left. reflexivity.
  - cbn [render] in N. destruct (IH N) as (q & c & nm & ps' & ocs' & I & Hi & Hn & Hc & E & F').
    exists q, c, nm, ps', ocs'. repeat split; auto. right. exact I.
Qed.

Lemma all_digits_last : forall l, l <> [] -> all_digits l = true -> exists l' d, l = l' ++ [d] /\ is_digit d = true.
Proof.
  intros l N F. destruct (exists_last N) as (l' & d & E). subst l. rewrite all_digits_app in F.
  apply andb_prop in F. destruct F as [_ F]. cbn [all_digits] in F. apply andb_prop in F. destruct F as [D _].
  exists l', d. split; [reflexivity | exact D].
Qed.

(* the last name printed, and the digit (the end of its count) right in front of it *)
Lemma render_last : forall ps ocs, Forall2 oc_valid ps ocs -> render ocs <> [] ->
  exists p nm pre dg, In p ps /\ In nm (pnames p) /\ nm <> ""%string /\ is_digit dg = true
    /\ render ocs = pre ++ dg :: chars nm.
Proof.
  intros ps ocs F. induction F as [|p oc ps ocs V F IH]; intro N; [cbn in N; congruence|].
  destruct oc as [[c nm]|].
  - destruct V as (Hc & Hi & Hn). cbn [render]. destruct (render ocs) as [|a r] eqn:Er.
    + destruct (nat_digits_spec c Hc) as (Nd & Fd & _). destruct (all_digits_last _ Nd Fd) as (ds' & dg & Ed & Hdg).
      exists p, nm, ds', dg. rewrite app_nil_r, Ed, <- app_assoc. repeat split; auto. left. reflexivity.
    + destruct (IH ltac:(discriminate)) as (q & nm' & pre & dg & I & Hi' & Hn' & Hdg & E).
      exists q, nm', (nat_digits c ++ chars nm ++ pre), dg. rewrite E, <- !app_assoc. repeat split; auto. right. exact I.
  - cbn [render] in N |- *. destruct (IH N) as (q & nm' & pre & dg & I & Hi' & Hn' & Hdg & E).
    exists q, nm', pre, dg. repeat split; auto. right. exact I.
Qed.

(* EXISTENCE: the rendering has the canonical tokenisation (no spaces anywhere) *)
Lemma render_useq : forall ps ocs, Forall2 oc_valid ps ocs -> useq ps (render ocs) (map otok ocs).
Proof.
  intros ps ocs F. induction F as [|p oc ps ocs V F IH]; [constructor|].
  destruct p as [[k fr] nms]. destruct oc as [[c nm]|]; cbn [render map otok].
  - destruct V as (Hc & Hi & Hn). destruct (nat_digits_spec c Hc) as (N & D & _).
    replace (nat_digits c ++ chars nm ++ render ocs) with ((nat_digits c ++ [] ++ chars nm) ++ [] ++ render ocs)
      by (cbn [app]; rewrite <- app_assoc; reflexivity).
    constructor; [|reflexivity|exact IH]. constructor; [constructor; assumption | reflexivity | exact Hi].
  - change (render ocs) with ([] ++ [] ++ render ocs). constructor; [constructor | reflexivity | exact IH].
Qed.

(* ================= uniqueness of the tokenisation ================= *)

Record names_good (G : list upart) : Prop := mkNamesGood {
  ng_head : forall p x, In p G -> In x (pnames p) -> x <> ""%string -> name_head_ok (chars x) = true;
  ng_last : forall p x, In p G -> In x (pnames p) -> x <> ""%string -> name_last_ok (chars x) = true;
  ng_haz : forall p q x y, In p G -> In q G -> In x (pnames p) -> In y (pnames q) ->
             x <> ""%string -> y <> ""%string -> prefix_hazard (chars x) (chars y) = false;
  ng_func : forall p q x, In p G -> In q G -> In x (pnames p) -> In x (pnames q) -> x <> ""%string ->
             upart_key p = upart_key q }.

(* only the last part (the base unit) may go unnamed *)
Fixpoint bare_last (ps : list upart) : Prop :=
  match ps with
  | [] => True
  | p :: t => (t <> [] -> ~ In ""%string (pnames p)) /\ bare_last t
  end.

(* one step: the head part reads a present token off a string that starts with a printed token *)
Lemma step_present : forall G, names_good G -> forall k fr nms ps, In (k, fr, nms) G -> incl ps G ->
  bare_last ((k, fr, nms) :: ps) ->
  forall p0 nm, In p0 G -> In nm (pnames p0) -> nm <> ""%string ->
  forall tok sp' nm' sp s1 toks1 ds rest,
  utoken fr tok -> spaces sp' = true -> In nm' nms -> spaces sp = true -> useq ps s1 toks1 ->
  ds <> [] -> all_digits ds = true -> head_is is_digit rest ->
  (tok ++ sp' ++ chars nm') ++ sp ++ s1 = ds ++ chars nm ++ rest ->
  tok = ds /\ nm' = nm /\ sp ++ s1 = rest /\ upart_key (k, fr, nms) = upart_key p0.
Proof.
  intros G NG k fr nms ps Ip Ips BL p0 nm I0 In0 Nn tok sp' nm' sp s1 toks1 ds rest Ut Fs' In' Fs U Nd Fd Hr E.
  rewrite <- !app_assoc in E.
  assert (Hnm : name_head_ok (chars nm) = true) by (eapply ng_head; eassumption).
  assert (A : tok = ds /\ sp' = [] /\ chars nm' = chars nm /\ sp ++ s1 = rest).
  { eapply head_analysis; try eassumption.
    - destruct (string_dec nm' ""%string) as [E0|E0]; [left; subst; reflexivity | right].
      eapply (ng_head G NG (k, fr, nms)); eassumption.
    - intro E0. apply chars_nil in E0. subst nm'. destruct BL as [B _].
      destruct ps as [|q ps'].
      + apply useq_nil_inv in U. destruct U as [E1 _]. subst s1. rewrite app_nil_r. exact Fs.
      + exfalso. apply (B ltac:(discriminate)). exact In'.
    - pose proof (useq_head _ _ _ U) as Hh. destruct sp as [|c sp0]; [exact Hh|].
      cbn [app head_is]. apply spaces_cons in Fs. destruct Fs as [Fc _]. unfold dig_or_space. rewrite Fc. apply orb_true_r.
    - intro Ne. assert (Ne' : nm' <> ""%string) by (intro E0; subst nm'; apply Ne; reflexivity).
      split; [eapply (ng_haz G NG (k, fr, nms) p0) | eapply (ng_haz G NG p0 (k, fr, nms))]; eassumption. }
  destruct A as (A1 & A2 & A3 & A4). apply chars_inj in A3. subst nm'.
  repeat split; auto. eapply ng_func; eassumption.
Qed.

(* a printed token of a unit that is not among the remaining parts cannot be read by them *)
Lemma no_later : forall G, names_good G -> forall ps, incl ps G -> bare_last ps ->
  forall p0 nm, In p0 G -> In nm (pnames p0) -> nm <> ""%string -> ~ In (upart_key p0) (map upart_key ps) ->
  forall ds rest s toks, ds <> [] -> all_digits ds = true -> head_is is_digit rest ->
  s = ds ++ chars nm ++ rest -> useq ps s toks -> False.
Proof.
  intros G NG ps. induction ps as [|p ps IH]; intros Ips BL p0 nm I0 In0 Nn NK ds rest s toks Nd Fd Hr Es U.
  - apply useq_nil_inv in U. destruct U as [E _]. subst s. destruct ds; [congruence | discriminate].
  - destruct p as [[k fr] nms]. apply useq_cons_inv in U.
    destruct U as (seg & tok & sp & s1 & toks1 & E & Et & Us & Fs & U). rewrite Es in E. symmetry in E. subst toks.
    assert (Ip : In (k, fr, nms) G) by (apply Ips; left; reflexivity).
    assert (Ips' : incl ps G) by (intros q Iq; apply Ips; right; exact Iq).
    destruct Us as [|tok sp' nm' Ut Fs' In'].
    + cbn [app] in E.
      assert (sp = []) by (apply (sp_nil sp s1 Fs); rewrite E; apply head_digit_app; assumption).
      subst sp. cbn [app] in E. destruct BL as [_ BL'].
      eapply (IH Ips' BL' p0 nm I0 In0 Nn); [|exact Nd|exact Fd|exact Hr|exact E|exact U].
      intro I. apply NK. right. exact I.
    + destruct (step_present G NG k fr nms ps Ip Ips' BL p0 nm I0 In0 Nn tok sp' nm' sp s1 toks1 ds rest
                  Ut Fs' In' Fs U Nd Fd Hr E) as (_ & _ & _ & Ek).
      apply NK. left. exact Ek.
Qed.

Lemma useq_unique : forall G, names_good G -> forall ps, incl ps G -> NoDup (map upart_key ps) -> bare_last ps ->
  forall ocs, Forall2 oc_valid ps ocs -> forall toks, useq ps (render ocs) toks -> toks = map otok ocs.
Proof.
  intros G NG ps. induction ps as [|p ps IH]; intros Ips ND BL ocs V toks U.
  - inversion V; subst. apply useq_nil_inv in U. destruct U as [_ E]. subst. reflexivity.
  - inversion V as [|? oc ? ocs' Vp V']; subst. destruct p as [[k fr] nms].
    apply useq_cons_inv in U. destruct U as (seg & tok & sp & s1 & toks1 & E & Et & Us & Fs & U). subst toks.
    assert (Ip : In (k, fr, nms) G) by (apply Ips; left; reflexivity).
    assert (Ips' : incl ps G) by (intros q Iq; apply Ips; right; exact Iq).
    cbn [map] in ND. inversion ND as [|? ? NK ND']; subst.
    pose proof BL as BL0. destruct BL as [_ BL'].
    destruct oc as [[c nm]|].
    + (* the head unit was printed *)
      destruct Vp as (Hc & Hi & Hn). cbn [render] in E. cbn [map otok].
      destruct (nat_digits_spec c Hc) as (Nd & Fd & _).
      pose proof (render_head _ _ V') as Hr.
      destruct Us as [|tok sp' nm' Ut Fs' In'].
      * exfalso. cbn [app] in E.
        assert (sp = []) by (apply (sp_nil sp s1 Fs); rewrite <- E; apply head_digit_app; assumption).
        subst sp. cbn [app] in E.
        apply (no_later G NG ps Ips' BL' (k, fr, nms) nm Ip Hi Hn NK (nat_digits c) (render ocs') s1 toks1 Nd Fd Hr (eq_sym E) U).
      * destruct (step_present G NG k fr nms ps Ip Ips' BL0 (k, fr, nms) nm Ip Hi Hn tok sp' nm' sp s1 toks1
                    (nat_digits c) (render ocs') Ut Fs' In' Fs U Nd Fd Hr (eq_sym E)) as (E1 & E2 & E3 & _).
        subst tok. f_equal.
        assert (sp = []) by (apply (sp_nil sp s1 Fs); rewrite E3; exact Hr).
        subst sp. cbn [app] in E3. subst s1. apply (IH Ips' ND' BL' ocs' V' toks1 U).
    + (* the head unit was not printed *)
      cbn [render] in E. cbn [map otok].
      pose proof (render_head _ _ V') as Hr.
      destruct Us as [|tok sp' nm' Ut Fs' In'].
      * cbn [app] in E. f_equal.
        assert (sp = []) by (apply (sp_nil sp s1 Fs); rewrite <- E; exact Hr).
        subst sp. cbn [app] in E. subst s1. apply (IH Ips' ND' BL' ocs' V' toks1 U).
      * exfalso.
        assert (Nr : render ocs' <> []).
        { rewrite E. destruct (utoken_head _ _ Ut) as (a & t & Ea & _). subst tok. cbn [app]. discriminate. }
        destruct (render_first ps ocs' V' Nr) as (q & c & nm & ps2 & ocs2 & Iq & Hi & Hn & Hc & Er & V2).
        destruct (nat_digits_spec c Hc) as (Nd & Fd & _).
        pose proof (render_head _ _ V2) as Hr2.
        rewrite Er in E.
        destruct (step_present G NG k fr nms ps Ip Ips' BL0 q nm (Ips' q Iq) Hi Hn tok sp' nm' sp s1 toks1
                    (nat_digits c) (render ocs2) Ut Fs' In' Fs U Nd Fd Hr2 (eq_sym E)) as (_ & _ & _ & Ek).
        apply NK. rewrite Ek. apply in_map. exact Iq.
Qed.
