(* Proofs/Link2.v — C14 (1), (2): what the link table holds after NewScopeSchema / ApplyNamespace.

   `occs src ns here s` : every reference occurrence of s (structural, whole schema), each with the
   object table a walk ApplyNamespace(_, ns) hands to it: for the self namespace the table of the
   NEAREST enclosing scope (inner scopes shadow outer ones), otherwise the table given at the root.
   `envrefs e here s`   : the same occurrences with the environment in which the data operations of
   Ops.v resolve them (`env_enter` at every scope).
   `luniq s`            : association lists have unique keys (Go maps), so that distinct occurrences
   have distinct paths.

   link_ns_sets      : link_ns sets exactly the occurrences of its namespace, each to the object with
                       that id in the table handed to it
   link_build_lexical: after construction every self reference inside a scope is linked to the object
                       of that id in the nearest enclosing scope
   link_agrees       : ... and that is what `resolve` returns there
   apply_all_spec / order_irrelevant : external namespaces in any order. *)
From Coq Require Import Lia Permutation.
From Verif Require Import Base.Prelude Base.Str Base.Float Base.GoVal
  Schema.Regex Schema.Units Schema.Syntax Schema.Ops Schema.Link Schema.Wf Proofs.C04Inv Proofs.Link.
Open Scope string_scope.

(* ---------- specification vocabulary ---------- *)
Fixpoint occs (src : lsrc) (ns : string) (here : lpath) (s : schema) {struct s}
  : list (lpath * (lsrc * (string * string))) :=
  match s with
  | SList it _ _ => occs src ns (seg_item here) it
  | SMap k v _ _ => occs src ns (seg_key here) k ++ occs src ns (seg_val here) v
  | SObject _ _ props => flat_map (fun np => occs src ns (seg_prop here (fst np)) (p_type (snd np))) props
  | SOneOf types _ _ _ => flat_map (fun km => occs src ns (seg_member here (fst km)) (snd km)) types
  | SRef id rns _ => [(here, (src, (id, rns)))]
  | SScope objs _ =>
      flat_map (fun io => occs (if String.eqb ns "" then Some (objs, LScope here) else src) ns
                               (seg_obj here (fst io)) (snd io)) objs
  | _ => []
  end.

Fixpoint envrefs (e : env) (here : lpath) (s : schema) {struct s} : list (lpath * (env * (string * string))) :=
  match s with
  | SList it _ _ => envrefs e (seg_item here) it
  | SMap k v _ _ => envrefs e (seg_key here) k ++ envrefs e (seg_val here) v
  | SObject _ _ props => flat_map (fun np => envrefs e (seg_prop here (fst np)) (p_type (snd np))) props
  | SOneOf types _ _ _ => flat_map (fun km => envrefs e (seg_member here (fst km)) (snd km)) types
  | SRef id ns _ => [(here, (e, (id, ns)))]
  | SScope objs _ => flat_map (fun io => envrefs (env_enter e objs) (seg_obj here (fst io)) (snd io)) objs
  | _ => []
  end.

(* applying external namespaces one after the other *)
Definition apply_all (f : nat) (s : schema) (apps : list (string * objtab)) (lt : ltab) : outcome ltab :=
  fold_left (fun acc nt => a <- acc ;; link_ext f (fst nt) (snd nt) s a) apps (Ok lt).

(* the entry an occurrence must get *)
Definition good_entry (srcp : lsrc) (id : string) (x : lentry) : Prop :=
  exists tab loc o, srcp = Some (tab, loc) /\ alookup id tab = Some o /\ x = mkLE loc tab o.

Lemma good_entry_fun srcp id x x' : good_entry srcp id x -> good_entry srcp id x' -> x = x'.
Proof.
  intros (t1 & l1 & o1 & E1 & A1 & ->) (t2 & l2 & o2 & E2 & A2 & ->).
  rewrite E1 in E2. inversion E2; subst. rewrite A1 in A2. inversion A2; subst. reflexivity.
Qed.

(* ---------- unique keys ---------- *)
Lemma str_in_In x l : str_in x l = true -> In x l.
Proof.
  induction l as [|y t IH]; cbn; [discriminate|]. intros H. apply orb_true_iff in H. destruct H as [H|H].
  - apply String.eqb_eq in H. left; symmetry; exact H.
  - right; apply IH; exact H.
Qed.
Lemma In_str_in x l : In x l -> str_in x l = true.
Proof.
  induction l as [|y t IH]; cbn; [contradiction|]. intros [->|H]; apply orb_true_iff.
  - left; apply String.eqb_refl.
  - right; apply IH; exact H.
Qed.
Lemma nodup_str_NoDup l : nodup_str l = true -> NoDup l.
Proof.
  induction l as [|x t IH]; cbn; intros H; constructor.
  - apply andb_prop in H. destruct H as [H _]. intros C. apply In_str_in in C. rewrite C in H. discriminate.
  - apply andb_prop in H. destruct H as [_ H]. apply IH; exact H.
Qed.
Lemma In_okey_in x l : In x l -> okey_in x l = true.
Proof.
  induction l as [|y t IH]; cbn; [contradiction|]. intros [->|H]; apply orb_true_iff.
  - left; apply okey_eqb_eq; reflexivity.
  - right; apply IH; exact H.
Qed.
Lemma nodup_okey_NoDup l : nodup_okey l = true -> NoDup l.
Proof.
  induction l as [|x t IH]; cbn; intros H; constructor.
  - apply andb_prop in H. destruct H as [H _]. intros C. apply In_okey_in in C. rewrite C in H. discriminate.
  - apply andb_prop in H. destruct H as [_ H]. apply IH; exact H.
Qed.

Lemma NoDup_fst_inj {A B} (l : list (A * B)) x y : NoDup (map fst l) -> In x l -> In y l -> fst x = fst y -> x = y.
Proof.
  induction l as [|a t IH]; cbn; intros Hnd Hx Hy E; [contradiction|].
  inversion Hnd as [|? ? Hni Hnd']; subst.
  destruct Hx as [->|Hx], Hy as [->|Hy]; auto.
  - exfalso. apply Hni. rewrite E. apply in_map; exact Hy.
  - exfalso. apply Hni. rewrite <- E. apply in_map; exact Hx.
Qed.

Lemma pstep_dec (a b : pstep) : a = b \/ a <> b.
Proof.
  destruct (pstep_eqb a b) eqn:E; [left; apply pstep_eqb_eq; exact E|].
  right; intros C. apply pstep_eqb_eq in C. congruence.
Qed.

(* ---------- paths ---------- *)
Definition under (here p : lpath) : Prop := exists r, p = (r ++ here)%list.

Lemma under_refl here : under here here.
Proof. exists []. reflexivity. Qed.
Lemma under_step st here p : under (st :: here) p -> under here p.
Proof. intros [r ->]. exists (r ++ [st])%list. rewrite <- app_assoc. reflexivity. Qed.
Lemma under_sib a b here p : under (a :: here) p -> under (b :: here) p -> a = b.
Proof.
  intros [r1 ->] [r2 E].
  assert (E' : ((r1 ++ [a]) ++ here = (r2 ++ [b]) ++ here)%list).
  { rewrite <- !app_assoc. exact E. }
  apply app_inv_tail in E'. apply app_inj_tail in E'. destruct E' as [_ E']; exact E'.
Qed.
Lemma not_under_step st here p : ~ under here p -> ~ under (st :: here) p.
Proof. intros H C. apply H. eapply under_step; eauto. Qed.

(* ---------- occurrences ---------- *)
Lemma occs_under : forall s src ns here p x, In (p, x) (occs src ns here s) -> under here p.
Proof.
  induction s using schema_ind'; intros src ns here p x Hin.
  - destruct s; try discriminate; cbn in Hin; try contradiction.
    destruct Hin as [E|[]]. inversion E; subst. apply under_refl.
  - cbn in Hin. apply IHs in Hin. eapply under_step; eauto.
  - cbn in Hin. apply in_app_or in Hin. destruct Hin as [Hin|Hin]; [apply IHs1 in Hin | apply IHs2 in Hin]; eapply under_step; eauto.
  - cbn in Hin. apply in_flat_map in Hin. destruct Hin as [np [Hnp Hin]].
    rewrite Forall_forall in H. apply (H np Hnp) in Hin. eapply under_step; eauto.
  - cbn in Hin. apply in_flat_map in Hin. destruct Hin as [np [Hnp Hin]].
    rewrite Forall_forall in H. apply (H np Hnp) in Hin. eapply under_step; eauto.
  - cbn in Hin. apply in_flat_map in Hin. destruct Hin as [np [Hnp Hin]].
    rewrite Forall_forall in H. apply (H np Hnp) in Hin. eapply under_step; eauto.
Qed.

Lemma flat_inj {B X} (key : B -> pstep) (g : B -> list (lpath * X)) (l : list B) here :
  (forall x y, In x l -> In y l -> key x = key y -> x = y) ->
  (forall x p a, In x l -> In (p, a) (g x) -> under (key x :: here) p) ->
  forall x y p a b, In x l -> In y l -> In (p, a) (g x) -> In (p, b) (g y) -> x = y.
Proof. intros Hinj Hund x y p a b Hx Hy Ha Hb. apply Hinj; auto. eapply under_sib; eapply Hund; eauto. Qed.

Lemma props_inj (props : list (string * property_ schema)) : nodup_str (map fst props) = true ->
  forall x y, In x props -> In y props -> PProp (fst x) = PProp (fst y) -> x = y.
Proof. intros H x y Hx Hy E. inversion E. eapply NoDup_fst_inj; eauto. apply nodup_str_NoDup; exact H. Qed.
Lemma members_inj (types : list (okey * schema)) : nodup_okey (map fst types) = true ->
  forall x y, In x types -> In y types -> PMember (fst x) = PMember (fst y) -> x = y.
Proof. intros H x y Hx Hy E. inversion E. eapply NoDup_fst_inj; eauto. apply nodup_okey_NoDup; exact H. Qed.
Lemma objs_inj (objs : list (string * schema)) : nodup_str (map fst objs) = true ->
  forall x y, In x objs -> In y objs -> PObj (fst x) = PObj (fst y) -> x = y.
Proof. intros H x y Hx Hy E. inversion E. eapply NoDup_fst_inj; eauto. apply nodup_str_NoDup; exact H. Qed.

(* one occurrence per path *)
Lemma occs_fun : forall s, luniq s = true -> forall src ns here p x y,
  In (p, x) (occs src ns here s) -> In (p, y) (occs src ns here s) -> x = y.
Proof.
  induction s using schema_ind'; intros Hu src ns here p x y Hx Hy.
  - destruct s; try discriminate; cbn in Hx, Hy; try contradiction.
    destruct Hx as [E|[]]; destruct Hy as [E'|[]]. congruence.
  - cbn in *. eapply IHs; eauto.
  - cbn in Hu, Hx, Hy. apply andb_prop in Hu. destruct Hu as [Hu1 Hu2].
    apply in_app_or in Hx; apply in_app_or in Hy.
    destruct Hx as [Hx|Hx], Hy as [Hy|Hy].
    + eapply IHs1; eauto.
    + apply occs_under in Hx; apply occs_under in Hy. pose proof (under_sib _ _ _ _ Hx Hy) as C. discriminate C.
    + apply occs_under in Hx; apply occs_under in Hy. pose proof (under_sib _ _ _ _ Hx Hy) as C. discriminate C.
    + eapply IHs2; eauto.
  - cbn in Hu, Hx, Hy. apply andb_prop in Hu. destruct Hu as [Hn Hf].
    apply in_flat_map in Hx; apply in_flat_map in Hy. destruct Hx as [a [Ha Hx]]; destruct Hy as [b [Hb Hy]].
    assert (a = b).
    { eapply (flat_inj (fun np => PProp (fst np)) (fun np => occs src ns (seg_prop here (fst np)) (p_type (snd np))) props here);
        eauto using props_inj. intros z q c _ Hz. eapply occs_under; eauto. }
    subst b. rewrite Forall_forall in H. rewrite forallb_forall in Hf. eapply (H a Ha); eauto.
  - cbn in Hu, Hx, Hy. apply andb_prop in Hu. destruct Hu as [Hn Hf].
    apply in_flat_map in Hx; apply in_flat_map in Hy. destruct Hx as [a [Ha Hx]]; destruct Hy as [b [Hb Hy]].
    assert (a = b).
    { eapply (flat_inj (fun km => PMember (fst km)) (fun km => occs src ns (seg_member here (fst km)) (snd km)) types here);
        eauto using members_inj. intros z q c _ Hz. eapply occs_under; eauto. }
    subst b. rewrite Forall_forall in H. rewrite forallb_forall in Hf. eapply (H a Ha); eauto.
  - cbn in Hu, Hx, Hy. apply andb_prop in Hu. destruct Hu as [Hn Hf].
    apply in_flat_map in Hx; apply in_flat_map in Hy. destruct Hx as [a [Ha Hx]]; destruct Hy as [b [Hb Hy]].
    assert (a = b).
    { eapply (flat_inj (fun io => PObj (fst io))
                (fun io => occs (if String.eqb ns "" then Some (objs, LScope here) else src) ns (seg_obj here (fst io)) (snd io)) objs here);
        eauto using objs_inj. intros z q c _ Hz. eapply occs_under; eauto. }
    subst b. rewrite Forall_forall in H. rewrite forallb_forall in Hf. eapply (H a Ha); eauto.
Qed.

(* the table does not change which references there are *)
Lemma occs_indep : forall s src ns src' ns' here p srcp idns,
  In (p, (srcp, idns)) (occs src ns here s) -> exists srcp', In (p, (srcp', idns)) (occs src' ns' here s).
Proof.
  induction s using schema_ind'; intros src ns src' ns' here p srcp idns Hin.
  - destruct s; try discriminate; cbn in Hin; try contradiction.
    destruct Hin as [E|[]]. inversion E; subst. eexists. cbn. left; reflexivity.
  - cbn in *. eapply IHs; eauto.
  - cbn in *. apply in_app_or in Hin. destruct Hin as [Hin|Hin].
    + destruct (IHs1 _ _ src' ns' _ _ _ _ Hin) as [q Hq]. exists q. apply in_or_app; left; exact Hq.
    + destruct (IHs2 _ _ src' ns' _ _ _ _ Hin) as [q Hq]. exists q. apply in_or_app; right; exact Hq.
  - cbn in *. apply in_flat_map in Hin. destruct Hin as [a [Ha Hin]]. rewrite Forall_forall in H.
    destruct (H a Ha _ _ src' ns' _ _ _ _ Hin) as [q Hq]. exists q. apply in_flat_map. eauto.
  - cbn in *. apply in_flat_map in Hin. destruct Hin as [a [Ha Hin]]. rewrite Forall_forall in H.
    destruct (H a Ha _ _ src' ns' _ _ _ _ Hin) as [q Hq]. exists q. apply in_flat_map. eauto.
  - cbn in *. apply in_flat_map in Hin. destruct Hin as [a [Ha Hin]]. rewrite Forall_forall in H.
    destruct (H a Ha _ _ (if String.eqb ns' "" then Some (objs, LScope here) else src') ns' _ _ _ _ Hin) as [q Hq].
    exists q. apply in_flat_map. eauto.
Qed.

(* inside a scope every occurrence is handed a table *)
Lemma occs_some : forall s x ns here p srcp idns,
  In (p, (srcp, idns)) (occs (Some x) ns here s) -> exists y, srcp = Some y.
Proof.
  induction s using schema_ind'; intros x ns here p srcp idns Hin.
  - destruct s; try discriminate; cbn in Hin; try contradiction.
    destruct Hin as [E|[]]. inversion E; subst. eauto.
  - cbn in *. eapply IHs; eauto.
  - cbn in *. apply in_app_or in Hin. destruct Hin as [Hin|Hin]; [eapply IHs1 | eapply IHs2]; eauto.
  - cbn in *. apply in_flat_map in Hin. destruct Hin as [a [Ha Hin]]. rewrite Forall_forall in H. eapply (H a Ha); eauto.
  - cbn in *. apply in_flat_map in Hin. destruct Hin as [a [Ha Hin]]. rewrite Forall_forall in H. eapply (H a Ha); eauto.
  - cbn in *. apply in_flat_map in Hin. destruct Hin as [a [Ha Hin]]. rewrite Forall_forall in H.
    destruct (String.eqb ns ""); eapply (H a Ha); eauto.
Qed.

(* an external namespace: the same table everywhere *)
Lemma occs_ext : forall s src ns here p srcp idns, String.eqb ns "" = false ->
  In (p, (srcp, idns)) (occs src ns here s) -> srcp = src.
Proof.
  induction s using schema_ind'; intros src ns here p srcp idns Hns Hin.
  - destruct s; try discriminate; cbn in Hin; try contradiction.
    destruct Hin as [E|[]]. inversion E; subst. reflexivity.
  - cbn in *. eapply IHs; eauto.
  - cbn in *. apply in_app_or in Hin. destruct Hin as [Hin|Hin]; [eapply IHs1 | eapply IHs2]; eauto.
  - cbn in *. apply in_flat_map in Hin. destruct Hin as [a [Ha Hin]]. rewrite Forall_forall in H. eapply (H a Ha); eauto.
  - cbn in *. apply in_flat_map in Hin. destruct Hin as [a [Ha Hin]]. rewrite Forall_forall in H. eapply (H a Ha); eauto.
  - cbn in *. apply in_flat_map in Hin. destruct Hin as [a [Ha Hin]]. rewrite Forall_forall in H.
    rewrite Hns in Hin. eapply (H a Ha); eauto.
Qed.

(* the fuelled enumeration of Schema/Link.v lists occurrences of the structural one *)
Lemma refs_of_occs : forall f here s p id ns src ns', In (p, (id, ns)) (refs_of f here s) ->
  exists srcp, In (p, (srcp, (id, ns))) (occs src ns' here s).
Proof.
  induction f as [|f IH]; intros here s p id ns src ns' Hin; [contradiction|].
  destruct s; cbn in Hin; try contradiction.
  - cbn. eapply IH; eauto.
  - cbn. apply in_app_or in Hin. destruct Hin as [Hin|Hin]; destruct (IH _ _ _ _ _ src ns' Hin) as [q Hq]; exists q; apply in_or_app; auto.
  - cbn. apply in_flat_map in Hin. destruct Hin as [a [Ha Hin]]. destruct (IH _ _ _ _ _ src ns' Hin) as [q Hq].
    exists q. apply in_flat_map. eauto.
  - cbn. apply in_flat_map in Hin. destruct Hin as [a [Ha Hin]]. destruct (IH _ _ _ _ _ src ns' Hin) as [q Hq].
    exists q. apply in_flat_map. eauto.
  - destruct Hin as [E|[]]. inversion E; subst. eexists. cbn. left; reflexivity.
  - cbn. apply in_flat_map in Hin. destruct Hin as [a [Ha Hin]].
    destruct (IH _ _ _ _ _ (if String.eqb ns' "" then Some (objs, LScope here) else src) ns' Hin) as [q Hq].
    exists q. apply in_flat_map. eauto.
Qed.

(* ---------- link_ns: frame ---------- *)
Lemma link_ns_frame : forall f src ns here s lt lt' p,
  link_ns f src ns here s lt = Ok lt' ->
  (forall srcp id, ~ In (p, (srcp, (id, ns))) (occs src ns here s)) ->
  lt_get p lt' = lt_get p lt.
Proof.
  intros f src ns here s lt lt' p Hl Hn. eapply link_ns_untouched; eauto.
  intros id C. destruct (refs_of_occs _ _ _ _ _ _ src ns C) as [srcp Hs]. eapply Hn; eauto.
Qed.

Lemma link_ns_under : forall f src ns here s lt lt' p,
  link_ns f src ns here s lt = Ok lt' -> ~ under here p -> lt_get p lt' = lt_get p lt.
Proof.
  intros f src ns here s lt lt' p Hl Hn. eapply link_ns_frame; eauto.
  intros srcp id C. apply Hn. eapply occs_under; eauto.
Qed.

(* ---------- folds ---------- *)
Lemma bind_ok_inv {A B} (o : outcome A) (k : A -> outcome B) r : (a <- o ;; k a) = Ok r -> exists a, o = Ok a /\ k a = Ok r.
Proof. destruct o; cbn; intros H; try discriminate. eauto. Qed.

Lemma fold_final {B} (step : B -> ltab -> outcome ltab) p v (hit : B -> Prop) : forall l,
  (forall x a a', In x l -> step x a = Ok a' -> hit x -> lt_get p a' = v) ->
  (forall x a a', In x l -> step x a = Ok a' -> ~ hit x -> lt_get p a' = lt_get p a) ->
  (forall x, In x l -> hit x \/ ~ hit x) ->
  forall lt lt', fold_left (fun acc x => a0 <- acc ;; step x a0) l (Ok lt) = Ok lt' ->
  (exists y, In y l /\ hit y) -> lt_get p lt' = v.
Proof.
  induction l as [|x l IH] using rev_ind; intros Hhit Hmiss Hdec lt lt' Hf [y [Hy Hh]]; [contradiction|].
  rewrite fold_left_app in Hf. cbn in Hf. apply bind_ok_inv in Hf. destruct Hf as [a1 [E1 E2]].
  assert (Hx : In x (l ++ [x])%list) by (apply in_or_app; right; left; reflexivity).
  destruct (Hdec x Hx) as [Hhx|Hnx].
  - eapply Hhit; eauto.
  - rewrite (Hmiss x a1 lt' Hx E2 Hnx).
    apply (IH (fun z a a' Hz => Hhit z a a' (in_or_app _ _ _ (or_introl Hz)))
              (fun z a a' Hz => Hmiss z a a' (in_or_app _ _ _ (or_introl Hz)))
              (fun z Hz => Hdec z (in_or_app _ _ _ (or_introl Hz))) lt a1 E1).
    exists y. split; [|exact Hh]. apply in_app_or in Hy. destruct Hy as [Hy|[->|[]]]; [exact Hy | contradiction].
Qed.

Lemma fold_ok_elem {B} (step : B -> ltab -> outcome ltab) : forall l lt lt' y,
  fold_left (fun acc x => a0 <- acc ;; step x a0) l (Ok lt) = Ok lt' -> In y l -> exists a a', step y a = Ok a'.
Proof.
  induction l as [|x t IH]; intros lt lt' y Hf Hy; [contradiction|].
  apply fold_bind_inv in Hf. destruct Hf as [a1 [E1 E2]]. destruct Hy as [->|Hy]; eauto.
Qed.

(* the element y0 holds the path p; whatever a step on y0 leaves at p is what the fold leaves there *)
Lemma fold_elem_final {B} (step : B -> ltab -> outcome ltab) (key : B -> pstep) here (l : list B) p y0 (G : lentry -> Prop) :
  (forall x y, In x l -> In y l -> key x = key y -> x = y) ->
  (forall x a a', In x l -> step x a = Ok a' -> ~ under (key x :: here) p -> lt_get p a' = lt_get p a) ->
  In y0 l -> under (key y0 :: here) p ->
  (forall a a', step y0 a = Ok a' -> exists x, lt_get p a' = Some x /\ G x) ->
  (forall x x', G x -> G x' -> x = x') ->
  forall lt lt', fold_left (fun acc x => a0 <- acc ;; step x a0) l (Ok lt) = Ok lt' ->
  exists x, lt_get p lt' = Some x /\ G x.
Proof.
  intros Hinj Hframe Hy0 Hund Hset Hfun lt lt' Hf.
  destruct (fold_ok_elem step l lt lt' y0 Hf Hy0) as [a [a' Ea]].
  destruct (Hset a a' Ea) as [x0 [_ Hg0]]. exists x0. split; [|exact Hg0].
  apply (fold_final step p (Some x0) (fun x => key x = key y0) l) with (lt := lt); auto.
  - intros x b b' Hx Eb Hk. apply (Hinj x y0 Hx Hy0) in Hk. subst x.
    destruct (Hset b b' Eb) as [x1 [E1 Hg1]]. rewrite E1. f_equal. apply Hfun; assumption.
  - intros x b b' Hx Eb Hk. apply (Hframe x b b' Hx Eb). intros C. apply Hk. eapply under_sib; eauto.
  - intros x _. apply pstep_dec.
  - exists y0. split; [exact Hy0 | reflexivity].
Qed.

(* ---------- link_ns sets exactly the occurrences of its namespace ---------- *)
Lemma link_ns_sets : forall f src ns here s lt lt', link_ns f src ns here s lt = Ok lt' -> luniq s = true ->
  forall p srcp id, In (p, (srcp, (id, ns))) (occs src ns here s) ->
  exists x, lt_get p lt' = Some x /\ good_entry srcp id x.
Proof.
  induction f as [|f IH]; intros src ns here s lt lt' Hl Hu p srcp id Hin; [discriminate|].
  destruct s; cbn in Hl, Hu, Hin; try contradiction.
  - eapply IH; eauto.
  - apply andb_prop in Hu. destruct Hu as [Hu1 Hu2].
    apply bind_ok_inv in Hl. destruct Hl as [lt1 [E1 E2]].
    apply in_app_or in Hin. destruct Hin as [Hin|Hin].
    + destruct (IH _ _ _ _ _ _ E1 Hu1 _ _ _ Hin) as [x [Hx Hg]]. exists x. split; [|exact Hg].
      rewrite (link_ns_under _ _ _ _ _ _ _ p E2); [exact Hx|].
      intros C. apply occs_under in Hin. pose proof (under_sib _ _ _ _ Hin C) as D. discriminate D.
    + eapply IH; eauto.
  - apply andb_prop in Hu. destruct Hu as [Hn Hf]. rewrite forallb_forall in Hf.
    apply in_flat_map in Hin. destruct Hin as [y0 [Hy0 Hin]].
    apply (fold_elem_final (fun np a => link_ns f src ns (seg_prop here (fst np)) (p_type (snd np)) a)
             (fun np => PProp (fst np)) here props p y0 (good_entry srcp id)) with (lt := lt); auto.
    + apply props_inj; exact Hn.
    + intros x a a' _ Ea Hnu. eapply link_ns_under; eauto.
    + eapply occs_under; eauto.
    + intros a a' Ea. eapply IH; eauto.
    + apply good_entry_fun.
  - apply andb_prop in Hu. destruct Hu as [Hn Hf]. rewrite forallb_forall in Hf.
    apply in_flat_map in Hin. destruct Hin as [y0 [Hy0 Hin]].
    apply (fold_elem_final (fun km a => link_ns f src ns (seg_member here (fst km)) (snd km) a)
             (fun km => PMember (fst km)) here types p y0 (good_entry srcp id)) with (lt := lt); auto.
    + apply members_inj; exact Hn.
    + intros x a a' _ Ea Hnu. eapply link_ns_under; eauto.
    + eapply occs_under; eauto.
    + intros a a' Ea. eapply IH; eauto.
    + apply good_entry_fun.
  - destruct Hin as [E|[]]. inversion E; subst. rewrite String.eqb_refl in Hl.
    first [destruct src as [[objs loc]|] | destruct srcp as [[objs loc]|]]; [|discriminate]. destruct (alookup id objs) as [o|] eqn:Eo; [|discriminate].
    inversion Hl; subst. exists (mkLE loc objs o). split; [apply lt_get_set_same|].
    exists objs, loc, o. auto.
  - apply andb_prop in Hu. destruct Hu as [Hn Hf]. rewrite forallb_forall in Hf.
    apply in_flat_map in Hin. destruct Hin as [y0 [Hy0 Hin]].
    apply (fold_elem_final (fun io a => link_ns f (if String.eqb ns "" then Some (objs, LScope here) else src) ns
                                          (seg_obj here (fst io)) (snd io) a)
             (fun io => PObj (fst io)) here objs p y0 (good_entry srcp id)) with (lt := lt); auto.
    + apply objs_inj; exact Hn.
    + intros x a a' _ Ea Hnu. eapply link_ns_under; eauto.
    + eapply occs_under; eauto.
    + intros a a' Ea. eapply IH; eauto.
    + apply good_entry_fun.
Qed.

(* ---------- link_build ---------- *)
Lemma link_build_under : forall f here s lt lt' p,
  link_build f here s lt = Ok lt' -> ~ under here p -> lt_get p lt' = lt_get p lt.
Proof.
  induction f as [|f IH]; intros here s lt lt' p Hl Hn; [discriminate|].
  destruct s; cbn in Hl; try (inversion Hl; subst; reflexivity).
  - eapply IH; eauto. apply not_under_step; exact Hn.
  - apply bind_ok_inv in Hl. destruct Hl as [lt1 [E1 E2]].
    rewrite (IH _ _ _ _ p E2), (IH _ _ _ _ p E1); auto; apply not_under_step; exact Hn.
  - apply (fold_untouched _ (fun np a => link_build f (seg_prop here (fst np)) (p_type (snd np)) a) (fun _ => True) p props lt lt'); auto.
    intros x a a' _ Ea _. eapply IH; eauto. apply not_under_step; exact Hn.
  - apply (fold_untouched _ (fun km a => link_build f (seg_member here (fst km)) (snd km) a) (fun _ => True) p types lt lt'); auto.
    intros x a a' _ Ea _. eapply IH; eauto. apply not_under_step; exact Hn.
  - apply bind_ok_inv in Hl. destruct Hl as [lt1 [E1 E2]].
    rewrite (link_ns_under _ _ _ _ _ _ _ p E2 Hn).
    apply (fold_untouched _ (fun io a => link_build f (seg_obj here (fst io)) (snd io) a) (fun _ => True) p objs lt lt1); auto.
    intros x a a' _ Ea _. eapply IH; eauto. apply not_under_step; exact Hn.
Qed.

(* C14_lexical: after construction a self reference inside a scope is linked to the object of that id
   in the table of the NEAREST enclosing scope *)
Theorem link_build_lexical : forall f here s lt lt', link_build f here s lt = Ok lt' -> luniq s = true ->
  forall p tab q id, In (p, (Some (tab, q), (id, ""))) (occs None "" here s) ->
  exists o, alookup id tab = Some o /\ lt_get p lt' = Some (mkLE q tab o).
Proof.
  assert (G : forall f here s lt lt', link_build f here s lt = Ok lt' -> luniq s = true ->
            forall p srcp id, In (p, (srcp, (id, ""))) (occs None "" here s) -> srcp <> None ->
            exists x, lt_get p lt' = Some x /\ good_entry srcp id x).
  { induction f as [|f IH]; intros here s lt lt' Hl Hu p srcp id Hin Hsome; [discriminate|].
    destruct s; cbn in Hl, Hu, Hin; try contradiction.
    - eapply IH; eauto.
    - apply andb_prop in Hu. destruct Hu as [Hu1 Hu2].
      apply bind_ok_inv in Hl. destruct Hl as [lt1 [E1 E2]].
      apply in_app_or in Hin. destruct Hin as [Hin|Hin].
      + destruct (IH _ _ _ _ E1 Hu1 _ _ _ Hin Hsome) as [x [Hx Hg]]. exists x. split; [|exact Hg].
        rewrite (link_build_under _ _ _ _ _ p E2); [exact Hx|].
        intros C. apply occs_under in Hin. pose proof (under_sib _ _ _ _ Hin C) as D. discriminate D.
      + eapply IH; eauto.
    - apply andb_prop in Hu. destruct Hu as [Hn Hf]. rewrite forallb_forall in Hf.
      apply in_flat_map in Hin. destruct Hin as [y0 [Hy0 Hin]].
      apply (fold_elem_final (fun np a => link_build f (seg_prop here (fst np)) (p_type (snd np)) a)
               (fun np => PProp (fst np)) here props p y0 (good_entry srcp id)) with (lt := lt); auto.
      + apply props_inj; exact Hn.
      + intros x a a' _ Ea Hnu. eapply link_build_under; eauto.
      + eapply occs_under; eauto.
      + intros a a' Ea. eapply IH; eauto.
      + apply good_entry_fun.
    - apply andb_prop in Hu. destruct Hu as [Hn Hf]. rewrite forallb_forall in Hf.
      apply in_flat_map in Hin. destruct Hin as [y0 [Hy0 Hin]].
      apply (fold_elem_final (fun km a => link_build f (seg_member here (fst km)) (snd km) a)
               (fun km => PMember (fst km)) here types p y0 (good_entry srcp id)) with (lt := lt); auto.
      + apply members_inj; exact Hn.
      + intros x a a' _ Ea Hnu. eapply link_build_under; eauto.
      + eapply occs_under; eauto.
      + intros a a' Ea. eapply IH; eauto.
      + apply good_entry_fun.
    - destruct Hin as [E|[]]. inversion E; subst. contradiction.
    - apply bind_ok_inv in Hl. destruct Hl as [lt1 [E1 E2]].
      apply (link_ns_sets f None "" here (SScope objs root) lt1 lt' E2); [exact Hu|]. cbn. exact Hin. }
  intros f here s lt lt' Hl Hu p tab q id Hin.
  destruct (G f here s lt lt' Hl Hu p _ id Hin) as [x [Hx (t1 & l1 & o1 & E & A & ->)]]; [discriminate|].
  inversion E; subst. exists o1. split; assumption.
Qed.

(* outside every scope a self reference stays unlinked, and references to other namespaces are not
   touched by construction *)
Lemma link_build_frame : forall f here s lt lt' p, link_build f here s lt = Ok lt' ->
  (forall x id, ~ In (p, (Some x, (id, ""))) (occs None "" here s)) -> lt_get p lt' = lt_get p lt.
Proof.
  induction f as [|f IH]; intros here s lt lt' p Hl Hn; [discriminate|].
  destruct s; cbn in Hl, Hn; try (inversion Hl; subst; reflexivity).
  - eapply IH; eauto.
  - apply bind_ok_inv in Hl. destruct Hl as [lt1 [E1 E2]].
    rewrite (IH _ _ _ _ p E2), (IH _ _ _ _ p E1); auto; intros x rid C; apply (Hn x rid); apply in_or_app; auto.
  - apply (fold_untouched _ (fun np a => link_build f (seg_prop here (fst np)) (p_type (snd np)) a) (fun _ => True) p props lt lt'); auto.
    intros y a a' Hy Ea _. eapply IH; eauto. intros x rid C. apply (Hn x rid). apply in_flat_map. eauto.
  - apply (fold_untouched _ (fun km a => link_build f (seg_member here (fst km)) (snd km) a) (fun _ => True) p types lt lt'); auto.
    intros y a a' Hy Ea _. eapply IH; eauto. intros x rid C. apply (Hn x rid). apply in_flat_map. eauto.
  - apply bind_ok_inv in Hl. destruct Hl as [lt1 [E1 E2]].
    assert (Hn' : forall srcp rid, ~ In (p, (srcp, (rid, ""))) (occs None "" here (SScope objs root))).
    { intros srcp rid C. cbn in C. pose proof C as C'. apply in_flat_map in C'. destruct C' as [io [Hio C']].
      destruct (occs_some _ _ _ _ _ _ _ C') as [y ->]. apply (Hn y rid). exact C. }
    rewrite (link_ns_frame _ _ _ _ _ _ _ p E2 Hn').
    apply (fold_untouched _ (fun io a => link_build f (seg_obj here (fst io)) (snd io) a) (fun _ => True) p objs lt lt1); auto.
    intros y a a' Hy Ea _. eapply IH; eauto. intros x rid C.
    destruct (occs_indep _ _ _ (Some (objs, LScope here)) "" _ _ _ _ C) as [srcp' C'].
    apply (Hn' srcp' rid). cbn. apply in_flat_map. eauto.
Qed.

(* ---------- the environment of Ops.v at an occurrence ---------- *)
Lemma envrefs_occs : forall s e src here p e' id ns, In (p, (e', (id, ns))) (envrefs e here s) ->
  e_ext e' = e_ext e /\ e_or e' = e_or e /\
  exists srcp, In (p, (srcp, (id, ns))) (occs src "" here s) /\
               ((srcp = src /\ e' = e) \/ exists q, srcp = Some (e_self e', q)).
Proof.
  induction s using schema_ind'; intros e src here p e' rid rns Hin.
  - destruct s; try discriminate; cbn in Hin; try contradiction.
    destruct Hin as [E|[]]. inversion E; subst. repeat split; auto. eexists. split; [cbn; left; reflexivity|]. left; auto.
  - cbn in *. eapply IHs; eauto.
  - cbn in *. apply in_app_or in Hin. destruct Hin as [Hin|Hin].
    + destruct (IHs1 _ src _ _ _ _ _ Hin) as (A & B & q & Hq & Hd). repeat split; auto. exists q. split; [apply in_or_app; left; exact Hq | exact Hd].
    + destruct (IHs2 _ src _ _ _ _ _ Hin) as (A & B & q & Hq & Hd). repeat split; auto. exists q. split; [apply in_or_app; right; exact Hq | exact Hd].
  - cbn in *. apply in_flat_map in Hin. destruct Hin as [a [Ha Hin]]. rewrite Forall_forall in H.
    destruct (H a Ha _ src _ _ _ _ _ Hin) as (A & B & q & Hq & Hd). repeat split; auto. exists q. split; [apply in_flat_map; eauto | exact Hd].
  - cbn in *. apply in_flat_map in Hin. destruct Hin as [a [Ha Hin]]. rewrite Forall_forall in H.
    destruct (H a Ha _ src _ _ _ _ _ Hin) as (A & B & q & Hq & Hd). repeat split; auto. exists q. split; [apply in_flat_map; eauto | exact Hd].
  - cbn in *. apply in_flat_map in Hin. destruct Hin as [a [Ha Hin]]. rewrite Forall_forall in H.
    destruct (H a Ha _ (Some (objs, LScope here)) _ _ _ _ _ Hin) as (A & B & q & Hq & Hd).
    cbn in A, B. repeat split; auto. exists q. split; [apply in_flat_map; eauto|].
    right. destruct Hd as [[-> ->]|Hd]; [exists (LScope here); reflexivity | exact Hd].
Qed.

(* C14_link_agrees, self namespace: after construction, at every self-reference occurrence the link
   table holds exactly what the environment lookup of Ops.v returns *)
Theorem link_agrees_self : forall f s lt0 e, link_build f [] s [] = Ok lt0 -> luniq s = true -> e_self e = [] ->
  forall p e' id, In (p, (e', (id, ""))) (envrefs e [] s) ->
    option_map (fun x => (le_obj x, le_tab x)) (lt_get p lt0)
    = option_map (fun r => (fst r, e_self (snd r))) (resolve e' id "").
Proof.
  intros f s lt0 e Hb Hu He p e' id Hin.
  destruct (envrefs_occs _ _ None _ _ _ _ _ Hin) as (_ & _ & srcp & Ho & Hd).
  destruct Hd as [[-> ->]|[q ->]].
  - unfold resolve. cbn. rewrite He. cbn.
    rewrite (link_build_frame _ _ _ _ _ p Hb); [reflexivity|].
    intros x id' C. pose proof (occs_fun _ Hu _ _ _ _ _ _ Ho C) as D. discriminate D.
  - destruct (link_build_lexical _ _ _ _ _ Hb Hu _ _ _ _ Ho) as [o [Ao Hg]].
    rewrite Hg. unfold resolve. cbn. rewrite Ao. reflexivity.
Qed.

(* ---------- external namespaces ---------- *)
Lemma apply_all_cons f s nt apps lt :
  apply_all f s (nt :: apps) lt = (a <- link_ext f (fst nt) (snd nt) s lt ;; apply_all f s apps a).
Proof.
  unfold apply_all. cbn [fold_left].
  change (a <- Ok lt ;; link_ext f (fst nt) (snd nt) s a) with (link_ext f (fst nt) (snd nt) s lt).
  destruct (link_ext f (fst nt) (snd nt) s lt) as [a| | |]; cbn [bind]; [reflexivity | | |].
  - induction apps as [|x t IH]; cbn; [reflexivity | exact IH].
  - induction apps as [|x t IH]; cbn; [reflexivity | exact IH].
  - induction apps as [|x t IH]; cbn; [reflexivity | exact IH].
Qed.

Lemma apply_all_spec : forall f s apps lt lt', apply_all f s apps lt = Ok lt' -> luniq s = true ->
  NoDup (map fst apps) -> ~ In "" (map fst apps) ->
  forall p,
    (forall srcp id ns tab, In (p, (srcp, (id, ns))) (occs None "" [] s) -> In (ns, tab) apps ->
        exists o, alookup id tab = Some o /\ lt_get p lt' = Some (mkLE (LExt ns) tab o)) /\
    ((forall srcp id ns, In (p, (srcp, (id, ns))) (occs None "" [] s) -> ~ In ns (map fst apps)) ->
        lt_get p lt' = lt_get p lt).
Proof.
  intros f s apps. induction apps as [|[ns1 t1] rest IH]; intros lt lt' Ha Hu Hnd Hne p.
  { unfold apply_all in Ha. cbn in Ha. inversion Ha; subst. split; [intros ? ? ? ? _ []|reflexivity]. }
  rewrite apply_all_cons in Ha. apply bind_ok_inv in Ha. destruct Ha as [a1 [E1 E2]]. cbn [fst snd] in E1.
  inversion Hnd as [|? ? Hni Hnd']; subst.
  assert (Hne' : ~ In "" (map fst rest)) by (intros C; apply Hne; right; exact C).
  destruct (IH a1 lt' E2 Hu Hnd' Hne' p) as [IH1 IH2].
  assert (Hns1 : String.eqb ns1 "" = false).
  { destruct (String.eqb ns1 "") eqn:E; [|reflexivity]. apply String.eqb_eq in E. subst. exfalso. apply Hne. left; reflexivity. }
  split.
  - intros srcp id ns tab Ho [E|Hin].
    + inversion E; subst ns tab.
      destruct (occs_indep _ _ _ (Some (t1, LExt ns1)) ns1 _ _ _ _ Ho) as [srcp' Ho'].
      pose proof (occs_ext _ _ _ _ _ _ _ Hns1 Ho') as ->.
      unfold link_ext in E1.
      destruct (link_ns_sets _ _ _ _ _ _ _ E1 Hu _ _ _ Ho') as [x [Hx (t2 & l2 & o2 & E2' & A2 & ->)]].
      inversion E2'; subst. exists o2. split; [exact A2|].
      rewrite IH2; [exact Hx|].
      intros srcp2 id2 ns2 Ho2 C.
      pose proof (occs_fun _ Hu _ _ _ _ _ _ Ho Ho2) as D. inversion D; subst. apply Hni. exact C.
    + apply (IH1 srcp id ns tab Ho Hin).
  - intros Hnone. rewrite IH2.
    + unfold link_ext in E1. apply (link_ns_frame _ _ _ _ _ _ _ p E1).
      intros srcp id C. destruct (occs_indep _ _ _ None "" _ _ _ _ C) as [srcp' C'].
      apply (Hnone srcp' id ns1 C'). left; reflexivity.
    + intros srcp id ns Ho C. apply (Hnone srcp id ns Ho). right; exact C.
Qed.

Lemma lpath_dec (a b : lpath) : {a = b} + {a <> b}.
Proof.
  destruct (lpath_eqb a b) eqn:E; [left; apply lpath_eqb_eq; exact E|].
  right; intros C. apply lpath_eqb_eq in C. congruence.
Qed.

(* C14_order_irrelevant: any order of applying the external namespaces gives the same link table *)
Theorem order_irrelevant : forall f s apps apps' lt a b, Permutation apps apps' ->
  NoDup (map fst apps) -> ~ In "" (map fst apps) -> luniq s = true ->
  apply_all f s apps lt = Ok a -> apply_all f s apps' lt = Ok b ->
  forall p, lt_get p a = lt_get p b.
Proof.
  intros f s apps apps' lt a b HP Hnd Hne Hu Ha Hb p.
  assert (HPm : Permutation (map fst apps) (map fst apps')) by (apply Permutation_map; exact HP).
  assert (Hnd' : NoDup (map fst apps')) by (eapply Permutation_NoDup; eauto).
  assert (Hne' : ~ In "" (map fst apps')).
  { intros C. apply Hne. eapply Permutation_in; [apply Permutation_sym; exact HPm | exact C]. }
  destruct (apply_all_spec _ _ _ _ _ Ha Hu Hnd Hne p) as [A1 A2].
  destruct (apply_all_spec _ _ _ _ _ Hb Hu Hnd' Hne' p) as [B1 B2].
  set (L := occs None "" [] s).
  destruct (Exists_dec (fun x => fst x = p /\ In (snd (snd (snd x))) (map fst apps)) L) as [Hex|Hno].
  { intros x. destruct (lpath_dec (fst x) p) as [E|E]; [|right; intros [C _]; contradiction].
    destruct (in_dec string_dec (snd (snd (snd x))) (map fst apps)) as [I|I]; [left; split; assumption | right; intros [_ C]; contradiction]. }
  - apply Exists_exists in Hex. destruct Hex as [[q [srcp [id ns]]] [Hin [Hq Hns]]]. cbn in Hq, Hns. subst q.
    apply in_map_iff in Hns. destruct Hns as [[ns' tab] [E Hin']]. cbn in E. subst ns'.
    destruct (A1 srcp id ns tab Hin Hin') as [o [Ao Ea]].
    destruct (B1 srcp id ns tab Hin (Permutation_in _ HP Hin')) as [o' [Ao' Eb]].
    rewrite Ea, Eb. rewrite Ao in Ao'. inversion Ao'; subst. reflexivity.
  - assert (Hnone : forall srcp id ns, In (p, (srcp, (id, ns))) L -> ~ In ns (map fst apps)).
    { intros srcp id ns Hin C. apply Hno. apply Exists_exists. exists (p, (srcp, (id, ns))). split; [exact Hin|]. cbn. split; [reflexivity | exact C]. }
    rewrite (A2 Hnone). rewrite B2; [reflexivity|].
    intros srcp id ns Hin C. apply (Hnone srcp id ns Hin). eapply Permutation_in; [apply Permutation_sym; exact HPm | exact C].
Qed.

Lemma alookup_NoDup {A} (l : list (string * A)) k v : NoDup (map fst l) -> In (k, v) l -> alookup k l = Some v.
Proof.
  induction l as [|[k' v'] t IH]; cbn; intros Hnd Hin; [contradiction|].
  inversion Hnd as [|? ? Hni Hnd']; subst. destruct Hin as [E|Hin].
  - inversion E; subst. rewrite String.eqb_refl. reflexivity.
  - destruct (String.eqb k k') eqn:Ek.
    + apply String.eqb_eq in Ek. subst. exfalso. apply Hni. apply (in_map fst) in Hin. exact Hin.
    + apply IH; assumption.
Qed.
Lemma alookup_None_notin {A} (l : list (string * A)) k : ~ In k (map fst l) -> alookup k l = None.
Proof.
  induction l as [|[k' v'] t IH]; cbn; intros H; [reflexivity|].
  destruct (String.eqb k k') eqn:Ek.
  - apply String.eqb_eq in Ek. subst. exfalso. apply H. left; reflexivity.
  - apply IH. intros C. apply H. right; exact C.
Qed.

(* C14_link_agrees: the schema built, all namespaces of the environment applied (in any order): at
   EVERY reference occurrence the link table holds what the environment lookup of Ops.v returns *)
Theorem link_agrees : forall f s e apps lt0 lt, link_build f [] s [] = Ok lt0 ->
  Permutation apps (e_ext e) -> apply_all f s apps lt0 = Ok lt ->
  luniq s = true -> e_self e = [] -> NoDup (map fst (e_ext e)) -> ~ In "" (map fst (e_ext e)) ->
  forall p e' id ns, In (p, (e', (id, ns))) (envrefs e [] s) ->
    option_map (fun x => (le_obj x, le_tab x)) (lt_get p lt)
    = option_map (fun r => (fst r, e_self (snd r))) (resolve e' id ns).
Proof.
  intros f s e apps lt0 lt Hb HP Ha Hu He Hnd Hne p e' id ns Hin.
  assert (HPm : Permutation (map fst apps) (map fst (e_ext e))) by (apply Permutation_map; exact HP).
  assert (Hnd' : NoDup (map fst apps)) by (eapply Permutation_NoDup; [apply Permutation_sym; exact HPm | exact Hnd]).
  assert (Hne' : ~ In "" (map fst apps)) by (intros C; apply Hne; eapply Permutation_in; eauto).
  destruct (apply_all_spec _ _ _ _ _ Ha Hu Hnd' Hne' p) as [A1 A2].
  destruct (envrefs_occs _ _ None _ _ _ _ _ Hin) as (Hx & _ & srcp & Ho & Hd).
  destruct (String.eqb ns "") eqn:Ens.
  - apply String.eqb_eq in Ens. subst ns.
    rewrite A2.
    + eapply link_agrees_self; eauto.
    + intros srcp2 id2 ns2 Ho2 C. pose proof (occs_fun _ Hu _ _ _ _ _ _ Ho Ho2) as D. inversion D; subst. contradiction.
  - unfold resolve. rewrite Ens. rewrite Hx.
    destruct (in_dec string_dec ns (map fst apps)) as [I|I].
    + apply in_map_iff in I. destruct I as [[ns' tab] [E I]]. cbn in E. subst ns'.
      destruct (A1 srcp id ns tab Ho I) as [o [Ao Eg]]. rewrite Eg.
      rewrite (alookup_NoDup _ _ _ Hnd (Permutation_in _ HP I)). rewrite Ao. reflexivity.
    + rewrite A2.
      * rewrite (link_build_frame _ _ _ _ _ p Hb).
        -- rewrite alookup_None_notin; [reflexivity|]. intros C. apply I. eapply Permutation_in; [apply Permutation_sym; exact HPm | exact C].
        -- intros x id2 C. pose proof (occs_fun _ Hu _ _ _ _ _ _ Ho C) as D. inversion D; subst. discriminate Ens.
      * intros srcp2 id2 ns2 Ho2 C. pose proof (occs_fun _ Hu _ _ _ _ _ _ Ho Ho2) as D. inversion D; subst. contradiction.
Qed.

(* ---------- boolean side conditions ---------- *)
Lemma ns_names_ok_spec apps : ns_names_ok apps = true -> NoDup (map fst apps) /\ ~ In "" (map fst apps).
Proof.
  unfold ns_names_ok. intros H. apply andb_prop in H. destruct H as [H1 H2].
  split; [apply nodup_str_NoDup; exact H1|]. intros C. apply In_str_in in C. rewrite C in H2. discriminate.
Qed.

Theorem order_irrelevant_b : forall f s apps apps' lt a b, Permutation apps apps' ->
  ns_names_ok apps = true -> luniq s = true ->
  apply_all f s apps lt = Ok a -> apply_all f s apps' lt = Ok b ->
  forall p, lt_get p a = lt_get p b.
Proof. intros f s apps apps' lt a b HP H. destruct (ns_names_ok_spec _ H). eapply order_irrelevant; eauto. Qed.

Theorem link_agrees_b : forall f s e apps lt0 lt, link_build f [] s [] = Ok lt0 ->
  Permutation apps (e_ext e) -> apply_all f s apps lt0 = Ok lt ->
  luniq s = true -> e_self e = [] -> ns_names_ok (e_ext e) = true ->
  forall p e' id ns, In (p, (e', (id, ns))) (envrefs e [] s) ->
    option_map (fun x => (le_obj x, le_tab x)) (lt_get p lt)
    = option_map (fun r => (fst r, e_self (snd r))) (resolve e' id ns).
Proof. intros f s e apps lt0 lt Hb HP Ha Hu He H. destruct (ns_names_ok_spec _ H). eapply link_agrees; eauto. Qed.

(* ---------- whether an application returns does not depend on the link table ---------- *)
Lemma fold_all_ok {B} (step : B -> ltab -> outcome ltab) : forall l,
  (forall x, In x l -> forall b, exists b', step x b = Ok b') ->
  forall b, exists b', fold_left (fun acc x => a0 <- acc ;; step x a0) l (Ok b) = Ok b'.
Proof.
  induction l as [|x t IH]; intros H b; cbn [fold_left]; [eauto|].
  destruct (H x (or_introl eq_refl) b) as [b1 E].
  change (a0 <- Ok b ;; step x a0) with (step x b). rewrite E. apply IH. intros y Hy. apply H. right; exact Hy.
Qed.

Lemma link_ns_ok_indep : forall f src ns here s lt lt', link_ns f src ns here s lt = Ok lt' ->
  forall lt2, exists lt2', link_ns f src ns here s lt2 = Ok lt2'.
Proof.
  induction f as [|f IH]; intros src ns here s lt lt' Hl lt2; [discriminate|].
  destruct s; cbn in Hl |- *; try (eexists; reflexivity).
  - eapply IH; eauto.
  - apply bind_ok_inv in Hl. destruct Hl as [lt1 [E1 E2]].
    destruct (IH _ _ _ _ _ _ E1 lt2) as [b1 Eb1]. rewrite Eb1. cbn [bind]. eapply IH; eauto.
  - apply (fold_all_ok (fun np a => link_ns f src ns (seg_prop here (fst np)) (p_type (snd np)) a)).
    intros x Hx b.
    destruct (fold_ok_elem (fun np a => link_ns f src ns (seg_prop here (fst np)) (p_type (snd np)) a) _ _ _ x Hl Hx) as [a [a' Ea]].
    eapply IH; eauto.
  - apply (fold_all_ok (fun km a => link_ns f src ns (seg_member here (fst km)) (snd km) a)).
    intros x Hx b.
    destruct (fold_ok_elem (fun km a => link_ns f src ns (seg_member here (fst km)) (snd km) a) _ _ _ x Hl Hx) as [a [a' Ea]].
    eapply IH; eauto.
  - destruct (String.eqb ns0 ns); [|eauto].
    destruct src as [[objs loc]|]; [|discriminate]. destruct (alookup id objs); [eauto|discriminate].
  - apply (fold_all_ok (fun io a => link_ns f (if String.eqb ns "" then Some (objs, LScope here) else src) ns
                                      (seg_obj here (fst io)) (snd io) a)).
    intros x Hx b.
    destruct (fold_ok_elem (fun io a => link_ns f (if String.eqb ns "" then Some (objs, LScope here) else src) ns
                                          (seg_obj here (fst io)) (snd io) a) _ _ _ x Hl Hx) as [a [a' Ea]].
    eapply IH; eauto.
Qed.

(* C14_order_irrelevant, total form: if one order returns, every order returns, with the same table *)
Theorem order_irrelevant_total : forall f s apps apps' lt a, Permutation apps apps' ->
  ns_names_ok apps = true -> luniq s = true -> apply_all f s apps lt = Ok a ->
  exists b, apply_all f s apps' lt = Ok b /\ forall p, lt_get p a = lt_get p b.
Proof.
  intros f s apps apps' lt a HP Hok Hu Ha.
  assert (Hb : exists b, apply_all f s apps' lt = Ok b).
  { unfold apply_all. apply (fold_all_ok (fun nt a0 => link_ext f (fst nt) (snd nt) s a0)).
    intros x Hx b.
    assert (Hx' : In x apps) by (eapply Permutation_in; [apply Permutation_sym; exact HP | exact Hx]).
    unfold apply_all in Ha.
    destruct (fold_ok_elem (fun nt a0 => link_ext f (fst nt) (snd nt) s a0) _ _ _ x Ha Hx') as [c [c' Ec]].
    unfold link_ext in *. eapply link_ns_ok_indep; eauto. }
  destruct Hb as [b Hb]. exists b. split; [exact Hb|]. eapply order_irrelevant_b; eauto.
Qed.

(* any list of applications (not necessarily all namespaces): the occurrences of an applied namespace
   are linked into its table, everything else is untouched *)
Theorem apply_all_spec_b : forall f s apps lt lt', apply_all f s apps lt = Ok lt' -> luniq s = true ->
  ns_names_ok apps = true ->
  forall p,
    (forall srcp id ns tab, In (p, (srcp, (id, ns))) (occs None "" [] s) -> In (ns, tab) apps ->
        exists o, alookup id tab = Some o /\ lt_get p lt' = Some (mkLE (LExt ns) tab o)) /\
    ((forall srcp id ns, In (p, (srcp, (id, ns))) (occs None "" [] s) -> ~ In ns (map fst apps)) ->
        lt_get p lt' = lt_get p lt).
Proof. intros f s apps lt lt' Ha Hu H. destruct (ns_names_ok_spec _ H). eapply apply_all_spec; eauto. Qed.

(* the fuelled enumeration used by ValidateReferences / the harness lists structural occurrences only *)
Theorem refs_of_are_occs : forall f here s p id ns, In (p, (id, ns)) (refs_of f here s) ->
  exists srcp, In (p, (srcp, (id, ns))) (occs None "" here s).
Proof. intros f here s p id ns H. eapply refs_of_occs; eauto. Qed.
