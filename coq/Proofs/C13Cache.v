(* Proofs/C13Cache.v — the lazily filled caches as explicit STATE (C12 history freedom, C13 isolation).

   Three caches sit between an operation and a function of the immutable schema:
     KRe u      -> the compiled parser expression of a units definition     (UnitsDefinition.reCache)
     KSorted u  -> its multipliers in descending order                      (sortedMultipliersCache)
     KJson txt  -> what encoding/json makes of a property's default text    (ObjectSchema.defaultValues)
   `vcache` is a finite table key -> value; `vcompute` is what the code computes for a key from the
   immutable part; a cache is COHERENT when every entry is the computed value.

   The state-passing form of an operation, `op_st : vcache -> call -> result * vcache`:
     * the RESULT is evaluated THROUGH the cache: Schema/OpsC.v with the integer unit parser, the float
       unit parser and the JSON oracle replaced by readers that take the compiled expression / the
       sorted multipliers / the decoded default from the cache when the entry is there and compute them
       when it is not;
     * the NEW cache is the old one plus an entry for every cell the operation's primitive uses touch
       (Schema/FootprintOps.v: getReCache fills KRe — and KSorted through updateReCache when the
       definition declares multipliers —, getSortedMultipliersCache fills KSorted, GetDefaults decodes
       all default texts of its object), each filled with the computed value; nothing is overwritten.
   (Within one call a cell filled by an earlier use and read by a later one holds the computed value,
   which is what the reader computes on a miss: reading the snapshot at the start of the call and
   reading the running state give the same values, so the snapshot form is used.)

   Proved: from ANY coherent cache every operation returns exactly what the pure function of Ops.v
   returns; the cache stays coherent and only grows; hence for every HISTORY of calls the list of
   results is the list of pure results, and what a cell holds after any history is a function of its
   key (of the schema) alone.  With an eager toucher (every key of the schema after the first call, as
   in C12History) the final cache is literally `vfill c0 keys`. *)
From Coq Require Import Lia.
From Verif Require Import Base.Prelude Base.Str Base.Float Base.GoVal
  Schema.Regex Schema.Units Schema.FloatUnits Schema.Syntax Schema.Ops Schema.OpsC
  ATP.Msg ATP.Footprint Schema.FootprintOps Proofs.OpsEq Proofs.OpsCEq Proofs.C12History Proofs.C13Cong.
Open Scope string_scope.

(* ---------- the unit parsers with the cached parts as arguments ---------- *)
(* Units.parse_units with `units_re u` and `sorted_mults u` abstracted *)
Definition parse_units_with (rx : re) (sm : list (Z * unit_def)) (data : string) : uparse :=
  let d := chars (trim_space data) in
  match d with
  | [] => UErr
  | _ =>
    match re_match_at rx (List.length d) d with
    | None => UErr
    | Some cs =>
        let toks := (map (fun mu => (cap_get (fst mu) cs, fst mu)) sm ++ [(cap_get 1%Z cs, 1%Z)])%list in
        if existsb (fun tm => contains_chr "."%char (fst tm)) toks then UFloatTok
        else match fold_left (fun acc tm => accumulate_tok acc (fst tm) (snd tm)) toks (Some 0%Z) with
             | Some z => UInt z
             | None => UErr
             end
    end
  end.
Definition parse_units_int_with (rx : re) (sm : list (Z * unit_def)) (data : string) : option Z :=
  match parse_units_with rx sm data with UInt z => Some z | _ => None end.
Lemma parse_units_int_with_eq u s : parse_units_int_with (units_re u) (sorted_mults u) s = parse_units_int u s.
Proof. reflexivity. Qed.

(* FloatUnits.parse_units_float likewise *)
Definition parse_units_float_with (rx : re) (sm : list (Z * unit_def)) (data : string) : option fl :=
  let d := chars (trim_space data) in
  match d with
  | [] => None
  | _ =>
    match re_match_at rx (List.length d) d with
    | None => None
    | Some cs =>
        let toks := (map (fun mu => (cap_get (fst mu) cs, fst mu)) sm ++ [(cap_get 1%Z cs, 1%Z)])%list in
        match fold_left (fun acc tm => accumulate_ftok acc (fst tm) (snd tm)) toks (Some (0%Z, FZero false, false)) with
        | Some (i, fnum, isf) => Some (if isf then fnum else fl_of_Z b64 i)
        | None => None
        end
    end
  end.
Lemma parse_units_float_with_eq u s : parse_units_float_with (units_re u) (sorted_mults u) s = parse_units_float u s.
Proof. reflexivity. Qed.

(* ---------- keys, values, tables ---------- *)
Inductive ckey := KRe (u : units) | KSorted (u : units) | KJson (txt : string).
Inductive cvalue := CRe (r : re) | CSorted (l : list (Z * unit_def)) | CJson (o : option gval).

Definition unit_def_eqb (a b : unit_def) : bool :=
  String.eqb (u_ss a) (u_ss b) && String.eqb (u_sp a) (u_sp b) && String.eqb (u_ls a) (u_ls b) && String.eqb (u_lp a) (u_lp b).
Fixpoint mults_eqb (a b : list (Z * unit_def)) : bool :=
  match a, b with
  | [], [] => true
  | (x, d) :: ta, (y, d') :: tb => Z.eqb x y && unit_def_eqb d d' && mults_eqb ta tb
  | _, _ => false
  end.
Definition units_eqb (a b : units) : bool := unit_def_eqb (u_base a) (u_base b) && mults_eqb (u_mults a) (u_mults b).
Definition ckey_eqb (a b : ckey) : bool :=
  match a, b with
  | KRe u, KRe u' | KSorted u, KSorted u' => units_eqb u u'
  | KJson t, KJson t' => String.eqb t t'
  | _, _ => false
  end.

Lemma unit_def_eqb_eq a b : unit_def_eqb a b = true <-> a = b.
Proof.
  destruct a, b. unfold unit_def_eqb. cbn. rewrite !andb_true_iff, !String.eqb_eq. split.
  - intros [[[-> ->] ->] ->]. reflexivity.
  - intros H. inversion H. auto.
Qed.
Lemma mults_eqb_eq a : forall b, mults_eqb a b = true <-> a = b.
Proof.
  induction a as [|[x d] ta IH]; intros [|[y d'] tb]; cbn; try (split; [discriminate | discriminate]); [split; reflexivity|].
  rewrite !andb_true_iff, Z.eqb_eq, unit_def_eqb_eq, IH. split.
  - intros [[-> ->] ->]. reflexivity.
  - intros H. inversion H. auto.
Qed.
Lemma units_eqb_eq a b : units_eqb a b = true <-> a = b.
Proof.
  destruct a, b. unfold units_eqb. cbn. rewrite andb_true_iff, unit_def_eqb_eq, mults_eqb_eq. split.
  - intros [-> ->]. reflexivity.
  - intros H. inversion H. auto.
Qed.
Lemma ckey_eqb_eq a b : ckey_eqb a b = true <-> a = b.
Proof.
  destruct a, b; cbn; rewrite ?units_eqb_eq, ?String.eqb_eq; split; try discriminate; intros H; inversion H; reflexivity.
Qed.
Lemma ckey_eqb_refl a : ckey_eqb a a = true.
Proof. now apply ckey_eqb_eq. Qed.

Definition vcache := list (ckey * cvalue).
Fixpoint vlookup (k : ckey) (c : vcache) : option cvalue :=
  match c with
  | [] => None
  | (k', v) :: t => if ckey_eqb k k' then Some v else vlookup k t
  end.
Definition vmem (k : ckey) (c : vcache) : bool := match vlookup k c with Some _ => true | None => false end.

(* what the code computes for a cell from the immutable part *)
Definition vcompute (o : oracles) (k : ckey) : cvalue :=
  match k with
  | KRe u => CRe (units_re u)
  | KSorted u => CSorted (sorted_mults u)
  | KJson txt => CJson (o_json o txt)
  end.
Definition vcoherent (o : oracles) (c : vcache) : Prop := forall k v, vlookup k c = Some v -> v = vcompute o k.

(* first use fills, later use leaves alone *)
Definition vfill (o : oracles) (c : vcache) (ks : list ckey) : vcache :=
  fold_left (fun c k => if vmem k c then c else (k, vcompute o k) :: c) ks c.

(* the readers *)
Definition re_of (c : vcache) (u : units) : re :=
  match vlookup (KRe u) c with Some (CRe r) => r | _ => units_re u end.
Definition sorted_of (c : vcache) (u : units) : list (Z * unit_def) :=
  match vlookup (KSorted u) c with Some (CSorted l) => l | _ => sorted_mults u end.
Definition json_of (o : oracles) (c : vcache) (txt : string) : option gval :=
  match vlookup (KJson txt) c with Some (CJson r) => r | _ => o_json o txt end.
Definition with_vcache (e : env) (c : vcache) : env :=
  mkEnv (e_self e) (e_ext e) (mkOracles (json_of (e_or e) c) (o_re_ok (e_or e))).

Lemma re_of_coherent o c u : vcoherent o c -> re_of c u = units_re u.
Proof.
  intros H. unfold re_of. destruct (vlookup (KRe u) c) as [v|] eqn:E; [|reflexivity].
  apply H in E. subst v. reflexivity.
Qed.
Lemma sorted_of_coherent o c u : vcoherent o c -> sorted_of c u = sorted_mults u.
Proof.
  intros H. unfold sorted_of. destruct (vlookup (KSorted u) c) as [v|] eqn:E; [|reflexivity].
  apply H in E. subst v. reflexivity.
Qed.
Lemma json_of_coherent o c t : vcoherent o c -> json_of o c t = o_json o t.
Proof.
  intros H. unfold json_of. destruct (vlookup (KJson t) c) as [v|] eqn:E; [|reflexivity].
  apply H in E. subst v. reflexivity.
Qed.
Lemma vcoherent_sim e c : vcoherent (e_or e) c -> env_sim (with_vcache e c) e.
Proof. intros H. repeat split; cbn; auto. intros t. now apply json_of_coherent. Qed.
Lemma vcoherent_nil o : vcoherent o [].
Proof. intros k v H. discriminate. Qed.

Lemma vfill_coherent o ks : forall c, vcoherent o c -> vcoherent o (vfill o c ks).
Proof.
  induction ks as [|k ks IH]; intros c Hc; cbn [vfill fold_left]; [exact Hc|].
  apply IH. destruct (vmem k c); [exact Hc|].
  intros k' v. cbn [vlookup]. destruct (ckey_eqb k' k) eqn:E.
  - apply ckey_eqb_eq in E. subst. intros H; now inversion H.
  - apply Hc.
Qed.
(* nothing is overwritten or dropped *)
Lemma vfill_mono o ks : forall c k v, vlookup k c = Some v -> vlookup k (vfill o c ks) = Some v.
Proof.
  induction ks as [|x ks IH]; intros c k v H; cbn [vfill fold_left]; [exact H|].
  apply IH. destruct (vmem x c) eqn:M; [exact H|].
  cbn [vlookup]. destruct (ckey_eqb k x) eqn:E; [|exact H].
  apply ckey_eqb_eq in E. subst x. unfold vmem in M. rewrite H in M. discriminate.
Qed.
Lemma vmem_mono o ks c k : vmem k c = true -> vmem k (vfill o c ks) = true.
Proof.
  unfold vmem. destruct (vlookup k c) as [v|] eqn:E; [|discriminate]. intros _.
  now rewrite (vfill_mono o ks c k v E).
Qed.
Lemma vfill_has o ks : forall c k, In k ks -> vmem k (vfill o c ks) = true.
Proof.
  induction ks as [|x ks IH]; intros c k Hin; [destruct Hin|]. cbn [vfill fold_left].
  destruct Hin as [->|Hin]; [|now apply IH].
  apply (vmem_mono o ks). destruct (vmem k c) eqn:E; [exact E|].
  unfold vmem. cbn [vlookup]. now rewrite ckey_eqb_refl.
Qed.
Lemma vfill_noop o ks : forall c, (forall k, In k ks -> vmem k c = true) -> vfill o c ks = c.
Proof.
  induction ks as [|x ks IH]; intros c H; [reflexivity|]. cbn [vfill fold_left].
  rewrite (H x (or_introl eq_refl)). apply IH. intros k Hk. apply H. now right.
Qed.
Lemma vfill_idem o ks c : vfill o (vfill o c ks) ks = vfill o c ks.
Proof. apply vfill_noop. intros k Hk. now apply vfill_has. Qed.

(* ---------- the operations through the cache ---------- *)
Section Cached.
Variable words : list (string * bool).
(* UnitsDefinition.ParseFloat as a function of the two cached parts (FloatUnits.parse_units_float_with is
   the instance the correspondence runs; the theorems hold for every such function) *)
Variable puw : re -> list (Z * unit_def) -> string -> option fl.

Definition pu0 : units -> string -> option fl := fun u s => puw (units_re u) (sorted_mults u) s.
Definition pu_c (c : vcache) : units -> string -> option fl := fun u s => puw (re_of c u) (sorted_of c u) s.
Definition pi_c (c : vcache) : units -> string -> option Z :=
  fun u s => parse_units_int_with (re_of c u) (sorted_of c u) s.

Definition run_c (c : vcache) (f : nat) (e : env) (s : schema) (k : call) : result :=
  match k with
  | CUnser v => RUnser (unser_c words (pu_c c) (pi_c c) f (with_vcache e c) s v)
  | CValidate v => RValidate (validate_c words (pu_c c) (pi_c c) f (with_vcache e c) s v)
  | CSerialize v => RSerialize (serialize_c words (pu_c c) (pi_c c) f (with_vcache e c) s v)
  | CCompat v => RCompat (compat_c words (pu_c c) (pi_c c) f (with_vcache e c) s v)
  end.

Lemma run_c_coherent c f e s k : vcoherent (e_or e) c -> run_c c f e s k = run words pu0 f e s k.
Proof.
  intros Hc.
  assert (Hpu : forall u s0, pu_c c u s0 = pu0 u s0).
  { intros u s0. unfold pu_c, pu0. now rewrite (re_of_coherent _ _ u Hc), (sorted_of_coherent _ _ u Hc). }
  assert (Hpi : forall u s0, pi_c c u s0 = parse_units_int u s0).
  { intros u s0. unfold pi_c. rewrite (re_of_coherent _ _ u Hc), (sorted_of_coherent _ _ u Hc).
    apply parse_units_int_with_eq. }
  destruct (ops_c_cong words pu0 (pu_c c) (pi_c c) Hpu Hpi f _ _ (vcoherent_sim e c Hc)) as (A & B & _ & C & D).
  destruct k; cbn [run_c run]; f_equal; auto.
Qed.

(* the cells a primitive use fills (ATP/Footprint.run_prim, by content) *)
Definition keys_of_xprim (x : xprim) : list ckey :=
  match x with
  | XRe _ u => KRe u :: (if has_mults u then [KSorted u] else [])
  | XSorted _ u => if has_mults u then [KSorted u] else []
  | XDefaults _ txts => map KJson txts
  | XLink _ => []
  end.
Definition xprims_call (f : nat) (nb : N) (ne : nenv) (e : env) (s : schema) (k : call) : list xprim :=
  match k with
  | CUnser v => xprims_unser words pu0 false f nb ne e s v
  | CValidate v => xprims_validate words pu0 false f nb ne e s v
  | CSerialize v => xprims_serialize words pu0 false f nb ne e s v
  | CCompat v => xprims_compat words pu0 false f nb ne e s v
  end.
Definition touched_lazy (f : nat) (nb : N) (ne : nenv) (e : env) (s : schema) (k : call) : list ckey :=
  flat_map keys_of_xprim (xprims_call f nb ne e s k).

(* one call, state-passing; `touched` says which cells the call's primitive uses touch *)
Definition op_st (touched : call -> list ckey) (f : nat) (e : env) (s : schema) (c : vcache) (k : call) : result * vcache :=
  (run_c c f e s k, vfill (e_or e) c (touched k)).

Lemma op_st_isolated touched f e s c k : vcoherent (e_or e) c ->
  fst (op_st touched f e s c k) = run words pu0 f e s k /\
  vcoherent (e_or e) (snd (op_st touched f e s c k)) /\
  (forall k' v, vlookup k' c = Some v -> vlookup k' (snd (op_st touched f e s c k)) = Some v).
Proof.
  intros Hc. cbn [op_st fst snd]. split; [now apply run_c_coherent|]. split.
  - now apply vfill_coherent.
  - intros k' v. apply vfill_mono.
Qed.

(* ---------- histories ---------- *)
Definition hstep_v touched (f : nat) (e : env) (s : schema) (st : list result * vcache) (k : call) : list result * vcache :=
  ((fst st ++ [fst (op_st touched f e s (snd st) k)])%list, snd (op_st touched f e s (snd st) k)).
Definition run_history_v touched (f : nat) (e : env) (s : schema) (c0 : vcache) (h : list call) : list result * vcache :=
  fold_left (hstep_v touched f e s) h ([], c0).

Lemma history_v_gen touched f e s : forall (h : list call) rs c, vcoherent (e_or e) c ->
  fst (fold_left (hstep_v touched f e s) h (rs, c)) = (rs ++ map (run words pu0 f e s) h)%list /\
  vcoherent (e_or e) (snd (fold_left (hstep_v touched f e s) h (rs, c))) /\
  (forall k v, vlookup k c = Some v -> vlookup k (snd (fold_left (hstep_v touched f e s) h (rs, c))) = Some v).
Proof.
  induction h as [|k t IH]; intros rs c Hc; cbn [fold_left map].
  - cbn [fst snd]. rewrite app_nil_r. auto.
  - destruct (op_st_isolated touched f e s c k Hc) as (R1 & R2 & R3).
    unfold hstep_v at 2 4 6. cbn [fst snd] in *. rewrite R1.
    destruct (IH (rs ++ [run words pu0 f e s k])%list _ R2) as (I1 & I2 & I3).
    repeat split.
    + rewrite I1, <- app_assoc. reflexivity.
    + exact I2.
    + intros k' v H. apply I3. apply R3. exact H.
Qed.

Theorem history_free_v touched f e s (h : list call) (c0 : vcache) : vcoherent (e_or e) c0 ->
  fst (run_history_v touched f e s c0 h) = map (run words pu0 f e s) h /\
  vcoherent (e_or e) (snd (run_history_v touched f e s c0 h)) /\
  (forall k v, vlookup k c0 = Some v -> vlookup k (snd (run_history_v touched f e s c0 h)) = Some v).
Proof. intros Hc. exact (history_v_gen touched f e s h [] c0 Hc). Qed.

(* what a cell holds after a history does not depend on the history: two histories (from two coherent
   caches) agree on every cell both have filled — the value is vcompute of the key *)
Corollary history_cells_function_of_key touched touched' f e s h h' c0 c0' k v v' :
  vcoherent (e_or e) c0 -> vcoherent (e_or e) c0' ->
  vlookup k (snd (run_history_v touched f e s c0 h)) = Some v ->
  vlookup k (snd (run_history_v touched' f e s c0' h')) = Some v' ->
  v = v' /\ v = vcompute (e_or e) k.
Proof.
  intros H0 H0' Hv Hv'.
  destruct (history_free_v touched f e s h c0 H0) as (_ & C1 & _).
  destruct (history_free_v touched' f e s h' c0' H0') as (_ & C2 & _).
  rewrite (C1 _ _ Hv), (C2 _ _ Hv'). auto.
Qed.

(* the eager toucher: every call touches the same keys (all keys of the schema); then the final cache
   after ANY non-empty history is one table *)
Lemma history_eager_cache ks f e s : forall (h : list call) rs c, h <> [] ->
  snd (fold_left (hstep_v (fun _ => ks) f e s) h (rs, c)) = vfill (e_or e) c ks.
Proof.
  induction h as [|k t IH]; intros rs c Hh; [congruence|]. cbn [fold_left].
  unfold hstep_v at 2. cbn [op_st fst snd].
  destruct t as [|k2 t2]; [reflexivity|]. rewrite IH by congruence. apply vfill_idem.
Qed.
Corollary history_eager_v ks f e s (h : list call) c0 : h <> [] ->
  snd (run_history_v (fun _ => ks) f e s c0 h) = vfill (e_or e) c0 ks.
Proof. intros Hh. unfold run_history_v. now apply history_eager_cache. Qed.

End Cached.

(* ---------- every key a schema (and the tables its references can reach) declares ---------- *)
Definition units_keys (u : option units) : list ckey :=
  match u with Some us => KRe us :: (if has_mults us then [KSorted us] else []) | None => [] end.
Fixpoint skeys (s : schema) : list ckey :=
  match s with
  | SInt _ _ u | SEnumInt _ u => units_keys u
  | SFloat _ _ u => units_keys u
  | SList it _ _ => skeys it
  | SMap k v _ _ => (skeys k ++ skeys v)%list
  | SObject _ _ props =>
      flat_map (fun np => (match p_default (snd np) with Some t => [KJson t] | None => [] end ++ skeys (p_type (snd np)))%list) props
  | SOneOf types _ _ _ => flat_map (fun km => skeys (snd km)) types
  | SScope objs _ => flat_map (fun io => skeys (snd io)) objs
  | _ => []
  end.
Definition schema_keys (e : env) (s : schema) : list ckey :=
  (skeys s ++ flat_map (fun io => skeys (snd io)) (e_self e)
   ++ flat_map (fun nt => flat_map (fun io => skeys (snd io)) (snd nt)) (e_ext e))%list.

(* ---------- every READ may find a different cache state ----------
   op_st evaluates a call against the cache as it was when the call started.  In the code a cell may be
   filled (by this call or by another thread) between two reads of one call, so different reads see
   different states.  Nothing changes: let every read find ANY coherent state — here a function of what
   is read (st_int / st_float: the state found by the integer / float unit parser called on (u, text);
   st_json: the state found when the default `text` is looked up) — the call still returns exactly what
   the pure function returns. *)
Section AnyState.
Variable words : list (string * bool).
Variable puw : re -> list (Z * unit_def) -> string -> option fl.
Variables st_int st_float : units -> string -> vcache.
Variable st_json : string -> vcache.

Definition env_r (e : env) : env :=
  mkEnv (e_self e) (e_ext e) (mkOracles (fun t => json_of (e_or e) (st_json t) t) (o_re_ok (e_or e))).
Definition pu_r : units -> string -> option fl := fun u x => puw (re_of (st_float u x) u) (sorted_of (st_float u x) u) x.
Definition pi_r : units -> string -> option Z :=
  fun u x => parse_units_int_with (re_of (st_int u x) u) (sorted_of (st_int u x) u) x.
Definition run_r (f : nat) (e : env) (s : schema) (k : call) : result :=
  match k with
  | CUnser v => RUnser (unser_c words pu_r pi_r f (env_r e) s v)
  | CValidate v => RValidate (validate_c words pu_r pi_r f (env_r e) s v)
  | CSerialize v => RSerialize (serialize_c words pu_r pi_r f (env_r e) s v)
  | CCompat v => RCompat (compat_c words pu_r pi_r f (env_r e) s v)
  end.

Lemma run_r_coherent f e s k :
  (forall u x, vcoherent (e_or e) (st_int u x)) -> (forall u x, vcoherent (e_or e) (st_float u x)) ->
  (forall t, vcoherent (e_or e) (st_json t)) ->
  run_r f e s k = run words (pu0 puw) f e s k.
Proof.
  intros Hi Hf Hj.
  assert (Hpu : forall u s0, pu_r u s0 = pu0 puw u s0).
  { intros u s0. unfold pu_r, pu0. now rewrite (re_of_coherent _ _ u (Hf u s0)), (sorted_of_coherent _ _ u (Hf u s0)). }
  assert (Hpi : forall u s0, pi_r u s0 = parse_units_int u s0).
  { intros u s0. unfold pi_r. rewrite (re_of_coherent _ _ u (Hi u s0)), (sorted_of_coherent _ _ u (Hi u s0)).
    apply parse_units_int_with_eq. }
  assert (Hsim : env_sim (env_r e) e).
  { repeat split; cbn; auto. intros t. now apply json_of_coherent. }
  destruct (ops_c_cong words (pu0 puw) pu_r pi_r Hpu Hpi f _ _ Hsim) as (A & B & _ & C & D).
  destruct k; cbn [run_r run]; f_equal; auto.
Qed.
End AnyState.
