(* Proofs/C17Object.v — C17 for Validate through map-based objects, references and scopes as well:
   a property's error comes back with the property name in front, an undeclared key is reported
   at the object, a violated presence rule at the property that declares it; references and scopes
   add no segment.  Together with the leaf / list / map steps of Proofs/C17.v: the path of
   Validate's error is the path to the single fault, for every nesting of those kinds. *)
From Coq Require Import Lia.
From Verif Require Import Base.Prelude Base.Str Base.Float Base.GoVal
  Schema.Regex Schema.Units Schema.Syntax Schema.Ops Proofs.C02Containers Proofs.C17.
Open Scope Z_scope.
Open Scope list_scope.

Ltac destruct_matches :=
  repeat match goal with |- context [match ?x with _ => _ end] => destruct x end.

(* ---------- presence rules ---------- *)
Lemma check_prop_rules_outcome set name p :
  check_prop_rules set name p = Ok tt \/ check_prop_rules set name p = Err (cerr_at [name] EPresence).
Proof. unfold check_prop_rules. destruct_matches; auto. Qed.

Lemma check_rules_single set ps1 name p ps2 :
  Forall (fun np => check_prop_rules set (fst np) (snd np) = Ok tt) ps1 ->
  check_prop_rules set name p <> Ok tt ->
  check_rules (ps1 ++ (name, p) :: ps2) set = Err (cerr_at [name] EPresence).
Proof.
  intros Hok Hbad. unfold check_rules. apply forM_first_err; [exact Hok|]. cbn [fst snd].
  destruct (check_prop_rules_outcome set name p) as [H|H]; [contradiction | exact H].
Qed.

(* ---------- map[string]any values ---------- *)
Lemma raw_to_val_entries r :
  is_str_any_map (raw_to_val r) = Some (map (fun kv => (vstr (fst kv), snd kv)) r).
Proof. reflexivity. Qed.

Lemma raw_of_entries_map r : raw_of_entries (map (fun kv => (vstr (fst kv), snd kv)) r) = r.
Proof.
  unfold raw_of_entries. induction r as [|[k v] t IH]; cbn [map flat_map fst snd vstr app]; [reflexivity|].
  f_equal. exact IH.
Qed.

Section WithTables.
Variable words : list (string * bool).
Variable pu : units -> string -> option fl.
Notation validate := (validate words pu).

Definition prop_ok f e (props : list (string * property)) (kv : string * gval) : Prop :=
  exists q, alookup (fst kv) props = Some q /\ validate f e (p_type q) (snd kv) = Ok tt.

Lemma validate_object_unfold f e id un props r :
  validate (S f) e (SObject id un props) (raw_to_val r) =
  (_ <- check_rules props (fun k => amem k r) ;;
   forM_ (fun kv => match alookup (fst kv) props with
                    | Some p => seg (fst kv) (validate f e (p_type p) (snd kv))
                    | None => Err (cerr EKey)
                    end) r).
Proof. cbn [Ops.validate]. rewrite raw_to_val_entries, raw_of_entries_map. reflexivity. Qed.

Lemma prop_ok_step f e props kv : prop_ok f e props kv ->
  match alookup (fst kv) props with
  | Some p => seg (fst kv) (validate f e (p_type p) (snd kv))
  | None => Err (cerr EKey)
  end = Ok tt.
Proof. intros (q & Hq & Hv). rewrite Hq, Hv. reflexivity. Qed.

Lemma prop_err_step f e (props : list (string * property)) name x p er :
  alookup name props = Some p -> validate f e (p_type p) x = Err er ->
  match alookup (fst (name, x)) props with
  | Some p0 => seg (fst (name, x)) (validate f e (p_type p0) (snd (name, x)))
  | None => Err (cerr EKey)
  end = Err (add_seg name er).
Proof. intros Hp Hx. cbn [fst snd]. rewrite Hp, Hx. reflexivity. Qed.

Lemma prop_key_step f e (props : list (string * property)) name x :
  alookup name props = None ->
  match alookup (fst (name, x)) props with
  | Some p0 => seg (fst (name, x)) (validate f e (p_type p0) (snd (name, x)))
  | None => Err (cerr EKey)
  end = Err (cerr EKey).
Proof. intros Hp. cbn [fst snd]. rewrite Hp. reflexivity. Qed.

Lemma validate_object_prop_error f e id un props r1 name x r2 p er :
  check_rules props (fun k => amem k (r1 ++ (name, x) :: r2)) = Ok tt ->
  Forall (prop_ok f e props) r1 ->
  alookup name props = Some p -> validate f e (p_type p) x = Err er ->
  validate (S f) e (SObject id un props) (raw_to_val (r1 ++ (name, x) :: r2)) = Err (add_seg name er).
Proof.
  intros Hr Hok Hp Hx. rewrite validate_object_unfold, Hr. cbn [bind].
  apply forM_first_err.
  - eapply Forall_impl; [|exact Hok]. intros kv H. apply prop_ok_step. exact H.
  - apply (prop_err_step f e props name x p er Hp Hx).
Qed.

Lemma validate_object_extra_key f e id un props r1 name x r2 :
  check_rules props (fun k => amem k (r1 ++ (name, x) :: r2)) = Ok tt ->
  Forall (prop_ok f e props) r1 ->
  alookup name props = None ->
  validate (S f) e (SObject id un props) (raw_to_val (r1 ++ (name, x) :: r2)) = Err (cerr EKey).
Proof.
  intros Hr Hok Hp. rewrite validate_object_unfold, Hr. cbn [bind].
  apply forM_first_err.
  - eapply Forall_impl; [|exact Hok]. intros kv H. apply prop_ok_step. exact H.
  - apply (prop_key_step f e props name x Hp).
Qed.

Lemma validate_object_rule f e id un ps1 name p ps2 r :
  Forall (fun np => check_prop_rules (fun k => amem k r) (fst np) (snd np) = Ok tt) ps1 ->
  check_prop_rules (fun k => amem k r) name p <> Ok tt ->
  validate (S f) e (SObject id un (ps1 ++ (name, p) :: ps2)) (raw_to_val r) = Err (cerr_at [name] EPresence).
Proof.
  intros Hok Hbad. rewrite validate_object_unfold, (check_rules_single _ ps1 name p ps2 Hok Hbad). reflexivity.
Qed.

(* ---------- a single fault under Validate, through every map-based kind but one-of ---------- *)
Inductive fault_vo : env -> nat -> schema -> gval -> list string -> Prop :=
| FO_leaf : forall e f s v, is_leaf s -> validate (S f) e s v <> Ok tt -> fault_vo e (S f) s v []
| FO_list_type : forall e f it mn mx v, (forall t nl l, v <> VSlice t nl l) -> fault_vo e (S f) (SList it mn mx) v []
| FO_list_size : forall e f it mn mx t nl l, size_ok mn mx (zlen l) = false -> fault_vo e (S f) (SList it mn mx) (VSlice t nl l) []
| FO_item : forall e f it mn mx t nl l1 x l2 p,
    size_ok mn mx (zlen (l1 ++ x :: l2)) = true ->
    Forall (fun y => validate f e it y = Ok tt) l1 ->
    fault_vo e f it x p ->
    fault_vo e (S f) (SList it mn mx) (VSlice t nl (l1 ++ x :: l2)) (idx_seg (zlen l1) :: p)
| FO_map_type : forall e f ks vs mn mx v, (forall t nl l, v <> VMap t nl l) -> fault_vo e (S f) (SMap ks vs mn mx) v []
| FO_map_size : forall e f ks vs mn mx t nl l, size_ok mn mx (zlen l) = false -> fault_vo e (S f) (SMap ks vs mn mx) (VMap t nl l) []
| FO_key : forall e f ks vs mn mx t nl kvs1 k x kvs2 p,
    size_ok mn mx (zlen (kvs1 ++ (k, x) :: kvs2)) = true ->
    Forall (ventry_ok words pu f e ks vs) kvs1 -> Forall (ventry_ok words pu f e ks vs) kvs2 ->
    fault_vo e f ks k p ->
    fault_vo e (S f) (SMap ks vs mn mx) (VMap t nl (kvs1 ++ (k, x) :: kvs2)) (mkey_seg k :: p)
| FO_value : forall e f ks vs mn mx t nl kvs1 k x kvs2 p,
    size_ok mn mx (zlen (kvs1 ++ (k, x) :: kvs2)) = true ->
    Forall (ventry_ok words pu f e ks vs) kvs1 -> Forall (ventry_ok words pu f e ks vs) kvs2 ->
    validate f e ks k = Ok tt ->
    fault_vo e f vs x p ->
    fault_vo e (S f) (SMap ks vs mn mx) (VMap t nl (kvs1 ++ (k, x) :: kvs2)) (mval_seg k :: p)
| FO_object_type : forall e f id un props v, is_str_any_map v = None -> fault_vo e (S f) (SObject id un props) v []
| FO_extra_key : forall e f id un props r1 name x r2,
    check_rules props (fun k => amem k (r1 ++ (name, x) :: r2)) = Ok tt ->
    Forall (prop_ok f e props) r1 -> Forall (prop_ok f e props) r2 ->
    alookup name props = None ->
    fault_vo e (S f) (SObject id un props) (raw_to_val (r1 ++ (name, x) :: r2)) []
| FO_rule : forall e f id un ps1 name p ps2 r,
    Forall (fun np => check_prop_rules (fun k => amem k r) (fst np) (snd np) = Ok tt) ps1 ->
    Forall (fun np => check_prop_rules (fun k => amem k r) (fst np) (snd np) = Ok tt) ps2 ->
    check_prop_rules (fun k => amem k r) name p <> Ok tt ->
    fault_vo e (S f) (SObject id un (ps1 ++ (name, p) :: ps2)) (raw_to_val r) [name]
| FO_prop : forall e f id un props r1 name x r2 p path,
    check_rules props (fun k => amem k (r1 ++ (name, x) :: r2)) = Ok tt ->
    Forall (prop_ok f e props) r1 -> Forall (prop_ok f e props) r2 ->
    alookup name props = Some p ->
    fault_vo e f (p_type p) x path ->
    fault_vo e (S f) (SObject id un props) (raw_to_val (r1 ++ (name, x) :: r2)) (name :: path)
| FO_ref : forall e f id ns d o e' v p,
    resolve e id ns = Some (o, e') -> fault_vo e' f o v p -> fault_vo e (S f) (SRef id ns d) v p
| FO_scope : forall e f objs root o v p,
    alookup root objs = Some o -> fault_vo (env_enter e objs) f o v p -> fault_vo e (S f) (SScope objs root) v p.

Theorem single_fault_path_validate_objects : forall e f s v p, fault_vo e f s v p ->
  exists c, validate f e s v = Err (mkErr true p c).
Proof.
  intros e f s v p H. induction H as
    [e f s v Hl Hno | e f it mn mx v Hno | e f it mn mx t nl l Hs
     | e f it mn mx t nl l1 x l2 p Hs Hok Hx IH
     | e f ks vs mn mx v Hno | e f ks vs mn mx t nl l Hs
     | e f ks vs mn mx t nl kvs1 k x kvs2 p Hs Hok1 Hok2 Hx IH
     | e f ks vs mn mx t nl kvs1 k x kvs2 p Hs Hok1 Hok2 Hk Hx IH
     | e f id un props v Hno
     | e f id un props r1 name x r2 Hr Hok1 Hok2 Hp
     | e f id un ps1 name p ps2 r Hok1 Hok2 Hbad
     | e f id un props r1 name x r2 p path Hr Hok1 Hok2 Hp Hx IH
     | e f id ns d o e' v p Hres Hx IH
     | e f objs root o v p Hroot Hx IH].
  - destruct (leaf_validate_outcome words pu s Hl f e v) as [Hn | (c & Hc)]; [exfalso; exact (Hno Hn) | exists c; exact Hc].
  - exists ERepr. cbn [Ops.validate].
    destruct v as [| t b | t z | t x | t s | t nl l | t nl l | t o | t fs | src | k d]; try reflexivity.
    exfalso. exact (Hno t nl l eq_refl).
  - exists EBound. cbn [Ops.validate]. rewrite Hs. reflexivity.
  - destruct IH as (c & IH). exists c.
    rewrite (validate_list_item_error words pu f e it mn mx t nl l1 x l2 _ Hs Hok IH). reflexivity.
  - exists ERepr. cbn [Ops.validate].
    destruct v as [| t b | t z | t x | t s | t nl l | t nl l | t o | t fs | src | k d]; try reflexivity.
    exfalso. exact (Hno t nl l eq_refl).
  - exists EBound. cbn [Ops.validate]. rewrite Hs. reflexivity.
  - destruct IH as (c & IH). exists c.
    rewrite (validate_map_key_error words pu f e ks vs mn mx t nl kvs1 k x kvs2 _ Hs Hok1 IH). reflexivity.
  - destruct IH as (c & IH). exists c.
    rewrite (validate_map_value_error words pu f e ks vs mn mx t nl kvs1 k x kvs2 _ Hs Hok1 Hk IH). reflexivity.
  - exists ERepr. cbn [Ops.validate]. rewrite Hno. reflexivity.
  - exists EKey. rewrite (validate_object_extra_key f e id un props r1 name x r2 Hr Hok1 Hp). reflexivity.
  - exists EPresence. rewrite (validate_object_rule f e id un ps1 name p ps2 r Hok1 Hbad). reflexivity.
  - destruct IH as (c & IH). exists c.
    rewrite (validate_object_prop_error f e id un props r1 name x r2 p _ Hr Hok1 Hp IH). reflexivity.
  - destruct IH as (c & IH). exists c. cbn [Ops.validate]. rewrite Hres. exact IH.
  - destruct IH as (c & IH). exists c. cbn [Ops.validate]. rewrite Hroot. exact IH.
Qed.

End WithTables.
