(* Proofs/C17.v — a rejection names the offending element.
   Leaf lemmas: every failure of a scalar / enum / pattern schema is a constraint error with the
   empty path.  Container lemmas: a list / map returns the FIRST failing child's error with exactly
   one more segment in front; with a single fault that child is the fault wherever it stands (any
   map iteration order).  Then, by induction on the position of the fault, the error path of
   Unserialize and of Validate is the path to the fault. *)
From Coq Require Import Lia Permutation.
From Verif Require Import Base.Prelude Base.Str Base.Float Base.GoVal
  Schema.Regex Schema.Units Schema.Syntax Schema.Ops Proofs.C02Containers.
Open Scope Z_scope.

Definition is_leaf (s : schema) : Prop :=
  match s with
  | SInt _ _ _ | SFloat _ _ _ | SString _ _ _ | SBool | SPattern | SEnumInt _ _ | SEnumStr _ _ => True
  | _ => False
  end.

Lemma add_seg_constraint sg p c : add_seg sg (mkErr true p c) = mkErr true (sg :: p) c.
Proof. reflexivity. Qed.

(* ---------- first failing child ---------- *)
Lemma zlen_cons {A} (a : A) l : zlen (a :: l) = zlen l + 1.
Proof. unfold zlen. cbn [List.length]. lia. Qed.

Lemma mapMi_first_err {A B} (h : A -> outcome B) (sg : Z -> string) x er l2 : forall l1 i,
  Forall (fun y => exists n, h y = Ok n) l1 -> h x = Err er ->
  mapMi (fun i y => seg (sg i) (h y)) i (l1 ++ x :: l2) = Err (add_seg (sg (i + zlen l1)) er).
Proof.
  induction l1 as [|a l1 IH]; intros i Hok Hx; cbn [app mapMi].
  - rewrite Hx. cbn. rewrite Z.add_0_r. reflexivity.
  - inversion Hok as [|a' l' (n & Ha) Hrest]; subst. rewrite Ha. cbn [seg map_err bind].
    rewrite (IH (i + 1) Hrest Hx). cbn [bind]. rewrite zlen_cons.
    replace (i + 1 + zlen l1) with (i + (zlen l1 + 1)) by lia. reflexivity.
Qed.

Lemma forM_first_err {A} (g : A -> outcome unit) x er l2 : forall l1,
  Forall (fun y => g y = Ok tt) l1 -> g x = Err er -> forM_ g (l1 ++ x :: l2) = Err er.
Proof.
  induction l1 as [|a l1 IH]; intros Hok Hx; cbn [app forM_].
  - rewrite Hx. reflexivity.
  - inversion Hok; subst. rewrite H1. cbn [bind]. apply IH; assumption.
Qed.

Lemma map_fold_err hk hv sk sv l : forall er, fold_left (map_step hk hv sk sv) l (Err er) = Err er.
Proof. induction l as [|kv t IH]; intro er; cbn [fold_left]; [reflexivity | apply IH]. Qed.

Definition entry_ok (hk hv : gval -> outcome gval) (kv : gval * gval) : Prop :=
  (exists k', hk (fst kv) = Ok k') /\ (exists v', hv (snd kv) = Ok v').

Lemma map_fold_first_err hk hv sk sv k x er kvs2 : forall kvs1 acc,
  Forall (entry_ok hk hv) kvs1 ->
  (hk k = Err er /\ True \/ (exists k', hk k = Ok k') /\ hv x = Err er) ->
  fold_left (map_step hk hv sk sv) (kvs1 ++ (k, x) :: kvs2) (Ok acc) =
  Err (add_seg (match hk k with Err _ => sk k | _ => sv k end) er).
Proof.
  induction kvs1 as [|[k0 v0] t IH]; intros acc Hok Hx; cbn [app fold_left].
  - unfold map_step at 2. cbn [bind fst snd].
    destruct Hx as [[Hk _] | [(k' & Hk) Hv]]; rewrite Hk; cbn [seg map_err bind].
    + apply map_fold_err.
    + rewrite Hv. cbn [seg map_err bind]. apply map_fold_err.
  - inversion Hok as [|kv l [(k' & Hk) (v' & Hv)] Hrest]; subst. cbn [fst snd] in *.
    assert (E : map_step hk hv sk sv (Ok acc) (k0, v0) = Ok (map_set k' v' acc)).
    { apply map_step_ok. exists k', v'. tauto. }
    rewrite E. apply IH; assumption.
Qed.

Section WithTables.
Variable words : list (string * bool).
Variable pu : units -> string -> option fl.

Notation unser := (unser words pu).
Notation validate := (validate words pu).

(* ---------- leaves ---------- *)
Ltac destruct_matches :=
  repeat match goal with |- context [match ?x with _ => _ end] => destruct x end.

Lemma leaf_unser_outcome s : is_leaf s -> forall f e v,
  (exists n, unser (S f) e s v = Ok n) \/ (exists c, unser (S f) e s v = Err (cerr c)).
Proof.
  intros Hl f e v. destruct s; cbn [is_leaf] in Hl; try contradiction; cbn [Ops.unser];
    unfold int_unser, int_bounds, float_unser, float_bounds, string_unser, string_check, bool_unser,
      pattern_unser, enum_int_unser, enum_str_unser; cbv zeta;
    destruct_matches; ((left; eexists; reflexivity) || (right; eexists; reflexivity)).
Qed.

Lemma leaf_validate_outcome s : is_leaf s -> forall f e v,
  validate (S f) e s v = Ok tt \/ (exists c, validate (S f) e s v = Err (cerr c)).
Proof.
  intros Hl f e v. destruct s; cbn [is_leaf] in Hl; try contradiction; cbn [Ops.validate];
    unfold int_ser, int_bounds, float_ser, float_bounds, string_ser, string_check, bool_ser,
      pattern_validate, enum_int_ser, enum_str_ser; cbv zeta;
    destruct_matches; cbn [bind]; ((left; reflexivity) || (right; eexists; reflexivity)).
Qed.

(* ---------- containers: one more segment in front ---------- *)
Lemma unser_list_item_error f e it mn mx t nl l1 x l2 er :
  size_ok mn mx (zlen (l1 ++ x :: l2)) = true ->
  Forall (fun y => exists n, unser f e it y = Ok n) l1 ->
  unser f e it x = Err er ->
  unser (S f) e (SList it mn mx) (VSlice t nl (l1 ++ x :: l2)) = Err (add_seg (idx_seg (zlen l1)) er).
Proof.
  intros Hs Hok Hx. cbn [Ops.unser]. rewrite Hs.
  rewrite (mapMi_first_err (unser f e it) idx_seg x er l2 l1 0 Hok Hx). reflexivity.
Qed.

Lemma validate_list_item_error f e it mn mx t nl l1 x l2 er :
  size_ok mn mx (zlen (l1 ++ x :: l2)) = true ->
  Forall (fun y => validate f e it y = Ok tt) l1 ->
  validate f e it x = Err er ->
  validate (S f) e (SList it mn mx) (VSlice t nl (l1 ++ x :: l2)) = Err (add_seg (idx_seg (zlen l1)) er).
Proof.
  intros Hs Hok Hx. cbn [Ops.validate]. rewrite Hs.
  assert (Hok' : Forall (fun y => exists n, validate f e it y = Ok n) l1).
  { eapply Forall_impl; [|exact Hok]. cbn. intros a Ha. exists tt. exact Ha. }
  rewrite (mapMi_first_err (validate f e it) idx_seg x er l2 l1 0 Hok' Hx). reflexivity.
Qed.

Lemma unser_map_key_error f e ks vs mn mx t nl kvs1 k x kvs2 er :
  size_ok mn mx (zlen (kvs1 ++ (k, x) :: kvs2)) = true ->
  Forall (entry_ok (unser f e ks) (unser f e vs)) kvs1 ->
  unser f e ks k = Err er ->
  unser (S f) e (SMap ks vs mn mx) (VMap t nl (kvs1 ++ (k, x) :: kvs2)) = Err (add_seg (mkey_seg k) er).
Proof.
  intros Hs Hok Hk. cbn [Ops.unser]. rewrite Hs. rewrite unser_map_fold.
  rewrite (map_fold_first_err (unser f e ks) (unser f e vs) mkey_seg mval_seg k x er kvs2 kvs1 [] Hok);
    [| left; split; [exact Hk | exact I]].
  rewrite Hk. reflexivity.
Qed.

Lemma unser_map_value_error f e ks vs mn mx t nl kvs1 k x kvs2 er :
  size_ok mn mx (zlen (kvs1 ++ (k, x) :: kvs2)) = true ->
  Forall (entry_ok (unser f e ks) (unser f e vs)) kvs1 ->
  (exists k', unser f e ks k = Ok k') -> unser f e vs x = Err er ->
  unser (S f) e (SMap ks vs mn mx) (VMap t nl (kvs1 ++ (k, x) :: kvs2)) = Err (add_seg (mval_seg k) er).
Proof.
  intros Hs Hok Hk Hv. cbn [Ops.unser]. rewrite Hs. rewrite unser_map_fold.
  rewrite (map_fold_first_err (unser f e ks) (unser f e vs) mkey_seg mval_seg k x er kvs2 kvs1 [] Hok);
    [| right; split; [exact Hk | exact Hv]].
  destruct Hk as (k' & Hk). rewrite Hk. reflexivity.
Qed.

Definition ventry_ok f e ks vs (kv : gval * gval) : Prop :=
  validate f e ks (fst kv) = Ok tt /\ validate f e vs (snd kv) = Ok tt.

Lemma validate_entry_ok f e ks vs kv : ventry_ok f e ks vs kv ->
  (_ <- seg (mkey_seg (fst kv)) (validate f e ks (fst kv)) ;; seg (mval_seg (fst kv)) (validate f e vs (snd kv))) = Ok tt.
Proof. intros [H1 H2]. rewrite H1, H2. reflexivity. Qed.

Lemma validate_map_key_error f e ks vs mn mx t nl kvs1 k x kvs2 er :
  size_ok mn mx (zlen (kvs1 ++ (k, x) :: kvs2)) = true ->
  Forall (ventry_ok f e ks vs) kvs1 ->
  validate f e ks k = Err er ->
  validate (S f) e (SMap ks vs mn mx) (VMap t nl (kvs1 ++ (k, x) :: kvs2)) = Err (add_seg (mkey_seg k) er).
Proof.
  intros Hs Hok Hk. cbn [Ops.validate]. rewrite Hs.
  apply forM_first_err.
  - eapply Forall_impl; [|exact Hok]. intros kv H. apply validate_entry_ok. exact H.
  - cbn [fst snd]. rewrite Hk. reflexivity.
Qed.

Lemma validate_map_value_error f e ks vs mn mx t nl kvs1 k x kvs2 er :
  size_ok mn mx (zlen (kvs1 ++ (k, x) :: kvs2)) = true ->
  Forall (ventry_ok f e ks vs) kvs1 ->
  validate f e ks k = Ok tt -> validate f e vs x = Err er ->
  validate (S f) e (SMap ks vs mn mx) (VMap t nl (kvs1 ++ (k, x) :: kvs2)) = Err (add_seg (mval_seg k) er).
Proof.
  intros Hs Hok Hk Hv. cbn [Ops.validate]. rewrite Hs.
  apply forM_first_err.
  - eapply Forall_impl; [|exact Hok]. intros kv H. apply validate_entry_ok. exact H.
  - cbn [fst snd]. rewrite Hk, Hv. reflexivity.
Qed.

(* ---------- a single fault, placed at a position ---------- *)

(* [fault_u e f s v p]: under schema s (fuel f), the value v is acceptable everywhere except for ONE
   offending element, reached from the root through the segments p: a leaf that the leaf's schema
   rejects, a container of the wrong type or size, or - recursively - the faulty item of a list
   whose earlier items are accepted / the faulty key or value of a map all of whose OTHER entries
   are accepted (so the entry may stand anywhere: every iteration order of the Go map is covered). *)
Inductive fault_u (e : env) : nat -> schema -> gval -> list string -> Prop :=
| FU_leaf : forall f s v, is_leaf s -> (forall n, unser (S f) e s v <> Ok n) -> fault_u e (S f) s v []
| FU_list_type : forall f it mn mx v, (forall t nl l, v <> VSlice t nl l) -> fault_u e (S f) (SList it mn mx) v []
| FU_list_size : forall f it mn mx t nl l, size_ok mn mx (zlen l) = false -> fault_u e (S f) (SList it mn mx) (VSlice t nl l) []
| FU_item : forall f it mn mx t nl l1 x l2 p,
    size_ok mn mx (zlen (l1 ++ x :: l2)) = true ->
    Forall (fun y => exists n, unser f e it y = Ok n) l1 ->
    fault_u e f it x p ->
    fault_u e (S f) (SList it mn mx) (VSlice t nl (l1 ++ x :: l2)) (idx_seg (zlen l1) :: p)
| FU_map_type : forall f ks vs mn mx v, (forall t nl l, v <> VMap t nl l) -> fault_u e (S f) (SMap ks vs mn mx) v []
| FU_map_size : forall f ks vs mn mx t nl l, size_ok mn mx (zlen l) = false -> fault_u e (S f) (SMap ks vs mn mx) (VMap t nl l) []
| FU_key : forall f ks vs mn mx t nl kvs1 k x kvs2 p,
    size_ok mn mx (zlen (kvs1 ++ (k, x) :: kvs2)) = true ->
    Forall (entry_ok (unser f e ks) (unser f e vs)) kvs1 -> Forall (entry_ok (unser f e ks) (unser f e vs)) kvs2 ->
    fault_u e f ks k p ->
    fault_u e (S f) (SMap ks vs mn mx) (VMap t nl (kvs1 ++ (k, x) :: kvs2)) (mkey_seg k :: p)
| FU_value : forall f ks vs mn mx t nl kvs1 k x kvs2 p,
    size_ok mn mx (zlen (kvs1 ++ (k, x) :: kvs2)) = true ->
    Forall (entry_ok (unser f e ks) (unser f e vs)) kvs1 -> Forall (entry_ok (unser f e ks) (unser f e vs)) kvs2 ->
    (exists k', unser f e ks k = Ok k') ->
    fault_u e f vs x p ->
    fault_u e (S f) (SMap ks vs mn mx) (VMap t nl (kvs1 ++ (k, x) :: kvs2)) (mval_seg k :: p).

Theorem single_fault_path_unser : forall e f s v p, fault_u e f s v p ->
  exists c, unser f e s v = Err (mkErr true p c).
Proof.
  intros e f s v p H. induction H as
    [f s v Hl Hno | f it mn mx v Hno | f it mn mx t nl l Hs
     | f it mn mx t nl l1 x l2 p Hs Hok Hx IH
     | f ks vs mn mx v Hno | f ks vs mn mx t nl l Hs
     | f ks vs mn mx t nl kvs1 k x kvs2 p Hs Hok1 Hok2 Hx IH
     | f ks vs mn mx t nl kvs1 k x kvs2 p Hs Hok1 Hok2 Hk Hx IH].
  - destruct (leaf_unser_outcome s Hl f e v) as [(n & Hn) | (c & Hc)]; [exfalso; exact (Hno n Hn) | exists c; exact Hc].
  - exists ERepr. cbn [Ops.unser].
    destruct v as [| t b | t z | t x | t s | t nl l | t nl l | t o | t fs | src | k d]; try reflexivity.
    exfalso. exact (Hno t nl l eq_refl).
  - exists EBound. cbn [Ops.unser]. rewrite Hs. reflexivity.
  - destruct IH as (c & IH). exists c.
    rewrite (unser_list_item_error f e it mn mx t nl l1 x l2 _ Hs Hok IH). reflexivity.
  - exists ERepr. cbn [Ops.unser].
    destruct v as [| t b | t z | t x | t s | t nl l | t nl l | t o | t fs | src | k d]; try reflexivity.
    exfalso. exact (Hno t nl l eq_refl).
  - exists EBound. cbn [Ops.unser]. rewrite Hs. reflexivity.
  - destruct IH as (c & IH). exists c.
    rewrite (unser_map_key_error f e ks vs mn mx t nl kvs1 k x kvs2 _ Hs Hok1 IH). reflexivity.
  - destruct IH as (c & IH). exists c.
    rewrite (unser_map_value_error f e ks vs mn mx t nl kvs1 k x kvs2 _ Hs Hok1 Hk IH). reflexivity.
Qed.

(* the same entries in any other order: the error is the same *)
Lemma perm_split_entry {A} (P : A -> Prop) (a : A) l1 l2 l' :
  Permutation (l1 ++ a :: l2) l' -> Forall P l1 -> Forall P l2 ->
  exists m1 m2 : list A, l' = (m1 ++ a :: m2)%list /\ Forall P m1 /\ Forall P m2.
Proof.
  intros Hp H1 H2.
  assert (Hin : In a l') by (eapply Permutation_in; [exact Hp | apply in_or_app; right; left; reflexivity]).
  apply in_split in Hin. destruct Hin as (m1 & m2 & ->).
  apply Permutation_app_inv in Hp.
  assert (HF : Forall P (m1 ++ m2)).
  { apply Forall_forall. intros y Hy. apply Permutation_sym in Hp.
    assert (Hy' : In y (l1 ++ l2)) by (eapply Permutation_in; [exact Hp | exact Hy]). apply in_app_or in Hy'.
    destruct Hy' as [Hy' | Hy']; [exact (proj1 (Forall_forall P l1) H1 y Hy') | exact (proj1 (Forall_forall P l2) H2 y Hy')]. }
  exists m1, m2. split; [reflexivity|]. split.
  - apply Forall_forall. intros y Hy. exact (proj1 (Forall_forall P _) HF y (in_or_app _ _ _ (or_introl Hy))).
  - apply Forall_forall. intros y Hy. exact (proj1 (Forall_forall P _) HF y (in_or_app _ _ _ (or_intror Hy))).
Qed.

Lemma zlen_perm {A} (l l' : list A) : Permutation l l' -> zlen l = zlen l'.
Proof. intro H. unfold zlen. f_equal. apply Permutation_length. exact H. Qed.

Theorem map_order_irrelevant_unser : forall e f ks vs mn mx t nl kvs1 k x kvs2 kvs' er,
  size_ok mn mx (zlen (kvs1 ++ (k, x) :: kvs2)) = true ->
  Forall (entry_ok (unser f e ks) (unser f e vs)) kvs1 -> Forall (entry_ok (unser f e ks) (unser f e vs)) kvs2 ->
  (unser f e ks k = Err er \/ (exists k', unser f e ks k = Ok k') /\ unser f e vs x = Err er) ->
  Permutation (kvs1 ++ (k, x) :: kvs2) kvs' ->
  unser (S f) e (SMap ks vs mn mx) (VMap t nl kvs') =
  unser (S f) e (SMap ks vs mn mx) (VMap t nl (kvs1 ++ (k, x) :: kvs2)).
Proof.
  intros e f ks vs mn mx t nl kvs1 k x kvs2 kvs' er Hs H1 H2 Hx Hp.
  destruct (perm_split_entry _ (k, x) kvs1 kvs2 kvs' Hp H1 H2) as (m1 & m2 & -> & M1 & M2).
  assert (Hs' : size_ok mn mx (zlen (m1 ++ (k, x) :: m2)) = true) by (rewrite <- (zlen_perm _ _ Hp); exact Hs).
  destruct Hx as [Hk | [Hk Hv]].
  - rewrite (unser_map_key_error f e ks vs mn mx t nl m1 k x m2 er Hs' M1 Hk).
    rewrite (unser_map_key_error f e ks vs mn mx t nl kvs1 k x kvs2 er Hs H1 Hk). reflexivity.
  - rewrite (unser_map_value_error f e ks vs mn mx t nl m1 k x m2 er Hs' M1 Hk Hv).
    rewrite (unser_map_value_error f e ks vs mn mx t nl kvs1 k x kvs2 er Hs H1 Hk Hv). reflexivity.
Qed.

(* ---------- Validate ---------- *)
Inductive fault_v (e : env) : nat -> schema -> gval -> list string -> Prop :=
| FV_leaf : forall f s v, is_leaf s -> validate (S f) e s v <> Ok tt -> fault_v e (S f) s v []
| FV_list_type : forall f it mn mx v, (forall t nl l, v <> VSlice t nl l) -> fault_v e (S f) (SList it mn mx) v []
| FV_list_size : forall f it mn mx t nl l, size_ok mn mx (zlen l) = false -> fault_v e (S f) (SList it mn mx) (VSlice t nl l) []
| FV_item : forall f it mn mx t nl l1 x l2 p,
    size_ok mn mx (zlen (l1 ++ x :: l2)) = true ->
    Forall (fun y => validate f e it y = Ok tt) l1 ->
    fault_v e f it x p ->
    fault_v e (S f) (SList it mn mx) (VSlice t nl (l1 ++ x :: l2)) (idx_seg (zlen l1) :: p)
| FV_map_type : forall f ks vs mn mx v, (forall t nl l, v <> VMap t nl l) -> fault_v e (S f) (SMap ks vs mn mx) v []
| FV_map_size : forall f ks vs mn mx t nl l, size_ok mn mx (zlen l) = false -> fault_v e (S f) (SMap ks vs mn mx) (VMap t nl l) []
| FV_key : forall f ks vs mn mx t nl kvs1 k x kvs2 p,
    size_ok mn mx (zlen (kvs1 ++ (k, x) :: kvs2)) = true ->
    Forall (ventry_ok f e ks vs) kvs1 -> Forall (ventry_ok f e ks vs) kvs2 ->
    fault_v e f ks k p ->
    fault_v e (S f) (SMap ks vs mn mx) (VMap t nl (kvs1 ++ (k, x) :: kvs2)) (mkey_seg k :: p)
| FV_value : forall f ks vs mn mx t nl kvs1 k x kvs2 p,
    size_ok mn mx (zlen (kvs1 ++ (k, x) :: kvs2)) = true ->
    Forall (ventry_ok f e ks vs) kvs1 -> Forall (ventry_ok f e ks vs) kvs2 ->
    validate f e ks k = Ok tt ->
    fault_v e f vs x p ->
    fault_v e (S f) (SMap ks vs mn mx) (VMap t nl (kvs1 ++ (k, x) :: kvs2)) (mval_seg k :: p).

Theorem single_fault_path_validate : forall e f s v p, fault_v e f s v p ->
  exists c, validate f e s v = Err (mkErr true p c).
Proof.
  intros e f s v p H. induction H as
    [f s v Hl Hno | f it mn mx v Hno | f it mn mx t nl l Hs
     | f it mn mx t nl l1 x l2 p Hs Hok Hx IH
     | f ks vs mn mx v Hno | f ks vs mn mx t nl l Hs
     | f ks vs mn mx t nl kvs1 k x kvs2 p Hs Hok1 Hok2 Hx IH
     | f ks vs mn mx t nl kvs1 k x kvs2 p Hs Hok1 Hok2 Hk Hx IH].
  - destruct (leaf_validate_outcome s Hl f e v) as [Hn | (c & Hc)]; [exfalso; exact (Hno Hn) | exists c; exact Hc].
  - exists ERepr. cbn [Ops.validate].
    destruct v as [| t b | t z | t x | t s | t nl l | t nl l | t o | t fs | src | k d]; try reflexivity.
    exfalso. exact (Hno t nl l eq_refl).
  - exists EBound. cbn [Ops.validate]. rewrite Hs. reflexivity.
  - destruct IH as (c & IH). exists c.
    rewrite (validate_list_item_error f e it mn mx t nl l1 x l2 _ Hs Hok IH). reflexivity.
  - exists ERepr. cbn [Ops.validate].
    destruct v as [| t b | t z | t x | t s | t nl l | t nl l | t o | t fs | src | k d]; try reflexivity.
    exfalso. exact (Hno t nl l eq_refl).
  - exists EBound. cbn [Ops.validate]. rewrite Hs. reflexivity.
  - destruct IH as (c & IH). exists c.
    rewrite (validate_map_key_error f e ks vs mn mx t nl kvs1 k x kvs2 _ Hs Hok1 IH). reflexivity.
  - destruct IH as (c & IH). exists c.
    rewrite (validate_map_value_error f e ks vs mn mx t nl kvs1 k x kvs2 _ Hs Hok1 Hk IH). reflexivity.
Qed.

End WithTables.
