(* Proofs/XOpsEq.v — one-step unfolding equations of the five mutually recursive operations of
   Schema/XOps.v, stated with the FOLDED constants (the analogue of Proofs/OpsEq.v).  GENERATED from
   Schema/XOps.v by copying each body (gen: the builder's gen_xopseq.py); every equation is proved by
   reflexivity, so a divergence from XOps.v cannot go unnoticed. *)
From Verif Require Import Base.Prelude Base.Str Base.Float Base.GoVal Base.XReflect
  Schema.Regex Schema.Units Schema.Syntax Schema.Ops Schema.XSyntax Schema.XOps.
Open Scope string_scope.
Open Scope Z_scope.

Section XOpsEq.
Variable words : list (string * bool).
Variable pu : units -> string -> option fl.
Notation xunser := (xunser words pu).
Notation xvalidate := (xvalidate words pu).
Notation xserialize := (xserialize words pu).
Notation xcompat := (xcompat words pu).
Notation xoneof_find := (xoneof_find words pu).

Lemma xunser_S (f : nat) (e : xenv) (s : xschema) (v : gval) :
  xunser (S f) e s v =
    match s with
    | XInt mn mx u => int_unser mn mx u v
    | XFloat mn mx u => float_unser pu mn mx u v
    | XString mn mx pat => string_unser mn mx pat v
    | XBool => bool_unser words v
    | XPattern => pattern_unser (xe_or e) v
    | XAny => any_conv f v
    | XEnumInt vals u => enum_int_unser vals u v
    | XEnumStr named vals => enum_str_unser named vals v
    | XList it mn mx =>
        match v with
        | VSlice _ _ l =>
            if size_ok mn mx (zlen l) then
              ys <- mapMi (fun i x => seg (idx_seg i) (xunser f e it x)) 0 l ;;
              Ok (VSlice (TSlice (xrtype e it)) false ys)
            else Err (cerr EBound)
        | _ => Err (cerr ERepr)
        end
    | XMap ks vs mn mx =>
        match v with
        | VMap _ _ kvs =>
            if size_ok mn mx (zlen kvs) then
              r <- fold_left (fun acc kv =>
                     a <- acc ;;
                     k' <- seg (mkey_seg (fst kv)) (xunser f e ks (fst kv)) ;;
                     v' <- seg (mval_seg (fst kv)) (xunser f e vs (snd kv)) ;;
                     Ok (map_set k' v' a)) kvs (Ok []) ;;
              Ok (VMap (TMap (xrtype e ks) (xrtype e vs)) false r)
            else Err (cerr EBound)
        | _ => Err (cerr ERepr)
        end
    | XObject id _ props mapped =>
        match v with
        | VMap _ _ kvs =>
            r0 <- fold_left (fun acc kv =>
                    a <- acc ;;
                    match fst kv with
                    | VStr TStr k => if amem k props then Ok (a ++ [(k, snd kv)])%list else Err (cerr EKey)
                    | _ => Err (cerr EKey)
                    end) kvs (Ok []) ;;
            let r1 := fold_left (fun a np =>
                        if amem (fst np) a then a
                        else match p_default (snd np) with
                             | Some txt => match xdecode_default (xe_or e) (snd np) txt with
                                           | Some d => (a ++ [(fst np, d)])%list
                                           | None => a
                                           end
                             | None => a
                             end) props r0 in
            (* struct-mapped only: sub-object default propagation for the properties that were not supplied *)
            r1' <- match mapped with
                   | None => Ok r1
                   | Some _ => fold_left (fun acc np =>
                                 a <- acc ;;
                                 if amem (fst np) r0 then Ok a else xsub_defaults f e (fst np) (snd np) a) props (Ok r1)
                   end ;;
            r2 <- fold_left (fun acc np =>
                    a <- acc ;;
                    match alookup (fst np) a with
                    | Some d =>
                        x <- seg (fst np)
                               (if p_disabled (snd np) then Err (cerr EDisabled)
                                else xunser f e (p_type (snd np)) d) ;;
                        Ok (raw_set (fst np) x a)
                    | None => Ok a
                    end) props (Ok r1') ;;
            _ <- xcheck_rules props (fun k => amem k r2) ;;
            match mapped with
            | None => Ok (raw_to_val r2)
            | Some si => xto_struct e si r2
            end
        | _ =>
            match props with
            | [(name, p)] =>
                x <- seg name (if p_disabled p then Err (cerr EDisabled) else xunser f e (p_type p) v) ;;
                _ <- xcheck_rules props (fun k => String.eqb k name) ;;
                match mapped with
                | None => Ok (raw_to_val [(name, x)])
                | Some si => xto_struct e si [(name, x)]
                end
            | _ => Err (cerr ERepr)
            end
        end
    | XOneOf types ik field inlined =>
        match v with
        | VNil => Err (cerr ERepr)                  (* D66 (repaired): a constraint error, as in Ops.unser *)
        | VMap _ _ kvs =>
            if forallb (fun kv => match fst kv with VStr TStr _ => true | _ => false end) kvs then
              match smap_get field kvs with
              | None => Err (cerr EKey)
              | Some d =>
                  match (if ik then option_map KI (int_mapper None d) else option_map KS (string_mapper d)) with
                  | None => Err (cerr ERepr)
                  | Some key =>
                      match find (fun ks => okey_eqb (fst ks) key) types with
                      | None => Err (cerr EKey)
                      | Some (_, member) =>
                          let clone := if inlined then kvs else smap_del field kvs in
                          x <- xunser f e member (VMap t_str_map false clone) ;;
                          match is_str_any_map x with
                          | Some xs =>
                              if inlined then Ok x
                              else Ok (VMap t_str_map false
                                         (map_set (vstr field) (match key with KI z => vi64 z | KS s0 => vstr s0 end) xs))
                          | None => Ok x
                          end
                      end
                  end
              end
            else Err (cerr EKey)
        | _ => Err (cerr ERepr)
        end
    | XRef id ns _ =>
        match xresolve e id ns with
        | Some (o, e') => xunser f e' o v
        | None => Panic "unlinked reference"
        end
    | XScope objs root =>
        match alookup root objs with
        | Some o => xunser f (xenv_enter e objs) o v
        | None => Panic "root object not found"
        end
    end.
Proof. reflexivity. Qed.

Lemma xvalidate_S (f : nat) (e : xenv) (s : xschema) (v : gval) :
  xvalidate (S f) e s v =
    match s with
    | XInt mn mx _ => _ <- int_ser mn mx v ;; Ok tt
    | XFloat mn mx _ => _ <- float_ser mn mx v ;; Ok tt
    | XString mn mx pat => _ <- string_ser mn mx pat v ;; Ok tt
    | XBool => _ <- bool_ser v ;; Ok tt
    | XPattern => _ <- pattern_validate v ;; Ok tt
    | XAny => _ <- any_conv f v ;; Ok tt
    | XEnumInt vals _ => _ <- enum_int_ser vals v ;; Ok tt
    | XEnumStr _ vals => _ <- enum_str_ser vals v ;; Ok tt
    | XList it mn mx =>
        match v with
        | VSlice _ _ l =>
            if size_ok mn mx (zlen l) then
              _ <- mapMi (fun i x => seg (idx_seg i) (xvalidate f e it x)) 0 l ;; Ok tt
            else Err (cerr EBound)
        | _ => Err (cerr ERepr)
        end
    | XMap ks vs mn mx =>
        match v with
        | VMap _ _ kvs =>
            if size_ok mn mx (zlen kvs) then
              forM_ (fun kv => _ <- seg (mkey_seg (fst kv)) (xvalidate f e ks (fst kv)) ;;
                               seg (mval_seg (fst kv)) (xvalidate f e vs (snd kv))) kvs
            else Err (cerr EBound)
        | _ => Err (cerr ERepr)
        end
    | XObject id _ props None =>
        match is_str_any_map v with
        | Some kvs =>
            let r := raw_of_entries kvs in
            _ <- xcheck_rules props (fun k => amem k r) ;;
            forM_ (fun kv => match alookup (fst kv) props with
                             | Some p => seg (fst kv) (xvalidate f e (p_type p) (snd kv))
                             | None => Err (cerr EKey)
                             end) r
        | None => Err (cerr ERepr)
        end
    | XObject id _ props (Some si) =>
        (* validateStruct *)
        match xstruct_arg si v with
        | None => Err (cerr ERepr)
        | Some sv =>
            r <- fold_left (fun acc np =>
                   a <- acc ;;
                   match alookup (fst np) (si_fields si) with
                   | None => Panic "property without a struct field"
                   | Some fr =>
                       let prt := xrtype e (p_type (snd np)) in
                       match xextract (is_ptr_type prt) fr sv with
                       | None => Ok a
                       | Some (value, vt) =>
                           if p_empty_is_default (snd np) && xis_empty (xe_structs e) prt vt value then Ok a
                           else _ <- seg (fst np) (xvalidate f e (p_type (snd np)) value) ;;
                                Ok (a ++ [(fst np, value)])%list
                       end
                   end) props (Ok []) ;;
            xcheck_rules props (fun k => amem k r)
        end
    | XOneOf types ik field inlined =>
        km <- xoneof_find f e types ik field inlined v ;;
        let '(key, member, data') := km in
        seg (oneof_seg key) (xvalidate f e member data')
    | XRef id ns _ =>
        match xresolve e id ns with
        | Some (o, e') => xvalidate f e' o v
        | None => Panic "unlinked reference"
        end
    | XScope objs root =>
        match alookup root objs with
        | Some o => xvalidate f (xenv_enter e objs) o v
        | None => Panic "root object not found"
        end
    end.
Proof. reflexivity. Qed.

Lemma xoneof_find_S (f : nat) (e : xenv) (types : list (okey * xschema)) (ik : bool) (field : string) (inlined : bool) (v : gval) :
  xoneof_find (S f) e types ik field inlined v =
    match v with
    | VNil => Err (cerr ERepr)
    | _ =>
      match kind_of v with
      | KMap =>
          match is_str_any_map v with
          | None => Err (cerr ERepr)
          | Some kvs =>
              match smap_get field kvs with
              | None | Some VNil => Err (cerr EKey)
              | Some d =>
                  match (if ik then match d with VInt (TInt I64) z => Some (KI z) | _ => None end
                         else match d with VStr TStr s0 => Some (KS s0) | _ => None end) with
                  | None => Err (cerr ERepr)
                  | Some key =>
                      match find (fun ks => okey_eqb (fst ks) key) types with
                      | None => Err (cerr EKey)
                      | Some (_, member) =>
                          let clone := VMap t_str_map false (if inlined then kvs else smap_del field kvs) in
                          _ <- rewrap_path (xcompat f e member clone) ;;      (* D67 (repaired), as Ops.oneof_find *)
                          Ok (key, member, clone)
                      end
                  end
              end
          end
      | KStruct | KPtr =>
          (* findUnderlyingType: the member whose reflected type is the value's type (member types distinct) *)
          match type_of v with
          | Some tv =>
              match find (fun ks => match xstruct_rtype e (snd ks) with
                                    | Some t => gtype_eqb t tv | None => false end) types with
              | Some (key, member) => Ok (key, member, v)
              | None => Err (cerr ERepr)
              end
          | None => Err (cerr ERepr)
          end
      | _ => Err (cerr ERepr)
      end
    end.
Proof. reflexivity. Qed.

Lemma xserialize_S (f : nat) (e : xenv) (s : xschema) (v : gval) :
  xserialize (S f) e s v =
    match s with
    | XInt mn mx _ => int_ser mn mx v
    | XFloat mn mx _ => float_ser mn mx v
    | XString mn mx pat => string_ser mn mx pat v
    | XBool => bool_ser v
    | XPattern => pattern_ser v
    | XAny => any_conv f v
    | XEnumInt vals _ => enum_int_ser vals v
    | XEnumStr _ vals => enum_str_ser vals v
    | XList it mn mx =>
        _ <- xvalidate f e s v ;;
        match v with
        | VSlice _ _ l =>
            ys <- mapMi (fun i x => seg (idx_seg i) (xserialize f e it x)) 0 l ;;
            Ok (VSlice t_any_slice false ys)
        | _ => Err (cerr ERepr)
        end
    | XMap ks vs mn mx =>
        _ <- xvalidate f e s v ;;
        match v with
        | VMap _ _ kvs =>
            r <- fold_left (fun acc kv =>
                   a <- acc ;;
                   k' <- seg (mkey_seg (fst kv)) (xserialize f e ks (fst kv)) ;;
                   v' <- seg (mval_seg (fst kv)) (xserialize f e vs (snd kv)) ;;
                   Ok (map_set k' v' a)) kvs (Ok []) ;;
            Ok (VMap t_any_map false r)
        | _ => Err (cerr ERepr)
        end
    | XObject id _ props None =>
        match is_str_any_map v with
        | Some kvs =>
            let r := raw_of_entries kvs in
            _ <- xcheck_rules props (fun k => amem k r) ;;
            out <- mapM (fun kv => match alookup (fst kv) props with
                                   | Some p => x <- seg (fst kv) (xserialize f e (p_type p) (snd kv)) ;; Ok (fst kv, x)
                                   | None => Err (cerr EKey)
                                   end) r ;;
            Ok (raw_to_val out)
        | None => Err (cerr ERepr)
        end
    | XObject id _ props (Some si) =>
        (* serializeStruct *)
        match xstruct_arg si v with
        | None => Err (cerr ERepr)
        | Some sv =>
            out <- fold_left (fun acc np =>
                     a <- acc ;;
                     match alookup (fst np) (si_fields si) with
                     | None => Panic "property without a struct field"
                     | Some fr =>
                         let prt := xrtype e (p_type (snd np)) in
                         match xextract (is_ptr_type prt) fr sv with
                         | None => Ok a
                         | Some (value, vt) =>
                             (* D10 (repaired): the same DeepEqual comparison as Validate *)
                             if p_empty_is_default (snd np) && xis_empty (xe_structs e) prt vt value then Ok a
                             else x <- seg (fst np) (xserialize f e (p_type (snd np)) value) ;;
                                  Ok (a ++ [(fst np, x)])%list
                         end
                     end) props (Ok []) ;;
            _ <- xcheck_rules props (fun k => amem k out) ;;
            Ok (raw_to_val out)
        end
    | XOneOf types ik field inlined =>
        km <- xoneof_find f e types ik field inlined v ;;
        let '(key, member, data') := km in
        x <- xserialize f e member data' ;;
        match is_str_any_map x with
        | Some xs =>
            match smap_get field xs with
            | Some _ => Ok x
            | None => Ok (VMap t_str_map false
                            (map_set (vstr field) (match key with KI z => vi64 z | KS s0 => vstr s0 end) xs))
            end
        | None => Panic "one-of member serialized to a non-map"
        end
    | XRef id ns _ =>
        match xresolve e id ns with
        | Some (o, e') => xserialize f e' o v
        | None => Panic "unlinked reference"
        end
    | XScope objs root =>
        match alookup root objs with
        | Some o => xserialize f (xenv_enter e objs) o v
        | None => Panic "root object not found"
        end
    end.
Proof. reflexivity. Qed.

Lemma xcompat_S (f : nat) (e : xenv) (s : xschema) (v : gval) :
  xcompat (S f) e s v =
    match s with
    | XInt _ _ _ | XFloat _ _ _ | XBool => _ <- xunser f e s v ;; Ok tt
    | XString _ _ _ => match v with VStr TStr _ => _ <- xunser f e s v ;; Ok tt | _ => Err (cerr ERepr) end
    | XEnumInt _ _ | XEnumStr _ _ | XPattern => xvalidate f e s v
    | XAny =>
        match v with
        | VMap t _ kvs =>
            if gtype_eqb t t_str_map || gtype_eqb t (TMap (TInt I64) TAny) then
              forM_ (fun kv => rewrap true (xcompat f e XAny (snd kv))) kvs
            else if gtype_eqb t t_any_map then
              match kvs with
              | [] => Ok tt
              | (k0, _) :: _ =>
                  forM_ (fun kv =>
                           match kind_of (fst kv) with
                           | KInt I64 | KString =>
                               if match kind_of k0, kind_of (fst kv) with
                                  | KInt I64, KInt I64 | KString, KString => true
                                  | _, _ => false end
                               then rewrap true (xcompat f e XAny (snd kv))
                               else Err (cerr EKey)
                           | _ => Err (cerr EKey)
                           end) kvs
              end
            else _ <- any_conv f v ;; Ok tt
        | VSlice t _ l =>
            if gtype_eqb t t_any_slice then
              _ <- forM_ (fun x => rewrap true (xcompat f e XAny x)) l ;;
              match l with
              | [] => Ok tt
              | x0 :: t0 => if forallb (fun x => match kind_of x0, kind_of x with
                                                 | KInvalid, KInvalid | KBool, KBool | KF32, KF32 | KF64, KF64
                                                 | KString, KString | KSlice, KSlice | KMap, KMap | KPtr, KPtr
                                                 | KStruct, KStruct | KInterface, KInterface | KOther, KOther => true
                                                 | KInt a, KInt b => gtype_eqb (TInt a) (TInt b)
                                                 | _, _ => false end) t0
                            then Ok tt else Err (cerr ERepr)
              end
            else _ <- any_conv f v ;; Ok tt
        | _ => _ <- any_conv f v ;; Ok tt
        end
    | XList it _ _ =>
        match v with
        | VSlice _ _ l => _ <- mapMi (fun i x => seg (idx_seg i) (xcompat f e it x)) 0 l ;; Ok tt
        | VPtr t (Some (VSlice _ _ l)) =>
            (* D49 (repaired), as Ops.compat: a pointer whose element type is a slice is read as that slice *)
            match underlying t with
            | TPtr te => match kind_of_type te with
                         | KSlice => _ <- mapMi (fun i x => seg (idx_seg i) (xcompat f e it x)) 0 l ;; Ok tt
                         | _ => Err (cerr ERepr)
                         end
            | _ => Err (cerr ERepr)
            end
        | _ => Err (cerr ERepr)
        end
    | XMap ks vs mn mx =>
        match v with
        | VMap _ _ kvs =>
            if size_ok mn mx (zlen kvs) then
              forM_ (fun kv => _ <- seg (mkey_seg (fst kv)) (xcompat f e ks (fst kv)) ;;
                               seg (mval_seg (fst kv)) (xcompat f e vs (snd kv))) kvs
            else Err (cerr EBound)
        | _ => Err (cerr ERepr)
        end
    | XObject id _ props _ =>
        match is_str_any_map v with
        | Some kvs =>
            let r := raw_of_entries kvs in
            _ <- forM_ (fun kv => match alookup (fst kv) props with
                                  | Some p =>
                                      seg (fst kv)
                                        (_ <- rewrap_path (xcompat f e (p_type p) (snd kv)) ;;
                                         if p_disabled p then Err (cerr EDisabled) else Ok tt)
                                  | None => Err (cerr EKey)
                                  end) r ;;
            forM_ (fun np => if p_required (snd np)
                             then match alookup (fst np) r with
                                  | None | Some VNil => Err (cerr_at [fst np] EPresence)
                                  | Some _ => Ok tt
                                  end
                             else Ok tt) props
        | None => _ <- rewrap_path (xunser f e s v) ;; Ok tt
        end
    | XOneOf types ik field inlined =>
        match is_str_any_map v with
        | Some _ => _ <- xoneof_find f e types ik field inlined v ;; Ok tt
        | None =>
            match kind_of v with
            | KStruct => Err (cerr ERepr)
            | KPtr => match v with
                      | VPtr _ (Some (VStruct _ _)) | VOpaque OPtr _ => Err (cerr ERepr)
                      | VPtr _ None => Err (cerr ERepr)
                      | _ => xvalidate f e s v
                      end
            | _ => xvalidate f e s v
            end
        end
    | XRef id ns _ =>
        match xresolve e id ns with
        | Some (o, e') => xcompat f e' o v
        | None => Panic "unlinked reference"
        end
    | XScope objs root =>
        match alookup root objs with
        | Some o => xcompat f (xenv_enter e objs) o v
        | None => Panic "root object not found"
        end
    end.
Proof. reflexivity. Qed.

End XOpsEq.
