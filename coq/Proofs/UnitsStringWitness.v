(* Proofs/UnitsStringWitness.v — names_unambiguous: the built-in unit sets satisfy it (so the
   round trip holds for them on ALL of [0, max int64]), and witnesses (by computation) that the
   round trip FAILS for well-formed definitions violating each of its clauses.  The real SDK
   was run on the same definitions (scratch program, see the work-package report): identical
   answers. *)
From Coq Require Import Lia ZArith List Bool.
From Verif Require Import Base.Prelude Base.Str Schema.Regex Schema.Units Generated.Tables
  Proofs.UnitsStringSound Proofs.UnitsStringRound Proofs.UnitsStringRT.
Import ListNotations.
Open Scope Z_scope.
Open Scope string_scope.

Lemma builtin_unambiguous : forallb (fun u => wf_units u && names_unambiguous u) builtin_units = true.
Proof. vm_compute. reflexivity. Qed.

Theorem builtin_roundtrip_all : forall u n, In u builtin_units -> 0 <= n <= max_i64 ->
  parse_units_int u (format_short_int u n) = Some n /\ parse_units_int u (format_long_int u n) = Some n.
Proof.
  intros u n I Hn. pose proof builtin_unambiguous as H. rewrite forallb_forall in H. specialize (H u I).
  apply andb_prop in H. destruct H as [W NU]. split; [apply roundtrip_short | apply roundtrip_long]; assumption.
Qed.

(* names that are prefixes of each other are fine as long as the longer one does not continue
   with a digit or a space: "m" / "mm" / "mmm" *)
Definition w_mmm : units :=
  mkUnits (mkUnit "mm" "mm" "milli" "millis")
          [(60, mkUnit "m" "m" "minute" "minutes"); (3600, mkUnit "mmm" "mmm" "hour" "hours")].
Lemma w_mmm_ok : wf_units w_mmm = true /\ names_unambiguous w_mmm = true
  /\ format_short_int w_mmm 3727 = "1mmm2m7mm" /\ parse_units_int w_mmm "1mmm2m7mm" = Some 3727.
Proof. vm_compute. repeat split; reflexivity. Qed.

(* (a) two units share a name: 3600 prints as "1m" and reads back as 60 — a WRONG NUMBER *)
Definition w_shared : units :=
  mkUnits (mkUnit "s" "s" "second" "seconds")
          [(60, mkUnit "m" "m" "minute" "minutes"); (3600, mkUnit "m" "m" "hour" "hours")].
Lemma w_shared_fails : wf_units w_shared = true /\ names_unambiguous w_shared = false
  /\ format_short_int w_shared 3600 = "1m" /\ parse_units_int w_shared (format_short_int w_shared 3600) = Some 60.
Proof. vm_compute. repeat split; reflexivity. Qed.

(* (b) a name is another name followed by a digit: 121 prints as "2m1s" and reads back as 120 *)
Definition w_prefix : units :=
  mkUnits (mkUnit "s" "s" "second" "seconds") [(60, mkUnit "m1s" "m" "minute" "minutes")].
Lemma w_prefix_fails : wf_units w_prefix = true /\ names_unambiguous w_prefix = false
  /\ format_short_int w_prefix 121 = "2m1s" /\ parse_units_int w_prefix (format_short_int w_prefix 121) = Some 120.
Proof. vm_compute. repeat split; reflexivity. Qed.

(* (c) a name starting with a digit: 10 prints as "100" and reads back as 100 *)
Definition w_digit : units := mkUnits (mkUnit "0" "0" "zero" "zeros") [].
Lemma w_digit_fails : wf_units w_digit = true /\ names_unambiguous w_digit = false
  /\ format_short_int w_digit 10 = "100" /\ parse_units_int w_digit (format_short_int w_digit 10) = Some 100.
Proof. vm_compute. repeat split; reflexivity. Qed.

(* (d) a name ending in a space is cut by TrimSpace: "5s " is rejected *)
Definition w_trail : units := mkUnits (mkUnit "s " "s " "second" "seconds") [].
Lemma w_trail_fails : wf_units w_trail = true /\ names_unambiguous w_trail = false
  /\ format_short_int w_trail 5 = "5s " /\ parse_units_int w_trail (format_short_int w_trail 5) = None.
Proof. vm_compute. repeat split; reflexivity. Qed.

(* (d') the Unicode twin: a name ending in a NO-BREAK SPACE (U+00A0 = C2 A0) is cut by TrimSpace just the same, although
   the regular expression's \s would never match it: "5x<NBSP>" is rejected.  (Before work package s8u the model trimmed
   ASCII white space only and names_unambiguous held for this definition.)  A name that STARTS with or CONTAINS the
   character is harmless: it is matched literally. *)
Definition nbsp : string := String (ascii_of_nat 194) (String (ascii_of_nat 160) EmptyString).
Definition w_trail_nbsp : units := mkUnits (mkUnit ("x" ++ nbsp) ("x" ++ nbsp) "ex" "exes") [].
Lemma w_trail_nbsp_fails : wf_units w_trail_nbsp = true /\ names_unambiguous w_trail_nbsp = false
  /\ format_short_int w_trail_nbsp 5 = "5x" ++ nbsp /\ parse_units_int w_trail_nbsp (format_short_int w_trail_nbsp 5) = None.
Proof. vm_compute. repeat split; reflexivity. Qed.
Definition w_inner_nbsp : units :=
  mkUnits (mkUnit (nbsp ++ "x") ("x" ++ nbsp ++ "y") "ex" "exes") [(60, mkUnit "m" "m" "minute" "minutes")].
Lemma w_inner_nbsp_ok : wf_units w_inner_nbsp = true /\ names_unambiguous w_inner_nbsp = true
  /\ format_short_int w_inner_nbsp 61 = "1m1" ++ nbsp ++ "x" /\ parse_units_int w_inner_nbsp (format_short_int w_inner_nbsp 61) = Some 61
  /\ parse_units_int w_inner_nbsp (format_short_int w_inner_nbsp 65) = Some 65.
Proof. vm_compute. repeat split; reflexivity. Qed.

(* (e) a name starting with a point and a digit: "3.5x" is read as a fraction of the base unit *)
Definition w_dot : units :=
  mkUnits (mkUnit "x" "x" "ex" "exes") [(60, mkUnit ".5x" ".5x" "minute" "minutes")].
Lemma w_dot_fails : wf_units w_dot = true /\ names_unambiguous w_dot = false
  /\ format_short_int w_dot 180 = "3.5x" /\ parse_units_int w_dot (format_short_int w_dot 180) = None.
Proof. vm_compute. repeat split; reflexivity. Qed.

(* (f) the name ".": "5.3s" is read as a fraction of the base unit *)
Definition w_point : units :=
  mkUnits (mkUnit "s" "s" "second" "seconds") [(60, mkUnit "." "." "minute" "minutes")].
Lemma w_point_fails : wf_units w_point = true /\ names_unambiguous w_point = false
  /\ format_short_int w_point 303 = "5.3s" /\ parse_units_int w_point (format_short_int w_point 303) = None.
Proof. vm_compute. repeat split; reflexivity. Qed.

Theorem roundtrip_unicode_trail_refuted :
  exists u n, wf_units u = true /\ 0 <= n <= max_i64 /\ names_unambiguous u = false
    /\ parse_units_int u (format_short_int u n) = None /\ parse_units_int u (format_long_int u n) = Some n.
Proof.
  exists w_trail_nbsp, 5. split; [vm_compute; reflexivity|]. split; [vm_compute; split; discriminate|].
  vm_compute. repeat split; reflexivity.
Qed.

(* the unrestricted statement is false in the faithful model (and in the SDK) *)
Theorem roundtrip_arbitrary_refuted :
  exists u n, wf_units u = true /\ 0 <= n <= max_i64
    /\ exists m, parse_units_int u (format_short_int u n) = Some m /\ m <> n.
Proof.
  exists w_shared, 3600. split; [vm_compute; reflexivity|]. split; [vm_compute; split; discriminate|].
  exists 60. split; [vm_compute; reflexivity | discriminate].
Qed.
