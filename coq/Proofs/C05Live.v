(* Proofs/C05Live.v — PROGRESS of the composition ATP/System.v: in a state of a session without Close in which no
   label of the composed system is enabled (a maximal execution has ended), every Execute has returned.

   The proof does not redo the client's conservation argument.  At every reachable state sigma of the composition the
   client component, with its (unused) scripted plan REPLACED by "what the real server still owes",

       abs sigma := set_p_plan (cl sigma) (plan_of (sv sigma)),
       plan_of ss := for every call (r, t): [terminal message of (r, t)] while the server's output holds no terminal
                     message for r, [] afterwards,

   is a state of the client model ATP/Client.v that satisfies the client model's inductive invariant `inv`
   (Proofs/ATPClientInv.v): a step of a client goroutine of the composition IS that step of the client model
   (C05ClientAbs.step_plan_comm), the pipe step is LPeerAccept, a server step that writes the terminal message of run r
   IS the scripted peer's LPeerSend r (the server model is a refinement of the client model's healthy peer), any
   other server output is an arrival of further events (inv_push).  So the client model's progress theorem
   (ATPClientFinal.inv_progress) applies to abs sigma: if some Execute has not returned, a client-model label is
   enabled.  If it is a goroutine step or the pipe, the composition can take it.  If it is LPeerSend r, the server
   has accepted the work-start of r and has not yet written its terminal message; then by the server model's
   accounting (ServerInv.TermInv) the message is still owed by a goroutine, the report channel, the handler or sits in
   the unread input, and C05ServerIdle.server_idle shows that some server goroutine (or the release of a slow handler)
   is enabled.

   Coupling facts carried along (LInv): the peer bookkeeping of the client component (p_acc) agrees with what has
   arrived at the server (inq + hist); every run's work-start exists at most once in to_server + inq + hist; no
   client-done is anywhere (no Close). *)
From Coq Require Import Lia.
From Verif Require Import Base.Prelude Base.Str ATP.Msg ATP.System.
From Verif Require Proofs.ATPClient Proofs.ATPClientInv Proofs.ATPClientFinal Proofs.ServerInv Proofs.Server
  Proofs.ServerRoute Proofs.C05Vocab Proofs.C05Client Proofs.C05Server Proofs.C05ClientAbs Proofs.C05ServerIdle.
From Verif Require Import Proofs.C05System.
Local Open Scope string_scope.
Local Open Scope list_scope.
Local Open Scope nat_scope.

Module CA := Verif.Proofs.C05ClientAbs.
Module SD := Verif.Proofs.C05ServerIdle.
Module SP := Verif.Proofs.Server.

(* ---- generic list facts ---- *)
Lemma alookup_map_entry {B} (f : runid * Z -> B) : forall (l : list (runid * Z)) r t,
  NoDup (map fst l) -> In (r, t) l -> alookup r (map (fun p => (fst p, f p)) l) = Some (f (r, t)).
Proof.
  induction l as [|[k v] l IH]; intros r t N Hin; [destruct Hin|].
  cbn in N. inversion N as [|? ? Hn N']; subst. cbn. destruct Hin as [E|Hin].
  - injection E as -> ->. rewrite String.eqb_refl. reflexivity.
  - destruct (String.eqb_spec r k) as [->|Hne].
    + exfalso. apply Hn. apply (in_map fst) in Hin. exact Hin.
    + apply IH; auto.
Qed.

Lemma alookup_map_in {B} (f : runid * Z -> B) : forall (l : list (runid * Z)) r x,
  alookup r (map (fun p => (fst p, f p)) l) = Some x -> exists t, In (r, t) l.
Proof.
  induction l as [|[k v] l IH]; intros r x H; [discriminate|]. cbn in H.
  destruct (String.eqb_spec r k) as [->|Hne]; [exists v; left; reflexivity|].
  destruct (IH _ _ H) as [t Ht]. exists t. right. exact Ht.
Qed.

Lemma map_aset_entry {B} (e e' : runid * Z -> B) (v0 : B) : forall (l : list (runid * Z)) r,
  NoDup (map fst l) -> (forall p, fst p <> r -> e' p = e p) -> (forall p, fst p = r -> e' p = v0) ->
  map (fun p => (fst p, e' p)) l = C.aset r v0 (map (fun p => (fst p, e p)) l).
Proof.
  induction l as [|[k v] l IH]; intros r N H1 H2; [reflexivity|].
  cbn in N. inversion N as [|? ? Hn N']; subst. cbn. destruct (String.eqb_spec r k) as [->|Hne].
  - rewrite (H2 (k, v)) by reflexivity. f_equal.
    apply map_ext_in. intros [k' v'] Hin. rewrite H1; auto. cbn. intros ->. apply Hn. apply (in_map fst) in Hin. exact Hin.
  - rewrite (H1 (k, v)) by (cbn; congruence). f_equal. apply IH; auto.
Qed.

Ltac sproj :=
  cbn [cl sv S.inq S.hist S.stdin_closed S.out S.set_inq C.p_dead C.p_fault C.p_acc C.to_server C.closer
       push C.set_from_server C.from_server].

Section C05Live.
Variable g : scfg.
Variable callspecs : list (C.callspec Z).
Hypothesis runs_named : forall x, In x callspecs -> C.cs_run x <> "".
Hypothesis session_wf : CI.wf_session (sys_session callspecs false).

Notation c := (sc_srv g).
Notation cls := (calls callspecs).
Notation SInv := (SInv g callspecs).

Let cls_named : forall r t, In (r, t) cls -> r <> "" := calls_named callspecs runs_named.
Let cls_nodup : NoDup (map fst cls) := calls_nodup callspecs false session_wf.

Definition nacc (r : runid) (l : list (event Z)) : nat := SI.sumf (SI.ev_accepted r) l.
Definition wsr (r : runid) (m : msg Z) : nat := SI.ev_accepted r (EvMsg m).

(* ---- what the server still owes, as a plan of the client model's scripted peer ---- *)
Definition plan_ev (ss : S.state) (p : runid * Z) : list (event Z) :=
  if Nat.eqb (SI.sumf (SI.oterm (fst p)) (S.out ss)) 0 then [EvMsg (tmsg g (fst p) (snd p))] else [].
Definition plan_of (ss : S.state) : list (runid * list (event Z)) := map (fun p => (fst p, plan_ev ss p)) cls.
Definition abs (s : sstate) : C.state Z := C.set_p_plan (cl s) (plan_of (sv s)).

Lemma plan_same : forall ss ss', S.out ss' = S.out ss -> plan_of ss' = plan_of ss.
Proof. intros ss ss' E. unfold plan_of, plan_ev. now rewrite E. Qed.

Lemma plan_quiet : forall ss ss' m, S.out ss' = S.out ss ++ [m] ->
  (forall r t, In (r, t) cls -> SI.oterm r m = 0) -> plan_of ss' = plan_of ss.
Proof.
  intros ss ss' m E H. unfold plan_of. apply map_ext_in. intros [r t] Hin. unfold plan_ev. cbn.
  rewrite E, SI.sumf_snoc, (H r t Hin), Nat.add_0_r. reflexivity.
Qed.

Lemma plan_emit : forall ss ss' m r, S.out ss' = S.out ss ++ [m] ->
  SI.oterm r m = 1 -> (forall r', r' <> r -> SI.oterm r' m = 0) -> plan_of ss' = C.aset r [] (plan_of ss).
Proof.
  intros ss ss' m r E H1 H0. unfold plan_of. apply map_aset_entry; auto.
  - intros [r' t] Hne. cbn in Hne. unfold plan_ev. cbn. rewrite E, SI.sumf_snoc, (H0 r' Hne), Nat.add_0_r. reflexivity.
  - intros [r' t] He. cbn in He. subst r'. unfold plan_ev. cbn. rewrite E, SI.sumf_snoc, H1.
    replace (SI.sumf (SI.oterm r) (S.out ss) + 1) with (S (SI.sumf (SI.oterm r) (S.out ss))) by lia. reflexivity.
Qed.

Lemma resolves_tmsg : forall r t, CI.resolves r (tmsg g r t) = true.
Proof.
  intros r t. unfold tmsg. destruct (S.step_outcome c "s" t); cbn; rewrite ?String.eqb_refl, ?orb_true_r; reflexivity.
Qed.

(* ---- counting work-starts ---- *)
Lemma wsr_le : forall r m, wsr r m <= 1.
Proof. intros r m. unfold wsr, SI.ev_accepted. destruct m; cbn; auto. destruct (_ && _); cbn; lia. Qed.

Lemma wsr_ws : forall r r' t, wsr r (WorkStart r' "s" t) <> 0 -> r' = r /\ r <> "".
Proof.
  intros r r' t H. unfold wsr, SI.ev_accepted in H.
  destruct (String.eqb_spec r' r) as [->|]; [|cbn in H; congruence].
  destruct (String.eqb_spec r "") as [->|]; [cbn in H; congruence|]. auto.
Qed.

Lemma wsr_ws_named : forall r r' t, r' <> "" -> wsr r (WorkStart r' "s" t) = SI.b2n (String.eqb r' r).
Proof.
  intros r r' t H. unfold wsr, SI.ev_accepted. apply String.eqb_neq in H. rewrite H. cbn. now rewrite andb_true_r.
Qed.

Lemma no_ws_sum : forall r (l : list (msg Z)), existsb (CI.is_ws r) l = false -> SI.sumf (wsr r) l = 0.
Proof.
  induction l as [|m l IH]; intros H; [reflexivity|]. cbn in H. apply orb_false_iff in H. destruct H as [H1 H2].
  rewrite SI.sumf_cons, IH by assumption. destruct m; cbn in *; auto. unfold wsr, SI.ev_accepted. rewrite H1. reflexivity.
Qed.

Lemma okin_badws : forall r l, Forall (CS.okin cls) l -> SI.sumf (SI.ev_badws r) l = 0.
Proof.
  induction l as [|ev l IH]; intros F; [reflexivity|]. inversion F as [|? ? (m & -> & Hm) Hl]; subst.
  rewrite SI.sumf_cons, IH by assumption.
  destruct Hm as [(r0 & t & _ & ->)|[(r0 & d & ->)| ->]]; reflexivity.
Qed.

(* ---- the invariant ---- *)
Record LInv (s : sstate) : Prop := mkLInv {
  l_S : SInv s;
  l_inv : CI.inv (abs s);
  l_reach : SI.reachable c (sv s);
  l_dead : C.p_dead (cl s) = false;
  l_fault : C.p_fault (cl s) = None;
  l_hist : Forall (CS.okin cls) (S.hist (sv s));
  l_acc : forall r, r <> "" ->
            (str_in r (C.p_acc (cl s)) = true <-> 1 <= nacc r (S.inq (sv s)) + nacc r (S.hist (sv s)));
  l_once : forall r, SI.sumf (wsr r) (C.to_server (cl s)) + nacc r (S.inq (sv s)) + nacc r (S.hist (sv s)) <= 1;
  l_nocd : C.closer (cl s) = C.KNone /\ Forall (fun m => m <> ClientDone) (C.to_server (cl s)) /\
           Forall (fun ev => ev <> EvMsg ClientDone) (S.inq (sv s)) /\ S.stdin_closed (sv s) = false }.

Lemma reach_step : forall ss l ss', SI.reachable c ss -> S.step c ss l = Some ss' -> SI.reachable c ss'.
Proof.
  intros ss l ss' [ls ->] H. exists (ls ++ [l]). rewrite SP.run_app. cbn. unfold S.step_or_stay. rewrite H. reflexivity.
Qed.

Lemma arrive_spec : forall ss ev ss', S.step c ss (S.LArrive ev) = Some ss' -> ss' = S.set_inq (S.inq ss ++ [ev]) ss.
Proof. intros ss ev ss' H. unfold S.step in H. destruct (S.crashed ss); [discriminate|]. now injection H as <-. Qed.

(* ---- steps of the client goroutines ---- *)
Lemma linv_client : forall s l cs', LInv s -> client_label l = true -> C.step (cl s) l = Some cs' ->
  LInv (mkSys cs' (sv s)).
Proof.
  intros s l cs' I Hl Hs.
  assert (SInv (mkSys cs' (sv s))) as IS'.
  { eapply (sinv_step g callspecs runs_named s (YClient l)); [apply (l_S _ I)|]. cbn. rewrite Hl, Hs. reflexivity. }
  destruct I as [IS II IR ID IF IH IA IO (K1 & K2 & K3 & K4)].
  pose proof (client_label_nosend _ Hl) as Hns.
  destruct (CA.step_peer_frame _ _ _ _ Hs Hns) as (E1 & E2 & E3 & E4).
  assert (C.p_acc cs' = C.p_acc (cl s)) as Ea by (apply E4; intros ->; discriminate Hl).
  assert (C.step (abs s) l = Some (C.set_p_plan cs' (plan_of (sv s)))) as Ha.
  { unfold abs. rewrite (CA.step_plan_comm _ _ _ _ Hns), Hs. reflexivity. }
  constructor; cbn; auto; try congruence.
  - eapply CI.inv_step; eauto.
  - intros r Hr. rewrite Ea. auto.
  - intros r. specialize (IO r).
    destruct (CA.step_to_server2 _ _ _ _ Hs) as [E|[(m & E & ->)|[(i & c0 & Hc & Hp & E)|[(r0 & d & E)|(Hk & E)]]]].
    + now rewrite E.
    + discriminate Hl.
    + rewrite E, SI.sumf_snoc. destruct (wsr r (WorkStart (C.c_run c0) "s" (C.c_input c0))) eqn:Ew; [lia|].
      pose proof (wsr_le r (WorkStart (C.c_run c0) "s" (C.c_input c0))) as Hle.
      destruct (wsr_ws r (C.c_run c0) (C.c_input c0)) as [Er Hrn]; [rewrite Ew; discriminate|].
      assert (nth_error (C.callers (abs s)) i = Some c0) as Hc' by exact Hc.
      destruct (CI.p_unsent _ _ (CI.i_P _ _ II) _ _ Hc' (or_intror Hp)) as (U1 & U2 & _).
      rewrite Er in U1, U2. cbn in U1, U2. rewrite (no_ws_sum _ _ U1).
      assert (nacc r (S.inq (sv s)) + nacc r (S.hist (sv s)) = 0) as Ez.
      { destruct (nacc r (S.inq (sv s)) + nacc r (S.hist (sv s))) eqn:En; auto.
        assert (str_in r (C.p_acc (cl s)) = true) as Hin by (apply (IA r Hrn); lia). congruence. }
      lia.
    + rewrite E, SI.sumf_snoc. cbn. lia.
    + congruence.
  - repeat split; auto.
    + eapply CA.step_closer_knone; eauto.
    + destruct (CA.step_to_server2 _ _ _ _ Hs) as [E|[(m & E & ->)|[(i & c0 & Hc & Hp & E)|[(r0 & d & E)|(Hk & E)]]]].
      * now rewrite E.
      * discriminate Hl.
      * rewrite E. apply Forall_app. split; auto. constructor; [discriminate|constructor].
      * rewrite E. apply Forall_app. split; auto. constructor; [discriminate|constructor].
      * congruence.
Qed.

(* ---- the pipe ---- *)
Lemma linv_pipe : forall s m q cs' ss', LInv s -> C.to_server (cl s) = m :: q ->
  C.step (cl s) C.LPeerAccept = Some cs' -> S.step c (sv s) (S.LArrive (EvMsg m)) = Some ss' -> LInv (mkSys cs' ss').
Proof.
  intros s m q cs' ss' I Hts Hs Hv.
  assert (SInv (mkSys cs' ss')) as IS'.
  { eapply (sinv_step g callspecs runs_named s YPipe); [apply (l_S _ I)|]. cbn [sys_step]. rewrite Hts, Hs, Hv. reflexivity. }
  destruct I as [IS II IR ID IF IH IA IO (K1 & K2 & K3 & K4)].
  assert (forall r, C.LPeerAccept <> C.LPeerSend r) as Hns by (intros r; discriminate).
  destruct (CA.step_peer_frame _ _ _ _ Hs Hns) as (E1 & E2 & E3 & _).
  destruct (CA.step_accept_spec _ _ _ Hs) as (m' & q' & Hts' & Eq & Ea). rewrite Hts in Hts'. injection Hts' as <- <-.
  pose proof (arrive_spec _ _ _ Hv) as E'. subst ss'.
  assert (CC.cwm cls m) as Hm.
  { pose proof (CC.s_to _ _ _ _ (si_S _ _ _ IS)) as F. rewrite Hts in F. inversion F; auto. }
  assert (C.step (abs s) C.LPeerAccept = Some (C.set_p_plan cs' (plan_of (sv s)))) as Ha.
  { unfold abs. rewrite (CA.step_plan_comm _ _ _ _ Hns), Hs. reflexivity. }
  constructor; sproj;
    [exact IS'| |eapply reach_step; eauto|congruence|congruence|exact IH| | | ].
  - change (CI.inv (C.set_p_plan cs' (plan_of (sv s)))). eapply CI.inv_step; eauto.
  - intros r Hr. specialize (IA r Hr). rewrite Ea. unfold nacc in *. rewrite SI.sumf_snoc. fold (wsr r m).
    destruct Hm as [(r0 & t & Hin & ->)|[(r0 & d & ->)| ->]].
    + rewrite (wsr_ws_named r r0 t (cls_named _ _ Hin)). cbn [str_in].
      rewrite (String.eqb_sym r r0). destruct (String.eqb r0 r); cbn [orb SI.b2n]; [split; [lia|reflexivity]|].
      rewrite IA. split; lia.
    + change (wsr r (Signal r0 "sg" d)) with 0. cbn [str_in]. rewrite IA. split; lia.
    + change (wsr r ClientDone) with 0. cbn [str_in]. rewrite IA. split; lia.
  - intros r. specialize (IO r). rewrite Hts, SI.sumf_cons in IO. rewrite Eq. unfold nacc in *. rewrite SI.sumf_snoc.
    fold (wsr r m). lia.
  - rewrite Hts in K2. inversion K2 as [|? ? Hm1 Hq1]. subst.
    split; [eapply CA.step_closer_knone; eauto|]. split; [first [assumption|rewrite Eq; assumption]|].
    split; [|exact K4]. apply Forall_app. split; auto. constructor; [congruence|constructor].
Qed.

(* ---- a step of the server ---- *)
Lemma push_abs : forall (cs : C.state Z) evs p p',
  C.set_p_plan (push cs evs) p' = C.set_p_plan (CA.pushev _ (C.set_p_plan cs p) evs) p'.
Proof. intros. reflexivity. Qed.

Lemma linv_server : forall s l s', LInv s -> CS.sys_label cls l -> (forall ev, l <> S.LArrive ev) ->
  srv_step g s l = Some s' -> LInv s'.
Proof.
  intros s l s' I Hl Hna H.
  assert (SInv s') as IS' by (eapply srv_step_inv; eauto; apply (l_S _ I)).
  destruct I as [IS II IR ID IF IH IA IO (K1 & K2 & K3 & K4)].
  unfold srv_step in H. destruct (S.step c (sv s) l) as [ss'|] eqn:Hs; [|discriminate]. injection H as <-.
  pose proof (si_O _ _ _ IS) as IOr.
  assert (SI.reachable c ss') as IR' by (eapply reach_step; eauto).
  (* the input side *)
  assert (Forall (CS.okin cls) (S.hist ss') /\
          (forall r, nacc r (S.inq ss') + nacc r (S.hist ss') = nacc r (S.inq (sv s)) + nacc r (S.hist (sv s))) /\
          Forall (fun ev => ev <> EvMsg ClientDone) (S.inq ss') /\ S.stdin_closed ss' = false) as (IH' & En & K3' & K4').
  { destruct (SD.step_io _ _ _ _ Hs) as [(ev & -> & _)|[(E1 & E2 & [E3|E3])|[(ev & E1 & E2 & _ & E3)|E3]]].
    - exfalso. eapply Hna; reflexivity.
    - rewrite E1, E2, E3. auto.
    - exfalso. pose proof (CS.o_hp _ _ _ IOr) as Hh. rewrite E3 in Hh. exact Hh.
    - pose proof (CS.o_inq _ _ _ IOr) as F. rewrite E1 in F, K3. inversion F as [|? ? Hev Hq]; subst. inversion K3; subst.
      repeat split; auto.
      + rewrite E2. apply Forall_app. split; auto.
      + intros r. unfold nacc. rewrite E1, E2, SI.sumf_cons, SI.sumf_snoc. lia.
      + destruct E3 as [E3|[E3|(id & r & E3)]]; [congruence|congruence|].
        exfalso. destruct Hev as (m & Em & Hm). rewrite E3 in Em. injection Em as <-.
        destruct Hm as [(r0 & t & _ & Hm)|[(r0 & d & Hm)|Hm]]; discriminate Hm.
    - exfalso. pose proof (CS.o_rl _ _ _ IOr) as R. unfold CS.okrl in R. rewrite E3 in R. exact R. }
  assert (forall r, r <> "" -> (str_in r (C.p_acc (cl s)) = true <-> 1 <= nacc r (S.inq ss') + nacc r (S.hist ss'))) as IA'.
  { intros r Hr. rewrite En. auto. }
  assert (forall r, SI.sumf (wsr r) (C.to_server (cl s)) + nacc r (S.inq ss') + nacc r (S.hist ss') <= 1) as IO'.
  { intros r. specialize (IO r). specialize (En r). lia. }
  (* the client model's invariant for the new abstraction, when the step writes the terminal message of run r *)
  assert (forall r t m, In (r, t) cls -> S.out ss' = S.out (sv s) ++ [m] -> SI.oterm r m = 1 ->
            (forall r', r' <> r -> SI.oterm r' m = 0) ->
            CI.inv (C.set_p_plan (push (cl s) [EvMsg (tmsg g r t)]) (plan_of ss'))) as Kemit.
  { intros r t m Hin E H1 H0. pose proof (cls_named _ _ Hin) as Hr.
    destruct (SI.term_reachable c r ss' Hr IR') as [TA TT].
    pose proof (okin_badws r _ IH') as Hb. pose proof (IO' r) as Ho. fold (nacc r (S.hist ss')) in TA.
    rewrite E, SI.sumf_snoc, H1 in TT.
    assert (SI.sumf (SI.oterm r) (S.out (sv s)) = 0) as Hz by lia.
    assert (1 <= nacc r (S.hist ss')) as Hacc by lia.
    assert (str_in r (C.p_acc (cl s)) = true) as Hin' by (apply (IA' r Hr); lia).
    assert (alookup r (C.p_plan (abs s)) = Some [EvMsg (tmsg g r t)]) as Hpl.
    { change (alookup r (plan_of (sv s)) = Some [EvMsg (tmsg g r t)]). unfold plan_of.
      rewrite (alookup_map_entry (plan_ev (sv s)) _ _ _ cls_nodup Hin). unfold plan_ev. cbn [fst snd]. rewrite Hz. reflexivity. }
    pose proof (CA.step_send_spec Z (abs s) r (EvMsg (tmsg g r t)) [] ID IF Hin' Hpl) as Hsend.
    rewrite (plan_emit _ _ _ _ E H1 H0).
    rewrite (push_abs (cl s) _ (plan_of (sv s))).
    eapply CI.inv_step; [exact II|exact Hsend]. }
  constructor; sproj; [exact IS'| |exact IR'|exact ID|exact IF|exact IH'|exact IA'|exact IO'|repeat split; assumption].
  unfold abs. cbn [cl sv]. unfold new_out.
  destruct (CS.step_out _ _ _ _ Hs) as [E|[(Hr & E)|[(i & w & o & -> & Hn & Hp & E)|(e & Hh & E)]]]; rewrite E.
  - rewrite skipn_len_self. cbn [map List.concat]. rewrite (plan_same _ _ E).
    change (CI.inv (CA.pushev _ (abs s) [])). apply CA.inv_push. exact II.
  - exfalso. pose proof (CS.o_rl _ _ _ IOr) as R. unfold CS.okrl in R. rewrite Hr in R. exact R.
  - rewrite skipn_len_app. cbn [map List.concat wire_of]. rewrite Hn.
    pose proof (CS.Forall_nth_error _ _ _ _ (CS.o_workers _ _ _ IOr) Hn) as Hw. unfold CS.okw in Hw. rewrite Hp in Hw.
    destruct (S.w_kind w) as [st t|st sg ok]; [|contradiction]. destruct Hw as (-> & Hin & Ho). rewrite app_nil_r.
    replace (WorkDone (S.w_run w) "s" o (sc_data g t) "") with (tmsg g (S.w_run w) t) by (unfold tmsg; rewrite Ho; reflexivity).
    eapply Kemit; eauto.
    + cbn. rewrite String.eqb_refl. reflexivity.
    + intros r' Hne. cbn. destruct (String.eqb_spec (S.w_run w) r'); [congruence|reflexivity].
  - rewrite skipn_len_app. cbn [map List.concat wire_of app].
    pose proof (CS.o_hp _ _ _ IOr) as He. rewrite Hh in He.
    destruct He as [[E1 E2]|(r & t & Hin & -> & Hns)].
    + rewrite (plan_quiet _ _ _ E); [|intros r t _; cbn; unfold SI.term; rewrite E1, andb_false_r; reflexivity].
      change (CI.inv (CA.pushev _ (abs s) [EvMsg (ErrMsg (S.se_run e) (S.se_sf e) (S.se_vf e))])). apply CA.inv_push. exact II.
    + cbn [S.se_run S.se_sf S.se_vf].
      replace (ErrMsg r true false) with (tmsg g r t).
      2:{ unfold tmsg. destruct (S.step_outcome c "s" t) eqn:Eo; auto. exfalso. eapply Hns; eauto. }
      eapply Kemit; eauto.
      * cbn. unfold SI.term. cbn. rewrite String.eqb_refl. reflexivity.
      * intros r' Hne. cbn. unfold SI.term. cbn. destruct (String.eqb_spec r r'); [congruence|reflexivity].
Qed.

Theorem linv_step : forall s y s', LInv s -> sys_step g s y = Some s' -> LInv s'.
Proof.
  intros s y s' I H. destruct y as [l| |l|t]; cbn [sys_step] in H.
  - destruct (client_label l) eqn:Hl; [|discriminate].
    destruct (C.step (cl s) l) as [cs'|] eqn:Hs; [|discriminate]. injection H as <-. eapply linv_client; eauto.
  - destruct (C.to_server (cl s)) as [|m q] eqn:Hts; [discriminate|].
    destruct (C.step (cl s) C.LPeerAccept) as [cs'|] eqn:Hs; [|discriminate].
    destruct (S.step c (sv s) (S.LArrive (EvMsg m))) as [ss'|] eqn:Hv; [|discriminate]. injection H as <-.
    eapply linv_pipe; eauto.
  - destruct (S.is_internal l) eqn:Hl; [|discriminate]. eapply linv_server; eauto.
    + destruct l; try discriminate Hl; exact Logic.I.
    + intros ev ->. discriminate Hl.
  - destruct (existsb _ _); [|discriminate]. eapply linv_server; eauto; [exact Logic.I|intros ev; discriminate].
Qed.

Lemma linv_init : LInv (sys_init callspecs false).
Proof.
  constructor; [| | |reflexivity|reflexivity|constructor| |intros r; cbn; lia|cbn; repeat split; constructor].
  - apply sinv_init; auto.
  - change (CI.inv (C.init (C.mkSession callspecs false (plan_of srv0) None None))). apply CI.inv_init.
    split; [exact session_wf|split].
    + intros x Hx. cbn. unfold CI.script_dec, plan_of.
      assert (In (C.cs_run x, C.cs_input x) cls) as Hin by (unfold calls; apply in_map_iff; eauto).
      rewrite (alookup_map_entry (plan_ev srv0) _ _ _ cls_nodup Hin). unfold plan_ev. cbn.
      rewrite resolves_tmsg. reflexivity.
    + exact Logic.I.
  - exists [S.LArrive (EvHello (Hello 3 true)); S.LRead; S.LRead]. apply srv0_reachable.
  - intros r _. cbn. split; [discriminate|lia].
Qed.

Theorem linv_run : forall ys s s', LInv s -> sys_run g s ys = Some s' -> LInv s'.
Proof.
  induction ys as [|y t IH]; intros s s' I H; cbn in H.
  - now injection H as <-.
  - destruct (sys_step g s y) as [s1|] eqn:Hs; [|discriminate]. eapply IH; [|exact H]. eapply linv_step; eauto.
Qed.

(* ---- progress ---- *)
Lemma srv_step_none : forall s l, srv_step g s l = None -> S.step c (sv s) l = None.
Proof. intros s l H. unfold srv_step in H. destruct (S.step c (sv s) l); [discriminate|reflexivity]. Qed.

Theorem sys_progress : forall s, LInv s -> sys_final g s ->
  forall i c0, nth_error (C.callers (cl s)) i = Some c0 -> C.caller_done c0 = true.
Proof.
  intros s I F i c0 Hc. destruct (C.caller_done c0) eqn:Hd; auto. exfalso.
  destruct I as [IS II IR ID IF IH IA IO (K1 & K2 & K3 & K4)].
  assert (nth_error (C.callers (abs s)) i = Some c0) as Hc' by exact Hc.
  destruct (CF.inv_progress _ _ II _ _ Hc' Hd) as [l Hl].
  pose proof (SI.inv_reachable c _ IR) as SInv0. pose proof (SI.inv_nocrash _ SInv0) as Hnc.
  assert (forall l', client_label l' = true -> C.step (abs s) l' <> None -> False) as Kc.
  { intros l' Hcl Hne. pose proof (F (YClient l')) as Fy. cbn in Fy. rewrite Hcl in Fy.
    unfold abs in Hne. rewrite (CA.step_plan_comm _ _ _ _ (client_label_nosend _ Hcl)) in Hne.
    destruct (C.step (cl s) l'); [discriminate Fy|congruence]. }
  destruct l as [j|j|k| | | |r]; try (solve [refine (Kc _ _ Hl); reflexivity]).
  - (* the pipe *)
    assert (forall r0, C.LPeerAccept <> C.LPeerSend r0) as Hns by (intros r0; discriminate).
    unfold abs in Hl. rewrite (CA.step_plan_comm _ _ _ _ Hns) in Hl.
    pose proof (F YPipe) as Fy. cbn [sys_step] in Fy.
    destruct (C.step (cl s) C.LPeerAccept) as [cs'|] eqn:Hs; [|congruence].
    destruct (CA.step_accept_spec _ _ _ Hs) as (m & q & Hts & _). rewrite Hts in Fy.
    unfold S.step in Fy. rewrite Hnc in Fy. cbn in Fy. discriminate Fy.
  - (* the server owes run r its terminal message *)
    destruct (CA.step_send_enabled _ _ _ Hl) as (Hacc & ev & rest & Hp).
    change (str_in r (C.p_acc (cl s)) = true) in Hacc. change (alookup r (plan_of (sv s)) = Some (ev :: rest)) in Hp.
    unfold plan_of in Hp. destruct (alookup_map_in (plan_ev (sv s)) _ _ _ Hp) as [t Hin].
    rewrite (alookup_map_entry (plan_ev (sv s)) _ _ _ cls_nodup Hin) in Hp. unfold plan_ev in Hp. cbn [fst snd] in Hp.
    destruct (Nat.eqb_spec (SI.sumf (SI.oterm r) (S.out (sv s))) 0) as [Hz|]; [|discriminate Hp].
    pose proof (cls_named _ _ Hin) as Hr. pose proof (proj1 (IA r Hr) Hacc) as Hone.
    pose proof (si_O _ _ _ IS) as IOr.
    assert (S.rl (sv s) = S.RLoop \/ exists e, S.rl (sv s) = S.RReport e S.KLoop) as Hrl.
    { pose proof (CS.o_rl _ _ _ IOr) as R. unfold CS.okrl in R. destruct (S.rl (sv s)); try contradiction; auto; try congruence.
      destruct R as (_ & -> & _). eauto. }
    assert (S.hp (sv s) <> S.HClose) as Hh.
    { pose proof (CS.o_hp _ _ _ IOr) as R. intros E. rewrite E in R. exact R. }
    destruct (SD.server_idle c (sv s) SInv0 K4 Hrl Hh) as (Ei & Erl & Ewd & Hg & Hhp).
    + apply srv_step_none. exact (F (YServer S.LRead)).
    + apply srv_step_none. exact (F (YServer (S.LHandler true))).
    + intros j. apply srv_step_none. exact (F (YServer (S.LWorker j))).
    + intros j w st tok Hn Hp1 Hk. pose proof (F (YRelease tok)) as Fy. cbn [sys_step] in Fy.
      destruct (existsb (blocked_on c (sv s) tok) (S.workers (sv s))) eqn:Hex.
      * change (srv_step g s (S.LRelease tok) = None) in Fy. apply srv_step_none in Fy. unfold S.step in Fy. rewrite Hnc in Fy. discriminate Fy.
      * assert (blocked_on c (sv s) tok w = false) as Hb.
        { destruct (blocked_on c (sv s) tok w) eqn:Eb; auto.
          assert (existsb (blocked_on c (sv s) tok) (S.workers (sv s)) = true) as X
            by (apply existsb_exists; exists w; split; [eapply nth_error_In; eauto|exact Eb]). congruence. }
        unfold blocked_on in Hb. rewrite Hp1, Hk, Z.eqb_refl in Hb. cbn [andb] in Hb. exact Hb.
    + destruct (SI.term_reachable c r (sv s) Hr IR) as [TA TT].
      destruct (SI.out_reachable c _ IR (proj1 (CS.o_open _ _ _ IOr))) as [Hlost _].
      rewrite (SD.gone_pending r _ Hg), Erl, Ewd, Hz, Hlost in TT. rewrite !SI.sumf_nil in TT.
      change (SI.rl_pending (SI.term r) S.RLoop) with 0 in TT.
      assert (SI.h_pending (SI.term r) (S.hp (sv s)) = 0) as Hh0 by (destruct Hhp as [->|[->| ->]]; reflexivity).
      rewrite Hh0 in TT. unfold nacc in Hone. rewrite Ei in Hone. rewrite SI.sumf_nil in Hone. lia.
Qed.

Theorem sys_returns : forall ys s, sys_run g (sys_init callspecs false) ys = Some s -> sys_final g s ->
  forall i c0, nth_error (C.callers (cl s)) i = Some c0 -> C.caller_done c0 = true.
Proof. intros ys s H F. apply sys_progress; auto. eapply linv_run; [apply linv_init|exact H]. Qed.

(* REFINEMENT: at the end of every maximal execution every Execute has returned CallStep of its own input *)
Theorem sys_refines : forall ys s, sys_run g (sys_init callspecs false) ys = Some s -> sys_final g s ->
  forall i x, nth_error callspecs i = Some x -> sys_result s i = Some (spec_callstep g (C.cs_input x)).
Proof.
  intros ys s H F i x Hx. pose proof (linv_run _ _ _ linv_init H) as I.
  assert (exists c0, nth_error (C.callers (cl s)) i = Some c0) as [c0 Hc].
  { destruct (nth_error (C.callers (cl s)) i) as [c0|] eqn:E; [eauto|]. exfalso.
    apply nth_error_None in E. pose proof (si_cv _ _ _ (l_S _ I)) as Ecv.
    assert (List.length (C.callers (cl s)) = List.length callspecs) as El.
    { rewrite <- (map_length cv2), Ecv. unfold calls. apply map_length. }
    assert (nth_error callspecs i = None) as X by (apply nth_error_None; lia). congruence. }
  pose proof (sys_progress _ I F _ _ Hc) as Hd. unfold C.caller_done in Hd.
  destruct (C.c_pc c0) eqn:Hp; try discriminate.
  assert (sys_result s i = Some r) as Hr by (unfold sys_result; rewrite Hc, Hp; reflexivity).
  rewrite Hr. f_equal. eapply (sys_safety g callspecs false runs_named session_wf); eauto.
Qed.

(* an input the step rejects comes back as that run's error, and the handler is never reached *)
Theorem sys_rejected : forall ys s, sys_run g (sys_init callspecs false) ys = Some s -> sys_final g s ->
  forall i x, nth_error callspecs i = Some x -> S.step_outcome c "s" (C.cs_input x) = S.BFails ->
  sys_result s i = Some (C.RErr C.ErrStep) /\ S.handler_reached c "s" (C.cs_input x) = false.
Proof.
  intros ys s H F i x Hx Hb. rewrite (sys_refines _ _ H F _ _ Hx). unfold spec_callstep. rewrite Hb. split; [reflexivity|].
  unfold S.handler_reached, S.step_outcome in *. destruct (S.c_step_known c "s"); cbn; [rewrite Hb|]; reflexivity.
Qed.

End C05Live.
