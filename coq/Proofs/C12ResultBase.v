(* Proofs/C12ResultBase.v — the RESULT half of C12 (order independence): vocabulary and list-level facts.

   `keys_distinct v` (kfree): at every map of the value, at any depth, no two keys can be READ AS THE SAME KEY by a
   conversion the operations apply to map keys (int mapper under any units, string mapper, reflect conversion to
   int64 / string, the `any` conversion).  This is the exact absence of the D19 class; the boolean class
   predicate `has_key_collision` of Schema/Perm.v under-approximates it (keys "1" and "01" under an int-keyed
   map: C12_result_refuted in Proofs/C12ResultMain.v).

   List-level facts: a fold of `map_set` over converted entries is the list of converted entries when the
   converted keys are pairwise different; Forall2-then-Permutation is preserved by that; `map_set` of one key
   into related-then-permuted lists; association lists with unique keys are related-then-permuted as soon as
   their lookups are related. *)
From Coq Require Import Permutation Lia Bool.
From Verif Require Import Base.Prelude Base.Str Base.Float Base.GoVal
  Schema.Regex Schema.Units Schema.Syntax Schema.Ops Schema.Wf Schema.Perm
  Proofs.OpsLemmas Proofs.OpsEq Proofs.C04Inv Proofs.C12Order Proofs.C12Lookup Proofs.C12History
  Proofs.C12Schema Proofs.C12Value.
Open Scope string_scope.

(* ---------- keys that can be read as the same key ----------
   Ub: the units under which an int-keyed map of the schema reads its keys (Schema: `map_key_units Ub e s`,
   Proofs/C12ResultUnser.v).  `fun _ => true` quantifies over every units definition. *)
Section KC.
Context {Ub : option units -> bool}.

Definition kc (k1 k2 : gval) : Prop :=
  (exists u z, Ub u = true /\ int_mapper u k1 = Some z /\ int_mapper u k2 = Some z) \/
  (exists s, string_mapper k1 = Some s /\ string_mapper k2 = Some s) \/
  (exists z, conv_int64 k1 = Some z /\ conv_int64 k2 = Some z) \/
  (exists s, conv_string k1 = Some s /\ conv_string k2 = Some s) \/
  (exists f r1 r2, any_conv f k1 = Ok r1 /\ any_conv f k2 = Ok r2 /\ (key_eqb r1 r2 = true \/ key_eqb r2 r1 = true)).

Lemma kc_sym k1 k2 : kc k1 k2 -> kc k2 k1.
Proof.
  intros [H|[H|[H|[H|H]]]].
  - left. destruct H as (u & z & Hu & H1 & H2). exists u, z. auto.
  - right; left. destruct H as (s & H1 & H2). eauto.
  - right; right; left. destruct H as (z & H1 & H2). eauto.
  - right; right; right; left. destruct H as (s & H1 & H2). eauto.
  - right; right; right; right. destruct H as (f & r1 & r2 & H1 & H2 & H3). exists f, r2, r1. tauto.
Qed.

Fixpoint pw {A} (P : A -> A -> Prop) (l : list A) : Prop :=
  match l with [] => True | a :: t => Forall (P a) t /\ pw P t end.

Definition knc (a b : gval * gval) : Prop := ~ kc (fst a) (fst b).

Inductive kfree : gval -> Prop :=
| kf_slice t b l : Forall kfree l -> kfree (VSlice t b l)
| kf_map t b kvs : pw knc kvs -> Forall (fun kv => kfree (fst kv) /\ kfree (snd kv)) kvs -> kfree (VMap t b kvs)
| kf_leaf v : match v with VSlice _ _ _ | VMap _ _ _ => False | _ => True end -> kfree v.

Definition or_free (o : oracles) : Prop := forall txt d, o_json o txt = Some d -> kfree d.

Lemma kfree_slice t b l : kfree (VSlice t b l) -> Forall kfree l.
Proof. intros H. inversion H; subst; [assumption | contradiction]. Qed.

Lemma kfree_map t b kvs : kfree (VMap t b kvs) ->
  pw knc kvs /\ Forall (fun kv => kfree (fst kv) /\ kfree (snd kv)) kvs.
Proof. intros H. inversion H; subst; [split; assumption | contradiction]. Qed.

(* ---------- pairwise ---------- *)
Lemma pw_f2 {A B} (P : A -> A -> Prop) (Q : B -> B -> Prop) (R : A -> B -> Prop) l m :
  Forall2 R l m -> (forall a a' b b', R a b -> R a' b' -> P a a' -> Q b b') -> pw P l -> pw Q m.
Proof.
  intros HF HR. induction HF as [|a b l m Hab HF IH]; intros Hp; [exact I|].
  destruct Hp as [Hh Ht]. split; [|exact (IH Ht)].
  clear IH Ht. revert Hh. induction HF as [|a' b' l m Hab' _ IH2]; intros Hh; [constructor|].
  inversion Hh as [|? ? Hp1 Hp2]; subst. constructor; [exact (HR _ _ _ _ Hab Hab' Hp1) | exact (IH2 Hp2)].
Qed.

Lemma pw_perm {A} (P : A -> A -> Prop) l l' :
  (forall a b, P a b -> P b a) -> Permutation l l' -> pw P l -> pw P l'.
Proof.
  intros Hs HP. induction HP as [|x m m' HP0 IH0|x y m|m m' m'' H1 IH1 H2 IH2]; intros Hp.
  - exact I.
  - destruct Hp as [Hh Ht]. split; [|exact (IH0 Ht)].
    rewrite Forall_forall in *. intros z Hz. apply Hh. eapply Permutation_in; [apply Permutation_sym; exact HP0 | exact Hz].
  - destruct Hp as [Hy [Hx Ht]]. inversion Hy as [|? ? Hyx Hym]; subst.
    split; [constructor; [apply Hs; exact Hyx | exact Hx] | split; [exact Hym | exact Ht]].
  - auto.
Qed.

Lemma pw_filter {A} (P : A -> A -> Prop) (p : A -> bool) l : pw P l -> pw P (filter p l).
Proof.
  induction l as [|a t IH]; intros Hp; [exact I|]. destruct Hp as [Hh Ht]. cbn [filter].
  destruct (p a); [|exact (IH Ht)]. split; [|exact (IH Ht)].
  rewrite Forall_forall in *. intros z Hz. apply filter_In in Hz. apply Hh. tauto.
Qed.

Lemma kfree_filter t b t2 b2 (p : gval * gval -> bool) kvs : kfree (VMap t b kvs) -> kfree (VMap t2 b2 (filter p kvs)).
Proof.
  intros H. apply kfree_map in H. destruct H as [H1 H2]. apply kf_map; [now apply pw_filter|].
  rewrite Forall_forall in *. intros z Hz. apply filter_In in Hz. apply H2. tauto.
Qed.

(* ---------- perm_val: views and invariance of the key comparison ---------- *)
Notation Q0 := (fun a b : gval * gval => perm_val (fst a) (fst b) /\ perm_val (snd a) (snd b)).

Lemma f2_pv_refl (l : list (gval * gval)) : Forall2 Q0 l l.
Proof. induction l; constructor; [split; apply pv_refl | assumption]. Qed.

Lemma f2_pv_refl1 (l : list gval) : Forall2 perm_val l l.
Proof. induction l; constructor; [apply pv_refl | assumption]. Qed.

Lemma pv_map_view t b kvs y : perm_val (VMap t b kvs) y ->
  exists kvs1 kvs', y = VMap t b kvs' /\ Forall2 Q0 kvs kvs1 /\ Permutation kvs1 kvs'.
Proof.
  intros H. inversion H; subst.
  - exists kvs, kvs. split; [reflexivity|]. split; [apply f2_pv_refl | apply Permutation_refl].
  - eexists _, _. split; [reflexivity|]. split; eassumption.
Qed.

Lemma pv_slice_view t b l y : perm_val (VSlice t b l) y -> exists l', y = VSlice t b l' /\ Forall2 perm_val l l'.
Proof.
  intros H. inversion H; subst.
  - exists l. split; [reflexivity | apply f2_pv_refl1].
  - eexists. split; [reflexivity | eassumption].
Qed.

Definition is_vmap (v : gval) : bool := match v with VMap _ _ _ => true | _ => false end.
Definition is_vslice (v : gval) : bool := match v with VSlice _ _ _ => true | _ => false end.
Lemma pv_is_vmap v v' : perm_val v v' -> is_vmap v = is_vmap v'.
Proof. destruct 1; reflexivity. Qed.
Lemma pv_is_vslice v v' : perm_val v v' -> is_vslice v = is_vslice v'.
Proof. destruct 1; reflexivity. Qed.

Lemma key_eqb_pv a a' b b' : perm_val a a' -> perm_val b b' -> key_eqb a b = key_eqb a' b'.
Proof.
  intros Ha Hb. destruct Ha as [v| | | |]; destruct Hb as [w| | | |]; try reflexivity;
    try (destruct v; reflexivity); try (destruct w; reflexivity).
Qed.

Lemma perm_rtype : forall s s', perm_schema s s' -> rtype s = rtype s'.
Proof.
  induction s; intros s' H; inversion H; subst; cbn [rtype]; try reflexivity.
  - f_equal. now apply IHs.
  - f_equal; [now apply IHs1 | now apply IHs2].
Qed.

(* ---------- outcomes related on their results ---------- *)
Definition res_rel (o o' : outcome gval) : Prop := forall r r', o = Ok r -> o' = Ok r' -> perm_val r r'.

Lemma res_rel_eq o o' : o = o' -> res_rel o o'.
Proof. intros -> r r' H1 H2. rewrite H1 in H2. inversion H2. apply pv_refl. Qed.

Lemma res_rel_bind {A A'} (o : outcome A) (o' : outcome A') k k' :
  (forall a a', o = Ok a -> o' = Ok a' -> res_rel (k a) (k' a')) -> res_rel (bind o k) (bind o' k').
Proof.
  intros H r r' H1 H2. apply bind_ok in H1. apply bind_ok in H2.
  destruct H1 as (a & Ha & H1). destruct H2 as (a' & Ha' & H2). exact (H a a' Ha Ha' r r' H1 H2).
Qed.

Lemma res_rel_notok_l o o' : is_ok o = false -> res_rel o o'.
Proof. intros H r r' H1. rewrite H1 in H. discriminate. Qed.
Lemma res_rel_notok_r o o' : is_ok o' = false -> res_rel o o'.
Proof. intros H r r' _ H1. rewrite H1 in H. discriminate. Qed.

Lemma res_rel_seg s s' o o' : res_rel o o' -> res_rel (seg s o) (seg s' o').
Proof. intros H r r' H1 H2. apply seg_ok in H1. apply seg_ok in H2. auto. Qed.

(* ---------- folds of map_set ---------- *)
Definition set_all (ps a0 : list (gval * gval)) : list (gval * gval) :=
  fold_left (fun a p => map_set (fst p) (snd p) a) ps a0.
Definition kd (a b : gval * gval) : Prop :=
  key_eqb (fst a) (fst b) = false /\ key_eqb (fst b) (fst a) = false.

Lemma kd_sym a b : kd a b -> kd b a.
Proof. unfold kd. tauto. Qed.

Lemma map_set_fresh k v l : (forall q, In q l -> key_eqb k (fst q) = false) -> map_set k v l = (l ++ [(k, v)])%list.
Proof.
  induction l as [|[k' v'] t IH]; intros H; cbn [map_set app]; [reflexivity|].
  pose proof (H (k', v') (or_introl eq_refl)) as E. cbn [fst] in E. rewrite E. f_equal.
  apply IH. intros q Hq. apply H. now right.
Qed.

Lemma set_all_fresh ps : forall a0,
  (forall p q, In p ps -> In q a0 -> key_eqb (fst p) (fst q) = false) -> pw kd ps -> set_all ps a0 = (a0 ++ ps)%list.
Proof.
  unfold set_all. induction ps as [|p t IH]; intros a0 Hf Hp; cbn [fold_left]; [now rewrite app_nil_r|].
  destruct Hp as [Hh Ht].
  rewrite (map_set_fresh (fst p) (snd p) a0) by (intros q Hq; apply (Hf p q); [now left | exact Hq]).
  rewrite IH; [rewrite <- app_assoc; cbn [app]; now rewrite <- surjective_pairing | | exact Ht].
  intros p' q Hp' Hq. apply in_app_or in Hq. destruct Hq as [Hq|[<-|[]]].
  - apply (Hf p' q); [now right | exact Hq].
  - cbn [fst]. rewrite Forall_forall in Hh. exact (proj2 (Hh p' Hp')).
Qed.

Lemma fold_set2 {A} (gk : A -> outcome gval) (gv : A -> gval -> outcome gval) l : forall a0 r,
  fold_left (fun acc x => a <- acc ;; k' <- gk x ;; v' <- gv x k' ;; Ok (map_set k' v' a)) l (Ok a0) = Ok r ->
  exists ps, Forall2 (fun x p => gk x = Ok (fst p) /\ gv x (fst p) = Ok (snd p)) l ps /\ r = set_all ps a0.
Proof.
  induction l as [|x t IH]; intros a0 r H.
  - cbn in H. inversion H. exists []. split; [constructor | reflexivity].
  - apply (fold_bind_cons (fun a x => k' <- gk x ;; v' <- gv x k' ;; Ok (map_set k' v' a))) in H.
    destruct H as (a1 & H1 & H2). apply bind_ok in H1. destruct H1 as (k1 & Hk & H1).
    apply bind_ok in H1. destruct H1 as (v1 & Hv & H1). inversion H1; subst a1.
    destruct (IH _ _ H2) as (ps & HF & Hr). exists ((k1, v1) :: ps).
    split; [constructor; [split; assumption | exact HF] | exact Hr].
Qed.

(* ---------- both sides of one loop ---------- *)
Lemma f2_three {A B} (Q : A -> A -> Prop) (G1 G2 : A -> B -> Prop) (R : B -> B -> Prop) l l1 :
  Forall2 Q l l1 -> forall m m1, Forall2 G1 l m -> Forall2 G2 l1 m1 ->
  (forall x x' p p', In x l -> Q x x' -> G1 x p -> G2 x' p' -> R p p') -> Forall2 R m m1.
Proof.
  induction 1 as [|x x' l l1 Hq HQ IH]; intros m m1 H1 H2 HR.
  - inversion H1; inversion H2; constructor.
  - inversion H1 as [|? p ? m' Hg1 H1']; inversion H2 as [|? p' ? m1' Hg2 H2']; subst.
    constructor; [exact (HR _ _ _ _ (or_introl eq_refl) Hq Hg1 Hg2)|].
    apply (IH _ _ H1' H2'). intros y y' q q' Hy. apply HR. now right.
Qed.

Lemma perm_f2 {A B} (G : A -> B -> Prop) l l' : Permutation l l' -> forall m', Forall2 G l' m' ->
  exists m, Forall2 G l m /\ Permutation m m'.
Proof.
  induction 1 as [|x l l' HP IH|x y l|l l' l'' H1 IH1 H2 IH2]; intros m' HF.
  - inversion HF; subst. exists []. split; constructor.
  - inversion HF as [|? b ? t Hg HF']; subst. destruct (IH _ HF') as (m & Hm & Hp).
    exists (b :: m). split; [constructor; assumption | now constructor].
  - inversion HF as [|? b ? t Hg HF']; subst. inversion HF' as [|? c ? t' Hg' HF'']; subst.
    exists (c :: b :: t'). split; [repeat constructor; assumption | apply perm_swap].
  - destruct (IH2 _ HF) as (m2 & Hm2 & Hp2). destruct (IH1 _ Hm2) as (m1 & Hm1 & Hp1).
    exists m1. split; [exact Hm1 | eapply perm_trans; eauto].
Qed.

Lemma kd_pv a a' b b' : Q0 a b -> Q0 a' b' -> kd a a' -> kd b b'.
Proof.
  intros [Ha _] [Ha' _] [H1 H2]. unfold kd.
  rewrite <- (key_eqb_pv _ _ _ _ Ha Ha'), <- (key_eqb_pv _ _ _ _ Ha' Ha). tauto.
Qed.

(* the result of a map loop, both sides: converted entries related-then-permuted, converted keys distinct *)
Lemma map_result_rel (G1 G2 : gval * gval -> gval * gval -> Prop) kvs kvs1 kvs' ps ps' t b :
  Forall2 Q0 kvs kvs1 -> Permutation kvs1 kvs' -> pw knc kvs ->
  Forall2 G1 kvs ps -> Forall2 G2 kvs' ps' ->
  (forall x x' p p', In x kvs -> Q0 x x' -> G1 x p -> G2 x' p' -> Q0 p p') ->
  (forall x y p q, G1 x p -> G1 y q -> knc x y -> kd p q) ->
  perm_val (VMap t b (set_all ps [])) (VMap t b (set_all ps' [])).
Proof.
  intros HF HP Hpw HF1 HF2 Hrel Hinj.
  destruct (perm_f2 G2 kvs1 kvs' HP ps' HF2) as (ps1 & HF21 & HPp).
  assert (HR : Forall2 Q0 ps ps1) by exact (f2_three Q0 G1 G2 Q0 kvs kvs1 HF ps ps1 HF1 HF21 Hrel).
  assert (Hd : pw kd ps).
  { apply (pw_f2 knc kd G1 kvs ps HF1); [|exact Hpw]. intros a a' p q Ha Ha' Hn. exact (Hinj _ _ _ _ Ha Ha' Hn). }
  assert (Hd1 : pw kd ps1).
  { apply (pw_f2 kd kd Q0 ps ps1 HR); [|exact Hd]. intros a a' p q Ha Ha' Hk. exact (kd_pv _ _ _ _ Ha Ha' Hk). }
  assert (Hd' : pw kd ps') by exact (pw_perm kd ps1 ps' kd_sym HPp Hd1).
  rewrite !set_all_fresh by (try assumption; intros p q _ []).
  cbn [app]. apply (pv_map t b ps ps1 ps'); assumption.
Qed.

Lemma mapMi_f2_rel {A B} (Q : A -> A -> Prop) (R : B -> B -> Prop) (g g' : Z -> A -> outcome B) l l' :
  Forall2 Q l l' -> (forall j x x' y y', In x l -> Q x x' -> g j x = Ok y -> g' j x' = Ok y' -> R y y') ->
  forall i ys ys', mapMi g i l = Ok ys -> mapMi g' i l' = Ok ys' -> Forall2 R ys ys'.
Proof.
  induction 1 as [|x x' l l' Hq HF IH]; intros HR i ys ys' H1 H2; cbn [mapMi] in *.
  - inversion H1; inversion H2; constructor.
  - apply bind_ok in H1. destruct H1 as (y & Hy & H1). apply bind_ok in H1. destruct H1 as (t & Ht & H1). inversion H1; subst.
    apply bind_ok in H2. destruct H2 as (y' & Hy' & H2). apply bind_ok in H2. destruct H2 as (t' & Ht' & H2). inversion H2; subst.
    constructor; [exact (HR _ _ _ _ _ (or_introl eq_refl) Hq Hy Hy')|].
    exact (IH (fun j x0 x0' y0 y0' Hin => HR j x0 x0' y0 y0' (or_intror Hin)) _ _ _ Ht Ht').
Qed.

(* ---------- association lists with unique keys: lookups determine the list up to order ---------- *)
Lemma f2_map_self {A B} (P : A -> B -> Prop) (g : A -> B) l : (forall a, In a l -> P a (g a)) -> Forall2 P l (map g l).
Proof. induction l as [|a t IH]; intros H; cbn [map]; constructor; [apply H; now left | apply IH; intros; apply H; now right]. Qed.

Lemma rp_of_lookups (R : gval -> gval -> Prop) (l l' : raw) :
  nodup_str (map fst l) = true -> nodup_str (map fst l') = true ->
  (forall k, match alookup k l, alookup k l' with Some x, Some y => R x y | None, None => True | _, _ => False end) ->
  exists l1, Forall2 (fun a b => fst a = fst b /\ R (snd a) (snd b)) l l1 /\ Permutation l1 l'.
Proof.
  intros Hn Hn' H. apply nodup_str_NoDup in Hn. apply nodup_str_NoDup in Hn'.
  set (g := fun kv : string * gval => (fst kv, match alookup (fst kv) l' with Some y => y | None => snd kv end)).
  exists (map g l). split.
  - apply f2_map_self. intros [k x] Hin. unfold g. cbn [fst snd]. split; [reflexivity|].
    pose proof (In_alookup_nodup k x l Hn Hin) as E. specialize (H k). rewrite E in H.
    destruct (alookup k l'); [exact H | contradiction].
  - apply NoDup_Permutation.
    + apply (NoDup_map_inv fst). rewrite map_map. unfold g. cbn [fst]. exact Hn.
    + exact (NoDup_map_inv fst l' Hn').
    + intros [k y]. split.
      * intros Hin. apply in_map_iff in Hin. destruct Hin as ([k0 x] & Hg & Hin). unfold g in Hg. cbn [fst snd] in Hg.
        inversion Hg; subst k0. clear Hg.
        pose proof (In_alookup_nodup k x l Hn Hin) as E. specialize (H k). rewrite E in H.
        destruct (alookup k l') as [y'|] eqn:E'; [|contradiction]. apply alookup_In. exact E'.
      * intros Hin. pose proof (In_alookup_nodup k y l' Hn' Hin) as E'. specialize (H k). rewrite E' in H.
        destruct (alookup k l) as [x|] eqn:E; [|contradiction]. apply alookup_In in E.
        apply in_map_iff. exists (k, x). split; [|exact E]. unfold g. cbn [fst snd]. now rewrite E'.
Qed.

(* ---------- map_set of one key into related-then-permuted lists ---------- *)
Definition kcnt (k : gval) (l : list (gval * gval)) : nat := List.length (filter (fun x => key_eqb k (fst x)) l).

Lemma map_set_uniq k v l : (kcnt k l <= 1)%nat ->
  map_set k v l = if existsb (fun x => key_eqb k (fst x)) l
                  then map (fun x => if key_eqb k (fst x) then (k, v) else x) l else (l ++ [(k, v)])%list.
Proof.
  unfold kcnt. induction l as [|[k' v'] t IH]; intros Hc; [reflexivity|].
  cbn [filter fst] in Hc. cbn [map_set existsb map app fst].
  destruct (key_eqb k k') eqn:E; cbn [orb].
  - f_equal. symmetry. etransitivity; [apply map_ext_in | apply map_id].
    intros x Hx. cbv beta. destruct (key_eqb k (fst x)) eqn:Ex; [|reflexivity]. exfalso.
    assert (Hin : In x (filter (fun x0 : gval * gval => key_eqb k (fst x0)) t)) by (apply filter_In; split; assumption).
    destruct (filter (fun x0 : gval * gval => key_eqb k (fst x0)) t); [contradiction | cbn [List.length] in Hc; lia].
  - rewrite (IH Hc). destruct (existsb (fun x => key_eqb k (fst x)) t); reflexivity.
Qed.

Lemma map_set_perm k v l l' : Permutation l l' -> (kcnt k l <= 1)%nat -> Permutation (map_set k v l) (map_set k v l').
Proof.
  intros HP Hc.
  assert (Hc' : (kcnt k l' <= 1)%nat).
  { unfold kcnt in *. rewrite <- (Permutation_length (perm_filter (fun x => key_eqb k (fst x)) l l' HP)). exact Hc. }
  rewrite (map_set_uniq k v l Hc), (map_set_uniq k v l' Hc'), (existsb_perm _ _ _ HP).
  destruct (existsb (fun x => key_eqb k (fst x)) l'); [now apply Permutation_map | now apply Permutation_app_tail].
Qed.

Lemma map_set_f2 k v v' l l1 : perm_val v v' -> Forall2 Q0 l l1 -> Forall2 Q0 (map_set k v l) (map_set k v' l1).
Proof.
  intros Hv. induction 1 as [|[ka va] [kb vb] l l1 [Hk Hx] HF IH]; cbn [map_set].
  - constructor; [split; [apply pv_refl | exact Hv] | constructor].
  - cbn [fst snd] in *. rewrite <- (key_eqb_pv k k ka kb (pv_refl k) Hk). destruct (key_eqb k ka).
    + constructor; [split; [apply pv_refl | exact Hv] | exact HF].
    + constructor; [split; assumption | exact IH].
Qed.

Lemma kcnt_f2 k l l1 : Forall2 Q0 l l1 -> kcnt k l1 = kcnt k l.
Proof.
  unfold kcnt. induction 1 as [|[ka va] [kb vb] l l1 [Hk Hx] HF IH]; [reflexivity|].
  cbn [filter fst snd] in *. rewrite <- (key_eqb_pv k k ka kb (pv_refl k) Hk).
  destruct (key_eqb k ka); cbn [List.length]; congruence.
Qed.

Lemma map_set_rp k v v' l l1 l' : perm_val v v' -> (kcnt k l <= 1)%nat ->
  Forall2 Q0 l l1 -> Permutation l1 l' ->
  exists m1, Forall2 Q0 (map_set k v l) m1 /\ Permutation m1 (map_set k v' l').
Proof.
  intros Hv Hc HF HP. exists (map_set k v' l1). split; [now apply map_set_f2|].
  apply map_set_perm; [exact HP|]. now rewrite (kcnt_f2 k l l1 HF).
Qed.

Definition inj_raw (r : raw) : list (gval * gval) := map (fun kv : string * gval => (vstr (fst kv), snd kv)) r.

Lemma kcnt_raw_cons k k0 v0 (t : raw) :
  kcnt (vstr k) (inj_raw ((k0, v0) :: t)) = if String.eqb k k0 then S (kcnt (vstr k) (inj_raw t)) else kcnt (vstr k) (inj_raw t).
Proof. unfold kcnt, inj_raw. cbn [map filter fst snd key_eqb vstr]. destruct (String.eqb k k0); reflexivity. Qed.

Lemma kcnt_raw_notin k (r : raw) : str_in k (map fst r) = false -> kcnt (vstr k) (inj_raw r) = O.
Proof.
  induction r as [|[k0 v0] t IH]; intros H; [reflexivity|].
  cbn [map fst str_in] in H. apply orb_false_elim in H as [H1 H2].
  rewrite kcnt_raw_cons, H1. exact (IH H2).
Qed.

Lemma kcnt_raw k (r : raw) : nodup_str (map fst r) = true -> (kcnt (vstr k) (inj_raw r) <= 1)%nat.
Proof.
  induction r as [|[k0 v0] t IH]; intros H; [unfold kcnt; cbn; lia|].
  cbn [map fst nodup_str] in H. apply andb_prop in H as [H1 H2]. apply negb_true_iff in H1.
  rewrite kcnt_raw_cons. destruct (String.eqb k k0) eqn:E.
  - apply String.eqb_eq in E. subst k0. rewrite (kcnt_raw_notin k t H1). lia.
  - exact (IH H2).
Qed.

(* ---------- raw views of a map argument under keys_distinct ---------- *)
Lemma sel_tstr_kc k1 k2 s : sel_tstr k1 = Some s -> sel_tstr k2 = Some s -> kc k1 k2.
Proof.
  destruct k1 as [| | | |t1 s1| | | | | |]; try discriminate. destruct t1; try discriminate.
  destruct k2 as [| | | |t2 s2| | | | | |]; try discriminate. destruct t2; try discriminate.
  cbn [sel_tstr]. intros [= ->] [= ->]. right; left. exists s. split; reflexivity.
Qed.

Lemma sel_str_kc k1 k2 s : sel_str k1 = Some s -> sel_str k2 = Some s -> kc k1 k2.
Proof.
  destruct k1 as [| | | |t1 s1| | | | | |]; try discriminate.
  destruct k2 as [| | | |t2 s2| | | | | |]; try discriminate.
  cbn [sel_str]. intros [= ->] [= ->]. right; right; right; left. exists s. split; reflexivity.
Qed.

Lemma raw_by_nodup_k (sel : gval -> option string) :
  (forall k1 k2 s, sel k1 = Some s -> sel k2 = Some s -> kc k1 k2) ->
  forall kvs, pw knc kvs -> nodup_str (map fst (raw_by sel kvs)) = true.
Proof.
  intros Hsel. induction kvs as [|kv t IH]; intros Hp; [reflexivity|]. destruct Hp as [Hh Ht].
  rewrite raw_by_cons. destruct (sel (fst kv)) as [s|] eqn:Es; cbn [app map fst]; [|exact (IH Ht)].
  cbn [nodup_str]. rewrite (IH Ht), andb_true_r. apply negb_true_iff.
  destruct (str_in s (map fst (raw_by sel t))) eqn:Ein; [|reflexivity]. exfalso.
  apply str_in_In in Ein. apply in_map_iff in Ein. destruct Ein as ([s' x] & Hs' & Hin). cbn [fst] in Hs'. subst s'.
  unfold raw_by in Hin. apply in_flat_map in Hin. destruct Hin as (kv' & Hin' & Hx).
  destruct (sel (fst kv')) as [s2|] eqn:Es2; [|contradiction]. destruct Hx as [Hx|[]]. inversion Hx; subst.
  rewrite Forall_forall in Hh. exact (Hh kv' Hin' (Hsel _ _ _ Es Es2)).
Qed.

(* the values found under one key on both sides *)
Definition Qk (x y : gval) : Prop := perm_val x y /\ kfree x.

Lemma f2_qk (kvs kvs1 : list (gval * gval)) :
  Forall2 Q0 kvs kvs1 -> Forall (fun kv => kfree (fst kv) /\ kfree (snd kv)) kvs ->
  Forall2 (fun a b => perm_val (fst a) (fst b) /\ Qk (snd a) (snd b)) kvs kvs1.
Proof.
  induction 1 as [|a b l l1 [Hk Hv] _ IH]; intros H; constructor.
  - inversion H as [|? ? Hh Ht]; subst. destruct Hh as [_ H1]. split; [exact Hk | split; [exact Hv | exact H1]].
  - apply IH. now inversion H.
Qed.

Lemma raw_by_lookup_k (sel : gval -> option string) :
  (forall k1 k2 s, sel k1 = Some s -> sel k2 = Some s -> kc k1 k2) ->
  (forall x y, perm_val x y -> sel x = sel y) ->
  forall kvs kvs1 kvs' k, pw knc kvs -> Forall (fun kv => kfree (fst kv) /\ kfree (snd kv)) kvs ->
  Forall2 Q0 kvs kvs1 -> Permutation kvs1 kvs' ->
  match alookup k (raw_by sel kvs), alookup k (raw_by sel kvs') with
  | Some x, Some y => Qk x y
  | None, None => True
  | _, _ => False
  end.
Proof.
  intros Hsel Hleaf kvs kvs1 kvs' k Hpw Hall HF HP.
  apply (rel_alookup Qk k (raw_by sel kvs) (raw_by sel kvs1) (raw_by sel kvs')).
  - now apply raw_by_nodup_k.
  - apply (raw_by_f2 sel Hleaf Qk). now apply f2_qk.
  - now apply perm_flat_map.
Qed.

Lemma raw_by_nodup_side (sel : gval -> option string) :
  (forall k1 k2 s, sel k1 = Some s -> sel k2 = Some s -> kc k1 k2) ->
  (forall x y, perm_val x y -> sel x = sel y) ->
  forall kvs kvs1 kvs', pw knc kvs -> Forall2 Q0 kvs kvs1 -> Permutation kvs1 kvs' ->
  nodup_str (map fst (raw_by sel kvs')) = true.
Proof.
  intros Hsel Hleaf kvs kvs1 kvs' Hpw HF HP.
  rewrite <- (nodup_str_perm (map fst (raw_by sel kvs1)) (map fst (raw_by sel kvs'))).
  2: { apply Permutation_map. now apply perm_flat_map. }
  rewrite <- (f2_keys perm_val (raw_by sel kvs) (raw_by sel kvs1) (raw_by_f2 sel Hleaf perm_val kvs kvs1 HF)).
  now apply raw_by_nodup_k.
Qed.

(* decoded defaults *)
Lemma dfl_free o ps k d : or_free o -> dfl o ps k = Some d -> kfree d.
Proof.
  intros Ho. unfold dfl, dec_default, decode_default. destruct (alookup k ps) as [p|]; [|discriminate].
  destruct (p_default p) as [txt|]; [|discriminate].
  destruct (o_json o txt) as [d0|] eqn:E; [intros [= <-]; exact (Ho _ _ E)|].
  destruct (type_id_of (p_type p)); try discriminate. intros H. exact (Ho _ _ H).
Qed.

(* ---------- the `any` conversion ---------- *)
Lemma any_conv_result : forall f v v', perm_val v v' -> kfree v -> res_rel (any_conv f v) (any_conv f v').
Proof.
  induction f as [|f IH]; intros v v' Hv Hk; [intros r r' H; discriminate H|].
  destruct Hv as [v | t b l l' HF | t b kvs kvs1 kvs' HF HP | t x x' Hx | t fs fs' HF];
    [apply res_rel_eq; reflexivity| | | |]; cbn [any_conv kind_of].
  - (* slices *)
    destruct (kind_of_type t) as [| |ki| | | | | | | | |]; try destruct ki; try (apply res_rel_notok_l; reflexivity).
    cbv beta iota.
    apply res_rel_bind. intros ys ys' H1 H2 r r' Hr Hr'. inversion Hr; inversion Hr'; subst. apply pv_slice.
    apply kfree_slice in Hk. rewrite Forall_forall in Hk.
    apply (mapMi_f2_rel perm_val perm_val (fun i x => seg (idx_seg i) (any_conv f x)) (fun i x => seg (idx_seg i) (any_conv f x)) l l' HF)
      with (i := 0%Z) (ys := ys) (ys' := ys'); [|exact H1 | exact H2].
    intros j x x' y y' Hin Hx Hy Hy'. apply seg_ok in Hy. apply seg_ok in Hy'. exact (IH x x' Hx (Hk x Hin) y y' Hy Hy').
  - (* maps *)
    destruct (kind_of_type t) as [| |ki| | | | | | | | |]; try destruct ki; try (apply res_rel_notok_l; reflexivity).
    cbv beta iota.
    apply res_rel_bind. intros rs rs' H1 H2 r r' Hr Hr'. inversion Hr; inversion Hr'; subst.
    apply (fold_set2 (fun kv => seg (mkey_seg (fst kv)) (any_conv f (fst kv)))
                     (fun kv k' => seg (mval_seg k') (any_conv f (snd kv)))) in H1.
    apply (fold_set2 (fun kv => seg (mkey_seg (fst kv)) (any_conv f (fst kv)))
                     (fun kv k' => seg (mval_seg k') (any_conv f (snd kv)))) in H2.
    destruct H1 as (ps & HF1 & ->). destruct H2 as (ps' & HF2 & ->).
    apply kfree_map in Hk. destruct Hk as [Hpw Hall]. rewrite Forall_forall in Hall.
    eapply (map_result_rel _ _ kvs kvs1 kvs' ps ps'); [exact HF | exact HP | exact Hpw | exact HF1 | exact HF2 | |].
    + intros x x' p p' Hin [Hxk Hxv] [Hg1 Hg2] [Hg1' Hg2']. cbv beta in *.
      apply seg_ok in Hg1. apply seg_ok in Hg2. apply seg_ok in Hg1'. apply seg_ok in Hg2'.
      destruct (Hall x Hin) as [Hfk Hfv].
      split; [exact (IH _ _ Hxk Hfk _ _ Hg1 Hg1') | exact (IH _ _ Hxv Hfv _ _ Hg2 Hg2')].
    + intros x y p q [Hg1 _] [Hg2 _] Hn. cbv beta in *. apply seg_ok in Hg1. apply seg_ok in Hg2. unfold kd.
      destruct (key_eqb (fst p) (fst q)) eqn:E1.
      { exfalso. apply Hn. right; right; right; right. exists f, (fst p), (fst q).
        split; [exact Hg1|]. split; [exact Hg2|]. left; exact E1. }
      destruct (key_eqb (fst q) (fst p)) eqn:E2; [|split; reflexivity].
      exfalso. apply Hn. right; right; right; right. exists f, (fst p), (fst q).
      split; [exact Hg1|]. split; [exact Hg2|]. right; exact E2.
  - (* pointers: never converted *)
    destruct (kind_of_type t) as [| |ki| | | | | | | | |]; try destruct ki; apply res_rel_notok_l; reflexivity.
  - destruct (kind_of_type t) as [| |ki| | | | | | | | |]; try destruct ki; apply res_rel_notok_l; reflexivity.
Qed.

End KC.
