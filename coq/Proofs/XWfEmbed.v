(* Proofs/XWfEmbed.v — `xwf` is conservative over `wf_schema`: on a schema without struct information
   (embed s, in an embedded environment) the well-formedness predicate of Schema/XWf.v IS Wf.wf_schema.
   With Proofs/XEmbed.v (the operations coincide) this makes C04_struct_never_panics a strict
   generalisation of C04_never_panics. *)
From Verif Require Import Base.Prelude Base.Str Base.Float Base.GoVal Base.XReflect
  Schema.Regex Schema.Units Schema.Syntax Schema.Ops Schema.Wf Schema.XSyntax Schema.XOps Schema.XWf
  Proofs.C04Inv Proofs.XEmbed.
Open Scope string_scope.

Lemma xw_forallb_map {A B} (f : B -> bool) (g : A -> B) l : forallb f (map g l) = forallb (fun x => f (g x)) l.
Proof. induction l as [|x t IH]; cbn; congruence. Qed.

Lemma xw_forallb_ext {A} (f g : A -> bool) l : (forall x, f x = g x) -> forallb f l = forallb g l.
Proof. intros H. induction l as [|x t IH]; cbn; congruence. Qed.

Lemma xw_map_fst {A B} (g : A -> B) (l : list (string * A)) : map fst (map (fun np => (fst np, g (snd np))) l) = map fst l.
Proof. induction l as [|x t IH]; cbn; congruence. Qed.

Lemma xw_map_fst_k {A B} (g : A -> B) (l : list (okey * A)) : map fst (map (fun np => (fst np, g (snd np))) l) = map fst l.
Proof. induction l as [|x t IH]; cbn; congruence. Qed.

Lemma xw_is_obj o : xis_obj (embed o) = is_obj o.
Proof. destruct o; reflexivity. Qed.
Lemma xw_obj_has_id id o : xobj_has_id id (embed o) = obj_has_id id o.
Proof. destruct o; reflexivity. Qed.
Lemma xw_objlike m : xobjlike (embed m) = objlike m.
Proof. destruct m; reflexivity. Qed.
Lemma xw_key_kind k : xkey_kind_ok (embed k) = key_kind_ok k.
Proof. destruct k; reflexivity. Qed.
Lemma xw_disc ik t : xdisc_type_ok ik (embed t) = disc_type_ok ik t.
Proof. destruct ik, t; reflexivity. Qed.

Lemma xw_default o p : xdefault_ok o (map_prop embed p) = default_ok o p.
Proof.
  unfold xdefault_ok, default_ok. cbn [map_prop p_default].
  destruct (p_default p); [rewrite xe_decode_default|]; reflexivity.
Qed.

Section XWfEmbed.
Variable st : stab.
Notation E := (embed_env st).

Definition emb_props (ps : list (string * property)) : list (string * xproperty) :=
  map (fun np => (fst np, map_prop embed (snd np))) ps.

Lemma xw_member_props e m : xmember_props (E e) (embed m) = option_map emb_props (member_props e m).
Proof.
  destruct m; cbn [embed xmember_props member_props option_map]; try reflexivity.
  - rewrite (xe_resolve st). destruct (resolve e id ns) as [[o e']|]; cbn [option_map fst snd]; [destruct o; reflexivity | reflexivity].
  - rewrite xe_alookup_map. destruct (alookup root objs) as [o|]; cbn [option_map]; [destruct o; reflexivity | reflexivity].
Qed.

Lemma xw_member e ik fld inl km :
  xwf_member (E e) ik fld inl (fst km, embed (snd km)) = wf_member e ik fld inl km.
Proof.
  unfold xwf_member, wf_member. cbn [fst snd]. rewrite xw_objlike, xw_member_props.
  destruct (member_props e (snd km)) as [ps|]; cbn [option_map]; [|reflexivity].
  unfold emb_props. rewrite xe_alookup_map. unfold property in *.
  destruct (alookup fld ps); cbn [option_map map_prop p_type]; [rewrite xw_disc|]; reflexivity.
Qed.

Lemma xw_local e s : xwf_local (E e) (embed s) = wf_local e s.
Proof.
  destruct s; cbn [embed xwf_local wf_local]; try reflexivity.
  - apply xw_key_kind.
  - rewrite xw_map_fst, xw_forallb_map. cbn [snd xfields_ok xe_or embed_env]. rewrite Bool.andb_true_r.
    f_equal. apply xw_forallb_ext. intros np. apply xw_default.
  - rewrite xw_map_fst_k, xw_forallb_map. f_equal. apply xw_forallb_ext. intros km. apply xw_member.
  - rewrite (xe_resolve st). destruct (resolve e id ns) as [[o e']|]; cbn [option_map fst snd]; [apply xw_is_obj | reflexivity].
  - rewrite xw_map_fst, xw_forallb_map, xe_amem_map. f_equal. f_equal.
    apply xw_forallb_ext. intros io. cbn [fst snd]. apply xw_obj_has_id.
Qed.

Lemma xw_all_nodes : forall s e, xall_nodes xwf_local (E e) (embed s) = all_nodes wf_local e s.
Proof.
  induction s using schema_ind'; intros e.
  - pose proof (xw_local e s) as L. destruct s; try discriminate; cbn [embed xall_nodes all_nodes] in *; rewrite L; reflexivity.
  - pose proof (xw_local e (SList s mn mx)) as L. cbn [embed xall_nodes all_nodes] in *. rewrite L, IHs. reflexivity.
  - pose proof (xw_local e (SMap s1 s2 mn mx)) as L. cbn [embed xall_nodes all_nodes] in *. rewrite L, IHs1, IHs2. reflexivity.
  - pose proof (xw_local e (SObject id u props)) as L. cbn [embed xall_nodes all_nodes] in *. rewrite L. f_equal.
    rewrite xw_forallb_map. cbn [snd map_prop p_type]. apply forallb_ext_in.
    eapply Forall_impl; [|exact H]. intros np Hnp. apply Hnp.
  - pose proof (xw_local e (SOneOf types ik f inld)) as L. cbn [embed xall_nodes all_nodes] in *. rewrite L. f_equal.
    rewrite xw_forallb_map. cbn [snd]. apply forallb_ext_in.
    eapply Forall_impl; [|exact H]. intros km Hkm. apply Hkm.
  - pose proof (xw_local e (SScope objs root)) as L. cbn [embed xall_nodes all_nodes] in *. rewrite L. f_equal.
    rewrite xw_forallb_map. cbn [snd]. apply forallb_ext_in.
    eapply Forall_impl; [|exact H]. intros io Hio. apply (Hio (env_enter e objs)).
Qed.

Theorem xwf_embed e s : xwf (E e) (embed s) = wf_schema e s.
Proof.
  unfold xwf, wf_schema. f_equal; [|apply xw_all_nodes].
  unfold xall_env, all_env. cbn [xe_self xe_ext embed_env]. unfold embed_tab. rewrite !xw_forallb_map. f_equal.
  - apply xw_forallb_ext. intros io. apply xw_all_nodes.
  - apply xw_forallb_ext. intros nt. cbn [snd]. unfold xall_tab, all_tab. rewrite xw_forallb_map.
    apply xw_forallb_ext. intros io. cbn [snd]. apply (xw_all_nodes (snd io) (env_enter e (snd nt))).
Qed.

End XWfEmbed.

Print Assumptions xwf_embed.
