(* Proofs/XStructTotal.v — the struct layer of Validate / Serialize / unserializeToStruct adds no panic:
   for ANY Go value (right struct, pointer, nil pointer, another struct type, a map, a named scalar ...)
   validateStruct / serializeStruct / unserializeToStruct return a result or an error, provided every
   property has a struct field (what buildObjectFieldCache guarantees at construction) and the property
   types themselves do not panic on the extracted field values.

   This is the layer-local part of

     x_struct_total : forall e s v fuel, xwf e s = true -> (no Panic from xunser / xvalidate / xserialize / xcompat)

   whose remaining part is the totality induction over all the other constructors (owned by C04). *)
From Coq Require Import Lia.
From Verif Require Import Base.Prelude Base.Str Base.Float Base.GoVal Base.XReflect
  Schema.Regex Schema.Units Schema.Syntax Schema.Ops Schema.XSyntax Schema.XOps.
Open Scope string_scope.

Definition not_panic {A} (o : outcome A) : Prop := forall w, o <> Panic w.

Lemma np_ok {A} (a : A) : not_panic (Ok a).
Proof. intros w H; discriminate. Qed.
Lemma np_err {A} e : not_panic (@Err A e).
Proof. intros w H; discriminate. Qed.

Lemma np_bind {A B} (o : outcome A) (k : A -> outcome B) :
  not_panic o -> (forall a, not_panic (k a)) -> not_panic (bind o k).
Proof.
  intros Ho Hk. destruct o as [a|e|w|]; cbn.
  - apply Hk.
  - apply np_err.
  - exfalso. apply (Ho w). reflexivity.
  - intros w H; discriminate.
Qed.

Lemma np_seg {A} s (o : outcome A) : not_panic o -> not_panic (seg s o).
Proof. intros Ho. unfold seg, map_err. destruct o; try exact Ho; intros w H; discriminate. Qed.

Lemma np_fold {A B} (step : outcome B -> A -> outcome B) (l : list A) : forall acc,
  not_panic acc ->
  (forall a x, In x l -> not_panic a -> not_panic (step a x)) ->
  not_panic (fold_left step l acc).
Proof.
  induction l as [|x t IH]; intros acc Ha Hs; cbn; [exact Ha|].
  apply IH.
  - apply Hs; [left; reflexivity | exact Ha].
  - intros a y Hy. apply Hs. right; exact Hy.
Qed.

Lemma np_forM {A} (g : A -> outcome unit) l : (forall x, not_panic (g x)) -> not_panic (forM_ g l).
Proof.
  intros Hg. induction l as [|x t IH]; cbn; [apply np_ok|]. apply np_bind; [apply Hg | intros _; exact IH].
Qed.

Lemma np_check_rules {S} (props : list (string * property_ S)) set : not_panic (xcheck_rules props set).
Proof.
  unfold xcheck_rules. apply np_forM. intros [name p]. unfold xcheck_prop_rules. cbn [fst snd].
  repeat match goal with
         | |- not_panic (if ?c then _ else _) => destruct c
         | |- not_panic (match ?l with [] => _ | _ :: _ => _ end) => destruct l
         | |- not_panic (Ok _) => apply np_ok
         | |- not_panic (Err _) => apply np_err
         end.
Qed.

Section Layer.
Variable words : list (string * bool).
Variable pu : units -> string -> option fl.

Definition fields_exist (props : list (string * xproperty)) (si : structinfo) : Prop :=
  forall name p, In (name, p) props -> alookup name (si_fields si) <> None.

(* validateStruct *)
Theorem x_struct_validate_layer_total :
  forall f e id un props si v,
    fields_exist props si ->
    (forall name p value, In (name, p) props -> not_panic (xvalidate words pu f e (p_type p) value)) ->
    not_panic (xvalidate words pu (S f) e (XObject id un props (Some si)) v).
Proof.
  intros f e id un props si v Hf Hp. cbn [xvalidate].
  destruct (xstruct_arg si v) as [sv|]; [|apply np_err].
  apply np_bind; [|intros r; apply np_check_rules].
  apply np_fold; [apply np_ok|].
  intros acc [name p] Hin Hacc. cbn [fst snd].
  apply np_bind; [exact Hacc|]. intros a.
  destruct (alookup name (si_fields si)) as [fr|] eqn:Efr; [|exfalso; exact (Hf name p Hin Efr)].
  destruct (xextract _ fr sv) as [[value vt]|]; [|apply np_ok].
  destruct (p_empty_is_default p && xis_empty (xe_structs e) _ vt value); [apply np_ok|].
  apply np_bind; [|intros _; apply np_ok]. apply np_seg. exact (Hp name p value Hin).
Qed.

(* serializeStruct *)
Theorem x_struct_serialize_layer_total :
  forall f e id un props si v,
    fields_exist props si ->
    (forall name p value, In (name, p) props -> not_panic (xserialize words pu f e (p_type p) value)) ->
    not_panic (xserialize words pu (S f) e (XObject id un props (Some si)) v).
Proof.
  intros f e id un props si v Hf Hp. cbn [xserialize].
  destruct (xstruct_arg si v) as [sv|]; [|apply np_err].
  apply np_bind.
  - apply np_fold; [apply np_ok|].
    intros acc [name p] Hin Hacc. cbn [fst snd].
    apply np_bind; [exact Hacc|]. intros a.
    destruct (alookup name (si_fields si)) as [fr|] eqn:Efr; [|exfalso; exact (Hf name p Hin Efr)].
    destruct (xextract _ fr sv) as [[value vt]|]; [|apply np_ok].
    destruct (p_empty_is_default p && xis_empty (xe_structs e) _ vt value); [apply np_ok|].
    apply np_bind; [|intros x; apply np_ok]. apply np_seg. exact (Hp name p value Hin).
  - intros out. apply np_bind; [apply np_check_rules | intros _; apply np_ok].
Qed.

(* unserializeToStruct: every reflect panic is recovered into "Field cannot be set" *)
Theorem x_struct_assign_total :
  forall e si (r : raw),
    (forall name value, In (name, value) r -> alookup name (si_fields si) <> None) ->
    not_panic (xto_struct e si r).
Proof.
  intros e si r Hf. unfold xto_struct.
  apply np_bind; [|intros s; apply np_ok].
  apply np_fold; [apply np_ok|].
  intros acc [name value] Hin Hacc. cbn [fst snd].
  apply np_bind; [exact Hacc|]. intros cur.
  destruct (alookup name (si_fields si)) as [fr|] eqn:Efr; [|exfalso; exact (Hf name value Hin Efr)].
  destruct (set_path _ _ cur (fr_idx fr) true _); [apply np_ok | apply np_err].
Qed.

End Layer.

(* the hypotheses are satisfiable: the D44 witness schema of XStruct.v has a field for every property *)
Example x_struct_layer_nonvacuous :
  fields_exist
    [("a", mkProp (XInt None None None) None false [] [] ["b"] None [] false false None);
     ("b", mkProp (XInt None None None) None false [] [] [] None [] false false None)]
    (mkStructInfo "XTwo" false
       [("a", mkFieldRef "A" [0%nat] [0%nat] (TInt I64)); ("b", mkFieldRef "B" [1%nat] [1%nat] (TInt I64))]).
Proof.
  intros name p [H | [H | []]]; inversion H; subst; cbn; discriminate.
Qed.

Print Assumptions x_struct_validate_layer_total.
Print Assumptions x_struct_serialize_layer_total.
Print Assumptions x_struct_assign_total.
