(* Extract/Extract.v — extraction of the executable model for the correspondence check.
   Only ExtrOcamlBasic and ExtrOcamlString: Z, N, positive and nat stay Coq inductives;
   no Extract Constant of our own. *)
From Coq Require Import ExtrOcamlBasic ExtrOcamlString.
From Verif Require Import Interp.Run.
Extraction Language OCaml.
Extraction "model.ml" run_case.
