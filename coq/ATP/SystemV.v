(* ATP/SystemV.v — the composition ATP/System.v instantiated at the DATA level: step inputs and outputs are values of
   the value universe `gval` (Base/GoVal.v), the two legs of the wire apply the CBOR round trip `cbor_norm`
   (Schema/Cbor.v), and what the server executes is CallableSchema.CallStep of the data layer (Call/Step.v `call_step`:
   Unserialize with the step's input scope, Validate, the handler, output lookup, Validate, Serialize).

   How the instantiation is done.  The client model ATP/Client.v is parametric in its payload type and never inspects a
   payload (it copies c_input into the work-start and the data of a work-done into the result); the server model
   ATP/Server.v consults the payload of a work-start ONLY through the behaviour oracle `c_beh` and the slow-handler
   predicate, and produces output data only through `sc_data` (ATP/System.v wire_of).  A payload of the composition is
   therefore a NAME for a value, and the data level is obtained by saying what the names denote:

     session      `vcalls : list (C.callspec gval)` - the client model's own callspec at payload := gval: run id,
                  lane predecessor, signal channels, and the INPUT VALUE the harness hands to Execute
     tok_calls    the same session with the input of call number i named by the token i
     v_input      token i      |->  the input value of call i                       (what Execute was given)
     v_wire_in    token i      |->  cbor_norm n_in (v_input i)                      (what the server's decoder delivers)
     v_scfg       the plugin of ATP/System.v:  behaviour of token i := the class of CallStep ON THE DECODED VALUE
                  v_wire_in i; the output data of token i is named -1-i
     v_den        what a token names: i >= 0 the input value of call i, -1-i the decoded output data of call i
     v_out        the result the caller receives: work-done(o, data named -1-i) |-> ROk o (cbor_norm n_out w), w the
                  serialized output data of CallStep on v_wire_in i             (what the client's decoder delivers)
     vsys_result  what Execute number i has returned, at the data level

   The in-process specification `v_spec D v` is CallStep on the ORIGINAL value v (no wire), its output data passed
   through the one CBOR round trip that the caller of Execute necessarily sees.  Proofs/C05Transparent.v proves that in
   every maximal execution vsys_result = v_spec of the call's own input, and that the server-side CallStep on the
   decoded value is literally the in-process CallStep (same result, same handler log: the handler SAW the same
   unserialized input).

   ATP/SystemVal.v is the same composition as a transition system OF ITS OWN at the value level (client model at
   payload := gval, real values on the wire and in the results, tokens only as the names under which the server model
   receives the messages); Proofs/C05Image.v proves that its executions are exactly the images under v_den of the
   token-level executions interpreted here. *)
From Coq Require Import List ZArith Bool String.
From Verif Require Import Base.Prelude Base.Str Base.Float Base.GoVal
  Schema.Regex Schema.Units Schema.Syntax Schema.Ops Schema.Cbor ATP.Msg ATP.System Call.Step.
Import ListNotations.
Local Open Scope string_scope.
Local Open Scope list_scope.

(* the data-level plugin and wire *)
Record vcfg := mkVCfg {
  v_words : list (string * bool);                   (* the SDK's boolean-word table *)
  v_pu : units -> string -> option fl;              (* ... and unit parser *)
  v_env : env;
  v_fuel : nat;                                     (* fuel of the schema operations *)
  v_plugin : plugin;                                (* Call/Step.v: step id -> input scope, output schemas, signals *)
  v_handler : stepid -> gval -> string * gval;      (* the step handlers: unserialized input -> (output id, data) *)
  v_slow : Z -> bool;                               (* calls (by number) whose handler waits for the environment *)
  v_sig_known : string -> bool;
  v_nin : nat;                                      (* depth of the CBOR round trip, client -> server leg *)
  v_nout : nat }.                                   (* ... server -> client leg *)

(* CallableSchema.CallStep "s" on a raw value: result, handler log, step-data tables.  The result and the argument the
   handler sees do not depend on the run id or on the tables (Proofs/C05Transparent.v call_step_indep). *)
Definition v_call (D : vcfg) (raw : gval) : sres (string * gval) * list log_entry * pstate :=
  call_step (v_words D) (v_pu D) (v_env D) (v_fuel D) (v_handler D) [] (v_plugin D) "" "s" raw.
Definition v_result (D : vcfg) (raw : gval) : sres (string * gval) := fst (fst (v_call D raw)).
Definition log_arg (l : log_entry) : gval := match l with LStep _ _ _ a => a | LSignal _ _ _ _ a => a end.
(* the unserialized input(s) the step handler was invoked on: [] if the handler was never reached *)
Definition v_seen (D : vcfg) (raw : gval) : list gval := map log_arg (snd (fst (v_call D raw))).

(* the class of a CallStep result in the alphabet of ATP/Server.v (atp/server.go runStep: every failure is reported as
   the step-fatal error of the run; running out of model fuel is filed with the panics) *)
Definition v_beh (r : sres (string * gval)) : S.sbeh :=
  match r with
  | SOk (o, _) => S.BSuccess o
  | SErr CENoSuchStep | SErr (CEInvalidInput _) => S.BFails
  | SErr CEUndeclaredOutput => S.BUndeclared
  | SErr _ => S.BInvalidData
  | SPanic _ | SFuel => S.BPanics
  end.

(* names for the inputs: call number i <-> token i *)
Fixpoint tok_from (k : nat) (l : list (C.callspec gval)) : list (C.callspec Z) :=
  match l with
  | [] => []
  | x :: t => C.mkCall (C.cs_run x) (C.cs_after x) (C.cs_sig x) (C.cs_sigfrom x) (Z.of_nat k) :: tok_from (S k) t
  end.
Definition tok_calls (l : list (C.callspec gval)) : list (C.callspec Z) := tok_from 0 l.

Definition v_input (l : list (C.callspec gval)) (t : Z) : gval :=
  if (t <? 0)%Z then VNil
  else match nth_error l (Z.to_nat t) with Some x => C.cs_input x | None => VNil end.
Definition v_wire_in (D : vcfg) (l : list (C.callspec gval)) (t : Z) : gval := cbor_norm (v_nin D) (v_input l t).

(* the value a payload of the composition NAMES: token t >= 0 the input value of call t; token -1-t the output data of
   call t as the client's decoder delivers it: cbor_norm n_out of the serialized output of CallStep on the decoded input *)
Definition v_outval (D : vcfg) (l : list (C.callspec gval)) (t : Z) : gval :=
  match v_result D (v_wire_in D l t) with SOk (_, w) => cbor_norm (v_nout D) w | _ => VNil end.
Definition v_den (D : vcfg) (l : list (C.callspec gval)) (t : Z) : gval :=
  if (t <? 0)%Z then v_outval D l (-1 - t) else v_input l t.

Definition v_scfg (D : vcfg) (l : list (C.callspec gval)) : scfg :=
  mkSCfg (S.mkCfg (fun t => v_beh (v_result D (v_wire_in D l t))) (v_slow D)
                  (fun st => match alookup st (v_plugin D) with Some _ => true | None => false end)
                  (v_sig_known D))
         (fun t => (-1 - t)%Z).

(* what the client's decoder delivers for a result of the token level: the payload replaced by the value it names *)
Definition v_out (D : vcfg) (l : list (C.callspec gval)) (r : C.result Z) : C.result gval :=
  match r with
  | C.ROk o d => C.ROk o (v_den D l d)
  | C.RErr e => C.RErr e
  end.

Definition vsys_result (D : vcfg) (l : list (C.callspec gval)) (s : sstate) (i : nat) : option (C.result gval) :=
  option_map (v_out D l) (sys_result s i).

(* the sequential, in-process specification: CallStep on the value Execute was given; the output data as it looks
   after its CBOR round trip *)
Definition v_spec (D : vcfg) (v : gval) : C.result gval :=
  match v_result D v with
  | SOk (o, w) => C.ROk o (cbor_norm (v_nout D) w)
  | _ => C.RErr C.ErrStep
  end.
