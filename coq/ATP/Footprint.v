(* ATP/Footprint.v — the shared mutable cells of a schema value and the ACCESS TRACE of every
   operation on them (C13).  Schemas are immutable after construction except for lazily filled
   caches and the per-step run table:

     CUnitsSorted u   UnitsDefinition.sortedMultipliersCache        (schema/units.go)
     CUnitsRe u       UnitsDefinition.reCache + reSubExpNames       (schema/units.go)
     CDefaults o      ObjectSchema.defaultValues                    (schema/object.go)
     CStepData s      CallableStepSchema.stepData                   (schema/step.go)
     CLink r          RefSchema.referencedObjectCache — written by ApplyNamespace while the schema is
                      being constructed, only read afterwards

   Each cache cell has a GUARD (a mutex) since the repair of D33: UnitsDefinition.cacheMutex (one per
   definition), the package-level objectDefaultsMutex (ONE for all objects: ObjectSchema values are
   copied by the value receivers of TypedObjectSchema, so the lock cannot live in the struct; it is a
   RWMutex, modelled as a plain lock: read/read exclusion is stronger than the code's and irrelevant
   to conflicts), CallableStepSchema.initializerMutex.  `fx = true` is the
   repaired code, `fx = false` the unrepaired one (no guard around the unit and default caches).

   The model is state-passing: the state says which cells are filled (and which run ids a step
   table holds); every primitive use of a cell returns the trace of its accesses, tagged with the
   lock operations around them. *)
From Verif Require Import Base.Prelude Base.Str ATP.Msg.
Open Scope string_scope.

Inductive cell :=
| CUnitsSorted (u : N) | CUnitsRe (u : N) | CDefaults (o : N) | CStepData (s : N) | CLink (r : N).
Inductive guard := GUnits (u : N) | GDefaults | GStep (s : N).

Definition guard_of (c : cell) : option guard :=
  match c with
  | CUnitsSorted u | CUnitsRe u => Some (GUnits u)
  | CDefaults _ => Some GDefaults
  | CStepData s => Some (GStep s)
  | CLink _ => None
  end.

Definition cell_eqb (a b : cell) : bool :=
  match a, b with
  | CUnitsSorted x, CUnitsSorted y | CUnitsRe x, CUnitsRe y | CDefaults x, CDefaults y
  | CStepData x, CStepData y | CLink x, CLink y => N.eqb x y
  | _, _ => false
  end.
Definition guard_eqb (a b : guard) : bool :=
  match a, b with
  | GUnits x, GUnits y | GStep x, GStep y => N.eqb x y
  | GDefaults, GDefaults => true
  | _, _ => false
  end.

Inductive access := Acq (g : guard) | Rel (g : guard) | Rd (c : cell) | Wr (c : cell).
Definition trace := list access.

(* ---------- what a unit definition / object looks like to the caches ---------- *)
Record shape := mkShape {
  sh_has_mults : N -> bool;      (* unit definition u declares multipliers (MultipliersValue != nil and non-empty) *)
  sh_lazy_defaults : N -> bool   (* object o came out of UnserializeSchema: defaultValues starts nil *) }.

Record cstate := mkCs {
  cs_filled : list cell;                 (* cache cells holding a non-nil value *)
  cs_runs : list (N * string) }.         (* (step, run id) entries of the step tables *)
Definition cs_empty : cstate := mkCs [] [].
Definition filled (st : cstate) (c : cell) : bool := existsb (cell_eqb c) (cs_filled st).
Definition fill (st : cstate) (c : cell) : cstate :=
  if filled st c then st else mkCs (c :: cs_filled st) (cs_runs st).
Definition has_run (st : cstate) (s : N) (run : string) : bool :=
  existsb (fun e => N.eqb (fst e) s && String.eqb (snd e) run) (cs_runs st).

(* lock / unlock around a critical section when the code has the guard *)
Definition guarded (fx : bool) (g : guard) (body : trace) : trace :=
  if fx then (Acq g :: body ++ [Rel g])%list else body.

(* primitive uses of the shared cells *)
Inductive prim :=
| PSorted (u : N)            (* getSortedMultipliersCache *)
| PRe (u : N)                (* parse's use of the compiled expression (getReCache) *)
| PDefaults (o : N)          (* GetDefaults *)
| PSetup (s : N) (run : string)   (* setupStepData *)
| PLink (r : N).             (* any use of a linked reference *)

Section Run.
Variable sh : shape.
Variable fx : bool.

(* the body of getSortedMultipliersCache: test, and on a nil cache sort and store *)
Definition sorted_body (st : cstate) (u : N) : trace * cstate :=
  if filled st (CUnitsSorted u) then ([Rd (CUnitsSorted u)], st)
  else ([Rd (CUnitsSorted u); Wr (CUnitsSorted u)],
        if sh_has_mults sh u then fill st (CUnitsSorted u) else st).   (* without multipliers the stored slice is nil again *)

Definition run_prim (st : cstate) (p : prim) : trace * cstate :=
  match p with
  | PSorted u => let '(t, st') := sorted_body st u in (guarded fx (GUnits u) t, st')
  | PRe u =>
      if filled st (CUnitsRe u) then (guarded fx (GUnits u) [Rd (CUnitsRe u)], st)
      else
        (* updateReCache: the multipliers (when declared) are read through the sorted cache, inside
           the same critical section in the repaired code *)
        let '(t, st') := if sh_has_mults sh u then sorted_body st u else ([], st) in
        (guarded fx (GUnits u) (Rd (CUnitsRe u) :: t ++ [Wr (CUnitsRe u)]), fill st' (CUnitsRe u))
  | PDefaults o =>
      (* GetDefaults: read under the (read) lock; when nil, take the lock again, re-check, decode, store *)
      if filled st (CDefaults o) || negb (sh_lazy_defaults sh o)
      then (guarded fx GDefaults [Rd (CDefaults o)], st)
      else ((guarded fx GDefaults [Rd (CDefaults o)] ++ guarded fx GDefaults [Rd (CDefaults o); Wr (CDefaults o)])%list,
            fill st (CDefaults o))
  | PSetup s run =>
      (* initializerMutex has always been there *)
      if has_run st s run then ([Acq (GStep s); Rd (CStepData s); Rel (GStep s)], st)
      else ([Acq (GStep s); Rd (CStepData s); Wr (CStepData s); Rel (GStep s)],
            mkCs (cs_filled st) ((s, run) :: cs_runs st))
  | PLink r => ([Rd (CLink r)], st)
  end.

Fixpoint run_prims (st : cstate) (ps : list prim) : trace * cstate :=
  match ps with
  | [] => ([], st)
  | p :: r => let '(t, st') := run_prim st p in let '(t2, st2) := run_prims st' r in ((t ++ t2)%list, st2)
  end.
End Run.

(* ---------- the operations of schema/units.go as sequences of primitive uses ---------- *)
Inductive units_op :=
| UParse (blank : bool)      (* ParseInt / ParseFloat; blank: the trimmed input is empty (rejected before any cache) *)
| UFormat (zero : bool).     (* Format{Short,Long}{Int,Float}; zero: the number is 0 (formatted without multipliers) *)

Definition units_prims (u : N) (op : units_op) : list prim :=
  match op with
  | UParse true => []
  | UParse false => [PRe u; PSorted u]        (* the match, then the multipliers in order (or the error text) *)
  | UFormat true => []
  | UFormat false => [PSorted u]
  end.

(* which cache cells an operation filled: the observable of the sequential correspondence *)
Definition newly_filled (before after : cstate) : list cell :=
  filter (fun c => negb (filled before c)) (cs_filled after).

(* ---------- the access discipline ---------- *)
Definition holds (g : guard) (held : list guard) : bool := existsb (guard_eqb g) held.
Definition drop (g : guard) (held : list guard) : list guard := filter (fun h => negb (guard_eqb g h)) held.

(* a single thread's trace: lock-balanced, never re-acquires, reads of guarded cells and ALL writes
   happen while the cell's guard is held; unguarded cells are never written *)
Fixpoint disciplined (held : list guard) (t : trace) : bool :=
  match t with
  | [] => match held with [] => true | _ => false end
  | Acq g :: r => negb (holds g held) && disciplined (g :: held) r
  | Rel g :: r => holds g held && disciplined (drop g held) r
  | Rd c :: r => match guard_of c with Some g => holds g held | None => true end && disciplined held r
  | Wr c :: r => match guard_of c with Some g => holds g held | None => false end && disciplined held r
  end.

(* ---------- schedules: interleavings of several threads' traces ---------- *)
Definition event := (N * access)%type.        (* thread id, access *)
Definition locks := list (guard * N).         (* who holds what *)

Fixpoint holder (g : guard) (l : locks) : option N :=
  match l with
  | [] => None
  | (g', i) :: r => if guard_eqb g g' then Some i else holder g r
  end.
Definition unlock (g : guard) (l : locks) : locks := filter (fun e => negb (guard_eqb g (fst e))) l.
Definition holds_by (i : N) (g : guard) (l : locks) : bool :=
  match holder g l with Some j => N.eqb i j | None => false end.

(* one step of a schedule: mutual exclusion of the locks (an Acq of a held lock cannot happen, only
   the holder releases) AND the discipline of each access *)
Definition ev_ok (l : locks) (ev : event) : bool :=
  match snd ev with
  | Acq g => match holder g l with None => true | Some _ => false end
  | Rel g => holds_by (fst ev) g l
  | Rd c => match guard_of c with Some g => holds_by (fst ev) g l | None => true end
  | Wr c => match guard_of c with Some g => holds_by (fst ev) g l | None => false end
  end.
Definition ev_locks (l : locks) (ev : event) : locks :=
  match snd ev with
  | Acq g => (g, fst ev) :: l
  | Rel g => unlock g l
  | _ => l
  end.
Fixpoint sched_ok (l : locks) (s : list event) : bool :=
  match s with
  | [] => true
  | ev :: r => ev_ok l ev && sched_ok (ev_locks l ev) r
  end.
Definition run_locks (l : locks) (s : list event) : locks := fold_left ev_locks s l.

(* only the semantics of the locks (what the runtime enforces), without the discipline: the
   schedules the UNREPAIRED code can exhibit *)
Definition ev_lock_ok (l : locks) (ev : event) : bool :=
  match snd ev with
  | Acq g => match holder g l with None => true | Some _ => false end
  | Rel g => holds_by (fst ev) g l
  | _ => true
  end.
Fixpoint sched_lock_ok (l : locks) (s : list event) : bool :=
  match s with
  | [] => true
  | ev :: r => ev_lock_ok l ev && sched_lock_ok (ev_locks l ev) r
  end.

Definition proj (i : N) (s : list event) : trace :=
  map snd (filter (fun ev => N.eqb (fst ev) i) s).

(* two accesses conflict: the same cell, at least one of them a write *)
Definition conflict (a b : access) (c : cell) : Prop :=
  (a = Wr c /\ (b = Wr c \/ b = Rd c)) \/ (a = Rd c /\ b = Wr c).
