(* ATP/Handshake.v — the sequential parts of the client outside the transition system of ATP/Client.v:
   Client.ReadSchema (send the start message, decode the hello, check the version, unserialize the schema) and the
   legacy v1 Execute (send the bare work start, decode one work-done message with the call's own decoder). *)
From Verif Require Import Base.Prelude Base.Str ATP.Msg Generated.Tables.
Set Implicit Arguments.

Section Handshake.
Variable payload : Type.
Notation event := (event payload).

(* atp/client.go: var supportedServerVersions; the list is re-dumped from the live SDK into Generated/Tables.v on every run *)
Definition supported_versions : list Z := atp_supported_versions.
Definition supported (v : Z) : bool := existsb (Z.eqb v) supported_versions.

Inductive rs_result := RSOk (version : Z) | RSErr.

(* first = what the client's decoder sees first on the stream; a hello whose schema does not unserialize is
   Hello v false *)
Definition read_schema (write_ok : bool) (first : event) : rs_result :=
  if negb write_ok then RSErr else
  match first with
  | EvHello (Hello v schema_ok) => if supported v && schema_ok then RSOk v else RSErr
  | _ => RSErr            (* EOF, read error, garbage, a cut message, or a runtime message instead of the hello *)
  end.

Inductive v1_result := V1Ok (out : string) (data : payload) | V1Err.

(* getResultV1: the next item on the stream must be an intact bare work-done message *)
Definition execute_v1 (write_ok : bool) (next : event) : v1_result :=
  if negb write_ok then V1Err else
  match next with
  | EvMsg (WorkDone _ _ out data _) => V1Ok out data
  | _ => V1Err
  end.

End Handshake.
