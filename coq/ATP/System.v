(* ATP/System.v — the COMPOSED system of C05's protocol layer: the client model (ATP/Client.v, payload := Z, a token
   that stands for the step's input) and the server model (ATP/Server.v) joined by the two FIFO streams.

   The client model's scripted peer (labels LPeerAccept / LPeerSend, fields p_plan / p_fault) is REPLACED by the real
   server model: the composition never takes an LPeerSend step and never reads p_plan (it stays []); what the client
   reads from `from_server` is exactly what the server model wrote to its output.

     client  --to_server-->  [pipe]  --inq-->  server            (client -> server stream)
     client  <--from_server--------------------  server          (server -> client stream)

   * `to_server` (client side of the pipe) and the server's `inq` (bytes that have reached the server's stdin and are
     not yet consumed by its decoder) are the two halves of ONE FIFO; label YPipe moves the oldest client message across
     (any chunking: any interleaving of YPipe with everything else).
   * every message the server model appends to its output `out` is appended, in the same atomic step, to the client's
     `from_server` FIFO (the client's read loop takes it out at its own pace, with any read-ahead k: label LLoop k).
     The server model's output alphabet (ODone run out / OErr e / OHello) carries no payload; the composition adds it:
     the work-done message written by the step goroutine i carries `sc_data tok`, tok being the token of the work-start
     THAT goroutine executes (atp/server.go runStep: output id and output data come from the same CallStep call and are
     written with the goroutine's own run id).
   * the handshake is outside both runtime models: the server component starts in the state the server model reaches
     after `start message; hello` (`srv0`, a reachable state of ATP/Server.v: srv0_reachable), the client component in
     `Client.init` (which is the client after ReadSchema).
   * healthy transport: no stream fault is ever injected (no LCancel, no LCloseOut, no write failure, no garbage);
     a slow step handler is released by the environment (YRelease tok, enabled while some step goroutine waits for it).

   Labels of the composition: a step of a client goroutine, the pipe, an internal step of a server goroutine, the
   release of a slow handler.  `sys_step` is executable; a schedule is a list of labels (`sys_run`, strict: a label
   that is not enabled makes the run undefined); a MAXIMAL execution ends in a state where no label is enabled
   (`sys_final`).

   The second half of the file is the minimal model of the legacy version-1 framing (no run id on the wire; every
   Execute decodes "the next" work-done from the shared stream itself): known finding D26. *)
From Coq Require Import List ZArith Bool String.
From Verif Require Import Base.Prelude Base.Str ATP.Msg.
From Verif Require ATP.Client ATP.Server.
Import ListNotations.
Local Open Scope string_scope.
Local Open Scope list_scope.

Module C := Verif.ATP.Client.
Module S := Verif.ATP.Server.

(* the plugin: the behaviour oracle of ATP/Server.v plus the output data of a successful execution *)
Record scfg := mkSCfg { sc_srv : S.cfg; sc_data : Z -> Z }.

Record sstate := mkSys { cl : C.state Z; sv : S.state }.

Inductive slabel :=
| YClient (l : C.label)      (* LCaller i, LSig i, LLoop k, LCloser, LTimeout: one step of a client goroutine *)
| YPipe                      (* the oldest message written by the client reaches the server's stdin *)
| YServer (l : S.label)      (* LRead, LHandler b, LWorker i: one step of a server goroutine *)
| YRelease (tok : Z).        (* the environment lets the slow step handler with this token finish *)

Definition client_label (l : C.label) : bool :=
  match l with C.LPeerAccept | C.LPeerSend _ => false | _ => true end.

(* some step goroutine is blocked in a slow handler waiting for token tok *)
Definition blocked_on (c : S.cfg) (ss : S.state) (tok : Z) (w : S.worker) : bool :=
  match S.w_pc w, S.w_kind w with
  | S.WCall, S.KStep st t =>
      Z.eqb t tok && S.handler_reached c st t && S.c_slow c t && negb (S.zmem t (S.released ss))
  | _, _ => false
  end.

(* the wire form of a message of the server model's output alphabet, written by the step with label l from state ss.
   The two fall-backs are unreachable (a work-done is only written by a step goroutine: Proofs/ServerRoute.v
   senders_ok); they are made visible as a work-done of the wrong shape rather than dropped. *)
Definition wire_of (g : scfg) (ss : S.state) (l : S.label) (m : S.omsg) : list (event Z) :=
  match m with
  | S.OHello => [EvHello (Hello 3 true)]
  | S.OErr e => [EvMsg (ErrMsg (S.se_run e) (S.se_sf e) (S.se_vf e))]
  | S.ODone r o =>
      match l with
      | S.LWorker i =>
          match nth_error (S.workers ss) i with
          | Some w => match S.w_kind w with
                      | S.KStep st tok => [EvMsg (WorkDone r st o (sc_data g tok) "")]
                      | S.KSignal _ _ _ => [EvMsg (BadPayload 2 r)]
                      end
          | None => [EvMsg (BadPayload 2 r)]
          end
      | _ => [EvMsg (BadPayload 2 r)]
      end
  end.

Definition push (cs : C.state Z) (evs : list (event Z)) : C.state Z :=
  C.set_from_server cs (C.from_server cs ++ evs).

(* what the step ss -> ss' appended to the server's output *)
Definition new_out (ss ss' : S.state) : list S.omsg := skipn (List.length (S.out ss)) (S.out ss').

Definition srv_step (g : scfg) (s : sstate) (l : S.label) : option sstate :=
  match S.step (sc_srv g) (sv s) l with
  | None => None
  | Some ss' => Some (mkSys (push (cl s) (List.concat (map (wire_of g (sv s) l) (new_out (sv s) ss')))) ss')
  end.

Definition sys_step (g : scfg) (s : sstate) (y : slabel) : option sstate :=
  match y with
  | YClient l =>
      if client_label l then
        match C.step (cl s) l with Some cs' => Some (mkSys cs' (sv s)) | None => None end
      else None
  | YPipe =>
      match C.to_server (cl s) with
      | [] => None
      | m :: _ =>
          match C.step (cl s) C.LPeerAccept, S.step (sc_srv g) (sv s) (S.LArrive (EvMsg m)) with
          | Some cs', Some ss' => Some (mkSys cs' ss')
          | _, _ => None
          end
      end
  | YServer l => if S.is_internal l then srv_step g s l else None
  | YRelease tok =>
      if existsb (blocked_on (sc_srv g) (sv s) tok) (S.workers (sv s)) then srv_step g s (S.LRelease tok) else None
  end.

Fixpoint sys_run (g : scfg) (s : sstate) (ys : list slabel) : option sstate :=
  match ys with
  | [] => Some s
  | y :: t => match sys_step g s y with Some s' => sys_run g s' t | None => None end
  end.

Definition sys_final (g : scfg) (s : sstate) : Prop := forall y, sys_step g s y = None.

(* the server after the handshake: start message consumed, hello written, read loop waiting for the first message *)
Definition srv0 : S.state :=
  S.mkState [] false S.RLoop [] [] false [] O S.HSelect false false false false [S.OHello] false [] [] false [] [] [].

Lemma srv0_reachable : forall c, srv0 = S.run c S.init [S.LArrive (EvHello (Hello 3 true)); S.LRead; S.LRead].
Proof. reflexivity. Qed.

(* a session of the composition: the calls (run id, lane predecessor, signal channels, input token) and whether the
   harness calls Close; no scripted peer, no scripted fault, no write failure *)
Definition sys_session (calls : list (C.callspec Z)) (close : bool) : C.session Z :=
  C.mkSession calls close [] None None.

Definition sys_init (calls : list (C.callspec Z)) (close : bool) : sstate :=
  mkSys (C.init (sys_session calls close)) srv0.

(* the one-line sequential specification: CallStep of that input (every Execute of the client model calls step "s") *)
Definition spec_callstep (g : scfg) (tok : Z) : C.result Z :=
  match S.step_outcome (sc_srv g) "s" tok with
  | S.BSuccess o => C.ROk o (sc_data g tok)
  | _ => C.RErr C.ErrStep
  end.

(* what Execute number i has returned *)
Definition sys_result (s : sstate) (i : nat) : option (C.result Z) :=
  match nth_error (C.callers (cl s)) i with
  | Some c => match C.c_pc c with C.CDone v => Some v | _ => None end
  | None => None
  end.

(* ---------------------------------------------------------------------------------------------- *)
(* version 1 of the framing, minimal: a work-start carries (step, input) and NO run id, a work-done   *)
(* carries (output id, data) and NO run id; an Execute writes its work-start and then decodes the     *)
(* next work-done from the shared stream ITSELF (atp/client.go getResultV1: there is no read loop).   *)
(* The v1 server is the most favourable one: strictly sequential, answers in the order of arrival.    *)
(* ---------------------------------------------------------------------------------------------- *)

Inductive v1pc := V1Send | V1Read | V1Done (r : C.result Z).
Record v1caller := mkV1C { v1_input : Z; v1_pc : v1pc }.
Record v1state := mkV1 {
  v1_callers : list v1caller;
  v1_c2s : list (stepid * Z);         (* client -> server stream *)
  v1_s2c : list (string * Z) }.       (* server -> client stream: work-done (output id, data) *)

Inductive v1label :=
| V1Caller (i : nat)    (* Execute i: write the work-start / decode the next work-done *)
| V1Server.             (* the server reads the oldest work-start, runs the step, writes its work-done *)

Definition v1_step (g : scfg) (s : v1state) (l : v1label) : option v1state :=
  match l with
  | V1Caller i =>
      match nth_error (v1_callers s) i with
      | None => None
      | Some c =>
          match v1_pc c with
          | V1Send => Some (mkV1 (C.upd (v1_callers s) i (mkV1C (v1_input c) V1Read))
                                 (v1_c2s s ++ [("s", v1_input c)]) (v1_s2c s))
          | V1Read =>
              match v1_s2c s with
              | [] => None
              | (o, d) :: q => Some (mkV1 (C.upd (v1_callers s) i (mkV1C (v1_input c) (V1Done (C.ROk o d)))) (v1_c2s s) q)
              end
          | V1Done _ => None
          end
      end
  | V1Server =>
      match v1_c2s s with
      | [] => None
      | (st, tok) :: q =>
          match S.step_outcome (sc_srv g) st tok with
          | S.BSuccess o => Some (mkV1 (v1_callers s) q (v1_s2c s ++ [(o, sc_data g tok)]))
          | _ => None      (* a failing step ends a v1 plugin: not needed for the finding *)
          end
      end
  end.

Fixpoint v1_run (g : scfg) (s : v1state) (ls : list v1label) : option v1state :=
  match ls with
  | [] => Some s
  | l :: t => match v1_step g s l with Some s' => v1_run g s' t | None => None end
  end.

Definition v1_init (inputs : list Z) : v1state := mkV1 (map (fun t => mkV1C t V1Send) inputs) [] [].
Definition v1_final (g : scfg) (s : v1state) : Prop := forall l, v1_step g s l = None.
Definition v1_result (s : v1state) (i : nat) : option (C.result Z) :=
  match nth_error (v1_callers s) i with
  | Some c => match v1_pc c with V1Done v => Some v | _ => None end
  | None => None
  end.
