(* ATP/Wire.v — the writers of ONE shared encoder over a transport whose Write is not atomic (C05:
   "results are never ... corrupted by interleaved writes").

   ATP/Client.v and ATP/Server.v treat a send as one atomic append of a whole message to the stream
   (`to_server ++ [m]`, `out ++ [m]`).  That is an ASSUMPTION about the code: atp/client.go has one
   cbor.Encoder for the work-start of every Execute, the signals of every executeWriteLoop goroutine and
   Close's client-done; atp/server.go has one for the work-done of every step and the error reports of
   the closure handler.  cbor's Encode ends in Write calls on the transport, and a transport may take a
   Write in pieces (an OS pipe above PIPE_BUF, any forwarding writer), so between two pieces of one
   message another goroutine can run.  This file models exactly that and proves what makes the
   atomic-send abstraction sound: the lock discipline (client: sendCBOR = c.mutex.Lock; Encode; Unlock —
   server: sendRuntimeMessage under encoderMutex).

   A writer goroutine w loops:   PIdle --LLock--> PLocked --LBegin--> PWriting --LChunk*--> (LEnd)
   PWritten --LUnlock--> PIdle.   LBegin/LChunk/LEnd are the transport's view of one Write: the first
   piece, further pieces, the return.  A writer that does NOT take the lock (`locked w = false`: the
   encoder used directly) goes PIdle --LBegin--> PWritingU --LChunk*--> (LEnd) PIdle.  Any number of
   writers (nat), of messages per writer, of pieces per message; a schedule is any label list.

   The stream is FRAMED when its events are well bracketed: between the first and the last piece of a
   message there are only pieces of that message (`wb`).  Then the peer's decoder reads exactly the
   messages that were sent, one after the other — the atomic append of the protocol models. *)
From Coq Require Import List Arith Bool.
Import ListNotations.

Inductive wev := WBegin (w : nat) | WPiece (w : nat) | WEnd (w : nat).

Definition wb1 (o : option nat) (e : wev) : option (option nat) :=
  match e, o with
  | WBegin w, None => Some (Some w)
  | WPiece w, Some v => if Nat.eqb w v then Some (Some v) else None
  | WEnd w, Some v => if Nat.eqb w v then Some None else None
  | _, _ => None
  end.

Fixpoint wb (o : option nat) (l : list wev) : option (option nat) :=
  match l with
  | [] => Some o
  | e :: t => match wb1 o e with Some o' => wb o' t | None => None end
  end.

(* the stream is a sequence of whole messages, the last one possibly still being written *)
Definition framed (l : list wev) : Prop := exists o, wb None l = Some o.
Definition framedb (l : list wev) : bool := match wb None l with Some _ => true | None => false end.

Inductive wpc := PIdle | PLocked | PWriting | PWritten | PWritingU.

Record wstate := mkWS { pcs : nat -> wpc; mutex : option nat; stream : list wev }.

Inductive wlabel := LLock (w : nat) | LBegin (w : nat) | LChunk (w : nat) | LEnd (w : nat) | LUnlock (w : nat).

Definition upd (f : nat -> wpc) (w : nat) (p : wpc) : nat -> wpc := fun x => if Nat.eqb x w then p else f x.

Definition winit : wstate := mkWS (fun _ => PIdle) None [].

Definition wstep (locked : nat -> bool) (s : wstate) (l : wlabel) : option wstate :=
  match l with
  | LLock w =>
      if locked w then
        match pcs s w, mutex s with
        | PIdle, None => Some (mkWS (upd (pcs s) w PLocked) (Some w) (stream s))
        | _, _ => None                                   (* sync.Mutex.Lock blocks while it is held *)
        end
      else None
  | LBegin w =>
      match pcs s w with
      | PLocked => Some (mkWS (upd (pcs s) w PWriting) (mutex s) (stream s ++ [WBegin w]))
      | PIdle => if locked w then None
                 else Some (mkWS (upd (pcs s) w PWritingU) (mutex s) (stream s ++ [WBegin w]))
      | _ => None
      end
  | LChunk w =>
      match pcs s w with
      | PWriting | PWritingU => Some (mkWS (pcs s) (mutex s) (stream s ++ [WPiece w]))
      | _ => None
      end
  | LEnd w =>
      match pcs s w with
      | PWriting => Some (mkWS (upd (pcs s) w PWritten) (mutex s) (stream s ++ [WEnd w]))
      | PWritingU => Some (mkWS (upd (pcs s) w PIdle) (mutex s) (stream s ++ [WEnd w]))
      | _ => None
      end
  | LUnlock w =>
      match pcs s w with
      | PWritten => Some (mkWS (upd (pcs s) w PIdle) None (stream s))
      | _ => None
      end
  end.

(* a schedule is any list of labels; a label that is not enabled is skipped *)
Definition wstep_or_stay (locked : nat -> bool) (s : wstate) (l : wlabel) : wstate :=
  match wstep locked s l with Some s' => s' | None => s end.
Definition wrun (locked : nat -> bool) (ls : list wlabel) : wstate := fold_left (wstep_or_stay locked) ls winit.
