(* ATP/Msg.v — the messages of the Arcaflow Transport Protocol and the events a byte stream
   presents to a CBOR decoder (DESIGN §4.1).  Shared by the client model (C06, C08), the
   server model (C07) and their composition (C05).  Payloads are abstract: `payload` is a
   parameter of the models (instantiated by gval where the data layer matters). *)
From Verif Require Import Base.Prelude Base.Str.

Definition runid := string.
Definition stepid := string.

Section Msg.
Variable payload : Type.

(* runtime messages, atp/protocol.go *)
Inductive msg :=
| WorkStart (run : runid) (step : stepid) (config : payload)            (* client -> server, id 1 *)
| WorkDone (run : runid) (step : stepid) (out : string) (data : payload) (logs : string)  (* server -> client, id 2 *)
| Signal (run : runid) (sig : string) (data : payload)                  (* both directions, id 3 *)
| ClientDone                                                            (* client -> server, id 4 *)
| ErrMsg (run : runid) (step_fatal server_fatal : bool)                 (* server -> client, id 5 *)
| Unknown (id : Z) (run : runid)                                        (* any other message id *)
| BadPayload (id : Z) (run : runid).                                    (* known id, data of the wrong shape *)

(* handshake, version 1 and 3 *)
Inductive hello := Hello (version : Z) (schema_ok : bool).

(* what a reader sees next on a stream: a byte offset of a fault in a real transcript maps to
   exactly one of these classes (cut on a message boundary = EOF, cut inside = PartialThenEOF,
   flipped bytes that no longer decode = Garbage) *)
Inductive event :=
| EvMsg (m : msg)
| EvHello (h : hello)
| EvGarbage
| EvPartialThenEOF
| EvEOF
| EvReadErr.

Definition run_of (m : msg) : option runid :=
  match m with
  | WorkStart r _ _ | WorkDone r _ _ _ _ | Signal r _ _ | ErrMsg r _ _ | Unknown _ r | BadPayload _ r => Some r
  | ClientDone => None
  end.

End Msg.

Arguments WorkStart {payload}. Arguments WorkDone {payload}. Arguments Signal {payload}.
Arguments ClientDone {payload}. Arguments ErrMsg {payload}. Arguments Unknown {payload}.
Arguments BadPayload {payload}.
Arguments EvMsg {payload}. Arguments EvHello {payload}. Arguments EvGarbage {payload}.
Arguments EvPartialThenEOF {payload}. Arguments EvEOF {payload}. Arguments EvReadErr {payload}.
Arguments run_of {payload}.
