(* ATP/Client.v — the ATP client (atp/client.go, after the D20 repair) as a labelled transition system
   (DESIGN §4.1).  One step = one critical section of c.mutex, or one I/O operation, of one goroutine:

     caller i   (Client.Execute, v3 path)  Start  -> Send -> Wait -> [Waiting] -> Done r
                Start  = [wg.Add; go executeWriteLoop]? ; prepareResultChannels (duplicate check, entry insert,
                         start a read loop iff !readLoopRunning)
                Send   = sendCBOR(work start)            Wait = getResultV2 up to Cond.Wait (or straight to the result)
                Waiting= woken by Signal: take the result, delete the entry, return
     sig i      (executeWriteLoop)          Check -> Select* -> exit
     loop       (executeReadLoop)           Decode k -> [Handle m | Fatal] -> Check -> Decode ... | exit
                "nothing pending => readLoopRunning := false" is ONE critical section (Check); the fatal exits clear
                the flag in the critical section that fans the error out.  (ATP/ClientPreFix.v has the old loop.)
     closer     (Client.Close)              Cancel -> Mark -> Send -> Wait
     peer       the environment: accepts what the client wrote; sends, per accepted run, the next event of that run's
                plan; `p_fault = Some (n, f)` replaces the (n+1)-th emission by the sticky fault f (C08).

   The two directions of the wire are FIFO queues (to_server : list msg, from_server : list event); a read loop owns
   a read-ahead buffer (l_buf) that is lost when the loop ends.  `step : state -> label -> option state` is
   executable; reachability is fold over label lists (`run`).  `ops` gives, for an enabled step, the gate kinds
   (cmd/instrument) the real goroutine passes while performing it: that is what the driver forces and compares. *)
From Verif Require Import Base.Prelude Base.Str ATP.Msg.

Set Implicit Arguments.

Section Client.
Variable payload : Type.
Notation msg := (msg payload).
Notation event := (event payload).

Inductive rerr := ErrDup | ErrWrite | ErrStream | ErrStep | ErrServerFatal | ErrBadDone | ErrNoEntry.
Inductive result := ROk (out : string) (data : payload) | RErr (e : rerr).

Inductive cpc := CStart | CSend | CWait | CWaiting | CDone (r : result).
Inductive spc := SNone | SCheck | SSelect | SExit.

Record caller := mkCaller {
  c_run : runid;
  c_after : option nat;      (* the Execute before it on the same harness goroutine *)
  c_hassig : bool;           (* signalsToStep <> nil *)
  c_sleft : nat;             (* signals the harness still offers *)
  c_sclose : bool;           (* the harness closes signalsToStep when it has offered them all *)
  c_sigfrom : bool;          (* signalsFromStep <> nil *)
  c_input : payload;
  c_pc : cpc;
  c_spc : spc;
  c_emitted : nat }.         (* signals from the step delivered to this caller's channel *)

Inductive lpc := LDecode | LHandle (m : msg) | LFatal | LCheck | LExited.
Record loop := mkLoop { l_pc : lpc; l_buf : list event }.

Inductive closeres := CloseOk | CloseErr | ClosePanic.
Inductive kpc := KNone | KCancel | KMark | KSend | KWait | KFailWait | KDone (r : closeres).

Record state := mkState {
  entries : list (runid * option result);   (* runningStepResultEntries *)
  sigchans : list runid;                    (* runningStepEmittedSignalChannels *)
  running : bool;                           (* readLoopRunning *)
  cdone : bool;
  cancelled : bool;
  wg : nat;
  callers : list caller;
  cur : option loop;                        (* the most recently started read loop *)
  nloops : nat;
  two_loops : bool;                         (* a read loop was started while the previous one was still alive *)
  closer : kpc;
  to_server : list msg;
  from_server : list event;
  wr_left : option nat;                     (* client writes that still succeed; None: the write side never fails *)
  p_acc : list runid;
  p_plan : list (runid * list event);
  p_fault : option (nat * event);
  p_dead : bool;
  p_done : bool;                            (* the peer has seen client-done *)
  decoded : list msg }.                     (* ghost: runtime messages decoded intact by a read loop *)

Inductive label :=
| LCaller (i : nat) | LSig (i : nat) | LLoop (k : nat) | LCloser | LTimeout | LPeerAccept | LPeerSend (r : runid).

(* ---- field updates ---- *)
Definition set_entries s v := mkState v (sigchans s) (running s) (cdone s) (cancelled s) (wg s) (callers s) (cur s) (nloops s) (two_loops s) (closer s) (to_server s) (from_server s) (wr_left s) (p_acc s) (p_plan s) (p_fault s) (p_dead s) (p_done s) (decoded s).
Definition set_sigchans s v := mkState (entries s) v (running s) (cdone s) (cancelled s) (wg s) (callers s) (cur s) (nloops s) (two_loops s) (closer s) (to_server s) (from_server s) (wr_left s) (p_acc s) (p_plan s) (p_fault s) (p_dead s) (p_done s) (decoded s).
Definition set_running s v := mkState (entries s) (sigchans s) v (cdone s) (cancelled s) (wg s) (callers s) (cur s) (nloops s) (two_loops s) (closer s) (to_server s) (from_server s) (wr_left s) (p_acc s) (p_plan s) (p_fault s) (p_dead s) (p_done s) (decoded s).
Definition set_cdone s v := mkState (entries s) (sigchans s) (running s) v (cancelled s) (wg s) (callers s) (cur s) (nloops s) (two_loops s) (closer s) (to_server s) (from_server s) (wr_left s) (p_acc s) (p_plan s) (p_fault s) (p_dead s) (p_done s) (decoded s).
Definition set_cancelled s v := mkState (entries s) (sigchans s) (running s) (cdone s) v (wg s) (callers s) (cur s) (nloops s) (two_loops s) (closer s) (to_server s) (from_server s) (wr_left s) (p_acc s) (p_plan s) (p_fault s) (p_dead s) (p_done s) (decoded s).
Definition set_wg s v := mkState (entries s) (sigchans s) (running s) (cdone s) (cancelled s) v (callers s) (cur s) (nloops s) (two_loops s) (closer s) (to_server s) (from_server s) (wr_left s) (p_acc s) (p_plan s) (p_fault s) (p_dead s) (p_done s) (decoded s).
Definition set_callers s v := mkState (entries s) (sigchans s) (running s) (cdone s) (cancelled s) (wg s) v (cur s) (nloops s) (two_loops s) (closer s) (to_server s) (from_server s) (wr_left s) (p_acc s) (p_plan s) (p_fault s) (p_dead s) (p_done s) (decoded s).
Definition set_cur s v := mkState (entries s) (sigchans s) (running s) (cdone s) (cancelled s) (wg s) (callers s) v (nloops s) (two_loops s) (closer s) (to_server s) (from_server s) (wr_left s) (p_acc s) (p_plan s) (p_fault s) (p_dead s) (p_done s) (decoded s).
Definition set_nloops s v := mkState (entries s) (sigchans s) (running s) (cdone s) (cancelled s) (wg s) (callers s) (cur s) v (two_loops s) (closer s) (to_server s) (from_server s) (wr_left s) (p_acc s) (p_plan s) (p_fault s) (p_dead s) (p_done s) (decoded s).
Definition set_two_loops s v := mkState (entries s) (sigchans s) (running s) (cdone s) (cancelled s) (wg s) (callers s) (cur s) (nloops s) v (closer s) (to_server s) (from_server s) (wr_left s) (p_acc s) (p_plan s) (p_fault s) (p_dead s) (p_done s) (decoded s).
Definition set_closer s v := mkState (entries s) (sigchans s) (running s) (cdone s) (cancelled s) (wg s) (callers s) (cur s) (nloops s) (two_loops s) v (to_server s) (from_server s) (wr_left s) (p_acc s) (p_plan s) (p_fault s) (p_dead s) (p_done s) (decoded s).
Definition set_to_server s v := mkState (entries s) (sigchans s) (running s) (cdone s) (cancelled s) (wg s) (callers s) (cur s) (nloops s) (two_loops s) (closer s) v (from_server s) (wr_left s) (p_acc s) (p_plan s) (p_fault s) (p_dead s) (p_done s) (decoded s).
Definition set_from_server s v := mkState (entries s) (sigchans s) (running s) (cdone s) (cancelled s) (wg s) (callers s) (cur s) (nloops s) (two_loops s) (closer s) (to_server s) v (wr_left s) (p_acc s) (p_plan s) (p_fault s) (p_dead s) (p_done s) (decoded s).
Definition set_wr_left s v := mkState (entries s) (sigchans s) (running s) (cdone s) (cancelled s) (wg s) (callers s) (cur s) (nloops s) (two_loops s) (closer s) (to_server s) (from_server s) v (p_acc s) (p_plan s) (p_fault s) (p_dead s) (p_done s) (decoded s).
Definition set_p_acc s v := mkState (entries s) (sigchans s) (running s) (cdone s) (cancelled s) (wg s) (callers s) (cur s) (nloops s) (two_loops s) (closer s) (to_server s) (from_server s) (wr_left s) v (p_plan s) (p_fault s) (p_dead s) (p_done s) (decoded s).
Definition set_p_plan s v := mkState (entries s) (sigchans s) (running s) (cdone s) (cancelled s) (wg s) (callers s) (cur s) (nloops s) (two_loops s) (closer s) (to_server s) (from_server s) (wr_left s) (p_acc s) v (p_fault s) (p_dead s) (p_done s) (decoded s).
Definition set_p_fault s v := mkState (entries s) (sigchans s) (running s) (cdone s) (cancelled s) (wg s) (callers s) (cur s) (nloops s) (two_loops s) (closer s) (to_server s) (from_server s) (wr_left s) (p_acc s) (p_plan s) v (p_dead s) (p_done s) (decoded s).
Definition set_p_dead s v := mkState (entries s) (sigchans s) (running s) (cdone s) (cancelled s) (wg s) (callers s) (cur s) (nloops s) (two_loops s) (closer s) (to_server s) (from_server s) (wr_left s) (p_acc s) (p_plan s) (p_fault s) v (p_done s) (decoded s).
Definition set_p_done s v := mkState (entries s) (sigchans s) (running s) (cdone s) (cancelled s) (wg s) (callers s) (cur s) (nloops s) (two_loops s) (closer s) (to_server s) (from_server s) (wr_left s) (p_acc s) (p_plan s) (p_fault s) (p_dead s) v (decoded s).
Definition set_decoded s v := mkState (entries s) (sigchans s) (running s) (cdone s) (cancelled s) (wg s) (callers s) (cur s) (nloops s) (two_loops s) (closer s) (to_server s) (from_server s) (wr_left s) (p_acc s) (p_plan s) (p_fault s) (p_dead s) (p_done s) v.

Definition set_pc (c : caller) (p : cpc) : caller :=
  mkCaller (c_run c) (c_after c) (c_hassig c) (c_sleft c) (c_sclose c) (c_sigfrom c) (c_input c) p (c_spc c) (c_emitted c).
Definition set_spc (c : caller) (p : spc) : caller :=
  mkCaller (c_run c) (c_after c) (c_hassig c) (c_sleft c) (c_sclose c) (c_sigfrom c) (c_input c) (c_pc c) p (c_emitted c).
Definition set_sleft (c : caller) (n : nat) : caller :=
  mkCaller (c_run c) (c_after c) (c_hassig c) n (c_sclose c) (c_sigfrom c) (c_input c) (c_pc c) (c_spc c) (c_emitted c).
Definition set_emitted (c : caller) (n : nat) : caller :=
  mkCaller (c_run c) (c_after c) (c_hassig c) (c_sleft c) (c_sclose c) (c_sigfrom c) (c_input c) (c_pc c) (c_spc c) n.

Fixpoint upd {A} (l : list A) (i : nat) (v : A) : list A :=
  match l, i with
  | [], _ => []
  | _ :: t, O => v :: t
  | x :: t, S j => x :: upd t j v
  end.

Definition set_caller s i c := set_callers s (upd (callers s) i c).

(* ---- the entry map ---- *)
Fixpoint aset {A} (k : string) (v : A) (l : list (string * A)) : list (string * A) :=
  match l with
  | [] => []
  | (k', v') :: t => if String.eqb k k' then (k', v) :: t else (k', v') :: aset k v t
  end.
Fixpoint adel {A} (k : string) (l : list (string * A)) : list (string * A) :=
  match l with
  | [] => []
  | (k', v') :: t => if String.eqb k k' then t else (k', v') :: adel k t
  end.
Fixpoint sdel (k : string) (l : list string) : list string :=
  match l with [] => [] | x :: t => if String.eqb k x then t else x :: sdel k t end.

Definition has_pending (es : list (runid * option result)) : bool :=
  existsb (fun e => match snd e with None => true | Some _ => false end) es.

(* sendExecutionResult (mutex held): store the result if the entry exists; close and forget the run's signal channel *)
Definition send_result s (r : runid) (v : result) : state :=
  set_sigchans (set_entries s (aset r (Some v) (entries s))) (sdel r (sigchans s)).
(* sendErrorToAll's loop body over every entry *)
Definition fan_out s (v : result) : state :=
  set_sigchans (set_entries s (map (fun e => (fst e, Some v)) (entries s)))
               (filter (fun r => negb (amem r (entries s))) (sigchans s)).

(* one client write: Some s' (accepted by the transport) or None (the write side has failed) *)
Definition cwrite s (m : msg) : option state :=
  match wr_left s with
  | None => Some (set_to_server s (to_server s ++ [m]))
  | Some O => None
  | Some (S n) => Some (set_wr_left (set_to_server s (to_server s ++ [m])) (Some n))
  end.

Definition caller_done (c : caller) : bool := match c_pc c with CDone _ => true | _ => false end.
Definition caller_sent (c : caller) : bool :=
  match c_pc c with CWait | CWaiting | CDone _ => true | _ => false end.
Definition pred_done s (c : caller) : bool :=
  match c_after c with
  | None => true
  | Some j => match nth_error (callers s) j with Some d => caller_done d | None => true end
  end.

Definition loop_live (o : option loop) : bool :=
  match o with Some l => match l_pc l with LExited => false | _ => true end | None => false end.

Definition is_fault (e : event) : bool :=
  match e with EvMsg _ => false | _ => true end.

(* what the read loop does with a decoded runtime message: handled under the mutex, or nothing at all *)
Definition needs_handling (m : msg) : bool :=
  match m with
  | WorkDone _ _ _ _ _ => true
  | Signal _ _ _ => true
  | ErrMsg _ sf vf => sf || vf
  | BadPayload id _ => Z.eqb id 2
  | _ => false
  end.

(* ---------------------------------------------------------------------------------------------- *)
(* the step function                                                                              *)
(* ---------------------------------------------------------------------------------------------- *)

Definition step_caller s (i : nat) : option state :=
  match nth_error (callers s) i with
  | None => None
  | Some c =>
    match c_pc c with
    | CStart =>
        if negb (pred_done s c) then None else
        (* [wg.Add(1); go executeWriteLoop] when signalsToStep <> nil *)
        let '(s1, c1) := if c_hassig c then (set_wg s (S (wg s)), set_spc c SCheck) else (s, c) in
        (* prepareResultChannels *)
        if amem (c_run c) (entries s1) then Some (set_caller s1 i (set_pc c1 (CDone (RErr ErrDup)))) else
        let s2 := set_entries s1 (entries s1 ++ [(c_run c, None)]) in
        let s3 := if c_sigfrom c then set_sigchans s2 (sigchans s2 ++ [c_run c]) else s2 in
        let s4 := if running s3 then s3 else
                    set_two_loops (set_nloops (set_cur (set_running (set_wg s3 (S (wg s3))) true)
                                                       (Some (mkLoop LDecode []))) (S (nloops s3)))
                                  (two_loops s3 || loop_live (cur s3)) in
        Some (set_caller s4 i (set_pc c1 CSend))
    | CSend =>
        match cwrite s (WorkStart (c_run c) "s"%string (c_input c)) with
        | Some s1 => Some (set_caller s1 i (set_pc c CWait))
        | None => Some (set_caller s i (set_pc c (CDone (RErr ErrWrite))))
        end
    | CWait =>
        match alookup (c_run c) (entries s) with
        | None => Some (set_caller s i (set_pc c (CDone (RErr ErrNoEntry))))
        | Some None => Some (set_caller s i (set_pc c CWaiting))
        | Some (Some r) => Some (set_caller (set_entries s (adel (c_run c) (entries s))) i (set_pc c (CDone r)))
        end
    | CWaiting =>
        match alookup (c_run c) (entries s) with
        | Some (Some r) => Some (set_caller (set_entries s (adel (c_run c) (entries s))) i (set_pc c (CDone r)))
        | _ => None
        end
    | CDone _ => None
    end
  end.

Definition step_sig s (i : nat) : option state :=
  match nth_error (callers s) i with
  | None => None
  | Some c =>
    match c_spc c with
    | SCheck =>
        if cdone s then Some (set_caller (set_wg s (pred (wg s))) i (set_spc c SExit))
        else Some (set_caller s i (set_spc c SSelect))
    | SSelect =>
        if cancelled s then Some (set_caller (set_wg s (pred (wg s))) i (set_spc c SExit))
        else match c_sleft c with
             | S n =>
                 match cwrite s (Signal (c_run c) "sg"%string (c_input c)) with
                 | Some s1 => Some (set_caller s1 i (set_sleft c n))
                 | None => Some (set_caller (set_wg s (pred (wg s))) i (set_spc (set_sleft c n) SExit))
                 end
             | O => if c_sclose c then Some (set_caller (set_wg s (pred (wg s))) i (set_spc c SExit)) else None
             end
    | _ => None
    end
  end.

(* deliver an emitted signal to the caller that registered a channel for run r *)
Fixpoint deliver (cs : list caller) (r : runid) : list caller :=
  match cs with
  | [] => []
  | c :: t => if String.eqb (c_run c) r && c_sigfrom c then set_emitted c (S (c_emitted c)) :: t else c :: deliver t r
  end.

Definition loop_exit s (l : loop) : state :=
  set_cur (set_wg (set_running s false) (pred (wg s))) (Some (mkLoop LExited (l_buf l))).

Definition handle s (l : loop) (m : msg) : state :=
  let continue s' := set_cur s' (Some (mkLoop LCheck (l_buf l))) in
  match m with
  | WorkDone r _ out data _ => continue (send_result s r (ROk out data))
  | BadPayload _ r => continue (send_result s r (RErr ErrBadDone))
  | Signal r _ _ => continue (if str_in r (sigchans s) then set_callers s (deliver (callers s) r) else s)
  | ErrMsg r sf vf =>
      if vf then loop_exit (fan_out s (RErr ErrServerFatal)) l
      else if sf then
        if String.eqb r ""%string then continue (fan_out s (RErr ErrStep)) else continue (send_result s r (RErr ErrStep))
      else continue s
  | _ => continue s
  end.

Definition all_msgs (l : list event) : bool := forallb (fun e => negb (is_fault e)) l.

Definition step_loop s (k : nat) : option state :=
  match cur s with
  | None => None
  | Some l =>
    match l_pc l with
    | LDecode =>
        let after (ev : event) (buf : list event) s' :=
          match ev with
          | EvMsg m =>
              Some (set_decoded (set_cur s' (Some (mkLoop (if needs_handling m then LHandle m else LCheck) buf)))
                                (decoded s' ++ [m]))
          | _ => Some (set_cur s' (Some (mkLoop LFatal buf)))
          end in
        match l_buf l with
        | ev :: rest => if Nat.eqb k 0 then after ev rest s else None
        | [] =>
            match from_server s with
            | [] => None
            | ev :: q =>
                if is_fault ev then (if Nat.eqb k 0 then after ev [] s else None)   (* sticky: not consumed *)
                else if Nat.leb k (List.length q) && all_msgs (firstn k q)
                     then after ev (firstn k q) (set_from_server s (skipn k q))
                     else None
            end
        end
    | LHandle m => if Nat.eqb k 0 then Some (handle s l m) else None
    | LFatal => if Nat.eqb k 0 then Some (loop_exit (fan_out s (RErr ErrStream)) l) else None
    | LCheck =>
        if negb (Nat.eqb k 0) then None
        else if has_pending (entries s) then Some (set_cur s (Some (mkLoop LDecode (l_buf l))))
        else Some (loop_exit s l)
    | LExited => None
    end
  end.

Definition step_closer s : option state :=
  match closer s with
  | KCancel => if forallb caller_sent (callers s) then Some (set_closer (set_cancelled s true) KMark) else None
  | KMark => if cdone s then Some (set_closer s (KDone CloseOk)) else Some (set_closer (set_cdone s true) KSend)
  | KSend =>
      match cwrite s ClientDone with
      | Some s1 => Some (set_closer s1 KWait)
      | None => Some (set_closer s KFailWait)
      end
  | KWait => if Nat.eqb (wg s) 0 then Some (set_closer s (KDone CloseOk)) else None
  | KFailWait => if Nat.eqb (wg s) 0 then Some (set_closer s (KDone CloseErr)) else None
  | _ => None
  end.

(* the 5 s timer of waitWithTimeout: fires only while the wait group is still positive *)
Definition step_timeout s : option state :=
  match closer s with
  | KFailWait => if Nat.eqb (wg s) 0 then None else Some (set_closer s (KDone ClosePanic))
  | _ => None
  end.

Definition step_accept s : option state :=
  match to_server s with
  | [] => None
  | m :: q =>
      let s1 := set_to_server s q in
      match m with
      | WorkStart r _ _ => Some (set_p_acc s1 (r :: p_acc s1))
      | ClientDone => Some (set_p_done s1 true)
      | _ => Some s1
      end
  end.

Definition step_send s (r : runid) : option state :=
  if p_dead s || negb (str_in r (p_acc s)) then None else
  match alookup r (p_plan s) with
  | Some (ev :: rest) =>
      match p_fault s with
      | Some (O, f) => Some (set_p_dead (set_from_server s (from_server s ++ [f])) true)
      | Some (S n, f) =>
          Some (set_p_fault (set_p_plan (set_from_server s (from_server s ++ [ev])) (aset r rest (p_plan s))) (Some (n, f)))
      | None => Some (set_p_plan (set_from_server s (from_server s ++ [ev])) (aset r rest (p_plan s)))
      end
  | _ => None
  end.

Definition step (s : state) (l : label) : option state :=
  match l with
  | LCaller i => step_caller s i
  | LSig i => step_sig s i
  | LLoop k => step_loop s k
  | LCloser => step_closer s
  | LTimeout => step_timeout s
  | LPeerAccept => step_accept s
  | LPeerSend r => step_send s r
  end.

Fixpoint run (s : state) (ls : list label) : option state :=
  match ls with
  | [] => Some s
  | l :: t => match step s l with Some s' => run s' t | None => None end
  end.

(* ---------------------------------------------------------------------------------------------- *)
(* sessions                                                                                        *)
(* ---------------------------------------------------------------------------------------------- *)

Record callspec := mkCall { cs_run : runid; cs_after : option nat; cs_sig : option (nat * bool); cs_sigfrom : bool; cs_input : payload }.

Record session := mkSession {
  se_calls : list callspec;
  se_close : bool;
  se_plan : list (runid * list event);
  se_fault : option (nat * event);
  se_wfail : option nat }.

Definition init_caller (c : callspec) : caller :=
  mkCaller (cs_run c) (cs_after c)
           (match cs_sig c with Some _ => true | None => false end)
           (match cs_sig c with Some (n, _) => n | None => O end)
           (match cs_sig c with Some (_, b) => b | None => false end)
           (cs_sigfrom c) (cs_input c) CStart SNone O.

Definition init (se : session) : state :=
  mkState [] [] false false false O (map init_caller (se_calls se)) None O false
          (if se_close se then KCancel else KNone) [] [] (se_wfail se) [] (se_plan se) (se_fault se) false false [].

(* ---------------------------------------------------------------------------------------------- *)
(* gate kinds of a step (what the instrumented goroutine passes), for the driver                   *)
(* ---------------------------------------------------------------------------------------------- *)

Inductive opkind :=
| OLock | OUnlock | OWait | OWoke | OSignal | OWgAdd | OWgDone | OWgWait | OEncode | ODecode | OSpawn
| OChanSend | OChanClose | OSelect | OCancel
| OFan (nsignal nclose : nat).   (* sendErrorToAll: that many Signal / ChanClose gates, in map-iteration order *)

Definition result_ops s (r : runid) : list opkind :=
  (if amem r (entries s) then [OSignal] else []) ++ (if str_in r (sigchans s) then [OChanClose] else []).

Definition fan_ops s : list opkind :=
  [OFan (List.length (entries s)) (List.length (filter (fun r => amem r (entries s)) (sigchans s)))].

Definition ops (s : state) (l : label) : list opkind :=
  match l with
  | LCaller i =>
      match nth_error (callers s) i with
      | None => []
      | Some c =>
        match c_pc c with
        | CStart =>
            (if c_hassig c then [OWgAdd; OSpawn] else []) ++
            [OLock] ++ (if amem (c_run c) (entries s) then [] else if running s then [] else [OWgAdd; OSpawn]) ++ [OUnlock]
        | CSend => [OLock; OEncode; OUnlock]
        | CWait => match alookup (c_run c) (entries s) with Some None => [OLock; OWait] | _ => [OLock; OUnlock] end
        | CWaiting => [OWoke; OUnlock]
        | CDone _ => []
        end
      end
  | LSig i =>
      match nth_error (callers s) i with
      | None => []
      | Some c =>
        match c_spc c with
        | SCheck => if cdone s then [OLock; OUnlock; OWgDone] else [OLock; OUnlock]
        | SSelect =>
            if cancelled s then [OSelect; OWgDone]
            else match c_sleft c with
                 | S _ => match cwrite s ClientDone with
                          | Some _ => [OSelect; OLock; OEncode; OUnlock]
                          | None => [OSelect; OLock; OEncode; OUnlock; OWgDone]
                          end
                 | O => [OSelect; OWgDone]
                 end
        | _ => []
        end
      end
  | LLoop _ =>
      match cur s with
      | None => []
      | Some lo =>
        match l_pc lo with
        | LDecode => [ODecode]
        | LHandle m =>
            match m with
            | WorkDone r _ _ _ _ | BadPayload _ r => [OLock] ++ result_ops s r ++ [OUnlock]
            | Signal r _ _ => if str_in r (sigchans s) then [OLock; OChanSend; OUnlock] else [OLock; OUnlock]
            | ErrMsg r sf vf =>
                if vf then [OLock] ++ fan_ops s ++ [OUnlock; OWgDone]
                else if sf then (if String.eqb r ""%string then [OLock] ++ fan_ops s ++ [OUnlock]
                                 else [OLock] ++ result_ops s r ++ [OUnlock])
                else []
            | _ => []
            end
        | LFatal => [OLock] ++ fan_ops s ++ [OUnlock; OWgDone]
        | LCheck => if has_pending (entries s) then [OLock; OUnlock] else [OLock; OUnlock; OWgDone]
        | LExited => []
        end
      end
  | LCloser =>
      match closer s with
      | KCancel => [OCancel]
      | KMark => [OLock; OUnlock]
      | KSend => match cwrite s ClientDone with
                 | Some _ => [OLock; OEncode; OUnlock]
                 | None => [OLock; OEncode; OUnlock; OSpawn; OSelect]
                 end
      | KWait => [OWgWait]
      | _ => []
      end
  | _ => []
  end.

(* ---------------------------------------------------------------------------------------------- *)
(* conservation side conditions of the progress theorem (Proofs/ATPClient.v), as one executable     *)
(* predicate: it is evaluated on every state the correspondence runs visit (Interp/RunATPClient.v)  *)
(* ---------------------------------------------------------------------------------------------- *)

Definition osome {A} (o : option A) : bool := match o with Some _ => true | None => false end.

Definition waiting_has_entry (s : state) : bool :=
  forallb (fun c => match c_pc c with CWaiting => amem (c_run c) (entries s) | _ => true end) (callers s).

Fixpoint after_from (i : nat) (cs : list caller) : bool :=
  match cs with
  | [] => true
  | c :: t => (match c_after c with Some j => Nat.ltb j i | None => true end) && after_from (S i) t
  end.

(* the read loop sits in Decode with nothing to read *)
Definition input_empty (s : state) : bool :=
  match cur s with
  | Some l => match l_pc l, l_buf l, from_server s with LDecode, [], [] => true | _, _, _ => false end
  | None => false
  end.

(* the (healthy) peer still has something to do: a client message to accept, or an event of an accepted run to send *)
Definition peer_obligated (s : state) : bool :=
  match to_server s with [] => false | _ => true end || existsb (fun p => osome (step_send s (fst p))) (p_plan s).

(* some caller sits in Cond.Wait and its result has not been stored yet *)
Definition waiting_pending (s : state) : bool :=
  existsb (fun c => match c_pc c with
                    | CWaiting => match alookup (c_run c) (entries s) with Some None => true | _ => false end
                    | _ => false
                    end) (callers s).

Definition flight_ok (s : state) : bool :=
  waiting_has_entry s && after_from 0 (callers s) &&
  (negb (waiting_pending s && input_empty s) || peer_obligated s).

End Client.

Arguments ROk {payload}. Arguments RErr {payload}.
Arguments CStart {payload}. Arguments CSend {payload}. Arguments CWait {payload}. Arguments CWaiting {payload}. Arguments CDone {payload}.
Arguments LDecode {payload}. Arguments LHandle {payload}. Arguments LFatal {payload}. Arguments LCheck {payload}. Arguments LExited {payload}.
