(* ATP/Server.v — atp/server.go (RunATPServer) as a labelled transition system (DESIGN §4.1, §5 C07).

   This is the model of the code AFTER the repairs of D21/D24 (a second wait group for the
   step and signal goroutines which run() waits on before closing workDone; the closure
   handler receives until the channel is closed), D23 (a fresh decode target per message:
   a message without run_id has run id "") and D22 (an undeclared signal id is an error
   of CallSignal).  The pre-fix behaviour lives in ATP/ServerPreFix.v.

   Threads and their atomic steps (one transition = one synchronisation-relevant action):
     run() goroutine   `rl`  : decode start message; encode hello; decode + dispatch one runtime
                               message (dispatch includes `runningSteps[..] = ..`, the two
                               `wg.Add(1)` and the `go` statement: nothing in between is visible to
                               another thread); blocked send of a report on workDone; the deferred
                               `workersWg.Wait(); close(workDone); wg.Done()`.
     step / signal goroutine : CallStep / CallSignal (a slow step handler blocks until the
                               environment releases its token); sendRuntimeMessage(work-done);
                               blocked send of a report on workDone; the two `wg.Done()`.
     closure handler   `hp`  : select { receive from workDone | ctx.Done() }; forward one report
                               (append to the returned errors at reception, then write the error
                               message unless an earlier write failed); close stdin (once);
                               session.wg.Wait(); return.
   sendRuntimeMessage (encoder mutex + per-message encode goroutine + 60 s timer) is ONE atomic
   append to the output stream: the mutex is held across the whole call and the timer is outside
   the model (DESIGN §5 C07 "Partial").  The main wait group `wg` is not a separate counter: it
   is `nworkers + (1 if rl <> RGone)`, both move in the same atomic steps.

   The client is the environment: LArrive appends an event to the input stream at any moment
   (so "any client script" = any subsequence of LArrive labels of a schedule), LRelease lets a
   slow step finish, LCancel cancels the context, LCloseOut closes the client's end of the
   server's output.  `Crashed` (send on a closed channel; nil dereference in a goroutine without
   recover) is the flag `crashed`: a crashed process takes no further step. *)
From Verif Require Import Base.Prelude Base.Str ATP.Msg.
Open Scope string_scope.
Open Scope Z_scope.

(* what one execution of a step does (schema/schema.go CallStep + schema/step.go Call) *)
Inductive sbeh :=
| BSuccess (out : string)   (* declared output (success or a declared error output), valid data *)
| BUndeclared               (* handler returns an output id that is not declared *)
| BInvalidData              (* declared output, data rejected by the output schema *)
| BFails                    (* input rejected by the step's input schema: the handler never runs *)
| BPanics.                  (* handler panics (recovered in runStep) *)

(* the plugin: behaviour oracle keyed by the work-start's payload (a token), which executions
   are slow, which step and signal ids exist *)
Record cfg := mkCfg {
  c_beh : Z -> sbeh;
  c_slow : Z -> bool;
  c_step_known : stepid -> bool;
  c_sig_known : string -> bool }.

(* ServerError projected: run id, StepFatal, ServerFatal *)
Record srverr := mkSE { se_run : runid; se_sf : bool; se_vf : bool }.

(* what the server writes *)
Inductive omsg := OHello | ODone (run : runid) (out : string) | OErr (e : srverr).

Inductive rcont := KLoop | KDefer.
Inductive rpc := RStart | RHello | RLoop | RReport (e : srverr) (k : rcont) | RDefer | RGone.

Inductive wkind :=
| KStep (step : stepid) (tok : Z)
| KSignal (step : stepid) (sig : string) (dataok : bool).
Inductive wpc := WCall | WSendDone (out : string) | WReport (e : srverr) | WExit | WGone.
Record worker := mkW { w_kind : wkind; w_run : runid; w_pc : wpc }.

Inductive hpc := HSelect | HForward (e : srverr) | HClose | HWait | HReturned.

Record state := mkState {
  inq : list (event Z) (* client -> server stream: events queued and not yet consumed by a decoder *);
  stdin_closed : bool (* the SERVER closed its stdin (client-done, or the closure handler) *);
  rl : rpc (* program counter of the run() goroutine (handshake, read loop, deferred close) *);
  running : list (runid * stepid) (* runningSteps: run id -> step id, never pruned *);
  wd : list srverr (* workDone: buffered channel of capacity 3 *);
  wd_closed : bool (* close(workDone) has happened *);
  workers : list worker (* step and signal goroutines in spawn order *);
  nworkers : nat (* the wait group counting step and signal goroutines *);
  hp : hpc (* program counter of the closure handler (main goroutine) *);
  h_closed_stdin : bool (* handler-local: it already closed stdin *);
  send_failed : bool (* handler-local: an error report could not be written *);
  ctx_cancelled : bool (* the context handed to RunATPServer is cancelled *);
  ctx_seen : bool (* handler-local: ctx.Done() was taken once (ctxDone = nil) *);
  out : list omsg (* server -> client stream: messages written while the output was open *);
  out_closed : bool (* the client closed its end of the output: writes fail *);
  ret : list srverr (* the []*ServerError RunATPServer returns *);
  released : list Z (* tokens of slow steps the environment has let finish *);
  crashed : bool (* send on closed channel / nil dereference outside recover: the process is dead *);
  hist : list (event Z) (* GHOST: runtime messages / stream events the read loop has consumed after the handshake, oldest first *);
  raised : list srverr (* GHOST: every ServerError value created so far *);
  lost : list omsg (* GHOST: messages whose write failed because the output was closed *)
}.

Definition set_inq (x : list (event Z)) (s : state) : state := mkState x (stdin_closed s) (rl s) (running s) (wd s) (wd_closed s) (workers s) (nworkers s) (hp s) (h_closed_stdin s) (send_failed s) (ctx_cancelled s) (ctx_seen s) (out s) (out_closed s) (ret s) (released s) (crashed s) (hist s) (raised s) (lost s).
Definition set_stdin_closed (x : bool) (s : state) : state := mkState (inq s) x (rl s) (running s) (wd s) (wd_closed s) (workers s) (nworkers s) (hp s) (h_closed_stdin s) (send_failed s) (ctx_cancelled s) (ctx_seen s) (out s) (out_closed s) (ret s) (released s) (crashed s) (hist s) (raised s) (lost s).
Definition set_rl (x : rpc) (s : state) : state := mkState (inq s) (stdin_closed s) x (running s) (wd s) (wd_closed s) (workers s) (nworkers s) (hp s) (h_closed_stdin s) (send_failed s) (ctx_cancelled s) (ctx_seen s) (out s) (out_closed s) (ret s) (released s) (crashed s) (hist s) (raised s) (lost s).
Definition set_running (x : list (runid * stepid)) (s : state) : state := mkState (inq s) (stdin_closed s) (rl s) x (wd s) (wd_closed s) (workers s) (nworkers s) (hp s) (h_closed_stdin s) (send_failed s) (ctx_cancelled s) (ctx_seen s) (out s) (out_closed s) (ret s) (released s) (crashed s) (hist s) (raised s) (lost s).
Definition set_wd (x : list srverr) (s : state) : state := mkState (inq s) (stdin_closed s) (rl s) (running s) x (wd_closed s) (workers s) (nworkers s) (hp s) (h_closed_stdin s) (send_failed s) (ctx_cancelled s) (ctx_seen s) (out s) (out_closed s) (ret s) (released s) (crashed s) (hist s) (raised s) (lost s).
Definition set_wd_closed (x : bool) (s : state) : state := mkState (inq s) (stdin_closed s) (rl s) (running s) (wd s) x (workers s) (nworkers s) (hp s) (h_closed_stdin s) (send_failed s) (ctx_cancelled s) (ctx_seen s) (out s) (out_closed s) (ret s) (released s) (crashed s) (hist s) (raised s) (lost s).
Definition set_workers (x : list worker) (s : state) : state := mkState (inq s) (stdin_closed s) (rl s) (running s) (wd s) (wd_closed s) x (nworkers s) (hp s) (h_closed_stdin s) (send_failed s) (ctx_cancelled s) (ctx_seen s) (out s) (out_closed s) (ret s) (released s) (crashed s) (hist s) (raised s) (lost s).
Definition set_nworkers (x : nat) (s : state) : state := mkState (inq s) (stdin_closed s) (rl s) (running s) (wd s) (wd_closed s) (workers s) x (hp s) (h_closed_stdin s) (send_failed s) (ctx_cancelled s) (ctx_seen s) (out s) (out_closed s) (ret s) (released s) (crashed s) (hist s) (raised s) (lost s).
Definition set_hp (x : hpc) (s : state) : state := mkState (inq s) (stdin_closed s) (rl s) (running s) (wd s) (wd_closed s) (workers s) (nworkers s) x (h_closed_stdin s) (send_failed s) (ctx_cancelled s) (ctx_seen s) (out s) (out_closed s) (ret s) (released s) (crashed s) (hist s) (raised s) (lost s).
Definition set_h_closed_stdin (x : bool) (s : state) : state := mkState (inq s) (stdin_closed s) (rl s) (running s) (wd s) (wd_closed s) (workers s) (nworkers s) (hp s) x (send_failed s) (ctx_cancelled s) (ctx_seen s) (out s) (out_closed s) (ret s) (released s) (crashed s) (hist s) (raised s) (lost s).
Definition set_send_failed (x : bool) (s : state) : state := mkState (inq s) (stdin_closed s) (rl s) (running s) (wd s) (wd_closed s) (workers s) (nworkers s) (hp s) (h_closed_stdin s) x (ctx_cancelled s) (ctx_seen s) (out s) (out_closed s) (ret s) (released s) (crashed s) (hist s) (raised s) (lost s).
Definition set_ctx_cancelled (x : bool) (s : state) : state := mkState (inq s) (stdin_closed s) (rl s) (running s) (wd s) (wd_closed s) (workers s) (nworkers s) (hp s) (h_closed_stdin s) (send_failed s) x (ctx_seen s) (out s) (out_closed s) (ret s) (released s) (crashed s) (hist s) (raised s) (lost s).
Definition set_ctx_seen (x : bool) (s : state) : state := mkState (inq s) (stdin_closed s) (rl s) (running s) (wd s) (wd_closed s) (workers s) (nworkers s) (hp s) (h_closed_stdin s) (send_failed s) (ctx_cancelled s) x (out s) (out_closed s) (ret s) (released s) (crashed s) (hist s) (raised s) (lost s).
Definition set_out (x : list omsg) (s : state) : state := mkState (inq s) (stdin_closed s) (rl s) (running s) (wd s) (wd_closed s) (workers s) (nworkers s) (hp s) (h_closed_stdin s) (send_failed s) (ctx_cancelled s) (ctx_seen s) x (out_closed s) (ret s) (released s) (crashed s) (hist s) (raised s) (lost s).
Definition set_out_closed (x : bool) (s : state) : state := mkState (inq s) (stdin_closed s) (rl s) (running s) (wd s) (wd_closed s) (workers s) (nworkers s) (hp s) (h_closed_stdin s) (send_failed s) (ctx_cancelled s) (ctx_seen s) (out s) x (ret s) (released s) (crashed s) (hist s) (raised s) (lost s).
Definition set_ret (x : list srverr) (s : state) : state := mkState (inq s) (stdin_closed s) (rl s) (running s) (wd s) (wd_closed s) (workers s) (nworkers s) (hp s) (h_closed_stdin s) (send_failed s) (ctx_cancelled s) (ctx_seen s) (out s) (out_closed s) x (released s) (crashed s) (hist s) (raised s) (lost s).
Definition set_released (x : list Z) (s : state) : state := mkState (inq s) (stdin_closed s) (rl s) (running s) (wd s) (wd_closed s) (workers s) (nworkers s) (hp s) (h_closed_stdin s) (send_failed s) (ctx_cancelled s) (ctx_seen s) (out s) (out_closed s) (ret s) x (crashed s) (hist s) (raised s) (lost s).
Definition set_crashed (x : bool) (s : state) : state := mkState (inq s) (stdin_closed s) (rl s) (running s) (wd s) (wd_closed s) (workers s) (nworkers s) (hp s) (h_closed_stdin s) (send_failed s) (ctx_cancelled s) (ctx_seen s) (out s) (out_closed s) (ret s) (released s) x (hist s) (raised s) (lost s).
Definition set_hist (x : list (event Z)) (s : state) : state := mkState (inq s) (stdin_closed s) (rl s) (running s) (wd s) (wd_closed s) (workers s) (nworkers s) (hp s) (h_closed_stdin s) (send_failed s) (ctx_cancelled s) (ctx_seen s) (out s) (out_closed s) (ret s) (released s) (crashed s) x (raised s) (lost s).
Definition set_raised (x : list srverr) (s : state) : state := mkState (inq s) (stdin_closed s) (rl s) (running s) (wd s) (wd_closed s) (workers s) (nworkers s) (hp s) (h_closed_stdin s) (send_failed s) (ctx_cancelled s) (ctx_seen s) (out s) (out_closed s) (ret s) (released s) (crashed s) (hist s) x (lost s).
Definition set_lost (x : list omsg) (s : state) : state := mkState (inq s) (stdin_closed s) (rl s) (running s) (wd s) (wd_closed s) (workers s) (nworkers s) (hp s) (h_closed_stdin s) (send_failed s) (ctx_cancelled s) (ctx_seen s) (out s) (out_closed s) (ret s) (released s) (crashed s) (hist s) (raised s) x.

(* ------------------------------------------------------------------------------------- *)
(* labels *)

Inductive label :=
| LArrive (ev : event Z)    (* environment: the client's next bytes, as an event class *)
| LRelease (tok : Z)        (* environment: the slow step with this token may finish *)
| LCancel                   (* environment: the context is cancelled *)
| LCloseOut                 (* environment: the client closes its end of the output *)
| LRead                     (* the run() goroutine takes its next step *)
| LHandler (recv : bool)    (* the closure handler: its receive / main path, or the ctx.Done() case *)
| LWorker (i : nat).        (* the i-th step / signal goroutine takes its next step *)

Definition is_internal (l : label) : bool :=
  match l with LRead | LHandler _ | LWorker _ => true | _ => false end.

Definition init : state :=
  mkState [] false RStart [] [] false [] O HSelect false false false false [] false [] [] false [] [] [].

Definition fatal_err : srverr := mkSE "" true true.

Fixpoint zmem (z : Z) (l : list Z) : bool :=
  match l with [] => false | x :: t => Z.eqb z x || zmem z t end.

Fixpoint upd_nth {A} (i : nat) (x : A) (l : list A) : list A :=
  match l, i with
  | [], _ => []
  | _ :: t, O => x :: t
  | y :: t, S j => y :: upd_nth j x t
  end.

(* a ServerError value is created and the run() goroutine goes to send it on workDone *)
Definition raise (e : srverr) (k : rcont) (s : state) : state :=
  set_rl (RReport e k) (set_raised (raised s ++ [e]) s).

(* wg.Add(1); workersWg.Add(1); go func() {...}() *)
Definition spawn (w : worker) (s : state) : state :=
  set_workers (workers s ++ [w]) (set_nworkers (S (nworkers s)) s).

(* onRuntimeMessageReceived: dispatch on the message id *)
Definition handle_msg (m : msg Z) (s : state) : state :=
  match m with
  | WorkStart r st tok =>
      if String.eqb r "" || String.eqb st "" then raise (mkSE "" true false) KLoop s
      else spawn (mkW (KStep st tok) r WCall) (set_running ((r, st) :: running s) s)
  | Signal r sg d =>
      if String.eqb r "" then raise (mkSE "" false false) KLoop s
      else match alookup r (running s) with
           | None => raise (mkSE r false false) KLoop s
           | Some st => spawn (mkW (KSignal st sg (Z.eqb d 1)) r WCall) s
           end
  | ClientDone => set_rl RDefer (set_stdin_closed true s)
  | BadPayload id r =>
      if Z.eqb id 1 then raise (mkSE r true false) KLoop s          (* failed to decode work start message *)
      else if Z.eqb id 3 then raise (mkSE r false false) KLoop s    (* failed to decode signal message *)
      else if Z.eqb id 4 then set_rl RDefer (set_stdin_closed true s) (* client-done: data is not looked at *)
      else raise (mkSE "" false false) KLoop s
  | WorkDone _ _ _ _ _ | ErrMsg _ _ _ | Unknown _ _ =>
      raise (mkSE "" false false) KLoop s                            (* unknown message ID *)
  end.

Definition consume (ev : event Z) (q : list (event Z)) (s : state) : state :=
  set_hist (hist s ++ [ev]) (set_inq q s).

Definition step_read (s : state) : option state :=
  match rl s with
  | RStart =>
      if stdin_closed s then Some (raise fatal_err KDefer s)
      else match inq s with
           | [] => None
           | ev :: q =>
               (* the start message is not a runtime message: it is not recorded in `hist` *)
               match ev with
               | EvMsg _ | EvHello _ => Some (set_rl RHello (set_inq q s))   (* any well-formed item *)
               | _ => Some (raise fatal_err KDefer (set_inq q s))
               end
           end
  | RHello =>
      if out_closed s then Some (raise fatal_err KDefer s)
      else Some (set_rl RLoop (set_out (out s ++ [OHello]) s))
  | RLoop =>
      if stdin_closed s then Some (raise fatal_err KDefer s)
      else match inq s with
           | [] => None
           | ev :: q =>
               match ev with
               | EvMsg m => Some (handle_msg m (consume ev q s))
               | EvHello _ => Some (raise (mkSE "" false false) KLoop (consume ev q s))  (* a map without id: message id 0 *)
               | _ => Some (raise fatal_err KDefer (consume ev q s))
               end
           end
  | RReport e k =>
      if wd_closed s then Some (set_crashed true s)
      else if (3 <=? List.length (wd s))%nat then None
      else Some (set_rl (match k with KLoop => RLoop | KDefer => RDefer end) (set_wd (wd s ++ [e]) s))
  | RDefer =>
      match nworkers s with
      | O => Some (set_rl RGone (set_wd_closed true s))
      | S _ => None
      end
  | RGone => None
  end.

Definition step_handler (recv : bool) (s : state) : option state :=
  match hp s with
  | HSelect =>
      if recv then
        match wd s with
        | e :: q => Some (set_hp (HForward e) (set_ret (ret s ++ [e]) (set_wd q s)))
        | [] => if wd_closed s then Some (set_hp HWait s) else None
        end
      else if ctx_cancelled s && negb (ctx_seen s) then Some (set_ctx_seen true s) else None
  | HForward e =>
      if recv then
        let s1 := if send_failed s then set_lost (lost s ++ [OErr e]) s
                  else if out_closed s then set_send_failed true (set_lost (lost s ++ [OErr e]) s)
                  else set_out (out s ++ [OErr e]) s in
        if (send_failed s1 || se_vf e) && negb (h_closed_stdin s1)
        then Some (set_hp HClose s1) else Some (set_hp HSelect s1)
      else None
  | HClose =>
      if recv then Some (set_hp HSelect (set_h_closed_stdin true (set_stdin_closed true s))) else None
  | HWait =>
      if recv then
        match rl s, nworkers s with
        | RGone, O => Some (set_hp HReturned s)
        | _, _ => None
        end
      else None
  | HReturned => None
  end.

Definition step_outcome (c : cfg) (st : stepid) (tok : Z) : sbeh :=
  if c_step_known c st then c_beh c tok else BFails.

Definition handler_reached (c : cfg) (st : stepid) (tok : Z) : bool :=
  c_step_known c st && match c_beh c tok with BFails => false | _ => true end.

Definition set_wpc (i : nat) (w : worker) (pc : wpc) (s : state) : state :=
  set_workers (upd_nth i (mkW (w_kind w) (w_run w) pc) (workers s)) s.

Definition step_worker (c : cfg) (i : nat) (s : state) : option state :=
  match nth_error (workers s) i with
  | None => None
  | Some w =>
      match w_pc w with
      | WCall =>
          match w_kind w with
          | KStep st tok =>
              if handler_reached c st tok && c_slow c tok && negb (zmem tok (released s)) then None
              else match step_outcome c st tok with
                   | BSuccess o => Some (set_wpc i w (WSendDone o) s)
                   | _ => let e := mkSE (w_run w) true false in
                          Some (set_wpc i w (WReport e) (set_raised (raised s ++ [e]) s))
                   end
          | KSignal st sg ok =>
              if c_step_known c st && c_sig_known c sg && ok then Some (set_wpc i w WExit s)
              else let e := mkSE (w_run w) false false in
                   Some (set_wpc i w (WReport e) (set_raised (raised s ++ [e]) s))
          end
      | WSendDone o =>
          if out_closed s then Some (set_wpc i w WExit (set_lost (lost s ++ [ODone (w_run w) o]) s))
          else Some (set_wpc i w WExit (set_out (out s ++ [ODone (w_run w) o]) s))
      | WReport e =>
          if wd_closed s then Some (set_crashed true s)
          else if (3 <=? List.length (wd s))%nat then None
          else Some (set_wpc i w WExit (set_wd (wd s ++ [e]) s))
      | WExit => Some (set_wpc i w WGone (set_nworkers (Nat.pred (nworkers s)) s))
      | WGone => None
      end
  end.

Definition step (c : cfg) (s : state) (l : label) : option state :=
  if crashed s then None else
  match l with
  | LArrive ev => Some (set_inq (inq s ++ [ev]) s)
  | LRelease t => Some (set_released (t :: released s) s)
  | LCancel => Some (set_ctx_cancelled true s)
  | LCloseOut => Some (set_out_closed true s)
  | LRead => step_read s
  | LHandler r => step_handler r s
  | LWorker i => step_worker c i s
  end.

(* a schedule is any list of labels; a label that is not enabled is skipped *)
Definition step_or_stay (c : cfg) (s : state) (l : label) : state :=
  match step c s l with Some s' => s' | None => s end.
Definition run (c : cfg) (s : state) (ls : list label) : state := fold_left (step_or_stay c) ls s.

(* ------------------------------------------------------------------------------------- *)
(* the termination measure (C07_returns) — also the fuel of `settle` *)

Definition rl_weight (p : rpc) : nat :=
  match p with
  | RStart => 8 | RHello => 7 | RLoop => 6 | RReport _ KLoop => 10 | RReport _ KDefer => 5 | RDefer => 1 | RGone => 0
  end%nat.
Definition w_weight (p : wpc) : nat :=
  match p with WCall => 6 | WSendDone _ => 2 | WReport _ => 5 | WExit => 1 | WGone => 0 end%nat.
Definition h_weight (p : hpc) : nat :=
  match p with HSelect => 2 | HForward _ => 4 | HClose => 3 | HWait => 1 | HReturned => 0 end%nat.
Definition workers_weight (ws : list worker) : nat := list_sum (map (fun w => w_weight (w_pc w)) ws).
Definition mu (s : state) : nat :=
  (7 * List.length (inq s) + rl_weight (rl s) + workers_weight (workers s) + 3 * List.length (wd s)
   + h_weight (hp s) + (if ctx_seen s then 0 else 1) + (if crashed s then 0 else 1))%nat.

(* ------------------------------------------------------------------------------------- *)
(* a deterministic scheduler for the correspondence check: the scripted peer performs one action
   and waits for quiescence, so the model performs one environment label and then runs internal
   steps (lowest thread first) until none is enabled *)

Fixpoint first_worker (c : cfg) (s : state) (is : list nat) : option state :=
  match is with
  | [] => None
  | i :: t => match step c s (LWorker i) with Some s' => Some s' | None => first_worker c s t end
  end.

Definition first_internal (c : cfg) (s : state) : option state :=
  match step c s LRead with
  | Some s' => Some s'
  | None =>
    match step c s (LHandler true) with
    | Some s' => Some s'
    | None =>
      match step c s (LHandler false) with
      | Some s' => Some s'
      | None => first_worker c s (seq 0 (List.length (workers s)))
      end
    end
  end.

Fixpoint settle (c : cfg) (fuel : nat) (s : state) : state :=
  match fuel with
  | O => s
  | S f => match first_internal c s with Some s' => settle c f s' | None => s end
  end.

Definition act (c : cfg) (s : state) (l : label) : state :=
  let s1 := step_or_stay c s l in settle c (S (mu s1)) s1.

Definition run_script (c : cfg) (ls : list label) : state :=
  fold_left (act c) ls (settle c (S (mu init)) init).
