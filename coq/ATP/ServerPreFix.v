(* ATP/ServerPreFix.v — the server as it was BEFORE the repair of D21/D24, kept as a permanent
   witness that the theorems of Properties/C07.v distinguish the two.

   Differences to ATP/Server.v (atp/server.go before commit "the ATP server keeps its report
   channel open and drained ..."):
     * run()'s deferred function closes workDone as soon as the read loop has ended, without
       waiting for the step and signal goroutines (D21);
     * the closure handler leaves its loop on ctx.Done() and after closing stdin on a
       server-fatal error / a failed write, and nobody receives from workDone afterwards (D24);
     * schema.CallSignal dereferences nil for an undeclared signal id of a known step, in a
       goroutine without recover (D22; schema/schema.go before "CallSignal returns an error ...").
   Everything else is the transition function of the repaired model. *)
From Verif Require Import Base.Prelude Base.Str ATP.Msg ATP.Server.
Open Scope string_scope.
Open Scope list_scope.
Open Scope Z_scope.

Definition prefix_step (c : cfg) (s : state) (l : label) : option state :=
  if crashed s then None else
  match l, rl s, hp s with
  | LRead, RDefer, _ => Some (set_rl RGone (set_wd_closed true s))      (* close(s.workDone): no wait for the steps *)
  | LHandler false, _, HSelect =>
      if ctx_cancelled s then Some (set_hp HWait s) else None             (* case <-s.ctx.Done(): break closeLoop *)
  | LHandler true, _, HClose =>
      Some (set_hp HWait (set_h_closed_stdin true (set_stdin_closed true s)))  (* stdin closed: break closeLoop *)
  | LWorker i, _, _ =>
      match nth_error (workers s) i with
      | Some w =>
          match w_pc w, w_kind w with
          | WCall, KSignal st sg _ =>
              if c_step_known c st && negb (c_sig_known c sg) then Some (set_crashed true s)   (* nil dereference *)
              else step c s l
          | _, _ => step c s l
          end
      | None => None
      end
  | _, _, _ => step c s l
  end.

Definition prefix_step_or_stay (c : cfg) (s : state) (l : label) : state :=
  match prefix_step c s l with Some s' => s' | None => s end.
Definition prefix_run (c : cfg) (s : state) (ls : list label) : state := fold_left (prefix_step_or_stay c) ls s.

(* the plugin of the witnesses: one step "s" whose execution 1 returns an undeclared output *)
Definition prefix_cfg : cfg :=
  mkCfg (fun _ => BUndeclared) (fun _ => false) (fun st => String.eqb st "s") (fun _ => false).

(* D21: the client sends a work-start and ends its input; the read loop reports the end of input,
   closes workDone; then the step fails and sends its report on the closed channel. *)
Definition d21_schedule : list label :=
  [ LArrive (EvMsg (Unknown 0 "")); LArrive (EvMsg (WorkStart "a" "s" 1)); LArrive EvEOF;
    LRead;            (* start message *)
    LRead;            (* hello *)
    LRead;            (* work-start: the step goroutine is spawned *)
    LRead;            (* end of input: a server-fatal ServerError is created *)
    LRead;            (* ... and sent on workDone *)
    LRead;            (* deferred: close(workDone) *)
    LWorker 0;        (* CallStep returns "undeclared output" *)
    LWorker 0 ].      (* s.workDone <- ServerError{...}: send on closed channel *)

(* D24: the context is cancelled, the handler leaves; four reports later the read loop blocks on the
   full channel for ever although the input has ended. *)
Definition d24_schedule : list label :=
  [ LArrive (EvMsg (Unknown 0 "")); LCancel;
    LArrive (EvMsg (Unknown 9 "")); LArrive (EvMsg (Unknown 9 "")); LArrive (EvMsg (Unknown 9 ""));
    LArrive (EvMsg (Unknown 9 "")); LArrive EvEOF;
    LRead; LRead;                 (* handshake *)
    LHandler false;               (* ctx.Done(): the handler leaves *)
    LRead; LRead; LRead; LRead; LRead; LRead;   (* three reports created and buffered *)
    LRead; LRead ].               (* the fourth is created; its send blocks *)

(* D22: a signal with an undeclared id for a running step *)
Definition d22_schedule : list label :=
  [ LArrive (EvMsg (Unknown 0 "")); LArrive (EvMsg (WorkStart "a" "s" 1)); LArrive (EvMsg (Signal "a" "nosuchsignal" 1));
    LRead; LRead;     (* handshake *)
    LRead;            (* work-start: goroutine 0 *)
    LRead;            (* signal: goroutine 1 *)
    LWorker 1 ].      (* CallSignal: step.SignalHandlers()[signalID].DataSchema() on nil *)
