(* ATP/ClientPreFix.v — the read loop of atp/client.go BEFORE the D20 repair, kept as a permanent witness.

   Unchanged code:   if !c.hasEntriesRemaining() { return }      -- critical section 1: "nothing pending"
                     defer func() { c.mutex.Lock(); c.readLoopRunning = false; c.wg.Done(); c.mutex.Unlock() }()
                                                                  -- critical section 2: the flag is cleared
   and the fatal exits fan the error out (critical section 1) and clear the flag in the same deferred step.
   Between the two, an Execute can register its entry, see readLoopRunning still true and start no loop.

   The pre-fix system is the repaired one (ATP/Client.v) with one extra bit: `clearing` = the loop has left its
   for-loop and only the deferred function is still to run. *)
From Verif Require Import Base.Prelude Base.Str ATP.Msg ATP.Client.
Set Implicit Arguments.

Section PreFix.
Variable payload : Type.
Notation state := (state payload).

Definition pstate := (state * bool)%type.

Definition lift (clearing : bool) (o : option state) : option pstate :=
  match o with Some s => Some (s, clearing) | None => None end.

Definition pre_step (ps : pstate) (l : label) : option pstate :=
  let '(s, clearing) := ps in
  match l with
  | LLoop k =>
      match cur s with
      | None => None
      | Some lo =>
          if clearing then (if Nat.eqb k 0 then Some (loop_exit s lo, false) else None)   (* the deferred function *)
          else match l_pc lo with
               | LCheck =>
                   if negb (Nat.eqb k 0) then None
                   else if has_pending (entries s) then lift false (step_loop s k)
                   else Some (s, true)                                      (* hasEntriesRemaining() = false: return *)
               | LFatal => if Nat.eqb k 0 then Some (fan_out s (RErr ErrStream), true) else None
               | LHandle (ErrMsg _ _ true) => if Nat.eqb k 0 then Some (fan_out s (RErr ErrServerFatal), true) else None
               | _ => lift false (step_loop s k)
               end
      end
  | _ => lift clearing (step s l)
  end.

Fixpoint pre_run (ps : pstate) (ls : list label) : option pstate :=
  match ls with
  | [] => Some ps
  | l :: t => match pre_step ps l with Some ps' => pre_run ps' t | None => None end
  end.

End PreFix.
