(* ATP/SystemVal.v — the composition ATP/System.v AT THE VALUE LEVEL, as a transition system of its own: the client
   component is the client model ATP/Client.v instantiated at payload := gval - the callers hold the real input values,
   the work-starts on the wire carry them, the results returned to the callers carry real output values -, the server
   component is the server model ATP/Server.v.

   The server model's payloads are tokens; the value level uses them as NAMES:
     * when the oldest client message crosses the pipe, the server model receives it under the name of the call its RUN
       ID belongs to (name_of: the position of the run id in the session; the value itself stays on the value side);
     * the plugin oracle attached to a name is ATP/SystemV.v v_scfg: the behaviour of name i is the class of CallStep on
       cbor_norm n_in (input value of call i), and its output data is named -1-i;
     * what the server writes goes to the client as VALUES: the data of a work-done named -1-i is v_den (-1-i) =
       cbor_norm n_out (serialized output data of that CallStep).
   That the value which actually crossed the pipe under run id r IS the input value of the call named by r - so that
   the oracle speaks about the right value - is not assumed: it is part of what Proofs/C05Image.v proves (the value-level
   executions are exactly the images of the token-level executions of ATP/System.v; `image_wire`).

   vsys_step mirrors ATP/System.v sys_step label for label. *)
From Coq Require Import List ZArith Bool String.
From Verif Require Import Base.Prelude Base.Str Base.Float Base.GoVal
  Schema.Regex Schema.Units Schema.Syntax Schema.Ops Schema.Cbor ATP.Msg ATP.System Call.Step ATP.SystemV.
From Verif Require Proofs.C05Param.
Import ListNotations.
Local Open Scope string_scope.
Local Open Scope list_scope.

Section Val.
Variable D : vcfg.
Variable vcalls : list (C.callspec gval).

Fixpoint idx_of (r : runid) (l : list runid) (k : nat) : Z :=
  match l with
  | [] => (-1)%Z
  | x :: t => if String.eqb r x then Z.of_nat k else idx_of r t (S k)
  end.
(* the name of the call with run id r *)
Definition name_of (r : runid) : Z := idx_of r (map (@C.cs_run gval) vcalls) 0.

(* a client message as the server model receives it: payloads replaced by the name of the run's call *)
Definition name_msg (m : msg gval) : msg Z :=
  match m with
  | WorkStart r st _ => WorkStart r st (name_of r)
  | Signal r sg _ => Signal r sg (name_of r)
  | WorkDone r st o _ lg => WorkDone r st o 0%Z lg
  | ClientDone => ClientDone
  | ErrMsg r sf vf => ErrMsg r sf vf
  | Unknown id r => Unknown id r
  | BadPayload id r => BadPayload id r
  end.

Record vstate := mkVSys { vcl : C.state gval; vsv : S.state }.

(* what the server writes reaches the client as values *)
Definition vpush (cs : C.state gval) (evs : list (event Z)) : C.state gval :=
  C.set_from_server cs (C.from_server cs ++ map (Verif.Proofs.C05Param.map_event Z gval (v_den D vcalls)) evs).

Definition vsrv_step (s : vstate) (l : S.label) : option vstate :=
  match S.step (sc_srv (v_scfg D vcalls)) (vsv s) l with
  | None => None
  | Some ss' =>
      Some (mkVSys (vpush (vcl s) (List.concat (map (wire_of (v_scfg D vcalls) (vsv s) l) (new_out (vsv s) ss')))) ss')
  end.

Definition vsys_step (s : vstate) (y : slabel) : option vstate :=
  match y with
  | YClient l =>
      if client_label l then
        match C.step (vcl s) l with Some cs' => Some (mkVSys cs' (vsv s)) | None => None end
      else None
  | YPipe =>
      match C.to_server (vcl s) with
      | [] => None
      | m :: _ =>
          match C.step (vcl s) C.LPeerAccept,
                S.step (sc_srv (v_scfg D vcalls)) (vsv s) (S.LArrive (EvMsg (name_msg m))) with
          | Some cs', Some ss' => Some (mkVSys cs' ss')
          | _, _ => None
          end
      end
  | YServer l => if S.is_internal l then vsrv_step s l else None
  | YRelease tok =>
      if existsb (blocked_on (sc_srv (v_scfg D vcalls)) (vsv s) tok) (S.workers (vsv s))
      then vsrv_step s (S.LRelease tok) else None
  end.

Fixpoint vsys_run (s : vstate) (ys : list slabel) : option vstate :=
  match ys with
  | [] => Some s
  | y :: t => match vsys_step s y with Some s' => vsys_run s' t | None => None end
  end.

Definition vsys_final (s : vstate) : Prop := forall y, vsys_step s y = None.

(* the session as the harness states it: real input values, server after the handshake *)
Definition vsys_init (close : bool) : vstate := mkVSys (C.init (C.mkSession vcalls close [] None None)) srv0.

(* what Execute number i has returned: a real (output id, output value) or an error *)
Definition vsys_res (s : vstate) (i : nat) : option (C.result gval) :=
  match nth_error (C.callers (vcl s)) i with
  | Some c => match C.c_pc c with C.CDone v => Some v | _ => None end
  | None => None
  end.

End Val.
