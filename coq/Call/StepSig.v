(* Call/StepSig.v — CallableStepSchema.CallSignal called DIRECTLY on the step object (schema/step.go), the
   second of the two public entry points that deliver a signal:

     CallableSchema.CallSignal(run, step, sig, raw)      schema.go: step lookup, `step.SignalHandlers()[sig]`,
                                                         DataSchema().Unserialize(raw), then
     CallableStepSchema.CallSignal(run, sig, native)     step.go: `SignalHandlersValue[sig]`, setupStepData,
                                                         CallableSignalSchema.Call: InputValue.Validate, handler.

   BOTH lookups go by the key under which the step REGISTERED the handler (the key of SignalHandlersValue;
   `SignalHandlers()` and `ToStepSchema()` re-key the published map by that same key).  The signal's own
   `IDValue` takes no part in any lookup: `sd_signals` of Call/Step.v is that registration map, and a step may
   register a signal under a key that differs from the signal's ID (one reusable signal definition registered
   under several names).  The case syntax of Interp/RunStep.v carries the own ID as an optional third element
   of a signal descriptor; the model ignores it — which is the statement that it must not matter.

   `sop2` extends the histories of Call/Step.v by the direct signal call; `exec_ops2` on a history without
   direct signal calls IS `exec_ops` (exec_ops2_base). *)
From Coq Require Import List String.
From Verif Require Import Base.Prelude Base.Str Base.Float Base.GoVal
  Schema.Regex Schema.Units Schema.Syntax Schema.Ops ATP.Msg Call.Step.
Import ListNotations.
Open Scope string_scope.

Section SigCalls.
Variable words : list (string * bool).
Variable pu : units -> string -> option fl.
Variable e : env.
Variable fuel : nat.

(* step.go CallSignal: unknown key -> BadArgumentError; setupStepData; signal.Call: Validate -> InvalidInputError *)
Definition call_signal_direct (ps : pstate) (p : plugin) (run : runid) (sid : stepid) (sig : string) (input : gval)
  : sres unit * list log_entry * pstate :=
  match alookup sid p with
  | None => (SErr CENoSuchStep, [], ps)      (* no Go counterpart: the caller holds the step object *)
  | Some st =>
      match alookup sig (sd_signals st) with
      | None => (SErr CENoSuchSignal, [], ps)
      | Some ss =>
          let '(t', d) := setup_step_data (sd_has_init st) run (tab_of ps sid) in
          let ps' := tab_set sid t' ps in
          match s_validate words pu e fuel ss input with
          | Err er => (SErr (CEInvalidInput er), [], ps')
          | Panic w => (SPanic w, [], ps')
          | OutOfFuel => (SFuel, [], ps')
          | Ok _ => (SOk tt, [LSignal sid sig run d input], ps')
          end
      end
  end.

Inductive sop2 :=
| OpBase (o : sop)
| OpDirectSignal (run : runid) (sid : stepid) (sig : string) (input : gval).

Definition exec_op2 (p : plugin) (ps : pstate) (o : sop2) : op_result * list log_entry * pstate :=
  match o with
  | OpBase o => exec_op words pu e fuel p ps o
  | OpDirectSignal run sid sig input =>
      let '(r, l, ps') := call_signal_direct ps p run sid sig input in (RSignal r, l, ps')
  end.
Definition exec_acc2 (p : plugin) (acc : list (op_result * list log_entry) * pstate) (o : sop2)
  : list (op_result * list log_entry) * pstate :=
  let '(r, l, ps') := exec_op2 p (snd acc) o in ((fst acc ++ [(r, l)])%list, ps').
Definition exec_ops2 (p : plugin) (ops : list sop2) : list (op_result * list log_entry) * pstate :=
  fold_left (exec_acc2 p) ops ([], []).

(* ---------- lemmas ---------- *)
Lemma exec_acc2_base : forall p acc o, exec_acc2 p acc (OpBase o) = exec_acc words pu e fuel p acc o.
Proof. intros. reflexivity. Qed.

Lemma fold_base : forall p ops acc,
  fold_left (exec_acc2 p) (map OpBase ops) acc = fold_left (exec_acc words pu e fuel p) ops acc.
Proof.
  intros p ops. induction ops as [|o t IH]; intros acc; [reflexivity|].
  simpl. rewrite exec_acc2_base. apply IH.
Qed.

Lemma exec_ops2_base : forall p ops, exec_ops2 p (map OpBase ops) = exec_ops words pu e fuel p ops.
Proof. intros. unfold exec_ops2, exec_ops. apply fold_base. Qed.

(* CallableSchema.CallSignal = (lookup by registration key) ; Unserialize ; CallableStepSchema.CallSignal *)
Lemma signal_factors : forall ps p run sid st sig ss raw n,
  alookup sid p = Some st -> alookup sig (sd_signals st) = Some ss ->
  s_unser words pu e fuel ss raw = Ok n ->
  call_signal words pu e fuel ps p run sid sig raw = call_signal_direct ps p run sid sig n.
Proof.
  intros ps p run sid st sig ss raw n Hst Hsig Hu.
  unfold call_signal, call_signal_gen, call_signal_direct. rewrite Hst, Hsig, Hu. reflexivity.
Qed.

(* a rejected raw value never reaches the step object *)
Lemma signal_rejected_raw : forall ps p run sid st sig ss raw er,
  alookup sid p = Some st -> alookup sig (sd_signals st) = Some ss ->
  s_unser words pu e fuel ss raw = Err er ->
  call_signal words pu e fuel ps p run sid sig raw = (SErr (CEInvalidInput er), [], ps).
Proof.
  intros ps p run sid st sig ss raw er Hst Hsig Hu.
  unfold call_signal, call_signal_gen. rewrite Hst, Hsig, Hu. reflexivity.
Qed.

Lemma direct_signal_unknown : forall ps p run sid st sig input,
  alookup sid p = Some st -> alookup sig (sd_signals st) = None ->
  call_signal_direct ps p run sid sig input = (SErr CENoSuchSignal, [], ps).
Proof. intros ps p run sid st sig input Hst Hsig. unfold call_signal_direct. rewrite Hst, Hsig. reflexivity. Qed.

(* the handler registered under `sig` runs — once, with exactly the value passed in — iff that value passes the
   data schema registered under `sig`; whatever other keys and own IDs the step's signals have *)
Lemma direct_signal_handler_iff : forall ps p run sid st sig ss input,
  alookup sid p = Some st -> alookup sig (sd_signals st) = Some ss ->
  ((exists d, snd (fst (call_signal_direct ps p run sid sig input)) = [LSignal sid sig run d input]) <->
   (exists u, s_validate words pu e fuel ss input = Ok u)) /\
  ((forall u, s_validate words pu e fuel ss input <> Ok u) ->
   snd (fst (call_signal_direct ps p run sid sig input)) = []).
Proof.
  intros ps p run sid st sig ss input Hst Hsig. unfold call_signal_direct. rewrite Hst, Hsig.
  destruct (setup_step_data (sd_has_init st) run (tab_of ps sid)) as [t' d].
  destruct (s_validate words pu e fuel ss input) as [u| | |] eqn:EV; simpl; split.
  - split; intros _; [exists u; reflexivity|exists d; reflexivity].
  - intros H. exfalso. exact (H u eq_refl).
  - split; intros [x H]; discriminate.
  - reflexivity.
  - split; intros [x H]; discriminate.
  - reflexivity.
  - split; intros [x H]; discriminate.
  - reflexivity.
Qed.

(* the lookup depends on nothing but the entry registered under the key: re-keying or re-ordering the OTHER
   entries (in particular: what a map keyed by the signals' own IDs would do to them) changes nothing *)
Lemma direct_signal_only_its_entry : forall ps run sid sig input (st1 st2 : step_d) p1 p2,
  alookup sid p1 = Some st1 -> alookup sid p2 = Some st2 ->
  alookup sig (sd_signals st1) = alookup sig (sd_signals st2) ->
  sd_has_init st1 = sd_has_init st2 ->
  call_signal_direct ps p1 run sid sig input = call_signal_direct ps p2 run sid sig input.
Proof.
  intros ps run sid sig input st1 st2 p1 p2 H1 H2 Hs Hi. unfold call_signal_direct.
  rewrite H1, H2, Hs, Hi. reflexivity.
Qed.
End SigCalls.
