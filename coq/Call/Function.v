(* Call/Function.v — C18: callable functions (schema/function.go), the REPAIRED code
   (D35: the error result is compared with the error interface type, not with a type name;
    D38: variadic handlers are rejected by both constructors; D39: Call checks every
    argument against its parameter type before reflect.Value.Call and turns an untyped nil
    into the typed nil of a parameter that can hold one).
   Executable model and the declarative specification only: no proofs here. *)
From Verif Require Import Base.Prelude.
Open Scope string_scope.

(* ---- Go types that occur in handler signatures and as dynamic types of arguments ---- *)
Inductive gty :=
| GBool | GInt64 | GFloat64 | GString
| GAny                                   (* interface{} *)
| GErr                                   (* the predeclared interface type `error` *)
| GSlice (t : gty)
| GMap (k v : gty)
| GStruct (name : string) (is_err : bool).
  (* a defined struct type: name = reflect.Type.Name() (the identity of the type in this
     model); is_err = "its method set contains Error() string".  GStruct "error" false is a
     struct type that is merely NAMED error (package fakeerr of the harness). *)

(* == on reflect.Type: type identity *)
Fixpoint gty_eqb (a b : gty) : bool :=
  match a, b with
  | GBool, GBool | GInt64, GInt64 | GFloat64, GFloat64 | GString, GString
  | GAny, GAny | GErr, GErr => true
  | GSlice x, GSlice y => gty_eqb x y
  | GMap k v, GMap k' v' => gty_eqb k k' && gty_eqb v v'
  | GStruct n e, GStruct n' e' => String.eqb n n' && Bool.eqb e e'
  | _, _ => false
  end.

(* Kind() == reflect.Interface *)
Definition is_interface (t : gty) : bool :=
  match t with GAny | GErr => true | _ => false end.

(* the kinds whose zero value is nil (Interface, Map, Slice; Pointer/Func/Chan do not occur) *)
Definition nillable (t : gty) : bool :=
  match t with GAny | GErr | GSlice _ | GMap _ _ => true | _ => false end.

Definition implements_error (t : gty) : bool :=
  match t with GErr => true | GStruct _ e => e | _ => false end.

(* reflect.Type.AssignableTo for a dynamic (hence non-interface) type t and a parameter type
   p: identical types, or p is an interface that t implements.  (The third rule of Go's
   assignability — identical underlying types, one side not a defined type — adds nothing
   here: the only defined non-predeclared types are the structs, whose underlying struct
   literal is not in gty.) *)
Definition assignable (t p : gty) : bool :=
  gty_eqb t p || match p with GAny => true | GErr => implements_error t | _ => false end.

(* ---- handler signature (hsig; `sig` is left to Coq) and declaration ---- *)
Record hsig := mkSig {
  s_ins : list gty;          (* Type().In(i): a variadic parameter ...T appears as []T *)
  s_outs : list gty;         (* Type().Out(i) *)
  s_variadic : bool }.       (* Type().IsVariadic() *)

Record decl := mkDecl {
  d_ins : list gty;          (* inputs[i].ReflectedType() *)
  d_out : option gty;        (* output.ReflectedType(); None = nil output (void) *)
  d_err : bool }.            (* outputsError *)

(* ---- the constructors ---- *)

(* the comparison loop of validateInputTypeCompatibility *)
Fixpoint types_match (expected handler : list gty) : bool :=
  match expected, handler with
  | [], [] => true
  | e :: et, h :: ht => gty_eqb e h && types_match et ht
  | _, _ => false
  end.

(* validateInputTypeCompatibility (with the D38 rejection of variadic handlers) *)
Definition validate_inputs (di : list gty) (s : hsig) : bool :=
  negb (s_variadic s)
  && Nat.eqb (List.length di) (List.length (s_ins s))
  && types_match di (s_ins s).

Definition expected_return_count (o : option gty) (e : bool) : nat :=
  ((match o with Some _ => 1 | None => 0 end) + (if e then 1 else 0))%nat.

(* validateTypedReturnFunc (with the D35 comparison against the error interface type) *)
Definition validate_return (s : hsig) (e : bool) (o : option gty) : bool :=
  let n := List.length (s_outs s) in
  Nat.eqb (expected_return_count o e) n
  && (if e then match nth_error (s_outs s) (n - 1) with
                | Some t => gty_eqb t GErr
                | None => false
                end
      else true)
  && match o with
     | Some t => match nth_error (s_outs s) 0 with
                 | Some h => gty_eqb t h
                 | None => false
                 end
     | None => true
     end.

(* NewCallableFunction returns a nil error *)
Definition accept_static (d : decl) (s : hsig) : bool :=
  validate_inputs (d_ins d) s && validate_return s (d_err d) (d_out d).

(* NewDynamicCallableFunction returns a nil error *)
Definition accept_dynamic (di : list gty) (s : hsig) : bool :=
  validate_inputs di s
  && Nat.eqb (List.length (s_outs s)) 2
  && match nth_error (s_outs s) 1 with Some t => gty_eqb t GErr | None => false end
  && match nth_error (s_outs s) 0 with Some t => is_interface t | None => false end.

(* what Call reads from the CallableFunctionSchema: the handler's type and whether
   StaticOutputValue != nil || DynamicTypeHandler != nil *)
Record fn := mkFn { f_sig : hsig; f_has_out : bool }.

Definition new_callable (d : decl) (s : hsig) : option fn :=
  if accept_static d s
  then Some (mkFn s (match d_out d with Some _ => true | None => false end))
  else None.

Definition new_dynamic (di : list gty) (s : hsig) : option fn :=
  if accept_dynamic di s then Some (mkFn s true) else None.

(* ---- the declarative side of C18 ---- *)
Definition declared_outs (d : decl) : list gty :=
  (match d_out d with Some t => [t] | None => [] end) ++ (if d_err d then [GErr] else []).

(* ---- Call ---- *)
Section Call.
  Variables V E : Type.                (* result values / error values of the handler *)

  (* an element of `arguments []any`: nil, or a value with its dynamic type *)
  Inductive arg := ANil | AVal (t : gty) (v : V).

  (* what the handler returns: the value of its value result (read only when it has one)
     and its error result (None = nil; read only when it has an error result) *)
  Record hres := mkHres { h_val : V; h_err : option E }.

  (* the handler's behaviour: any function of the arguments it receives *)
  Variable handler : list arg -> hres.

  Inductive call_err :=
  | Reported (e : E)     (* *FunctionCallError with IsFunctionReportedError = true, SourceError = e *)
  | Shape.               (* *FunctionCallError with IsFunctionReportedError = false *)

  Inductive call_res :=
  | COk (v : option V)   (* (v, nil); None = (nil, nil) of a function without a value result *)
  | CErr (e : call_err)  (* (nil, err) *)
  | CPanic (why : string).

  (* D39 (repaired): nil needs a parameter kind that has a nil; anything else must be
     assignable to the parameter type *)
  Definition arg_fits (a : arg) (p : gty) : bool :=
    match a with ANil => nillable p | AVal t _ => assignable t p end.

  Fixpoint args_fit (args : list arg) (ps : list gty) : bool :=
    match args, ps with
    | [], [] => true
    | a :: at', p :: pt => arg_fits a p && args_fit at' pt
    | _, _ => false
    end.

  (* CallableFunctionSchema.Call.  The two Panic branches are where reflect panics in the
     Go code (Value.Call on a variadic func that is handed its slice as one argument — for a
     non-interface element type; an interface element type silently wraps the list instead,
     which this model does not distinguish — and Value.IsNil on a non-nillable kind); the
     theorems show that neither is reachable from a function built by a constructor. *)
  Definition call (f : fn) (args : list arg) : call_res :=
    let s := f_sig f in
    if negb (Nat.eqb (List.length args) (List.length (s_ins s))) then CErr Shape
    else if negb (args_fit args (s_ins s)) then CErr Shape
    else if s_variadic s then CPanic "reflect.Value.Call: variadic handler called with its slice as one argument"
    else
      let r := handler args in
      let got := List.length (s_outs s) in
      let expected := if f_has_out f then 1%nat else 0%nat in
      let value := if f_has_out f then Some (h_val r) else None in
      if Nat.eqb expected got then COk value
      else if Nat.eqb (expected + 1) got then
        match nth_error (s_outs s) expected with
        | Some t =>
            if negb (nillable t) then CPanic "reflect.Value.IsNil on a non-nillable kind"
            else match h_err r with
                 | None => COk value
                 | Some e => if is_interface t then CErr (Reported e)
                             else CErr Shape      (* "error return val isn't an error" *)
                 end
        | None => CErr Shape
        end
      else CErr Shape.                             (* "unexpected return count" *)

  (* the declarative result for a well-formed call: exactly what the handler returned *)
  Definition faithful_result (has_out errs : bool) (r : hres) : call_res :=
    let v := if has_out then Some (h_val r) else None in
    if errs then match h_err r with Some e => CErr (Reported e) | None => COk v end
    else COk v.

  Definition is_cpanic (r : call_res) : bool :=
    match r with CPanic _ => true | _ => false end.
End Call.

Arguments ANil {V}.
Arguments AVal {V}.
Arguments mkHres {V E}.
Arguments h_val {V E}.
Arguments h_err {V E}.
Arguments Reported {E}.
Arguments Shape {E}.
Arguments COk {V E}.
Arguments CErr {V E}.
Arguments CPanic {V E}.
Arguments arg_fits {V}.
Arguments args_fit {V}.
Arguments call {V E}.
Arguments faithful_result {V E}.
Arguments is_cpanic {V E}.
